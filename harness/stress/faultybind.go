package stress

import (
	"sync/atomic"

	"golang.zx2c4.com/wireguard/conn"

	"wgv/sim"
)

// TempErr is a net.Error with Temporary() == true (like ECONNRESET after an
// ICMP error or EINTR on a UDP socket).
type TempErr struct{}

func (TempErr) Error() string   { return "injected: transient receive error" }
func (TempErr) Timeout() bool   { return false }
func (TempErr) Temporary() bool { return true }

// FaultyBind wraps a sim.Bind: same Open/Close/Send, but every receive
// function returned by Open can be told to return one temporary error before
// it goes on reading (Arm(n): the next n receive calls fail).
type FaultyBind struct {
	*sim.Bind
	armed    atomic.Int32
	Returned atomic.Int32 // errors actually returned to the device
}

func NewFaultyBind(b *sim.Bind) *FaultyBind { return &FaultyBind{Bind: b} }

func (f *FaultyBind) Arm(n int) { f.armed.Add(int32(n)) }

func (f *FaultyBind) Open(port uint16) ([]conn.ReceiveFunc, uint16, error) {
	fns, p, err := f.Bind.Open(port)
	if err != nil {
		return fns, p, err
	}
	out := make([]conn.ReceiveFunc, len(fns))
	for i, fn := range fns {
		out[i] = func(bufs [][]byte, sizes []int, eps []conn.Endpoint) (int, error) {
			for {
				a := f.armed.Load()
				if a <= 0 {
					break
				}
				if f.armed.CompareAndSwap(a, a-1) {
					f.Returned.Add(1)
					return 0, TempErr{}
				}
			}
			return fn(bufs, sizes, eps)
		}
	}
	return out, p, nil
}
