// Package stress holds what the C04 and C12 trace-validation harnesses share:
// a goroutine-safe PRNG, schedule perturbation through the harness-owned gates
// of sim.Bind / sim.Tun (small random sleeps), GOMAXPROCS variation, CPU-hog
// goroutines, and inner packets that carry (flow, sequence number).
package stress

import (
	"encoding/binary"
	"runtime"
	"sync"
	"sync/atomic"
	"time"

	"wgv/cosim"
)

// Rng is a goroutine-safe splitmix64.
type Rng struct{ s atomic.Uint64 }

func NewRng(seed uint64) *Rng { r := &Rng{}; r.s.Store(seed*0x9e3779b97f4a7c15 + 1); return r }

func (r *Rng) Next() uint64 {
	z := r.s.Add(0x9e3779b97f4a7c15)
	z = (z ^ (z >> 30)) * 0xbf58476d1ce4e5b9
	z = (z ^ (z >> 27)) * 0x94d049bb133111eb
	return z ^ (z >> 31)
}

func (r *Rng) Intn(n int) int {
	if n <= 0 {
		return 0
	}
	return int(r.Next() % uint64(n))
}

// Perturb is an active schedule perturbation of one world.
type Perturb struct {
	stop atomic.Bool
	wg   sync.WaitGroup
	old  int
}

// Config of a perturbation.  OneIn = a gate sleeps once in OneIn calls (0 = never).
type Config struct {
	Procs    int
	Hogs     int
	OneIn    int
	MaxSleep time.Duration
}

func nap(rng *Rng, c Config) {
	if c.OneIn > 0 && rng.Intn(c.OneIn) == 0 {
		d := time.Duration(rng.Intn(int(c.MaxSleep) + 1))
		if d < 2*time.Microsecond {
			runtime.Gosched()
		} else {
			time.Sleep(d)
		}
	}
}

// Start installs the gates on w (before traffic starts), sets GOMAXPROCS and starts the hogs.
func Start(w *cosim.World, rng *Rng, c Config) *Perturb {
	p := &Perturb{}
	if c.Procs > 0 {
		p.old = runtime.GOMAXPROCS(c.Procs)
	}
	w.Tun.ReadGate = func(n int) { nap(rng, c) }
	w.Tun.WriteGate = func(bufs [][]byte) { nap(rng, c) }
	w.Bind.RecvGate = func(n int) { nap(rng, c) }
	// SendGate is left to the caller (it may need the datagrams); use Nap from it.
	hogs := c.Hogs
	if c.Procs > 0 && hogs > c.Procs-1 {
		hogs = c.Procs - 1 // leave one P: the hogs perturb, they must not starve the run
	}
	for i := 0; i < hogs; i++ {
		p.wg.Add(1)
		go func() {
			defer p.wg.Done()
			x := uint64(1)
			for !p.stop.Load() {
				for k := 0; k < 3000; k++ {
					x = x*6364136223846793005 + 1442695040888963407
				}
				if x&3 != 0 {
					runtime.Gosched()
				}
			}
		}()
	}
	return p
}

// Nap is the perturbation step for gates the caller installs itself.
func Nap(rng *Rng, c Config) { nap(rng, c) }

func (p *Perturb) Stop() {
	p.stop.Store(true)
	p.wg.Wait()
	if p.old > 0 {
		runtime.GOMAXPROCS(p.old)
	}
}

// Packet builds an IPv4 packet of total length n (>= 36) whose payload starts
// with flow (8 bytes) and seq (8 bytes), big-endian; the rest is a function of both.
func Packet(src, dst [4]byte, n int, flow, seq uint64) []byte {
	if n < 36 {
		n = 36
	}
	p := make([]byte, n)
	p[0] = 0x45
	binary.BigEndian.PutUint16(p[2:], uint16(n))
	p[8], p[9] = 64, 17
	copy(p[12:], src[:])
	copy(p[16:], dst[:])
	binary.BigEndian.PutUint64(p[20:], flow)
	binary.BigEndian.PutUint64(p[28:], seq)
	f := byte(flow*31 + seq*7)
	for i := 36; i < n; i++ {
		p[i] = f + byte(i)
	}
	return p
}

// Parse reads flow, seq and the total length back and verifies the filler.
func Parse(p []byte) (flow, seq uint64, n int, ok bool) {
	if len(p) < 36 || p[0] != 0x45 {
		return 0, 0, 0, false
	}
	n = int(binary.BigEndian.Uint16(p[2:]))
	if n < 36 || n > len(p) {
		return 0, 0, 0, false
	}
	flow = binary.BigEndian.Uint64(p[20:])
	seq = binary.BigEndian.Uint64(p[28:])
	f := byte(flow*31 + seq*7)
	for i := 36; i < n; i++ {
		if p[i] != f+byte(i) {
			return flow, seq, n, false
		}
	}
	for i := n; i < len(p); i++ { // padding must be zero
		if p[i] != 0 {
			return flow, seq, n, false
		}
	}
	return flow, seq, n, true
}
