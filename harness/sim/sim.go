// Package sim provides a conn.Bind and a tun.Device that live entirely inside
// the harness process: every datagram and packet the device sees is injected
// by the harness, everything it emits is logged with a global sequence number,
// and every blocking boundary of the device (Open/Close/Send, TUN Read/Write)
// can be gated by the harness for schedule control.
package sim

import (
	"errors"
	"net"
	"net/netip"
	"os"
	"sync"
	"sync/atomic"
	"time"

	"golang.zx2c4.com/wireguard/conn"
	"golang.zx2c4.com/wireguard/tun"
)

// Seq is the global event sequence shared by all sim objects.
var Seq atomic.Uint64

func next() uint64 { return Seq.Add(1) }

// ---------------------------------------------------------------- endpoint

type Endpoint struct {
	AP  netip.AddrPort
	Src netip.Addr
}

func (e *Endpoint) ClearSrc()           { e.Src = netip.Addr{} }
func (e *Endpoint) SrcToString() string { return e.Src.String() }
func (e *Endpoint) DstToString() string { return e.AP.String() }
func (e *Endpoint) DstToBytes() []byte  { b, _ := e.AP.MarshalBinary(); return b }
func (e *Endpoint) DstIP() netip.Addr   { return e.AP.Addr() }
func (e *Endpoint) SrcIP() netip.Addr   { return e.Src }

// ---------------------------------------------------------------- bind

type Dgram struct {
	From netip.AddrPort
	Data []byte
}

type Sent struct {
	Seq  uint64
	T    time.Time
	To   netip.AddrPort
	Data []byte
}

type BindEvent struct {
	Seq  uint64
	T    time.Time
	Kind string // "open", "close", "send", "setmark"
	Port uint16
	N    int
}

type Bind struct {
	mu      sync.Mutex
	batch   int
	rx      chan []Dgram
	pending []Dgram
	stop    chan struct{}
	open    bool
	sent    []Sent
	log     []BindEvent
	Mark    uint32

	// Gates: when non-nil they are called (outside the bind's mutex) at the
	// start of the named operation and may block.
	OpenGate  func(port uint16)
	CloseGate func()
	SendGate  func(bufs [][]byte, to netip.AddrPort)
	RecvGate  func(n int)
	// Errors to return.
	OpenErr error
	SendErr error
	// MarkErr is returned by SetMark (the mark is not changed).
	MarkErr error
	// CloseErr is returned by Close AFTER the bind has really been closed
	// (like StdNetBind.Close when a socket close fails).
	CloseErr error
	// SendErrFn, when non-nil, decides per Send call: it returns how many of
	// the buffers are transmitted (logged) before the error is returned; a
	// nil error transmits everything.  Takes precedence over SendErr.
	SendErrFn func(bufs [][]byte, to netip.AddrPort) (int, error)
	// CloseDelay makes the receive functions notice a Close only after this long.
	CloseDelay time.Duration
	// DoubleOpen counts Open calls made while already open.
	DoubleOpen atomic.Int32
	// AutoPort is returned for Open(0).
	AutoPort uint16
	// NumRecv is the number of receive functions returned by Open (1 or 2).
	NumRecv int
}

func NewBind(batch int) *Bind {
	return &Bind{batch: batch, rx: make(chan []Dgram, 4096), AutoPort: 40000, NumRecv: 1}
}

func (b *Bind) Open(port uint16) ([]conn.ReceiveFunc, uint16, error) {
	if g := b.OpenGate; g != nil {
		g(port)
	}
	b.mu.Lock()
	defer b.mu.Unlock()
	if b.open {
		b.DoubleOpen.Add(1)
		b.log = append(b.log, BindEvent{Seq: next(), T: time.Now(), Kind: "open-while-open", Port: port})
		return nil, 0, conn.ErrBindAlreadyOpen
	}
	if b.OpenErr != nil {
		return nil, 0, b.OpenErr
	}
	if port == 0 {
		port = b.AutoPort
	}
	b.open = true
	stop := make(chan struct{})
	b.stop = stop
	b.log = append(b.log, BindEvent{Seq: next(), T: time.Now(), Kind: "open", Port: port})
	fn := func(bufs [][]byte, sizes []int, eps []conn.Endpoint) (int, error) {
		for {
			b.mu.Lock()
			if len(b.pending) > 0 {
				n := 0
				for n < len(bufs) && n < b.batch && len(b.pending) > 0 {
					d := b.pending[0]
					b.pending = b.pending[1:]
					sizes[n] = copy(bufs[n], d.Data)
					eps[n] = &Endpoint{AP: d.From}
					n++
				}
				b.mu.Unlock()
				if g := b.RecvGate; g != nil {
					g(n)
				}
				return n, nil
			}
			b.mu.Unlock()
			select {
			case <-stop:
				if d := b.CloseDelay; d > 0 {
					time.Sleep(d)
				}
				return 0, net.ErrClosed
			case ds := <-b.rx:
				b.mu.Lock()
				b.pending = append(b.pending, ds...)
				b.mu.Unlock()
			}
		}
	}
	fns := []conn.ReceiveFunc{fn}
	if b.NumRecv > 1 {
		idle := func(bufs [][]byte, sizes []int, eps []conn.Endpoint) (int, error) {
			<-stop
			return 0, net.ErrClosed
		}
		fns = append(fns, idle)
	}
	return fns, port, nil
}

func (b *Bind) Close() error {
	if g := b.CloseGate; g != nil {
		g()
	}
	b.mu.Lock()
	defer b.mu.Unlock()
	b.log = append(b.log, BindEvent{Seq: next(), T: time.Now(), Kind: "close"})
	if b.stop != nil {
		close(b.stop)
		b.stop = nil
	}
	b.open = false
	return b.CloseErr
}

func (b *Bind) SetMark(m uint32) error {
	b.mu.Lock()
	defer b.mu.Unlock()
	if b.MarkErr != nil {
		b.log = append(b.log, BindEvent{Seq: next(), T: time.Now(), Kind: "setmark-refused"})
		return b.MarkErr
	}
	b.Mark = m
	b.log = append(b.log, BindEvent{Seq: next(), T: time.Now(), Kind: "setmark"})
	return nil
}

func (b *Bind) Send(bufs [][]byte, e conn.Endpoint) error {
	to := e.(*Endpoint).AP
	if g := b.SendGate; g != nil {
		g(bufs, to)
	}
	var partial = -1
	var ferr error
	if f := b.SendErrFn; f != nil {
		partial, ferr = f(bufs, to)
	}
	b.mu.Lock()
	defer b.mu.Unlock()
	if ferr != nil {
		now := time.Now()
		for i, x := range bufs {
			if i >= partial {
				break
			}
			b.sent = append(b.sent, Sent{Seq: next(), T: now, To: to, Data: append([]byte{}, x...)})
		}
		b.log = append(b.log, BindEvent{Seq: next(), T: now, Kind: "send-error", N: partial})
		return ferr
	}
	if b.SendErr != nil {
		return b.SendErr
	}
	if !b.open {
		b.log = append(b.log, BindEvent{Seq: next(), T: time.Now(), Kind: "send-while-closed", N: len(bufs)})
		return net.ErrClosed
	}
	now := time.Now()
	for _, x := range bufs {
		b.sent = append(b.sent, Sent{Seq: next(), T: now, To: to, Data: append([]byte{}, x...)})
	}
	b.log = append(b.log, BindEvent{Seq: next(), T: now, Kind: "send", N: len(bufs)})
	return nil
}

func (b *Bind) ParseEndpoint(s string) (conn.Endpoint, error) {
	ap, err := netip.ParseAddrPort(s)
	if err != nil {
		return nil, err
	}
	return &Endpoint{AP: ap}, nil
}

func (b *Bind) BatchSize() int { return b.batch }

// Inject queues datagrams; they are delivered in order, at most BatchSize per receive call.
func (b *Bind) Inject(ds ...Dgram) { b.rx <- ds }

// Idle reports that nothing injected is waiting to be received.
func (b *Bind) Idle() bool {
	b.mu.Lock()
	defer b.mu.Unlock()
	return len(b.rx) == 0 && len(b.pending) == 0
}

func (b *Bind) IsOpen() bool {
	b.mu.Lock()
	defer b.mu.Unlock()
	return b.open
}

// TakeSent returns and clears the datagrams sent so far.
func (b *Bind) TakeSent() []Sent {
	b.mu.Lock()
	defer b.mu.Unlock()
	r := b.sent
	b.sent = nil
	return r
}

// Log returns a copy of the Open/Close/Send log.
func (b *Bind) Log() []BindEvent {
	b.mu.Lock()
	defer b.mu.Unlock()
	return append([]BindEvent{}, b.log...)
}

// ---------------------------------------------------------------- tun

type Written struct {
	Seq  uint64
	T    time.Time
	Data []byte
}

type Tun struct {
	mu      sync.Mutex
	batch   int
	mtu     atomic.Int32
	in      chan [][]byte
	pending [][]byte
	closed  chan struct{}
	events  chan tun.Event
	wrote   []Written
	once    sync.Once

	ReadGate  func(n int)
	WriteGate func(bufs [][]byte)
	WriteErr  error
	// ReadErrFn, when non-nil, is asked after every successful fill of n >= 1 packets; a non-nil
	// error is returned TOGETHER with the n packets (like tun.ErrTooManySegments on a GSO read).
	ReadErrFn func(n int) error
	failRead  chan error
}

func NewTun(batch, mtu int) *Tun {
	t := &Tun{batch: batch, in: make(chan [][]byte, 4096), closed: make(chan struct{}), events: make(chan tun.Event, 16), failRead: make(chan error, 4)}
	t.mtu.Store(int32(mtu))
	return t
}

func (t *Tun) File() *os.File { return nil }

func (t *Tun) Read(bufs [][]byte, sizes []int, offset int) (int, error) {
	for {
		t.mu.Lock()
		if len(t.pending) > 0 {
			n := 0
			for n < len(bufs) && n < t.batch && len(t.pending) > 0 {
				p := t.pending[0]
				t.pending = t.pending[1:]
				sizes[n] = copy(bufs[n][offset:], p)
				n++
			}
			t.mu.Unlock()
			if g := t.ReadGate; g != nil {
				g(n)
			}
			if f := t.ReadErrFn; f != nil {
				if err := f(n); err != nil {
					return n, err
				}
			}
			return n, nil
		}
		t.mu.Unlock()
		select {
		case <-t.closed:
			return 0, os.ErrClosed
		case err := <-t.failRead:
			return 0, err
		case ps := <-t.in:
			t.mu.Lock()
			t.pending = append(t.pending, ps...)
			t.mu.Unlock()
		}
	}
}

func (t *Tun) Write(bufs [][]byte, offset int) (int, error) {
	if g := t.WriteGate; g != nil {
		g(bufs)
	}
	t.mu.Lock()
	defer t.mu.Unlock()
	if t.WriteErr != nil {
		return 0, t.WriteErr
	}
	now := time.Now()
	for _, b := range bufs {
		t.wrote = append(t.wrote, Written{Seq: next(), T: now, Data: append([]byte{}, b[offset:]...)})
	}
	return len(bufs), nil
}

func (t *Tun) MTU() (int, error)        { return int(t.mtu.Load()), nil }
func (t *Tun) SetMTU(m int)             { t.mtu.Store(int32(m)) }
func (t *Tun) Name() (string, error)    { return "sim0", nil }
func (t *Tun) Events() <-chan tun.Event { return t.events }
func (t *Tun) BatchSize() int           { return t.batch }

func (t *Tun) Close() error {
	t.once.Do(func() {
		close(t.closed)
		close(t.events)
	})
	return nil
}

// Event sends a TUN event (EventUp, EventDown, EventMTUUpdate) to the device.
func (t *Tun) Event(e tun.Event) error {
	select {
	case <-t.closed:
		return errors.New("tun closed")
	default:
	}
	t.events <- e
	return nil
}

// FailRead makes the next blocked or future Read return (0, err): a fatal TUN read error
// (e.g. the interface deleted under a running device).
func (t *Tun) FailRead(err error) { t.failRead <- err }

// Inject queues packets; they are returned in order, at most BatchSize per Read.
func (t *Tun) Inject(pkts ...[]byte) { t.in <- pkts }

func (t *Tun) Idle() bool {
	t.mu.Lock()
	defer t.mu.Unlock()
	return len(t.in) == 0 && len(t.pending) == 0 && len(t.events) == 0
}

func (t *Tun) TakeWritten() []Written {
	t.mu.Lock()
	defer t.mu.Unlock()
	r := t.wrote
	t.wrote = nil
	return r
}
