package sim

import (
	"runtime"
	"strings"
	"time"

	"golang.zx2c4.com/wireguard/device"
)

var stackBuf = make([]byte, 16<<20)

// parkedOK reports whether every goroutine that is inside wireguard/device is
// parked in a queue receive, a bind/TUN read of the harness, or a wait.
func parkedOK() bool {
	n := runtime.Stack(stackBuf, true)
	for _, g := range strings.Split(string(stackBuf[:n]), "\n\n") {
		if !strings.Contains(g, "wireguard/device.") {
			continue
		}
		lines := strings.Split(g, "\n")
		if len(lines) < 2 {
			continue
		}
		hdr, top := lines[0], lines[1]
		if strings.Contains(g, "wgv/sim.Quiesce") || strings.Contains(g, "wgv/sim.parkedOK") {
			continue // the caller itself
		}
		parked := strings.Contains(hdr, "[chan receive") || strings.Contains(hdr, "[select") ||
			strings.Contains(hdr, "[sync.WaitGroup.Wait") || strings.Contains(hdr, "[semacquire") ||
			strings.Contains(hdr, "[sync.Cond.Wait")
		isRoutine := strings.Contains(top, "device.(*Device).Routine") || strings.Contains(top, "device.(*Peer).Routine") ||
			strings.HasPrefix(top, "wgv/sim.(*") || strings.Contains(top, "device.new") ||
			strings.HasPrefix(top, "sync.") || strings.HasPrefix(top, "runtime.") || strings.HasPrefix(top, "time.")
		if !(parked && isRoutine) {
			return false
		}
	}
	return true
}

// Quiesce waits until the device has nothing left to do: the sim queues are
// empty, the device's shared queues are empty and all its goroutines are
// parked, in two consecutive scans.  It returns false on timeout.
func Quiesce(dev *device.Device, b *Bind, t *Tun, timeout time.Duration) bool {
	deadline := time.Now().Add(timeout)
	ok := 0
	for ok < 2 {
		idle := (b == nil || b.Idle()) && (t == nil || t.Idle())
		if idle && dev != nil {
			e, d, h := dev.VerifQueueLens()
			idle = e == 0 && d == 0 && h == 0
		}
		if idle && parkedOK() {
			ok++
		} else {
			ok = 0
			if time.Now().After(deadline) {
				return false
			}
			runtime.Gosched()
			time.Sleep(50 * time.Microsecond)
		}
	}
	return true
}
