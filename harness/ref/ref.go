// Package ref is the harness's own implementation of the WireGuard protocol,
// written from the white-paper (sections 5.4.2-5.4.7) on golang.org/x/crypto
// primitives.  It never imports wireguard/device.  It is the "independent
// implementation" of property C03 and the message factory/parser for every
// co-simulation check.
package ref

import (
	"bytes"
	"crypto/rand"
	"encoding/binary"
	"errors"
	"hash"
	"time"

	"golang.org/x/crypto/blake2s"
	"golang.org/x/crypto/chacha20poly1305"
	"golang.org/x/crypto/curve25519"
)

const (
	Construction = "Noise_IKpsk2_25519_ChaChaPoly_BLAKE2s"
	Identifier   = "WireGuard v1 zx2c4 Jason@zx2c4.com"
	LabelMAC1    = "mac1----"
	LabelCookie  = "cookie--"

	TypeInitiation = 1
	TypeResponse   = 2
	TypeCookie     = 3
	TypeTransport  = 4

	InitiationSize = 148
	ResponseSize   = 92
	CookieSize     = 64
)

type Key [32]byte

func Hash(parts ...[]byte) (o Key) {
	h, _ := blake2s.New256(nil)
	for _, p := range parts {
		h.Write(p)
	}
	h.Sum(o[:0])
	return
}

func hmacB2s(key []byte, parts ...[]byte) (o Key) {
	var ipad, opad [64]byte
	copy(ipad[:], key)
	copy(opad[:], key)
	for i := range ipad {
		ipad[i] ^= 0x36
		opad[i] ^= 0x5c
	}
	var inner hash.Hash
	inner, _ = blake2s.New256(nil)
	inner.Write(ipad[:])
	for _, p := range parts {
		inner.Write(p)
	}
	is := inner.Sum(nil)
	outer, _ := blake2s.New256(nil)
	outer.Write(opad[:])
	outer.Write(is)
	outer.Sum(o[:0])
	return
}

// Kdf is HKDF with BLAKE2s producing n (1..3) outputs.
func Kdf(n int, key, input []byte) (out [3]Key) {
	prk := hmacB2s(key, input)
	out[0] = hmacB2s(prk[:], []byte{1})
	if n > 1 {
		out[1] = hmacB2s(prk[:], out[0][:], []byte{2})
	}
	if n > 2 {
		out[2] = hmacB2s(prk[:], out[1][:], []byte{3})
	}
	return
}

func Mac(key []byte, data []byte) (o [16]byte) {
	m, _ := blake2s.New128(key)
	m.Write(data)
	m.Sum(o[:0])
	return
}

func DH(priv, pub Key) (o Key) {
	r, err := curve25519.X25519(priv[:], pub[:])
	if err == nil {
		copy(o[:], r)
	}
	return
}

func PubOf(priv Key) (o Key) {
	r, _ := curve25519.X25519(priv[:], curve25519.Basepoint)
	copy(o[:], r)
	return
}

func NewPrivate() (k Key) {
	rand.Read(k[:])
	k[0] &= 248
	k[31] = (k[31] & 127) | 64
	return
}

func Seal(key Key, ctr uint64, pt, ad []byte) []byte {
	a, _ := chacha20poly1305.New(key[:])
	var n [12]byte
	binary.LittleEndian.PutUint64(n[4:], ctr)
	return a.Seal(nil, n[:], pt, ad)
}

func Open(key Key, ctr uint64, ct, ad []byte) ([]byte, error) {
	a, _ := chacha20poly1305.New(key[:])
	var n [12]byte
	binary.LittleEndian.PutUint64(n[4:], ctr)
	return a.Open(nil, n[:], ct, ad)
}

func XSeal(key Key, nonce [24]byte, pt, ad []byte) []byte {
	a, _ := chacha20poly1305.NewX(key[:])
	return a.Seal(nil, nonce[:], pt, ad)
}

func XOpen(key Key, nonce [24]byte, ct, ad []byte) ([]byte, error) {
	a, _ := chacha20poly1305.NewX(key[:])
	return a.Open(nil, nonce[:], ct, ad)
}

// Tai64n encodes t like the paper says (no whitening: the paper leaves precision to the sender).
func Tai64n(t time.Time) (b [12]byte) {
	binary.BigEndian.PutUint64(b[:], 0x400000000000000a+uint64(t.Unix()))
	binary.BigEndian.PutUint32(b[8:], uint32(t.Nanosecond()))
	return
}

// Tai64nRaw builds a timestamp from explicit seconds / nanoseconds fields.
func Tai64nRaw(secs uint64, nanos uint32) (b [12]byte) {
	binary.BigEndian.PutUint64(b[:], secs)
	binary.BigEndian.PutUint32(b[8:], nanos)
	return
}

// ---------------------------------------------------------------- handshake

// HS is a handshake transcript state (chaining key and hash).
type HS struct {
	Ck, H Key
}

func initialHS(responderPub Key) HS {
	ck := Hash([]byte(Construction))
	h := Hash(ck[:], []byte(Identifier))
	h = Hash(h[:], responderPub[:])
	return HS{ck, h}
}

// InitiatorState is what an initiator keeps between its initiation and the response.
type InitiatorState struct {
	HS
	StaticPriv, EphPriv Key
	ResponderPub        Key
	Psk                 Key
	SenderIdx           uint32
	Msg                 []byte // the initiation as sent (with MACs)
	Mac1                [16]byte
}

// InitiationOpts allow building deliberately wrong initiations.
type InitiationOpts struct {
	Mac1Key *Key // public key used for the MAC1 key (default: responder's)
}

// CreateInitiation builds a handshake initiation from static key sPriv to the
// responder with public key rPub (white-paper 5.4.2).
func CreateInitiation(sPriv, ePriv, rPub, psk Key, senderIdx uint32, ts [12]byte) *InitiatorState {
	st := &InitiatorState{HS: initialHS(rPub), StaticPriv: sPriv, EphPriv: ePriv, ResponderPub: rPub, Psk: psk, SenderIdx: senderIdx}
	ePub := PubOf(ePriv)
	sPub := PubOf(sPriv)
	k := Kdf(1, st.Ck[:], ePub[:])
	st.Ck = k[0]
	st.H = Hash(st.H[:], ePub[:])
	es := DH(ePriv, rPub)
	k = Kdf(2, st.Ck[:], es[:])
	st.Ck = k[0]
	encS := Seal(k[1], 0, sPub[:], st.H[:])
	st.H = Hash(st.H[:], encS)
	ss := DH(sPriv, rPub)
	k = Kdf(2, st.Ck[:], ss[:])
	st.Ck = k[0]
	encT := Seal(k[1], 0, ts[:], st.H[:])
	st.H = Hash(st.H[:], encT)
	msg := make([]byte, 0, InitiationSize)
	msg = append(msg, TypeInitiation, 0, 0, 0)
	msg = binary.LittleEndian.AppendUint32(msg, senderIdx)
	msg = append(msg, ePub[:]...)
	msg = append(msg, encS...)
	msg = append(msg, encT...)
	msg = AppendMacs(msg, rPub, nil)
	st.Msg = msg
	copy(st.Mac1[:], msg[116:132])
	return st
}

// AppendMacs appends MAC1 (keyed for recipient) and MAC2 (zero, or keyed by cookie).
func AppendMacs(body []byte, recipientPub Key, cookie []byte) []byte {
	m1k := Hash([]byte(LabelMAC1), recipientPub[:])
	m1 := Mac(m1k[:], body)
	msg := append(body, m1[:]...)
	if cookie == nil {
		return append(msg, make([]byte, 16)...)
	}
	m2 := Mac(cookie, msg)
	return append(msg, m2[:]...)
}

// WithCookie recomputes the MACs of a handshake message using a cookie.
func WithCookie(msg []byte, recipientPub Key, cookie []byte) []byte {
	body := append([]byte{}, msg[:len(msg)-32]...)
	return AppendMacs(body, recipientPub, cookie)
}

// CheckMac1 verifies MAC1 of a handshake message addressed to recipientPub.
func CheckMac1(msg []byte, recipientPub Key) bool {
	if len(msg) < 32 {
		return false
	}
	m1k := Hash([]byte(LabelMAC1), recipientPub[:])
	m1 := Mac(m1k[:], msg[:len(msg)-32])
	return bytes.Equal(m1[:], msg[len(msg)-32:len(msg)-16])
}

func Mac2IsZero(msg []byte) bool {
	return len(msg) >= 16 && bytes.Equal(msg[len(msg)-16:], make([]byte, 16))
}

// CheckMac2 verifies MAC2 under a cookie.
func CheckMac2(msg []byte, cookie []byte) bool {
	if len(msg) < 16 {
		return false
	}
	m2 := Mac(cookie, msg[:len(msg)-16])
	return bytes.Equal(m2[:], msg[len(msg)-16:])
}

// Session holds transport keys.
type Session struct {
	SendKey, RecvKey Key
	LocalIdx         uint32 // our index (the peer puts it in the receiver field)
	RemoteIdx        uint32 // the peer's index (we put it in the receiver field)
	SendCtr          uint64
}

// ConsumeResponse processes a handshake response as initiator (5.4.3).
func (st *InitiatorState) ConsumeResponse(msg []byte) (*Session, error) {
	if len(msg) != ResponseSize || msg[0] != TypeResponse {
		return nil, errors.New("not a response")
	}
	if binary.LittleEndian.Uint32(msg[8:12]) != st.SenderIdx {
		return nil, errors.New("response for another index")
	}
	var ePubR Key
	copy(ePubR[:], msg[12:44])
	ck, h := st.Ck, st.H
	k := Kdf(1, ck[:], ePubR[:])
	ck = k[0]
	h = Hash(h[:], ePubR[:])
	ee := DH(st.EphPriv, ePubR)
	k = Kdf(1, ck[:], ee[:])
	ck = k[0]
	se := DH(st.StaticPriv, ePubR)
	k = Kdf(1, ck[:], se[:])
	ck = k[0]
	k = Kdf(3, ck[:], st.Psk[:])
	ck = k[0]
	h = Hash(h[:], k[1][:])
	if _, err := Open(k[2], 0, msg[44:60], h[:]); err != nil {
		return nil, errors.New("empty does not open")
	}
	tk := Kdf(2, ck[:], nil)
	return &Session{SendKey: tk[0], RecvKey: tk[1], LocalIdx: st.SenderIdx, RemoteIdx: binary.LittleEndian.Uint32(msg[4:8])}, nil
}

// ResponderState is what a responder learns from an initiation.
type ResponderState struct {
	HS
	InitiatorStatic Key
	InitiatorEph    Key
	Timestamp       [12]byte
	InitiatorIdx    uint32
}

// ConsumeInitiation processes an initiation addressed to rPriv (5.4.2, responder side).
func ConsumeInitiation(msg []byte, rPriv Key) (*ResponderState, error) {
	if len(msg) != InitiationSize || msg[0] != TypeInitiation {
		return nil, errors.New("not an initiation")
	}
	rPub := PubOf(rPriv)
	st := &ResponderState{HS: initialHS(rPub)}
	st.InitiatorIdx = binary.LittleEndian.Uint32(msg[4:8])
	copy(st.InitiatorEph[:], msg[8:40])
	k := Kdf(1, st.Ck[:], st.InitiatorEph[:])
	st.Ck = k[0]
	st.H = Hash(st.H[:], st.InitiatorEph[:])
	es := DH(rPriv, st.InitiatorEph)
	k = Kdf(2, st.Ck[:], es[:])
	st.Ck = k[0]
	s, err := Open(k[1], 0, msg[40:88], st.H[:])
	if err != nil {
		return nil, errors.New("static does not open")
	}
	copy(st.InitiatorStatic[:], s)
	st.H = Hash(st.H[:], msg[40:88])
	ss := DH(rPriv, st.InitiatorStatic)
	k = Kdf(2, st.Ck[:], ss[:])
	st.Ck = k[0]
	ts, err := Open(k[1], 0, msg[88:116], st.H[:])
	if err != nil {
		return nil, errors.New("timestamp does not open")
	}
	copy(st.Timestamp[:], ts)
	st.H = Hash(st.H[:], msg[88:116])
	return st, nil
}

// CreateResponse builds the response (5.4.3) and the responder's session.
func (st *ResponderState) CreateResponse(ePriv, psk Key, senderIdx uint32) ([]byte, *Session) {
	ePub := PubOf(ePriv)
	ck, h := st.Ck, st.H
	k := Kdf(1, ck[:], ePub[:])
	ck = k[0]
	h = Hash(h[:], ePub[:])
	ee := DH(ePriv, st.InitiatorEph)
	k = Kdf(1, ck[:], ee[:])
	ck = k[0]
	se := DH(ePriv, st.InitiatorStatic)
	k = Kdf(1, ck[:], se[:])
	ck = k[0]
	k = Kdf(3, ck[:], psk[:])
	ck = k[0]
	h = Hash(h[:], k[1][:])
	empty := Seal(k[2], 0, nil, h[:])
	msg := make([]byte, 0, ResponseSize)
	msg = append(msg, TypeResponse, 0, 0, 0)
	msg = binary.LittleEndian.AppendUint32(msg, senderIdx)
	msg = binary.LittleEndian.AppendUint32(msg, st.InitiatorIdx)
	msg = append(msg, ePub[:]...)
	msg = append(msg, empty...)
	msg = AppendMacs(msg, st.InitiatorStatic, nil)
	tk := Kdf(2, ck[:], nil)
	return msg, &Session{SendKey: tk[1], RecvKey: tk[0], LocalIdx: senderIdx, RemoteIdx: st.InitiatorIdx}
}

// ---------------------------------------------------------------- transport

// Pad pads an inner packet to a multiple of 16 (no MTU cap: the sender may choose).
func Pad(p []byte) []byte {
	n := (len(p) + 15) &^ 15
	return append(append([]byte{}, p...), make([]byte, n-len(p))...)
}

// Transport builds a transport message with an explicit counter.
func (s *Session) Transport(ctr uint64, plaintext []byte) []byte {
	msg := []byte{TypeTransport, 0, 0, 0}
	msg = binary.LittleEndian.AppendUint32(msg, s.RemoteIdx)
	msg = binary.LittleEndian.AppendUint64(msg, ctr)
	return append(msg, Seal(s.SendKey, ctr, plaintext, nil)...)
}

// Next builds a transport message with the next counter.
func (s *Session) Next(plaintext []byte) []byte {
	m := s.Transport(s.SendCtr, plaintext)
	s.SendCtr++
	return m
}

// OpenTransport opens a transport message sent to us.
func (s *Session) OpenTransport(msg []byte) (receiver uint32, ctr uint64, plaintext []byte, err error) {
	if len(msg) < 32 || msg[0] != TypeTransport {
		return 0, 0, nil, errors.New("not transport")
	}
	receiver = binary.LittleEndian.Uint32(msg[4:8])
	ctr = binary.LittleEndian.Uint64(msg[8:16])
	plaintext, err = Open(s.RecvKey, ctr, msg[16:], nil)
	return
}

// ---------------------------------------------------------------- cookies

// OpenCookieReply decrypts a cookie reply addressed to us: key = Hash(label || responderPub), ad = our last MAC1.
func OpenCookieReply(msg []byte, responderPub Key, lastMac1 [16]byte) (receiver uint32, cookie []byte, err error) {
	if len(msg) != CookieSize || msg[0] != TypeCookie {
		return 0, nil, errors.New("not a cookie reply")
	}
	receiver = binary.LittleEndian.Uint32(msg[4:8])
	var nonce [24]byte
	copy(nonce[:], msg[8:32])
	key := Hash([]byte(LabelCookie), responderPub[:])
	cookie, err = XOpen(key, nonce, msg[32:64], lastMac1[:])
	return
}

// CreateCookieReply builds a cookie reply as a responder with public key myPub would.
func CreateCookieReply(myPub Key, receiver uint32, nonce [24]byte, cookie [16]byte, mac1 [16]byte) []byte {
	msg := []byte{TypeCookie, 0, 0, 0}
	msg = binary.LittleEndian.AppendUint32(msg, receiver)
	msg = append(msg, nonce[:]...)
	key := Hash([]byte(LabelCookie), myPub[:])
	return append(msg, XSeal(key, nonce, cookie[:], mac1[:])...)
}

// ---------------------------------------------------------------- inner packets

// IPv4 builds a minimal IPv4 packet (no checksum) of total length n >= 20.
func IPv4(src, dst [4]byte, n int, fill byte) []byte {
	p := make([]byte, n)
	p[0] = 0x45
	binary.BigEndian.PutUint16(p[2:], uint16(n))
	p[8], p[9] = 64, 17
	copy(p[12:], src[:])
	copy(p[16:], dst[:])
	for i := 20; i < n; i++ {
		p[i] = fill + byte(i)
	}
	return p
}

// IPv6 builds a minimal IPv6 packet of total length n >= 40.
func IPv6(src, dst [16]byte, n int, fill byte) []byte {
	p := make([]byte, n)
	p[0] = 0x60
	binary.BigEndian.PutUint16(p[4:], uint16(n-40))
	p[6], p[7] = 17, 64
	copy(p[8:], src[:])
	copy(p[24:], dst[:])
	for i := 40; i < n; i++ {
		p[i] = fill + byte(i)
	}
	return p
}
