module wgv

go 1.23.1

require (
	golang.org/x/crypto v0.37.0
	golang.zx2c4.com/wireguard v0.0.0
)

require (
	golang.org/x/net v0.39.0 // indirect
	golang.org/x/sys v0.32.0 // indirect
)

replace golang.zx2c4.com/wireguard => /repo
