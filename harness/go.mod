module wgv

go 1.23.1

require (
	golang.org/x/crypto v0.37.0
	golang.org/x/net v0.39.0
	golang.org/x/sys v0.32.0
	golang.zx2c4.com/wireguard v0.0.0
	gvisor.dev/gvisor v0.0.0-20250503011706-39ed1f5ac29c
)

require (
	github.com/google/btree v1.1.2 // indirect
	golang.org/x/time v0.7.0 // indirect
)

replace golang.zx2c4.com/wireguard => /repo
