// Package c09sim is a minimal in-memory conn.Bind and tun.Device for the C09
// (UAPI) harness: no sockets, no packets delivered.  Open hands out the
// requested port, a fixed port when asked for 0, and fails on the ports the
// harness declares busy; SetMark fails on the marks declared bad.
package c09sim

import (
	"errors"
	"net"
	"net/netip"
	"os"
	"sync"

	"golang.zx2c4.com/wireguard/conn"
	"golang.zx2c4.com/wireguard/tun"
)

type Endpoint struct{ AP netip.AddrPort }

func (e *Endpoint) ClearSrc()           {}
func (e *Endpoint) SrcToString() string { return "" }
func (e *Endpoint) DstToString() string { return e.AP.String() }
func (e *Endpoint) DstToBytes() []byte  { b, _ := e.AP.MarshalBinary(); return b }
func (e *Endpoint) DstIP() netip.Addr   { return e.AP.Addr() }
func (e *Endpoint) SrcIP() netip.Addr   { return netip.Addr{} }

type Bind struct {
	mu       sync.Mutex
	stop     chan struct{}
	AutoPort uint16
	Busy     map[uint16]bool
	BadMarks map[uint32]bool
	Opens    int
	Sent     int
}

func NewBind(auto uint16, busy []uint16, bad []uint32) *Bind {
	b := &Bind{AutoPort: auto, Busy: map[uint16]bool{}, BadMarks: map[uint32]bool{}}
	for _, p := range busy {
		b.Busy[p] = true
	}
	for _, m := range bad {
		b.BadMarks[m] = true
	}
	return b
}

func (b *Bind) Open(port uint16) ([]conn.ReceiveFunc, uint16, error) {
	b.mu.Lock()
	defer b.mu.Unlock()
	if b.stop != nil {
		return nil, 0, conn.ErrBindAlreadyOpen
	}
	if b.Busy[port] {
		return nil, 0, errors.New("c09sim: address already in use")
	}
	if port == 0 {
		port = b.AutoPort
	}
	b.Opens++
	stop := make(chan struct{})
	b.stop = stop
	fn := func(bufs [][]byte, sizes []int, eps []conn.Endpoint) (int, error) {
		<-stop
		return 0, net.ErrClosed
	}
	return []conn.ReceiveFunc{fn}, port, nil
}

func (b *Bind) Close() error {
	b.mu.Lock()
	defer b.mu.Unlock()
	if b.stop != nil {
		close(b.stop)
		b.stop = nil
	}
	return nil
}

func (b *Bind) SetMark(m uint32) error {
	if b.BadMarks[m] {
		return errors.New("c09sim: cannot set mark")
	}
	return nil
}

func (b *Bind) Send(bufs [][]byte, e conn.Endpoint) error {
	b.mu.Lock()
	b.Sent += len(bufs)
	b.mu.Unlock()
	return nil
}

func (b *Bind) ParseEndpoint(s string) (conn.Endpoint, error) {
	ap, err := netip.ParseAddrPort(s)
	if err != nil {
		return nil, err
	}
	return &Endpoint{ap}, nil
}

func (b *Bind) BatchSize() int { return 1 }

type Tun struct {
	closed chan struct{}
	events chan tun.Event
	once   sync.Once
}

func NewTun() *Tun {
	return &Tun{closed: make(chan struct{}), events: make(chan tun.Event, 4)}
}

func (t *Tun) File() *os.File { return nil }
func (t *Tun) Read(bufs [][]byte, sizes []int, offset int) (int, error) {
	<-t.closed
	return 0, os.ErrClosed
}
func (t *Tun) Write(bufs [][]byte, offset int) (int, error) { return len(bufs), nil }
func (t *Tun) MTU() (int, error)                            { return 1420, nil }
func (t *Tun) Name() (string, error)                        { return "c09sim", nil }
func (t *Tun) Events() <-chan tun.Event                     { return t.events }
func (t *Tun) Close() error {
	t.once.Do(func() {
		close(t.closed)
		close(t.events)
	})
	return nil
}
func (t *Tun) BatchSize() int { return 1 }
