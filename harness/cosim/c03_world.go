package cosim

import (
	"encoding/hex"
	"fmt"
	"strings"
	"time"

	"golang.zx2c4.com/wireguard/device"

	"wgv/ref"
	"wgv/sim"
)

// NewWorldLogger is NewWorld with a caller-supplied device.Logger (public API of the device).
// The C03 check uses the Verbosef callback as a schedule-control point inside a handshake worker
// (the line logged between ConsumeMessageInitiation and SendHandshakeResponse).
func NewWorldLogger(cfg Config, withEndpoints bool, logger *device.Logger, peers ...*RefPeer) (*World, error) {
	if cfg.BindBatch == 0 {
		cfg.BindBatch = 1
	}
	if cfg.TunBatch == 0 {
		cfg.TunBatch = 1
	}
	if cfg.MTU == 0 {
		cfg.MTU = 1420
	}
	if cfg.Port == 0 {
		cfg.Port = 51820
	}
	w := &World{Bind: sim.NewBind(cfg.BindBatch), Tun: sim.NewTun(cfg.TunBatch, cfg.MTU), Peers: peers, Timeout: 5 * time.Second}
	w.DevPriv = ref.NewPrivate()
	w.DevPub = ref.PubOf(w.DevPriv)
	w.Dev = device.NewDevice(w.Tun, w.Bind, logger)
	var b strings.Builder
	if !cfg.NoPriv {
		fmt.Fprintf(&b, "private_key=%s\n", hex.EncodeToString(w.DevPriv[:]))
	}
	fmt.Fprintf(&b, "listen_port=%d\n", cfg.Port)
	for _, p := range peers {
		if p.Configured {
			b.WriteString(PeerConfig(p, withEndpoints))
		}
	}
	if err := w.Dev.IpcSet(b.String()); err != nil {
		return nil, err
	}
	if cfg.Up {
		if err := w.Dev.Up(); err != nil {
			return nil, err
		}
	}
	w.Settle()
	return w, nil
}
