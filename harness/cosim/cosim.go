// Package cosim drives a real wireguard-go device through sim.Bind / sim.Tun
// against remote parties implemented by package ref, one step at a time with
// quiescence detection in between.
package cosim

import (
	"encoding/binary"
	"encoding/hex"
	"fmt"
	"net/netip"
	"strings"
	"time"

	"golang.zx2c4.com/wireguard/device"
	"golang.zx2c4.com/wireguard/tun"

	"wgv/ref"
	"wgv/sim"
)

// RefPeer is a remote party known to the harness (configured on the device or not).
type RefPeer struct {
	Name       string
	Priv, Pub  ref.Key
	Psk        ref.Key
	AllowedIPs []string
	Addr       netip.AddrPort // where it sends from / is configured as endpoint ("" = no endpoint configured)
	Configured bool
	Keepalive  int
	Sessions   []*ref.Session // newest last
	NextIdx    uint32
	LastInit   *ref.InitiatorState
}

func (p *RefPeer) Session() *ref.Session {
	if len(p.Sessions) == 0 {
		return nil
	}
	return p.Sessions[len(p.Sessions)-1]
}

func (p *RefPeer) NoisePub() (k device.NoisePublicKey) { copy(k[:], p.Pub[:]); return }

type Config struct {
	BindBatch int
	TunBatch  int
	MTU       int
	Port      uint16
	Up        bool
	NoPriv    bool
	// Logger, when not nil, is handed to device.NewDevice instead of the silent logger (C01: the log calls are
	// places where the harness can delay one device goroutine; default nil = unchanged behaviour).
	Logger *device.Logger
}

type World struct {
	Dev     *device.Device
	Bind    *sim.Bind
	Tun     *sim.Tun
	DevPriv ref.Key
	DevPub  ref.Key
	Peers   []*RefPeer
	Timeout time.Duration
	// SlowSteps counts Settle calls that timed out.
	SlowSteps int
}

func NewPeer(name string, addr string, allowed ...string) *RefPeer {
	p := &RefPeer{Name: name, Priv: ref.NewPrivate(), AllowedIPs: allowed, Configured: true, NextIdx: 0x1000}
	p.Pub = ref.PubOf(p.Priv)
	if addr != "" {
		p.Addr = netip.MustParseAddrPort(addr)
	}
	return p
}

// PeerConfig renders the UAPI section for a peer.
func PeerConfig(p *RefPeer, withEndpoint bool) string {
	var b strings.Builder
	fmt.Fprintf(&b, "public_key=%s\n", hex.EncodeToString(p.Pub[:]))
	if p.Psk != (ref.Key{}) {
		fmt.Fprintf(&b, "preshared_key=%s\n", hex.EncodeToString(p.Psk[:]))
	}
	if withEndpoint && p.Addr.IsValid() {
		fmt.Fprintf(&b, "endpoint=%s\n", p.Addr)
	}
	if p.Keepalive != 0 {
		fmt.Fprintf(&b, "persistent_keepalive_interval=%d\n", p.Keepalive)
	}
	for _, a := range p.AllowedIPs {
		fmt.Fprintf(&b, "allowed_ip=%s\n", a)
	}
	return b.String()
}

// NewWorld creates a device with the given peers configured (those with Configured set).
func NewWorld(cfg Config, withEndpoints bool, peers ...*RefPeer) (*World, error) {
	if cfg.BindBatch == 0 {
		cfg.BindBatch = 1
	}
	if cfg.TunBatch == 0 {
		cfg.TunBatch = 1
	}
	if cfg.MTU == 0 {
		cfg.MTU = 1420
	}
	if cfg.Port == 0 {
		cfg.Port = 51820
	}
	w := &World{Bind: sim.NewBind(cfg.BindBatch), Tun: sim.NewTun(cfg.TunBatch, cfg.MTU), Peers: peers, Timeout: 5 * time.Second}
	w.DevPriv = ref.NewPrivate()
	w.DevPub = ref.PubOf(w.DevPriv)
	lg := cfg.Logger
	if lg == nil {
		lg = device.NewLogger(device.LogLevelSilent, "")
	}
	w.Dev = device.NewDevice(w.Tun, w.Bind, lg)
	var b strings.Builder
	if !cfg.NoPriv {
		fmt.Fprintf(&b, "private_key=%s\n", hex.EncodeToString(w.DevPriv[:]))
	}
	fmt.Fprintf(&b, "listen_port=%d\n", cfg.Port)
	for _, p := range peers {
		if p.Configured {
			b.WriteString(PeerConfig(p, withEndpoints))
		}
	}
	if err := w.Dev.IpcSet(b.String()); err != nil {
		return nil, err
	}
	if cfg.Up {
		if err := w.Dev.Up(); err != nil {
			return nil, err
		}
	}
	w.Settle()
	return w, nil
}

func (w *World) Close() {
	w.Dev.Close()
}

// Settle waits for quiescence; returns false (and counts) on timeout.
func (w *World) Settle() bool {
	ok := sim.Quiesce(w.Dev, w.Bind, w.Tun, w.Timeout)
	if !ok {
		w.SlowSteps++
	}
	return ok
}

// Out is everything the device emitted during a step.
type Out struct {
	Sent    []sim.Sent
	Written []sim.Written
	Settled bool
}

func (w *World) Take() Out {
	ok := w.Settle()
	return Out{Sent: w.Bind.TakeSent(), Written: w.Tun.TakeWritten(), Settled: ok}
}

// Inject delivers one datagram and waits for the device to finish reacting.
func (w *World) Inject(from netip.AddrPort, data []byte) Out {
	w.Bind.Inject(sim.Dgram{From: from, Data: data})
	return w.Take()
}

// InjectBatch delivers several datagrams queued together.
func (w *World) InjectBatch(ds ...sim.Dgram) Out {
	w.Bind.Inject(ds...)
	return w.Take()
}

// TunIn feeds packets to the TUN reader (one batch) and waits.
func (w *World) TunIn(pkts ...[]byte) Out {
	w.Tun.Inject(pkts...)
	return w.Take()
}

func (w *World) Set(cfg string) (error, Out) {
	err := w.Dev.IpcSet(cfg)
	return err, w.Take()
}

func (w *World) Get() string {
	s, _ := w.Dev.IpcGet()
	return s
}

func (w *World) TunEvent(e tun.Event) Out {
	w.Tun.Event(e)
	return w.Take()
}

// ---------------------------------------------------------------- handshakes

// RefInitiates performs a handshake with ref as initiator.  It returns the
// device's reaction; on success the new session is appended to p.Sessions.
func (w *World) RefInitiates(p *RefPeer, from netip.AddrPort, ts [12]byte) (*ref.InitiatorState, Out, *ref.Session, error) {
	p.NextIdx++
	st := ref.CreateInitiation(p.Priv, ref.NewPrivate(), w.DevPub, p.Psk, p.NextIdx, ts)
	p.LastInit = st
	out := w.Inject(from, st.Msg)
	for _, s := range out.Sent {
		if len(s.Data) == ref.ResponseSize && s.Data[0] == ref.TypeResponse {
			sess, err := st.ConsumeResponse(s.Data)
			if err == nil {
				p.Sessions = append(p.Sessions, sess)
			}
			return st, out, sess, err
		}
	}
	return st, out, nil, fmt.Errorf("no response")
}

// AnswerInitiation lets ref (as responder p) answer a device initiation found in out.
// It returns the ref-side session (not yet confirmed to the device) and the device's reaction.
func (w *World) AnswerInitiation(p *RefPeer, initMsg []byte, from netip.AddrPort) (*ref.Session, Out, error) {
	rs, err := ref.ConsumeInitiation(initMsg, p.Priv)
	if err != nil {
		return nil, Out{}, err
	}
	if rs.InitiatorStatic != w.DevPub {
		return nil, Out{}, fmt.Errorf("initiation not from the device")
	}
	p.NextIdx++
	resp, sess := rs.CreateResponse(ref.NewPrivate(), p.Psk, p.NextIdx)
	out := w.Inject(from, resp)
	p.Sessions = append(p.Sessions, sess)
	return sess, out, nil
}

// FindInitiation returns the first handshake initiation among sent datagrams.
func FindInitiation(sent []sim.Sent) *sim.Sent {
	for i := range sent {
		if len(sent[i].Data) == ref.InitiationSize && sent[i].Data[0] == ref.TypeInitiation {
			return &sent[i]
		}
	}
	return nil
}

// ---------------------------------------------------------------- descriptors

// Desc describes one datagram emitted by the device, as far as the remote parties can tell.
type Desc struct {
	Kind      string // "initiation","response","cookie","transport","malformed"
	Len       int
	To        string
	Sender    uint32
	Receiver  uint32
	Counter   uint64
	Mac1Peer  string // name of the ref peer under whose public key MAC1 verifies ("" = none)
	Mac2Zero  bool
	OpensAs   string // "<peer>/<session#>" whose keys open it (transport), or initiator static check (initiation)
	Plain     []byte // decrypted plaintext (transport)
	TypeWord  uint32
	Timestamp []byte // initiation: decrypted TAI64N
}

func (w *World) Describe(s sim.Sent) Desc {
	d := Desc{Len: len(s.Data), To: s.To.String(), Kind: "malformed"}
	if len(s.Data) < 4 {
		return d
	}
	d.TypeWord = binary.LittleEndian.Uint32(s.Data[:4])
	switch {
	case d.TypeWord == ref.TypeInitiation && len(s.Data) == ref.InitiationSize:
		d.Kind = "initiation"
		d.Sender = binary.LittleEndian.Uint32(s.Data[4:8])
		d.Mac2Zero = ref.Mac2IsZero(s.Data)
		for _, p := range w.Peers {
			if ref.CheckMac1(s.Data, p.Pub) {
				d.Mac1Peer = p.Name
			}
			if rs, err := ref.ConsumeInitiation(s.Data, p.Priv); err == nil && rs.InitiatorStatic == w.DevPub {
				d.OpensAs = p.Name
				d.Timestamp = append([]byte{}, rs.Timestamp[:]...)
			}
		}
	case d.TypeWord == ref.TypeResponse && len(s.Data) == ref.ResponseSize:
		d.Kind = "response"
		d.Sender = binary.LittleEndian.Uint32(s.Data[4:8])
		d.Receiver = binary.LittleEndian.Uint32(s.Data[8:12])
		d.Mac2Zero = ref.Mac2IsZero(s.Data)
		for _, p := range w.Peers {
			if ref.CheckMac1(s.Data, p.Pub) {
				d.Mac1Peer = p.Name
			}
		}
	case d.TypeWord == ref.TypeCookie && len(s.Data) == ref.CookieSize:
		d.Kind = "cookie"
		d.Receiver = binary.LittleEndian.Uint32(s.Data[4:8])
	case d.TypeWord == ref.TypeTransport && len(s.Data) >= 32:
		d.Kind = "transport"
		d.Receiver = binary.LittleEndian.Uint32(s.Data[4:8])
		d.Counter = binary.LittleEndian.Uint64(s.Data[8:16])
		for _, p := range w.Peers {
			for i, sess := range p.Sessions {
				if _, _, pt, err := sess.OpenTransport(s.Data); err == nil {
					d.OpensAs = fmt.Sprintf("%s/%d", p.Name, i)
					d.Plain = pt
					if pt == nil {
						d.Plain = []byte{}
					}
				}
			}
		}
	}
	return d
}

func (w *World) DescribeAll(sent []sim.Sent) []Desc {
	out := make([]Desc, len(sent))
	for i, s := range sent {
		out[i] = w.Describe(s)
	}
	return out
}

// NoisePK converts a ref key.
func NoisePK(k ref.Key) (o device.NoisePublicKey) { copy(o[:], k[:]); return }
