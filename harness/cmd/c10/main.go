// c10 drives a real wireguard-go device (sim bind/tun) with scenarios about
// silence toward strangers and the cookie mechanism under load, the remote
// side being package ref.  Every scenario is a list of abstract plan steps;
// executing it yields, per step, the event as the Coq slice model
// (Cookie/Model.v) understands it (with the construction descriptor of every
// datagram) and the observed datagrams / state changes.  Output: Gallina case
// files + cases.json.  One natural-load scenario (no hook) is run per
// invocation and judged in Go.
package main

import (
	"bytes"
	"crypto/rand"
	"encoding/binary"
	"encoding/hex"
	"encoding/json"
	"flag"
	"fmt"
	mrand "math/rand"
	"net"
	"net/netip"
	"os"
	"os/exec"
	"path/filepath"
	"runtime"
	"sort"
	"strings"
	"sync"
	"time"

	"golang.zx2c4.com/wireguard/conn"
	"golang.zx2c4.com/wireguard/device"

	"wgv/cosim"
	"wgv/ref"
	"wgv/sim"
)

// ---------------------------------------------------------------- plan

type Plan struct {
	Op         string `json:"op"` // load, loadfor (D ms), sleep (D ms), tbatch (Elems), setkey (D=0 remove, 1 restore), shiftsecret, shiftpeercookie, shifths, tun, msg
	On         bool   `json:"on,omitempty"`
	D          int    `json:"d,omitempty"`    // seconds
	Peer       int    `json:"peer,omitempty"` // 0,1,2 = configured peers; 9 = stranger
	Typ        string `json:"typ,omitempty"`  // init, resp, cookie, transport, raw
	From       int    `json:"from,omitempty"` // index into the address table
	Mac1       string `json:"mac1,omitempty"` // ok, junk, otherkey, stale
	Mac2       string `json:"mac2,omitempty"` // zero, junk, cookie, cookiefrom
	CookieAddr int    `json:"cookieaddr,omitempty"`
	Content    string `json:"content,omitempty"`
	Size       int    `json:"size,omitempty"`
	TypeWord   uint32 `json:"typeword,omitempty"`
	Elems      []Plan `json:"elems,omitempty"` // tbatch: transport messages delivered in one receive batch
}

type StepRec struct {
	Plan  Plan     `json:"plan"`
	Event string   `json:"event"`
	Obs   string   `json:"obs"`
	Outs  []string `json:"outs"`
	Chg   []int    `json:"chg"`
	Note  string   `json:"note,omitempty"`
}

type Case struct {
	Gen     string    `json:"gen"`
	Plan    []Plan    `json:"plan"`
	Steps   []StepRec `json:"steps,omitempty"`
	Gallina string    `json:"-"`
	Slow    int       `json:"slow,omitempty"`
	Natural *Natural  `json:"natural,omitempty"`
	Loop    *Loopback `json:"loopback,omitempty"`
}

type Natural struct {
	Status  string `json:"status"` // ok, skipped, violation
	Detail  string `json:"detail"`
	Replies int    `json:"replies"`
	Queued  int    `json:"queued"`
	Window  string `json:"window,omitempty"` // the sliding under-load period: ok, skipped (why), or the violation
	After   string `json:"after,omitempty"`  // behaviour once the load episode is over for more than 1 s
}

// Loopback is the verdict of the pass over the real conn.StdNetBind (judged in Go).
type Loopback struct {
	Status string   `json:"status"` // ok, skipped, violation
	Detail string   `json:"detail"`
	Checks int      `json:"checks"`
	Log    []string `json:"log,omitempty"`
}

const baseNs = int64(1_000_000_000_000)

var addrTable = []string{
	"192.0.2.7:5555",     // 0: peer A's configured endpoint
	"192.0.2.8:6666",     // 1: peer B's
	"192.0.2.9:7777",     // 2: peer C's
	"192.0.2.7:5556",     // 3: A's address, other port
	"198.51.100.1:5555",  // 4: other address, A's port
	"198.51.100.2:40000", // 5
	"[2001:db8::7]:5555", // 6
	"203.0.113.77:1",     // 7
	"192.0.2.8:6667",     // 8: B's address, other port
}

var tunDst = [][4]byte{{10, 0, 0, 2}, {10, 0, 1, 77}, {10, 0, 2, 77}}

// ---------------------------------------------------------------- run state

type gotCookie struct {
	c     []byte
	epoch int
	addr  int
}

type devMsg struct {
	body int
	mac1 [16]byte
	raw  []byte
	hid  int
	idx  uint32
}

type refInit struct {
	body []byte // 116 bytes
	ts   uint64
	st   *ref.InitiatorState
}

type run struct {
	w         *cosim.World
	peers     []*cosim.RefPeer
	stranger  *cosim.RefPeer
	addrs     []netip.AddrPort
	ipid      map[netip.Addr]int
	t0        time.Time
	bodies    map[string]int
	cookies   map[int][]gotCookie // by address index: cookies the device issued to that address
	given     [][16]byte          // cookies handed to the device, number n = index+1
	secret    [32]byte
	epoch     int
	devInit   map[int]*devMsg  // latest initiation the device sent to peer i
	devMsgs   map[int][]devMsg // all handshake messages the device sent to peer i
	hidNext   int
	tsSeq     uint64
	maxTs     map[int]uint64
	consumed  map[int][]*refInit
	pending   map[int]*refInit // last initiation sent by ref peer i (for WithCookie re-sends)
	lastResp  map[int][]byte   // last response body (60 bytes) ref peer i built
	lastHid   map[int]int
	ctr       map[int]uint64
	lastTr    map[int][]byte
	lim       map[int]int
	fp        []string
	devfp     string
	nonce     int
	loadOn    bool
	idNum     int // key number of the device's current static key: 1 = the configured one, 8 = the all-zero private key
	confirmed map[*ref.Session]bool
	lastCons  map[int]time.Time // when the device last consumed an initiation of ref peer i (cleared by a handshake-time shift)
}

func keyNum(i int) int {
	if i == 9 {
		return 9
	}
	return i + 2
}

func (r *run) now() int64 { return baseNs + time.Since(r.t0).Nanoseconds() }

func (r *run) bodyID(b []byte) int {
	k := hex.EncodeToString(b)
	if id, ok := r.bodies[k]; ok {
		return id
	}
	id := len(r.bodies) + 1
	r.bodies[k] = id
	return id
}

func (r *run) addrDesc(ap netip.AddrPort) (int, int) {
	id, ok := r.ipid[ap.Addr()]
	if !ok {
		id = 900 + len(r.ipid)
		r.ipid[ap.Addr()] = id
	}
	return id, int(ap.Port())
}

func addrBytes(ap netip.AddrPort) []byte { b, _ := ap.MarshalBinary(); return b }

func newRun() (*run, error) {
	r := &run{ipid: map[netip.Addr]int{}, bodies: map[string]int{}, cookies: map[int][]gotCookie{},
		devInit: map[int]*devMsg{}, devMsgs: map[int][]devMsg{}, maxTs: map[int]uint64{}, consumed: map[int][]*refInit{},
		pending: map[int]*refInit{}, lastResp: map[int][]byte{}, lastHid: map[int]int{}, ctr: map[int]uint64{},
		lastTr: map[int][]byte{}, lim: map[int]int{}, idNum: 1, confirmed: map[*ref.Session]bool{}, lastCons: map[int]time.Time{}}
	for _, a := range addrTable {
		ap := netip.MustParseAddrPort(a)
		r.addrs = append(r.addrs, ap)
		if _, ok := r.ipid[ap.Addr()]; !ok {
			r.ipid[ap.Addr()] = len(r.ipid) + 1
		}
	}
	a := cosim.NewPeer("A", addrTable[0], "10.0.0.2/32")
	b := cosim.NewPeer("B", addrTable[1], "10.0.1.0/24")
	c := cosim.NewPeer("C", addrTable[2], "10.0.2.0/24")
	b.Psk = ref.NewPrivate()
	r.peers = []*cosim.RefPeer{a, b, c}
	r.stranger = cosim.NewPeer("X", addrTable[5])
	r.stranger.Configured = false
	r.t0 = time.Now()
	w, err := cosim.NewWorld(cosim.Config{Up: true, BindBatch: 8}, true, a, b, c)
	if err != nil {
		return nil, err
	}
	w.Timeout = 3 * time.Second
	r.w = w
	r.fp = make([]string, len(r.peers))
	for i := range r.peers {
		r.fp[i] = r.peerFP(i)
	}
	r.devfp = r.deviceFP()
	return r, nil
}

// ---------------------------------------------------------------- fingerprints

func (r *run) peerFP(i int) string {
	p := r.peers[i]
	pk := p.NoisePub()
	st := r.w.Dev.VerifPeer(pk)
	st.Previous.AgeNanos, st.Current.AgeNanos, st.Next.AgeNanos = 0, 0, 0
	g := r.w.Dev.VerifCookieGen(pk)
	var idx []string
	for _, e := range r.w.Dev.VerifIndexTable() {
		if e.Peer == pk {
			idx = append(idx, fmt.Sprintf("%d/%v/%v", e.Index, e.IsHandshake, e.IsKeypair))
		}
	}
	sort.Strings(idx)
	hexpk := hex.EncodeToString(p.Pub[:])
	var sect []string
	in := false
	for _, l := range strings.Split(r.w.Get(), "\n") {
		if strings.HasPrefix(l, "public_key=") {
			in = l == "public_key="+hexpk
		}
		if in && l != "" {
			sect = append(sect, l)
		}
	}
	return fmt.Sprintf("%+v|%+v|%v|%v", st, g, idx, sect)
}

func (r *run) deviceFP() string {
	var sect []string
	for _, l := range strings.Split(r.w.Get(), "\n") {
		if strings.HasPrefix(l, "public_key=") {
			break
		}
		sect = append(sect, l)
	}
	n := 0
	known := map[[32]byte]bool{}
	for _, p := range r.peers {
		known[[32]byte(p.Pub)] = true
	}
	for _, e := range r.w.Dev.VerifIndexTable() {
		if !known[[32]byte(e.Peer)] {
			n++
		}
	}
	return fmt.Sprintf("%v|%d|%d", sect, n, len(r.w.Dev.VerifPeerKeys()))
}

// ---------------------------------------------------------------- message building

type built struct {
	data    []byte
	typ     uint32
	size    int
	body    int
	sender  uint32
	m1k     int
	m1b     int
	m2      string // gallina m2d
	content string // gallina content
	mac1    [16]byte
	hasMac2 bool
}

func min64(a, b uint64) uint64 {
	if a < b {
		return a
	}
	return b
}

func junk16() (o [16]byte) { rand.Read(o[:]); return }

func (r *run) pickCookie(pl Plan) *gotCookie {
	addr := pl.From
	if pl.Mac2 == "cookiefrom" {
		addr = pl.CookieAddr
	}
	cs := r.cookies[addr%len(r.addrs)]
	if len(cs) == 0 {
		return nil
	}
	return &cs[len(cs)-1]
}

// finish a handshake message body (bytes before MAC1) with the MAC variants of the plan
func (r *run) withMacs(pl Plan, body []byte, sender *cosim.RefPeer) built {
	var b built
	if pl.TypeWord != 0 && len(body) >= 4 {
		// an otherwise well-formed message with another type word: the MACs are computed over the bytes as sent
		body = append([]byte{}, body...)
		binary.LittleEndian.PutUint32(body[:4], pl.TypeWord)
	}
	orig := r.bodyID(body)
	var m1 [16]byte
	b.m1k, b.m1b = 1, orig
	switch pl.Mac1 {
	case "junk":
		m1 = junk16()
		b.m1k, b.m1b = 0, 1000+orig
	case "zerokey":
		// MAC1 for the public key that belongs to the all-zero private key (the identity after key removal)
		zp := ref.PubOf(ref.Key{})
		k := ref.Hash([]byte(ref.LabelMAC1), zp[:])
		m1 = ref.Mac(k[:], body)
		b.m1k = 8
	case "otherkey":
		k := ref.Hash([]byte(ref.LabelMAC1), sender.Pub[:])
		m1 = ref.Mac(k[:], body)
		b.m1k = 7 // a key number that is not the device's
	default:
		k := ref.Hash([]byte(ref.LabelMAC1), r.w.DevPub[:])
		m1 = ref.Mac(k[:], body)
	}
	msg := append(append([]byte{}, body...), m1[:]...)
	b.m2 = "M2Zero"
	var m2 [16]byte
	switch pl.Mac2 {
	case "junk":
		m2 = junk16()
		b.m2 = fmt.Sprintf("(M2Junk %d)", 1+int(m2[0]))
		b.hasMac2 = true
	case "cookie", "cookiefrom":
		if c := r.pickCookie(pl); c != nil {
			m2 = ref.Mac(c.c, msg)
			ip, port := r.addrDesc(r.addrs[c.addr])
			b.m2 = fmt.Sprintf("(M2Cookie %d %d %d)", c.epoch, ip, port)
			b.hasMac2 = true
		}
	}
	msg = append(msg, m2[:]...)
	b.mac1 = m1
	if pl.Mac1 == "stale" {
		// the body is altered after the MACs were computed
		msg[5] ^= 0x40
		b.m2 = "(M2Junk 3)"
	}
	b.body = r.bodyID(msg[:len(msg)-32])
	b.data = msg
	b.size = len(msg)
	b.typ = binary.LittleEndian.Uint32(msg[:4])
	b.sender = binary.LittleEndian.Uint32(msg[4:8])
	return b
}

func (r *run) refPeer(i int) *cosim.RefPeer {
	if i == 9 {
		return r.stranger
	}
	return r.peers[i%len(r.peers)]
}

func (r *run) buildInit(pl Plan) built {
	p := r.refPeer(pl.Peer)
	pi := pl.Peer
	var body []byte
	var ts uint64
	content := pl.Content
	if content == "replay" && len(r.consumed[pi]) == 0 {
		content = "good"
	}
	if content == "resend" && r.pending[pi] == nil {
		content = "good"
	}
	switch content {
	case "replay":
		ri := r.consumed[pi][len(r.consumed[pi])-1]
		body, ts = ri.body, ri.ts
	case "resend":
		body, ts = r.pending[pi].body, r.pending[pi].ts
	default:
		r.tsSeq++
		ts = uint64(time.Now().UnixNano())
		if ts <= r.maxTs[pi] {
			ts = r.maxTs[pi] + 1
		}
		p.NextIdx++
		st := ref.CreateInitiation(p.Priv, ref.NewPrivate(), r.w.DevPub, p.Psk, p.NextIdx,
			ref.Tai64nRaw(0x400000000000000a+ts/1e9, uint32(ts%1e9)))
		body = append([]byte{}, st.Msg[:116]...)
		ri := &refInit{body: body, ts: ts, st: st}
		if content == "corrupt" {
			body[40+7] ^= 1
			ri = nil
		}
		if ri != nil {
			r.pending[pi] = ri
		}
	}
	b := r.withMacs(pl, body, p)
	who := "None"
	if pi != 9 && content != "corrupt" && pl.Mac1 != "stale" && r.idNum == 1 {
		// (built for the device's configured identity: with another or no identity the static does not even decrypt)
		who = fmt.Sprintf("(Some %d)", keyNum(pi))
	}
	fresh := ts > r.maxTs[pi]
	b.content = fmt.Sprintf("(CInit %s %v)", who, fresh)
	return b
}

func (r *run) buildResp(pl Plan) built {
	p := r.refPeer(pl.Peer)
	pi := pl.Peer
	di := r.devInit[pi]
	var body []byte
	who, hid := "None", 0
	content := pl.Content
	if content == "resend" && r.lastResp[pi] == nil {
		content = "good"
	}
	if content == "resend" {
		body = r.lastResp[pi]
		hid = r.lastHid[pi]
	} else if di != nil && pi != 9 {
		rs, err := ref.ConsumeInitiation(di.raw, p.Priv)
		if err == nil {
			p.NextIdx++
			resp, sess := rs.CreateResponse(ref.NewPrivate(), p.Psk, p.NextIdx)
			body = append([]byte{}, resp[:60]...)
			hid = di.hid
			switch content {
			case "corrupt":
				body[44+3] ^= 1
				hid = 0
			case "wrongidx":
				binary.LittleEndian.PutUint32(body[8:12], di.idx+1)
			default:
				p.Sessions = append(p.Sessions, sess)
				r.lastResp[pi] = body
				r.lastHid[pi] = hid
			}
		}
	}
	if body == nil {
		// no initiation of the device to answer: a syntactically valid response out of the blue
		body = make([]byte, 60)
		rand.Read(body)
		binary.LittleEndian.PutUint32(body[:4], ref.TypeResponse)
	}
	// the receiver index decides which handshake the device looks up
	recv := binary.LittleEndian.Uint32(body[8:12])
	for _, e := range r.w.Dev.VerifIndexTable() {
		if e.Index == recv && e.IsHandshake {
			for i, q := range r.peers {
				if q.NoisePub() == e.Peer {
					who = fmt.Sprintf("(Some %d)", keyNum(i))
				}
			}
		}
	}
	b := r.withMacs(pl, body, p)
	if pl.Mac1 == "stale" {
		who = "None"
	}
	b.content = fmt.Sprintf("(CResp %s %d)", who, hid)
	return b
}

func (r *run) buildCookie(pl Plan) built {
	p := r.refPeer(pl.Peer)
	pi := pl.Peer
	var b built
	msgs := r.devMsgs[pi]
	var recv uint32 = 0x01020304
	adk, adb := 0, 77
	var ad [16]byte
	rand.Read(ad[:])
	if len(msgs) > 0 {
		last := msgs[len(msgs)-1]
		recv = last.idx
		ad = last.mac1
		adk, adb = keyNum(pi), last.body
	}
	keyPub := p.Pub
	kk := keyNum(pi)
	switch pl.Content {
	case "wrongkey":
		keyPub = r.w.DevPub
		kk = 1
	case "wrongad":
		ad = junk16()
		adk, adb = 0, 78
	case "oldad":
		if len(msgs) > 1 {
			ad = msgs[0].mac1
			adb = msgs[0].body
		}
	case "wrongidx":
		recv ^= 0x5a5a5a5a
	}
	var ck [16]byte
	rand.Read(ck[:])
	r.given = append(r.given, ck)
	n := len(r.given)
	var nonce [24]byte
	rand.Read(nonce[:])
	data := ref.CreateCookieReply(keyPub, recv, nonce, ck, ad)
	owner := "None"
	for _, e := range r.w.Dev.VerifIndexTable() {
		if e.Index == recv {
			for i, q := range r.peers {
				if q.NoisePub() == e.Peer {
					owner = fmt.Sprintf("(Some %d)", keyNum(i))
				}
			}
		}
	}
	b.data, b.typ, b.size, b.sender = data, ref.TypeCookie, len(data), recv
	b.body = r.bodyID(data[:32])
	b.m1k, b.m1b, b.m2 = 0, 0, "M2Zero"
	b.content = fmt.Sprintf("(CCookie %s (cenc %d %d %d %d %d))", owner, kk, n, n, adk, adb)
	return b
}

func (r *run) buildTransport(pl Plan) built {
	p := r.refPeer(pl.Peer)
	pi := pl.Peer
	var b built
	var data []byte
	ok := false
	var sess *ref.Session
	for i := len(p.Sessions) - 1; i >= 0 && sess == nil; i-- {
		if r.confirmed[p.Sessions[i]] {
			sess = p.Sessions[i]
		}
	}
	content := pl.Content
	if sess == nil || pi == 9 {
		content = "badidx"
	}
	if content == "replay" && r.lastTr[pi] == nil {
		content = "good"
	}
	switch content {
	case "badidx":
		s := &ref.Session{SendKey: ref.NewPrivate(), RemoteIdx: mrand.Uint32()}
		data = s.Transport(0, nil)
	case "replay":
		data = r.lastTr[pi]
	case "badtag":
		data = sess.Transport(r.ctr[pi]+1000, nil)
		data[len(data)-1] ^= 1
	case "badtagfar":
		// live receiver index, counter far ahead of anything the session has used, tag does not verify
		data = sess.Transport((1<<40)+uint64(mrand.Intn(1<<20)), nil)
		data[len(data)-1-mrand.Intn(16)] ^= 0x20
	case "badtagnear":
		// counter just ahead of / equal to the next genuine one
		data = sess.Transport(r.ctr[pi]+uint64(mrand.Intn(3)), nil)
		data[len(data)-1] ^= 4
	case "badtagbehind":
		c := r.ctr[pi]
		if c > 0 {
			c -= 1 + uint64(mrand.Intn(int(min64(c, 50))))
		}
		data = sess.Transport(c, nil)
		data[len(data)-2] ^= 8
	case "wrongkeyfar":
		// live receiver index and a far counter, sealed under a key the device does not have
		s := &ref.Session{SendKey: ref.NewPrivate(), RemoteIdx: sess.RemoteIdx}
		data = s.Transport((1<<50)+uint64(mrand.Intn(1000)), ref.Pad(ref.IPv4([4]byte{10, 0, 0, 2}, [4]byte{10, 9, 9, 9}, 40, 1)))
	default:
		data = sess.Transport(r.ctr[pi], nil)
		r.ctr[pi]++
		r.lastTr[pi] = data
		for _, e := range r.w.Dev.VerifIndexTable() {
			if e.Index == sess.RemoteIdx && e.IsKeypair && e.Peer == p.NoisePub() {
				ok = true
			}
		}
	}
	b.data, b.typ, b.size = data, ref.TypeTransport, len(data)
	b.sender = binary.LittleEndian.Uint32(data[4:8])
	b.body = r.bodyID(data)
	b.m2 = "M2Zero"
	if ok {
		b.content = fmt.Sprintf("(CTransport (Some %d))", keyNum(pi))
	} else {
		b.content = "(CTransport None)"
	}
	return b
}

func (r *run) buildRaw(pl Plan) built {
	var b built
	n := pl.Size
	if n < 0 {
		n = 0
	}
	data := make([]byte, n)
	rand.Read(data)
	if n >= 4 {
		binary.LittleEndian.PutUint32(data[:4], pl.TypeWord)
	}
	b.data, b.size, b.typ = data, n, pl.TypeWord
	if n < 4 {
		b.typ = 0
	}
	if n >= 8 {
		b.sender = binary.LittleEndian.Uint32(data[4:8])
	}
	b.body = r.bodyID(append([]byte{0xff}, data...))
	b.m1k, b.m1b, b.m2 = 0, 2000+b.body, "(M2Junk 5)"
	b.content = "CNone"
	if pl.TypeWord == ref.TypeTransport {
		b.content = "(CTransport None)"
	}
	if pl.TypeWord == ref.TypeCookie {
		b.content = "(CCookie None TZero)"
	}
	return b
}

// resize a well-formed message (wrong-size variants of the four types)
func resize(b *built, n int) {
	if n <= 0 || n == len(b.data) {
		return
	}
	if n < len(b.data) {
		b.data = b.data[:n]
	} else {
		b.data = append(b.data, make([]byte, n-len(b.data))...)
	}
	b.size = n
}

// ---------------------------------------------------------------- observation

func (r *run) noteSecret() {
	cs := r.w.Dev.VerifCookieChecker()
	if cs.SecretSet && cs.Secret != r.secret {
		r.secret = cs.Secret
		r.epoch++
	}
}

type offender struct {
	mac1 [16]byte
	from int
	peer *cosim.RefPeer
}

func (r *run) describe(sent []sim.Sent, off *offender, bodyOracle *int, hidOracle *int) ([]string, []string) {
	var gal, txt []string
	for _, s := range sent {
		ip, port := r.addrDesc(s.To)
		d := s.Data
		kind := 0
		if len(d) >= 4 {
			tw := binary.LittleEndian.Uint32(d[:4])
			switch {
			case tw == ref.TypeInitiation && len(d) == ref.InitiationSize:
				kind = 1
			case tw == ref.TypeResponse && len(d) == ref.ResponseSize:
				kind = 2
			case tw == ref.TypeCookie && len(d) == ref.CookieSize:
				kind = 3
			case tw == ref.TypeTransport && len(d) >= 32:
				kind = 4
			}
		}
		switch kind {
		case 1, 2:
			peer, pidx := 0, -1
			for i, p := range r.peers {
				if ref.CheckMac1(d, p.Pub) {
					peer, pidx = keyNum(i), i
				}
			}
			body := r.bodyID(d[:len(d)-32])
			*bodyOracle = body
			mac2 := 999
			if ref.Mac2IsZero(d) {
				mac2 = 0
			} else {
				for n, c := range r.given {
					if ref.CheckMac2(d, c[:]) {
						mac2 = 1 + n + 1
					}
				}
			}
			var dm devMsg
			dm.body, dm.raw = body, append([]byte{}, d...)
			copy(dm.mac1[:], d[len(d)-32:len(d)-16])
			dm.idx = binary.LittleEndian.Uint32(d[4:8])
			if pidx >= 0 {
				if kind == 1 {
					r.hidNext++
					dm.hid = r.hidNext
					*hidOracle = dm.hid
					cp := dm
					r.devInit[pidx] = &cp
				} else {
					// the device answered an initiation of ref peer pidx: complete the session on ref's side
					if ri := r.pending[pidx]; ri != nil && ri.st != nil {
						if sess, err := ri.st.ConsumeResponse(d); err == nil {
							r.peers[pidx].Sessions = append(r.peers[pidx].Sessions, sess)
							r.confirmed[sess] = true
							r.ctr[pidx] = 0
							r.lastTr[pidx] = nil
							if ri.ts > r.maxTs[pidx] {
								r.maxTs[pidx] = ri.ts
							}
							r.consumed[pidx] = append(r.consumed[pidx], ri)
							r.lastCons[pidx] = time.Now()
						}
					}
				}
				r.devMsgs[pidx] = append(r.devMsgs[pidx], dm)
			}
			gal = append(gal, fmt.Sprintf("OD %d %d %d 0 %d %d %d false false 0 0 0", kind, ip, port, peer, body, mac2))
			txt = append(txt, fmt.Sprintf("%s->%s peer=%d mac2=%d", map[int]string{1: "init", 2: "resp"}[kind], s.To, peer, mac2))
		case 3:
			recv := binary.LittleEndian.Uint32(d[4:8])
			opens, wrongFail := false, true
			epoch, cip, cport := 0, 0, 0
			if off != nil {
				idPub := r.w.DevPub
				if r.idNum != 1 {
					idPub = ref.PubOf(ref.Key{}) // the device's identity is the all-zero key at the moment
				}
				_, c, err := ref.OpenCookieReply(d, idPub, off.mac1)
				if err == nil {
					opens = true
					r.noteSecret()
					// which address is the cookie bound to, under the device's current secret?
					for ai, ap := range r.addrs {
						m := ref.Mac(r.secret[:], addrBytes(ap))
						if bytes.Equal(m[:], c) {
							cip, cport = r.addrDesc(ap)
							epoch = r.epoch
							r.cookies[ai] = append(r.cookies[ai], gotCookie{c: c, epoch: r.epoch, addr: ai})
						}
					}
				}
				// must fail with another key and with another MAC1
				if _, _, err := ref.OpenCookieReply(d, off.peer.Pub, off.mac1); err == nil {
					wrongFail = false
				}
				bad := off.mac1
				bad[3] ^= 0x10
				if _, _, err := ref.OpenCookieReply(d, idPub, bad); err == nil {
					wrongFail = false
				}
			}
			gal = append(gal, fmt.Sprintf("OD 3 %d %d %d 0 0 0 %v %v %d %d %d", ip, port, recv, opens, wrongFail, epoch, cip, cport))
			txt = append(txt, fmt.Sprintf("cookie->%s recv=%d opens=%v epoch=%d", s.To, recv, opens, epoch))
		case 4:
			peer := 0
			for i, p := range r.peers {
				for _, sess := range p.Sessions {
					if _, _, _, err := sess.OpenTransport(d); err == nil {
						peer = keyNum(i)
						if !r.confirmed[sess] {
							// the device holds this session (it was offered by ref as responder): counters start afresh
							r.confirmed[sess] = true
							r.ctr[i] = 0
							r.lastTr[i] = nil
						}
					}
				}
			}
			gal = append(gal, fmt.Sprintf("OD 4 %d %d 0 %d 0 0 false false 0 0 0", ip, port, peer))
			txt = append(txt, fmt.Sprintf("transport->%s peer=%d", s.To, peer))
		default:
			gal = append(gal, fmt.Sprintf("OD 0 %d %d 0 0 0 0 false false 0 0 0", ip, port))
			txt = append(txt, fmt.Sprintf("other->%s len=%d", s.To, len(d)))
		}
	}
	return gal, txt
}

func (r *run) observe(out cosim.Out, off *offender, bodyOracle, hidOracle *int) (string, []string, []int) {
	gal, txt := r.describe(out.Sent, off, bodyOracle, hidOracle)
	r.noteSecret()
	var chg []string
	var chgI []int
	for i := range r.peers {
		f := r.peerFP(i)
		if f != r.fp[i] {
			chg = append(chg, fmt.Sprint(keyNum(i)))
			chgI = append(chgI, keyNum(i))
			r.fp[i] = f
		}
	}
	df := r.deviceFP()
	dch := df != r.devfp
	r.devfp = df
	return fmt.Sprintf("OB [%s] [%s] %v %d", strings.Join(gal, "; "), strings.Join(chg, "; "), dch, r.epoch), txt, chgI
}

// ---------------------------------------------------------------- executing a plan step

func (r *run) exec(pl Plan) (rec StepRec, settled bool) {
	rec.Plan = pl
	settled = true
	body, hid := 0, 0
	d := time.Duration(pl.D) * time.Second
	switch pl.Op {
	case "load":
		t := r.now()
		if pl.On {
			r.w.Dev.VerifForceUnderLoad(600 * time.Second)
		} else {
			r.w.Dev.VerifForceUnderLoad(0)
		}
		r.loadOn = pl.On
		out := r.w.Take()
		obs, txt, chg := r.observe(out, nil, &body, &hid)
		rec.Event = fmt.Sprintf("FL %d %d %v", t, int64(600e9), pl.On)
		rec.Obs, rec.Outs, rec.Chg, settled = obs, txt, chg, out.Settled
	case "setkey":
		// UAPI private_key=: D = 0 removes the identity (all-zero key), D = 1 restores the configured one
		t := r.now()
		key := ref.Key{}
		r.idNum = 8
		if pl.D == 1 {
			key = r.w.DevPriv
			r.idNum = 1
		}
		if err := r.w.Dev.IpcSet(fmt.Sprintf("private_key=%s\n", hex.EncodeToString(key[:]))); err != nil {
			panic(err)
		}
		out := r.w.Take()
		// what the key change itself does to the peers (handshake cleared, send counters pushed to the limit) is not
		// the subject here: the fingerprints are taken afresh
		for i := range r.peers {
			r.fp[i] = r.peerFP(i)
		}
		r.devfp = r.deviceFP()
		obs, txt, chg := r.observe(out, nil, &body, &hid)
		rec.Event = fmt.Sprintf("SK %d %d", t, r.idNum)
		rec.Obs, rec.Outs, rec.Chg, settled = obs, txt, chg, out.Settled
	case "loadfor":
		// VerifForceUnderLoad for D milliseconds
		t := r.now()
		r.w.Dev.VerifForceUnderLoad(time.Duration(pl.D) * time.Millisecond)
		r.loadOn = true
		out := r.w.Take()
		obs, txt, chg := r.observe(out, nil, &body, &hid)
		rec.Event = fmt.Sprintf("FL %d %d true", t, int64(pl.D)*1e6)
		rec.Obs, rec.Outs, rec.Chg, settled = obs, txt, chg, out.Settled
	case "sleep":
		time.Sleep(time.Duration(pl.D) * time.Millisecond)
		r.loadOn = false
		out := r.w.Take()
		obs, txt, chg := r.observe(out, nil, &body, &hid)
		rec.Event = "SS 0"
		rec.Obs, rec.Outs, rec.Chg, settled = obs, txt, chg, out.Settled
	case "shiftsecret":
		r.w.Dev.VerifShiftCookieSecret(d)
		out := r.w.Take()
		obs, txt, chg := r.observe(out, nil, &body, &hid)
		rec.Event = fmt.Sprintf("SS %d", int64(d))
		rec.Obs, rec.Outs, rec.Chg, settled = obs, txt, chg, out.Settled
	case "shiftpeercookie":
		p := r.peers[pl.Peer%len(r.peers)]
		r.w.Dev.VerifShiftPeerCookie(p.NoisePub(), d)
		r.fp[pl.Peer%len(r.peers)] = r.peerFP(pl.Peer % len(r.peers)) // the shift itself is the harness's doing
		out := r.w.Take()
		obs, txt, chg := r.observe(out, nil, &body, &hid)
		rec.Event = fmt.Sprintf("SP %d %d", keyNum(pl.Peer%len(r.peers)), int64(d))
		rec.Obs, rec.Outs, rec.Chg, settled = obs, txt, chg, out.Settled
	case "shifths":
		p := r.peers[pl.Peer%len(r.peers)]
		delete(r.lastCons, pl.Peer%len(r.peers))
		r.w.Dev.VerifShiftHandshakeTimes(p.NoisePub(), d)
		out := r.w.Take()
		obs, txt, chg := r.observe(out, nil, &body, &hid)
		rec.Event = fmt.Sprintf("SH %d %d", keyNum(pl.Peer%len(r.peers)), int64(d))
		rec.Obs, rec.Outs, rec.Chg, settled = obs, txt, chg, out.Settled
	case "tun":
		pi := pl.Peer % len(r.peers)
		pkt := ref.IPv4([4]byte{10, 9, 9, 9}, tunDst[pi], 60, byte(pi))
		t := r.now()
		out := r.w.TunIn(pkt)
		obs, txt, chg := r.observe(out, nil, &body, &hid)
		rec.Event = fmt.Sprintf("T %d %d %d %d", t, keyNum(pi), hid, body)
		rec.Obs, rec.Outs, rec.Chg, settled = obs, txt, chg, out.Settled
	case "msg":
		var b built
		switch pl.Typ {
		case "init":
			b = r.buildInit(pl)
		case "resp":
			b = r.buildResp(pl)
		case "cookie":
			b = r.buildCookie(pl)
		case "transport":
			b = r.buildTransport(pl)
		default:
			b = r.buildRaw(pl)
		}
		if pl.Typ != "raw" {
			resize(&b, pl.Size)
			if pl.TypeWord != 0 && len(b.data) >= 4 {
				binary.LittleEndian.PutUint32(b.data[:4], pl.TypeWord)
				b.typ = pl.TypeWord
			}
		}
		from := r.addrs[pl.From%len(r.addrs)]
		ip, port := r.addrDesc(from)
		// rate limiter: the first four consultations per address must pass
		mustAllow := true
		if r.loadOn && b.hasMac2 && (pl.Typ == "init" || pl.Typ == "resp") {
			mustAllow = r.lim[ip] < 4
			r.lim[ip]++
		}
		r.nonce++
		t := r.now()
		out := r.w.Inject(from, b.data)
		off := &offender{mac1: b.mac1, from: pl.From % len(r.addrs), peer: r.refPeer(pl.Peer)}
		obs, txt, chg := r.observe(out, off, &body, &hid)
		allow := true
		if !mustAllow {
			allow = len(out.Sent) > 0 || len(chg) > 0
			rec.Note = "limiter verdict read off the observation"
		}
		m := fmt.Sprintf("(M %d %d %d %d %d %d %s %d %d %s)", b.typ, b.size, b.body, b.sender, b.m1k, b.m1b, b.m2, ip, port, b.content)
		rec.Event = fmt.Sprintf("R %d %s false %v %d %d", t, m, allow, r.nonce, body)
		rec.Obs, rec.Outs, rec.Chg, settled = obs, txt, chg, out.Settled
	default:
		rec.Event = "SS 0"
		rec.Obs = fmt.Sprintf("OB [] [] false %d", r.epoch)
	}
	return
}

// execBatch delivers several transport messages in ONE receive batch: forged ones (live index, counters
// ahead of / inside / behind the window, tag or key wrong) and at most one genuine one, at any position.  The
// model sees one event per message; whatever the device did is attributed to the genuine message's position
// (the last position if there is none): forged messages must leave no trace, exactly as if erased.
func (r *run) execBatch(pl Plan) ([]StepRec, bool) {
	var bs []built
	var ds []sim.Dgram
	var els []Plan
	genuine := -1
	for _, el := range pl.Elems {
		el.Op, el.Typ = "msg", "transport"
		if el.Content == "good" {
			if genuine >= 0 {
				el.Content = "badtagfar"
			} else {
				genuine = len(els)
			}
		}
		b := r.buildTransport(el)
		if el.Content == "good" && !strings.Contains(b.content, "Some") {
			genuine = -1 // no live session: it is just another stranger's datagram
		}
		bs = append(bs, b)
		els = append(els, el)
		ds = append(ds, sim.Dgram{From: r.addrs[el.From%len(r.addrs)], Data: b.data})
	}
	if len(ds) == 0 {
		return nil, true
	}
	at := genuine
	if at < 0 {
		at = len(ds) - 1
	}
	t := r.now()
	out := r.w.InjectBatch(ds...)
	body, hid := 0, 0
	obs, txt, chg := r.observe(out, nil, &body, &hid)
	var recs []StepRec
	for i, b := range bs {
		ip, port := r.addrDesc(r.addrs[els[i].From%len(r.addrs)])
		r.nonce++
		m := fmt.Sprintf("(M %d %d %d %d %d %d %s %d %d %s)", b.typ, b.size, b.body, b.sender, b.m1k, b.m1b, b.m2, ip, port, b.content)
		rec := StepRec{Plan: els[i], Event: fmt.Sprintf("R %d %s false true %d 0", t+int64(i), m, r.nonce), Obs: fmt.Sprintf("OB [] [] false %d", r.epoch)}
		if i == at {
			rec.Obs, rec.Outs, rec.Chg = obs, txt, chg
		}
		rec.Note = fmt.Sprintf("element %d of a receive batch of %d", i, len(bs))
		recs = append(recs, rec)
	}
	return recs, out.Settled
}

func runCase(gen string, plan []Plan) Case {
	c := Case{Gen: gen, Plan: plan}
	for attempt := 0; attempt < 3; attempt++ {
		r, err := newRun()
		if err != nil {
			panic(err)
		}
		c.Steps = nil
		ok := true
		for _, pl := range plan {
			if pl.Op == "tbatch" {
				recs, settled := r.execBatch(pl)
				c.Steps = append(c.Steps, recs...)
				if !settled {
					ok = false
					break
				}
				continue
			}
			// the 20 ms flood gap after a consumed initiation is C06's subject, not modelled here: an initiation of
			// the same peer that would fall into it (plans shrunk or replayed by hand) is preceded by a shift
			if pl.Op == "msg" && pl.Typ == "init" && pl.Peer != 9 {
				if lc, ok2 := r.lastCons[pl.Peer%len(r.peers)]; ok2 && time.Since(lc) < 200*time.Millisecond {
					rec, settled := r.exec(Plan{Op: "shifths", Peer: pl.Peer % len(r.peers), D: 1})
					c.Steps = append(c.Steps, rec)
					if !settled {
						ok = false
						break
					}
				}
			}
			rec, settled := r.exec(pl)
			c.Steps = append(c.Steps, rec)
			if !settled {
				ok = false
				break
			}
		}
		wall := time.Since(r.t0)
		r.w.Close()
		if ok && wall < 2*time.Second {
			var sb strings.Builder
			var ps []string
			for i, p := range r.peers {
				ip, port := r.addrDesc(p.Addr)
				ps = append(ps, fmt.Sprintf("(%d, Some (%d, %d))", keyNum(i), ip, port))
			}
			fmt.Fprintf(&sb, "mk 1 %d [%s] [", baseNs, strings.Join(ps, "; "))
			for i, s := range c.Steps {
				if i > 0 {
					sb.WriteString(";\n  ")
				}
				fmt.Fprintf(&sb, "(%s, %s)", s.Event, s.Obs)
			}
			sb.WriteString("]")
			c.Gallina = sb.String()
			return c
		}
		c.Slow++
	}
	// could not be run within the time bounds: an empty trace (counted, never a violation)
	c.Steps = nil
	c.Gallina = fmt.Sprintf("mk 1 %d [] []", baseNs)
	return c
}

// ---------------------------------------------------------------- generators

func msg(typ string, peer, from int, mac1, mac2, content string) Plan {
	return Plan{Op: "msg", Typ: typ, Peer: peer, From: from, Mac1: mac1, Mac2: mac2, Content: content}
}

var rawTypes = []uint32{0, 5, 6, 255, 256, 0x100 + 1, 0x01000001, 0x02000000 + 2, 0x80000000, 0xffffffff, 1, 2, 3, 4}
var edgeSizes = []int{0, 1, 3, 4, 8, 31, 32, 33, 63, 64, 65, 91, 92, 93, 147, 148, 149, 200, 1500}

func genStranger(r *mrand.Rand) []Plan {
	var p []Plan
	if r.Intn(2) == 0 {
		p = append(p, Plan{Op: "load", On: true})
	}
	if r.Intn(3) == 0 {
		p = append(p, Plan{Op: "tun", Peer: 1}) // an outstanding initiation of the device toward B
	}
	n := 6 + r.Intn(8)
	for i := 0; i < n; i++ {
		from := r.Intn(len(addrTable))
		switch r.Intn(8) {
		case 0:
			p = append(p, Plan{Op: "msg", Typ: "raw", From: from, Size: edgeSizes[r.Intn(len(edgeSizes))], TypeWord: rawTypes[r.Intn(len(rawTypes))]})
		case 1:
			p = append(p, msg("init", r.Intn(3), from, []string{"junk", "otherkey", "stale"}[r.Intn(3)], []string{"zero", "junk"}[r.Intn(2)], "good"))
		case 2:
			p = append(p, msg("resp", 1, from, []string{"junk", "otherkey", "stale"}[r.Intn(3)], []string{"zero", "junk"}[r.Intn(2)], "good"))
		case 3:
			q := msg("init", r.Intn(3), from, "ok", "zero", "good")
			q.Size = []int{147, 149, 92, 64, 32, 116, 132}[r.Intn(7)]
			p = append(p, q)
		case 4:
			q := msg("resp", 1, from, "ok", "zero", "good")
			q.Size = []int{91, 93, 148, 64, 60, 76}[r.Intn(6)]
			p = append(p, q)
		case 5:
			q := msg("init", r.Intn(3), from, "ok", "zero", "good")
			q.TypeWord = []uint32{0x101, 0x01000001, 5, 0x10001, 3, 4}[r.Intn(6)]
			p = append(p, q)
		case 6:
			q := msg("cookie", r.Intn(2), from, "", "", []string{"wrongkey", "wrongad", "wrongidx", "good"}[r.Intn(4)])
			if r.Intn(2) == 0 {
				q.Size = []int{63, 65, 32, 92}[r.Intn(4)]
			}
			p = append(p, q)
		case 7:
			p = append(p, msg("transport", r.Intn(3), from, "", "", []string{"badidx", "badtag", "replay"}[r.Intn(3)]))
		}
	}
	// the device is alive: a proper handshake still works
	p = append(p, Plan{Op: "load", On: false}, msg("init", 0, 0, "ok", "zero", "good"))
	return p
}

// type words whose low byte names a type but whose reserved bytes 1..3 are not zero: unknown types.
func reservedWord(r *mrand.Rand, t uint32) uint32 {
	return t | []uint32{0x100, 0x10000, 0x01000000, 0x80000000, 0x00ff0000, 0xffffff00}[r.Intn(6)]
}

// otherwise perfectly well-formed messages of all four types (MAC1 valid over the bytes as sent, payload
// authentic, transport sealed under the live session, cookie reply sealed properly) carrying such a type word,
// in both load states and both roles: nothing may be sent, nothing may change
func genReserved(r *mrand.Rand) []Plan {
	pi := r.Intn(3)
	var p []Plan
	p = append(p, msg("init", pi, pi, "ok", "zero", "good"), msg("transport", pi, pi, "", "", "good"))
	other := (pi + 1) % 3
	p = append(p, Plan{Op: "tun", Peer: other}) // an initiation of the device is outstanding toward another peer
	if r.Intn(2) == 0 {
		p = append(p, Plan{Op: "load", On: true})
	}
	n := 4 + r.Intn(5)
	for i := 0; i < n; i++ {
		from := []int{pi, pi, r.Intn(len(addrTable))}[r.Intn(3)]
		var q Plan
		switch r.Intn(5) {
		case 0:
			q = msg("init", pi, from, "ok", []string{"zero", "cookie"}[r.Intn(2)], "good")
			q.TypeWord = reservedWord(r, 1)
			p = append(p, Plan{Op: "shifths", Peer: pi, D: 1})
		case 1:
			q = msg("resp", other, other, "ok", []string{"zero", "cookie"}[r.Intn(2)], "good")
			q.TypeWord = reservedWord(r, 2)
		case 2:
			q = msg("cookie", other, other, "", "", "good")
			q.TypeWord = reservedWord(r, 3)
		case 3, 4:
			q = msg("transport", pi, from, "", "", "good")
			q.TypeWord = reservedWord(r, 4)
		}
		p = append(p, q)
		if r.Intn(3) == 0 {
			p = append(p, Plan{Op: "load", On: r.Intn(2) == 0})
		}
	}
	// the genuine articles still work
	p = append(p, Plan{Op: "load", On: false}, msg("resp", other, other, "ok", "zero", "good"), msg("transport", pi, pi, "", "", "good"))
	return p
}

// the device's identity is removed (private_key=0...0) and later restored: while it is gone, handshake messages
// with MAC1 for the PREVIOUS key are strangers' datagrams in every load state; MAC1 for the zero key's public key
// passes the first gate (cookie reply under load, silence otherwise: nobody can authenticate to a device without key)
func genIdentity(r *mrand.Rand) []Plan {
	pi := r.Intn(3)
	var p []Plan
	if r.Intn(2) == 0 {
		p = append(p, msg("init", pi, pi, "ok", "zero", "good"))
	}
	if r.Intn(3) == 0 {
		p = append(p, Plan{Op: "load", On: true}, msg("init", pi, 4, "ok", "zero", "good")) // a cookie of the old identity
	}
	p = append(p, Plan{Op: "setkey", D: 0})
	p = append(p, Plan{Op: "load", On: r.Intn(3) != 0})
	n := 3 + r.Intn(5)
	for i := 0; i < n; i++ {
		from := r.Intn(len(addrTable))
		switch r.Intn(7) {
		case 0, 1:
			p = append(p, msg("init", pi, from, "ok", []string{"zero", "junk", "cookie"}[r.Intn(3)], []string{"good", "resend"}[r.Intn(2)]))
		case 2:
			p = append(p, msg("resp", pi, from, "ok", "zero", "good"))
		case 3:
			p = append(p, msg("init", pi, from, "zerokey", []string{"zero", "cookie"}[r.Intn(2)], "good"))
		case 4:
			p = append(p, msg("resp", pi, from, "zerokey", "zero", "good"))
		case 5:
			p = append(p, Plan{Op: "load", On: r.Intn(2) == 0})
		case 6:
			p = append(p, msg("transport", pi, from, "", "", []string{"good", "badtag"}[r.Intn(2)]))
		}
	}
	// the identity comes back: MAC1 for it counts again, a handshake works again
	p = append(p, Plan{Op: "setkey", D: 1}, msg("init", pi, r.Intn(len(addrTable)), "zerokey", "zero", "good"))
	p = append(p, Plan{Op: "load", On: false}, Plan{Op: "shifths", Peer: pi, D: 1}, msg("init", pi, pi, "ok", "zero", "good"))
	return p
}

var forgedTransport = []string{"badtagfar", "badtagfar", "wrongkeyfar", "badtag", "badtagnear", "badtagbehind", "replay", "badidx"}

// forged transport messages on a LIVE receiver index (counters far ahead of, just ahead of, inside and behind
// the window; tag or key wrong), alone and in one receive batch with a genuine one, each followed by genuine
// traffic of the same session: the forged ones must be erasable from the history
func genForgedTransport(r *mrand.Rand) []Plan {
	pi := r.Intn(3)
	p := []Plan{msg("init", pi, pi, "ok", "zero", "good"), msg("transport", pi, pi, "", "", "good")}
	if r.Intn(3) == 0 {
		p = append(p, Plan{Op: "load", On: true})
	}
	n := 3 + r.Intn(5)
	for i := 0; i < n; i++ {
		from := r.Intn(len(addrTable))
		if r.Intn(2) == 0 {
			p = append(p, msg("transport", pi, from, "", "", forgedTransport[r.Intn(len(forgedTransport))]))
		} else {
			var els []Plan
			k := 1 + r.Intn(4)
			g := r.Intn(k + 1) // position of the genuine one (k = none)
			for j := 0; j < k; j++ {
				c := forgedTransport[r.Intn(len(forgedTransport))]
				if j == g {
					c = "good"
				}
				els = append(els, Plan{Peer: pi, From: []int{pi, from}[r.Intn(2)], Content: c})
			}
			p = append(p, Plan{Op: "tbatch", Elems: els})
		}
		p = append(p, msg("transport", pi, pi, "", "", "good"))
		if r.Intn(4) == 0 {
			p = append(p, Plan{Op: "tun", Peer: pi})
		}
	}
	return p
}

// a recorded, already consumed initiation of a peer is replayed (from strangers' addresses, under load with
// valid MAC2 from the strangers' own cookies) IMMEDIATELY before the peer's genuine fresh initiation: the replay
// must leave no trace — in particular the peer's message is processed (response), not dropped
func genReplayThenFresh(r *mrand.Rand) []Plan {
	pi := r.Intn(3)
	home := r.Intn(len(addrTable))
	load := r.Intn(3) != 0
	var p []Plan
	if load {
		p = append(p, Plan{Op: "load", On: true}, msg("init", pi, home, "ok", "zero", "good"), msg("init", pi, home, "ok", "cookie", "resend"))
	} else {
		p = append(p, msg("init", pi, home, "ok", "zero", "good"))
	}
	rounds := 1 + r.Intn(3)
	for k := 0; k < rounds; k++ {
		// the last consumption is long ago; then replays, then at once the genuine message
		p = append(p, Plan{Op: "shifths", Peer: pi, D: 1})
		nrep := 1 + r.Intn(3)
		for i := 0; i < nrep; i++ {
			x := (home + 1 + r.Intn(len(addrTable)-1)) % len(addrTable)
			if load {
				p = append(p, msg("init", pi, x, "ok", "zero", "replay"), msg("init", pi, x, "ok", "cookie", "replay"))
			} else {
				p = append(p, msg("init", pi, x, "ok", []string{"zero", "junk"}[r.Intn(2)], "replay"))
			}
		}
		if load {
			p = append(p, msg("init", pi, home, "ok", "cookie", "good"))
		} else {
			p = append(p, msg("init", pi, home, "ok", "zero", "good"))
		}
	}
	p = append(p, msg("transport", pi, home, "", "", "good"))
	return p
}

func genNoLoadAuthFail(r *mrand.Rand) []Plan {
	var p []Plan
	pi := r.Intn(3)
	if r.Intn(2) == 0 {
		p = append(p, msg("init", pi, pi, "ok", "zero", "good"), Plan{Op: "shifths", Peer: pi, D: 1})
	}
	n := 3 + r.Intn(5)
	for i := 0; i < n; i++ {
		from := r.Intn(len(addrTable))
		switch r.Intn(6) {
		case 0:
			p = append(p, msg("init", pi, from, "ok", []string{"zero", "junk"}[r.Intn(2)], "corrupt"))
		case 1:
			p = append(p, msg("init", 9, from, "ok", "zero", "good")) // a stranger with a well-formed initiation
		case 2:
			p = append(p, msg("init", pi, from, "ok", "zero", "replay"))
		case 3:
			p = append(p, msg("resp", pi, from, "ok", "zero", "good")) // no initiation outstanding (unless tun below)
		case 4:
			p = append(p, Plan{Op: "tun", Peer: pi}, msg("resp", pi, from, "ok", "zero", []string{"corrupt", "wrongidx"}[r.Intn(2)]))
		case 5:
			p = append(p, msg("transport", pi, from, "", "", []string{"badtag", "replay", "badidx", "good"}[r.Intn(4)]))
		}
	}
	p = append(p, Plan{Op: "shifths", Peer: pi, D: 1}, msg("init", pi, r.Intn(len(addrTable)), "ok", "zero", "good"))
	return p
}

func genRoundTrip(r *mrand.Rand) []Plan {
	pi := r.Intn(3)
	from := r.Intn(len(addrTable))
	p := []Plan{{Op: "load", On: true}}
	p = append(p, msg("init", pi, from, "ok", []string{"zero", "junk"}[r.Intn(2)], "good"))
	variant := r.Intn(12)
	switch variant {
	case 0, 1, 2: // plain round trip
		p = append(p, msg("init", pi, from, "ok", "cookie", []string{"resend", "good"}[r.Intn(2)]))
	case 3: // cookie used from another address
		other := (from + 1 + r.Intn(len(addrTable)-1)) % len(addrTable)
		q := msg("init", pi, other, "ok", "cookiefrom", "resend")
		q.CookieAddr = from
		p = append(p, q, msg("init", pi, other, "ok", "cookie", "resend"))
	case 4: // same address, other port
		q := msg("init", 0, 3, "ok", "cookiefrom", "resend")
		q.CookieAddr = 0
		p = []Plan{{Op: "load", On: true}, msg("init", 0, 0, "ok", "zero", "good"), q, msg("init", 0, 0, "ok", "cookie", "resend")}
	case 5: // expired secret
		p = append(p, Plan{Op: "shiftsecret", D: 121 + r.Intn(100)}, msg("init", pi, from, "ok", "cookie", "resend"),
			msg("init", pi, from, "ok", "cookie", "resend"))
	case 6: // aged but still valid
		p = append(p, Plan{Op: "shiftsecret", D: 60 + r.Intn(50)}, msg("init", pi, from, "ok", "cookie", "resend"))
	case 7: // valid cookie, payload fails afterwards
		p = append(p, msg("init", pi, from, "ok", "cookie", []string{"corrupt", "replay"}[r.Intn(2)]),
			Plan{Op: "shifths", Peer: pi, D: 1}, msg("init", pi, from, "ok", "cookie", "good"))
	case 8: // valid cookie but MAC1 wrong
		p = append(p, msg("init", pi, from, []string{"junk", "otherkey", "stale"}[r.Intn(3)], "cookie", "resend"),
			msg("init", pi, from, "ok", "cookie", "resend"))
	case 9: // stranger obtains a cookie and is still not answered
		p = []Plan{{Op: "load", On: true}, msg("init", 9, from, "ok", "zero", "good"), msg("init", 9, from, "ok", "cookie", "resend")}
	case 10: // load switched off in between: cookie not needed, garbage MAC2 ignored
		p = append(p, Plan{Op: "load", On: false}, msg("init", pi, from, "ok", "junk", "resend"))
	case 11: // two epochs: a cookie of the previous secret after a refresh
		p = append(p, Plan{Op: "shiftsecret", D: 130}, msg("init", pi, from, "ok", "zero", "resend"),
			msg("init", pi, from, "ok", "cookie", "resend"))
	}
	// afterwards the session works / or the device still answers
	if r.Intn(2) == 0 {
		p = append(p, msg("transport", pi, from, "", "", "good"))
	}
	if r.Intn(3) == 0 {
		p = append(p, Plan{Op: "shifths", Peer: pi, D: 1}, msg("init", pi, from, "ok", "cookie", "good"))
	}
	return p
}

func genLoadResponse(r *mrand.Rand) []Plan {
	pi := r.Intn(3)
	from := pi
	if r.Intn(3) == 0 {
		from = r.Intn(len(addrTable))
	}
	p := []Plan{{Op: "tun", Peer: pi}}
	if r.Intn(4) != 0 {
		p = append(p, Plan{Op: "load", On: true})
	}
	switch r.Intn(6) {
	case 0:
		p = append(p, msg("resp", pi, from, "junk", "zero", "good"))
	case 1:
		p = append(p, msg("resp", pi, from, "otherkey", "junk", "good"))
	case 2:
		p = append(p, msg("resp", pi, from, "ok", "junk", "good"))
	case 3:
		p = append(p, msg("resp", pi, from, "ok", "zero", "corrupt"))
	case 4:
		p = append(p, msg("resp", pi, from, "stale", "zero", "good"))
	case 5:
	}
	p = append(p, msg("resp", pi, from, "ok", "zero", "good"), msg("resp", pi, from, "ok", "cookie", "resend"))
	if r.Intn(2) == 0 {
		p = append(p, msg("resp", pi, from, "ok", "cookie", "resend")) // replayed response
	}
	if r.Intn(2) == 0 {
		p = append(p, Plan{Op: "tun", Peer: pi})
	}
	return p
}

func genDeviceGetsCookie(r *mrand.Rand) []Plan {
	pi := r.Intn(3)
	p := []Plan{{Op: "tun", Peer: pi}}
	if r.Intn(3) == 0 {
		// the device as responder also records the MAC1 of its response
		p = []Plan{msg("init", pi, pi, "ok", "zero", "good")}
	}
	contents := []string{"good", "good", "good", "wrongkey", "wrongad", "wrongidx", "oldad"}
	n := 1 + r.Intn(3)
	for i := 0; i < n; i++ {
		p = append(p, msg("cookie", pi, r.Intn(len(addrTable)), "", "", contents[r.Intn(len(contents))]))
	}
	switch r.Intn(4) {
	case 0:
		p = append(p, Plan{Op: "shiftpeercookie", Peer: pi, D: 121 + r.Intn(60)})
	case 1:
		p = append(p, Plan{Op: "shiftpeercookie", Peer: pi, D: 30 + r.Intn(80)})
	}
	p = append(p, Plan{Op: "shifths", Peer: pi, D: 6}, Plan{Op: "tun", Peer: pi})
	if r.Intn(2) == 0 {
		p = append(p, msg("cookie", pi, pi, "", "", contents[r.Intn(len(contents))]), Plan{Op: "shifths", Peer: pi, D: 6}, Plan{Op: "tun", Peer: pi})
	}
	if r.Intn(2) == 0 {
		p = append(p, msg("resp", pi, pi, "ok", "zero", "good"), Plan{Op: "tun", Peer: pi})
	}
	if r.Intn(3) == 0 {
		p = append(p, Plan{Op: "shifths", Peer: pi, D: 1}, msg("init", pi, pi, "ok", "zero", "good"))
	}
	return p
}

func genRateLimit(r *mrand.Rand) []Plan {
	pi := r.Intn(3)
	from := r.Intn(len(addrTable))
	p := []Plan{{Op: "load", On: true}, msg("init", pi, from, "ok", "zero", "good")}
	n := 5 + r.Intn(6)
	for i := 0; i < n; i++ {
		p = append(p, Plan{Op: "shifths", Peer: pi, D: 1}, msg("init", pi, from, "ok", "cookie", "good"))
	}
	return p
}

func genMix(r *mrand.Rand) []Plan {
	var p []Plan
	n := 8 + r.Intn(14)
	for i := 0; i < n; i++ {
		pi := r.Intn(3)
		from := r.Intn(len(addrTable))
		mac1 := []string{"ok", "ok", "ok", "ok", "junk", "otherkey", "stale"}[r.Intn(7)]
		mac2 := []string{"zero", "junk", "cookie", "cookie", "cookiefrom"}[r.Intn(5)]
		switch r.Intn(12) {
		case 0:
			p = append(p, Plan{Op: "load", On: r.Intn(3) != 0})
		case 1:
			p = append(p, Plan{Op: "shiftsecret", D: []int{10, 60, 119, 121, 300}[r.Intn(5)]})
		case 2:
			p = append(p, Plan{Op: "tun", Peer: pi})
		case 3:
			p = append(p, Plan{Op: "shifths", Peer: pi, D: []int{1, 6}[r.Intn(2)]})
		case 4, 5, 6:
			q := msg("init", []int{pi, pi, pi, 9}[r.Intn(4)], from, mac1, mac2, []string{"good", "good", "resend", "replay", "corrupt"}[r.Intn(5)])
			q.CookieAddr = r.Intn(len(addrTable))
			p = append(p, Plan{Op: "shifths", Peer: pi, D: 1}, q)
		case 7, 8:
			q := msg("resp", pi, from, mac1, mac2, []string{"good", "good", "resend", "corrupt", "wrongidx"}[r.Intn(5)])
			q.CookieAddr = r.Intn(len(addrTable))
			p = append(p, q)
		case 9:
			p = append(p, msg("cookie", pi, from, "", "", []string{"good", "good", "wrongkey", "wrongad", "wrongidx", "oldad"}[r.Intn(6)]))
		case 10:
			p = append(p, msg("transport", pi, from, "", "", []string{"good", "good", "badtag", "replay", "badidx"}[r.Intn(5)]))
		case 11:
			p = append(p, Plan{Op: "msg", Typ: "raw", From: from, Size: edgeSizes[r.Intn(len(edgeSizes))], TypeWord: rawTypes[r.Intn(len(rawTypes))]})
		}
	}
	return p
}

// a hook-forced load episode of 300 ms, then 600 ms of nothing: the device must be an ordinary device again
func forcedLoadExpires() Case {
	p := []Plan{{Op: "loadfor", D: 300}, msg("init", 0, 0, "ok", "zero", "good"), {Op: "sleep", D: 600},
		msg("init", 1, 4, "ok", "zero", "corrupt"), msg("init", 9, 4, "ok", "zero", "good"),
		{Op: "shifths", Peer: 0, D: 1}, msg("init", 0, 0, "ok", "junk", "resend"), msg("transport", 0, 0, "", "", "good")}
	return runCase("fixed-forced-load-expires", p)
}

// the device holds a cookie and stamps MAC2; the reply to its LATEST message must still be taken (and used), a
// reply bound to an earlier message must not
func secondCookie() []Case {
	var cs []Case
	for pi := 0; pi < 2; pi++ {
		p := []Plan{{Op: "tun", Peer: pi}, msg("cookie", pi, pi, "", "", "good"), {Op: "shifths", Peer: pi, D: 6}, {Op: "tun", Peer: pi},
			msg("cookie", pi, 4, "", "", "good"), {Op: "shifths", Peer: pi, D: 6}, {Op: "tun", Peer: pi},
			msg("cookie", pi, 5, "", "", "oldad"), {Op: "shifths", Peer: pi, D: 6}, {Op: "tun", Peer: pi},
			msg("cookie", pi, pi, "", "", "wrongad"), msg("cookie", pi, pi, "", "", "good"), {Op: "shifths", Peer: pi, D: 6}, {Op: "tun", Peer: pi}}
		cs = append(cs, runCase(fmt.Sprintf("fixed-second-cookie-%d", pi), p))
	}
	return cs
}

func fixedCases() []Case {
	// every type x {valid, invalid MAC1} x {no load, load}, and all sizes around the four fixed sizes
	var cs []Case
	for _, load := range []bool{false, true} {
		var p []Plan
		if load {
			p = append(p, Plan{Op: "load", On: true})
		}
		p = append(p, Plan{Op: "tun", Peer: 1})
		for _, tw := range []uint32{1, 2, 3, 4, 0, 5, 0x101} {
			for _, sz := range []int{31, 32, 33, 63, 64, 65, 91, 92, 93, 147, 148, 149} {
				p = append(p, Plan{Op: "msg", Typ: "raw", From: int(tw) % len(addrTable), Size: sz, TypeWord: tw})
			}
		}
		cs = append(cs, runCase(fmt.Sprintf("fixed-sizes-load=%v", load), p))
		// well-formed messages of every type with non-zero reserved bytes
		q := []Plan{msg("init", 0, 0, "ok", "zero", "good"), msg("transport", 0, 0, "", "", "good"), {Op: "tun", Peer: 1}}
		if load {
			q = append(q, Plan{Op: "load", On: true})
		}
		for _, hi := range []uint32{0x100, 0x10000, 0x01000000} {
			a := msg("init", 0, 0, "ok", "zero", "good")
			a.TypeWord = 1 | hi
			b := msg("resp", 1, 1, "ok", "zero", "good")
			b.TypeWord = 2 | hi
			c := msg("cookie", 1, 1, "", "", "good")
			c.TypeWord = 3 | hi
			d := msg("transport", 0, 4, "", "", "good")
			d.TypeWord = 4 | hi
			q = append(q, Plan{Op: "shifths", Peer: 0, D: 1}, a, b, c, d)
		}
		q = append(q, Plan{Op: "load", On: false}, msg("resp", 1, 1, "ok", "zero", "good"), msg("transport", 0, 0, "", "", "good"))
		cs = append(cs, runCase(fmt.Sprintf("fixed-reserved-bytes-load=%v", load), q))
	}
	return cs
}

// ---------------------------------------------------------------- natural load

func clip(bad []string) string {
	n := len(bad)
	if n > 4 {
		bad = bad[:4]
	}
	return fmt.Sprintf("%d problems: %s", n, strings.Join(bad, "; "))
}

func natural() *Natural {
	nat := &Natural{Status: "skipped"}
	workers := runtime.NumCPU()
	npeers := workers + 4
	var peers []*cosim.RefPeer
	for i := 0; i < npeers; i++ {
		peers = append(peers, cosim.NewPeer(fmt.Sprintf("N%d", i), fmt.Sprintf("192.0.2.%d:%d", 10+i, 2000+i), fmt.Sprintf("10.1.%d.0/24", i)))
	}
	w, err := cosim.NewWorld(cosim.Config{Up: true, BindBatch: 128}, true, peers...)
	if err != nil {
		nat.Detail = "world: " + err.Error()
		return nat
	}
	defer w.Close()
	w.Timeout = 5 * time.Second
	var mu sync.Mutex
	gate := make(chan struct{})
	blocked := 0
	w.Bind.SendGate = func(bufs [][]byte, to netip.AddrPort) {
		mu.Lock()
		blocked++
		mu.Unlock()
		<-gate
	}
	ts := uint64(time.Now().UnixNano())
	mk := func(p *cosim.RefPeer) *ref.InitiatorState {
		ts++
		p.NextIdx++
		return ref.CreateInitiation(p.Priv, ref.NewPrivate(), w.DevPub, p.Psk, p.NextIdx, ref.Tai64nRaw(0x400000000000000a+ts/1e9, uint32(ts%1e9)))
	}
	// one valid initiation per handshake worker: each worker ends up blocked in Send
	var first []sim.Dgram
	for i := 0; i < workers; i++ {
		first = append(first, sim.Dgram{From: peers[i].Addr, Data: mk(peers[i]).Msg})
	}
	w.Bind.Inject(first...)
	deadline := time.Now().Add(3 * time.Second)
	for {
		mu.Lock()
		b := blocked
		mu.Unlock()
		if b >= workers || time.Now().After(deadline) {
			break
		}
		time.Sleep(time.Millisecond)
	}
	mu.Lock()
	b := blocked
	mu.Unlock()
	if b < workers {
		close(gate)
		nat.Detail = fmt.Sprintf("only %d of %d handshake workers could be stalled", b, workers)
		return nat
	}
	// now queue many more initiations than an eighth of the queue
	type q struct {
		st   *ref.InitiatorState
		from netip.AddrPort
		p    *cosim.RefPeer
	}
	var queued []q
	var ds []sim.Dgram
	const nQueued = 900 // many concurrent cookie replies at full speed: races between handshake workers get their chance
	for i := 0; i < nQueued; i++ {
		p := peers[workers+i%4]
		st := mk(p)
		from := netip.AddrPortFrom(p.Addr.Addr(), uint16(3000+i))
		queued = append(queued, q{st, from, p})
		ds = append(ds, sim.Dgram{From: from, Data: st.Msg})
	}
	for i := 0; i < len(ds); i += 100 {
		w.Bind.Inject(ds[i : i+100]...)
	}
	deadline = time.Now().Add(3 * time.Second)
	for {
		_, _, h := w.Dev.VerifQueueLens()
		if h >= nQueued-10 || time.Now().After(deadline) {
			break
		}
		time.Sleep(time.Millisecond)
	}
	_, _, h := w.Dev.VerifQueueLens()
	nat.Queued = h
	w.Bind.SendGate = nil
	close(gate)
	if !w.Settle() {
		nat.Detail = "did not settle"
		return nat
	}
	sent := w.Bind.TakeSent()
	bySource := map[netip.AddrPort]q{}
	for _, x := range queued {
		bySource[x.from] = x
	}
	responses, replies := 0, 0
	var bad []string
	var cookieOf = map[netip.AddrPort][]byte{}
	for _, s := range sent {
		d := s.Data
		switch {
		case len(d) == ref.ResponseSize && d[0] == ref.TypeResponse:
			responses++
			recv := binary.LittleEndian.Uint32(d[8:12])
			if _, isQueued := bySource[s.To]; isQueued && h >= 128 {
				bad = append(bad, fmt.Sprintf("response to queued initiation %d without MAC2 while the queue held %d", recv, h))
			}
		case len(d) == ref.CookieSize && d[0] == ref.TypeCookie:
			replies++
			recv := binary.LittleEndian.Uint32(d[4:8])
			x, ok := bySource[s.To]
			if !ok {
				bad = append(bad, fmt.Sprintf("cookie reply (index %d) sent to %s, from where no message came", recv, s.To))
				continue
			}
			if recv != x.st.SenderIdx {
				bad = append(bad, fmt.Sprintf("cookie reply to %s carries index %d, the message had %d", s.To, recv, x.st.SenderIdx))
			}
			_, c, err := ref.OpenCookieReply(d, w.DevPub, x.st.Mac1)
			if err != nil {
				bad = append(bad, fmt.Sprintf("cookie reply for %d does not open", recv))
				continue
			}
			sec := w.Dev.VerifCookieChecker()
			m := ref.Mac(sec.Secret[:], addrBytes(x.from))
			if !bytes.Equal(m[:], c) {
				bad = append(bad, fmt.Sprintf("cookie for %d is not Mac(secret, source)", recv))
			}
			cookieOf[x.from] = c
		default:
			if len(d) >= 1 && d[0] != ref.TypeTransport {
				bad = append(bad, fmt.Sprintf("unexpected datagram type %d len %d", d[0], len(d)))
			}
		}
	}
	nat.Replies = replies
	if replies == 0 {
		nat.Detail = fmt.Sprintf("no cookie reply seen (queue reached %d, %d responses)", h, responses)
		if len(bad) > 0 {
			nat.Status, nat.Detail = "violation", clip(bad)
		}
		return nat
	}
	// round trip while the device still considers itself under load (1 s): last queued sender re-sends with its cookie
	okRT := ""
	if w.Dev.VerifIsUnderLoad() {
		for i := len(queued) - 1; i >= 0; i-- {
			x := queued[i]
			c, ok := cookieOf[x.from]
			if !ok {
				continue
			}
			st := mk(x.p)
			out := w.Inject(x.from, ref.WithCookie(st.Msg, w.DevPub, c))
			got := false
			for _, s := range out.Sent {
				if len(s.Data) == ref.ResponseSize && s.Data[0] == ref.TypeResponse {
					got = true
					if s.To != x.from {
						bad = append(bad, "response after cookie round trip went to "+s.To.String())
					}
				}
			}
			if !got {
				bad = append(bad, "initiation with the issued cookie from the same address was not answered under natural load")
			}
			okRT = " round-trip=ok"
			break
		}
	}
	if len(bad) > 0 {
		nat.Status, nat.Detail = "violation", clip(bad)
		return nat
	}
	nat.Status = "ok"
	nat.Detail = fmt.Sprintf("queue %d, %d cookie replies, %d responses%s", h, replies, responses, okRT)

	var tQuiet time.Time // no detection of load can have happened after this instant
	func() {
		// The under-load period lasts UnderLoadAfterTime (1 s) after the LAST time the queue was seen at least an
		// eighth full.  First detection was before tS1.  A second burst 0.6 s later is seen over the threshold
		// again (workers slowed to 3 ms per send), so the period must run until at least tBurst + 1 s: a valid
		// initiation WITHOUT MAC2 at tS1 + 1.25 s (0.65 s after the burst) must draw a cookie reply, not a response.
		tS1 := time.Now()
		w.Bind.SendGate = func(bufs [][]byte, to netip.AddrPort) { time.Sleep(3 * time.Millisecond) }
		var ds2 []sim.Dgram
		burst2 := map[netip.AddrPort]*ref.InitiatorState{}
		for i := 0; i < 500; i++ {
			p := peers[workers+i%4]
			st2 := mk(p)
			from2 := netip.AddrPortFrom(p.Addr.Addr(), uint16(5000+i))
			burst2[from2] = st2
			ds2 = append(ds2, sim.Dgram{From: from2, Data: st2.Msg})
		}
		// the burst must be over well before first detection + 1 s (else a deadline anchored to the FIRST detection
		// would simply expire during the burst and be renewed), and the probe must come after that instant
		time.Sleep(time.Until(tS1.Add(600 * time.Millisecond)))
		tBurst := time.Now()
		for i := 0; i < len(ds2); i += 125 {
			w.Bind.Inject(ds2[i : i+125]...)
		}
		peak := 0
		for time.Since(tBurst) < 60*time.Millisecond {
			if _, _, hq := w.Dev.VerifQueueLens(); hq > peak {
				peak = hq
			}
			time.Sleep(100 * time.Microsecond)
		}
		if !w.Settle() {
			nat.Window = "skipped: second burst did not settle"
			return
		}
		w.Bind.SendGate = nil
		tQuiet = time.Now()
		// every reply of the burst (the workers produce them concurrently) must be the reply to ITS offender:
		// sent to the offender's source, carrying its index, opening with its MAC1, cookie bound to its source
		sec2 := w.Dev.VerifCookieChecker()
		var bad2 []string
		n2 := 0
		for _, sd := range w.Bind.TakeSent() {
			d := sd.Data
			if len(d) != ref.CookieSize || d[0] != ref.TypeCookie {
				bad2 = append(bad2, fmt.Sprintf("second burst: datagram of type %d len %d to %s (want only cookie replies)", d[0], len(d), sd.To))
				continue
			}
			n2++
			x, ok := burst2[sd.To]
			if !ok {
				bad2 = append(bad2, "second burst: cookie reply to "+sd.To.String()+", from where no message came")
				continue
			}
			if recv := binary.LittleEndian.Uint32(d[4:8]); recv != x.SenderIdx {
				bad2 = append(bad2, fmt.Sprintf("second burst: cookie reply to %s carries index %d, the message had %d", sd.To, recv, x.SenderIdx))
			}
			_, c, err := ref.OpenCookieReply(d, w.DevPub, x.Mac1)
			if err != nil {
				bad2 = append(bad2, "second burst: cookie reply to "+sd.To.String()+" does not open with the MAC1 of the message from there")
				continue
			}
			if mm := ref.Mac(sec2.Secret[:], addrBytes(sd.To)); !bytes.Equal(mm[:], c) {
				bad2 = append(bad2, "second burst: cookie sent to "+sd.To.String()+" is not Mac(secret, that source)")
			}
		}
		if n2 != len(burst2) {
			bad2 = append(bad2, fmt.Sprintf("second burst: %d cookie replies for %d offending messages", n2, len(burst2)))
		}
		if len(bad2) > 0 {
			nat.Status, nat.Detail = "violation", clip(bad2)
			nat.Window = nat.Detail
			return
		}
		if peak < 160 {
			nat.Window = fmt.Sprintf("skipped: second burst reached only %d queued", peak)
			return
		}
		time.Sleep(time.Until(tS1.Add(1250 * time.Millisecond)))
		pp := peers[0]
		probeFrom := netip.AddrPortFrom(pp.Addr.Addr(), 6001)
		probe := mk(pp)
		tProbe := time.Now()
		out := w.Inject(probeFrom, probe.Msg)
		tAfter := time.Now()
		if tAfter.Sub(tBurst) > 950*time.Millisecond {
			nat.Window = fmt.Sprintf("skipped: probe finished %v after the burst", tAfter.Sub(tBurst))
			return
		}
		gotCookie, gotResp := false, false
		for _, sd := range out.Sent {
			if len(sd.Data) == ref.CookieSize && sd.Data[0] == ref.TypeCookie {
				gotCookie = true
			}
			if len(sd.Data) == ref.ResponseSize && sd.Data[0] == ref.TypeResponse {
				gotResp = true
			}
		}
		if gotResp || !gotCookie {
			nat.Status = "violation"
			nat.Window = fmt.Sprintf("%v after the handshake queue was last seen over the threshold (peak %d) and %v after the load was first seen, an initiation WITHOUT MAC2 was answered with response=%v cookie=%v: the device must stay under load for %v after the LAST detection",
				tProbe.Sub(tBurst).Round(time.Millisecond), peak, tProbe.Sub(tS1).Round(time.Millisecond), gotResp, gotCookie, time.Second)
			nat.Detail = nat.Window
			return
		}
		nat.Window = fmt.Sprintf("ok: cookie reply %v after the last burst (peak %d), %v after first detection", tProbe.Sub(tBurst).Round(time.Millisecond), peak, tProbe.Sub(tS1).Round(time.Millisecond))
	}()
	if nat.Status == "violation" {
		return nat
	}
	// Once the load is over for more than UnderLoadAfterTime the device is an ordinary device again: a valid
	// initiation WITHOUT MAC2 is answered with a response (no cookie reply), one whose payload fails is met with silence.
	if tQuiet.IsZero() {
		tQuiet = time.Now()
	}
	time.Sleep(time.Until(tQuiet.Add(1300 * time.Millisecond)))
	bp := peers[1]
	badInit := mk(bp)
	badMsg := append([]byte{}, badInit.Msg...)
	badMsg[40+11] ^= 2
	badMsg = ref.AppendMacs(badMsg[:116], w.DevPub, nil)
	o1 := w.Inject(netip.AddrPortFrom(bp.Addr.Addr(), 6101), badMsg)
	gp := peers[2]
	goodFrom := netip.AddrPortFrom(gp.Addr.Addr(), 6102)
	o2 := w.Inject(goodFrom, mk(gp).Msg)
	kinds := func(o cosim.Out) (resp, cookie, other int) {
		for _, sd := range o.Sent {
			switch {
			case len(sd.Data) == ref.ResponseSize && sd.Data[0] == ref.TypeResponse:
				resp++
			case len(sd.Data) == ref.CookieSize && sd.Data[0] == ref.TypeCookie:
				cookie++
			default:
				other++
			}
		}
		return
	}
	r1, c1, x1 := kinds(o1)
	r2, c2, _ := kinds(o2)
	since := time.Since(tQuiet).Round(time.Millisecond)
	if r1+c1+x1 != 0 {
		nat.Status = "violation"
		nat.After = fmt.Sprintf("%v after the load episode ended, an initiation with valid MAC1 but corrupt payload drew %d responses, %d cookie replies, %d other datagrams (want silence: the device is not under load)", since, r1, c1, x1)
		nat.Detail = nat.After
		return nat
	}
	if r2 != 1 || c2 != 0 {
		nat.Status = "violation"
		nat.After = fmt.Sprintf("%v after the load episode ended, a valid initiation without MAC2 drew %d responses and %d cookie replies (want one response: the device is not under load)", since, r2, c2)
		nat.Detail = nat.After
		return nat
	}
	nat.After = fmt.Sprintf("ok: %v after the episode a valid initiation without MAC2 is answered, a corrupt one is met with silence", since)
	return nat
}

// naturalAsync runs the natural-load scenario in a child process (its stalled workers would keep the quiescence
// detector of the step-wise scenarios from ever seeing an idle process) and returns a function to collect it.
func naturalAsync() func() *Natural {
	cmd := exec.Command(os.Args[0], "-naturalonly")
	var buf strings.Builder
	cmd.Stdout = &buf
	if err := cmd.Start(); err != nil {
		return func() *Natural { return natural() }
	}
	return func() *Natural {
		err := cmd.Wait()
		var n Natural
		if err != nil || json.Unmarshal([]byte(buf.String()), &n) != nil {
			return &Natural{Status: "skipped", Detail: fmt.Sprintf("child process: %v %.200s", err, buf.String())}
		}
		return &n
	}
}

// ---------------------------------------------------------------- loopback pass over the real StdNetBind

// The cookie is bound to what the BIND's endpoint gives as DstToBytes; sim.Bind has its own.  This pass puts the
// device on conn.NewStdNetBind() over 127.0.0.1 and ::1 with plain UDP sockets as remote parties, forces load,
// lets ref obtain a cookie on socket A (which must be Mac(secret, ip and port of A)), and sends a fresh initiation
// with MAC2 under that cookie from socket B (same address, other port): it must draw another cookie reply, not
// a response.  Control: the same from socket A is answered.  Skipped (never a violation) without loopback UDP.
func loopback() *Loopback {
	lb := &Loopback{Status: "skipped"}
	done := 0
	for _, host := range []string{"127.0.0.1", "::1"} {
		st, detail, checks := loopbackFamily(host)
		lb.Checks += checks
		switch st {
		case "violation":
			lb.Status, lb.Detail = "violation", host+": "+detail
			return lb
		case "ok":
			done++
			lb.Log = append(lb.Log, host+": ok")
		default:
			lb.Log = append(lb.Log, host+": skipped: "+detail)
		}
	}
	if done > 0 {
		lb.Status = "ok"
		lb.Detail = fmt.Sprintf("%d address families, %d checks", done, lb.Checks)
	} else {
		lb.Detail = "no loopback UDP sockets"
	}
	return lb
}

func udpSock(host string) (*net.UDPConn, netip.AddrPort, error) {
	c, err := net.ListenUDP("udp", &net.UDPAddr{IP: net.ParseIP(host), Port: 0})
	if err != nil {
		return nil, netip.AddrPort{}, err
	}
	ap := c.LocalAddr().(*net.UDPAddr).AddrPort()
	return c, netip.AddrPortFrom(ap.Addr().Unmap(), ap.Port()), nil
}

func readOne(c *net.UDPConn, d time.Duration) []byte {
	buf := make([]byte, 2048)
	c.SetReadDeadline(time.Now().Add(d))
	n, _, err := c.ReadFromUDP(buf)
	if err != nil {
		return nil
	}
	return buf[:n]
}

func loopbackFamily(host string) (status, detail string, checks int) {
	sockA, addrA, err := udpSock(host)
	if err != nil {
		return "skipped", err.Error(), 0
	}
	defer sockA.Close()
	sockB, addrB, err := udpSock(host)
	if err != nil {
		return "skipped", err.Error(), 0
	}
	defer sockB.Close()
	dev := device.NewDevice(sim.NewTun(1, 1420), conn.NewStdNetBind(), device.NewLogger(device.LogLevelSilent, ""))
	defer dev.Close()
	devPriv := ref.NewPrivate()
	devPub := ref.PubOf(devPriv)
	p := cosim.NewPeer("L", "", "10.0.0.2/32")
	cfg := fmt.Sprintf("private_key=%s\nlisten_port=0\npublic_key=%s\nallowed_ip=10.0.0.2/32\n", hex.EncodeToString(devPriv[:]), hex.EncodeToString(p.Pub[:]))
	if err := dev.IpcSet(cfg); err != nil {
		return "skipped", "IpcSet: " + err.Error(), 0
	}
	if err := dev.Up(); err != nil {
		return "skipped", "Up: " + err.Error(), 0
	}
	port := 0
	get, _ := dev.IpcGet()
	for _, l := range strings.Split(get, "\n") {
		if strings.HasPrefix(l, "listen_port=") {
			fmt.Sscanf(l, "listen_port=%d", &port)
		}
	}
	if port == 0 {
		return "skipped", "no listen port", 0
	}
	devUDP := &net.UDPAddr{IP: net.ParseIP(host), Port: port}
	ts := uint64(time.Now().UnixNano())
	mk := func() *ref.InitiatorState {
		ts += 1e9
		p.NextIdx++
		return ref.CreateInitiation(p.Priv, ref.NewPrivate(), devPub, p.Psk, p.NextIdx, ref.Tai64nRaw(0x400000000000000a+ts/1e9, uint32(ts%1e9)))
	}
	// not under load: plain handshake works over this path at all (else skip)
	st0 := mk()
	sockA.WriteToUDP(st0.Msg, devUDP)
	if r := readOne(sockA, 700*time.Millisecond); r == nil || len(r) != ref.ResponseSize {
		return "skipped", "no handshake over loopback", 0
	}
	dev.VerifForceUnderLoad(600 * time.Second)
	// 1. no MAC2 from A: cookie reply, bound to A's address AND port
	st1 := mk()
	sockA.WriteToUDP(st1.Msg, devUDP)
	r1 := readOne(sockA, 700*time.Millisecond)
	checks++
	if r1 == nil || len(r1) != ref.CookieSize || r1[0] != ref.TypeCookie {
		return "violation", fmt.Sprintf("under load an initiation without MAC2 from %s drew %d bytes, want a cookie reply", addrA, len(r1)), checks
	}
	_, cookie, err := ref.OpenCookieReply(r1, devPub, st1.Mac1)
	if err != nil {
		return "violation", "cookie reply does not open with the device key and the MAC1 of the initiation", checks
	}
	sec := dev.VerifCookieChecker()
	bound := false
	for _, ap := range []netip.AddrPort{addrA, netip.AddrPortFrom(netip.AddrFrom16(addrA.Addr().As16()), addrA.Port())} {
		m := ref.Mac(sec.Secret[:], addrBytes(ap))
		if bytes.Equal(m[:], cookie) {
			bound = true
		}
	}
	checks++
	if !bound {
		return "violation", fmt.Sprintf("the cookie issued to %s is not Mac(secret, address and port of the source)", addrA), checks
	}
	// 2. MAC2 under A's cookie, sent from B (same address, other port): another cookie reply, no response
	st2 := mk()
	sockB.WriteToUDP(ref.WithCookie(st2.Msg, devPub, cookie), devUDP)
	r2 := readOne(sockB, 700*time.Millisecond)
	checks++
	if r2 != nil && len(r2) == ref.ResponseSize && r2[0] == ref.TypeResponse {
		return "violation", fmt.Sprintf("under load an initiation from %s carrying MAC2 under the cookie issued to %s (other port) was processed (response sent)", addrB, addrA), checks
	}
	if r2 == nil || len(r2) != ref.CookieSize || r2[0] != ref.TypeCookie {
		return "violation", fmt.Sprintf("under load an initiation from %s with a cookie of %s drew %d bytes, want a cookie reply", addrB, addrA, len(r2)), checks
	}
	if stray := readOne(sockA, 5*time.Millisecond); stray != nil {
		return "violation", "a datagram went to the cookie's owner although the message came from another port", checks
	}
	// 3. control: the same from A is processed (keep clear of the 20 ms flood gap after the first handshake)
	dev.VerifShiftHandshakeTimes(p.NoisePub(), time.Second)
	st3 := mk()
	sockA.WriteToUDP(ref.WithCookie(st3.Msg, devPub, cookie), devUDP)
	r3 := readOne(sockA, 700*time.Millisecond)
	checks++
	if r3 == nil || len(r3) != ref.ResponseSize || r3[0] != ref.TypeResponse {
		return "violation", fmt.Sprintf("under load an initiation from %s with MAC2 under the cookie issued to it drew %d bytes, want a response", addrA, len(r3)), checks
	}
	if _, err := st3.ConsumeResponse(r3); err != nil {
		return "violation", "response after the cookie round trip does not complete the handshake", checks
	}
	return "ok", "", checks
}

// ---------------------------------------------------------------- output

func writeShard(path string, cases []Case) error {
	var b strings.Builder
	b.WriteString("From Coq Require Import Uint63.\nFrom WG Require Import Base.Prelude Cookie.Model Cookie.Spec Cookie.Check.\nLocal Open Scope N_scope.\nDefinition cases : list case := [\n")
	for i, c := range cases {
		if i > 0 {
			b.WriteString(";\n")
		}
		b.WriteString(c.Gallina)
	}
	b.WriteString("].\nDefinition bad := Eval vm_compute in (check_cases cases 0).\nPrint bad.\nDefinition st := Eval vm_compute in (stats cases).\nPrint st.\n")
	return os.WriteFile(path, []byte(b.String()), 0o644)
}

func main() {
	seed := flag.Int64("seed", 1, "PRNG seed")
	n := flag.Int("n", 120, "number of generated scenarios")
	shards := flag.Int("shards", 8, "case files")
	out := flag.String("out", "out/C10", "output directory")
	replayIn := flag.String("replay", "", "JSON file with cases (plans) to run")
	corpus := flag.String("corpus", "", "directory of corpus JSON cases to run first")
	noNat := flag.Bool("nonatural", false, "skip the natural-load scenario")
	noLoop := flag.Bool("noloopback", false, "skip the pass over the real StdNetBind on loopback")
	natOnly := flag.Bool("naturalonly", false, "run only the natural-load scenario and print its verdict as JSON")
	flag.Parse()
	if *natOnly {
		data, _ := json.Marshal(natural())
		os.Stdout.Write(data)
		return
	}
	if err := os.MkdirAll(*out, 0o755); err != nil {
		panic(err)
	}
	var cases []Case
	var pendingNat func() *Natural
	pendingNatIdx := -1
	if *replayIn != "" {
		data, err := os.ReadFile(*replayIn)
		if err != nil {
			panic(err)
		}
		var in []Case
		if err := json.Unmarshal(data, &in); err != nil {
			panic(err)
		}
		for _, c := range in {
			if c.Loop != nil {
				cases = append(cases, Case{Gen: "loopback-stdnetbind", Loop: loopback(), Gallina: fmt.Sprintf("mk 1 %d [] []", baseNs)})
				continue
			}
			if c.Natural != nil {
				nc := Case{Gen: "natural-load", Natural: natural(), Gallina: fmt.Sprintf("mk 1 %d [] []", baseNs)}
				cases = append(cases, nc)
				continue
			}
			cases = append(cases, runCase(c.Gen, c.Plan))
		}
		*shards = 1
	} else {
		if *corpus != "" {
			files, _ := filepath.Glob(filepath.Join(*corpus, "*.json"))
			sort.Strings(files)
			for _, f := range files {
				data, err := os.ReadFile(f)
				if err != nil {
					continue
				}
				var cs []Case
				if json.Unmarshal(data, &cs) == nil {
					for _, c := range cs {
						if len(c.Plan) > 0 {
							cases = append(cases, runCase("corpus:"+filepath.Base(f), c.Plan))
						}
					}
				}
			}
		}
		if !*noLoop {
			cases = append(cases, Case{Gen: "loopback-stdnetbind", Loop: loopback(), Gallina: fmt.Sprintf("mk 1 %d [] []", baseNs)})
		}
		var collectNat func() *Natural
		natIdx := -1
		if !*noNat {
			collectNat = naturalAsync()
			natIdx = len(cases)
			pendingNat, pendingNatIdx = collectNat, natIdx
			cases = append(cases, Case{Gen: "natural-load", Gallina: fmt.Sprintf("mk 1 %d [] []", baseNs)})
		}
		cases = append(cases, fixedCases()...)
		cases = append(cases, forcedLoadExpires())
		cases = append(cases, secondCookie()...)
		r := mrand.New(mrand.NewSource(*seed))
		gens := []struct {
			name string
			f    func(*mrand.Rand) []Plan
			w    int
		}{{"stranger", genStranger, 3}, {"reserved-bytes", genReserved, 3}, {"identity", genIdentity, 3}, {"forged-transport", genForgedTransport, 3}, {"replay-then-fresh", genReplayThenFresh, 3}, {"noload-authfail", genNoLoadAuthFail, 2}, {"roundtrip", genRoundTrip, 5},
			{"load-response", genLoadResponse, 2}, {"device-gets-cookie", genDeviceGetsCookie, 3}, {"ratelimit", genRateLimit, 1}, {"mix", genMix, 4}}
		tot := 0
		for _, g := range gens {
			tot += g.w
		}
		for i := 0; i < *n; i++ {
			x := r.Intn(tot)
			for _, g := range gens {
				if x < g.w {
					cases = append(cases, runCase(g.name, g.f(r)))
					break
				}
				x -= g.w
			}
		}
	}
	if pendingNat != nil {
		cases[pendingNatIdx].Natural = pendingNat()
	}
	if *shards > len(cases) {
		*shards = len(cases)
	}
	if *shards < 1 {
		*shards = 1
	}
	per := (len(cases) + *shards - 1) / *shards
	type shardInfo struct {
		File  string `json:"file"`
		First int    `json:"first"`
		N     int    `json:"n"`
	}
	var infos []shardInfo
	idx := 0
	for s := 0; s < *shards && idx < len(cases); s++ {
		end := idx + per
		if end > len(cases) {
			end = len(cases)
		}
		name := fmt.Sprintf("cases_C10_%d.v", s)
		if err := writeShard(filepath.Join(*out, name), cases[idx:end]); err != nil {
			panic(err)
		}
		infos = append(infos, shardInfo{name, idx, end - idx})
		idx = end
	}
	meta := map[string]any{"seed": *seed, "cases": cases, "shards": infos}
	data, _ := json.Marshal(meta)
	if err := os.WriteFile(filepath.Join(*out, "cases.json"), data, 0o644); err != nil {
		panic(err)
	}
}
