// Dual-stack pass: ONE StdNetBind with both sockets open sends, from one
// goroutine with the GC off (so that the pooled *net.UDPAddr and message vector
// are reused), batches to alternating IPv4 and IPv6 destinations; plain UDP
// sockets on 127.0.0.1, ::1 and a second local IPv6 address (if the machine has
// one) receive.  Every datagram must arrive at ITS destination.
package main

import (
	"fmt"
	"math/rand"
	"net"
	"os"
	"runtime"
	"runtime/debug"
	"time"

	"golang.zx2c4.com/wireguard/conn"
)

type dualDest struct {
	name string // "v4", "v6a", "v6b"
	ip   string
	c    *net.UDPConn
}

// secondV6 returns a local, non-loopback, non-link-local IPv6 address that a
// UDP socket can be bound to ("" if there is none).
func secondV6() string {
	addrs, err := net.InterfaceAddrs()
	if err != nil {
		return ""
	}
	for _, a := range addrs {
		n, ok := a.(*net.IPNet)
		if !ok || n.IP.To4() != nil || n.IP.IsLoopback() || n.IP.IsLinkLocalUnicast() || !n.IP.IsGlobalUnicast() {
			continue
		}
		c, err := net.ListenUDP("udp6", &net.UDPAddr{IP: n.IP})
		if err != nil {
			continue
		}
		c.Close()
		return n.IP.String()
	}
	return ""
}

type dualEnv struct {
	a     conn.Bind
	portA uint16
	dests []*dualDest
	ch    chan rxItem
}

func openDual(pass string) (*dualEnv, string) {
	e := &dualEnv{a: conn.NewStdNetBind(), ch: make(chan rxItem, 4096)}
	_, port, err := e.a.Open(0)
	if err != nil {
		return nil, err.Error()
	}
	e.portA = port
	if pass == "dual_nooffload" {
		if _, err := conn.VerifDisableOffload(e.a); err != nil {
			e.a.Close()
			return nil, err.Error()
		}
	}
	if conn.VerifRealBatchWriter(e.a, false) == nil || conn.VerifRealBatchWriter(e.a, true) == nil {
		e.a.Close()
		return nil, "the bind is not dual-stack here (one address family missing)"
	}
	second := secondV6()
	if second == "" {
		e.a.Close()
		return nil, "no second local IPv6 address besides ::1 (the stale tail of the pooled address cannot be exposed by delivery)"
	}
	for _, d := range []*dualDest{{name: "v4", ip: "127.0.0.1"}, {name: "v6a", ip: "::1"}, {name: "v6b", ip: second}} {
		network := "udp6"
		if d.name == "v4" {
			network = "udp4"
		}
		c, err := net.ListenUDP(network, &net.UDPAddr{IP: net.ParseIP(d.ip)})
		if err != nil {
			e.close()
			return nil, "listen " + d.ip + ": " + err.Error()
		}
		_ = c.SetReadBuffer(8 << 20)
		d.c = c
		e.dests = append(e.dests, d)
		go func(d *dualDest) {
			buf := make([]byte, 1<<16)
			for {
				n, from, err := d.c.ReadFromUDPAddrPort(buf)
				if err != nil {
					return
				}
				e.ch <- rxItem{fam: d.name, data: append([]byte{}, buf[:n]...), from: fmt.Sprint(from.Port())}
			}
		}(d)
	}
	return e, ""
}

func (e *dualEnv) close() {
	e.a.Close()
	for _, d := range e.dests {
		if d.c != nil {
			d.c.Close()
		}
	}
}

// runDualScript: step.From is the destination index (0 = 127.0.0.1, 1 = ::1,
// 2 = the second IPv6 address).
func runDualScript(pass string, steps []lbStep) (fail *lbFailure, lossy bool, skipped string) {
	old := debug.SetGCPercent(-1)
	defer debug.SetGCPercent(old)
	// one P: sync.Pool keeps the object of the previous Send in the P's private
	// slot, so with a single P every Send draws the object the previous one put back
	defer runtime.GOMAXPROCS(runtime.GOMAXPROCS(1))
	e, why := openDual(pass)
	if why != "" {
		return nil, false, why
	}
	defer e.close()
	sbufs := make([][]byte, idealBatch)
	for i := range sbufs {
		sbufs[i] = make([]byte, 65535)
	}
	for si, st := range steps {
		if st.From < 0 || st.From >= len(e.dests) || len(st.Sizes) > idealBatch {
			return nil, false, "bad script"
		}
		d := e.dests[st.From]
		port := d.c.LocalAddr().(*net.UDPAddr).Port
		ep, err := e.a.ParseEndpoint(net.JoinHostPort(d.ip, fmt.Sprint(port)))
		if err != nil {
			return nil, false, err.Error()
		}
		bufs := make([][]byte, len(st.Sizes))
		want := make([][]byte, len(st.Sizes))
		for i, sz := range st.Sizes {
			b := sbufs[i][:sz]
			seed := (si*13 + 37*i) % 256
			for k := range b {
				b[k] = pat(seed, k)
			}
			if sz >= 4 {
				b[0], b[1], b[2], b[3] = byte(si>>8), byte(si), byte(i>>8), byte(i)
			}
			bufs[i] = b
			want[i] = append([]byte{}, b...)
		}
		fam := "v6"
		if st.From == 0 {
			fam = "v4"
		}
		prev := "the first Send of the bind"
		if si > 0 {
			prev = "a Send to " + e.dests[steps[si-1].From].ip
		}
		errText := ""
		if err := e.a.Send(bufs, ep); err != nil {
			errText = "Send: " + err.Error()
		}
		var got []rxItem
		gotSizes := []int{}
		elsewhere := ""
		for {
			wait := 300 * time.Millisecond
			if len(got) >= len(want) || errText != "" {
				wait = 5 * time.Millisecond
			}
			stop := false
			select {
			case it := <-e.ch:
				if it.fam != d.name {
					elsewhere = fmt.Sprintf("; a %d-byte datagram arrived at %s instead", len(it.data), it.fam)
				}
				got = append(got, it)
				gotSizes = append(gotSizes, len(it.data))
			case <-time.After(wait):
				stop = true
			}
			if stop {
				break
			}
		}
		for i := range got {
			if got[i].fam != d.name {
				got[i].from = "wrong receiver"
			}
		}
		diff, lossOnly := compareRx(want, got, fmt.Sprint(e.portA))
		if diff < 0 && errText == "" {
			continue
		}
		if diff < 0 {
			diff = len(want)
		}
		f := &lbFailure{Family: fam, Pass: pass, Sizes: st.Sizes, Caps: []int{}, GotSizes: gotSizes, FirstDiff: diff,
			Error: fmt.Sprintf("step %d: %d datagram(s) to %s after %s: %d arrived at their destination%s %s", si, len(want), d.ip, prev,
				len(got), elsewhere, errText),
			Script: append([]lbStep{}, steps[:si+1]...)}
		return f, lossOnly && errText == "" && elsewhere == "", ""
	}
	return nil, false, ""
}

func dualScript(seed int64, count int) []lbStep {
	r := rand.New(rand.NewSource(seed*32452843 + 17))
	steps := []lbStep{{2, []int{100}}, {0, []int{100}}, {1, []int{100}}, {0, []int{64, 64}}, {2, []int{200, 200, 200}},
		{1, []int{1452, 1452, 92}}, {2, []int{32}}, {0, []int{1000}}, {0, []int{500, 500}}, {1, []int{9}}}
	for len(steps) < count {
		n := 1 + r.Intn(6)
		sz := make([]int, n)
		s := pick(r, []int{32, 92, 148, 1000, 1452})
		for i := range sz {
			sz[i] = s
			if r.Intn(4) == 0 {
				sz[i] = 4 + r.Intn(1400)
			}
		}
		steps = append(steps, lbStep{r.Intn(3), sz})
	}
	return steps
}

func dualRun(pass string, steps []lbStep) *lbFam {
	fr := &lbFam{Failures: []lbFailure{}}
	var first *lbFailure
	for try := 0; try < 2; try++ {
		fail, lossy, skipped := runDualScript(pass, steps)
		if skipped != "" {
			return skippedFam(skipped)
		}
		fr.Batches = len(steps)
		fr.Datagrams = 0
		for _, s := range steps {
			fr.Datagrams += len(s.Sizes)
		}
		if fail == nil {
			return fr
		}
		if os.Getenv("C18_DEBUG") != "" {
			fmt.Fprintf(os.Stderr, "dual try %d: lossy=%v %s script=%d\n", try, lossy, fail.Error, len(fail.Script))
		}
		// A retry of the single Send would hide the defect (the failed attempt
		// leaves the pooled address repaired), so the whole script is played again
		// on a fresh bind.  Which Send draws which pooled object varies from run to
		// run, so the failing step may differ; a difference in BOTH runs counts
		// (two independent losses in two runs of a few small loopback sends do not happen).
		if try == 0 && lossy {
			fr.Retried++
			first = fail
			continue
		}
		if first != nil && len(first.Script) < len(fail.Script) {
			fail = first
		}
		fr.Failures = append(fr.Failures, *fail)
		return fr
	}
	return fr
}

func runLoopback4(seed int64, nb int) map[string]any {
	steps := dualScript(seed, nb/2+10)
	lb := map[string]any{}
	for _, pass := range []string{"dual_offload", "dual_nooffload"} {
		// the pass is about one bind serving both families: recorded under "v6"
		// (the failing datagrams are the IPv6 ones) with an empty "v4" entry
		lb[pass] = map[string]*lbFam{"v4": {Skipped: "see v6 (dual-stack pass)", Failures: []lbFailure{}}, "v6": dualRun(pass, steps)}
	}
	return lb
}

func replayLoopback4(cs []*Case) map[string]any {
	lb := map[string]any{}
	for _, c := range cs {
		lb[c.Pass] = map[string]*lbFam{"v6": dualRun(c.Pass, c.Script)}
	}
	return lb
}
