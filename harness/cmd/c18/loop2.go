// Loopback, part 2.
//
// wire passes: a real StdNetBind sends batches to a PLAIN UDP socket (no
// UDP_GRO, no StdNetBind on the receiving side), so what the kernel puts on the
// wire for the coalesced vector is observed datagram by datagram, zero-length
// datagrams included, with and without a sticky source on the endpoint.  This
// validates UdpGso/KernelSpec.v (send half) independently of the receive-side
// finding about empty datagrams.
//
// pool passes: two StdNetBinds send to each other and receive SYNCHRONOUSLY in
// one goroutine, so that the pooled message vectors (getMessages/putMessages)
// are reused across consecutive Send and receive calls of the same bind: every
// receive call must return exactly the datagrams that are outstanding, nothing
// else (no phantom from a stale slot).
package main

import (
	"fmt"
	"math/rand"
	"net"
	"runtime"
	"runtime/debug"
	"time"

	"golang.org/x/sys/unix"
	"golang.zx2c4.com/wireguard/conn"
)

// ---------------------------------------------------------------------------
// wire passes
// ---------------------------------------------------------------------------

type wireEnv struct {
	pass  string
	a     conn.Bind
	portA uint16
	rx    map[string]*net.UDPConn
	ch    chan rxItem
	id    int
	flags lbFlags
}

func openWire(pass string) (*wireEnv, error) { return openWireBind(pass, conn.NewStdNetBind()) }

// openWireBind: the sending bind is given (it may have been open and closed before).
func openWireBind(pass string, a conn.Bind) (*wireEnv, error) {
	e := &wireEnv{pass: pass, a: a, rx: map[string]*net.UDPConn{}, ch: make(chan rxItem, 4096)}
	_, port, err := e.a.Open(0)
	if err != nil {
		return nil, err
	}
	e.portA = port
	e.flags = flagsOf(e.a)
	if pass == "wire_nooffload" {
		if _, err := conn.VerifDisableOffload(e.a); err != nil {
			e.a.Close()
			return nil, fmt.Errorf("disable offload: %w", err)
		}
	}
	for fam, addr := range map[string]string{"v4": "127.0.0.1:0", "v6": "[::1]:0"} {
		network := "udp4"
		if fam == "v6" {
			network = "udp6"
		}
		ua, err := net.ResolveUDPAddr(network, addr)
		if err != nil {
			continue
		}
		c, err := net.ListenUDP(network, ua)
		if err != nil {
			continue
		}
		_ = c.SetReadBuffer(16 << 20)
		if fam == "v6" {
			// the fault-injecting pass wire_eio_partial sends lone datagrams while
			// checksums are switched off on the sending socket; accept them
			if rc, err := c.SyscallConn(); err == nil {
				rc.Control(func(fd uintptr) {
					unix.SetsockoptInt(int(fd), unix.IPPROTO_UDP, unix.UDP_NO_CHECK6_RX, 1)
				})
			}
		}
		e.rx[fam] = c
		go func(c *net.UDPConn, fam string) {
			buf := make([]byte, 1<<16)
			for {
				n, from, err := c.ReadFromUDPAddrPort(buf)
				if err != nil {
					return
				}
				e.ch <- rxItem{fam: fam, data: append([]byte{}, buf[:n]...), from: from.String()}
			}
		}(c, fam)
	}
	return e, nil
}

func (e *wireEnv) close() {
	e.a.Close()
	for _, c := range e.rx {
		c.Close()
	}
}

func (e *wireEnv) usable(fam string) string {
	if e.rx[fam] == nil {
		return "no plain UDP socket on loopback for " + fam
	}
	if e.pass == "wire_offload" {
		tx := e.flags.Tx4
		if fam == "v6" {
			tx = e.flags.Tx6
		}
		if !tx {
			return "tx offload (UDP_SEGMENT) not available for " + fam
		}
	}
	for try := 0; try < 2; try++ {
		if _, diff, _, _ := e.attempt(fam, []int{16}, []int{16}, false); diff < 0 {
			return ""
		}
	}
	return "probe datagram not delivered to the plain socket"
}

func (e *wireEnv) attempt(fam string, sizes, caps []int, sticky bool) (gotSizes []int, diff int, lossOnly bool, errText string) {
	for {
		select {
		case <-e.ch:
			continue
		default:
		}
		break
	}
	e.id++
	id := uint16(e.id)
	rxPort := e.rx[fam].LocalAddr().(*net.UDPAddr).Port
	dst, from := fmt.Sprintf("127.0.0.1:%d", rxPort), fmt.Sprintf("127.0.0.1:%d", e.portA)
	if fam == "v6" {
		dst, from = fmt.Sprintf("[::1]:%d", rxPort), fmt.Sprintf("[::1]:%d", e.portA)
	}
	ep, err := e.a.ParseEndpoint(dst)
	if err != nil {
		return []int{}, 0, false, "ParseEndpoint: " + err.Error()
	}
	if sticky {
		conn.VerifSetEndpointSrc(ep.(*conn.StdNetEndpoint), pktinfo(fam == "v6"))
	}
	bufs := make([][]byte, len(sizes))
	want := make([][]byte, 0, len(sizes))
	for i, s := range sizes {
		cp := s
		if i < len(caps) && caps[i] > s {
			cp = caps[i]
		}
		b := make([]byte, s, cp)
		seed := (int(id)*7 + 37*i) % 256
		for k := range b {
			b[k] = pat(seed, k)
		}
		if s >= 4 {
			b[0], b[1], b[2], b[3] = byte(id>>8), byte(id), byte(i>>8), byte(i)
		}
		bufs[i] = b
		want = append(want, append([]byte{}, b...))
	}
	if err := e.a.Send(bufs, ep); err != nil {
		errText = err.Error()
	}
	var got []rxItem
	gotSizes = []int{}
	for {
		wait := 300 * time.Millisecond
		if len(got) >= len(want) {
			wait = 3 * time.Millisecond
		}
		stop := false
		select {
		case it := <-e.ch:
			if it.fam == fam {
				got = append(got, it)
				gotSizes = append(gotSizes, len(it.data))
			}
		case <-time.After(wait):
			stop = true
		}
		if stop {
			break
		}
	}
	diff, lossOnly = compareRx(want, got, from)
	if diff < 0 && errText != "" {
		diff = len(want)
	}
	return gotSizes, diff, lossOnly, errText
}

func (e *wireEnv) runBatch(fam string, sizes, caps []int, sticky bool, res *lbFam) {
	res.Batches++
	res.Datagrams += len(sizes)
	got, diff, lossOnly, errText := e.attempt(fam, sizes, caps, sticky)
	if diff < 0 {
		return
	}
	if lossOnly && errText == "" {
		res.Retried++
		got, diff, _, errText = e.attempt(fam, sizes, caps, sticky)
		if diff < 0 {
			return
		}
	}
	res.Failures = append(res.Failures, lbFailure{Family: fam, Pass: e.pass, Sizes: sizes, Caps: caps, GotSizes: got,
		FirstDiff: diff, Error: errText, Sticky: sticky})
}

// wireBatches: the pair batches plus zero-length datagrams sprinkled in.
func wireBatches(seed int64, count int) []lbBatch {
	bs := genBatches(seed+1, count)
	r := rand.New(rand.NewSource(seed*104729 + 5))
	fixed := [][]int{{100, 100, 0, 100, 50}, {0}, {0, 0}, {0, 200, 200}, {200, 200, 0}, {1, 0, 1}, {200, 200, 200}}
	for i := range bs {
		if i < len(fixed) {
			bs[i] = lbBatch{fixed[i], make([]int, len(fixed[i]))}
			for k := range bs[i].caps {
				bs[i].caps[k] = 65535
			}
			continue
		}
		if i%3 != 0 {
			continue
		}
		var sizes, caps []int
		for k, s := range bs[i].sizes {
			if r.Intn(6) == 0 {
				sizes, caps = append(sizes, 0), append(caps, pick(r, []int{0, 65535}))
			}
			sizes, caps = append(sizes, s), append(caps, bs[i].caps[k])
		}
		if r.Intn(2) == 0 {
			sizes, caps = append(sizes, 0), append(caps, 65535)
		}
		if len(sizes) > idealBatch {
			sizes, caps = sizes[:idealBatch], caps[:idealBatch]
		}
		bs[i] = lbBatch{sizes, caps}
	}
	return bs
}

func wirePass(pass string, batches []lbBatch) map[string]*lbFam {
	res := map[string]*lbFam{}
	e, err := openWire(pass)
	if err != nil {
		res["v4"], res["v6"] = skippedFam(err.Error()), skippedFam(err.Error())
		return res
	}
	defer e.close()
	for _, fam := range []string{"v4", "v6"} {
		if why := e.usable(fam); why != "" {
			res[fam] = skippedFam(why)
			continue
		}
		r := &lbFam{Failures: []lbFailure{}}
		for i, b := range batches {
			// every second batch with a sticky source on the endpoint
			e.runBatch(fam, b.sizes, b.caps, i%2 == 1, r)
		}
		res[fam] = r
	}
	return res
}

// ---------------------------------------------------------------------------
// pool passes
// ---------------------------------------------------------------------------

type seqSide struct {
	b     conn.Bind
	fns   []conn.ReceiveFunc
	port  uint16
	rbufs [][]byte
	sizes []int
	eps   []conn.Endpoint
	sbufs [][]byte // backing arrays of the send buffers, reused
	dead  bool
	rxErr string // a receive function returned this error although datagrams were waiting
}

func openSeqSide(disable bool) (*seqSide, error) {
	s := &seqSide{b: conn.NewStdNetBind()}
	fns, port, err := s.b.Open(0)
	if err != nil {
		return nil, err
	}
	if disable {
		fns, err = conn.VerifDisableOffload(s.b)
		if err != nil {
			s.b.Close()
			return nil, err
		}
	}
	s.fns, s.port = fns, port
	n := s.b.BatchSize()
	s.rbufs, s.sbufs = make([][]byte, n), make([][]byte, n)
	for i := range s.rbufs {
		s.rbufs[i], s.sbufs[i] = make([]byte, 65535), make([]byte, 65535)
	}
	s.sizes, s.eps = make([]int, n), make([]conn.Endpoint, n)
	return s, nil
}

// one synchronous receive call (same goroutine as the sends); a watchdog closes
// the bind if nothing arrives, which is then treated as loss.
func (s *seqSide) recvOnce(fam string) ([]rxItem, bool) {
	idx := 0
	if fam == "v6" {
		idx = 1
	}
	if idx >= len(s.fns) {
		return nil, false
	}
	done := make(chan struct{})
	go func() {
		select {
		case <-done:
		case <-time.After(2 * time.Second):
			s.dead = true
			s.b.Close()
		}
	}()
	n, err := s.fns[idx](s.rbufs, s.sizes, s.eps)
	close(done)
	if err != nil && !s.dead {
		// the receive function failed by itself (not because the watchdog closed the
		// bind): whatever that read took from the socket is gone
		s.rxErr = err.Error()
		return nil, false
	}
	if err != nil || s.dead {
		s.dead = true
		return nil, false
	}
	var items []rxItem
	for i := 0; i < n; i++ {
		if s.sizes[i] == 0 {
			continue
		}
		it := rxItem{fam: fam, data: append([]byte{}, s.rbufs[i][:s.sizes[i]]...)}
		if s.eps[i] != nil {
			it.from = s.eps[i].DstToString()
		}
		items = append(items, it)
		s.eps[i] = nil
	}
	return items, true
}

// runScript plays the steps; nil = every receive call returned exactly what
// was outstanding.  lossy = a receive timed out (the script can be retried).
func runScript(pass, fam string, steps []lbStep) (fail *lbFailure, lossy bool, skipped string) {
	old := debug.SetGCPercent(-1) // a GC would empty the sync.Pool whose reuse is the point
	defer debug.SetGCPercent(old)
	defer runtime.GOMAXPROCS(runtime.GOMAXPROCS(1)) // one P: the pool's private slot is always hit
	var sides [2]*seqSide
	for i := range sides {
		s, err := openSeqSide(pass == "pool_nooffload")
		if err != nil {
			if i == 1 {
				sides[0].b.Close()
			}
			return nil, false, err.Error()
		}
		sides[i] = s
	}
	defer func() {
		for _, s := range sides {
			if !s.dead {
				s.b.Close()
			}
		}
	}()
	if fam == "v6" && (len(sides[0].fns) < 2 || len(sides[1].fns) < 2) {
		return nil, false, "no IPv6 receive function"
	}
	for si, st := range steps {
		tx, rx := sides[st.From&1], sides[1-st.From&1]
		dst, from := fmt.Sprintf("127.0.0.1:%d", rx.port), fmt.Sprintf("127.0.0.1:%d", tx.port)
		if fam == "v6" {
			dst, from = fmt.Sprintf("[::1]:%d", rx.port), fmt.Sprintf("[::1]:%d", tx.port)
		}
		ep, err := tx.b.ParseEndpoint(dst)
		if err != nil {
			return nil, false, err.Error()
		}
		bufs := make([][]byte, len(st.Sizes))
		want := make([][]byte, len(st.Sizes))
		for i, sz := range st.Sizes {
			b := tx.sbufs[i][:sz]
			seed := (si*11 + 37*i) % 256
			for k := range b {
				b[k] = pat(seed, k)
			}
			bufs[i] = b
			want[i] = append([]byte{}, b...)
		}
		mk := func(got []rxItem, diff int, msg string) *lbFailure {
			gs := []int{}
			for _, g := range got {
				gs = append(gs, len(g.data))
			}
			return &lbFailure{Family: fam, Pass: pass, Sizes: st.Sizes, Caps: []int{}, GotSizes: gs, FirstDiff: diff,
				Error:  fmt.Sprintf("step %d (bind %d sends %d datagrams): %s", si, st.From, len(st.Sizes), msg),
				Script: append([]lbStep{}, steps[:si+1]...)}
		}
		if err := tx.b.Send(bufs, ep); err != nil {
			return mk(nil, 0, "Send: "+err.Error()), false, ""
		}
		var got []rxItem
		for len(got) < len(want) {
			items, ok := rx.recvOnce(fam)
			if !ok && rx.rxErr != "" {
				return mk(got, len(got), "the receive function returned an error with datagrams waiting: "+rx.rxErr), false, ""
			}
			if !ok {
				return nil, true, ""
			}
			got = append(got, items...)
			if diff, lossOnly := compareRx(want, got, from); diff >= 0 && !(lossOnly && len(got) < len(want)) {
				return mk(got, diff, "a receive call returned something that is not the outstanding datagrams in order"), false, ""
			}
			if len(items) == 0 {
				// only empty results: avoid spinning for ever
				return nil, true, ""
			}
		}
	}
	return nil, false, ""
}

// poolScript: the two stale-slot situations first (a bind receives after it
// sent >= 127 separate messages; a bind receives after a completely full
// receive of 2 x 64 segments), then random two-way traffic.
func poolScript(seed int64, fam string, count int) []lbStep {
	r := rand.New(rand.NewSource(seed*15485863 + int64(len(fam))))
	grow := func(n int) []int {
		out := make([]int, n)
		for i := range out {
			out[i] = i + 1
		}
		return out
	}
	rep := func(n, s int) []int {
		out := make([]int, n)
		for i := range out {
			out[i] = s
		}
		return out
	}
	steps := []lbStep{
		{1, rep(3, 100)}, {0, grow(128)}, {1, rep(3, 100)},
		{1, rep(128, 50)}, {1, rep(1, 33)},
		{0, rep(128, 1452)}, {0, rep(2, 700)}, {1, grow(127)}, {0, rep(1, 9)},
	}
	for len(steps) < count {
		var sz []int
		switch r.Intn(5) {
		case 0:
			sz = rep(pick(r, []int{1, 2, 3, 63, 64, 65, 127, 128}), pick(r, []int{1, 33, 50, 100, 1452}))
		case 1:
			sz = grow(pick(r, []int{2, 5, 64, 127, 128}))
		case 2:
			sz = rep(1, 1+r.Intn(1452))
		default:
			n := 1 + r.Intn(40)
			for i := 0; i < n; i++ {
				sz = append(sz, pick(r, []int{1452, 1452, 148, 92, 32}))
			}
		}
		steps = append(steps, lbStep{r.Intn(2), sz})
	}
	return steps
}

func poolPass(pass string, seed int64, count int) map[string]*lbFam {
	res := map[string]*lbFam{}
	for _, fam := range []string{"v4", "v6"} {
		steps := poolScript(seed, fam, count)
		r := &lbFam{Failures: []lbFailure{}}
		res[fam] = r
		for try := 0; ; try++ {
			fail, lossy, skipped := runScript(pass, fam, steps)
			if skipped != "" {
				res[fam] = skippedFam(skipped)
				break
			}
			if lossy && try == 0 {
				r.Retried++
				continue
			}
			if lossy {
				res[fam] = skippedFam("datagrams lost twice over loopback; sequential script not completed")
				break
			}
			r.Batches = len(steps)
			for _, s := range steps {
				r.Datagrams += len(s.Sizes)
			}
			if fail != nil {
				r.Failures = append(r.Failures, *fail)
			}
			break
		}
	}
	return res
}

// runLoopback2 runs the wire and pool passes.
func runLoopback2(seed int64, nb int) map[string]any {
	lb := map[string]any{}
	wb := wireBatches(seed, nb)
	for _, pass := range []string{"wire_offload", "wire_nooffload"} {
		lb[pass] = wirePass(pass, wb)
	}
	for _, pass := range []string{"pool_offload", "pool_nooffload"} {
		lb[pass] = poolPass(pass, seed, nb/2+9)
	}
	return lb
}

// replayLoopback2 re-runs wire and pool cases.
func replayLoopback2(cs []*Case) map[string]any {
	lb := map[string]any{}
	for _, c := range cs {
		fam := "v4"
		if c.Family == "v6" {
			fam = "v6"
		}
		get := func() *lbFam {
			m, ok := lb[c.Pass].(map[string]*lbFam)
			if !ok {
				m = map[string]*lbFam{}
				lb[c.Pass] = m
			}
			if m[fam] == nil {
				m[fam] = &lbFam{Failures: []lbFailure{}}
			}
			return m[fam]
		}
		switch c.Pass {
		case "wire_offload", "wire_nooffload":
			e, err := openWire(c.Pass)
			if err != nil {
				lb[c.Pass] = map[string]*lbFam{fam: skippedFam(err.Error())}
				continue
			}
			if why := e.usable(fam); why != "" {
				lb[c.Pass] = map[string]*lbFam{fam: skippedFam(why)}
			} else {
				e.runBatch(fam, c.Sizes, c.Caps, c.Sticky, get())
			}
			e.close()
		case "pool_offload", "pool_nooffload":
			r := get()
			for try := 0; try < 2; try++ {
				fail, lossy, skipped := runScript(c.Pass, fam, c.Script)
				if skipped != "" {
					lb[c.Pass] = map[string]*lbFam{fam: skippedFam(skipped)}
					break
				}
				if lossy {
					r.Retried++
					continue
				}
				r.Batches = len(c.Script)
				if fail != nil {
					r.Failures = append(r.Failures, *fail)
				}
				break
			}
		}
	}
	return lb
}
