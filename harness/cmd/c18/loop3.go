// Fault injection (hook file conn/verif_c18b_linux.go).
//
// loop cases: the real (*StdNetBind).send runs on a vector of L messages with a
// writer that accepts only as many messages per WriteBatch call as an oracle
// says (partial writes: once, twice, every call) or fails; the indices of the
// messages in the order accepted go to Coq (Model.send_loop under the same oracle).
//
// wire_partial: the same loop, the limited writer forwarding what it accepts to
// the bind's real packet conn; a plain UDP socket shows the wire.
//
// wire_eio: the public Send of a fresh bind whose first sendmmsg fails with EIO
// (what a NIC without tx checksum offload makes of UDP_SEGMENT): GSO is
// disabled and the batch is resent from the same pooled vector; the plain UDP
// socket must still see the batch datagram for datagram.
package main

import (
	"encoding/binary"
	"errors"
	"fmt"
	"math/rand"
	"net"
	"net/netip"
	"os"
	"strings"
	"sync/atomic"
	"syscall"
	"time"

	"golang.org/x/net/ipv6"
	"golang.org/x/sys/unix"
	"golang.zx2c4.com/wireguard/conn"
)

var errInjected = errors.New("injected WriteBatch failure")

// oracleWriter accepts oracle[call] messages per call (0: fail; beyond the
// oracle: everything) and records or forwards them.
type oracleWriter struct {
	oracle []int
	call   int
	got    []int                 // recorded message ids (first 4 payload bytes), when inner == nil
	inner  conn.VerifBatchWriter // forward accepted messages here
}

func (w *oracleWriter) WriteBatch(ms []ipv6.Message, flags int) (int, error) {
	k := len(ms)
	if w.call < len(w.oracle) {
		k = w.oracle[w.call]
	}
	w.call++
	if k == 0 && len(ms) > 0 {
		return 0, errInjected
	}
	if k > len(ms) {
		k = len(ms)
	}
	if w.inner != nil {
		done := 0
		for done < k {
			n, err := w.inner.WriteBatch(ms[done:k], flags)
			if err != nil {
				return done, err
			}
			done += n
		}
		return k, nil
	}
	for i := 0; i < k; i++ {
		w.got = append(w.got, int(binary.BigEndian.Uint32(ms[i].Buffers[0])))
		ms[i].N = len(ms[i].Buffers[0])
	}
	return k, nil
}

var loopBind conn.Bind
var loopBindTried bool

func runLoop(c *Case) bool {
	if !loopBindTried {
		loopBindTried = true
		b := conn.NewStdNetBind()
		if _, _, err := b.Open(0); err == nil {
			loopBind = b
		}
	}
	if loopBind == nil {
		return false
	}
	if c.L < 1 {
		c.L = 1
	}
	if c.L > 1024 {
		c.L = 1024
	}
	if c.Oracle == nil {
		c.Oracle = []int{}
	}
	for i := range c.Oracle {
		if c.Oracle[i] < 0 {
			c.Oracle[i] = 0
		}
	}
	// the model stops when its oracle is exhausted, the real loop does not: pad
	for len(c.Oracle) < c.L+2 {
		c.Oracle = append(c.Oracle, 4096)
	}
	msgs := make([]ipv6.Message, c.L)
	for i := range msgs {
		b := make([]byte, 8)
		binary.BigEndian.PutUint32(b, uint32(i))
		msgs[i].Buffers = [][]byte{b}
		msgs[i].Addr = &net.UDPAddr{IP: net.IPv4(127, 0, 0, 1), Port: 9}
	}
	w := &oracleWriter{oracle: c.Oracle}
	c.Status = 0
	func() {
		defer func() {
			if r := recover(); r != nil {
				c.Status = 2
			}
		}()
		if err := conn.VerifSendLoop(loopBind, false, w, msgs); err != nil {
			c.Status = 1
		}
	}()
	c.OutIdx = append([]int{}, w.got...)
	var b strings.Builder
	b.WriteString("Lop ")
	writeInts(&b, []uint64{uint64(c.L), uint64(c.Status)})
	b.WriteByte(' ')
	o := make([]uint64, len(c.Oracle))
	for i, k := range c.Oracle {
		o[i] = uint64(k)
	}
	writeInts(&b, o)
	b.WriteByte(' ')
	g := make([]uint64, len(c.OutIdx))
	for i, k := range c.OutIdx {
		g[i] = uint64(k)
	}
	writeInts(&b, g)
	c.gal = b.String()
	return true
}

func genLoop(r *rand.Rand, g int) *Case {
	c := &Case{Kind: "loop"}
	c.L = pick(r, []int{1, 2, 3, 10, 12, 40, 64, 127, 128, 1 + r.Intn(128)})
	L := c.L
	switch g % 8 {
	case 0:
		c.Gen, c.Oracle = "loop-all-at-once", []int{L}
	case 1:
		c.Gen, c.Oracle = "loop-one-partial", []int{1 + r.Intn(L)}
	case 2:
		k := 1 + r.Intn(1+L/3)
		c.Gen, c.Oracle = "loop-two-partials", []int{k, 1 + r.Intn(1+L/3)}
	case 3:
		k := 1 + r.Intn(1+L/4)
		c.Gen = "loop-same-k-every-call"
		for i := 0; i*k < L; i++ {
			c.Oracle = append(c.Oracle, k)
		}
	case 4:
		c.Gen = "loop-one-per-call"
		for i := 0; i < L; i++ {
			c.Oracle = append(c.Oracle, 1)
		}
	case 5, 6:
		c.Gen = "loop-random"
		for left := L; left > 0; {
			k := 1 + r.Intn(1+left/2)
			c.Oracle = append(c.Oracle, k)
			left -= k
		}
	default:
		c.Gen = "loop-with-failure"
		for left := L; left > 0; {
			k := 1 + r.Intn(1+left/2)
			c.Oracle = append(c.Oracle, k)
			left -= k
		}
		c.Oracle[r.Intn(len(c.Oracle))] = 0
	}
	return c
}

// ---------------------------------------------------------------------------
// wire_partial
// ---------------------------------------------------------------------------

// buildVector prepares the message vector as Send does (merged when offload is
// on) for the batch; returns it with the expected wire datagrams.
func buildVector(fam string, port int, sizes, caps []int, sticky, merged bool, id int) ([]ipv6.Message, [][]byte) {
	is6 := fam == "v6"
	ip := netip.MustParseAddr("127.0.0.1")
	if is6 {
		ip = netip.MustParseAddr("::1")
	}
	ua := &net.UDPAddr{IP: ip.AsSlice(), Port: port}
	ep := &conn.StdNetEndpoint{AddrPort: netip.AddrPortFrom(ip, uint16(port))}
	if sticky {
		conn.VerifSetEndpointSrc(ep, pktinfo(is6))
	}
	bufs := make([][]byte, len(sizes))
	want := make([][]byte, len(sizes))
	for i, s := range sizes {
		cp := s
		if i < len(caps) && caps[i] > s {
			cp = caps[i]
		}
		b := make([]byte, s, cp)
		seed := (id*7 + 37*i) % 256
		for k := range b {
			b[k] = pat(seed, k)
		}
		if s >= 4 {
			b[0], b[1], b[2], b[3] = byte(id>>8), byte(id), byte(i>>8), byte(i)
		}
		bufs[i] = b
		want[i] = append([]byte{}, b...)
	}
	msgs := make([]ipv6.Message, len(bufs))
	for i := range msgs {
		msgs[i].Buffers = make([][]byte, 1)
		msgs[i].OOB = make([]byte, 0, poolOOBCap())
	}
	if merged {
		n := conn.VerifCoalesceMessages(ua, ep, bufs, msgs)
		return msgs[:n], want
	}
	src := conn.VerifEndpointSrc(ep)
	for i := range bufs {
		msgs[i].Addr = ua
		msgs[i].Buffers[0] = bufs[i]
		msgs[i].OOB = append(msgs[i].OOB[:0], src...)
	}
	return msgs, want
}

func (e *wireEnv) collectWire(fam string, want int) ([]rxItem, []int) {
	var got []rxItem
	gotSizes := []int{}
	for {
		wait := 300 * time.Millisecond
		if len(got) >= want {
			wait = 3 * time.Millisecond
		}
		select {
		case it := <-e.ch:
			if it.fam == fam {
				got = append(got, it)
				gotSizes = append(gotSizes, len(it.data))
			}
			continue
		case <-time.After(wait):
		}
		return got, gotSizes
	}
}

func (e *wireEnv) drainWire() {
	for {
		select {
		case <-e.ch:
		default:
			return
		}
	}
}

func (e *wireEnv) attemptPartial(fam string, sizes, caps, oracle []int, sticky, merged bool) ([]int, int, bool, string) {
	e.drainWire()
	e.id++
	rxPort := e.rx[fam].LocalAddr().(*net.UDPAddr).Port
	from := fmt.Sprintf("127.0.0.1:%d", e.portA)
	if fam == "v6" {
		from = fmt.Sprintf("[::1]:%d", e.portA)
	}
	msgs, want := buildVector(fam, rxPort, sizes, caps, sticky, merged, e.id)
	inner := conn.VerifRealBatchWriter(e.a, fam == "v6")
	if inner == nil {
		return []int{}, 0, false, "no packet conn"
	}
	w := &oracleWriter{oracle: oracle, inner: inner}
	errText := ""
	func() {
		defer func() {
			if r := recover(); r != nil {
				errText = fmt.Sprintf("send loop panicked: %v", r)
			}
		}()
		if err := conn.VerifSendLoop(e.a, fam == "v6", w, msgs); err != nil {
			errText = err.Error()
		}
	}()
	got, gotSizes := e.collectWire(fam, len(want))
	diff, lossOnly := compareRx(want, got, from)
	if diff < 0 && errText != "" {
		diff = len(want)
	}
	return gotSizes, diff, lossOnly && errText == "", errText
}

func partialOracles(r *rand.Rand, n int) []int {
	switch r.Intn(4) {
	case 0:
		return []int{1 + r.Intn(n)}
	case 1:
		k := 1 + r.Intn(1+n/3)
		return []int{k, k}
	case 2:
		k := 1 + r.Intn(3)
		var o []int
		for i := 0; i*k < n; i++ {
			o = append(o, k)
		}
		return o
	}
	var o []int
	for left := n; left > 0; {
		k := 1 + r.Intn(1+left/2)
		o = append(o, k)
		left -= k
	}
	return o
}

func wirePartialPass(seed int64, batches []lbBatch) map[string]*lbFam {
	const pass = "wire_partial"
	res := map[string]*lbFam{}
	e, err := openWire("wire_offload")
	if err != nil {
		res["v4"], res["v6"] = skippedFam(err.Error()), skippedFam(err.Error())
		return res
	}
	defer e.close()
	r := rand.New(rand.NewSource(seed*999331 + 3))
	for _, fam := range []string{"v4", "v6"} {
		if e.rx[fam] == nil || conn.VerifRealBatchWriter(e.a, fam == "v6") == nil {
			res[fam] = skippedFam("no socket for " + fam)
			continue
		}
		fr := &lbFam{Failures: []lbFailure{}}
		res[fam] = fr
		for i, b := range batches {
			merged := i%2 == 0 // the loop serves the merged and the unmerged vector alike
			sticky := i%4 >= 2
			// oracle in terms of messages of the vector, whose length is only known after merging
			nmsgs := len(b.sizes)
			if merged {
				m, _ := buildVector(fam, 9, b.sizes, b.caps, sticky, true, 0)
				nmsgs = len(m)
			}
			if nmsgs < 1 {
				continue
			}
			oracle := partialOracles(r, nmsgs)
			if i == 0 {
				oracle = []int{3, 3}
			}
			fr.Batches++
			fr.Datagrams += len(b.sizes)
			got, diff, lossOnly, errText := e.attemptPartial(fam, b.sizes, b.caps, oracle, sticky, merged)
			if diff >= 0 && lossOnly {
				fr.Retried++
				got, diff, _, errText = e.attemptPartial(fam, b.sizes, b.caps, oracle, sticky, merged)
			}
			if diff >= 0 {
				caps := b.caps
				if !merged {
					caps = nil // replay: nil caps = unmerged vector
				}
				fr.Failures = append(fr.Failures, lbFailure{Family: fam, Pass: pass, Sizes: b.sizes, Caps: caps, GotSizes: got,
					FirstDiff: diff, Error: errText, Sticky: sticky, Oracle: oracle})
			}
		}
	}
	return res
}

// ---------------------------------------------------------------------------
// wire_eio
// ---------------------------------------------------------------------------

type eioConn struct {
	*net.UDPConn
	fail *atomic.Int32
	// partial: 1 = the next sendmmsg is done by the kernel with UDP_SEGMENT
	// messages refused (so it stops in front of the first merged message and
	// reports how many it sent), 2 = the next sendmmsg fails with EIO.  This is
	// what a kernel does whose route cannot take UDP_SEGMENT: the messages in
	// front are sent, the error is reported by the following call.
	partial *atomic.Int32
	v6      bool
}

func (c *eioConn) SyscallConn() (syscall.RawConn, error) {
	rc, err := c.UDPConn.SyscallConn()
	if err != nil {
		return nil, err
	}
	return &eioRaw{RawConn: rc, c: c}, nil
}

type eioRaw struct {
	syscall.RawConn
	c *eioConn
}

func (r *eioRaw) noCheck(on int) {
	r.RawConn.Control(func(fd uintptr) {
		if r.c.v6 {
			unix.SetsockoptInt(int(fd), unix.IPPROTO_UDP, unix.UDP_NO_CHECK6_TX, on)
		} else {
			unix.SetsockoptInt(int(fd), unix.SOL_SOCKET, unix.SO_NO_CHECK, on)
		}
		if on == 0 {
			unix.GetsockoptInt(int(fd), unix.SOL_SOCKET, unix.SO_ERROR) // clears the error the refused message left
		}
	})
}

func (r *eioRaw) Write(f func(fd uintptr) bool) error {
	if r.c.partial != nil {
		switch r.c.partial.Load() {
		case 1:
			r.c.partial.Store(2)
			r.noCheck(1)
			err := r.RawConn.Write(f)
			r.noCheck(0)
			return err
		case 2:
			r.c.partial.Store(3)
			return os.NewSyscallError("sendmmsg", unix.EIO)
		}
	}
	if r.c.fail.Add(-1) >= 0 {
		return os.NewSyscallError("sendmmsg", unix.EIO)
	}
	return r.RawConn.Write(f)
}

// attemptEIO: a fresh bind (GSO can be disabled only once per bind and family),
// first sendmmsg of the public Send fails with EIO.
func attemptEIO(rxs *wireEnv, fam string, sizes, caps []int, sticky, partial bool) (gotSizes []int, diff int, lossOnly bool, errText string, skipped string) {
	a := conn.NewStdNetBind()
	_, portA, err := a.Open(0)
	if err != nil {
		return nil, -1, false, "", err.Error()
	}
	defer a.Close()
	tx4, _, tx6, _ := conn.VerifOffload(a)
	if (fam == "v4" && !tx4) || (fam == "v6" && !tx6) {
		return nil, -1, false, "", "tx offload (UDP_SEGMENT) not available for " + fam
	}
	if partial {
		// "the kernel sends the messages in front and then reports EIO" needs a lone
		// datagram in front of a merged message; other batches say nothing here
		m, _ := buildVector(fam, 9, sizes, caps, sticky, true, 0)
		if len(m) == len(sizes) || len(m) == 0 || len(m[0].Buffers[0]) != sizes[0] || sizes[0] == 0 {
			return []int{}, -1, false, "", ""
		}
	}
	var fail, part atomic.Int32
	if err := conn.VerifWrapPacketConn(a, fam == "v6", func(c *net.UDPConn) net.PacketConn {
		return &eioConn{UDPConn: c, fail: &fail, partial: &part, v6: fam == "v6"}
	}); err != nil {
		return nil, -1, false, "", err.Error()
	}
	rxs.drainWire()
	rxs.id++
	id := rxs.id
	rxPort := rxs.rx[fam].LocalAddr().(*net.UDPAddr).Port
	dst, from := fmt.Sprintf("127.0.0.1:%d", rxPort), fmt.Sprintf("127.0.0.1:%d", portA)
	if fam == "v6" {
		dst, from = fmt.Sprintf("[::1]:%d", rxPort), fmt.Sprintf("[::1]:%d", portA)
	}
	ep, err := a.ParseEndpoint(dst)
	if err != nil {
		return nil, -1, false, "", err.Error()
	}
	if sticky {
		conn.VerifSetEndpointSrc(ep.(*conn.StdNetEndpoint), pktinfo(fam == "v6"))
	}
	bufs := make([][]byte, len(sizes))
	want := make([][]byte, len(sizes))
	for i, s := range sizes {
		cp := s
		if i < len(caps) && caps[i] > s {
			cp = caps[i]
		}
		b := make([]byte, s, cp)
		seed := (id*7 + 37*i) % 256
		for k := range b {
			b[k] = pat(seed, k)
		}
		if s >= 4 {
			b[0], b[1], b[2], b[3] = byte(id>>8), byte(id), byte(i>>8), byte(i)
		}
		bufs[i] = b
		want[i] = append([]byte{}, b...)
	}
	if partial {
		part.Store(1)
	} else {
		fail.Store(1)
	}
	err = a.Send(bufs, ep)
	if os.Getenv("C18_DEBUG") != "" {
		fmt.Fprintf(os.Stderr, "eio %s partial=%v part=%d fail=%d err=%v\n", fam, partial, part.Load(), fail.Load(), err)
	}
	var ge conn.ErrUDPGSODisabled
	switch {
	case partial && part.Load() == 2 && err == nil:
		// the kernel took the whole merged vector although checksums were switched
		// off on the socket: the partial acceptance cannot be produced here
		rxs.collectWire(fam, len(want))
		return nil, -1, false, "", "kernel accepts UDP_SEGMENT with checksums off; 'sent some, then EIO' cannot be produced"
	case !partial && fail.Load() >= 1:
		// the failure was not consumed?  cannot happen with a non-empty batch
		errText = "injected EIO not consumed"
	case errors.As(err, &ge):
		if ge.RetryErr != nil {
			errText = "retry after GSO disable failed: " + ge.RetryErr.Error()
		}
	case err == nil:
		errText = "Send returned nil although its first sendmmsg failed with EIO"
	default:
		errText = "Send: " + err.Error()
	}
	if t4, _, t6, _ := conn.VerifOffload(a); errText == "" && ((fam == "v4" && t4) || (fam == "v6" && t6)) {
		errText = "tx offload flag still set after EIO"
	}
	got, gs := rxs.collectWire(fam, len(want))
	diff, lossOnly = compareRx(want, got, from)
	if diff < 0 && errText != "" {
		diff = len(want)
	}
	return gs, diff, lossOnly && errText == "", errText, ""
}

// eioBatches: several merged runs with different segment sizes in one batch.
func eioBatches(seed int64, count int) []lbBatch {
	r := rand.New(rand.NewSource(seed*7368787 + 11))
	fixed := [][]int{
		{1000, 1000, 300, 300, 300}, {1000, 1000, 1000}, {1452, 1452, 1452, 148, 148, 148, 92, 92, 32},
		{100, 100, 0, 100, 50}, {1000}, {300, 300, 300, 1000, 1000, 1000},
	}
	var out []lbBatch
	for len(out) < count {
		var sizes []int
		if len(out) < len(fixed) {
			sizes = fixed[len(out)]
		} else {
			runs := 1 + r.Intn(6)
			for k := 0; k < runs; k++ {
				s := pick(r, []int{1452, 1280, 1000, 500, 300, 148, 92, 32, 4 + r.Intn(1400)})
				for n := 1 + r.Intn(5); n > 0; n-- {
					sizes = append(sizes, s)
				}
				if r.Intn(3) == 0 {
					sizes = append(sizes, 1+r.Intn(s))
				}
			}
		}
		caps := make([]int, len(sizes))
		for i := range caps {
			caps[i] = 65535
		}
		out = append(out, lbBatch{sizes, caps})
	}
	return out
}

// eioPartialBatches: the merged form begins with lone datagrams, a merged run follows.
func eioPartialBatches(seed int64, count int) []lbBatch {
	r := rand.New(rand.NewSource(seed*49979687 + 13))
	fixed := [][]int{{500, 1000, 1000}, {100, 200, 300, 300}, {148, 1452, 1452, 1452}, {32, 1452, 1452, 1452, 92}, {9, 10, 11, 400, 400}}
	var out []lbBatch
	for len(out) < count {
		var sizes []int
		if len(out) < len(fixed) {
			sizes = fixed[len(out)]
		} else {
			s := 4 + r.Intn(200)
			for n := 1 + r.Intn(4); n > 0; n-- { // growing: none of these merges
				sizes = append(sizes, s)
				s += 1 + r.Intn(200)
			}
			run := s + 1 + r.Intn(800)
			for n := 2 + r.Intn(5); n > 0; n-- {
				sizes = append(sizes, run)
			}
			if r.Intn(2) == 0 {
				sizes = append(sizes, pick(r, []int{32, 92, 148}), pick(r, []int{32, 92, 148}))
			}
		}
		caps := make([]int, len(sizes))
		for i := range caps {
			caps[i] = 65535
		}
		out = append(out, lbBatch{sizes, caps})
	}
	return out
}

func wireEIOPass(pass string, batches []lbBatch) map[string]*lbFam {
	partial := pass == "wire_eio_partial"
	res := map[string]*lbFam{}
	rxs, err := openWire("wire_offload") // only its plain receiving sockets are used
	if err != nil {
		res["v4"], res["v6"] = skippedFam(err.Error()), skippedFam(err.Error())
		return res
	}
	defer rxs.close()
	for _, fam := range []string{"v4", "v6"} {
		if rxs.rx[fam] == nil {
			res[fam] = skippedFam("no plain UDP socket on loopback for " + fam)
			continue
		}
		fr := &lbFam{Failures: []lbFailure{}}
		res[fam] = fr
		for i, b := range batches {
			sticky := i%3 == 2
			got, diff, lossOnly, errText, skipped := attemptEIO(rxs, fam, b.sizes, b.caps, sticky, partial)
			if skipped != "" {
				res[fam] = skippedFam(skipped)
				break
			}
			fr.Batches++
			fr.Datagrams += len(b.sizes)
			if diff >= 0 && lossOnly {
				fr.Retried++
				got, diff, _, errText, _ = attemptEIO(rxs, fam, b.sizes, b.caps, sticky, partial)
			}
			if diff >= 0 {
				fr.Failures = append(fr.Failures, lbFailure{Family: fam, Pass: pass, Sizes: b.sizes, Caps: b.caps, GotSizes: got,
					FirstDiff: diff, Error: errText, Sticky: sticky})
			}
		}
	}
	return res
}

func runLoopback3(seed int64, nb int) map[string]any {
	pb := genBatches(seed+2, nb/2+4)
	return map[string]any{
		"wire_partial":     wirePartialPass(seed, pb),
		"wire_eio":         wireEIOPass("wire_eio", eioBatches(seed, nb/3+6)),
		"wire_eio_partial": wireEIOPass("wire_eio_partial", eioPartialBatches(seed, nb/4+5)),
	}
}

func replayLoopback3(cs []*Case) map[string]any {
	lb := map[string]any{}
	for _, c := range cs {
		fam := "v4"
		if c.Family == "v6" {
			fam = "v6"
		}
		fr := &lbFam{Failures: []lbFailure{}, Batches: 1, Datagrams: len(c.Sizes)}
		lb[c.Pass] = map[string]*lbFam{fam: fr}
		e, err := openWire("wire_offload")
		if err != nil {
			lb[c.Pass] = map[string]*lbFam{fam: skippedFam(err.Error())}
			continue
		}
		if e.rx[fam] == nil {
			lb[c.Pass] = map[string]*lbFam{fam: skippedFam("no plain UDP socket for " + fam)}
			e.close()
			continue
		}
		var got []int
		var diff int
		var lossOnly bool
		var errText, skipped string
		run := func() {
			if c.Pass == "wire_eio" || c.Pass == "wire_eio_partial" {
				got, diff, lossOnly, errText, skipped = attemptEIO(e, fam, c.Sizes, c.Caps, c.Sticky, c.Pass == "wire_eio_partial")
			} else {
				caps := c.Caps
				if caps == nil {
					caps = c.Sizes
				}
				got, diff, lossOnly, errText = e.attemptPartial(fam, c.Sizes, caps, c.Oracle, c.Sticky, c.Caps != nil)
			}
		}
		run()
		if skipped == "" && diff >= 0 && lossOnly {
			fr.Retried++
			run()
		}
		if skipped != "" {
			lb[c.Pass] = map[string]*lbFam{fam: skippedFam(skipped)}
		} else if diff >= 0 {
			fr.Failures = append(fr.Failures, lbFailure{Family: fam, Pass: c.Pass, Sizes: c.Sizes, Caps: c.Caps, GotSizes: got,
				FirstDiff: diff, Error: errText, Sticky: c.Sticky, Oracle: c.Oracle})
		}
		e.close()
	}
	return lb
}
