// asym_* passes: bind -> bind as the pair passes, the receiving bind opened with
// UDP_GRO off on one of its sockets (hook conn/verif_c18c_linux.go), so that
// its two receive paths differ: each family must use its own rx offload flag.
//
// reopen pass: one StdNetBind is opened, used, closed and opened again, several
// times, as the device does on every BindUpdate; IPv4 and IPv6 must work after
// every Open, for sending (plain UDP receivers) and for receiving (plain UDP senders).
package main

import (
	"bytes"
	"fmt"
	"net"
	"strings"

	"golang.zx2c4.com/wireguard/conn"
)

func asymNetwork(pass string) string {
	switch pass {
	case "asym_rx4off":
		return "udp4"
	case "asym_rx6off":
		return "udp6"
	}
	return ""
}

func asymBatches() []lbBatch {
	var out []lbBatch
	for _, sizes := range [][]int{{100, 100, 100}, {1452, 1452, 1452, 1452, 92}, {32}, {148, 148, 148, 148, 148, 148, 148, 148}, {1000, 1000, 300, 300, 300}} {
		caps := make([]int, len(sizes))
		for i := range caps {
			caps[i] = 65535
		}
		out = append(out, lbBatch{sizes, caps})
	}
	for _, n := range []int{2, 64, 65, 128} {
		sizes, caps := make([]int, n), make([]int, n)
		for i := range sizes {
			sizes[i], caps[i] = 200, 65535
		}
		out = append(out, lbBatch{sizes, caps})
	}
	return out
}

func asymPass(pass string) map[string]*lbFam {
	res, e, _ := loopbackPass(pass, asymBatches(), false)
	if e != nil {
		f := e.flagsB
		if f.Rx4 == f.Rx6 {
			why := fmt.Sprintf("the rx offload flags of the receiving bind do not differ (rx4=%v rx6=%v): nothing to tell apart", f.Rx4, f.Rx6)
			for _, fam := range []string{"v4", "v6"} {
				if r := res[fam]; r != nil && len(r.Failures) == 0 {
					res[fam] = skippedFam(why)
				}
			}
		}
	}
	return res
}

// ---------------------------------------------------------------------------

func reopenPass(rounds int) map[string]*lbFam {
	const pass = "reopen"
	res := map[string]*lbFam{"v4": {Failures: []lbFailure{}}, "v6": {Failures: []lbFailure{}}}
	a := conn.NewStdNetBind() // sends in every round
	b := conn.NewStdNetBind() // receives in every round
	batches := [][]int{{100, 100, 100}, {700}, {1452, 1452, 92}}
	for round := 0; round <= rounds+1; round++ {
		// sending side
		e, err := openWireBind("wire_offload", a)
		if err != nil {
			for _, fam := range []string{"v4", "v6"} {
				res[fam].Failures = append(res[fam].Failures, lbFailure{Family: fam, Pass: pass, Sizes: []int{}, Caps: []int{}, GotSizes: []int{},
					Error: fmt.Sprintf("Open number %d of the same bind: %v", round+1, err)})
			}
			return res
		}
		for _, fam := range []string{"v4", "v6"} {
			if e.rx[fam] == nil || conn.VerifRealBatchWriter(a, fam == "v6") == nil {
				continue
			}
			for i, sizes := range batches {
				caps := make([]int, len(sizes))
				for k := range caps {
					caps[k] = 65535
				}
				before := len(res[fam].Failures)
				e.pass = pass
				e.runBatch(fam, sizes, caps, i == 2, res[fam])
				for k := before; k < len(res[fam].Failures); k++ {
					res[fam].Failures[k].Error = strings.TrimSpace(fmt.Sprintf("after Open number %d of the same bind (send): %s", round+1, res[fam].Failures[k].Error))
				}
			}
		}
		e.close() // closes a

		// receiving side
		fns, port, err := b.Open(0)
		if err != nil {
			res["v4"].Failures = append(res["v4"].Failures, lbFailure{Family: "v4", Pass: pass, Sizes: []int{}, Caps: []int{}, GotSizes: []int{},
				Error: fmt.Sprintf("Open number %d of the receiving bind: %v", round+1, err)})
			return res
		}
		for idx, fam := range []string{"v4", "v6"} {
			if idx >= len(fns) {
				continue
			}
			network, ip := "udp4", net.IPv4(127, 0, 0, 1)
			if fam == "v6" {
				network, ip = "udp6", net.IPv6loopback
			}
			s, err := net.ListenUDP(network, &net.UDPAddr{IP: ip})
			if err != nil {
				continue
			}
			x := &rxPlainEnv{fam: fam, b: b, fn: fns[idx], port: port, sA: s, sB: s}
			n := b.BatchSize()
			x.bufs = make([][]byte, n)
			for i := range x.bufs {
				x.bufs[i] = make([]byte, 65535)
			}
			x.sizes, x.eps = make([]int, n), make([]conn.Endpoint, n)
			want := x.send(s, []int{300, 20, 1000})
			var got [][]byte
			lost := false
			for len(got) < len(want) {
				items, ok := x.recv()
				if !ok {
					lost = true
					break
				}
				for _, it := range items {
					if len(it.data) > 0 {
						got = append(got, it.data)
					}
				}
			}
			s.Close()
			res[fam].Batches++
			res[fam].Datagrams += len(want)
			bad := lost || len(got) != len(want)
			for i := 0; !bad && i < len(want); i++ {
				bad = !bytes.Equal(want[i], got[i])
			}
			if bad {
				gs := []int{}
				for _, g := range got {
					gs = append(gs, len(g))
				}
				res[fam].Failures = append(res[fam].Failures, lbFailure{Family: fam, Pass: pass, Sizes: []int{300, 20, 1000}, Caps: []int{}, GotSizes: gs,
					Error: fmt.Sprintf("after Open number %d of the same bind (receive): datagrams from a plain socket not delivered", round+1)})
			}
			if x.dead {
				return res // the watchdog closed b
			}
		}
		b.Close()
	}
	return res
}

func runLoopback6(seed int64, nb int) map[string]any {
	return map[string]any{
		"asym_rx4off": asymPass("asym_rx4off"),
		"asym_rx6off": asymPass("asym_rx6off"),
		"reopen":      reopenPass(2),
	}
}
