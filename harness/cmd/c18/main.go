// c18 drives conn.coalesceMessages / conn.splitCoalescedMessages (through the
// Verif* exports) with generated datagram batches and GRO trains, and writes
// the inputs with the observed message vectors as Gallina case files + JSON.
// A second part sends real batches over loopback between two StdNetBinds, with
// and without UDP offloads, and compares what arrives with what was sent.
package main

import (
	"bytes"
	"encoding/binary"
	"encoding/json"
	"flag"
	"fmt"
	"math/rand"
	"net"
	"net/netip"
	"os"
	"path/filepath"
	"strings"
	"sync"
	"time"

	"golang.org/x/net/ipv6"
	"golang.org/x/sys/unix"
	"golang.zx2c4.com/wireguard/conn"
)

const (
	fillByte        = 0xEE
	fullSearchLimit = 16384 // candidate bytes below which every offset is tried by the run encoder
	ctlError        = 70000 // "getGSOSize returned an error" in a case file
	addrOther       = 65535
)

// ---------------------------------------------------------------------------
// byte pattern and run encoding (must match UdpGso/Check.v)
// ---------------------------------------------------------------------------

func pat(s, j int) byte { return byte(s + 31*j + j/251) }

func patBytes(seed, n int) []byte {
	b := make([]byte, n)
	for k := range b {
		b[k] = pat(seed, k)
	}
	return b
}

type cand struct{ seed, size int }

func decodeRuns(runs []uint64) []byte {
	var out []byte
	for i := 0; i+2 < len(runs); i += 3 {
		s, o, l := int(runs[i]), int(runs[i+1]), int(runs[i+2])
		for k := 0; k < l; k++ {
			if s < 256 {
				out = append(out, pat(s, o+k))
			} else {
				out = append(out, byte(s-256))
			}
		}
	}
	return out
}

// encodeRuns writes data as (seed, offset, length) triples; lossless whatever
// data is (checked by decoding).
func encodeRuns(data []byte, cands []cand) []uint64 {
	total := 0
	for _, c := range cands {
		total += c.size
	}
	full := total < fullSearchLimit
	out := []uint64{}
	prevSeed, prevEnd := -1, 0
	p := 0
	for p < len(data) {
		bestSeed, bestOff, bestLen := 0, 0, 0
		try := func(seed, off, max int) {
			k := 0
			for k < max && p+k < len(data) && data[p+k] == pat(seed, off+k) {
				k++
			}
			if k > bestLen {
				bestSeed, bestOff, bestLen = seed, off, k
			}
		}
		for _, c := range cands {
			try(c.seed, 0, c.size)
		}
		if prevSeed >= 0 {
			try(prevSeed, prevEnd, len(data))
		}
		if full {
			for _, c := range cands {
				for off := 1; off < c.size; off++ {
					try(c.seed, off, c.size-off)
				}
			}
		}
		if bestLen >= 3 {
			out = append(out, uint64(bestSeed), uint64(bestOff), uint64(bestLen))
			prevSeed, prevEnd = bestSeed, bestOff+bestLen
			p += bestLen
			continue
		}
		k := 1
		for p+k < len(data) && data[p+k] == data[p] {
			k++
		}
		out = append(out, uint64(256+int(data[p])), 0, uint64(k))
		prevSeed = -1
		p += k
	}
	if !bytes.Equal(decodeRuns(out), data) {
		panic("encodeRuns: runs do not reproduce the data")
	}
	return out
}

func writeInts(b *strings.Builder, xs []uint64) {
	b.WriteByte('[')
	for i, x := range xs {
		if i > 0 {
			b.WriteByte(';')
		}
		fmt.Fprintf(b, "%d", x)
	}
	b.WriteByte(']')
}

func bytesAsInts(bs []byte) []uint64 {
	out := make([]uint64, len(bs))
	for i, x := range bs {
		out[i] = uint64(x)
	}
	return out
}

// ---------------------------------------------------------------------------
// case representation
// ---------------------------------------------------------------------------

type OutMsg struct {
	Len    int      `json:"len"`
	Cap    int      `json:"cap"`
	GSO    []uint64 `json:"gso"`
	OOBLen int      `json:"ooblen"`
	Addr   int      `json:"addr"`
}

// Slot of a receive case: content = pattern datagrams (sizes/seeds) followed by
// 0xEE up to the buffer length; N explicit.  gso: g > 0 a UDP_GRO control
// message carrying g, 0 none, -1 a broken control message, -2 UDP_GRO carrying 0.
type Slot struct {
	N       int   `json:"n"`
	GSO     int   `json:"gso"`
	Port    int   `json:"port"`
	Sizes   []int `json:"sizes"`
	Seeds   []int `json:"seeds"`
	BufLen  int   `json:"buflen,omitempty"`  // 0: the case's buflen
	PktInfo bool  `json:"pktinfo,omitempty"` // an IP_PKTINFO control message in front
	CInt    bool  `json:"cint,omitempty"`    // UDP_GRO data as the kernel writes it: a C int (4 bytes), not 2 bytes
}

type Case struct {
	Kind string `json:"kind"`
	Gen  string `json:"gen"`
	// send
	Is6    bool     `json:"is6"`
	Sticky bool     `json:"sticky"`
	OOBCap int      `json:"oobcap"`
	Port   int      `json:"port"`
	Seed   int      `json:"seed"`
	Sizes  []int    `json:"sizes"`
	Caps   []int    `json:"caps"`
	NRet   int      `json:"nret"`
	Out    []OutMsg `json:"out"`
	// recv
	L      int      `json:"L"`
	First  int      `json:"first"`
	BufLen int      `json:"buflen"`
	Slots  []Slot   `json:"slots"`
	Expect [][3]int `json:"expect"`
	Status int      `json:"status"`
	OutN   []int    `json:"outn"`
	// loopback (replay/corpus only)
	Family string   `json:"family"`
	Pass   string   `json:"pass"`
	Script []lbStep `json:"script"`
	// send-loop cases (kind "loop": L messages, per-call acceptance counts, 0 = the call fails)
	// and the fault-injecting wire passes
	Oracle []int `json:"oracle"`
	OutIdx []int `json:"outidx"`

	gal string
}

func (c Case) MarshalJSON() ([]byte, error) {
	m := map[string]any{"kind": c.Kind, "gen": c.Gen}
	switch c.Kind {
	case "send":
		m["is6"], m["sticky"], m["oobcap"], m["port"], m["seed"] = c.Is6, c.Sticky, c.OOBCap, c.Port, c.Seed
		m["sizes"], m["caps"], m["nret"], m["out"] = c.Sizes, c.Caps, c.NRet, c.Out
	case "recv":
		m["L"], m["first"], m["buflen"], m["slots"], m["expect"] = c.L, c.First, c.BufLen, c.Slots, c.Expect
		m["nret"], m["status"], m["outn"] = c.NRet, c.Status, c.OutN
	case "loop":
		m["L"], m["oracle"], m["status"], m["outidx"] = c.L, c.Oracle, c.Status, c.OutIdx
	default:
		m["family"], m["pass"], m["sizes"], m["caps"] = c.Family, c.Pass, c.Sizes, c.Caps
		m["sticky"], m["script"], m["oracle"] = c.Sticky, c.Script, c.Oracle
	}
	return json.Marshal(m)
}

var (
	gsoControlSize = 24
	maxV4          = 65507
	maxV6          = 65527
	maxSegs        = 64
	idealBatch     = 128
)

func loadConstants() {
	for _, k := range conn.VerifConstants() {
		switch k.Name {
		case "gsoControlSize":
			gsoControlSize = int(k.Val)
		case "maxIPv4PayloadLen":
			maxV4 = int(k.Val)
		case "maxIPv6PayloadLen":
			maxV6 = int(k.Val)
		case "udpSegmentMaxDatagrams":
			maxSegs = int(k.Val)
		case "IdealBatchSize":
			idealBatch = int(k.Val)
		}
	}
}

func poolOOBCap() int { return conn.VerifStickyControlSize() + gsoControlSize }

// ---------------------------------------------------------------------------
// control messages
// ---------------------------------------------------------------------------

func cmsg(level, typ int32, data []byte) []byte {
	b := make([]byte, unix.CmsgSpace(len(data)))
	binary.NativeEndian.PutUint64(b[0:], uint64(unix.CmsgLen(len(data))))
	binary.NativeEndian.PutUint32(b[8:], uint32(level))
	binary.NativeEndian.PutUint32(b[12:], uint32(typ))
	copy(b[unix.CmsgLen(0):], data)
	return b
}

func pktinfo(is6 bool) []byte {
	if is6 {
		d := make([]byte, unix.SizeofInet6Pktinfo)
		d[15] = 1 // ::1
		binary.NativeEndian.PutUint32(d[16:], 1)
		return cmsg(unix.IPPROTO_IPV6, unix.IPV6_PKTINFO, d)
	}
	d := make([]byte, unix.SizeofInet4Pktinfo)
	binary.NativeEndian.PutUint32(d[0:], 1)
	copy(d[4:], []byte{127, 0, 0, 1})
	return cmsg(unix.IPPROTO_IP, unix.IP_PKTINFO, d)
}

func groCmsg(g uint16) []byte {
	d := make([]byte, 2)
	binary.NativeEndian.PutUint16(d, g)
	return cmsg(unix.SOL_UDP, unix.UDP_GRO, d)
}

func garbageCmsg() []byte {
	b := make([]byte, 20)
	binary.NativeEndian.PutUint64(b[0:], 1000)
	binary.NativeEndian.PutUint32(b[8:], uint32(unix.SOL_UDP))
	binary.NativeEndian.PutUint32(b[12:], uint32(unix.UDP_GRO))
	return b
}

// parseSendOOB splits the control bytes of a coalesced message into the part
// in front of the first UDP_SEGMENT control message and the UDP_SEGMENT values.
// Anything that is not "prefix + k well-formed UDP_SEGMENT messages" is
// returned as prefix only, so that nothing is lost.
func parseSendOOB(oob []byte) ([]byte, []uint64) {
	gso := []uint64{}
	rem := oob
	first := -1
	for len(rem) > 0 {
		off := len(oob) - len(rem)
		if len(rem) < unix.SizeofCmsghdr {
			return oob, []uint64{}
		}
		hdr, data, rest, err := unix.ParseOneSocketControlMessage(rem)
		if err != nil {
			return oob, []uint64{}
		}
		seg := hdr.Level == unix.SOL_UDP && hdr.Type == unix.UDP_SEGMENT
		if first < 0 && seg {
			first = off
		}
		if first >= 0 {
			if !seg || int(hdr.Len) != unix.CmsgLen(2) || len(data) < 2 {
				return oob, []uint64{}
			}
			gso = append(gso, uint64(binary.NativeEndian.Uint16(data)))
		}
		rem = rest
	}
	if first < 0 {
		return oob, gso
	}
	if first+unix.CmsgSpace(2)*len(gso) != len(oob) { // the real size, not the repo's constant
		return oob, []uint64{}
	}
	return oob[:first], gso
}

// ---------------------------------------------------------------------------
// send cases
// ---------------------------------------------------------------------------

func sendAddr(is6 bool, port int) netip.Addr {
	switch {
	case is6 && port%2 == 1:
		return netip.MustParseAddr("::1")
	case is6:
		return netip.MustParseAddr("2001:db8::7")
	case port%2 == 1:
		return netip.MustParseAddr("127.0.0.1")
	}
	return netip.MustParseAddr("192.0.2.7")
}

func runSend(c *Case) {
	if c.Port <= 0 || c.Port >= addrOther {
		c.Port = 1 + (c.Port&0x7fffffff)%(addrOther-1)
	}
	if len(c.Caps) != len(c.Sizes) {
		caps := make([]int, len(c.Sizes))
		copy(caps, c.Caps)
		c.Caps = caps
	}
	if c.Sizes == nil {
		c.Sizes, c.Caps = []int{}, []int{}
	}
	for i := range c.Sizes {
		if c.Sizes[i] < 0 {
			c.Sizes[i] = 0
		}
		if c.Caps[i] < c.Sizes[i] {
			c.Caps[i] = c.Sizes[i]
		}
	}
	if c.OOBCap < 0 {
		c.OOBCap = 0
	}
	ip := sendAddr(c.Is6, c.Port)
	ua := &net.UDPAddr{IP: ip.AsSlice(), Port: c.Port}
	ep := &conn.StdNetEndpoint{AddrPort: netip.AddrPortFrom(ip, uint16(c.Port))}
	var src []byte
	if c.Sticky {
		src = pktinfo(c.Is6)
	}
	conn.VerifSetEndpointSrc(ep, src)
	bufs := make([][]byte, len(c.Sizes))
	cands := make([]cand, len(c.Sizes))
	for i := range bufs {
		seed := (c.Seed + 37*i) % 256
		b := make([]byte, c.Sizes[i], c.Caps[i])
		for k := range b {
			b[k] = pat(seed, k)
		}
		bufs[i] = b
		cands[i] = cand{seed, c.Sizes[i]}
	}
	nm := len(bufs)
	if nm < 1 {
		nm = 1
	}
	msgs := make([]ipv6.Message, nm)
	for i := range msgs {
		msgs[i].Buffers = make([][]byte, 1)
		msgs[i].OOB = make([]byte, 0, c.OOBCap)
	}
	n := conn.VerifCoalesceMessages(ua, ep, bufs, msgs)
	c.NRet = n
	c.Out = []OutMsg{}

	var b strings.Builder
	is6 := uint64(0)
	if c.Is6 {
		is6 = 1
	}
	b.WriteString("Snd ")
	writeInts(&b, []uint64{is6, uint64(c.OOBCap), uint64(c.Port), uint64(n)})
	b.WriteByte(' ')
	writeInts(&b, bytesAsInts(src))
	b.WriteByte(' ')
	in := make([]uint64, 0, 3*len(bufs))
	for i := range bufs {
		in = append(in, uint64(c.Sizes[i]), uint64(c.Caps[i]), uint64(cands[i].seed))
	}
	writeInts(&b, in)
	b.WriteString(" [")
	for i := 0; i < n && i < len(msgs); i++ {
		if i > 0 {
			b.WriteString(";\n  ")
		}
		m := &msgs[i]
		var data []byte
		capv := 0
		if len(m.Buffers) > 0 {
			data = m.Buffers[0]
			capv = cap(m.Buffers[0])
		}
		addr := addrOther
		if m.Addr == nil {
			addr = 0
		} else if p, ok := m.Addr.(*net.UDPAddr); ok && p == ua {
			addr = c.Port
		}
		pre, gso := parseSendOOB(m.OOB)
		b.WriteString("(")
		writeInts(&b, []uint64{uint64(capv), uint64(addr)})
		b.WriteString(",")
		writeInts(&b, bytesAsInts(pre))
		b.WriteString(",")
		writeInts(&b, gso)
		b.WriteString(",")
		writeInts(&b, encodeRuns(data, cands))
		b.WriteString(")")
		c.Out = append(c.Out, OutMsg{Len: len(data), Cap: capv, GSO: gso, OOBLen: len(m.OOB), Addr: addr})
	}
	b.WriteString("]")
	c.gal = b.String()
}

var palette = []int{1, 2, 3, 16, 32, 92, 148, 255, 256, 512, 1000, 1024, 1280, 1420, 1452, 1500}
var wgSizes = []int{1452, 1452, 1452, 1452, 1452, 1452, 1452, 1420, 148, 92, 32}

func pick(r *rand.Rand, xs []int) int { return xs[r.Intn(len(xs))] }

// generator numbers cycled through by case index; heavy ones (about 64 KB of
// pattern bytes per case) appear once, cheap and branchy ones more often
var sendGenTable = []int{0, 10, 5, 14, 7, 15, 9, 12, 1, 10, 4, 14, 2, 5, 3, 15, 10, 8, 4, 0, 6, 14, 9, 7, 13, 15, 11, 12}

// number of maxpayload cases generated so far in this run
var maxpCount int

func genSend(r *rand.Rand, g int) *Case {
	c := &Case{Kind: "send"}
	c.Is6 = r.Intn(2) == 0
	c.Sticky = r.Intn(2) == 0
	c.Port = 1 + r.Intn(addrOther-1)
	c.Seed = r.Intn(256)
	c.OOBCap = poolOOBCap()
	maxp := maxV4
	if c.Is6 {
		maxp = maxV6
	}
	var sizes, caps []int
	add := func(s, cp int) {
		if cp < s {
			cp = s
		}
		sizes = append(sizes, s)
		caps = append(caps, cp)
	}
	bigCap := func() int {
		switch r.Intn(6) {
		case 0:
			return 1 << 17
		case 1:
			return maxp
		}
		return 65535
	}
	const budget = 60000
	switch sendGenTable[g%len(sendGenTable)] {
	case 0:
		c.Gen = "equal"
		s := pick(r, palette)
		cnt := 2 + r.Intn(127)
		for cnt*s > budget {
			cnt /= 2
		}
		bc := bigCap()
		for i := 0; i < cnt; i++ {
			add(s, bc)
		}
	case 1:
		c.Gen = "shrinking"
		s := 200 + r.Intn(1300)
		cnt := 2 + r.Intn(20)
		for i := 0; i < cnt && s >= 1; i++ {
			add(s, 65535)
			if r.Intn(4) != 0 {
				s -= 1 + r.Intn(1+s/4)
			}
		}
	case 2:
		c.Gen = "growing"
		s := 1 + r.Intn(100)
		cnt := 2 + r.Intn(40)
		for i := 0; i < cnt && s <= 1500; i++ {
			add(s, 65535)
			if r.Intn(4) != 0 {
				s += 1 + r.Intn(60)
			}
		}
	case 3:
		c.Gen = "size1"
		cnt := pick(r, []int{1, 2, 3, 63, 64, 65, 66, 127, 128})
		cp := pick(r, []int{1, 2, 63, 64, 65, 128, 65535})
		for i := 0; i < cnt; i++ {
			add(1, cp)
		}
	case 4:
		c.Gen = "maxpayload"
		// around the limit of EITHER family (a v4 batch must not use the v6 limit
		// and a v6 batch must still merge above the v4 limit), mostly with room
		lim := pick(r, []int{maxp, maxp, maxV4, maxV6})
		half := (lim + 1) / 2
		variants := [][]int{
			{lim}, {lim - 1}, {lim - 100, 100}, {lim - 100, 101}, {half, lim - half}, {half, lim + 1 - half},
			{lim - 200, 100, 100}, {lim - 200, 100, 101}, {lim - 1, 1}, {lim, 1}, {lim - 2, 1, 1}, {lim - 2, 1, 1, 1},
		}
		// every single datagram stays within the family's own maximum (a lone
		// oversized datagram is an input the property does not cover)
		var ok [][]int
		for _, v := range variants {
			fits := true
			for _, s := range v {
				if s > maxp {
					fits = false
				}
			}
			if fits {
				ok = append(ok, v)
			}
		}
		v := ok[r.Intn(len(ok))]
		cp := pick(r, []int{0, lim, 65535, 1 << 17, 1 << 17, 1 << 17, 1 << 17})
		// the first few of every run are fixed: one byte over / exactly at the
		// limit of each family with room to spare, and a v6 batch above the v4 limit
		fixed := []struct {
			is6 bool
			v   []int
		}{
			{false, []int{maxV4 - 100, 101}}, {true, []int{maxV6 - 100, 101}}, {false, []int{maxV4 - 100, 100}},
			{true, []int{maxV4 - 100, 101}}, {false, []int{maxV4, 1}}, {true, []int{maxV6 - 100, 100}},
		}
		if maxpCount < len(fixed) {
			c.Is6, v, cp = fixed[maxpCount].is6, fixed[maxpCount].v, 1<<17
		}
		maxpCount++
		for _, s := range v {
			add(s, cp)
		}
	case 5:
		c.Gen = "caps"
		s := pick(r, []int{1, 7, 32, 100, 148, 500, 1000})
		k := r.Intn(71)
		cnt := 2 + r.Intn(72)
		extra := 0
		if r.Intn(3) == 0 {
			extra = r.Intn(s)
		}
		add(s, s+k*s+extra)
		for i := 1; i < cnt; i++ {
			if r.Intn(8) == 0 {
				add(s, s+r.Intn(4)*s)
			} else {
				add(s, s)
			}
		}
	case 6:
		c.Gen = "caphuge"
		s := pick(r, palette)
		cnt := 2 + r.Intn(100)
		for cnt*s > budget {
			cnt /= 2
		}
		for i := 0; i < cnt; i++ {
			add(s, 1<<17)
		}
	case 7:
		c.Gen = "cross64"
		cnt := pick(r, []int{63, 64, 65, 66, 127, 128})
		s := pick(r, []int{1, 1, 2, 2, 3, 17, 17, 100, 100, 148, 500, 1000, 1023})
		bc := pick(r, []int{65535, 1 << 17})
		for i := 0; i < cnt; i++ {
			add(s, bc)
		}
	case 8:
		c.Gen = "crossmax"
		v := [][2]int{{1024, 66}, {1024, 64}, {1023, 66}, {1400, 48}, {1452, 47}, {4096, 17}, {8192, 9}, {16384, 5}, {32768, 3}, {1500, 45}}[r.Intn(10)]
		bc := pick(r, []int{65535, 1 << 17, 1 << 17})
		for i := 0; i < v[1]; i++ {
			add(v[0], bc)
		}
		if r.Intn(2) == 0 {
			add(1+r.Intn(v[0]), bc)
		}
	case 9:
		c.Gen = "shorttail"
		a := pick(r, []int{32, 92, 148, 700, 1280, 1452})
		total := 0
		for len(sizes) < 128 && total < budget/2 {
			k := 1 + r.Intn(6)
			for i := 0; i < k && len(sizes) < 128; i++ {
				add(a, 65535)
				total += a
			}
			if r.Intn(5) == 0 {
				break
			}
			if len(sizes) < 128 {
				add(1+r.Intn(a), 65535)
			}
		}
	case 10, 11:
		c.Gen = "mix"
		small := []int{32, 92, 148, 1280, 1452}
		cur := pick(r, small)
		cnt := 1 + r.Intn(128)
		total := 0
		for i := 0; i < cnt && total < 2*budget/3; i++ {
			switch x := r.Intn(10); {
			case x < 6:
			case x < 8:
				cur = 1 + r.Intn(cur)
			default:
				cur = pick(r, small)
			}
			cp := 65535
			if r.Intn(5) == 0 {
				cp = cur
			} else if r.Intn(10) == 0 {
				cp = cur + r.Intn(5)*cur
			}
			add(cur, cp)
			total += cur
		}
	case 12:
		c.Gen = "wg"
		cnt := 1 + r.Intn(30)
		if r.Intn(5) == 0 {
			cnt = pick(r, []int{44, 45, 46, 64, 100, 128, 1 + r.Intn(128)})
		}
		for i := 0; i < cnt; i++ {
			add(pick(r, wgSizes), 65535)
		}
	case 14:
		// neighbours: sizes one byte around the segment size, capacity one
		// byte around what the run needs
		c.Gen = "offbyone"
		base := pick(r, []int{2, 3, 16, 100, 148, 1000, 1452})
		cnt := 3 + r.Intn(40)
		for cnt*base > budget {
			cnt /= 2
		}
		need := base * (2 + r.Intn(6))
		firstCap := pick(r, []int{need - 1, need, need + 1, 65535, 65535})
		for i := 0; i < cnt; i++ {
			sz := base
			switch r.Intn(6) {
			case 0:
				sz = base + 1
			case 1:
				sz = base - 1
			}
			cp := 65535
			if i == 0 || r.Intn(8) == 0 {
				cp = firstCap
			}
			add(sz, cp)
		}
	case 15:
		// zero-length datagrams are in the property's domain since ba89367:
		// at the start, inside and after equal runs, doubled, at the end
		c.Gen = "withzero"
		base := pick(r, []int{1, 2, 32, 100, 148, 1452})
		cnt := 2 + r.Intn(30)
		for i := 0; i < cnt; i++ {
			sz := base
			switch r.Intn(8) {
			case 0, 1:
				sz = 0
			case 2:
				sz = 1 + r.Intn(base)
			}
			if (i == 0 || i == cnt-1) && r.Intn(3) == 0 {
				sz = 0
			}
			cp := pick(r, []int{65535, 65535, 65535, sz, 0})
			add(sz, cp)
			if sz == 0 && r.Intn(4) == 0 {
				add(0, 65535)
			}
		}
	default:
		c.Gen = "wg-bulk"
		cnt := 1 + r.Intn(20)
		if r.Intn(4) == 0 {
			cnt = pick(r, []int{44, 45, 46, 47, 64, 65, 90, 91, 128})
		}
		for i := 0; i < cnt-1; i++ {
			add(1452, 65535)
		}
		add(pick(r, []int{1452, 148, 92, 32, 1 + r.Intn(1452)}), 65535)
	}
	if len(sizes) == 0 {
		add(1, 1)
	}
	if len(sizes) > idealBatch {
		sizes, caps = sizes[:idealBatch], caps[:idealBatch]
	}
	c.Sizes, c.Caps = sizes, caps
	if r.Intn(20) == 0 {
		srcLen := 0
		if c.Sticky {
			srcLen = len(pktinfo(c.Is6))
		}
		c.OOBCap = pick(r, []int{0, 23, 24, srcLen, srcLen + 23})
		c.Gen += "/smalloob"
	}
	return c
}

func unitSend() []*Case {
	vec := [][][2]int{
		{{1, 1}},
		{{1, 2}, {1, 1}},
		{{2, 3}, {1, 1}},
		{{2, 3}, {1, 1}, {2, 2}},
		{{2, 4}, {2, 2}, {2, 2}},
	}
	var out []*Case
	for i, v := range vec {
		c := &Case{Kind: "send", Gen: fmt.Sprintf("unit-send-%d", i+1), Port: 1, Seed: 10 * i, OOBCap: poolOOBCap()}
		for _, sc := range v {
			c.Sizes = append(c.Sizes, sc[0])
			c.Caps = append(c.Caps, sc[1])
		}
		out = append(out, c)
	}
	return out
}

func f4Send() *Case {
	return &Case{Kind: "send", Gen: "zero-length-send", Port: 51821, Seed: 5, OOBCap: poolOOBCap(),
		Sizes: []int{100, 100, 0, 100, 50}, Caps: []int{65535, 65535, 65535, 65535, 65535}}
}

// ---------------------------------------------------------------------------
// receive cases
// ---------------------------------------------------------------------------

func callSplit(msgs []ipv6.Message, first int) (n, status int) {
	defer func() {
		if r := recover(); r != nil {
			n, status = -1, 3
		}
	}()
	n, err := conn.VerifSplitCoalescedMessages(msgs, first)
	switch {
	case err == nil:
		status = 0
	case strings.Contains(err.Error(), "overflow"):
		status = 1
	default:
		status = 2
	}
	return n, status
}

func runRecv(c *Case) {
	if len(c.Slots) != c.L {
		c.L = len(c.Slots)
	}
	if c.First < 0 {
		c.First = 0
	}
	if c.First > c.L {
		c.First = c.L
	}
	if c.BufLen < 0 {
		c.BufLen = 0
	}
	msgs := make([]ipv6.Message, c.L)
	inputs := make([][]byte, c.L)
	ctls := make([]int, c.L)
	var cands []cand
	for i := range c.Slots {
		s := &c.Slots[i]
		if s.Sizes == nil {
			s.Sizes = []int{}
		}
		if len(s.Seeds) != len(s.Sizes) {
			seeds := make([]int, len(s.Sizes))
			copy(seeds, s.Seeds)
			s.Seeds = seeds
		}
		if s.N < 0 {
			s.N = 0
		}
		if s.Port < 0 || s.Port >= addrOther {
			s.Port = 0
		}
		bl := c.BufLen
		if s.BufLen > 0 {
			bl = s.BufLen
		}
		buf := make([]byte, bl)
		for k := range buf {
			buf[k] = fillByte
		}
		p := 0
		for d, sz := range s.Sizes {
			if sz < 0 {
				sz = 0
				s.Sizes[d] = 0
			}
			s.Seeds[d] &= 255
			for k := 0; k < sz && p+k < bl; k++ {
				buf[p+k] = pat(s.Seeds[d], k)
			}
			p += sz
			cands = append(cands, cand{s.Seeds[d], sz})
		}
		var ctl []byte
		if s.PktInfo {
			ctl = append(ctl, pktinfo(false)...)
		}
		switch {
		case s.GSO > 0 && s.CInt:
			d := make([]byte, 4)
			binary.NativeEndian.PutUint32(d, uint32(s.GSO))
			ctl = append(ctl, cmsg(unix.SOL_UDP, unix.UDP_GRO, d)...)
		case s.GSO > 0:
			ctl = append(ctl, groCmsg(uint16(s.GSO))...)
		case s.GSO == -1:
			ctl = append(ctl, garbageCmsg()...)
		case s.GSO == -2:
			ctl = append(ctl, groCmsg(0)...)
		}
		oob := make([]byte, poolOOBCap()+len(ctl))
		copy(oob, ctl)
		msgs[i] = ipv6.Message{Buffers: [][]byte{buf}, OOB: oob, N: s.N, NN: len(ctl)}
		if s.Port != 0 {
			msgs[i].Addr = &net.UDPAddr{IP: net.IPv4(127, 0, 0, 1).To4(), Port: s.Port}
		}
		// The model is told what the control message SAYS (the segment size put
		// into it, 0 without one, an error for the malformed one), not what the
		// real getGSOSize makes of it: a parser defect must show as a difference.
		switch {
		case s.GSO > 0:
			ctls[i] = s.GSO & 0xffff
		case s.GSO == -1:
			ctls[i] = ctlError
		default:
			ctls[i] = 0
		}
		inputs[i] = append([]byte(nil), buf...)
	}
	n, status := callSplit(msgs, c.First)
	if status == 3 {
		// the count at the time of the panic is not returned; the slots in
		// front of firstMsgAt start without an address, written ones have one
		n = 0
		for n < c.First && msgs[n].Addr != nil {
			n++
		}
	}
	c.NRet, c.Status = n, status
	c.OutN = make([]int, c.L)

	var b strings.Builder
	he := uint64(0)
	if c.Expect != nil {
		he = 1
	}
	b.WriteString("Rcv ")
	writeInts(&b, []uint64{uint64(c.First), he, uint64(n), uint64(status)})
	b.WriteString(" [")
	for i := range c.Slots {
		if i > 0 {
			b.WriteString(";")
		}
		b.WriteString("(")
		writeInts(&b, []uint64{uint64(c.Slots[i].N), uint64(ctls[i]), uint64(c.Slots[i].Port)})
		b.WriteString(",")
		writeInts(&b, encodeRuns(inputs[i], cands))
		b.WriteString(")")
	}
	b.WriteString("]\n  ")
	exp := make([]uint64, 0, 3*len(c.Expect))
	for _, e := range c.Expect {
		exp = append(exp, uint64(e[0]), uint64(e[1]), uint64(e[2]))
	}
	writeInts(&b, exp)
	b.WriteString("\n  [")
	for i := range msgs {
		if i > 0 {
			b.WriteString(";")
		}
		m := &msgs[i]
		nn := m.N
		if nn < 0 {
			nn = 0
		}
		c.OutN[i] = m.N
		addr := 0
		if m.Addr != nil {
			addr = addrOther
			if p, ok := m.Addr.(*net.UDPAddr); ok {
				addr = p.Port
			}
		}
		var head []byte
		if len(m.Buffers) > 0 {
			head = m.Buffers[0]
		}
		if nn < len(head) {
			head = head[:nn]
		}
		b.WriteString("(")
		writeInts(&b, []uint64{uint64(nn), 0, uint64(addr)})
		b.WriteString(",")
		writeInts(&b, encodeRuns(head, cands))
		b.WriteString(")")
	}
	b.WriteString("]")
	c.gal = b.String()
}

type train struct {
	port    int
	sizes   []int
	pktinfo bool
}

func emptySlot() Slot { return Slot{Sizes: []int{}, Seeds: []int{}} }

// trainCase lays trains out from slot f on; with expectation.
func trainCase(gen string, L, f, buflen, seedBase int, trains []train) *Case {
	c := &Case{Kind: "recv", Gen: gen, L: L, First: f, BufLen: buflen, Expect: [][3]int{}}
	c.Slots = make([]Slot, L)
	for i := range c.Slots {
		c.Slots[i] = emptySlot()
	}
	d := 0
	for t, tr := range trains {
		s := &c.Slots[f+t]
		s.Port = tr.port
		s.PktInfo = tr.pktinfo
		for _, sz := range tr.sizes {
			seed := (seedBase + 37*d) % 256
			d++
			s.Sizes = append(s.Sizes, sz)
			s.Seeds = append(s.Seeds, seed)
			s.N += sz
			c.Expect = append(c.Expect, [3]int{sz, seed, tr.port})
		}
		if len(tr.sizes) >= 2 {
			s.GSO = tr.sizes[0]
			s.CInt = (seedBase+t)%2 == 0
		}
		// the slot the kernel filled holds the whole train; the other slots
		// only ever receive single datagrams
		if s.N > buflen {
			s.BufLen = s.N + seedBase%9
		}
	}
	return c
}

func genTrain(r *rand.Rand, maxSize int) train {
	k := pick(r, []int{1, 1, 1, 2, 2, 3, 5, 16, 63, 64, 1 + r.Intn(64)})
	sp := []int{1, 2, 16, 32, 92, 148, 300, 1 + r.Intn(300)}
	if maxSize >= 1452 {
		sp = append(sp, 1280, 1420, 1452)
	}
	s := pick(r, sp)
	for k*s > 65000 {
		k-- // a GRO skb stays below 64 KB
	}
	if k*s > 20000 && r.Intn(5) != 0 {
		k = 20000 / s
	}
	tr := train{port: 1 + r.Intn(addrOther-1), pktinfo: r.Intn(3) == 0}
	for i := 0; i < k-1; i++ {
		tr.sizes = append(tr.sizes, s)
	}
	last := s
	if r.Intn(2) == 0 {
		last = 1 + r.Intn(s)
	}
	tr.sizes = append(tr.sizes, last)
	return tr
}

func maxSizeOf(trains []train) int {
	m := 1
	for _, t := range trains {
		for _, s := range t.sizes {
			if s > m {
				m = s
			}
		}
	}
	return m
}

// minFirst is the smallest firstMsgAt without overflow: for every train t,
// datagrams of trains 0..t <= f + t + 1.
func minFirst(trains []train) int {
	f, cum := 0, 0
	for t, tr := range trains {
		cum += len(tr.sizes)
		if cum-t-1 > f {
			f = cum - t - 1
		}
	}
	return f
}

const numRecvGens = 16

func genRecv(r *rand.Rand, g int) *Case {
	seedBase := r.Intn(256)
	port := func() int { return 1 + r.Intn(addrOther-1) }
	mk := func(gen string, L, f, buflen int, slots map[int]Slot) *Case {
		c := &Case{Kind: "recv", Gen: gen, L: L, First: f, BufLen: buflen, Slots: make([]Slot, L)}
		for i := range c.Slots {
			c.Slots[i] = emptySlot()
			if s, ok := slots[i]; ok {
				c.Slots[i] = s
			}
		}
		return c
	}
	// a slot holding datagrams of the given sizes (seeds numbered from d0)
	dg := func(d0 int, gso int, sizes ...int) Slot {
		s := Slot{GSO: gso, Port: port(), Sizes: sizes, Seeds: []int{}}
		for i, sz := range sizes {
			s.Seeds = append(s.Seeds, (seedBase+37*(d0+i))%256)
			s.N += sz
		}
		return s
	}
	switch g % numRecvGens {
	case 0, 1:
		// the layout of receiveIP: 128 slots, read at 126
		big := 300
		if r.Intn(4) == 0 {
			big = 1452
		}
		trains := []train{genTrain(r, big)}
		if r.Intn(3) != 0 {
			trains = append(trains, genTrain(r, big))
		}
		return trainCase("real-layout", idealBatch, idealBatch-idealBatch/maxSegs, maxSizeOf(trains)+r.Intn(9), seedBase, trains)
	case 2, 3, 4, 5:
		nt := 1 + r.Intn(4)
		var trains []train
	again:
		trains = trains[:0]
		for i := 0; i < nt; i++ {
			tr := genTrain(r, 1452)
			if len(tr.sizes) > 12 && r.Intn(2) == 0 {
				tr.sizes = tr.sizes[len(tr.sizes)-(2+r.Intn(8)):]
			}
			if i > 0 && r.Intn(4) == 0 {
				tr.port = trains[i-1].port
			}
			trains = append(trains, tr)
		}
		f := minFirst(trains)
		if r.Intn(2) == 0 {
			f += r.Intn(4)
		}
		L := f + nt + r.Intn(4)
		if L*(maxSizeOf(trains)+8) > 150000 {
			goto again
		}
		return trainCase("small-layout", L, f, maxSizeOf(trains)+r.Intn(9), seedBase, trains)
	case 6:
		// no GRO at all: single datagrams
		nt := 1 + r.Intn(10)
		var trains []train
		for i := 0; i < nt; i++ {
			trains = append(trains, train{port: port(), sizes: []int{pick(r, []int{1, 32, 92, 148, 1452, 1 + r.Intn(1500)})}, pktinfo: r.Intn(2) == 0})
		}
		f := r.Intn(3)
		return trainCase("singles", f+nt+r.Intn(3), f, maxSizeOf(trains)+r.Intn(9), seedBase, trains)
	case 7:
		// destination slots shorter than a segment: copy truncates
		c := mk("weird-truncate", 5, 3, 0, map[int]Slot{3: dg(0, 40, 40, 40, 25), 4: dg(3, 0, 70)})
		for i := range c.Slots {
			c.Slots[i].BufLen = pick(r, []int{8, 10, 39, 40, 64})
		}
		c.Slots[3].BufLen, c.Slots[4].BufLen = 128, 128
		return c
	case 8:
		k := 3 + r.Intn(6)
		f := 1 + r.Intn(k-2)
		sizes := make([]int, k)
		for i := range sizes {
			sizes[i] = 20
		}
		return mk("weird-overflow", f+1+r.Intn(2), f, 20*k+4, map[int]Slot{f: dg(0, 20, sizes...)})
	case 9:
		s := dg(0, 0, 50)
		s.GSO = 51 + r.Intn(49)
		return mk("weird-gso-gt-n", 3, 1, 100, map[int]Slot{1: s, 2: dg(1, 0, 30)})
	case 10:
		bad := dg(2, 0, 33)
		bad.GSO = -1
		if r.Intn(2) == 0 {
			return mk("weird-errcmsg", 4, 2, 64, map[int]Slot{2: bad, 3: dg(3, 0, 20)})
		}
		return mk("weird-errcmsg", 4, 2, 64, map[int]Slot{2: dg(0, 16, 16, 16), 3: bad})
	case 11:
		hole := emptySlot()
		if r.Intn(2) == 0 {
			hole.Port = port()
		}
		return mk("weird-hole", 6, 2, 80, map[int]Slot{2: dg(0, 30, 30, 30, 7), 3: hole, 4: dg(3, 0, 41)})
	case 12:
		// slice bounds out of range: segment size beyond the buffer, or N beyond it
		if r.Intn(2) == 0 {
			s := dg(1, 0, 90)
			s.GSO = 101 + r.Intn(400)
			return mk("weird-panic-gso", 4, 2, 100, map[int]Slot{2: dg(0, 0, 12), 3: s})
		}
		s := dg(0, 0, 100)
		s.N = 101 + r.Intn(100)
		if r.Intn(2) == 0 {
			s.GSO = 30
		}
		return mk("weird-panic-n", 4, 3, 100, map[int]Slot{3: s})
	case 13:
		s := dg(0, -2, 60)
		c := mk("zero-gro-value", 3, 1, 64, map[int]Slot{1: s})
		c.Expect = [][3]int{{60, s.Seeds[0], s.Port}}
		return c
	case 14:
		s := dg(0, 0, 60, 40)
		s.GSO = pick(r, []int{1, 7, 30, 59, 61, 99, 100})
		c := mk("weird-misaligned", 20, 19, 100, map[int]Slot{19: s})
		if r.Intn(2) == 0 {
			c.First = 3 // too little room for most segment sizes
			c.Slots[3], c.Slots[19] = c.Slots[19], emptySlot()
		}
		return c
	default:
		c := mk("weird-first-at-end", 3, 3, 32, map[int]Slot{1: dg(0, 0, 9), 2: dg(1, 4, 4, 4)})
		if r.Intn(2) == 0 {
			c.First = 2
			c.Gen = "weird-n-lt-sum"
			c.Slots[2].N = 5 // N smaller than the content
		}
		return c
	}
}

// bigRecv: trains whose segment size lies around 2^15 and near the maximum
// payload (the UDP_GRO value is a 16-bit quantity in a C int), control message
// written both ways.
func bigRecv() []*Case {
	var out []*Case
	for k, sizes := range [][]int{{32767, 32740}, {32768, 32739}, {32769, 100}, {40000, 20000}, {65000, 507}, {65506, 1}, {16384, 16384, 16384, 16355}} {
		c := trainCase("big-segment", 3, 1, sizes[0]+8, 11*k, []train{{port: 4000 + k, sizes: sizes}})
		c.Slots[1].CInt = k%2 == 0
		if len(sizes) > 2 {
			c = trainCase("big-segment", 5, 3, sizes[0]+8, 11*k, []train{{port: 4000 + k, sizes: sizes}})
			c.Slots[3].CInt = true
		}
		out = append(out, c)
	}
	return out
}

func unitRecv() []*Case {
	type s struct{ n, gso int }
	vec := [][]s{
		{{0, 0}, {0, 0}, {3, 1}, {0, 0}},
		{{0, 0}, {0, 0}, {1, 0}, {0, 0}},
		{{0, 0}, {0, 0}, {1, 0}, {1, 0}},
		{{0, 0}, {0, 0}, {1, 0}, {3, 1}},
		{{0, 0}, {0, 0}, {2, 1}, {2, 1}},
		{{0, 0}, {0, 0}, {1, 0}, {4, 1}},
	}
	var out []*Case
	for i, v := range vec {
		c := &Case{Kind: "recv", Gen: fmt.Sprintf("unit-recv-%d", i+1), L: 4, First: 2, BufLen: 16, Expect: [][3]int{}}
		d := 0
		for j, x := range v {
			sl := emptySlot()
			sl.N, sl.GSO = x.n, x.gso
			if x.n > 0 {
				sl.Port = 100 + j
			}
			for k := 0; k < x.n; k++ {
				seed := (7*i + 37*d) % 256
				d++
				sl.Sizes = append(sl.Sizes, 1)
				sl.Seeds = append(sl.Seeds, seed)
				c.Expect = append(c.Expect, [3]int{1, seed, sl.Port})
			}
			c.Slots = append(c.Slots, sl)
		}
		if i == 5 {
			c.Expect = nil // overflow
		}
		out = append(out, c)
	}
	return out
}

func f4Recv() *Case {
	c := &Case{Kind: "recv", Gen: "f4-zero-length-recv", L: 4, First: 2, BufLen: 88}
	c.Slots = []Slot{emptySlot(), emptySlot(),
		{N: 0, Port: 4242, Sizes: []int{0}, Seeds: []int{11}},
		{N: 80, Port: 4343, Sizes: []int{80}, Seeds: []int{48}}}
	c.Expect = [][3]int{{0, 11, 4242}, {80, 48, 4343}}
	return c
}

// ---------------------------------------------------------------------------
// loopback
// ---------------------------------------------------------------------------

type lbFailure struct {
	Family    string `json:"family"`
	Pass      string `json:"pass"`
	Sizes     []int  `json:"sizes"`
	Caps      []int  `json:"caps"`
	GotSizes  []int  `json:"got_sizes"`
	FirstDiff int    `json:"first_diff"`
	Error     string `json:"error"`
	Sticky    bool   `json:"sticky,omitempty"` // endpoint carried a sticky source (wire passes)
	Oracle    []int  `json:"oracle,omitempty"` // wire_partial: messages accepted per WriteBatch call
	// sequential passes: the steps up to and including the failing one
	Script []lbStep `json:"script,omitempty"`
}

// one step of a sequential script: bind From (0 or 1) sends Sizes to the other
type lbStep struct {
	From  int   `json:"from"`
	Sizes []int `json:"sizes"`
}

type lbFam struct {
	Skipped   string      `json:"skipped"`
	Batches   int         `json:"batches"`
	Datagrams int         `json:"datagrams"`
	Retried   int         `json:"retried"`
	Failures  []lbFailure `json:"failures"`
}

type lbFlags struct {
	Tx4 bool `json:"tx4"`
	Rx4 bool `json:"rx4"`
	Tx6 bool `json:"tx6"`
	Rx6 bool `json:"rx6"`
}

type rxItem struct {
	fam  string
	data []byte
	from string
}

type lbEnv struct {
	pass   string
	a, b   conn.Bind
	portA  uint16
	portB  uint16
	flagsA lbFlags
	flagsB lbFlags
	ch     chan rxItem
	wg     sync.WaitGroup
	id     uint16
	stray  int
	after  lbFlags // sender flags at the end of the pass (a failed GSO send clears tx)

	pmu     sync.Mutex
	rxPanic string // a receive function of b panicked (the real code, not the harness)

	lossOnly bool // last attempt: what arrived is what was sent minus some datagrams
}

// an empty datagram delivered by a bind has no endpoint (receiveIP skips it)
func badFrom(g rxItem, from string) bool {
	return g.from != from && !(len(g.data) == 0 && g.from == "")
}

// compareRx: index of the first difference between what was sent and what
// arrived (-1 none) and whether the difference is pure loss (the received
// sequence is a subsequence of the sent one, right sender): only that can be
// blamed on the network; an extra, altered, merged or reordered datagram cannot.
func compareRx(want [][]byte, got []rxItem, from string) (int, bool) {
	diff := -1
	for i := 0; i < len(want) || i < len(got); i++ {
		if i >= len(want) || i >= len(got) || !bytes.Equal(want[i], got[i].data) || badFrom(got[i], from) {
			diff = i
			break
		}
	}
	if diff < 0 {
		return -1, true
	}
	j := 0
	for _, g := range got {
		if badFrom(g, from) {
			return diff, false
		}
		for j < len(want) && !bytes.Equal(want[j], g.data) {
			j++
		}
		if j == len(want) {
			return diff, false
		}
		j++
	}
	return diff, true
}

func (e *lbEnv) panicked() string {
	e.pmu.Lock()
	defer e.pmu.Unlock()
	return e.rxPanic
}

func flagsOf(b conn.Bind) lbFlags {
	var f lbFlags
	f.Tx4, f.Rx4, f.Tx6, f.Rx6 = conn.VerifOffload(b)
	return f
}

func openPair(pass string) (*lbEnv, error) {
	e := &lbEnv{pass: pass, ch: make(chan rxItem, 8192)}
	e.a = conn.NewStdNetBind()
	_, pa, err := e.a.Open(0)
	if err != nil {
		return nil, fmt.Errorf("open sender: %w", err)
	}
	e.b = conn.NewStdNetBind()
	// asym_rx4off / asym_rx6off: the receiving bind is opened with UDP_GRO switched
	// off on one of its two sockets (what Open sees on a host whose families differ)
	if off := asymNetwork(pass); off != "" {
		conn.VerifSetListenHook(func(network string, fd uintptr) {
			if network == off {
				unix.SetsockoptInt(int(fd), unix.IPPROTO_UDP, unix.UDP_GRO, 0)
			}
		})
	}
	fns, pb, err := e.b.Open(0)
	conn.VerifSetListenHook(nil)
	if err != nil {
		e.a.Close()
		return nil, fmt.Errorf("open receiver: %w", err)
	}
	e.portA, e.portB = pa, pb
	e.flagsA, e.flagsB = flagsOf(e.a), flagsOf(e.b)
	if pass == "nooffload" {
		fns2, err := conn.VerifDisableOffload(e.b)
		if err == nil {
			_, err = conn.VerifDisableOffload(e.a)
		}
		if err != nil {
			e.a.Close()
			e.b.Close()
			return nil, fmt.Errorf("disable offload: %w", err)
		}
		fns = fns2
	}
	batch := e.b.BatchSize()
	for idx, fn := range fns {
		fam := "v4"
		if idx == 1 {
			fam = "v6"
		}
		e.wg.Add(1)
		go func(fn conn.ReceiveFunc, fam string) {
			defer e.wg.Done()
			defer func() {
				if r := recover(); r != nil {
					e.pmu.Lock()
					if e.rxPanic == "" {
						e.rxPanic = fmt.Sprintf("receive function (%s) panicked: %v", fam, r)
					}
					e.pmu.Unlock()
				}
			}()
			bufs := make([][]byte, batch)
			for i := range bufs {
				bufs[i] = make([]byte, 65535)
			}
			sizes := make([]int, batch)
			eps := make([]conn.Endpoint, batch)
			for {
				n, err := fn(bufs, sizes, eps)
				if err != nil {
					return
				}
				for i := 0; i < n; i++ {
					it := rxItem{fam: fam}
					if sizes[i] > 0 {
						if eps[i] != nil {
							it.from = eps[i].DstToString()
							if eps[i].DstIP().Is4() {
								fam = "v4"
							} else {
								fam = "v6"
							}
							it.fam = fam
						}
						it.data = append([]byte{}, bufs[i][:sizes[i]]...)
					}
					e.ch <- it
					eps[i] = nil
				}
			}
		}(fn, fam)
	}
	return e, nil
}

func (e *lbEnv) close() {
	e.after = flagsOf(e.a)
	e.b.Close()
	e.a.Close()
	done := make(chan struct{})
	go func() { e.wg.Wait(); close(done) }()
	for {
		select {
		case <-e.ch:
		case <-done:
			return
		case <-time.After(2 * time.Second):
			return
		}
	}
}

func (e *lbEnv) drain() {
	for {
		select {
		case <-e.ch:
			e.stray++
		default:
			return
		}
	}
}

func (e *lbEnv) endpoint(fam string) (conn.Endpoint, string, error) {
	if fam == "v6" {
		ep, err := e.a.ParseEndpoint(fmt.Sprintf("[::1]:%d", e.portB))
		return ep, fmt.Sprintf("[::1]:%d", e.portA), err
	}
	ep, err := e.a.ParseEndpoint(fmt.Sprintf("127.0.0.1:%d", e.portB))
	return ep, fmt.Sprintf("127.0.0.1:%d", e.portA), err
}

// collect gathers what arrives for fam until want non-empty datagrams are
// there (then a short look for surplus ones) or nothing came for 300 ms.
func (e *lbEnv) collect(fam string, want int) []rxItem {
	var got []rxItem
	cnt := 0
	for {
		wait := 300 * time.Millisecond
		if cnt >= want {
			wait = 2 * time.Millisecond
		}
		select {
		case it := <-e.ch:
			if it.fam != fam {
				e.stray++
				continue
			}
			got = append(got, it)
			if len(it.data) > 0 {
				cnt++
			}
		case <-time.After(wait):
			return got
		}
	}
}

// attempt sends one batch and returns the received sizes, the index of the
// first difference (-1: none) and the error text of Send.
func (e *lbEnv) attempt(fam string, sizes, caps []int, keepEmpty bool) ([]int, int, string) {
	e.drain()
	e.id++
	id := e.id
	ep, from, err := e.endpoint(fam)
	if err != nil {
		return []int{}, 0, "ParseEndpoint: " + err.Error()
	}
	bufs := make([][]byte, len(sizes))
	want := make([][]byte, 0, len(sizes))
	for i, s := range sizes {
		cp := s
		if i < len(caps) && caps[i] > s {
			cp = caps[i]
		}
		b := make([]byte, s, cp)
		seed := (int(id)*7 + 37*i) % 256
		for k := range b {
			b[k] = pat(seed, k)
		}
		if s >= 4 {
			binary.BigEndian.PutUint16(b, id)
			binary.BigEndian.PutUint16(b[2:], uint16(i))
		}
		bufs[i] = b
		if s > 0 || keepEmpty {
			want = append(want, append([]byte{}, b...))
		}
	}
	errText := ""
	if err := e.a.Send(bufs, ep); err != nil {
		errText = err.Error()
	}
	items := e.collect(fam, len(want))
	gotSizes := []int{}
	var got []rxItem
	for _, it := range items {
		if len(it.data) == 0 && !keepEmpty {
			continue
		}
		got = append(got, it)
		gotSizes = append(gotSizes, len(it.data))
	}
	diff, lossOnly := compareRx(want, got, from)
	e.lossOnly = lossOnly
	if p := e.panicked(); p != "" {
		if errText != "" {
			errText += "; "
		}
		errText += p
	}
	if diff < 0 && errText != "" {
		diff = len(want)
	}
	return gotSizes, diff, errText
}

// runBatch applies the one-retry rule; nil = fine.
func (e *lbEnv) runBatch(fam string, sizes, caps []int, res *lbFam) {
	res.Batches++
	res.Datagrams += len(sizes)
	got, diff, errText := e.attempt(fam, sizes, caps, false)
	if diff < 0 {
		return
	}
	if e.lossOnly && errText == "" {
		// loopback loss is possible in principle: one retry, only a persistent difference counts
		res.Retried++
		got, diff, errText = e.attempt(fam, sizes, caps, false)
		if diff < 0 {
			return
		}
	}
	res.Failures = append(res.Failures, lbFailure{Family: fam, Pass: e.pass, Sizes: sizes, Caps: caps, GotSizes: got, FirstDiff: diff, Error: errText})
}

func (e *lbEnv) usable(fam string) string {
	if e.pass == "offload" {
		tx, rx := e.flagsA.Tx4, e.flagsB.Rx4
		if fam == "v6" {
			tx, rx = e.flagsA.Tx6, e.flagsB.Rx6
		}
		if !tx || !rx {
			return fmt.Sprintf("offload not available for %s: sender tx=%v receiver rx=%v", fam, tx, rx)
		}
	}
	// a single small datagram must make it, otherwise the family is unusable here
	var last string
	for try := 0; try < 2; try++ {
		got, diff, errText := e.attempt(fam, []int{16}, []int{16}, false)
		if diff < 0 {
			return ""
		}
		last = fmt.Sprintf("probe datagram not delivered (got %v, error %q)", got, errText)
	}
	return last
}

type lbBatch struct{ sizes, caps []int }

func genBatches(seed int64, count int) []lbBatch {
	r := rand.New(rand.NewSource(seed*7919 + 18))
	var out []lbBatch
	fixed := []int{1, 2, 63, 64, 65, 127, 128}
	// segment sizes around 2^15 and at the maximum payload: runs of exactly two
	big := [][]int{{40000, 20000}, {32768, 32739}, {32767, 32740}, {32769, 100}, {65000, 507}, {65507}}
	for len(out) < count {
		i := len(out)
		if j := i - len(fixed); j >= 0 && j < len(big) {
			caps := make([]int, len(big[j]))
			for k := range caps {
				caps[k] = 1 << 17
			}
			out = append(out, lbBatch{big[j], caps})
			continue
		}
		var sizes []int
		cnt := 1 + r.Intn(128)
		if i < len(fixed) {
			cnt = fixed[i]
		}
		mode := r.Intn(8)
		if i < len(fixed) {
			mode = 0
		}
		switch mode {
		case 0:
			s := pick(r, []int{4, 32, 92, 148, 1000, 1280, 1452})
			for k := 0; k < cnt; k++ {
				sizes = append(sizes, s)
			}
		case 1:
			s := 300 + r.Intn(1100)
			for k := 0; k < cnt && s >= 4; k++ {
				sizes = append(sizes, s)
				if r.Intn(3) != 0 {
					s -= 1 + r.Intn(40)
				}
			}
		case 2:
			s := 4 + r.Intn(60)
			for k := 0; k < cnt && s <= 1452; k++ {
				sizes = append(sizes, s)
				if r.Intn(3) != 0 {
					s += 1 + r.Intn(40)
				}
			}
		case 3, 4:
			for k := 0; k < cnt; k++ {
				sizes = append(sizes, pick(r, []int{1452, 1452, 1452, 1452, 148, 92, 32}))
			}
		case 5:
			for k := 0; k < cnt; k++ {
				sizes = append(sizes, 4+r.Intn(1397))
			}
		case 6:
			// equal runs with short tails
			a := pick(r, []int{92, 148, 1280, 1452})
			for len(sizes) < cnt {
				for k := 1 + r.Intn(70); k > 0 && len(sizes) < cnt; k-- {
					sizes = append(sizes, a)
				}
				if len(sizes) < cnt {
					sizes = append(sizes, 4+r.Intn(a-3))
				}
			}
		default:
			// a few large ones
			total := 0
			cnt = 1 + r.Intn(24)
			for k := 0; k < cnt && total < 900000; k++ {
				s := pick(r, []int{60000, 32768, 20000, 9000, 4096, 4 + r.Intn(60000)})
				if r.Intn(2) == 0 && k > 0 {
					s = sizes[k-1]
				}
				sizes = append(sizes, s)
				total += s
			}
		}
		caps := make([]int, len(sizes))
		tight := r.Intn(5) == 0
		for k, s := range sizes {
			caps[k] = 65535
			if tight || r.Intn(12) == 0 {
				caps[k] = s
			}
		}
		out = append(out, lbBatch{sizes, caps})
	}
	return out
}

func skippedFam(why string) *lbFam { return &lbFam{Skipped: why, Failures: []lbFailure{}} }

func loopbackPass(pass string, batches []lbBatch, withF4 bool) (map[string]*lbFam, *lbEnv, map[string]any) {
	res := map[string]*lbFam{}
	e, err := openPair(pass)
	if err != nil {
		res["v4"], res["v6"] = skippedFam(err.Error()), skippedFam(err.Error())
		return res, nil, nil
	}
	defer e.close()
	var f4 map[string]any
	for _, fam := range []string{"v4", "v6"} {
		if why := e.usable(fam); why != "" {
			if p := e.panicked(); p != "" {
				// the code under test crashed on a 16-byte datagram: a difference, never "skipped"
				res[fam] = &lbFam{Batches: 1, Datagrams: 1, Failures: []lbFailure{{Family: fam, Pass: pass,
					Sizes: []int{16}, Caps: []int{16}, GotSizes: []int{}, FirstDiff: 0, Error: p}}}
				continue
			}
			res[fam] = skippedFam(why)
			continue
		}
		r := &lbFam{Failures: []lbFailure{}}
		for _, b := range batches {
			e.runBatch(fam, b.sizes, b.caps, r)
		}
		res[fam] = r
		if withF4 && fam == "v4" {
			sent := []int{100, 100, 0, 100, 50}
			got, _, errText := e.attempt(fam, sent, []int{65535, 65535, 65535, 65535, 65535}, true)
			f4 = map[string]any{"sent": sent, "received": got, "pass": pass}
			if errText != "" {
				f4["error"] = errText
			}
		}
	}
	return res, e, f4
}

func runLoopback(seed int64, nb int, withF4 bool) (map[string]any, map[string]any) {
	batches := genBatches(seed, nb)
	lb := map[string]any{}
	var f4 map[string]any
	for _, pass := range []string{"offload", "nooffload"} {
		res, e, f := loopbackPass(pass, batches, withF4 && pass == "offload")
		lb[pass] = res
		if e != nil && pass == "offload" {
			lb["flags"] = lbFlags{Tx4: e.flagsA.Tx4, Rx4: e.flagsB.Rx4, Tx6: e.flagsA.Tx6, Rx6: e.flagsB.Rx6}
			lb["flags_sender"], lb["flags_receiver"] = e.flagsA, e.flagsB
			lb["flags_sender_after"] = e.after
			lb["stray"] = e.stray
		}
		if f != nil {
			f4 = f
		}
	}
	return lb, f4
}

// replayAnyLoopback dispatches loopback cases to the pair, wire and pool drivers.
func replayAnyLoopback(cs []*Case) map[string]any {
	var pair, other, inject, dual, rxp, reo []*Case
	for _, c := range cs {
		if c.Pass == "reopen" {
			reo = append(reo, c)
		} else if c.Pass == "rxplain" {
			rxp = append(rxp, c)
		} else if strings.HasPrefix(c.Pass, "dual_") {
			dual = append(dual, c)
		} else if c.Pass == "wire_partial" || c.Pass == "wire_eio" || c.Pass == "wire_eio_partial" {
			inject = append(inject, c)
		} else if strings.HasPrefix(c.Pass, "wire_") || strings.HasPrefix(c.Pass, "pool_") {
			other = append(other, c)
		} else {
			pair = append(pair, c)
		}
	}
	lb := map[string]any{}
	if len(pair) > 0 {
		lb = replayLoopback(pair)
	}
	for k, v := range replayLoopback2(other) {
		lb[k] = v
	}
	for k, v := range replayLoopback3(inject) {
		lb[k] = v
	}
	for k, v := range replayLoopback4(dual) {
		lb[k] = v
	}
	if len(rxp) > 0 {
		for k, v := range replayLoopback5(rxp) {
			lb[k] = v
		}
	}
	if len(reo) > 0 {
		lb["reopen"] = reopenPass(1)
	}
	return lb
}

// replayLoopback re-runs the loopback batches among cs.
func replayLoopback(cs []*Case) map[string]any {
	lb := map[string]any{}
	for _, pass := range []string{"offload", "nooffload", "asym_rx4off", "asym_rx6off"} {
		var mine []*Case
		for _, c := range cs {
			p := c.Pass
			if p != "nooffload" && asymNetwork(p) == "" {
				p = "offload"
			}
			if p == pass {
				c.Pass = p
				mine = append(mine, c)
			}
		}
		if len(mine) == 0 {
			continue
		}
		res := map[string]*lbFam{}
		lb[pass] = res
		e, err := openPair(pass)
		if err != nil {
			res["v4"], res["v6"] = skippedFam(err.Error()), skippedFam(err.Error())
			continue
		}
		for _, fam := range []string{"v4", "v6"} {
			var r *lbFam
			for _, c := range mine {
				if (c.Family == "v6") != (fam == "v6") {
					continue
				}
				c.Family = fam
				if r == nil {
					if why := e.usable(fam); why != "" {
						if p := e.panicked(); p != "" {
							res[fam] = &lbFam{Batches: 1, Datagrams: 1, Failures: []lbFailure{{Family: fam, Pass: pass,
								Sizes: c.Sizes, Caps: c.Caps, GotSizes: []int{}, FirstDiff: 0, Error: p}}}
							break
						}
						res[fam] = skippedFam(why)
						break
					}
					r = &lbFam{Failures: []lbFailure{}}
					res[fam] = r
				}
				e.runBatch(fam, c.Sizes, c.Caps, r)
			}
		}
		e.close()
	}
	return lb
}

// ---------------------------------------------------------------------------
// output
// ---------------------------------------------------------------------------

const shardHeader = `From Coq Require Import Uint63 List.
Import ListNotations.
From WG Require Import Base.Prelude UdpGso.Model UdpGso.KernelSpec UdpGso.Check.
Local Open Scope uint63_scope.
Definition cases : list case := [
`

const shardFooter = `
].
Definition bad := Eval vm_compute in (check_cases cases 0%N).
Print bad.
Definition st := Eval vm_compute in (stats cases).
Print st.
`

func writeShard(path string, cases []*Case) error {
	var b strings.Builder
	b.WriteString(shardHeader)
	for i, c := range cases {
		if i > 0 {
			b.WriteString(";\n")
		}
		b.WriteString(c.gal)
	}
	b.WriteString(shardFooter)
	return os.WriteFile(path, []byte(b.String()), 0o644)
}

// cost estimates the evaluation cost of a case in Coq: the pattern bytes
// dominate (each is computed about four times), plus something per slot.
func (c *Case) cost() int {
	n := 600
	if c.Kind == "send" {
		for _, s := range c.Sizes {
			n += s + 8
		}
		return n
	}
	for _, s := range c.Slots {
		n += 12
		for _, z := range s.Sizes {
			n += z
		}
	}
	return n
}

func run(c *Case) bool {
	switch c.Kind {
	case "send":
		runSend(c)
	case "recv":
		runRecv(c)
	case "loop":
		return runLoop(c)
	default:
		return false
	}
	return true
}

func loadCases(path string) ([]*Case, error) {
	data, err := os.ReadFile(path)
	if err != nil {
		return nil, err
	}
	var cs []*Case
	if err := json.Unmarshal(data, &cs); err != nil {
		// also accept a cases.json as written by this program
		var meta struct {
			Cases []*Case `json:"cases"`
		}
		if err2 := json.Unmarshal(data, &meta); err2 != nil || meta.Cases == nil {
			return nil, err
		}
		cs = meta.Cases
	}
	return cs, nil
}

func main() {
	seed := flag.Int64("seed", 1, "PRNG seed")
	n := flag.Int("n", 150, "number of send cases and of receive cases")
	shards := flag.Int("shards", 16, "case files")
	out := flag.String("out", "out/C18", "output directory")
	replayIn := flag.String("replay", "", "JSON file with cases (inputs) to run")
	corpus := flag.String("corpus", "", "directory of corpus JSON cases to prepend")
	nof4 := flag.Bool("nof4", false, "omit the zero-length datagram scenarios")
	loopback := flag.Bool("loopback", true, "run the loopback part")
	lbatches := flag.Int("lbatches", 60, "loopback batches per family and pass")
	flag.Parse()
	loadConstants()
	if err := os.MkdirAll(*out, 0o755); err != nil {
		panic(err)
	}
	var cases []*Case
	var lbCases []*Case
	meta := map[string]any{"seed": *seed}
	take := func(c *Case) {
		if c == nil {
			return
		}
		if c.Kind == "loopback" {
			lbCases = append(lbCases, c)
		} else if run(c) {
			cases = append(cases, c)
		}
	}
	if *replayIn != "" {
		cs, err := loadCases(*replayIn)
		if err != nil {
			panic(err)
		}
		for _, c := range cs {
			take(c)
		}
		*shards = 1
		if len(lbCases) > 0 {
			meta["loopback"] = replayAnyLoopback(lbCases)
		}
	} else {
		if *corpus != "" {
			files, _ := filepath.Glob(filepath.Join(*corpus, "*.json"))
			for _, f := range files {
				cs, err := loadCases(f)
				if err != nil {
					continue
				}
				for _, c := range cs {
					if c != nil {
						c.Gen = "corpus"
					}
					take(c)
				}
			}
		}
		for _, c := range unitSend() {
			take(c)
		}
		for _, c := range unitRecv() {
			take(c)
		}
		for _, c := range bigRecv() {
			take(c)
		}
		if !*nof4 {
			take(f4Send())
			take(f4Recv())
		}
		r := rand.New(rand.NewSource(*seed))
		for i := 0; i < *n; i++ {
			take(genSend(r, i))
			take(genRecv(r, i))
			if i%2 == 0 {
				take(genLoop(r, i/2))
			}
		}
		if *loopback {
			lb, f4 := runLoopback(*seed, *lbatches, !*nof4)
			for k, v := range runLoopback2(*seed, *lbatches) {
				lb[k] = v
			}
			for k, v := range runLoopback3(*seed, *lbatches) {
				lb[k] = v
			}
			for k, v := range runLoopback4(*seed, *lbatches) {
				lb[k] = v
			}
			for k, v := range runLoopback5(*seed, *lbatches) {
				lb[k] = v
			}
			for k, v := range runLoopback6(*seed, *lbatches) {
				lb[k] = v
			}
			if len(lbCases) > 0 {
				lb["corpus"] = replayAnyLoopback(lbCases)
			}
			meta["loopback"] = lb
			if f4 != nil {
				meta["loopback_f4"] = f4
			}
		} else if len(lbCases) > 0 {
			meta["loopback"] = map[string]any{"corpus": replayAnyLoopback(lbCases)}
		}
	}
	if *shards > len(cases) {
		*shards = len(cases)
	}
	if *shards < 1 {
		*shards = 1
	}
	// contiguous shards of about equal estimated Coq cost (pattern bytes), not
	// of equal case count
	total := 0
	for _, c := range cases {
		total += c.cost()
	}
	idx := 0
	type shardInfo struct {
		File  string `json:"file"`
		First int    `json:"first"`
		N     int    `json:"n"`
	}
	infos := []shardInfo{}
	cum := 0
	for s := 0; s < *shards && (idx < len(cases) || s == 0); s++ {
		end := idx
		left := *shards - s - 1 // shards after this one; each needs a case
		for end < len(cases)-left && (end == idx || s == *shards-1 || cum+cases[end].cost()/2 <= total*(s+1) / *shards) {
			cum += cases[end].cost()
			end++
		}
		name := fmt.Sprintf("cases_C18_%d.v", s)
		if err := writeShard(filepath.Join(*out, name), cases[idx:end]); err != nil {
			panic(err)
		}
		infos = append(infos, shardInfo{name, idx, end - idx})
		idx = end
	}
	if cases == nil {
		cases = []*Case{}
	}
	meta["cases"] = cases
	meta["shards"] = infos
	data, err := json.Marshal(meta)
	if err != nil {
		panic(err)
	}
	if err := os.WriteFile(filepath.Join(*out, "cases.json"), data, 0o644); err != nil {
		panic(err)
	}
}
