// Plain receive path (no UDP_GRO): a receiving StdNetBind with offloads
// disabled, plain UDP sockets as senders.  A burst that contains empty
// datagrams in front of genuine ones is sent completely before the receive
// function is called, so that it comes back from ONE recvmmsg; an earlier,
// longer batch from another source has left stale values in the caller's
// sizes/eps slices.  Every non-empty datagram of the burst must be returned
// with its own size, bytes and source (entries with size 0 are to be ignored
// by the caller, as conn.ReceiveFunc says).
package main

import (
	"bytes"
	"fmt"
	"math/rand"
	"net"
	"time"

	"golang.zx2c4.com/wireguard/conn"
)

type rxPlainEnv struct {
	fam    string
	b      conn.Bind
	fn     conn.ReceiveFunc
	port   uint16
	sA, sB *net.UDPConn
	bufs   [][]byte
	sizes  []int
	eps    []conn.Endpoint
	dead   bool
	rxErr  string // the receive function failed by itself
	id     int
}

func openRxPlain(fam string) (*rxPlainEnv, string) {
	e := &rxPlainEnv{fam: fam, b: conn.NewStdNetBind()}
	_, port, err := e.b.Open(0)
	if err != nil {
		return nil, err.Error()
	}
	fns, err := conn.VerifDisableOffload(e.b)
	if err != nil {
		e.b.Close()
		return nil, err.Error()
	}
	idx, network, ip := 0, "udp4", net.IPv4(127, 0, 0, 1)
	if fam == "v6" {
		idx, network, ip = 1, "udp6", net.IPv6loopback
	}
	if idx >= len(fns) {
		e.b.Close()
		return nil, "no receive function for " + fam
	}
	e.fn, e.port = fns[idx], port
	for _, p := range []**net.UDPConn{&e.sA, &e.sB} {
		c, err := net.ListenUDP(network, &net.UDPAddr{IP: ip})
		if err != nil {
			e.close()
			return nil, err.Error()
		}
		*p = c
	}
	n := e.b.BatchSize()
	e.bufs = make([][]byte, n)
	for i := range e.bufs {
		e.bufs[i] = make([]byte, 65535)
	}
	e.sizes, e.eps = make([]int, n), make([]conn.Endpoint, n)
	return e, ""
}

func (e *rxPlainEnv) close() {
	if !e.dead {
		e.b.Close()
	}
	for _, c := range []*net.UDPConn{e.sA, e.sB} {
		if c != nil {
			c.Close()
		}
	}
}

func (e *rxPlainEnv) send(c *net.UDPConn, sizes []int) [][]byte {
	e.id++
	ip := net.IPv4(127, 0, 0, 1)
	if e.fam == "v6" {
		ip = net.IPv6loopback
	}
	dst := &net.UDPAddr{IP: ip, Port: int(e.port)}
	out := make([][]byte, len(sizes))
	for i, s := range sizes {
		b := make([]byte, s)
		seed := (e.id*7 + 37*i) % 256
		for k := range b {
			b[k] = pat(seed, k)
		}
		out[i] = b
		c.WriteToUDP(b, dst)
	}
	return out
}

// one receive call; entries as returned (empty ones included)
func (e *rxPlainEnv) recv() (items []rxItem, ok bool) {
	done := make(chan struct{})
	go func() {
		select {
		case <-done:
		case <-time.After(2 * time.Second):
			e.dead = true
			e.b.Close()
		}
	}()
	n, err := e.fn(e.bufs, e.sizes, e.eps)
	close(done)
	if err != nil && !e.dead {
		e.rxErr = err.Error()
		e.dead = true
		e.b.Close()
		return nil, false
	}
	if err != nil || e.dead {
		e.dead = true
		return nil, false
	}
	for i := 0; i < n; i++ {
		it := rxItem{fam: e.fam}
		if e.sizes[i] > 0 {
			it.data = append([]byte{}, e.bufs[i][:e.sizes[i]]...)
			if e.eps[i] != nil {
				it.from = e.eps[i].DstToString()
			}
		}
		items = append(items, it)
	}
	return items, true
}

func addrOf(c *net.UDPConn, fam string) string {
	p := c.LocalAddr().(*net.UDPAddr).Port
	if fam == "v6" {
		return fmt.Sprintf("[::1]:%d", p)
	}
	return fmt.Sprintf("127.0.0.1:%d", p)
}

// runRxPlain: long batch from sender A (fills the caller's slices), then the
// burst from sender B in one receive batch.  lossy: could not be judged.
func (e *rxPlainEnv) runRxPlain(long, burst []int) (fail *lbFailure, lossy bool) {
	// 1. the longer batch
	e.send(e.sA, long)
	for got := 0; got < len(long); {
		items, ok := e.recv()
		if !ok {
			return nil, true
		}
		got += len(items)
	}
	// 2. the burst, in one batch
	for try := 0; try < 4; try++ {
		sent := e.send(e.sB, burst)
		time.Sleep(2 * time.Millisecond)
		items, ok := e.recv()
		if !ok {
			return nil, true
		}
		if len(items) < len(burst) {
			// not one batch: read the rest and try again
			for got := len(items); got < len(burst); {
				more, ok := e.recv()
				if !ok {
					return nil, true
				}
				got += len(more)
			}
			continue
		}
		var want [][]byte
		for _, b := range sent {
			if len(b) > 0 {
				want = append(want, b)
			}
		}
		var got []rxItem
		gotSizes := []int{}
		for _, it := range items {
			if len(it.data) > 0 {
				got = append(got, it)
				gotSizes = append(gotSizes, len(it.data))
			}
		}
		from := addrOf(e.sB, e.fam)
		diff := -1
		what := ""
		for i := 0; i < len(want) || i < len(got); i++ {
			switch {
			case i >= len(got):
				what = "missing"
			case i >= len(want):
				what = "extra datagram"
			case len(want[i]) != len(got[i].data):
				what = fmt.Sprintf("size %d instead of %d", len(got[i].data), len(want[i]))
			case !bytes.Equal(want[i], got[i].data):
				what = "wrong bytes"
			case got[i].from != from:
				what = "attributed to " + got[i].from + " instead of " + from
			default:
				continue
			}
			diff = i
			break
		}
		if diff < 0 {
			return nil, false
		}
		return &lbFailure{Family: e.fam, Pass: "rxplain", Sizes: burst, Caps: []int{}, GotSizes: gotSizes, FirstDiff: diff,
			Error: fmt.Sprintf("burst %v received in one batch of %d after a batch of %d from %s: non-empty datagram %d: %s",
				burst, len(items), len(long), addrOf(e.sA, e.fam), diff, what),
			Script: []lbStep{{0, long}, {1, burst}}}, false
	}
	return nil, true
}

func rxPlainBursts(seed int64, count int) [][2][]int {
	r := rand.New(rand.NewSource(seed*86028121 + 29))
	fixed := [][]int{{100, 0, 200, 300}, {0, 0, 64}, {148, 0, 148}, {0, 9}, {5, 0}, {0}, {1, 2, 3}, {1452, 0, 0, 1452, 92}}
	var out [][2][]int
	for len(out) < count {
		var burst []int
		if len(out) < len(fixed) {
			burst = fixed[len(out)]
		} else {
			for n := 1 + r.Intn(10); n > 0; n-- {
				s := pick(r, []int{0, 0, 32, 92, 148, 1452, 1 + r.Intn(1400)})
				burst = append(burst, s)
			}
		}
		long := make([]int, len(burst)+1+r.Intn(5))
		for i := range long {
			long[i] = 700 + 3*i + r.Intn(3)
		}
		out = append(out, [2][]int{long, burst})
	}
	return out
}

func rxPlainFam(fam string, bursts [][2][]int) *lbFam {
	e, why := openRxPlain(fam)
	if why != "" {
		return skippedFam(why)
	}
	defer e.close()
	fr := &lbFam{Failures: []lbFailure{}}
	for _, lb := range bursts {
		fail, lossy := e.runRxPlain(lb[0], lb[1])
		if lossy && e.rxErr != "" {
			fr.Batches++
			fr.Failures = append(fr.Failures, lbFailure{Family: fam, Pass: "rxplain", Sizes: lb[1], Caps: []int{}, GotSizes: []int{},
				Error: "the receive function returned an error with datagrams waiting: " + e.rxErr, Script: []lbStep{{0, lb[0]}, {1, lb[1]}}})
			return fr
		}
		if lossy {
			if e.dead {
				if fr.Batches == 0 {
					return skippedFam("datagrams from a plain socket do not reach the bind over loopback")
				}
				fr.Retried++
				return fr
			}
			fr.Retried++ // never came in one batch: not judged
			continue
		}
		fr.Batches++
		fr.Datagrams += len(lb[0]) + len(lb[1])
		if fail != nil {
			fr.Failures = append(fr.Failures, *fail)
		}
	}
	return fr
}

func runLoopback5(seed int64, nb int) map[string]any {
	bursts := rxPlainBursts(seed, nb/2+8)
	return map[string]any{"rxplain": map[string]*lbFam{"v4": rxPlainFam("v4", bursts), "v6": rxPlainFam("v6", bursts)}}
}

func replayLoopback5(cs []*Case) map[string]any {
	res := map[string]*lbFam{}
	for _, c := range cs {
		fam := "v4"
		if c.Family == "v6" {
			fam = "v6"
		}
		long, burst := []int{}, c.Sizes
		if len(c.Script) == 2 {
			long, burst = c.Script[0].Sizes, c.Script[1].Sizes
		} else if len(c.Script) == 1 {
			burst = c.Script[0].Sizes
		}
		res[fam] = rxPlainFam(fam, [][2][]int{{long, burst}})
	}
	return map[string]any{"rxplain": res}
}
