// The response-processing window: RoutineHandshake consumes a response (ConsumeMessageResponse) and begins
// the session (BeginSymmetricSession) in two separately locked steps; this file lets the harness handle an event
// of the same peer (a transport message for the sequential receiver, a timer-style SendHandshakeInitiation)
// INSIDE that window.  No hook exists there.  Two schedule points are used, neither needs a change of /repo:
//
//   - "log":  the device's own Logger.  `device.log.Verbosef("%v - Received handshake response", peer)` is called
//     right after ConsumeMessageResponse / SetEndpointFromPacket and before the timers calls and
//     BeginSymmetricSession; the harness owns the Logger (public API) and parks the worker in that call.
//   - "lock": the worker is parked in the log call, the harness read-locks peer.handshake.mutex (reached through
//     the exported Device.LookupPeer and reflection: the field is unexported), lets the worker go on and waits
//     until it is parked at handshake.mutex.Lock() inside BeginSymmetricSession, i.e. AFTER every timers call
//     that precedes the key installation.  An in-window event that itself needs handshake.mutex (the 5 s spacing
//     test of SendHandshakeInitiation) is held at that lock and finishes right after the session has begun.
//
// While a worker is parked, sim.Quiesce cannot be used (it demands that every device goroutine sits in one of
// its own routines); windowSettle below is the same scan with "blocked on a lock / in the harness's logger"
// accepted.
package main

import (
	"reflect"
	"runtime"
	"strings"
	"sync"
	"sync/atomic"
	"time"
	"unsafe"

	"golang.zx2c4.com/wireguard/device"

	"wgv/cosim"
	"wgv/ref"
	"wgv/sim"
)

type parker struct {
	armed   atomic.Bool
	parked  chan struct{}
	release chan struct{}
}

func newParker() *parker {
	return &parker{parked: make(chan struct{}, 1), release: make(chan struct{})}
}

func (k *parker) logger() *device.Logger {
	return &device.Logger{
		Verbosef: func(format string, args ...any) {
			if strings.HasSuffix(format, "Received handshake response") && k.armed.CompareAndSwap(true, false) {
				k.parked <- struct{}{}
				<-k.release
			}
		},
		Errorf: func(format string, args ...any) {},
	}
}

var windowStack = make([]byte, 8<<20)

// how often the schedule points were really reached (reported in cases.json "info")
var winStat = map[string]int{}

// windowParked: every goroutine that is inside wireguard/device is blocked (queue receive, wait, lock, or the
// harness's logger); wantFrame (if not empty) must occur in one of them.
func windowParked(wantFrame string) bool {
	n := runtime.Stack(windowStack, true)
	found := wantFrame == ""
	for _, g := range strings.Split(string(windowStack[:n]), "\n\n") {
		if !strings.Contains(g, "wireguard/device.") || strings.Contains(g, "main.windowParked") {
			continue
		}
		hdr := g
		if i := strings.IndexByte(g, '\n'); i >= 0 {
			hdr = g[:i]
		}
		blocked := false
		for _, s := range []string{"[chan receive", "[select", "[sync.WaitGroup.Wait", "[semacquire", "[sync.Cond.Wait", "[sync.RWMutex", "[sync.Mutex", "[chan send"} {
			if strings.Contains(hdr, s) {
				blocked = true
			}
		}
		if !blocked {
			return false
		}
		if wantFrame != "" && strings.Contains(g, wantFrame) {
			found = true
		}
	}
	return found
}

// windowSettle is sim.Quiesce for a device with a worker parked by the harness.
func (r *runner) windowSettle(wantFrame string, timeout time.Duration) bool {
	deadline := time.Now().Add(timeout)
	ok := 0
	for ok < 2 {
		idle := r.w.Bind.Idle() && r.w.Tun.Idle()
		if idle {
			e, d, h := r.w.Dev.VerifQueueLens()
			idle = e == 0 && d == 0 && h == 0
		}
		if idle && windowParked(wantFrame) {
			ok++
		} else {
			ok = 0
			if time.Now().After(deadline) {
				return false
			}
			runtime.Gosched()
			time.Sleep(50 * time.Microsecond)
		}
	}
	return true
}

// hsMutex is &peer.handshake.mutex of the runner's peer (nil if the layout is not the expected one).
func (r *runner) hsMutex() *sync.RWMutex {
	peer := r.w.Dev.LookupPeer(r.pk)
	if peer == nil {
		return nil
	}
	v := reflect.ValueOf(peer).Elem().FieldByName("handshake")
	if !v.IsValid() {
		return nil
	}
	m := v.FieldByName("mutex")
	if !m.IsValid() || m.Type() != reflect.TypeOf(sync.RWMutex{}) || !m.CanAddr() {
		return nil
	}
	return (*sync.RWMutex)(unsafe.Pointer(m.UnsafeAddr()))
}

// windowAct starts the in-window event WITHOUT waiting for the device; the returned function waits for a
// harness goroutine it may have started.
func (r *runner) windowAct(e Ev, async bool) (wait func()) {
	wait = func() {}
	switch e.In {
	case "recv", "recvka":
		if int(e.C) < len(r.sessions) && r.sessions[e.C] != nil {
			payload := dataIn
			if e.In == "recvka" {
				payload = []byte{}
			}
			msg := r.sessions[e.C].Next(payload)
			r.lastMsg[e.C] = msg
			r.w.Bind.Inject(sim.Dgram{From: r.p.Addr, Data: msg})
		}
	case "init":
		f := func() {
			if e.C != 0 {
				r.w.Dev.VerifC07ShiftLastSentHandshake(r.pk, 6*time.Second)
			}
			r.w.Dev.VerifC07SendHandshakeInitiation(r.pk, false)
		}
		if async {
			done := make(chan struct{})
			go func() { f(); close(done) }()
			wait = func() { <-done }
		} else {
			f()
		}
	default:
		panic("unknown in-window event " + e.In)
	}
	return wait
}

func mergeOut(a, b cosim.Out) cosim.Out {
	return cosim.Out{Sent: append(a.Sent, b.Sent...), Written: append(a.Written, b.Written...), Settled: a.Settled && b.Settled}
}

// doWindow: the remote party answers the device's e.A-th newest initiation (its index e.B); the event e.In
// (argument e.C) is handled inside the processing window of that response (e.Win: "log" or "lock").
func (r *runner) doWindow(e Ev) Obs {
	rx0 := r.w.Dev.VerifPeer(r.pk).RxBytes
	k := int(e.A)
	var out cosim.Out
	consumed := false
	if k >= len(r.inits) {
		// no such initiation: only the in-window event happens
		r.windowAct(e, false)()
		out = r.w.Take()
	} else {
		msg := r.inits[len(r.inits)-1-k]
		rs, err := ref.ConsumeInitiation(msg, r.p.Priv)
		if err != nil {
			panic("ref cannot open the device's initiation: " + err.Error())
		}
		resp, sess := rs.CreateResponse(ref.NewPrivate(), r.p.Psk, uint32(e.B))
		r.sessions = append(r.sessions, sess)
		r.park.armed.Store(true)
		r.w.Bind.Inject(sim.Dgram{From: r.p.Addr, Data: resp})
		select {
		case <-r.park.parked:
			consumed = true
		case <-time.After(150 * time.Millisecond):
			if !r.park.armed.CompareAndSwap(true, false) {
				<-r.park.parked // the worker got there just now
				consumed = true
			}
		}
		if !consumed {
			winStat["window_response_not_consumed"]++
			// the response was refused before the window (stale, no handshake pending): plain sequence
			o1 := r.w.Take()
			r.windowAct(e, false)()
			out = mergeOut(o1, r.w.Take())
		} else {
			var mu *sync.RWMutex
			if e.Win == "lock" {
				mu = r.hsMutex()
			}
			okw := true
			if mu != nil {
				winStat["window_lock_reached"]++
				mu.RLock()
				r.park.release <- struct{}{}
				okw = r.windowSettle("BeginSymmetricSession", 200*time.Millisecond)
				wait := r.windowAct(e, true)
				okw = r.windowSettle("BeginSymmetricSession", 200*time.Millisecond) && okw
				mu.RUnlock()
				wait()
			} else {
				winStat["window_log_reached"]++
				wait := r.windowAct(e, false)
				okw = r.windowSettle("", 200*time.Millisecond)
				r.park.release <- struct{}{}
				wait()
			}
			out = r.w.Take()
			if !okw {
				winStat["window_not_settled"]++
				r.slow = true
			}
		}
	}
	if !out.Settled {
		r.slow = true
	}
	o := r.observe(out)
	if e.In == "recvka" {
		// an authenticated keepalive is counted (32 bytes) but never reaches the TUN; a consumed response counts 92
		exp := uint64(0)
		if consumed {
			exp = ref.ResponseSize
		}
		o.Tun = r.w.Dev.VerifPeer(r.pk).RxBytes-rx0 > exp
	}
	return o
}
