// c07 drives a real wireguard-go device through complete handshakes in both roles,
// data under previous/current/next/retired keys and shifted key ages, records after
// every event what the device emitted and what its accessors show, and writes the
// scenarios as Gallina case files + JSON (property C07, session-key lifecycle).
package main

import (
	"encoding/binary"
	"encoding/json"
	"flag"
	"fmt"
	"math/rand"
	"os"
	"path/filepath"
	"sort"
	"strings"
	"time"

	"golang.zx2c4.com/wireguard/device"

	"wgv/cosim"
	"wgv/ref"
)

// Ev is one concrete event.  K: "init" (A=force), "resp" (A=k-th newest initiation, B=ref index),
// "cr" (A=ref index), "recv" (A=session id: a data message), "recvka" (A=session id: a KEEPALIVE, i.e. a
// zero-length transport message; nothing is written to the TUN, acceptance is read off rx_bytes), "send", "tick" (A=seconds),
// "forge" (A=session id, B=variant: transport with that session's device index and a fresh counter that does
// not authenticate), "replay" (A=session id: the last message sent under it, again),
// "idle" (A=milliseconds the ages are shifted by, B=whole seconds: then REAL time passes, with the
// socket idle, until the ages are B s + a margin; the model sees Tick B),
// "restart" (interface Down then Up: every peer is stopped and started),
// "keepalive" (a keepalive-only transmission: the peer's persistent keepalive is switched on through UAPI,
// which calls SendKeepalive at once, and off again),
// "abandon" (the retransmit-handshake timer callback with the attempts counter at its maximum: the attempt
// is given up), "retransmit" (the same callback with the counter at 0: SendHandshakeInitiation(true); the
// model sees Initiate false).
// "respw" (a response with an event INSIDE its processing window, see window.go: A=k-th newest initiation, B=ref index,
// In = the in-window event: "recv"/"recvka" (C=session id) or "init" (C=force), Win = schedule point "log" or "lock").
type Ev struct {
	K   string `json:"k"`
	A   uint64 `json:"a,omitempty"`
	B   uint64 `json:"b,omitempty"`
	C   uint64 `json:"c,omitempty"`
	In  string `json:"in,omitempty"`
	Win string `json:"win,omitempty"`
}

type Slot struct {
	P    bool   `json:"p"`
	L    uint64 `json:"l,omitempty"`
	R    uint64 `json:"r,omitempty"`
	Init bool   `json:"i,omitempty"`
	Age  uint64 `json:"age,omitempty"`
}

// Obs is what is observed after one event.  Indices are ordinals of issue; -1 = none.
type Obs struct {
	Sent   []uint64    `json:"sent"` // session id opening each transport datagram (1<<32-1: none / wrong receiver)
	Init   int64       `json:"init"` // ordinal of the sender index of an emitted initiation
	Resp   bool        `json:"resp"`
	Tun    bool        `json:"tun"`
	Prev   Slot        `json:"prev"`
	Cur    Slot        `json:"cur"`
	Next   Slot        `json:"next"`
	Table  [][2]uint64 `json:"table"` // (ordinal, 1 = keypair entry)
	Hs     int64       `json:"hs"`
	Latch  bool        `json:"latch"`
	Staged uint64      `json:"staged"`
	Last   int64       `json:"last"` // whole seconds since lastSentHandshake
}

type Case struct {
	Evs     []Ev   `json:"evs"`
	Obs     []Obs  `json:"obs"`
	Gen     string `json:"gen"`
	WallUs  int64  `json:"wall_us"`
	Discard string `json:"discard,omitempty"`
}

const noSession = uint64(1<<32 - 1)
const maxWall = 900 * time.Millisecond

// ---------------------------------------------------------------- scenario runner

type runner struct {
	w        *cosim.World
	p        *cosim.RefPeer
	pk       device.NoisePublicKey
	sessions []*ref.Session // by session id; nil = the device did not answer
	inits    [][]byte       // initiations the device sent, oldest first
	ord      map[uint32]uint64
	nref     int
	tsBase   time.Time
	ncr      int
	slow     bool
	start    time.Time
	lastMsg  map[uint64][]byte // last authentic message sent under each session
	idle     bool              // the scenario contains real idle time: judged by margins, not by wall time
	margin   bool              // a whole-second margin was not kept
	limit    time.Duration     // after the idle period the reference key must stay younger than this
	park     *parker           // the device's Logger: schedule point inside the response-processing window
}

func newRunner() (*runner, error) {
	p := cosim.NewPeer("A", "192.0.2.7:5555", "10.0.0.2/32")
	park := newParker()
	w, err := cosim.NewWorldLogger(cosim.Config{Up: true}, true, park.logger(), p)
	if err != nil {
		return nil, err
	}
	w.Timeout = time.Second
	return &runner{park: park, w: w, p: p, pk: cosim.NoisePK(p.Pub), ord: map[uint32]uint64{}, tsBase: time.Now(), start: time.Now(), lastMsg: map[uint64][]byte{}}, nil
}

func (r *runner) close() { r.w.Close() }

func (r *runner) ordinal(idx uint32, assign bool) uint64 {
	if o, ok := r.ord[idx]; ok {
		return o
	}
	if !assign {
		return 1000000 + uint64(idx%1000)
	}
	o := uint64(len(r.ord))
	r.ord[idx] = o
	return o
}

var dataIn = ref.Pad(ref.IPv4([4]byte{10, 0, 0, 2}, [4]byte{10, 9, 9, 9}, 40, 7))
var dataOut = ref.IPv4([4]byte{10, 9, 9, 9}, [4]byte{10, 0, 0, 2}, 40, 9)

// do performs one event and returns the observation.
func (r *runner) do(e Ev) Obs {
	var out cosim.Out
	if r.idle {
		switch e.K {
		case "init", "resp", "respw", "cr", "idle", "restart", "retransmit":
			r.margin = true // new keys after real idle time: whole-second ages no longer controlled
		case "tick":
			r.limit += time.Duration(e.A) * time.Second
		}
	}
	switch e.K {
	case "init":
		if e.A != 0 {
			r.w.Dev.VerifC07ShiftLastSentHandshake(r.pk, 6*time.Second)
		}
		r.w.Dev.VerifC07SendHandshakeInitiation(r.pk, false)
		out = r.w.Take()
	case "resp":
		k := int(e.A)
		if k < len(r.inits) {
			msg := r.inits[len(r.inits)-1-k]
			rs, err := ref.ConsumeInitiation(msg, r.p.Priv)
			if err != nil {
				panic("ref cannot open the device's initiation: " + err.Error())
			}
			resp, sess := rs.CreateResponse(ref.NewPrivate(), r.p.Psk, uint32(e.B))
			r.sessions = append(r.sessions, sess)
			out = r.w.Inject(r.p.Addr, resp)
		} else {
			out = r.w.Take()
		}
	case "respw":
		return r.doWindow(e)
	case "cr":
		r.w.Dev.VerifC07ShiftInitiationConsumption(r.pk, time.Second)
		r.ncr++
		ts := ref.Tai64n(r.tsBase.Add(time.Duration(r.ncr) * time.Second))
		st := ref.CreateInitiation(r.p.Priv, ref.NewPrivate(), r.w.DevPub, r.p.Psk, uint32(e.A), ts)
		out = r.w.Inject(r.p.Addr, st.Msg)
		var sess *ref.Session
		for _, s := range out.Sent {
			if len(s.Data) == ref.ResponseSize && s.Data[0] == ref.TypeResponse {
				if ss, err := st.ConsumeResponse(s.Data); err == nil {
					sess = ss
				}
			}
		}
		r.sessions = append(r.sessions, sess)
	case "recv":
		if int(e.A) < len(r.sessions) && r.sessions[e.A] != nil {
			msg := r.sessions[e.A].Next(dataIn)
			r.lastMsg[e.A] = msg
			out = r.w.Inject(r.p.Addr, msg)
		} else {
			out = r.w.Take()
		}
	case "recvka":
		if int(e.A) < len(r.sessions) && r.sessions[e.A] != nil {
			rx0 := r.w.Dev.VerifPeer(r.pk).RxBytes
			msg := r.sessions[e.A].Next([]byte{})
			r.lastMsg[e.A] = msg
			out = r.w.Inject(r.p.Addr, msg)
			if !out.Settled {
				r.slow = true
			}
			o := r.observe(out)
			// an authenticated keepalive is counted (32 bytes) but never reaches the TUN
			o.Tun = r.w.Dev.VerifPeer(r.pk).RxBytes > rx0
			return o
		}
		out = r.w.Take()
	case "forge":
		if int(e.A) < len(r.sessions) && r.sessions[e.A] != nil {
			sess := r.sessions[e.A]
			msg := sess.Next(dataIn) // right index, fresh counter
			switch e.B % 4 {
			case 0: // corrupted tag
				msg[len(msg)-1] ^= 0x40
			case 1: // corrupted ciphertext
				msg[16+int(e.B/4)%(len(msg)-32)] ^= 0x01
			case 2: // garbage payload of keepalive size
				msg = msg[:32]
				for i := 16; i < 32; i++ {
					msg[i] = byte(37*i + int(e.B))
				}
			case 3: // sealed under another key (the session's receiving key)
				wrong := *sess
				wrong.SendKey = sess.RecvKey
				msg = wrong.Transport(sess.SendCtr-1, dataIn)
			}
			out = r.w.Inject(r.p.Addr, msg)
		} else {
			out = r.w.Take()
		}
	case "replay":
		if msg, ok := r.lastMsg[e.A]; ok {
			out = r.w.Inject(r.p.Addr, append([]byte{}, msg...))
		} else {
			out = r.w.Take()
		}
	case "keepalive":
		pkHex := fmt.Sprintf("public_key=%x\n", r.p.Pub[:])
		err1, o1 := r.w.Set(pkHex + "persistent_keepalive_interval=65535\n")
		err2, o2 := r.w.Set(pkHex + "persistent_keepalive_interval=0\n")
		if err1 != nil || err2 != nil {
			panic(fmt.Sprint("uapi set failed: ", err1, err2))
		}
		out = cosim.Out{Sent: append(o1.Sent, o2.Sent...), Written: append(o1.Written, o2.Written...), Settled: o1.Settled && o2.Settled}
	case "abandon":
		r.w.Dev.VerifC07ExpireRetransmitHandshake(r.pk, device.MaxTimerHandshakes+1)
		out = r.w.Take()
	case "retransmit":
		r.w.Dev.VerifC07ExpireRetransmitHandshake(r.pk, 0)
		out = r.w.Take()
	case "restart":
		if err := r.w.Dev.Down(); err != nil {
			panic(err)
		}
		if err := r.w.Dev.Up(); err != nil {
			panic(err)
		}
		out = r.w.Take()
	case "idle":
		r.idleBegin(e)
		for !r.idleReady(e) {
			time.Sleep(5 * time.Millisecond)
		}
		out = r.w.Take()
		return r.observe(out)
	case "send":
		out = r.w.TunIn(dataOut)
	case "tick":
		d := time.Duration(e.A) * time.Second
		r.w.Dev.VerifShiftKeypairAges(r.pk, d)
		r.w.Dev.VerifShiftHandshakeTimes(r.pk, d)
		out = r.w.Take()
	default:
		panic("unknown event " + e.K)
	}
	if !out.Settled {
		r.slow = true
	}
	return r.observe(out)
}

// idleBegin shifts all ages by e.A milliseconds; from here on the socket must stay idle.
func (r *runner) idleBegin(e Ev) {
	r.idle = true
	r.limit = time.Duration(e.B+1)*time.Second - 40*time.Millisecond
	d := time.Duration(e.A) * time.Millisecond
	r.w.Dev.VerifShiftKeypairAges(r.pk, d)
	r.w.Dev.VerifShiftHandshakeTimes(r.pk, d)
}

// refAge is the age of the key the idle period is about (current, else next, else previous).
func (r *runner) refAge() (time.Duration, bool) {
	st := r.w.Dev.VerifPeer(r.pk)
	for _, k := range []device.VerifKeypair{st.Current, st.Next, st.Previous} {
		if k.Present {
			return time.Duration(k.AgeNanos), true
		}
	}
	return 0, false
}

// idleReady reports that real time has carried the key past e.B whole seconds (+ 60 ms).
func (r *runner) idleReady(e Ev) bool {
	a, ok := r.refAge()
	return !ok || a >= time.Duration(e.B)*time.Second+60*time.Millisecond
}

// checkMargins: in a scenario with real idle time every age must stay clear of a whole second.
func (r *runner) checkMargins() {
	if !r.idle {
		return
	}
	st := r.w.Dev.VerifPeer(r.pk)
	x := r.w.Dev.VerifC07Extra(r.pk)
	ages := []int64{}
	for _, k := range []device.VerifKeypair{st.Current, st.Next, st.Previous} {
		if k.Present {
			ages = append(ages, k.AgeNanos)
		}
	}
	if !x.LastSentZero {
		ages = append(ages, x.LastSentAgeNanos)
	}
	if a, ok := r.refAge(); ok && r.limit > 0 && a > r.limit {
		r.margin = true
	}
	for _, a := range ages {
		f := a % 1e9
		if a >= 1e9 && f < 3e7 || f > 9.7e8 { // (younger than a second: whole seconds = 0 for sure)
			r.margin = true
		}
	}
}

func slotOf(r *runner, k device.VerifKeypair) Slot {
	if !k.Present {
		return Slot{}
	}
	return Slot{P: true, L: r.ordinal(k.LocalIndex, false), R: uint64(k.RemoteIndex), Init: k.IsInitiator, Age: uint64(k.AgeNanos / 1e9)}
}

func (r *runner) observe(out cosim.Out) Obs {
	o := Obs{Init: -1, Hs: -1, Last: -1, Sent: []uint64{}, Table: [][2]uint64{}}
	for _, s := range out.Sent {
		if len(s.Data) < 4 {
			continue
		}
		switch {
		case s.Data[0] == ref.TypeInitiation && len(s.Data) == ref.InitiationSize:
			r.inits = append(r.inits, append([]byte{}, s.Data...))
			o.Init = int64(r.ordinal(binary.LittleEndian.Uint32(s.Data[4:8]), true))
		case s.Data[0] == ref.TypeResponse && len(s.Data) == ref.ResponseSize:
			o.Resp = true
			r.ordinal(binary.LittleEndian.Uint32(s.Data[4:8]), true)
		case s.Data[0] == ref.TypeTransport && len(s.Data) >= 32:
			sid := noSession
			for i, sess := range r.sessions {
				if sess == nil {
					continue
				}
				if rcv, _, _, err := sess.OpenTransport(s.Data); err == nil && rcv == sess.LocalIdx {
					sid = uint64(i)
				}
			}
			o.Sent = append(o.Sent, sid)
		}
	}
	o.Tun = len(out.Written) > 0
	st := r.w.Dev.VerifPeer(r.pk)
	o.Prev, o.Cur, o.Next = slotOf(r, st.Previous), slotOf(r, st.Current), slotOf(r, st.Next)
	if st.HandshakeState == 1 { // handshakeInitiationCreated
		o.Hs = int64(r.ordinal(st.HandshakeLocalIndex, false))
	}
	for _, e := range r.w.Dev.VerifIndexTable() {
		kind := uint64(0)
		if e.IsKeypair {
			kind = 1
		}
		o.Table = append(o.Table, [2]uint64{r.ordinal(e.Index, false), kind})
	}
	sort.Slice(o.Table, func(i, j int) bool { return o.Table[i][0] < o.Table[j][0] })
	o.Staged = uint64(st.StagedLen)
	x := r.w.Dev.VerifC07Extra(r.pk)
	o.Latch = x.SentLastMinuteHandshake
	if !x.LastSentZero {
		o.Last = x.LastSentAgeNanos / 1e9
	}
	r.checkMargins()
	return o
}

// ---------------------------------------------------------------- abstract events

// Abstract event kinds; slot names are resolved against the device's current slots.
const (
	aCI = iota
	aCR
	aRecvPrev
	aRecvCur
	aRecvNext
	aRecvRetired
	aSend
	aTick
	aInitiate
	aRespondStale
	aRespondNow
	aRecvUnaccepted
	aTickEdge
	aForgePrev
	aForgeCur
	aForgeNext
	aForgeRetired
	aReplay
	aRestart
	aKeepalive
	aAbandon
	aRecvKaPrev
	aRecvKaCur
	aRecvKaNext
	aRecvKaRetired
	aWindow
)

func (r *runner) sidOfIndex(idx uint32) (uint64, bool) {
	for i := len(r.sessions) - 1; i >= 0; i-- {
		if s := r.sessions[i]; s != nil && s.RemoteIdx == idx {
			return uint64(i), true
		}
	}
	return 0, false
}

// resolve turns an abstract event into concrete events using the device's current state.
func (r *runner) resolve(kind int, arg uint64, rnd *rand.Rand) []Ev {
	st := r.w.Dev.VerifPeer(r.pk)
	refIdx := uint64(4096 + len(r.sessions))
	slot := func(k device.VerifKeypair) []Ev {
		if !k.Present {
			return nil
		}
		if sid, ok := r.sidOfIndex(k.LocalIndex); ok {
			return []Ev{{K: "recv", A: sid}}
		}
		return nil
	}
	switch kind {
	case aCI:
		return []Ev{{K: "init", A: 1}, {K: "resp", A: 0, B: refIdx}}
	case aCR:
		return []Ev{{K: "cr", A: refIdx}}
	case aRecvPrev:
		return slot(st.Previous)
	case aRecvCur:
		return slot(st.Current)
	case aRecvNext:
		return slot(st.Next)
	case aRecvRetired, aRecvUnaccepted:
		// newest (or a random) session that is in none of the three slots
		var cands []uint64
		for i := len(r.sessions) - 1; i >= 0; i-- {
			s := r.sessions[i]
			if s == nil {
				continue
			}
			in := false
			for _, k := range []device.VerifKeypair{st.Previous, st.Current, st.Next} {
				if k.Present && k.LocalIndex == s.RemoteIdx && k.RemoteIndex == s.LocalIdx {
					in = true
				}
			}
			if !in {
				cands = append(cands, uint64(i))
			}
		}
		if len(cands) == 0 {
			return nil
		}
		if kind == aRecvRetired || rnd == nil {
			return []Ev{{K: "recv", A: cands[0]}}
		}
		return []Ev{{K: "recv", A: cands[rnd.Intn(len(cands))]}}
	case aForgePrev, aForgeCur, aForgeNext, aReplay:
		k := map[int]device.VerifKeypair{aForgePrev: st.Previous, aForgeCur: st.Current, aForgeNext: st.Next, aReplay: st.Current}[kind]
		if kind == aReplay && rnd != nil && rnd.Intn(2) == 0 {
			k = st.Previous
		}
		evs := slot(k)
		if evs == nil {
			return nil
		}
		if kind == aReplay {
			return []Ev{{K: "replay", A: evs[0].A}}
		}
		v := arg
		if rnd != nil {
			v = uint64(rnd.Intn(64))
		}
		return []Ev{{K: "forge", A: evs[0].A, B: v}}
	case aForgeRetired:
		evs := r.resolve(aRecvUnaccepted, 0, rnd)
		if evs == nil {
			return nil
		}
		v := arg
		if rnd != nil {
			v = uint64(rnd.Intn(64))
		}
		return []Ev{{K: "forge", A: evs[0].A, B: v}}
	case aRecvKaPrev, aRecvKaCur, aRecvKaNext, aRecvKaRetired:
		evs := r.resolve(map[int]int{aRecvKaPrev: aRecvPrev, aRecvKaCur: aRecvCur, aRecvKaNext: aRecvNext, aRecvKaRetired: aRecvUnaccepted}[kind], 0, rnd)
		if evs == nil {
			return nil
		}
		return []Ev{{K: "recvka", A: evs[0].A}}
	case aWindow:
		// an event inside the response-processing window of a re-key (or first handshake), then the usual judgement:
		// the new session's key is aged past 165 s and used
		var evs []Ev
		nsess := uint64(len(r.sessions))
		v := arg
		if rnd != nil {
			v = uint64(rnd.Intn(1 << 16))
		}
		win := []string{"lock", "log"}[v%2]
		fresh := win == "lock" || st.HandshakeState != 1 || (v/2)%3 > 0
		if st.Current.Present && (v/6)%4 > 0 {
			if age := uint64(st.Current.AgeNanos / 1e9); age < 166 {
				evs = append(evs, Ev{K: "tick", A: 166 - age + (v/24)%10})
			}
		}
		if fresh {
			evs = append(evs, Ev{K: "init", A: 1}) // the window is then inside the 5 s spacing
		}
		w := Ev{K: "respw", A: 0, B: refIdx, Win: win}
		var in []Ev
		switch (v / 240) % 8 {
		case 0, 1, 2, 3:
			in = slot(st.Current)
		case 4:
			in = slot(st.Previous)
		case 5:
			in = r.resolve(aRecvUnaccepted, 0, rnd)
		}
		if len(in) > 0 {
			w.In, w.C = "recv", in[0].A
			if (v/2000)%4 == 0 {
				w.In = "recvka"
			}
		} else if win == "log" {
			w.In, w.C = "init", (v/2000)%2
		} else if cur := slot(st.Current); len(cur) > 0 {
			w.In, w.C = "recv", cur[0].A
		} else {
			w.In, w.C, w.Win = "init", (v/2000)%2, "log"
		}
		evs = append(evs, w)
		if rnd == nil || rnd.Intn(4) > 0 {
			evs = append(evs, Ev{K: "tick", A: 166}, Ev{K: []string{"recv", "recv", "recvka"}[(v/8000)%3], A: nsess})
		}
		return evs
	case aRestart:
		return []Ev{{K: "restart"}}
	case aKeepalive:
		return []Ev{{K: "keepalive"}}
	case aAbandon:
		// an attempt is retried and then given up; often the surviving key is then used past 120 s
		evs := []Ev{{K: "retransmit"}, {K: "abandon"}}
		if rnd != nil && st.Current.Present && rnd.Intn(3) > 0 {
			age := uint64(st.Current.AgeNanos / 1e9)
			if age < 121 {
				evs = append(evs, Ev{K: "tick", A: 121 - age + uint64(rnd.Intn(40))})
			}
			if rnd.Intn(2) == 0 {
				evs = append(evs, Ev{K: "send"})
			} else {
				evs = append(evs, Ev{K: "keepalive"})
			}
		}
		return evs
	case aSend:
		return []Ev{{K: "send"}}
	case aTick:
		return []Ev{{K: "tick", A: arg}}
	case aInitiate:
		return []Ev{{K: "init", A: 0}}
	case aRespondStale:
		return []Ev{{K: "resp", A: 1, B: refIdx}}
	case aRespondNow:
		return []Ev{{K: "resp", A: 0, B: refIdx}}
	case aTickEdge:
		// move a present key to just below / above one of the limits
		var ages []uint64
		for _, k := range []device.VerifKeypair{st.Previous, st.Current, st.Current, st.Next} {
			if k.Present {
				ages = append(ages, uint64(k.AgeNanos/1e9))
			}
		}
		if len(ages) == 0 {
			return []Ev{{K: "tick", A: 1 + uint64(rnd.Intn(5))}}
		}
		a := ages[rnd.Intn(len(ages))]
		targets := []uint64{119, 121, 164, 166, 179, 181}
		var ok []uint64
		for _, t := range targets {
			if t > a {
				ok = append(ok, t-a)
			}
		}
		if len(ok) == 0 {
			return []Ev{{K: "tick", A: 1 + uint64(rnd.Intn(5))}}
		}
		return []Ev{{K: "tick", A: ok[rnd.Intn(len(ok))]}}
	}
	return nil
}

// runConcrete replays a concrete event list on a fresh device.
func runConcrete(evs []Ev, gen string) Case {
	r, err := newRunner()
	if err != nil {
		panic(err)
	}
	defer r.close()
	c := Case{Evs: evs, Gen: gen, Obs: []Obs{}}
	for _, e := range evs {
		c.Obs = append(c.Obs, r.do(e))
	}
	r.finish(&c)
	return c
}

func (r *runner) finish(c *Case) {
	wall := time.Since(r.start)
	c.WallUs = wall.Microseconds()
	if r.slow {
		c.Discard = "a step did not settle"
	} else if r.idle {
		if r.margin {
			c.Discard = "idle scenario: a whole-second margin was not kept"
		}
	} else if wall > maxWall {
		c.Discard = "scenario took longer than 0.9 s"
	}
}

// idleRun is a scenario with real idle time in the middle, finished when the time has passed.
type idleRun struct {
	r    *runner
	c    Case
	e    Ev
	rest []Ev
}

// The key crosses 180 s while the receive routine sleeps: shifted to 179.5 s, then real time.
var idleScenarios = []struct {
	gen    string
	prefix []Ev
	rest   []Ev
}{
	{"idle-responder-key", []Ev{{K: "cr", A: 4096}, {K: "recv", A: 0}}, []Ev{{K: "recv", A: 0}, {K: "recv", A: 0}, {K: "send"}}},
	{"idle-initiator-key", []Ev{{K: "init", A: 1}, {K: "resp", A: 0, B: 4096}, {K: "recv", A: 0}}, []Ev{{K: "recv", A: 0}, {K: "recv", A: 0}}},
	{"idle-unconfirmed-key", []Ev{{K: "cr", A: 4096}}, []Ev{{K: "recv", A: 0}, {K: "send"}}},
}

func startIdle(gen string, prefix, rest []Ev) *idleRun {
	r, err := newRunner()
	if err != nil {
		panic(err)
	}
	ir := &idleRun{r: r, c: Case{Gen: gen, Obs: []Obs{}, Evs: []Ev{}}, e: Ev{K: "idle", A: 179500, B: 180}, rest: rest}
	for _, e := range prefix {
		ir.c.Evs = append(ir.c.Evs, e)
		ir.c.Obs = append(ir.c.Obs, r.do(e))
	}
	r.idleBegin(ir.e)
	return ir
}

// tryFinish completes the scenario if the idle time has passed (or waits for it).
func (ir *idleRun) tryFinish(block bool) (Case, bool) {
	for !ir.r.idleReady(ir.e) {
		if !block {
			return Case{}, false
		}
		time.Sleep(5 * time.Millisecond)
	}
	out := ir.r.w.Take()
	if !out.Settled {
		ir.r.slow = true
	}
	ir.c.Evs = append(ir.c.Evs, ir.e)
	ir.c.Obs = append(ir.c.Obs, ir.r.observe(out))
	for _, e := range ir.rest {
		ir.c.Evs = append(ir.c.Evs, e)
		ir.c.Obs = append(ir.c.Obs, ir.r.do(e))
	}
	ir.r.finish(&ir.c)
	ir.r.close()
	return ir.c, true
}

type weighted struct {
	kind, w int
}

var randomMix = []weighted{
	{aCI, 14}, {aCR, 14}, {aRecvPrev, 7}, {aRecvCur, 9}, {aRecvNext, 8}, {aRecvRetired, 6}, {aRecvUnaccepted, 3},
	{aSend, 14}, {aTick, 6}, {aTickEdge, 12}, {aInitiate, 4}, {aRespondStale, 2}, {aRespondNow, 3},
	{aForgeNext, 7}, {aForgeCur, 3}, {aForgePrev, 2}, {aForgeRetired, 2}, {aReplay, 3}, {aRestart, 5}, {aKeepalive, 9}, {aAbandon, 6},
	{aRecvKaNext, 8}, {aRecvKaCur, 5}, {aRecvKaPrev, 3}, {aRecvKaRetired, 3}, {aWindow, 9},
}

var tickChoices = []uint64{1, 4, 6, 45, 61, 119, 121, 164, 166, 179, 181}

// runRandom generates and runs one random scenario of about the given depth, then probes
// every session the remote party ever derived (final sweep).
func runRandom(rnd *rand.Rand, depth int) Case {
	r, err := newRunner()
	if err != nil {
		panic(err)
	}
	defer r.close()
	c := Case{Gen: fmt.Sprintf("random-%d", depth), Obs: []Obs{}, Evs: []Ev{}}
	total := 0
	for _, m := range randomMix {
		total += m.w
	}
	follow := -1
	for len(c.Evs) < depth {
		x := rnd.Intn(total)
		kind := 0
		for _, m := range randomMix {
			if x < m.w {
				kind = m.kind
				break
			}
			x -= m.w
		}
		if follow >= 0 {
			kind, follow = follow, -1
		} else if kind == aRestart && rnd.Intn(10) < 7 {
			// probe what was held a moment ago (the newest session: often the unconfirmed key)
			follow = []int{aRecvRetired, aRecvRetired, aRecvUnaccepted, aForgeRetired, aSend}[rnd.Intn(5)]
		} else if kind == aTickEdge && rnd.Intn(10) < 6 {
			// use the aged keys right away
			follow = []int{aSend, aKeepalive, aKeepalive, aRecvCur, aRecvKaCur, aRecvPrev, aRecvNext, aRecvKaNext}[rnd.Intn(8)]
		}
		evs := r.resolve(kind, tickChoices[rnd.Intn(len(tickChoices))], rnd)
		for _, e := range evs {
			c.Evs = append(c.Evs, e)
			c.Obs = append(c.Obs, r.do(e))
		}
	}
	// final sweep: which of all sessions ever derived are still honoured (newest first or oldest first)
	n := len(r.sessions)
	for j := 0; j < n; j++ {
		sid := uint64(j)
		if rnd.Intn(2) == 0 {
			sid = uint64(n - 1 - j)
		}
		e := Ev{K: "recv", A: sid}
		if rnd.Intn(3) == 0 {
			e.K = "recvka"
		}
		c.Evs = append(c.Evs, e)
		c.Obs = append(c.Obs, r.do(e))
	}
	e := Ev{K: "send"}
	c.Evs = append(c.Evs, e)
	c.Obs = append(c.Obs, r.do(e))
	r.finish(&c)
	return c
}

// stateKey abstracts the device state reached (for the exhaustive enumeration).
func stateKey(c Case, hasRetired bool) string {
	if len(c.Obs) == 0 {
		return "empty"
	}
	o := c.Obs[len(c.Obs)-1]
	capAge := func(a uint64) uint64 {
		if a > 200 {
			return 200
		}
		return a
	}
	sl := func(s Slot) string {
		if !s.P {
			return "-"
		}
		return fmt.Sprintf("%v/%d", s.Init, capAge(s.Age))
	}
	last := o.Last
	if last > 5 {
		last = 5
	}
	return fmt.Sprintf("%s|%s|%s|hs%v|l%v|st%d|ls%d|r%v", sl(o.Prev), sl(o.Cur), sl(o.Next), o.Hs >= 0, o.Latch, o.Staged, last, hasRetired)
}

type absEv struct {
	kind int
	arg  uint64
}

var alphabet7 = []absEv{{aCI, 0}, {aCR, 0}, {aRecvPrev, 0}, {aRecvCur, 0}, {aRecvNext, 0}, {aRecvRetired, 0}, {aSend, 0}, {aTick, 61}, {aTick, 121}, {aForgeNext, 0}, {aRestart, 0}, {aKeepalive, 0}, {aRecvKaNext, 0}, {aRecvKaCur, 0}}

// the extended alphabet: also short ticks (5 s spacing), timer-style initiation, stale response
var alphabetFull = append(append([]absEv{}, alphabet7...), absEv{aTick, 4}, absEv{aTick, 45}, absEv{aInitiate, 0}, absEv{aRespondStale, 0}, absEv{aRespondNow, 0},
	absEv{aForgeNext, 0}, absEv{aForgeNext, 2}, absEv{aForgeCur, 3}, absEv{aReplay, 0}, absEv{aAbandon, 0}, absEv{aWindow, 6}, absEv{aWindow, 7})

// exhaustive enumerates all sequences over the alphabet to the given depth, up to the
// abstract state reached: every (representative prefix, event) pair is run on a fresh device.
func exhaustive(alphabet []absEv, tag string, depth int, maxCases int) (cases []Case, reps int, truncated bool) {
	frontier := [][]Ev{{}}
	seen := map[string]bool{"empty": true}
	for d := 0; d < depth; d++ {
		var next [][]Ev
		for _, prefix := range frontier {
			for _, a := range alphabet {
				if len(cases) >= maxCases {
					return cases, len(seen), true
				}
				r, err := newRunner()
				if err != nil {
					panic(err)
				}
				c := Case{Gen: fmt.Sprintf("%s-%d", tag, d+1), Obs: []Obs{}, Evs: []Ev{}}
				for _, e := range prefix {
					c.Evs = append(c.Evs, e)
					c.Obs = append(c.Obs, r.do(e))
				}
				evs := r.resolve(a.kind, a.arg, nil)
				if len(evs) == 0 {
					r.close()
					continue // the slot is empty: no event
				}
				for _, e := range evs {
					c.Evs = append(c.Evs, e)
					c.Obs = append(c.Obs, r.do(e))
				}
				hasRetired := len(r.resolve(aRecvRetired, 0, nil)) > 0
				r.finish(&c)
				r.close()
				cases = append(cases, c)
				if c.Discard != "" {
					continue
				}
				key := stateKey(c, hasRetired) + fmt.Sprintf("|i%d", min(len(r.inits), 2))
				if !seen[key] {
					seen[key] = true
					next = append(next, c.Evs)
				}
			}
		}
		frontier = next
	}
	return cases, len(seen), false
}

// ---------------------------------------------------------------- output

func optInt(x int64) uint64 {
	if x < 0 {
		return 0
	}
	return uint64(x) + 1
}

func b2i(b bool) uint64 {
	if b {
		return 1
	}
	return 0
}

func stepInts(e Ev, o Obs) []uint64 {
	var k, a, b uint64
	switch e.K {
	case "init":
		k, a = 0, e.A
	case "resp":
		k, a, b = 1, e.A, e.B
	case "cr":
		k, a = 2, e.A
	case "recv":
		k, a = 3, e.A
	case "send":
		k = 4
	case "tick":
		k, a = 5, e.A
	case "idle":
		k, a = 5, e.B // the model sees the whole seconds that have passed
	case "forge":
		k, a = 6, e.A
	case "replay":
		k, a = 7, e.A
	case "restart":
		k = 8
	case "keepalive":
		k = 9
	case "recvka":
		k, a = 11, e.A // the slice model treats a keepalive like a data message; "tun" carries "accepted"
	case "abandon":
		k = 10
	case "retransmit":
		k, a = 0, 0 // SendHandshakeInitiation(true): for the slice the same as Initiate false
	case "respw":
		// a response with an event inside its processing window: Keypairs.Check.dec_pre
		k, a, b = map[string]uint64{"recv": 12, "recvka": 13, "init": 14}[e.In], e.A%1024+1024*e.C, e.B
	}
	v := []uint64{k, a, b, optInt(o.Init), b2i(o.Resp), b2i(o.Tun)}
	for _, s := range []Slot{o.Prev, o.Cur, o.Next} {
		v = append(v, b2i(s.P), s.L, s.R, b2i(s.Init), s.Age)
	}
	v = append(v, optInt(o.Hs), b2i(o.Latch), o.Staged, optInt(o.Last), uint64(len(o.Sent)))
	v = append(v, o.Sent...)
	for _, t := range o.Table {
		v = append(v, t[0], t[1])
	}
	return v
}

func gallina(c Case) string {
	var b strings.Builder
	b.WriteString("mk [")
	for i := range c.Evs {
		if i > 0 {
			b.WriteString(";")
		}
		b.WriteString("[")
		for j, x := range stepInts(c.Evs[i], c.Obs[i]) {
			if j > 0 {
				b.WriteString(";")
			}
			fmt.Fprintf(&b, "%d", x)
		}
		b.WriteString("]")
	}
	b.WriteString("]%uint63")
	return b.String()
}

func writeShard(path string, cases []Case) error {
	var b strings.Builder
	b.WriteString("From Coq Require Import Uint63.\nFrom WG Require Import Base.Prelude Keypairs.Model Keypairs.Spec Keypairs.Check.\nLocal Open Scope N_scope.\nDefinition cases : list case := [\n")
	for i, c := range cases {
		if i > 0 {
			b.WriteString(";\n")
		}
		b.WriteString(gallina(c))
	}
	b.WriteString("].\nDefinition bad := Eval vm_compute in (check_cases cases 0).\nPrint bad.\nDefinition st := Eval vm_compute in (stats cases).\nPrint st.\n")
	return os.WriteFile(path, []byte(b.String()), 0o644)
}

func main() {
	seed := flag.Int64("seed", 1, "PRNG seed")
	n := flag.Int("n", 100, "number of random scenarios")
	depth := flag.Int("depth", 12, "events per random scenario")
	nlong := flag.Int("nlong", 0, "number of long random scenarios")
	longDepth := flag.Int("longdepth", 40, "events per long random scenario")
	exh := flag.Int("exhaustive", 0, "depth of the exhaustive enumeration (0 = none)")
	exhMax := flag.Int("exhmax", 6000, "cap on the scenarios of each exhaustive enumeration")
	exh2 := flag.Int("exhaustive2", 0, "depth of the exhaustive enumeration over the extended alphabet (0 = none)")
	shards := flag.Int("shards", 8, "case files")
	out := flag.String("out", "out/C07", "output directory")
	replayIn := flag.String("replay", "", "JSON file with cases (evs only) to run")
	corpus := flag.String("corpus", "", "directory of corpus JSON cases to run first")
	flag.Parse()
	if err := os.MkdirAll(*out, 0o755); err != nil {
		panic(err)
	}
	var cases []Case
	info := map[string]any{}
	if *replayIn != "" {
		data, err := os.ReadFile(*replayIn)
		if err != nil {
			panic(err)
		}
		var in []Case
		if err := json.Unmarshal(data, &in); err != nil {
			panic(err)
		}
		for _, c := range in {
			cases = append(cases, runConcrete(c.Evs, "replay"))
		}
		*shards = 1
	} else {
		if *corpus != "" {
			files, _ := filepath.Glob(filepath.Join(*corpus, "*.json"))
			sort.Strings(files)
			for _, f := range files {
				data, err := os.ReadFile(f)
				if err != nil {
					continue
				}
				var cs []Case
				if json.Unmarshal(data, &cs) == nil {
					for _, c := range cs {
						cases = append(cases, runConcrete(c.Evs, "corpus"))
					}
				}
			}
		}
		if *exh > 0 {
			cs, reps, trunc := exhaustive(alphabet7, "exhaustive", *exh, *exhMax)
			cases = append(cases, cs...)
			info["exhaustive_depth"] = *exh
			info["exhaustive_scenarios"] = len(cs)
			info["exhaustive_states"] = reps
			info["exhaustive_truncated"] = trunc
		}
		if *exh2 > 0 {
			cs, reps, trunc := exhaustive(alphabetFull, "exhaustive-ext", *exh2, *exhMax)
			cases = append(cases, cs...)
			info["exhaustive_ext_depth"] = *exh2
			info["exhaustive_ext_scenarios"] = len(cs)
			info["exhaustive_ext_states"] = reps
			info["exhaustive_ext_truncated"] = trunc
		}
		// scenarios with real idle time: started now, finished between the other scenarios
		var pending []*idleRun
		if *n > 0 {
			for _, sc := range idleScenarios {
				pending = append(pending, startIdle(sc.gen, sc.prefix, sc.rest))
			}
		}
		poll := func(block bool) {
			var still []*idleRun
			for _, ir := range pending {
				if c, ok := ir.tryFinish(block); ok {
					cases = append(cases, c)
				} else {
					still = append(still, ir)
				}
			}
			pending = still
		}
		rnd := rand.New(rand.NewSource(*seed))
		for i := 0; i < *n; i++ {
			d := *depth
			if i%5 == 0 {
				d = 3 + rnd.Intn(*depth)
			}
			cases = append(cases, runRandom(rnd, d))
			poll(false)
		}
		poll(true)
		for i := 0; i < *nlong; i++ {
			cases = append(cases, runRandom(rnd, *longDepth))
		}
	}
	// discarded scenarios are reported but not evaluated
	var kept []Case
	discarded := 0
	for _, c := range cases {
		if c.Discard != "" && *replayIn == "" {
			discarded++
			continue
		}
		kept = append(kept, c)
	}
	cases = kept
	if *shards > len(cases) {
		*shards = len(cases)
	}
	if *shards < 1 {
		*shards = 1
	}
	per := (len(cases) + *shards - 1) / *shards
	type shardInfo struct {
		File  string `json:"file"`
		First int    `json:"first"`
		N     int    `json:"n"`
	}
	var infos []shardInfo
	idx := 0
	for s := 0; s < *shards && idx < len(cases); s++ {
		end := idx + per
		if end > len(cases) {
			end = len(cases)
		}
		name := fmt.Sprintf("cases_C07_%d.v", s)
		if err := writeShard(filepath.Join(*out, name), cases[idx:end]); err != nil {
			panic(err)
		}
		infos = append(infos, shardInfo{name, idx, end - idx})
		idx = end
	}
	for k, v := range winStat {
		info[k] = v
	}
	meta := map[string]any{"seed": *seed, "cases": cases, "shards": infos, "discarded": discarded, "info": info}
	data, _ := json.Marshal(meta)
	if err := os.WriteFile(filepath.Join(*out, "cases.json"), data, 0o644); err != nil {
		panic(err)
	}
}
