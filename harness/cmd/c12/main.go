// c12 validates traces of the real device's crypto pipeline (property C12):
// 1-3 peers with established sessions, traffic in BOTH directions at the same
// time, bind and TUN batch sizes 1..128, mixed packet sizes, schedule
// perturbation (GOMAXPROCS, gate sleeps, CPU hogs, optionally a slow consumer
// so that the 1024-deep queues fill up).  Every inner packet carries (peer,
// sequence number).  Observed per peer: the order in which packets were handed
// to the TUN / datagrams were injected, the datagrams sent (counter, inner
// sequence number, opens-and-intact) and the packets written to the TUN.  The
// Coq checker Pipeline.Spec.holdsb decides.
package main

import (
	"encoding/binary"
	"encoding/json"
	"errors"
	"flag"
	"fmt"
	"math/rand"
	"net/netip"
	"os"
	"os/exec"
	"path/filepath"
	"runtime"
	"sort"
	"strings"
	"sync"
	"sync/atomic"
	"time"

	"golang.zx2c4.com/wireguard/conn"

	"wgv/cosim"
	"wgv/ref"
	"wgv/sim"
	"wgv/stress"
)

type Cfg struct {
	Seed      int64 `json:"seed"`
	Peers     int   `json:"peers"`
	BindBatch int   `json:"bind_batch"`
	TunBatch  int   `json:"tun_batch"`
	Procs     int   `json:"procs"`
	Hogs      int   `json:"hogs"`
	OneIn     int   `json:"one_in"`
	MaxSleep  int   `json:"max_sleep_us"`
	NOut      int   `json:"n_out"`
	NIn       int   `json:"n_in"`
	ChunkMax  int   `json:"chunk_max"`
	PaceUs    int   `json:"pace_us"`
	SlowSend  int   `json:"slow_send_us"`  // extra sleep in every Bind.Send (slow consumer, outbound)
	SlowWrite int   `json:"slow_write_us"` // extra sleep in every TUN Write (slow consumer, inbound)
	BigMix    bool  `json:"big_mix"`       // packet sizes 36..1400 instead of 36..300
	DownUp    bool  `json:"down_up"`       // prelude: Down; TUN packets for configured peers while down; Up; then the sessions
	Remove    bool  `json:"remove"`        // the LAST peer is removed (UAPI remove=true) in the middle of the traffic
	Huge      bool  `json:"huge"`          // all packets 1300..1400 bytes (Seal takes long)
	// percentage of the traffic that goes to the peer that will be removed; the rest is spread over all peers
	VictimShare int `json:"victim_share"`
	// one in Forged inbound datagrams is preceded by a forged one (live receiver index, bad tag) for the same peer
	// MTU of the simulated TUN (0 = 1420); one packet in ten has a size around or above it (mtu-1, mtu, mtu+1,
	// mtu+17, 2*mtu): the device pads relative to the MTU it cached
	MTU    int `json:"mtu"`
	Forged int `json:"forged_one_in"`
	// one in Junk inbound datagrams is preceded by a junk datagram for the same peer/socket: too short, unknown
	// receiver index, unknown type, handshake message of a wrong length, replayed datagram, keepalive, authenticated
	// message whose inner packet is malformed or has a foreign source, (JunkExpired) message under an expired keypair
	Junk        int  `json:"junk_one_in"`
	JunkExpired bool `json:"junk_expired"`
	// dedicated run: this many isolated temporary receive errors, each followed by a small inbound batch (1/3 s each)
	RecvErrs int `json:"recv_errs"`
	// this many extra goroutines flush the peers concurrently with the TUN reader (keepalives, UAPI sets) during
	// the traffic: no order is promised then, the outbound lanes are judged as multisets (exactly once, processed)
	Flushers int `json:"flushers"`
	// which extra flushers: "uapi" = only re-applications of an UNCHANGED peer setting (handlePostConfig ->
	// SendStagedPackets; nothing is ever staged by them), "mixed" = those plus keepalive senders (which stage)
	FlusherKind string `json:"flusher_kind,omitempty"`
	// the interface goes down and up this many times DURING the outbound flood (sessions are re-established by a
	// responder loop); outbound lanes: at most once, processed
	Cycles int `json:"down_up_cycles"`
	// dedicated run (hook VerifPrepareRacingBatch): a batch lands behind the stop sentinel of Peer.Stop while a
	// (gated) encryption worker holds it; then the peer is restarted
	RestartRace bool `json:"restart_race"`
	// the device is made to start a new handshake in the middle of the flood (counter raised past RekeyAfterMessages
	// by the hook, spacing lifted); a responder loop completes it; the inbound flood goes on under the OLD session
	// the whole time and must be delivered completely, in order
	Rekey bool `json:"rekey"`
	// this many TUN read batches per peer are staged BEFORE the session exists (the handshake response is held back
	// until then); the flush at handshake completion must release all of them, in order
	StagedBefore int `json:"staged_before"`
	// the remote party initiates and its first RespEarly transport messages arrive while the device's Bind.Send of
	// the handshake response is still in progress (slow send): they must be accepted and written to the TUN
	RespEarly int `json:"resp_early"`
}

type OLane struct {
	N    int         `json:"n"`    // packets handed to the TUN for this peer: sequence numbers 1..N in this order
	Sent [][3]uint64 `json:"sent"` // runs (counter, seq, length) in Bind.Send order
	Bad  int         `json:"bad"`
	N0   uint64      `json:"n0"`
}

type ILane struct {
	N   int         `json:"n"`  // datagrams injected for this peer: sequence numbers 1..N in this order
	Wr  [][2]uint64 `json:"wr"` // runs (seq, length) in TUN write order
	Bad int         `json:"bad"`
}

type Case struct {
	Cfg   Cfg            `json:"cfg"`
	Out   []OLane        `json:"out"`
	In    []ILane        `json:"in"`
	Quiet bool           `json:"quiet"`
	Info  map[string]any `json:"info"`
	// index of the peer removed during the run (-1 = none): its lanes only have to be prefixes
	Removed int `json:"removed"`
	// how the outbound lanes are judged: "" = order + counters, "multi" = exactly once, "atmost" = at most once
	Mode string `json:"mode,omitempty"`
}

func pktLen2(r *rand.Rand, c Cfg) int {
	if c.MTU > 0 && r.Intn(10) == 0 {
		return []int{c.MTU - 1, c.MTU, c.MTU + 1, c.MTU + 17, 2 * c.MTU, c.MTU - 16, c.MTU - 15}[r.Intn(7)]
	}
	if c.Huge {
		return 1300 + r.Intn(100)
	}
	return pktLen(r, c.BigMix)
}

func pktLen(r *rand.Rand, big bool) int {
	if big {
		switch r.Intn(4) {
		case 0:
			return 36 + r.Intn(40)
		case 1:
			return 1300 + r.Intn(100)
		default:
			return 36 + r.Intn(1364)
		}
	}
	return 36 + r.Intn(264)
}

func runCase(c Cfg) Case {
	r := rand.New(rand.NewSource(c.Seed))
	rng := stress.NewRng(uint64(c.Seed) + 77)
	var peers []*cosim.RefPeer
	for i := 0; i < c.Peers; i++ {
		p := cosim.NewPeer(fmt.Sprintf("P%d", i), fmt.Sprintf("192.0.2.%d:%d", 10+i, 5000+i), fmt.Sprintf("10.0.%d.0/24", i))
		p.NextIdx = uint32(0x10000 * (i + 1))
		peers = append(peers, p)
	}
	var fb *stress.FaultyBind
	var w *cosim.World
	var err error
	if c.RecvErrs > 0 {
		w, err = cosim.NewWorldWrapped(cosim.Config{Up: true, BindBatch: c.BindBatch, TunBatch: c.TunBatch, MTU: c.MTU}, true,
			func(b *sim.Bind) conn.Bind { fb = stress.NewFaultyBind(b); return fb }, peers...)
	} else {
		w, err = cosim.NewWorld(cosim.Config{Up: true, BindBatch: c.BindBatch, TunBatch: c.TunBatch, MTU: c.MTU}, true, peers...)
	}
	if err != nil {
		panic(err)
	}
	w.Timeout = 10 * time.Second
	info := map[string]any{}
	cs := Case{Cfg: c, Info: info, Removed: -1}
	if c.Flushers > 0 || c.Rekey {
		cs.Mode = "multi" // outbound: no order is promised around a handshake; exactly once, processed
	}
	if c.Cycles > 0 || c.RestartRace {
		cs.Mode = "atmost"
	}
	fail := func(msg string) Case {
		// the pipeline could not even be set up (or wedged while being set up): a failed run
		info["error"] = msg
		cs.Quiet = false
		cs.Out = []OLane{{N: c.NOut, Bad: 1, Sent: [][3]uint64{}}}
		cs.In = []ILane{{N: c.NIn, Bad: 1, Wr: [][2]uint64{}}}
		closed := make(chan struct{})
		go func() { w.Close(); close(closed) }()
		select {
		case <-closed:
		case <-time.After(3 * time.Second):
		}
		return cs
	}
	if c.DownUp {
		// interface goes down; the TUN still delivers packets for configured peers; interface comes up again
		w.TunIn(stress.Packet([4]byte{10, 9, 9, 9}, [4]byte{10, 0, 0, 2}, 40, 0, 0)) // some traffic before (starts a handshake, unanswered)
		if err := w.Dev.Down(); err != nil {
			return fail("down: " + err.Error())
		}
		for k := 0; k < 3; k++ {
			for i := range peers {
				w.Tun.Inject(stress.Packet([4]byte{10, 9, 9, 9}, [4]byte{10, 0, byte(i), 2}, 60+k, uint64(i), 0))
			}
			w.Settle()
		}
		if err := w.Dev.Up(); err != nil {
			return fail("up: " + err.Error())
		}
		for _, p := range peers { // the spacing of initiations must not hide the new ones
			w.Dev.VerifShiftHandshakeTimes(cosim.NoisePK(p.Pub), 6*time.Second)
		}
		w.Take()
	}
	w.Timeout = 5 * time.Second
	cs.Out = make([]OLane, len(peers))
	cs.In = make([]ILane, len(peers))
	for i := range peers {
		cs.Out[i].Sent = [][3]uint64{}
		cs.In[i].Wr = [][2]uint64{}
	}
	var setupSent []sim.Sent
	var setupWritten []sim.Written
	special := c.StagedBefore > 0 || c.RespEarly > 0
	for i, p := range peers {
		switch {
		case c.RespEarly > 0:
			// the device is the RESPONDER; its Send of the response is slow, the initiator's first data overtakes it
			p.NextIdx++
			st := ref.CreateInitiation(p.Priv, ref.NewPrivate(), w.DevPub, p.Psk, p.NextIdx, ref.Tai64n(time.Now()))
			var sess *ref.Session
			w.Bind.SendGate = func(bufs [][]byte, to netip.AddrPort) {
				if sess != nil || len(bufs) != 1 || len(bufs[0]) != ref.ResponseSize || bufs[0][0] != ref.TypeResponse {
					return
				}
				s2, err := st.ConsumeResponse(bufs[0])
				if err != nil {
					return
				}
				sess = s2
				ds := make([]sim.Dgram, c.RespEarly)
				for k := range ds {
					cs.In[i].N++
					inner := stress.Packet([4]byte{10, 0, byte(i), 2}, [4]byte{10, 9, 9, 9}, pktLen2(r, c), uint64(i), uint64(cs.In[i].N))
					ds[k] = sim.Dgram{From: p.Addr, Data: sess.Next(ref.Pad(inner))}
				}
				w.Bind.Inject(ds...)
				for dl := time.Now().Add(200 * time.Millisecond); !w.Bind.Idle() && time.Now().Before(dl); {
					time.Sleep(200 * time.Microsecond)
				}
				time.Sleep(3 * time.Millisecond) // the response is still "being sent" while the data is processed
			}
			out := w.Inject(p.Addr, st.Msg)
			w.Bind.SendGate = nil
			if sess == nil {
				return fail("no handshake response towards " + p.Name)
			}
			p.Sessions = append(p.Sessions, sess)
			setupSent = append(setupSent, out.Sent...)
			setupWritten = append(setupWritten, out.Written...)
		case c.StagedBefore > 0:
			// several TUN read batches are staged while no session exists; then the handshake completes
			var init *sim.Sent
			for b := 0; b < c.StagedBefore; b++ {
				n := 1 + r.Intn(8)
				pkts := make([][]byte, n)
				for k := range pkts {
					cs.Out[i].N++
					pkts[k] = stress.Packet([4]byte{10, 9, 9, 9}, [4]byte{10, 0, byte(i), 2}, pktLen2(r, c), uint64(i), uint64(cs.Out[i].N))
				}
				out := w.TunIn(pkts...)
				if b == 0 {
					init = cosim.FindInitiation(out.Sent)
				}
			}
			if init == nil {
				return fail("no initiation towards " + p.Name)
			}
			_, aout, err := w.AnswerInitiation(p, init.Data, p.Addr)
			if err != nil {
				return fail(err.Error())
			}
			setupSent = append(setupSent, aout.Sent...)
		default:
			out := w.TunIn(stress.Packet([4]byte{10, 9, 9, 9}, [4]byte{10, 0, byte(i), 2}, 40, uint64(i), 0))
			init := cosim.FindInitiation(out.Sent)
			if init == nil {
				return fail("no initiation towards " + p.Name)
			}
			if _, _, err := w.AnswerInitiation(p, init.Data, p.Addr); err != nil {
				return fail(err.Error())
			}
		}
	}
	if o := w.Take(); special {
		setupSent = append(setupSent, o.Sent...)
		setupWritten = append(setupWritten, o.Written...)
	}
	w.Timeout = 10 * time.Second
	for i, p := range peers {
		cs.Out[i].N0 = w.Dev.VerifPeer(cosim.NoisePK(p.Pub)).Current.SendNonce
		if c.StagedBefore > 0 {
			cs.Out[i].N0 = 0 // the staged packets are the first under the new key
		}
	}

	if c.RestartRace {
		release := make(chan struct{})
		entered := make(chan struct{}, 16)
		gate := func() {
			select {
			case entered <- struct{}{}:
			default:
			}
			<-release
		}
		var pkts [][]byte
		for k := 1; k <= 4; k++ {
			pkts = append(pkts, stress.Packet([4]byte{10, 9, 9, 9}, [4]byte{10, 0, 0, 2}, 200+k, 0, uint64(k)))
		}
		cs.Out[0].N = 4
		h := w.Dev.VerifPrepareRacingBatch(cosim.NoisePK(peers[0].Pub), pkts, gate)
		if h == nil {
			return fail("no current keypair for the racing batch")
		}
		if err := w.Dev.Down(); err != nil {
			return fail("down: " + err.Error())
		}
		h.Enqueue() // the flusher that passed the isRunning check before Stop swapped it
		select {
		case <-entered:
		case <-time.After(2 * time.Second):
			return fail("no encryption worker took the left-over batch")
		}
		upDone := make(chan error, 1)
		go func() { upDone <- w.Dev.Up() }()
		early := false
		select {
		case <-upDone:
			early = true
		case <-time.After(300 * time.Millisecond):
		}
		info["restart_returned_while_worker_held_batch"] = early
		if early {
			cs.Out[0].Bad++ // the batch was released (buffers back in the pools) before its processing completed
		}
		close(release)
		if !early {
			select {
			case <-upDone:
			case <-time.After(5 * time.Second):
				return fail("Up did not return after the worker finished")
			}
		}
		time.Sleep(50 * time.Millisecond) // the late worker touches the recycled elements now
		// the pipeline must still work for the other peer: new session, then a burst
		y := len(peers) - 1
		w.Dev.VerifShiftHandshakeTimes(cosim.NoisePK(peers[y].Pub), 6*time.Second)
		out := w.TunIn(stress.Packet([4]byte{10, 9, 9, 9}, [4]byte{10, 0, byte(y), 2}, 40, uint64(y), 0))
		init := cosim.FindInitiation(out.Sent)
		if init == nil {
			return fail("no initiation after the restart")
		}
		if _, _, err := w.AnswerInitiation(peers[y], init.Data, peers[y].Addr); err != nil {
			return fail(err.Error())
		}
		w.Take()
		var burst [][]byte
		for k := 1; k <= 60; k++ {
			burst = append(burst, stress.Packet([4]byte{10, 9, 9, 9}, [4]byte{10, 0, byte(y), 2}, 100+k*7, uint64(y), uint64(k)))
		}
		cs.Out[y].N += 60
		w.Tun.Inject(burst...)
		w.Settle()
	}
	// traffic plans (built before the perturbation starts)
	type item struct {
		peer int
		data []byte
	}
	var outPlan, inPlan []item
	victim := len(peers) - 1
	pick := func() int {
		if c.Remove && r.Intn(100) < c.VictimShare {
			return victim // most of the load goes to the peer that will be removed
		}
		return r.Intn(len(peers))
	}
	if c.Remove {
		cs.Removed = victim
	}
	for k := 0; k < c.NOut; k++ {
		pi := pick()
		cs.Out[pi].N++
		outPlan = append(outPlan, item{pi, stress.Packet([4]byte{10, 9, 9, 9}, [4]byte{10, 0, byte(pi), 2}, pktLen2(r, c), uint64(pi), uint64(cs.Out[pi].N))})
	}
	// (JunkExpired) peer 0 gets a second session; its first keypair is aged beyond RejectAfterTime but keeps its index
	var oldSess *ref.Session
	if c.JunkExpired && !special && len(peers) > 0 {
		pk0 := cosim.NoisePK(peers[0].Pub)
		oldSess = peers[0].Session()
		w.Dev.VerifShiftKeypairAges(pk0, 200*time.Second)
		w.Dev.VerifShiftHandshakeTimes(pk0, 6*time.Second)
		out := w.TunIn(stress.Packet([4]byte{10, 9, 9, 9}, [4]byte{10, 0, 0, 2}, 40, 0, 0))
		init := cosim.FindInitiation(out.Sent)
		if init == nil {
			return fail("no initiation after the keypair expired")
		}
		if _, _, err := w.AnswerInitiation(peers[0], init.Data, peers[0].Addr); err != nil {
			return fail(err.Error())
		}
		w.Take()
		cs.Out[0].N0 = w.Dev.VerifPeer(pk0).Current.SendNonce
	}
	nForged, nJunk := 0, 0
	lastGenuine := make([][]byte, len(peers))
	junk := func(pi int) []byte {
		sess := peers[pi].Session()
		mk := func(n int, t byte) []byte {
			b := make([]byte, n)
			for i := range b {
				b[i] = byte(r.Intn(256))
			}
			b[0], b[1], b[2], b[3] = t, 0, 0, 0
			return b
		}
		kind := r.Intn(12)
		if kind == 11 && (oldSess == nil || pi != 0) {
			kind = r.Intn(11)
		}
		switch kind {
		case 0: // shorter than the smallest message
			return mk(4+r.Intn(28), []byte{4, 4, 1, 2, 3, 9}[r.Intn(6)])
		case 1: // transport message for a receiver index nobody announced
			b := sess.Transport(sess.SendCtr+uint64(1<<20), ref.Pad(stress.Packet([4]byte{10, 0, byte(pi), 2}, [4]byte{10, 9, 9, 9}, 60, uint64(pi), 0)))
			binary.LittleEndian.PutUint32(b[4:8], 0xdead0000+uint32(r.Intn(65536)))
			return b
		case 2: // unknown message type
			return mk(32+r.Intn(200), []byte{0, 5, 7, 255}[r.Intn(4)])
		case 3: // handshake messages of a wrong length
			return mk([]int{147, 149, 91, 93, 63, 65}[r.Intn(6)], []byte{1, 1, 2, 2, 3, 3}[r.Intn(6)])
		case 4: // wrong length, other pairing
			return mk([]int{92, 64, 148, 64, 148, 92}[r.Intn(6)], []byte{1, 1, 2, 2, 3, 3}[r.Intn(6)])
		case 5: // replay of the last genuine datagram of this peer
			if lastGenuine[pi] != nil {
				return append([]byte{}, lastGenuine[pi]...)
			}
			return mk(20, 4)
		case 6: // keepalive
			return sess.Next(nil)
		case 7: // authenticated, inner packet with an invalid IP version
			in := stress.Packet([4]byte{10, 0, byte(pi), 2}, [4]byte{10, 9, 9, 9}, 60, uint64(pi), 0)
			in[0] = 0x75
			return sess.Next(ref.Pad(in))
		case 8: // authenticated, inner packet shorter than an IPv4 header
			return sess.Next(ref.Pad([]byte{0x45, 0, 0, 12, 0, 0, 0, 0, 64, 17, 0, 0}))
		case 9: // authenticated, IPv4 total length beyond the message
			in := stress.Packet([4]byte{10, 0, byte(pi), 2}, [4]byte{10, 9, 9, 9}, 60, uint64(pi), 0)
			binary.BigEndian.PutUint16(in[2:], 900)
			return sess.Next(ref.Pad(in))
		case 10: // authenticated, source address that is not this peer's
			return sess.Next(ref.Pad(stress.Packet([4]byte{10, 77, byte(pi), 2}, [4]byte{10, 9, 9, 9}, 60, uint64(pi), 0)))
		default: // valid message under the aged keypair (index still announced, keypair beyond RejectAfterTime)
			return oldSess.Next(ref.Pad(stress.Packet([4]byte{10, 0, 0, 2}, [4]byte{10, 9, 9, 9}, 60, 0, 0)))
		}
	}
	for k := 0; k < c.NIn; k++ {
		pi := pick()
		cs.In[pi].N++
		inner := stress.Packet([4]byte{10, 0, byte(pi), 2}, [4]byte{10, 9, 9, 9}, pktLen2(r, c), uint64(pi), uint64(cs.In[pi].N))
		if c.Forged > 0 && r.Intn(c.Forged) == 0 {
			// a datagram with this peer's live receiver index that does not authenticate: it must produce no TUN
			// write and must not disturb the genuine datagrams around it
			sess := peers[pi].Session()
			f := sess.Transport(sess.SendCtr+uint64(1<<20), ref.Pad(inner))
			f[len(f)-1-r.Intn(16)] ^= 0x55
			inPlan = append(inPlan, item{pi, f})
			nForged++
		}
		if c.Junk > 0 && r.Intn(c.Junk) == 0 {
			inPlan = append(inPlan, item{pi, junk(pi)})
			nJunk++
		}
		g := peers[pi].Session().Next(ref.Pad(inner))
		lastGenuine[pi] = g
		inPlan = append(inPlan, item{pi, g})
	}

	pcfg := stress.Config{Procs: c.Procs, Hogs: c.Hogs, OneIn: c.OneIn, MaxSleep: time.Duration(c.MaxSleep) * time.Microsecond}
	per := stress.Start(w, rng, pcfg)
	removed := make(chan error, 1)
	var sentToVictim atomic.Int64
	var removeOnce sync.Once
	removeAfter := int64(20 + r.Intn(200))     // datagrams of the victim seen on the wire before it may be removed
	encBacklog := []int{1, 2, 4, 8}[r.Intn(4)] // ... and this many containers waiting for an encryption worker
	doRemove := func() {
		removeOnce.Do(func() {
			go func() {
				removed <- w.Dev.IpcSet(fmt.Sprintf("public_key=%x\nremove=true\n", peers[victim].Pub[:]))
			}()
		})
	}
	stopWatch := make(chan struct{})
	if c.Remove {
		// remove the victim at a moment when its traffic flows AND containers are queued for encryption
		go func() {
			for {
				select {
				case <-stopWatch:
					return
				default:
				}
				if sentToVictim.Load() >= removeAfter {
					if enc, _, _ := w.Dev.VerifQueueLens(); enc >= encBacklog {
						doRemove()
						return
					}
				}
				time.Sleep(20 * time.Microsecond)
			}
		}()
	}
	w.Bind.SendGate = func(bufs [][]byte, to netip.AddrPort) {
		if c.Remove && to == peers[victim].Addr {
			sentToVictim.Add(int64(len(bufs)))
		}
		stress.Nap(rng, pcfg)
		if c.SlowSend > 0 {
			time.Sleep(time.Duration(c.SlowSend) * time.Microsecond)
		}
	}
	w.Tun.WriteGate = func(bufs [][]byte) {
		stress.Nap(rng, pcfg)
		if c.SlowWrite > 0 {
			time.Sleep(time.Duration(c.SlowWrite) * time.Microsecond)
		}
	}
	// everything sent, in order (in cycle runs a responder loop drains the bind while the run goes on)
	var allSent []sim.Sent
	var collMu sync.Mutex
	var collStop atomic.Bool
	var collWg sync.WaitGroup
	var nextIdx atomic.Uint32
	nextIdx.Store(0x500000)
	if c.Cycles > 0 || c.Rekey {
		addrPeer := map[string]int{}
		for i, p := range peers {
			addrPeer[p.Addr.String()] = i
		}
		collWg.Add(1)
		go func() {
			defer collWg.Done()
			for {
				stop := collStop.Load()
				batch := w.Bind.TakeSent()
				collMu.Lock()
				allSent = append(allSent, batch...)
				collMu.Unlock()
				for _, s := range batch {
					if len(s.Data) == ref.InitiationSize && s.Data[0] == ref.TypeInitiation {
						pi, ok := addrPeer[s.To.String()]
						if !ok {
							continue
						}
						st, err := ref.ConsumeInitiation(s.Data, peers[pi].Priv)
						if err != nil {
							continue
						}
						resp, sess := st.CreateResponse(ref.NewPrivate(), peers[pi].Psk, nextIdx.Add(1))
						collMu.Lock()
						peers[pi].Sessions = append(peers[pi].Sessions, sess)
						collMu.Unlock()
						w.Bind.Inject(sim.Dgram{From: peers[pi].Addr, Data: resp})
					}
				}
				if stop {
					return
				}
				time.Sleep(150 * time.Microsecond)
			}
		}()
	}
	var auxStop atomic.Bool
	var auxWg sync.WaitGroup
	for g := 0; g < c.Flushers; g++ {
		auxWg.Add(1)
		go func() {
			defer auxWg.Done()
			on := false
			for !auxStop.Load() {
				switch {
				case c.FlusherKind == "uapi" || g%3 == 1:
					// an unchanged setting: no keepalive is staged, the set only runs SendStagedPackets for the peer
					pi := rng.Intn(len(peers))
					w.Dev.IpcSet(fmt.Sprintf("public_key=%x\npersistent_keepalive_interval=0\nendpoint=%s\n", peers[pi].Pub[:], peers[pi].Addr))
				case g%3 == 0:
					w.Dev.SendKeepalivesToPeersWithCurrentKeypair()
				default:
					pi := rng.Intn(len(peers))
					on = !on
					v := 0
					if on {
						v = 3600
					}
					w.Dev.IpcSet(fmt.Sprintf("public_key=%x\npersistent_keepalive_interval=%d\n", peers[pi].Pub[:], v))
				}
				if c.PaceUs > 0 {
					time.Sleep(time.Duration(rng.Intn(c.PaceUs+1)) * time.Microsecond)
				} else {
					runtime.Gosched()
				}
			}
		}()
	}
	if c.Rekey {
		auxWg.Add(1)
		go func() {
			defer auxWg.Done()
			time.Sleep(time.Duration(3000+rng.Intn(6000)) * time.Microsecond)
			for _, p := range peers {
				pk := cosim.NoisePK(p.Pub)
				w.Dev.VerifShiftHandshakeTimes(pk, 6*time.Second)
				w.Dev.VerifSetSendNonce(pk, uint64(1)<<60+1+uint64(rng.Intn(1000))) // raising only: sound at any time
			}
		}()
	}
	if c.Cycles > 0 {
		auxWg.Add(1)
		go func() {
			defer auxWg.Done()
			for k := 0; k < c.Cycles && !auxStop.Load(); k++ {
				time.Sleep(time.Duration(2000+rng.Intn(6000)) * time.Microsecond)
				w.Dev.Down()
				if rng.Intn(2) == 0 {
					time.Sleep(time.Duration(rng.Intn(300)) * time.Microsecond)
				}
				w.Dev.Up()
				for _, p := range peers {
					w.Dev.VerifShiftHandshakeTimes(cosim.NoisePK(p.Pub), 6*time.Second)
				}
			}
		}()
	}
	t0 := time.Now()
	var wg sync.WaitGroup
	if c.RecvErrs > 0 {
		// isolated temporary receive errors, each followed by ordinary traffic that must all arrive
		per := len(inPlan)/(c.RecvErrs+1) + 1
		for i, round := 0, 0; i < len(inPlan); round++ {
			n := per
			if i+n > len(inPlan) {
				n = len(inPlan) - i
			}
			if round > 0 && round <= c.RecvErrs {
				fb.Arm(1) // the receive call AFTER this batch returns the error; the routine sleeps 1/3 s
			}
			ds := make([]sim.Dgram, n)
			for k := range ds {
				ds[k] = sim.Dgram{From: peers[inPlan[i+k].peer].Addr, Data: inPlan[i+k].data}
			}
			w.Bind.Inject(ds...)
			i += n
			dl := time.Now().Add(3 * time.Second)
			for !w.Bind.Idle() && time.Now().Before(dl) { // a dead receive routine leaves the batch untaken
				time.Sleep(2 * time.Millisecond)
			}
			w.Settle()
		}
		info["recv_errors_returned"] = fb.Returned.Load()
		inPlan, outPlan = nil, nil
	}
	wg.Add(2)
	go func() {
		defer wg.Done()
		for i := 0; i < len(outPlan); {

			n := 1 + rng.Intn(c.ChunkMax)
			if i+n > len(outPlan) {
				n = len(outPlan) - i
			}
			pk := make([][]byte, n)
			for k := range pk {
				pk[k] = outPlan[i+k].data
			}
			w.Tun.Inject(pk...)
			i += n
			if c.PaceUs > 0 {
				time.Sleep(time.Duration(rng.Intn(c.PaceUs+1)) * time.Microsecond)
			}
		}
	}()
	go func() {
		defer wg.Done()
		for i := 0; i < len(inPlan); {
			n := 1 + rng.Intn(c.ChunkMax)
			if i+n > len(inPlan) {
				n = len(inPlan) - i
			}
			ds := make([]sim.Dgram, n)
			for k := range ds {
				ds[k] = sim.Dgram{From: peers[inPlan[i+k].peer].Addr, Data: inPlan[i+k].data}
			}
			w.Bind.Inject(ds...)
			i += n
			if c.PaceUs > 0 {
				time.Sleep(time.Duration(rng.Intn(c.PaceUs+1)) * time.Microsecond)
			}
		}
	}()
	{
		// the producers block in Tun.Inject / Bind.Inject when the device stops reading: bounded wait
		pdone := make(chan struct{})
		go func() { wg.Wait(); close(pdone) }()
		select {
		case <-pdone:
		case <-time.After(15 * time.Second):
			info["producers_blocked"] = true
		}
	}
	if c.Remove {
		// the producers are done injecting; the device is still working: wait for the trigger (or for the device to run dry)
		for dl := time.Now().Add(10 * time.Second); sentToVictim.Load() < removeAfter && time.Now().Before(dl); {
			if sim.Quiesce(w.Dev, w.Bind, w.Tun, 2*time.Millisecond) {
				break
			}
		}
		close(stopWatch)
		doRemove() // the wished-for moment never came: remove it now
		select {
		case err := <-removed:
			if err != nil {
				info["remove_error"] = err.Error()
			}
		case <-time.After(20 * time.Second):
			info["remove_hung"] = true
		}
	}
	if c.Cycles > 0 {
		// keep the flood going until the last cycle is over
		dl := time.Now().Add(20 * time.Second)
		done := make(chan struct{})
		go func() { auxWg.Wait(); close(done) }()
		select {
		case <-done:
		case <-time.After(time.Until(dl)):
			info["cycles_hung"] = true
		}
	}
	auxStop.Store(true)
	{
		done := make(chan struct{})
		go func() { auxWg.Wait(); close(done) }()
		select {
		case <-done:
		case <-time.After(10 * time.Second):
			info["flushers_hung"] = true
		}
	}
	if _, blocked := info["producers_blocked"]; blocked {
		w.Timeout = 500 * time.Millisecond
	}
	cs.Quiet = w.Settle()
	if !cs.Quiet && !w.Tun.Idle() {
		// the device did not come to rest within the deadline and packets handed to the TUN are still unread: is the
		// TUN reader still making progress (slow machine) or has it stopped reading (stall)?
		collMu.Lock()
		allSent = append(allSent, w.Bind.TakeSent()...)
		n0 := len(allSent)
		collMu.Unlock()
		time.Sleep(2 * time.Second)
		collMu.Lock()
		allSent = append(allSent, w.Bind.TakeSent()...)
		n1 := len(allSent)
		collMu.Unlock()
		if n1 == n0 && !w.Tun.Idle() {
			info["tun_reader_stalled"] = true
			cs.Out[0].Bad++ // "every submitted packet comes out", "finishes its work"
		}
	}
	info["wall_ms"] = time.Since(t0).Milliseconds()
	per.Stop()
	collStop.Store(true)
	collWg.Wait()
	collMu.Lock()
	sent := append(append(setupSent, allSent...), w.Bind.TakeSent()...)
	collMu.Unlock()
	if _, hung := info["cycles_hung"]; hung {
		cs.Quiet = false
		cs.Out[0].Bad++ // Down/Up never returned: the pipeline is wedged
	}
	if _, hung := info["flushers_hung"]; hung {
		cs.Quiet = false
		cs.Out[0].Bad++
	}
	written := append(setupWritten, w.Tun.TakeWritten()...)
	closed := make(chan struct{})
	go func() { w.Close(); close(closed) }()
	select {
	case <-closed:
	case <-time.After(5 * time.Second):
		info["close_hung"] = true
	}

	peerByAddr := map[string]int{}
	for i, p := range peers {
		peerByAddr[p.Addr.String()] = i
	}
	other := 0
	for _, s := range sent {
		pi, ok := peerByAddr[s.To.String()]
		if !ok {
			other++
			continue
		}
		l := &cs.Out[pi]
		if cs.Mode != "" && len(s.Data) == ref.InitiationSize && s.Data[0] == ref.TypeInitiation {
			continue // handshakes are expected in these runs
		}
		if c.RespEarly > 0 && len(s.Data) == ref.ResponseSize && s.Data[0] == ref.TypeResponse {
			continue // the handshake response of the prelude
		}
		if len(s.Data) < 32 || s.Data[0] != ref.TypeTransport {
			l.Bad++ // not a transport message at all (e.g. emitted before encryption)
			continue
		}
		var ctr uint64
		var pt []byte
		err := errors.New("no session")
		ridx := binary.LittleEndian.Uint32(s.Data[4:8])
		for _, sess := range peers[pi].Sessions {
			if sess.LocalIdx == ridx {
				_, ctr, pt, err = sess.OpenTransport(s.Data)
			}
		}
		if err != nil {
			l.Bad++
			continue
		}
		if cs.Mode != "" && len(pt) == 0 {
			continue // a keepalive of one of the extra flushers: well-formed, carries no packet
		}
		flow, seq, _, okp := stress.Parse(pt)
		if !okp || int(flow) != pi {
			l.Bad++
			continue
		}
		if n := len(l.Sent); n > 0 && l.Sent[n-1][0]+l.Sent[n-1][2] == ctr && l.Sent[n-1][1]+l.Sent[n-1][2] == seq {
			l.Sent[n-1][2]++
		} else {
			l.Sent = append(l.Sent, [3]uint64{ctr, seq, 1})
		}
	}
	for _, x := range written {
		flow, seq, n, okp := stress.Parse(x.Data)
		pi := int(flow)
		if len(x.Data) >= 20 && x.Data[12] == 10 && x.Data[13] == 0 {
			pi = int(x.Data[14])
		}
		if pi < 0 || pi >= len(peers) {
			other++
			continue
		}
		l := &cs.In[pi]
		if !okp || n != len(x.Data) || int(flow) != pi || binary.BigEndian.Uint16(x.Data[2:]) != uint16(len(x.Data)) {
			l.Bad++
			continue
		}
		if k := len(l.Wr); k > 0 && l.Wr[k-1][0]+l.Wr[k-1][1] == seq {
			l.Wr[k-1][1]++
		} else {
			l.Wr = append(l.Wr, [2]uint64{seq, 1})
		}
	}
	info["forged"] = nForged
	info["junk"] = nJunk
	info["other"] = other
	info["datagrams"] = len(sent)
	info["written"] = len(written)
	return cs
}

// isolated runs one configuration in a child process, so that a crash of the
// device (fatal error / panic in one of its goroutines) is reported as a failed
// run of that configuration instead of killing the whole harness.
func isolated(c Cfg) Case {
	js, _ := json.Marshal(c)
	cmd := exec.Command(os.Args[0], "-one", string(js))
	var stderr strings.Builder
	cmd.Stderr = &stderr
	done := make(chan struct{})
	var out []byte
	var err error
	go func() { out, err = cmd.Output(); close(done) }()
	select {
	case <-done:
	case <-time.After(120 * time.Second):
		cmd.Process.Kill()
		<-done
		err = fmt.Errorf("timeout")
	}
	var cs Case
	if err == nil && json.Unmarshal(out, &cs) == nil && cs.Info != nil {
		return cs
	}
	msg := stderr.String()
	if len(msg) > 600 {
		msg = msg[:600]
	}
	cs = Case{Cfg: c, Quiet: false, Removed: -1, Info: map[string]any{"crash": fmt.Sprintf("%v: %s", err, msg)}}
	cs.Out = []OLane{{N: c.NOut, Bad: 1, Sent: [][3]uint64{}}} // a run that died did not finish its work
	cs.In = []ILane{{N: c.NIn, Bad: 1, Wr: [][2]uint64{}}}
	return cs
}

func gallina(c Case) string {
	var b strings.Builder
	full := c
	var pout []OLane
	var pin []ILane
	if c.Removed >= 0 && c.Removed < len(c.Out) && c.Removed < len(c.In) {
		pout, pin = []OLane{c.Out[c.Removed]}, []ILane{c.In[c.Removed]}
		full.Out = append(append([]OLane{}, c.Out[:c.Removed]...), c.Out[c.Removed+1:]...)
		full.In = append(append([]ILane{}, c.In[:c.Removed]...), c.In[c.Removed+1:]...)
	}
	var mout, uout []OLane
	switch c.Mode {
	case "multi":
		mout, full.Out = full.Out, nil
	case "atmost":
		uout, full.Out = full.Out, nil
	}
	onlyOut := func(ls []OLane) string { // "[ol ..; ol ..]"
		t := strings.TrimPrefix(gallinaLanes(ls, nil), "mk ")
		return strings.TrimSuffix(t, " []")
	}
	b.WriteString(gallinaLanes(full.Out, full.In))
	fmt.Fprintf(&b, " %v [", c.Quiet)
	for i, l := range full.Out {
		if i > 0 {
			b.WriteString(";")
		}
		fmt.Fprintf(&b, "%d", l.N0)
	}
	b.WriteString("] ")
	b.WriteString(strings.TrimPrefix(gallinaLanes(pout, pin), "mk "))
	b.WriteString(" " + onlyOut(mout) + " " + onlyOut(uout))
	return b.String()
}

func gallinaLanes(out []OLane, in []ILane) string {
	c := Case{Out: out, In: in}
	var b strings.Builder
	b.WriteString("mk [")
	for i, l := range c.Out {
		if i > 0 {
			b.WriteString("; ")
		}
		if l.N > 0 {
			fmt.Fprintf(&b, "ol [1;%d] [", l.N)
		} else {
			b.WriteString("ol [] [")
		}
		for k, s := range l.Sent {
			if k > 0 {
				b.WriteString(";")
			}
			fmt.Fprintf(&b, "%d;%d;%d", s[0], s[1], s[2])
		}
		fmt.Fprintf(&b, "] %d", l.Bad)
	}
	b.WriteString("] [")
	for i, l := range c.In {
		if i > 0 {
			b.WriteString("; ")
		}
		if l.N > 0 {
			fmt.Fprintf(&b, "il [1;%d] [", l.N)
		} else {
			b.WriteString("il [] [")
		}
		for k, s := range l.Wr {
			if k > 0 {
				b.WriteString(";")
			}
			fmt.Fprintf(&b, "%d;%d", s[0], s[1])
		}
		fmt.Fprintf(&b, "] %d", l.Bad)
	}
	b.WriteString("]")
	return b.String()
}

func writeShard(path string, cases []Case) error {
	var b strings.Builder
	b.WriteString("From Coq Require Import Uint63.\nFrom WG Require Import Base.Prelude Pipeline.Spec Pipeline.Check.\nLocal Open Scope uint63_scope.\nDefinition cases : list case := [\n")
	for i, c := range cases {
		if i > 0 {
			b.WriteString(";\n")
		}
		b.WriteString(gallina(c))
	}
	b.WriteString("].\nDefinition bad := Eval vm_compute in (check_cases cases 0%N).\nPrint bad.\nDefinition st := Eval vm_compute in (stats cases).\nPrint st.\n")
	return os.WriteFile(path, []byte(b.String()), 0o644)
}

func genCfg(r *rand.Rand, i int, pkts int) Cfg {
	batches := []int{1, 2, 7, 16, 32, 64, 128}
	procs := []int{runtime.NumCPU(), 1, 2, 4, 8, 3, 16}
	c := Cfg{Seed: r.Int63(), Peers: 1 + r.Intn(3), BindBatch: batches[r.Intn(len(batches))], TunBatch: batches[r.Intn(len(batches))],
		Procs: procs[i%len(procs)], Hogs: []int{0, 0, 2, 6}[r.Intn(4)], OneIn: []int{0, 8, 64, 512}[r.Intn(4)], MaxSleep: []int{20, 200, 1000}[r.Intn(3)],
		NOut: pkts, NIn: pkts, ChunkMax: []int{1, 8, 128, 256}[r.Intn(4)], PaceUs: []int{0, 50, 300}[r.Intn(3)], BigMix: r.Intn(3) != 0}
	if c.Procs > runtime.NumCPU() {
		c.Procs = runtime.NumCPU()
	}
	if i%2 == 0 {
		c.Forged = []int{4, 10, 40}[r.Intn(3)]
	}
	c.MTU = []int{576, 1280, 1420, 1500}[r.Intn(4)]
	if i%3 != 2 {
		c.Junk = []int{3, 8, 25}[r.Intn(3)]
	}
	c.JunkExpired = i%6 == 1
	switch i % 6 {
	case 1: // interface down/up with TUN traffic while down, then pipelined multi-peer batches
		c.DownUp = true
		if c.Peers < 2 {
			c.Peers = 2
		}
		c.TunBatch, c.ChunkMax, c.PaceUs = []int{16, 64, 128}[r.Intn(3)], 256, 0
	case 3: // a peer is removed in the middle of the traffic while its containers are queued for encryption
		// (measured: the workers must be the bottleneck as seen by the removed peer's sender -- few Ps, three
		// peers flooding 1300..1400-byte packets, 128-packet reads; with 16 Ps the workers are always ahead)
		c.Remove, c.Huge = true, true
		c.Peers = 3
		c.TunBatch, c.ChunkMax, c.PaceUs = 128, 256, 0
		c.Procs = 2
		c.Hogs, c.OneIn = 0, 0
		c.VictimShare = []int{5, 5, 20, 60}[r.Intn(4)]
		if c.NOut < 3000 {
			c.NOut = 3000
		}
		c.NIn = 1000
	}
	switch i % 12 {
	case 10:
		// a device-initiated rekey in the middle of a paced flood in both directions (no other run kind is combined with it)
		c.Rekey = true
		c.Remove, c.Huge, c.VictimShare, c.DownUp, c.JunkExpired = false, false, 0, false, false
		c.NOut, c.NIn = pkts, pkts
		c.Procs = []int{runtime.NumCPU(), 4, 2}[r.Intn(3)]
		c.Peers = 1 + r.Intn(2)
		c.ChunkMax, c.PaceUs = 8, 300
		c.Hogs, c.OneIn = 0, 0
	case 0:
		c.StagedBefore = 2 + r.Intn(6)
	case 6:
		c.RespEarly = 1 + r.Intn(4)
	case 2, 8:
		// several flushers per peer (TUN reader + keepalive callers + UAPI sets) with tiny batches on few Ps: the window
		// between "visible on the peer's queue" and "locked / on the work queue" is crossed as often as possible
		// (measured on a seeded copy: without extra flushers 0/12 runs hit the window, with 4 flushers and 8000
		// one-packet containers 8..9 of 12, with 20000 containers 12/12)
		c.Flushers = 3 + r.Intn(4)
		c.FlusherKind = []string{"uapi", "mixed"}[(i/6)%2]
		c.TunBatch, c.BindBatch, c.ChunkMax = 1, []int{1, 8}[r.Intn(2)], []int{1, 1, 2}[r.Intn(3)]
		c.Procs = []int{2, 2, 3, 1}[r.Intn(4)]
		if c.FlusherKind == "uapi" {
			// (measured on a seeded copy with a blocking staged-queue receive: 6/8 runs stall at 2 Ps, 8/8 at 16, 0/8 at 1)
			c.Procs = []int{2, 4, runtime.NumCPU()}[r.Intn(3)]
		}
		c.PaceUs = 0
		c.BigMix, c.Huge, c.Forged = false, false, 0
		c.Hogs, c.OneIn = 0, 0
		c.Peers = 2
		c.NOut, c.NIn = 4*c.NOut, 100
	case 4:
		// the interface goes down and up several times during a flood of large packets on few Ps
		c.Cycles = 4 + r.Intn(6)
		c.Peers, c.Huge = 2+r.Intn(2), true
		c.TunBatch, c.ChunkMax, c.PaceUs = []int{64, 128}[r.Intn(2)], 256, 0
		c.Procs = []int{2, 2, 3}[r.Intn(3)]
		c.Hogs, c.OneIn, c.Forged = 0, 0, 0
		c.NOut, c.NIn = 4*c.NOut, 0
	}
	if i%6 == 5 { // a slow consumer with single-packet containers: the 1024-deep per-peer queues fill up
		c.BindBatch, c.TunBatch, c.ChunkMax, c.PaceUs = 1, 1, 256, 0
		c.SlowSend, c.SlowWrite = 150, 150
		c.OneIn = 0
		if c.NOut < 1500 {
			c.NOut, c.NIn = 1500, 1500
		}
		c.Peers = 1
	}
	return c
}

func main() {
	seed := flag.Int64("seed", 1, "PRNG seed")
	n := flag.Int("n", 60, "runs")
	pkts := flag.Int("pkts", 2000, "packets per direction per run")
	shards := flag.Int("shards", 16, "case files")
	out := flag.String("out", "out/C12", "output directory")
	replayIn := flag.String("replay", "", "JSON file with cases (cfg only) to re-run")
	corpus := flag.String("corpus", "", "directory of corpus JSON cases to run first")
	one := flag.String("one", "", "run this single configuration (JSON) in-process and print the case as JSON")
	flag.Parse()
	if *one != "" {
		var c Cfg
		if err := json.Unmarshal([]byte(*one), &c); err != nil {
			panic(err)
		}
		data, _ := json.Marshal(runCase(c))
		os.Stdout.Write(data)
		return
	}
	if err := os.MkdirAll(*out, 0o755); err != nil {
		panic(err)
	}
	var cases []Case
	if *replayIn != "" {
		data, err := os.ReadFile(*replayIn)
		if err != nil {
			panic(err)
		}
		var in []Case
		if err := json.Unmarshal(data, &in); err != nil {
			panic(err)
		}
		for _, c := range in {
			cases = append(cases, isolated(c.Cfg))
		}
		*shards = 1
	} else {
		if *corpus != "" {
			files, _ := filepath.Glob(filepath.Join(*corpus, "*.json"))
			sort.Strings(files)
			for _, f := range files {
				data, err := os.ReadFile(f)
				if err != nil {
					continue
				}
				var cs []Case
				if json.Unmarshal(data, &cs) == nil {
					for _, c := range cs {
						cases = append(cases, isolated(c.Cfg))
					}
				}
			}
		}
		r := rand.New(rand.NewSource(*seed))
		// dedicated real-time run (about 4.5 s, concurrently with the others): 12 isolated temporary receive errors
		recvDone := make(chan Case, 1)
		go func() {
			recvDone <- isolated(Cfg{Seed: *seed + 4242, Peers: 2, BindBatch: 8, TunBatch: 8, Procs: runtime.NumCPU(), NIn: 78, ChunkMax: 8,
				Forged: 10, RecvErrs: 12})
		}()
		raceDone := make(chan Case, 1)
		go func() {
			raceDone <- isolated(Cfg{Seed: *seed + 4343, Peers: 2, BindBatch: 8, TunBatch: 8, Procs: runtime.NumCPU(), ChunkMax: 8, RestartRace: true})
		}()
		for i := 0; i < *n; i++ {
			cases = append(cases, isolated(genCfg(r, i, *pkts)))
		}
		cases = append(cases, <-recvDone, <-raceDone)
	}
	if *shards > len(cases) {
		*shards = len(cases)
	}
	type shardInfo struct {
		File  string `json:"file"`
		First int    `json:"first"`
		N     int    `json:"n"`
	}
	var infos []shardInfo
	idx := 0
	if len(cases) > 0 {
		per := (len(cases) + *shards - 1) / *shards
		for s := 0; s < *shards && idx < len(cases); s++ {
			end := idx + per
			if end > len(cases) {
				end = len(cases)
			}
			name := fmt.Sprintf("cases_C12_%d.v", s)
			if err := writeShard(filepath.Join(*out, name), cases[idx:end]); err != nil {
				panic(err)
			}
			infos = append(infos, shardInfo{name, idx, end - idx})
			idx = end
		}
	}
	meta := map[string]any{"seed": *seed, "cases": cases, "shards": infos}
	data, _ := json.Marshal(meta)
	if err := os.WriteFile(filepath.Join(*out, "cases.json"), data, 0o644); err != nil {
		panic(err)
	}
}
