// c19 drives ratelimiter.Ratelimiter (Allow through the public API, clock and
// collection passes through the verif-tag exports VerifSetClock/VerifCleanup/
// VerifTableLen) with generated arrival histories under a virtual clock and
// writes them, with the observed results, as Gallina case files + JSON.
//
// Every history is run three times on a fresh limiter: with the collection
// passes, with the passes skipped, and with one address as the only sender.
//
// The concurrent scenario (-conc k) lines up k goroutines calling Allow for
// one new address: the clock function is called by Allow between the table
// lookup and the insert, so a clock that blocks is a yield point.
package main

import (
	"encoding/json"
	"flag"
	"fmt"
	"math"
	"math/rand"
	"net"
	"net/netip"
	"os"
	"path/filepath"
	"strings"
	"sync/atomic"
	"time"

	"golang.zx2c4.com/wireguard/conn"
	"golang.zx2c4.com/wireguard/ratelimiter"
)

type Op struct {
	A int   `json:"a"` // address index, -1 = collection pass
	T int64 `json:"t"` // virtual clock, ns since the Unix epoch
}

type Conc struct {
	K         int    `json:"k"`
	Followups int    `json:"followups"`
	Addr      string `json:"addr"`
	T         int64  `json:"t"`
	// observed
	Reached       int    `json:"reached_clock_together"` // callers simultaneously between lookup and insert
	Spawned       int    `json:"spawned_in_race"`
	AdmittedRace  int    `json:"admitted_racing"`
	AdmittedAfter int    `json:"admitted_followup"`
	Admitted      int    `json:"admitted_total"`
	Bound         int    `json:"bound_at_frozen_clock"`
	TableLen      int    `json:"table_len"`
	Decisions     []bool `json:"decisions"`
	Note          string `json:"note"`
}

type Case struct {
	Addrs  []string `json:"addrs"`
	Ops    []Op     `json:"ops"`
	Pa     int      `json:"pa"`
	Obs    []int64  `json:"obs"`
	Nogc   []bool   `json:"nogc"`
	Alone  []bool   `json:"alone"`
	Gen    string   `json:"gen"`
	Conc   *Conc    `json:"conc,omitempty"`
	Dev    *Dev     `json:"dev,omitempty"`
	Live   *Live    `json:"live,omitempty"`
	Forced *Forced  `json:"forced,omitempty"`
}

var consts = map[string]int64{}

func init() {
	for _, c := range ratelimiter.VerifConstants() {
		consts[c.Name] = int64(c.Val)
	}
}

// runImpl runs ops on a fresh limiter.  skipGc drops the collection passes,
// only >= 0 keeps the arrivals of that address only.
func runImpl(addrs []netip.Addr, ops []Op, skipGc bool, only int) (obs []int64, decs []bool) {
	var rl ratelimiter.Ratelimiter
	rl.Init()
	defer rl.Close()
	var cur int64
	rl.VerifSetClock(func() time.Time { return time.Unix(0, cur) })
	for _, o := range ops {
		cur = o.T
		if o.A < 0 {
			if skipGc {
				continue
			}
			rl.VerifCleanup()
			obs = append(obs, int64(rl.VerifTableLen()))
			continue
		}
		if only >= 0 && o.A != only {
			continue
		}
		d := rl.Allow(addrs[o.A])
		decs = append(decs, d)
		if d {
			obs = append(obs, 1)
		} else {
			obs = append(obs, 0)
		}
	}
	return
}

// udpAddrOf is the source address of a datagram as the kernel reports it to
// the bind: 4 bytes on the IPv4 socket, 16 bytes plus the zone (interface) on
// the IPv6 socket.
func udpAddrOf(a netip.Addr) *net.UDPAddr {
	if a.Is4() {
		b := a.As4()
		return &net.UDPAddr{IP: b[:], Port: 51820}
	}
	b := a.As16()
	return &net.UDPAddr{IP: b[:], Port: 51820, Zone: a.Zone()}
}

// KeyMismatch records a source address for which the endpoint built by the
// real receive path (conn.StdNetBind.receiveIP) names another address.
var keyMismatch = map[string]string{}

// parseAddrs returns, for each source address, the key the device hands to the
// limiter: the datagram goes through the real (*StdNetBind).receiveIP
// (conn.VerifReceiveIP) and the key is Endpoint.DstIP() of the endpoint built.
func parseAddrs(ss []string) []netip.Addr {
	as := make([]netip.Addr, len(ss))
	srcs := make([]*net.UDPAddr, len(ss))
	for i, s := range ss {
		as[i] = netip.MustParseAddr(s)
		srcs[i] = udpAddrOf(as[i])
	}
	eps, err := conn.VerifReceiveIP(srcs)
	if err != nil || len(eps) != len(ss) {
		panic(fmt.Sprint("VerifReceiveIP: ", err, len(eps)))
	}
	for i := range ss {
		k := eps[i].DstIP()
		if k != as[i] {
			keyMismatch[ss[i]] = k.String()
		}
		as[i] = k
	}
	return as
}

func fill(c *Case) {
	as := parseAddrs(c.Addrs)
	c.Obs, _ = runImpl(as, c.Ops, false, -1)
	_, c.Nogc = runImpl(as, c.Ops, true, -1)
	_, c.Alone = runImpl(as, c.Ops, false, c.Pa)
	if c.Obs == nil {
		c.Obs = []int64{}
	}
	if c.Nogc == nil {
		c.Nogc = []bool{}
	}
	if c.Alone == nil {
		c.Alone = []bool{}
	}
}

// ---------------------------------------------------------------- generators

func addrPool(r *rand.Rand) []string {
	n := 2 + r.Intn(7)
	var pool []string
	seen := map[string]bool{}
	add := func(s string) {
		if !seen[s] {
			seen[s] = true
			pool = append(pool, s)
		}
	}
	for len(pool) < n {
		b := byte(r.Intn(4))
		c := byte(r.Intn(3))
		switch r.Intn(8) {
		case 0, 1, 2:
			add(fmt.Sprintf("192.168.%d.%d", c, b+1))
		case 3:
			add(fmt.Sprintf("::ffff:192.168.%d.%d", c, b+1)) // same 4 bytes as a v4 key, different key
		case 4, 5:
			add(fmt.Sprintf("2001:db8::%x:%x", c, b+1))
		case 6:
			add(fmt.Sprintf("fe80::%x%s", uint16(b%2)+1, []string{"", "%eth0", "%eth1", "%eth0", "%eth1"}[r.Intn(5)]))
		default:
			add([]string{"0.0.0.0", "::", "255.255.255.255", "ffff:ffff:ffff:ffff:ffff:ffff:ffff:ffff", "::1", "127.0.0.1", "0.0.0.1", "::c0a8:1"}[r.Intn(8)])
		}
	}
	return pool
}

func gapTable() []int64 {
	pc, mt, gc := consts["packetCost"], consts["maxTokens"], consts["garbageCollectTime"]
	return []int64{0, 0, 0, 1, 2, pc / 2, pc - 1, pc, pc + 1, pc + 2, 2*pc - 1, 2 * pc, 2*pc + 1, 3 * pc, 4*pc - 1, 4 * pc, 4*pc + 1,
		mt - pc - 1, mt - pc, mt - pc + 1, mt - 1, mt, mt + 1, gc - pc, gc - 1, gc, gc + 1, gc + 2, gc + pc, 2 * gc, 2*gc + 1, 5 * gc,
		// the property's own numbers, whatever the code's constants are now
		propCost - 1, propCost, propCost + 1, propNew - 1, propNew, propNew + 1, propNew + propCost/2, propFull - 1, propFull, propFull + 1,
		propGC - 1, propGC, propGC + 1}
}

// The numbers of the property text (NOT read from the code): 50 ms per packet,
// a new entry starts at 200 ms of tokens, a full bucket is 250 ms, entries idle
// for more than 1 s are forgotten.
const (
	propCost = int64(50000000)
	propNew  = int64(200000000)
	propFull = int64(250000000)
	propGC   = int64(1000000000)
)

// genGcInGap: for one address, rounds of  drain (burst at one instant, then a
// few closely spaced arrivals that leave the bucket below one packet) - idle
// gap around one of the property's thresholds - a collection pass INSIDE the
// gap - burst of >= 6 - closely spaced follow-ups.  If forgetting the entry
// during the gap changes anything, the follow-ups decide differently with and
// without the pass.  Other addresses are sprinkled in between.
func genGcInGap(r *rand.Rand, n int) Case {
	pool := addrPool(r)
	hot := r.Intn(len(pool))
	t := starts[r.Intn(3)]
	if r.Intn(6) == 0 {
		t = []int64{0, -1000000000, math.MinInt64 + 1}[r.Intn(3)]
	}
	var ops []Op
	small := func() int64 {
		switch r.Intn(8) {
		case 0:
			return 1
		case 1:
			return 1000000
		case 2:
			return propCost - 1
		case 3:
			return propCost / 2
		case 4:
			return 10000000 + r.Int63n(30000000)
		default:
			return r.Int63n(propCost)
		}
	}
	other := func() {
		if len(pool) > 1 && r.Intn(3) == 0 {
			a := r.Intn(len(pool))
			if a != hot {
				ops = append(ops, Op{A: a, T: t})
			}
		}
	}
	burst := func(k int) {
		for i := 0; i < k; i++ {
			ops = append(ops, Op{A: hot, T: t})
		}
	}
	follow := func(k int) {
		for i := 0; i < k; i++ {
			t += small()
			ops = append(ops, Op{A: hot, T: t})
			other()
		}
	}
	bases := []int64{propCost, propNew, propNew, propNew + propCost/2, propNew + propCost/2, propFull, propFull, propGC, propGC}
	for len(ops) < n {
		burst(6 + r.Intn(3))
		follow(r.Intn(4))
		g := bases[r.Intn(len(bases))]
		switch r.Intn(5) {
		case 0:
		case 1:
			g += 1
		case 2:
			g -= 1
		default:
			g += r.Int63n(10000001) - 5000000 // +- 5 ms
		}
		if r.Intn(4) == 0 { // anywhere between the new-entry level and a full refill
			g = propNew + 1 + r.Int63n(propFull-propNew-1)
		}
		if g < 1 {
			g = 1
		}
		// collection pass(es) inside the gap: at its end, 1 ns before, a little before, anywhere
		t0 := t
		passAt := []int64{g, g, g - 1, g - r.Int63n(10000000), r.Int63n(g) + 1}[r.Intn(5)]
		if passAt < 0 {
			passAt = 0
		}
		if r.Intn(8) != 0 {
			if r.Intn(4) == 0 && passAt > 1 {
				ops = append(ops, Op{A: -1, T: t0 + passAt/2})
			}
			ops = append(ops, Op{A: -1, T: t0 + passAt})
		}
		t = t0 + g
		burst(6 + r.Intn(3))
		follow(3 + r.Intn(5))
		t += small()
	}
	return Case{Addrs: pool, Ops: ops, Pa: hot, Gen: "gc-in-gap"}
}

var starts = []int64{1700000000000000000, 1700000000000000000, 1700000000000000000, 0, 1, -1, -1000000000, math.MinInt64, math.MinInt64 + 1,
	math.MaxInt64 - (1 << 62) - 1, math.MaxInt64 - (1 << 62) - 1000000000000, -(1 << 62), 1 << 61}

func addSat(t, g int64) int64 {
	if g > 0 && t > math.MaxInt64-g {
		return math.MaxInt64
	}
	if g < 0 && t < math.MinInt64-g {
		return math.MinInt64
	}
	return t + g
}

func genHistory(r *rand.Rand, n int) Case {
	pool := addrPool(r)
	zoned := r.Intn(8) == 0
	if zoned { // the same link-local address on two links (and without zone): three different sources
		pool = []string{"fe80::1%eth0", "fe80::1%eth1", "fe80::1", "fe80::1%wg0"}[:2+r.Intn(3)]
	}
	gaps := gapTable()
	pc, gc := consts["packetCost"], consts["garbageCollectTime"]
	kinds := []string{"mixed", "mixed", "mixed", "burst", "spaced", "gc-edge", "idle", "boundary-walk", "far-future", "overflow", "backwards"}
	kind := kinds[r.Intn(len(kinds))]
	if zoned {
		kind = []string{"spaced", "spaced", "burst", "mixed"}[r.Intn(4)]
	}
	t := starts[r.Intn(len(starts))]
	if kind == "overflow" {
		t = []int64{math.MinInt64, math.MinInt64 + 5, -(1 << 62) - 7, 0}[r.Intn(4)]
	}
	lo := t
	hot := r.Intn(len(pool))
	spacedAddr := (hot + 1) % len(pool)
	var lastSpaced int64
	haveSpaced := false
	var ops []Op
	pick := func() int {
		if r.Intn(100) < 55 {
			return hot
		}
		return r.Intn(len(pool))
	}
	limit := func(t int64) int64 { // keep valid kinds inside the 2^62 span
		if kind == "overflow" || kind == "backwards" {
			return t
		}
		if lo > math.MaxInt64-(1<<62) {
			return t
		}
		if t > lo+(1<<62) {
			return lo + (1 << 62)
		}
		return t
	}
	for len(ops) < n {
		var g int64
		switch kind {
		case "burst":
			switch x := r.Intn(100); {
			case x < 55:
				g = 0
			case x < 75:
				g = int64(r.Intn(3)) + pc - 1
			case x < 90:
				g = gaps[r.Intn(len(gaps))]
			default:
				g = r.Int63n(3 * gc)
			}
		case "spaced":
			g = r.Int63n(pc) / 3
		case "gc-edge":
			g = []int64{gc - 1, gc, gc + 1, gc + 2, 0, 0, 1, pc, pc + 1, gc / 2, gc/2 + 1}[r.Intn(11)]
		case "idle":
			switch x := r.Intn(100); {
			case x < 60:
				g = r.Int63n(pc * 2)
			case x < 80:
				g = gc + r.Int63n(gc)
			case x < 95:
				g = 3600 * gc
			default:
				g = 1 << 55
			}
		case "boundary-walk":
			g = gaps[r.Intn(len(gaps))]
			if r.Intn(3) == 0 {
				g += int64(r.Intn(5)) - 2
				if g < 0 {
					g = 0
				}
			}
		case "far-future":
			switch x := r.Intn(100); {
			case x < 70:
				g = gaps[r.Intn(len(gaps))]
			case x < 85:
				g = 1 << 59
			case x < 95:
				g = 1 << 60
			default:
				g = (1 << 61) - 1
			}
		case "overflow":
			switch x := r.Intn(100); {
			case x < 60:
				g = gaps[r.Intn(len(gaps))]
			case x < 70:
				g = 1 << 62
			case x < 80:
				g = math.MaxInt64 - consts["maxTokens"] + int64(r.Intn(5)) - 2 + pc*int64(r.Intn(6))
			case x < 90:
				g = math.MaxInt64 - int64(r.Intn(3))
			default:
				g = (1 << 62) + r.Int63n(1<<62)
			}
		case "backwards":
			switch x := r.Intn(100); {
			case x < 70:
				g = gaps[r.Intn(len(gaps))]
			case x < 85:
				g = -r.Int63n(3 * pc)
			default:
				g = -r.Int63n(3 * gc)
			}
		default:
			switch x := r.Intn(100); {
			case x < 60:
				g = gaps[r.Intn(len(gaps))]
			case x < 85:
				g = r.Int63n(2 * pc)
			default:
				g = r.Int63n(3 * gc)
			}
		}
		t = limit(addSat(t, g))
		if r.Intn(100) < 12 {
			ops = append(ops, Op{A: -1, T: t})
			continue
		}
		a := pick()
		if kind == "spaced" {
			// spacedAddr only ever arrives more than packetCost after its previous arrival
			if !haveSpaced || t > lastSpaced+pc {
				if r.Intn(2) == 0 {
					a = spacedAddr
				}
			}
			if a == spacedAddr {
				if haveSpaced && t <= lastSpaced+pc {
					a = hot
					if a == spacedAddr {
						continue
					}
				} else {
					lastSpaced, haveSpaced = t, true
				}
			}
		}
		ops = append(ops, Op{A: a, T: t})
	}
	pa := hot
	if kind == "spaced" {
		pa = spacedAddr
	}
	if zoned {
		kind = "zoned-" + kind
	}
	return Case{Addrs: pool, Ops: ops, Pa: pa, Gen: kind}
}

// the sequence of ratelimiter_test.go, as a history (results are observed, not assumed)
func upstreamTest() Case {
	pool := []string{"127.0.0.1", "192.168.1.1", "172.167.2.3", "97.231.252.215", "248.97.91.167", "188.208.233.47", "104.2.183.179", "72.129.46.120",
		"2001:0db8:0a0b:12f0:0000:0000:0000:0001", "f5c2:818f:c052:655a:9860:b136:6894:25f0", "b2d7:15ab:48a7:b07c:a541:f144:a9fe:54fc",
		"a47b:786e:1671:a22b:d6f9:4ab0:abc7:c918", "ea1e:d155:7f7a:98fb:2bf5:9483:80f6:5445", "3f0e:54a2:f5b4:cd19:a21d:58e1:3746:84c4"}
	pps := consts["packetsPerSecond"]
	burst := consts["packetsBurstable"]
	sec := int64(1000000000)
	t := int64(1700000000000000000)
	var ops []Op
	step := func(count int, wait int64) {
		t += wait
		for i := 0; i < count; i++ {
			for a := range pool {
				ops = append(ops, Op{A: a, T: t})
			}
		}
	}
	step(int(burst), 0)
	step(1, 0)
	step(1, sec/pps)
	step(1, 0)
	step(2, 2*sec/pps)
	step(1, 0)
	step(int(burst), sec/pps*burst)
	step(1, 0)
	return Case{Addrs: pool, Ops: ops, Pa: 0, Gen: "upstream-test-sequence"}
}

// ---------------------------------------------------------------- concurrent scenario

func runConc(c *Conc) {
	if c.K <= 0 {
		c.K = 16
	}
	if c.Followups <= 0 {
		c.Followups = 8
	}
	if c.Addr == "" {
		c.Addr = "203.0.113.7"
	}
	if c.T == 0 {
		c.T = 1700000000000000000
	}
	ip := netip.MustParseAddr(c.Addr)
	var rl ratelimiter.Ratelimiter
	rl.Init()
	defer rl.Close()
	frozen := time.Unix(0, c.T)
	var blocking atomic.Bool
	blocking.Store(true)
	gate := make(chan struct{})
	entered := make(chan struct{}, c.K+c.Followups+4)
	rl.VerifSetClock(func() time.Time {
		if blocking.Load() {
			entered <- struct{}{}
			<-gate
		}
		return frozen
	})
	res := make([]bool, c.K)
	done := make(chan int, c.K)
	spawned, reached := 0, 0
	stalled := false
	for i := 0; i < c.K && !stalled; i++ {
		go func(i int) {
			res[i] = rl.Allow(ip)
			done <- i
		}(i)
		spawned++
		// wait until caller i sits in the clock (between lookup and insert on the code as found)
		select {
		case <-entered:
			reached++
		case <-time.After(700 * time.Millisecond):
			// caller i cannot get past the table lock while another caller is inside: the insert is guarded
			stalled = true
		}
	}
	blocking.Store(false)
	close(gate)
	for i := 0; i < spawned; i++ {
		<-done
	}
	c.Decisions = nil
	c.AdmittedRace = 0
	for i := 0; i < spawned; i++ {
		c.Decisions = append(c.Decisions, res[i])
		if res[i] {
			c.AdmittedRace++
		}
	}
	c.AdmittedAfter = 0
	for i := spawned; i < c.K+c.Followups; i++ { // callers not spawned in the race run one after the other
		d := rl.Allow(ip)
		c.Decisions = append(c.Decisions, d)
		if d {
			c.AdmittedAfter++
		}
	}
	c.Spawned = spawned
	c.Reached = reached
	c.Admitted = c.AdmittedRace + c.AdmittedAfter
	c.Bound = int(consts["maxTokens"] / consts["packetCost"])
	c.TableLen = rl.VerifTableLen()
	c.Note = fmt.Sprintf("%d callers of Allow(%s) were held inside the clock function at the same time (it is called between the table lookup and the insert); clock frozen at %d; %d of them admitted, %d more of %d later sequential calls admitted; the envelope allows %d in a window of length 0",
		reached, c.Addr, c.T, c.AdmittedRace, c.AdmittedAfter, c.K+c.Followups-spawned, c.Bound)
}

// ---------------------------------------------------------------- Gallina output

func timeInts(t int64) (uint64, uint64) {
	u := uint64(t) + (1 << 63) // t + 2^63 as unsigned
	return u >> 32, u & 0xffffffff
}

// zone identities: one number per distinct zone string (0 = no zone)
var zoneIDs = map[string]int{"": 0}

func zoneID(z string) int {
	if id, ok := zoneIDs[z]; ok {
		return id
	}
	id := len(zoneIDs)
	zoneIDs[z] = id
	return id
}

// address = zone identity, family, 128 bits
func addrInts(s string) string {
	a := netip.MustParseAddr(s)
	if a.Is4() {
		b := a.As4()
		return fmt.Sprintf("0;4;0;0;0;%d", uint32(b[0])<<24|uint32(b[1])<<16|uint32(b[2])<<8|uint32(b[3]))
	}
	b := a.As16()
	w := func(i int) uint32 {
		return uint32(b[i])<<24 | uint32(b[i+1])<<16 | uint32(b[i+2])<<8 | uint32(b[i+3])
	}
	return fmt.Sprintf("%d;6;%d;%d;%d;%d", zoneID(a.Zone()), w(0), w(4), w(8), w(12))
}

func boolList(bs []bool) string {
	ss := make([]string, len(bs))
	for i, b := range bs {
		if b {
			ss[i] = "true"
		} else {
			ss[i] = "false"
		}
	}
	return "[" + strings.Join(ss, ";") + "]"
}

func addrList(addrs []string) string {
	ss := make([]string, len(addrs))
	for i, a := range addrs {
		ss[i] = addrInts(a)
	}
	return "[" + strings.Join(ss, ";") + "]%uint63"
}

func gallina(c Case) string {
	var b strings.Builder
	b.WriteString("mk ")
	b.WriteString(addrList(c.Addrs))
	b.WriteString(" [")
	for i, o := range c.Ops {
		if i > 0 {
			b.WriteString(";")
		}
		hi, lo := timeInts(o.T)
		if o.A < 0 {
			fmt.Fprintf(&b, "1099511627776;%d;%d", hi, lo)
		} else {
			fmt.Fprintf(&b, "%d;%d;%d", o.A, hi, lo)
		}
	}
	b.WriteString("]%uint63 [")
	for i, o := range c.Obs {
		if i > 0 {
			b.WriteString(";")
		}
		fmt.Fprintf(&b, "%d", o)
	}
	b.WriteString("]%uint63 ")
	b.WriteString(boolList(c.Nogc))
	fmt.Fprintf(&b, " %d%%uint63 ", c.Pa)
	b.WriteString(boolList(c.Alone))
	return b.String()
}

const header = "From Coq Require Import Uint63.\nFrom WG Require Import Base.Prelude Ratelimit.Model Ratelimit.Spec Ratelimit.Check.\nLocal Open Scope N_scope.\n"

func writeShard(path string, cases []Case) error {
	var b strings.Builder
	b.WriteString(header)
	b.WriteString("Definition cases : list case := [\n")
	for i, c := range cases {
		if i > 0 {
			b.WriteString(";\n")
		}
		b.WriteString(gallina(c))
	}
	b.WriteString("].\nDefinition bad := Eval vm_compute in (check_cases cases 0).\nPrint bad.\nDefinition st := Eval vm_compute in (stats cases).\nPrint st.\n")
	return os.WriteFile(path, []byte(b.String()), 0o644)
}

func writeConc(path string, c *Conc) error {
	var b strings.Builder
	b.WriteString(header)
	hi, lo := timeInts(c.T)
	var evs []string
	for _, d := range c.Decisions {
		x := 0
		if d {
			x = 1
		}
		evs = append(evs, fmt.Sprintf("0;%d;%d;%d", hi, lo, x))
	}
	fmt.Fprintf(&b, "Definition cbad := Eval vm_compute in (conc_check %s [%s]%%uint63).\nPrint cbad.\n", addrList([]string{c.Addr}), strings.Join(evs, ";"))
	fmt.Fprintf(&b, "Definition cadm := Eval vm_compute in (conc_admitted %s [%s]%%uint63).\nPrint cadm.\n", addrList([]string{c.Addr}), strings.Join(evs, ";"))
	return os.WriteFile(path, []byte(b.String()), 0o644)
}

func osWriteFile(path, content string) error {
	return os.WriteFile(path, []byte(content), 0o644)
}

func main() {
	seed := flag.Int64("seed", 1, "PRNG seed")
	n := flag.Int("n", 300, "number of histories")
	length := flag.Int("len", 120, "ops per history")
	shards := flag.Int("shards", 16, "case files")
	out := flag.String("out", "out/C19", "output directory")
	replayIn := flag.String("replay", "", "JSON file with cases (addrs, ops, pa | conc) to run; observed results are filled in")
	corpus := flag.String("corpus", "", "directory of corpus JSON cases to prepend")
	conc := flag.Int("conc", 16, "callers in the concurrent new-address scenario (0 = skip)")
	forced := flag.String("forced", "first-messages,burst-in-pass,same-entry-contention", "schedule-forcing scenarios (comma separated, empty = skip)")
	live := flag.Bool("live", true, "run the real-collector liveness scenario")
	dev := flag.String("dev", "v4,v6", "device-level real-time scenarios to run (comma separated families, empty = skip)")
	flag.Parse()
	if err := os.MkdirAll(*out, 0o755); err != nil {
		panic(err)
	}
	var cases []Case
	var concCase *Case
	var devs []*Dev
	var devFamilies []string
	devDone := make(chan struct{})
	var liveRes *Live
	liveDone := make(chan struct{})
	runLiveBg := func(on bool) {
		go func() {
			if on {
				liveRes = runLive()
			}
			close(liveDone)
		}()
	}
	startDev := func() {
		go func() { // device worlds one after the other (quiescence detection is process-wide)
			for _, f := range devFamilies {
				devs = append(devs, runDev(f))
			}
			close(devDone)
		}()
	}
	if *replayIn != "" {
		data, err := os.ReadFile(*replayIn)
		if err != nil {
			panic(err)
		}
		var in []Case
		if err := json.Unmarshal(data, &in); err != nil {
			panic(err)
		}
		wantLive := false
		*forced = ""
		for i := range in {
			if in[i].Forced != nil {
				*forced += "," + in[i].Forced.Name
			}
		}
		for i := range in {
			if in[i].Dev != nil {
				devFamilies = append(devFamilies, in[i].Dev.Family)
			}
			if in[i].Live != nil {
				wantLive = true
			}
		}
		startDev()
		runLiveBg(wantLive)
		for i := range in {
			if in[i].Dev != nil || in[i].Live != nil || in[i].Forced != nil {
				continue
			}
			if in[i].Conc != nil {
				cc := in[i]
				runConc(cc.Conc)
				concCase = &cc
				continue
			}
			fill(&in[i])
			cases = append(cases, in[i])
		}
		*shards = 1
	} else {
		for _, f := range strings.Split(*dev, ",") {
			if f = strings.TrimSpace(f); f != "" {
				devFamilies = append(devFamilies, f)
			}
		}
		startDev()
		runLiveBg(*live)
		if *corpus != "" {
			files, _ := filepath.Glob(filepath.Join(*corpus, "*.json"))
			for _, f := range files {
				data, err := os.ReadFile(f)
				if err != nil {
					continue
				}
				var cs []Case
				if json.Unmarshal(data, &cs) == nil {
					for _, c := range cs {
						if c.Conc != nil || c.Dev != nil || c.Live != nil || c.Forced != nil || len(c.Addrs) == 0 {
							continue
						}
						c.Gen = "corpus"
						fill(&c)
						cases = append(cases, c)
					}
				}
			}
		}
		u := upstreamTest()
		fill(&u)
		cases = append(cases, u)
		r := rand.New(rand.NewSource(*seed))
		for i := 0; i < *n; i++ {
			ln := *length
			if i%10 == 0 {
				ln = 4 + r.Intn(20)
			}
			var c Case
			if i%6 == 3 {
				c = genGcInGap(r, ln)
			} else {
				c = genHistory(r, ln)
			}
			fill(&c)
			cases = append(cases, c)
		}
		if *conc > 0 {
			cc := Case{Gen: "concurrent-new-address", Conc: &Conc{K: *conc}}
			runConc(cc.Conc)
			concCase = &cc
		}
	}
	type shardInfo struct {
		File  string `json:"file"`
		First int    `json:"first"`
		N     int    `json:"n"`
	}
	var infos []shardInfo
	if len(cases) > 0 {
		if *shards > len(cases) {
			*shards = len(cases)
		}
		per := (len(cases) + *shards - 1) / *shards
		idx := 0
		for s := 0; s < *shards && idx < len(cases); s++ {
			end := idx + per
			if end > len(cases) {
				end = len(cases)
			}
			name := fmt.Sprintf("cases_C19_%d.v", s)
			if err := writeShard(filepath.Join(*out, name), cases[idx:end]); err != nil {
				panic(err)
			}
			infos = append(infos, shardInfo{name, idx, end - idx})
			idx = end
		}
	}
	meta := map[string]any{"seed": *seed, "shards": infos, "key_mismatch": keyMismatch}
	if concCase != nil {
		if err := writeConc(filepath.Join(*out, "cases_C19_conc.v"), concCase.Conc); err != nil {
			panic(err)
		}
		meta["conc_file"] = "cases_C19_conc.v"
		meta["conc_index"] = len(cases)
		concCase.Addrs, concCase.Ops, concCase.Obs, concCase.Nogc, concCase.Alone = []string{}, []Op{}, []int64{}, []bool{}, []bool{}
		cases = append(cases, *concCase) // the scenario is the last case
	}
	<-devDone
	if len(devs) > 0 {
		if err := writeDev(filepath.Join(*out, "cases_C19_dev.v"), devs); err != nil {
			panic(err)
		}
		meta["dev_file"] = "cases_C19_dev.v"
		meta["dev_index"] = len(cases)
		for _, d := range devs {
			cases = append(cases, Case{Addrs: []string{}, Ops: []Op{}, Obs: []int64{}, Nogc: []bool{}, Alone: []bool{}, Gen: "device-level-" + d.Family, Dev: d})
		}
	}
	var frs []*Forced
	for _, n := range strings.Split(*forced, ",") {
		if n = strings.TrimSpace(n); n != "" {
			frs = append(frs, runForced(n))
		}
	}
	if len(frs) > 0 {
		if err := writeForced(filepath.Join(*out, "cases_C19_forced.v"), frs); err != nil {
			panic(err)
		}
		meta["forced_file"] = "cases_C19_forced.v"
		meta["forced_index"] = len(cases)
		for _, f := range frs {
			cases = append(cases, Case{Addrs: []string{}, Ops: []Op{}, Obs: []int64{}, Nogc: []bool{}, Alone: []bool{}, Gen: "forced-" + f.Name, Forced: f})
		}
	}
	<-liveDone
	if liveRes != nil {
		if err := writeLive(filepath.Join(*out, "cases_C19_live.v"), liveRes); err != nil {
			panic(err)
		}
		meta["live_file"] = "cases_C19_live.v"
		meta["live_index"] = len(cases)
		cases = append(cases, Case{Addrs: []string{}, Ops: []Op{}, Obs: []int64{}, Nogc: []bool{}, Alone: []bool{}, Gen: "real-collector-liveness", Live: liveRes})
	}
	meta["cases"] = cases
	data, _ := json.Marshal(meta)
	if err := os.WriteFile(filepath.Join(*out, "cases.json"), data, 0o644); err != nil {
		panic(err)
	}
}
