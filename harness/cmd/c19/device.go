// Device-level part of C19: the limiter as the running device uses it
// (device/receive.go RoutineHandshake: under load, after MAC1 and MAC2, keyed
// by the source address of the datagram).
//
// A real device (wgv/cosim world) is held under load.  Reference peers, one
// per source address, obtain a cookie through the normal cookie-reply exchange
// and then send handshake initiations with valid MAC1+MAC2, fresh timestamps
// and a fresh ephemeral each, so that every message reaches the limiter and
// is answered with a handshake response iff the limiter admits it
// (VerifShiftHandshakeTimes keeps the handshake layer's own 20 ms flood gate
// out of the way).  Real time:
//
//	phase 1  address A alone: nSpaced messages 60 ms apart
//	phase 2  address F floods (about one message per ms) while address S sends
//	         nSpaced messages 60 ms apart
//
// Observable per message: (time, source address, response came back).
// The trace goes to the same Coq checkers as the package-level traces.
package main

import (
	"fmt"
	"net/netip"
	"strings"
	"time"

	"wgv/cosim"
	"wgv/ref"
)

type DevEv struct {
	A  int   `json:"a"`  // address index
	Tb int64 `json:"tb"` // Unix ns just before the datagram was injected
	Ta int64 `json:"ta"` // Unix ns when the device had finished reacting
	D  bool  `json:"d"`  // handshake response came back
}

type Dev struct {
	Family    string   `json:"family"`
	Addrs     []string `json:"addrs"` // 0 = A (alone), 1 = F (flood), 2.. = spaced senders: neighbours of F and a distant one
	Events    []DevEv  `json:"events"`
	Alone     []bool   `json:"alone"`
	Control   []string `json:"control"` // "<what>@<index of the next event>"
	TolNs     int64    `json:"tol_ns"`
	Discarded int      `json:"discarded_attempts"`
	Reasons   []string `json:"discard_reasons"`
	Valid     bool     `json:"valid"`
	Summary   string   `json:"summary"`
}

const (
	devSpacing   = 60 * time.Millisecond
	devMinGap    = 55 * time.Millisecond // guaranteed between the end of one spaced step and the start of the next
	devMaxStep   = 30 * time.Millisecond // a step (inject + settle) slower than this is a stall
	devTol       = 35 * time.Millisecond
	devNSpaced   = 9
	devFloodTick = time.Millisecond
)

type devPeer struct {
	p      *cosim.RefPeer
	from   netip.AddrPort
	cookie []byte
}

func devAddrs(family string) []string {
	// The spaced senders are neighbours of the flooding address: they differ from
	// it in the last byte only, in byte 8 only (same /64), in the zone only, or are
	// its IPv4-mapped form; the last one is a distant address.
	if family == "v6" {
		return []string{"2001:db8:a::1", "fe80::66%eth0", "fe80::67%eth0", "fe80::100:0:0:66%eth0", "fe80::66%eth1", "2001:db8:600d::9"}
	}
	return []string{"198.51.100.21", "198.51.100.66", "198.51.100.67", "::ffff:198.51.100.66", "203.0.113.9"}
}

// one attempt; reason != "" means the trace must be discarded (stall / anomaly)
func devAttempt(family string) (evs []DevEv, alone []bool, control []string, reason string) {
	addrs := devAddrs(family)
	var peers []*devPeer
	var rps []*cosim.RefPeer
	for i, a := range addrs {
		ap := netip.AddrPortFrom(netip.MustParseAddr(a), uint16(40000+i))
		allowed := fmt.Sprintf("10.19.%d.0/24", i)
		rp := cosim.NewPeer(fmt.Sprintf("p%d", i), ap.String(), allowed)
		peers = append(peers, &devPeer{p: rp, from: ap})
		rps = append(rps, rp)
	}
	w, err := cosim.NewWorld(cosim.Config{Up: true}, false, rps...)
	if err != nil {
		return nil, nil, nil, "world: " + err.Error()
	}
	defer w.Close()
	w.Timeout = 2 * time.Second
	w.Dev.VerifForceUnderLoad(600 * time.Second)

	// cookie exchange: an initiation with MAC2 = 0 is answered with a cookie reply
	for _, dp := range peers {
		dp.p.NextIdx++
		st := ref.CreateInitiation(dp.p.Priv, ref.NewPrivate(), w.DevPub, dp.p.Psk, dp.p.NextIdx, ref.Tai64n(time.Now()))
		out := w.Inject(dp.from, st.Msg)
		for _, s := range out.Sent {
			if len(s.Data) == ref.CookieSize && s.Data[0] == ref.TypeCookie {
				if _, c, err := ref.OpenCookieReply(s.Data, w.DevPub, st.Mac1); err == nil {
					dp.cookie = c
				}
			}
		}
		if dp.cookie == nil {
			return nil, nil, nil, "no cookie reply for " + dp.from.String()
		}
	}

	send := func(i int) (DevEv, string) {
		dp := peers[i]
		w.Dev.VerifShiftHandshakeTimes(dp.p.NoisePub(), 10*time.Second)
		dp.p.NextIdx++
		st := ref.CreateInitiation(dp.p.Priv, ref.NewPrivate(), w.DevPub, dp.p.Psk, dp.p.NextIdx, ref.Tai64n(time.Now()))
		msg := ref.WithCookie(st.Msg, w.DevPub, dp.cookie)
		tb := time.Now()
		out := w.Inject(dp.from, msg)
		ta := time.Now()
		ev := DevEv{A: i, Tb: tb.UnixNano(), Ta: ta.UnixNano()}
		if !out.Settled {
			return ev, "device did not settle"
		}
		for _, s := range out.Sent {
			if len(s.Data) == ref.CookieSize && s.Data[0] == ref.TypeCookie {
				return ev, "cookie reply to a message with MAC2 (cookie no longer accepted)"
			}
			if len(s.Data) == ref.ResponseSize && s.Data[0] == ref.TypeResponse && s.To == dp.from {
				if _, err := st.ConsumeResponse(s.Data); err != nil {
					return ev, "response does not answer the initiation: " + err.Error()
				}
				ev.D = true
			}
		}
		if ta.Sub(tb) > devMaxStep {
			return ev, fmt.Sprintf("step took %v", ta.Sub(tb))
		}
		return ev, ""
	}

	// phase 1: A alone
	var lastEnd time.Time
	for k := 0; k < devNSpaced; k++ {
		if k > 0 {
			time.Sleep(time.Until(lastEnd.Add(devSpacing)))
		}
		ev, r := send(0)
		if r != "" {
			return nil, nil, nil, "alone: " + r
		}
		if k > 0 && time.Unix(0, ev.Tb).Sub(lastEnd) < devMinGap {
			return nil, nil, nil, "alone: spacing lost"
		}
		lastEnd = time.Unix(0, ev.Ta)
		evs = append(evs, ev)
		alone = append(alone, ev.D)
	}
	// phase 2: F floods, the spaced senders (2..) each send every 60 ms
	nS := 0
	var nextS time.Time
	lastEnds := make([]time.Time, len(addrs))
	for nS < devNSpaced {
		it := time.Now()
		if nS == 0 || !it.Before(nextS) {
			for i := 2; i < len(addrs); i++ {
				ev, r := send(i)
				if r != "" {
					return nil, nil, nil, "spaced: " + r
				}
				if nS > 0 && time.Unix(0, ev.Tb).Sub(lastEnds[i]) < devMinGap {
					return nil, nil, nil, "spaced: spacing lost"
				}
				lastEnds[i] = time.Unix(0, ev.Ta)
				evs = append(evs, ev)
			}
			nextS = time.Now().Add(devSpacing)
			nS++
		} else {
			ev, r := send(1)
			if r != "" {
				return nil, nil, nil, "flood: " + r
			}
			evs = append(evs, ev)
		}
		if d := time.Until(it.Add(devFloodTick)); d > 0 {
			time.Sleep(d)
		}
	}
	// phase 3: F floods on, the sockets are re-opened under it
	flood := func(d time.Duration) string {
		end := time.Now().Add(d)
		for time.Now().Before(end) {
			it := time.Now()
			ev, r := send(1)
			if r != "" {
				return r
			}
			evs = append(evs, ev)
			if d := time.Until(it.Add(devFloodTick)); d > 0 {
				time.Sleep(d)
			}
		}
		return ""
	}
	if r := flood(80 * time.Millisecond); r != "" {
		return nil, nil, nil, "flood3: " + r
	}
	control = append(control, fmt.Sprintf("listen_port=51821@%d", len(evs)))
	if err, _ := w.Set("listen_port=51821\n"); err != nil {
		return nil, nil, nil, "listen_port: " + err.Error()
	}
	if r := flood(80 * time.Millisecond); r != "" {
		return nil, nil, nil, "flood3 after listen_port: " + r
	}
	control = append(control, fmt.Sprintf("down-up@%d", len(evs)))
	if err := w.Dev.Down(); err != nil {
		return nil, nil, nil, "down: " + err.Error()
	}
	if err := w.Dev.Up(); err != nil {
		return nil, nil, nil, "up: " + err.Error()
	}
	if !w.Settle() {
		return nil, nil, nil, "no quiescence after down/up"
	}
	if r := flood(80 * time.Millisecond); r != "" {
		return nil, nil, nil, "flood3 after down/up: " + r
	}
	return evs, alone, control, ""
}

func runDev(family string) *Dev {
	d := &Dev{Family: family, Addrs: devAddrs(family), TolNs: int64(devTol)}
	for attempt := 0; attempt < 4; attempt++ {
		evs, alone, control, reason := devAttempt(family)
		if reason != "" {
			d.Discarded++
			d.Reasons = append(d.Reasons, reason)
			continue
		}
		d.Events, d.Alone, d.Control, d.Valid = evs, alone, control, true
		break
	}
	if d.Events == nil {
		d.Events, d.Alone = []DevEv{}, []bool{}
	}
	cnt := map[int][2]int{}
	for _, e := range d.Events {
		c := cnt[e.A]
		c[0]++
		if e.D {
			c[1]++
		}
		cnt[e.A] = c
	}
	span := 0.0
	if n := len(d.Events); n > 0 {
		span = float64(d.Events[n-1].Ta-d.Events[0].Tb) / 1e9
	}
	var sp []string
	for i := 2; i < len(d.Addrs); i++ {
		sp = append(sp, fmt.Sprintf("%s %d/%d", d.Addrs[i], cnt[i][1], cnt[i][0]))
	}
	d.Summary = fmt.Sprintf("%s: alone %s %d sent %d processed; flooding %s %d sent %d processed; spaced (processed/sent) %s (%.2fs, control %v, %d attempts discarded)",
		family, d.Addrs[0], cnt[0][0], cnt[0][1], d.Addrs[1], cnt[1][0], cnt[1][1], strings.Join(sp, ", "), span, d.Control, d.Discarded)
	return d
}

func devGallina(idx int, d *Dev) string {
	var evs []string
	for _, e := range d.Events {
		hi, lo := timeInts(e.Tb)
		x := 0
		if e.D {
			x = 1
		}
		evs = append(evs, fmt.Sprintf("%d;%d;%d;%d", e.A, hi, lo, x))
	}
	return fmt.Sprintf("dev_check %d %s [%s]%%uint63 2%%uint63 %s %d%%uint63", idx, addrList(d.Addrs), strings.Join(evs, ";"), boolList(d.Alone), d.TolNs)
}

func writeDev(path string, ds []*Dev) error {
	var b strings.Builder
	b.WriteString(header)
	b.WriteString("Definition dbad := Eval vm_compute in (\n")
	for i, d := range ds {
		if i > 0 {
			b.WriteString(" ++\n")
		}
		b.WriteString("  " + devGallina(i, d))
	}
	b.WriteString(").\nPrint dbad.\n")
	return osWriteFile(path, b.String())
}
