// Liveness of the limiter with its REAL collector goroutine (the 1 s ticker
// started by Init, not hand-driven cleanup): every call of Allow returns.
//
//  1. an address arrives (virtual clock T0): the ticker starts;
//  2. the virtual clock jumps 2 s: the next real tick must empty the table
//     (observed through VerifTableLen; "idle entries are forgotten" by the real
//     collector);
//  3. new addresses arrive from several goroutines at once; the first of them
//     makes the table non-empty again, and its clock read - which Allow performs
//     inside its insert section - is held for longer than one ticker period, so
//     that any tick the collector still produces falls inside that section;
//  4. every one of these calls, one more call afterwards and Close must return
//     before a watchdog expires.
package main

import (
	"fmt"
	"net/netip"
	"strings"
	"sync/atomic"
	"time"

	"golang.zx2c4.com/wireguard/ratelimiter"
)

type Live struct {
	Emptied     bool     `json:"emptied_by_real_collector"`
	EmptyAfter  float64  `json:"emptied_after_s"`
	Calls       []string `json:"calls"`
	Returned    []bool   `json:"returned"`
	Decisions   []bool   `json:"decisions"`
	HoldS       float64  `json:"clock_held_s"`
	WatchdogS   float64  `json:"watchdog_s"`
	Summary     string   `json:"summary"`
	elapsedReal float64
}

func runLive() *Live {
	l := &Live{HoldS: 1.3, WatchdogS: 2.5}
	var rl ratelimiter.Ratelimiter
	rl.Init()
	var cur atomic.Int64
	var holdNext atomic.Bool
	t0 := int64(1700000000000000000)
	cur.Store(t0)
	rl.VerifSetClock(func() time.Time {
		if holdNext.CompareAndSwap(true, false) {
			time.Sleep(time.Duration(l.HoldS * float64(time.Second)))
		}
		return time.Unix(0, cur.Load())
	})
	start := time.Now()
	rl.Allow(netip.MustParseAddr("198.51.100.1"))
	cur.Store(t0 + 2000000000)
	for time.Since(start) < 2500*time.Millisecond {
		if rl.VerifTableLen() == 0 {
			l.Emptied = true
			l.EmptyAfter = time.Since(start).Seconds()
			break
		}
		time.Sleep(5 * time.Millisecond)
	}
	time.Sleep(50 * time.Millisecond) // let the collector get back to its select
	addrs := []string{"198.51.100.2", "2001:db8::5", "fe80::1%eth0"}
	type ret struct {
		i int
		d bool
	}
	done := make(chan ret, 8)
	l.Calls = nil
	holdNext.Store(true)
	for i, a := range addrs {
		l.Calls = append(l.Calls, "Allow("+a+")")
		go func(i int, ip netip.Addr) { done <- ret{i, rl.Allow(ip)} }(i, netip.MustParseAddr(a))
		if i == 0 {
			time.Sleep(20 * time.Millisecond) // the first caller is the one inside the insert section
		}
	}
	l.Returned = make([]bool, len(addrs)+2)
	l.Decisions = make([]bool, len(addrs)+2)
	deadline := time.After(time.Duration((l.HoldS + l.WatchdogS) * float64(time.Second)))
	got := 0
wait:
	for got < len(addrs) {
		select {
		case r := <-done:
			l.Returned[r.i], l.Decisions[r.i] = true, r.d
			got++
		case <-deadline:
			break wait
		}
	}
	// one more call and Close, each under the watchdog
	l.Calls = append(l.Calls, "Allow(203.0.113.77) afterwards", "Close()")
	late := func(i int, f func() bool) {
		ch := make(chan bool, 1)
		go func() { ch <- f() }()
		select {
		case d := <-ch:
			l.Returned[i], l.Decisions[i] = true, d
		case <-time.After(time.Duration(l.WatchdogS * float64(time.Second))):
		}
	}
	if got == len(addrs) {
		late(len(addrs), func() bool { return rl.Allow(netip.MustParseAddr("203.0.113.77")) })
		late(len(addrs)+1, func() bool { rl.Close(); return true })
	}
	var stuck []string
	for i, r := range l.Returned {
		if !r {
			stuck = append(stuck, l.Calls[i])
		}
	}
	l.Summary = fmt.Sprintf("real collector: table emptied after the idle gap: %v (%.2fs); first insert into the empty table held %.1fs inside Allow's insert section; calls that did not return within %.1fs: [%s]",
		l.Emptied, l.EmptyAfter, l.HoldS, l.WatchdogS, strings.Join(stuck, ", "))
	return l
}

func writeLive(path string, l *Live) error {
	var b strings.Builder
	b.WriteString(header)
	e := "false"
	if l.Emptied {
		e = "true"
	}
	fmt.Fprintf(&b, "Definition lbad := Eval vm_compute in (live_check %s %s).\nPrint lbad.\n", e, boolList(l.Returned))
	return osWriteFile(path, b.String())
}
