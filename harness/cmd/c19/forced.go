// Schedule-forcing passes on the real limiter.  The collector pass
// (VerifCleanup) reads the limiter's clock once per entry while it holds the
// table lock; a clock that blocks on the n-th read of the pass therefore
// holds the pass - and the table lock - at a chosen point, from the harness.
//
//	first-messages   while the pass is held, k callers for a brand-new address
//	                 and k callers for an address the pass is about to forget
//	                 queue up at Allow's read-locked lookup; when the pass ends
//	                 they are let through together: every one of them looks the
//	                 address up before any of them can insert it.
//	burst-in-pass    the pass is held after it has examined one of two idle
//	                 entries; bursts for both addresses are fired while it is
//	                 held, the pass is released, more messages follow.
//
// Everything after the setup happens at one clock instant; the observed
// decisions are judged by the envelope checker in Coq (at most 5 per address
// at one instant).
package main

import (
	"fmt"
	"net/netip"
	"strings"
	"sync/atomic"
	"time"

	"golang.zx2c4.com/wireguard/ratelimiter"
)

type FEv struct {
	A int   `json:"a"`
	T int64 `json:"t"`
	D bool  `json:"d"`
}

type Forced struct {
	Name      string   `json:"name"`
	Clause    int      `json:"clause"`
	Addrs     []string `json:"addrs"`
	Events    []FEv    `json:"events"`
	HeldPass  bool     `json:"pass_held"`
	InPass    int      `json:"calls_completed_while_pass_held"`
	NotBack   int      `json:"calls_not_returned"`
	Admitted  []int    `json:"admitted_at_the_instant"`
	Summary   string   `json:"summary"`
	NSetup    int      `json:"n_setup"`
	K         int      `json:"k_concurrent"`
	Valid     bool     `json:"valid"`
	Anomalies []string `json:"anomalies"`
}

type fres struct {
	a int
	d bool
}

func runForced(name string) *Forced {
	if name == "same-entry-contention" {
		return runContention()
	}
	f := &Forced{Name: name}
	var rl ratelimiter.Ratelimiter
	rl.Init()
	defer func() {
		done := make(chan struct{})
		go func() { rl.Close(); close(done) }()
		select {
		case <-done:
		case <-time.After(2 * time.Second):
			f.Anomalies = append(f.Anomalies, "Close did not return")
		}
	}()
	var cur atomic.Int64
	var inPass atomic.Bool
	var reads, holdAt atomic.Int32
	reached := make(chan struct{}, 1)
	release := make(chan struct{})
	t0 := int64(1700000000000000000)
	cur.Store(t0)
	rl.VerifSetClock(func() time.Time {
		if inPass.Load() && reads.Add(1) == holdAt.Load() {
			reached <- struct{}{}
			<-release
		}
		return time.Unix(0, cur.Load())
	})
	addr := func(i int) netip.Addr { return netip.MustParseAddr(f.Addrs[i]) }
	call := func(i int) {
		d := rl.Allow(addr(i))
		f.Events = append(f.Events, FEv{A: i, T: cur.Load(), D: d})
	}
	t1 := t0 + 1500000000
	var targets []int // addresses the concurrent callers use
	k := 6
	switch name {
	case "first-messages":
		f.Clause = 9
		f.Addrs = []string{"198.51.100.9", "2001:db8::77", "203.0.113.50"} // 0 to be forgotten, 1 fresh, 2 brand new
		call(0)
		cur.Store(t1)
		call(1)
		holdAt.Store(1)
		targets = []int{2, 0}
	default: // burst-in-pass
		f.Clause = 10
		f.Addrs = []string{"192.0.2.1", "2001:db8::2"}
		call(0)
		call(1)
		cur.Store(t1)
		holdAt.Store(2)
		targets = []int{0, 1}
		k = 5
	}
	passDone := make(chan struct{})
	go func() {
		inPass.Store(true)
		rl.VerifCleanup()
		inPass.Store(false)
		close(passDone)
	}()
	select {
	case <-reached:
		f.HeldPass = true
	case <-time.After(2 * time.Second):
		f.Anomalies = append(f.Anomalies, "the pass never reached the holding point")
		close(release)
		return f
	}
	results := make(chan fres, 64)
	n := 0
	for _, a := range targets {
		for i := 0; i < k; i++ {
			n++
			go func(a int) { results <- fres{a, rl.Allow(addr(a))} }(a)
		}
	}
	got := 0
	hold := time.After(80 * time.Millisecond)
held:
	for got < n {
		select {
		case r := <-results:
			f.Events = append(f.Events, FEv{A: r.a, T: t1, D: r.d})
			got++
			f.InPass++
		case <-hold:
			break held
		}
	}
	close(release)
	<-passDone
	watchdog := time.After(3 * time.Second)
back:
	for got < n {
		select {
		case r := <-results:
			f.Events = append(f.Events, FEv{A: r.a, T: t1, D: r.d})
			got++
		case <-watchdog:
			f.NotBack = n - got
			f.Anomalies = append(f.Anomalies, fmt.Sprintf("%d calls did not return", n-got))
			break back
		}
	}
	if f.NotBack == 0 {
		for _, a := range targets {
			for i := 0; i < 6; i++ {
				call(a)
			}
		}
	}
	f.Admitted = make([]int, len(f.Addrs))
	for _, e := range f.Events {
		if e.T == t1 && e.D {
			f.Admitted[e.A]++
		}
	}
	f.Valid = f.HeldPass && f.NotBack == 0
	var parts []string
	for _, a := range targets {
		parts = append(parts, fmt.Sprintf("%s: %d of %d admitted at one instant", f.Addrs[a], f.Admitted[a], k+6))
	}
	f.Summary = fmt.Sprintf("%s: pass held at clock read %d; %d of %d concurrent calls completed while it was held; %s (bound 5)",
		name, holdAt.Load(), f.InPass, n, strings.Join(parts, "; "))
	return f
}

// runContention: k callers for ONE address with an existing, full bucket at one
// instant.  The first caller is held inside its clock read, which Allow
// performs with the entry's mutex held; the others arrive meanwhile, reach the
// same entry and must wait for it.  Whatever the order, the bucket decides:
// the number admitted among the k must be the token bucket's (Coq: the mirror
// model run on the serialised calls), and the follow-up calls likewise.
func runContention() *Forced {
	f := &Forced{Name: "same-entry-contention", Clause: 15, Addrs: []string{"2001:db8:c::15"}, K: 3}
	var rl ratelimiter.Ratelimiter
	rl.Init()
	defer rl.Close()
	var cur atomic.Int64
	var arm atomic.Bool
	reached := make(chan struct{}, 1)
	release := make(chan struct{})
	t0 := int64(1700000000000000000)
	cur.Store(t0)
	rl.VerifSetClock(func() time.Time {
		if arm.CompareAndSwap(true, false) {
			reached <- struct{}{}
			<-release
		}
		return time.Unix(0, cur.Load())
	})
	ip := netip.MustParseAddr(f.Addrs[0])
	f.Events = append(f.Events, FEv{A: 0, T: t0, D: rl.Allow(ip)})
	f.NSetup = 1
	t1 := t0 + 500000000 // half a second later: the bucket is full again, the entry is not idle
	cur.Store(t1)
	results := make(chan bool, 8)
	arm.Store(true)
	go func() { results <- rl.Allow(ip) }()
	select {
	case <-reached:
		f.HeldPass = true
	case <-time.After(2 * time.Second):
		f.Anomalies = append(f.Anomalies, "the first caller never reached its clock read")
		close(release)
		return f
	}
	for i := 1; i < f.K; i++ {
		go func() { results <- rl.Allow(ip) }()
	}
	got := 0
	hold := time.After(60 * time.Millisecond)
held:
	for got < f.K {
		select {
		case d := <-results:
			f.Events = append(f.Events, FEv{A: 0, T: t1, D: d})
			got++
			f.InPass++
		case <-hold:
			break held
		}
	}
	close(release)
	watchdog := time.After(3 * time.Second)
	for got < f.K {
		select {
		case d := <-results:
			f.Events = append(f.Events, FEv{A: 0, T: t1, D: d})
			got++
		case <-watchdog:
			f.NotBack = f.K - got
			f.Anomalies = append(f.Anomalies, "calls did not return")
			got = f.K
		}
	}
	if f.NotBack == 0 {
		for i := 0; i < 3; i++ {
			f.Events = append(f.Events, FEv{A: 0, T: t1, D: rl.Allow(ip)})
		}
	}
	adm := 0
	for _, e := range f.Events[f.NSetup:] {
		if e.D {
			adm++
		}
	}
	f.Admitted = []int{adm}
	f.Valid = f.HeldPass && f.NotBack == 0
	var ds []string
	for _, e := range f.Events[f.NSetup:] {
		ds = append(ds, fmt.Sprint(e.D))
	}
	f.Summary = fmt.Sprintf("same-entry-contention: first of %d callers for %s held inside its clock read (entry mutex held), full bucket; %d calls returned while it was held; decisions in order of return, then 3 follow-ups: [%s]",
		f.K, f.Addrs[0], f.InPass, strings.Join(ds, " "))
	return f
}

func writeForced(path string, fs []*Forced) error {
	var b strings.Builder
	b.WriteString(header)
	b.WriteString("Definition fbad := Eval vm_compute in (\n")
	for i, f := range fs {
		if i > 0 {
			b.WriteString(" ++\n")
		}
		var evs []string
		for _, e := range f.Events {
			hi, lo := timeInts(e.T)
			x := 0
			if e.D {
				x = 1
			}
			evs = append(evs, fmt.Sprintf("%d;%d;%d;%d", e.A, hi, lo, x))
		}
		if f.Clause == 15 {
			fmt.Fprintf(&b, "  contention_check %d %s [%s]%%uint63 %d %d", i, addrList(f.Addrs), strings.Join(evs, ";"), f.NSetup, f.K)
		} else {
			fmt.Fprintf(&b, "  sched_check %d %d %s [%s]%%uint63", i, f.Clause, addrList(f.Addrs), strings.Join(evs, ";"))
		}
	}
	b.WriteString(").\nPrint fbad.\n")
	return osWriteFile(path, b.String())
}
