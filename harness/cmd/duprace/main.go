// duprace probes the ConsumeMessageResponse check-then-act window: the same valid handshake
// response delivered twice in one receive batch, processed by two handshake workers.
package main

import (
	"flag"
	"fmt"
	"runtime"

	"wgv/cosim"
	"wgv/ref"
	"wgv/sim"
)

func main() {
	rounds := flag.Int("rounds", 200, "rounds")
	copies := flag.Int("copies", 2, "copies of the response per batch")
	flag.Parse()
	hits := 0
	for r := 0; r < *rounds; r++ {
		b := cosim.NewPeer("B", "192.0.2.8:6666", "10.0.1.0/24")
		w, err := cosim.NewWorld(cosim.Config{Up: true, BindBatch: 8, TunBatch: 1}, true, b)
		if err != nil {
			panic(err)
		}
		out := w.TunIn(ref.IPv4([4]byte{10, 9, 9, 9}, [4]byte{10, 0, 1, 77}, 100, 1))
		init := cosim.FindInitiation(out.Sent)
		if init == nil {
			panic("no initiation")
		}
		rs, err := ref.ConsumeInitiation(init.Data, b.Priv)
		if err != nil {
			panic(err)
		}
		resp, sess := rs.CreateResponse(ref.NewPrivate(), b.Psk, 4242)
		b.Sessions = append(b.Sessions, sess)
		var ds []sim.Dgram
		for i := 0; i < *copies; i++ {
			ds = append(ds, sim.Dgram{From: b.Addr, Data: resp})
		}
		out = w.InjectBatch(ds...)
		seen := map[uint64]int{}
		for _, d := range w.DescribeAll(out.Sent) {
			if d.Kind == "transport" && d.OpensAs != "" {
				seen[d.Counter]++
			}
		}
		for c, n := range seen {
			if n > 1 {
				hits++
				if hits <= 3 {
					fmt.Printf("round %d: counter %d emitted %d times under one session key (GOMAXPROCS=%d)\n", r, c, n, runtime.GOMAXPROCS(0))
				}
				break
			}
		}
		w.Close()
	}
	fmt.Printf("rounds=%d duplicate-counter rounds=%d\n", *rounds, hits)
}
