// c17 drives tun.handleVirtioRead (through the verif-tag export) with generated
// virtio-net reads - TCP/UDP segmentation-offload super-packets, single packets
// that need their checksum completed, and malformed headers - and writes the
// inputs with the observed results as Gallina case files + JSON.
package main

import (
	"bytes"
	"encoding/binary"
	"encoding/json"
	"errors"
	"flag"
	"fmt"
	"hash/fnv"
	"io"
	"math/bits"
	"math/rand"
	"os"
	"path/filepath"
	"sort"
	"strings"
	"sync"
	"sync/atomic"
	"syscall"
	"time"

	"golang.zx2c4.com/wireguard/tun"
)

type Case struct {
	Gen string `json:"gen"`
	// Type "" = a virtio-net read handed to handleVirtioRead; "rd" = the same through the real
	// NativeTun.Read; "ck" = checksumNoFold/checksum(data, init);
	// "ph" = pseudoHeaderChecksumNoFold(proto, src, dst, tlen)
	Type      string `json:"type,omitempty"`
	Init      uint64 `json:"init,string,omitempty"`
	Data      []byte `json:"data,omitempty"`
	Proto     uint8  `json:"proto,omitempty"`
	Src       []byte `json:"src,omitempty"`
	Dst       []byte `json:"dst,omitempty"`
	TLen      uint16 `json:"tlen,omitempty"`
	ObsNoFold uint64 `json:"obs_nofold,string,omitempty"`
	ObsCk     uint16 `json:"obs_ck,omitempty"`

	Raw    []byte `json:"raw"` // virtio_net_hdr + packet, as read(2) returns it
	NBufs  int    `json:"nbufs"`
	Offset int    `json:"offset"`
	Room   int    `json:"room"` // len(bufs[i]) - offset
	// SizesExtra: len(sizes) = len(bufs) + SizesExtra (Device.Read allows len(sizes) >= len(bufs))
	SizesExtra int `json:"sizes_extra,omitempty"`
	// GSeed selects the stale bytes the output buffers hold before the call (0 = derive from Raw)
	GSeed uint64 `json:"gseed,omitempty"`
	// Conc names the concurrent pass the observation was made in ("" = a call on its own)
	Conc string `json:"conc,omitempty"`
	// observed
	Panic    bool     `json:"panic"`
	PanicMsg string   `json:"panic_msg,omitempty"`
	Touched  bool     `json:"touched"`
	N        int      `json:"n"`
	Err      int      `json:"err"`
	ErrMsg   string   `json:"err_msg,omitempty"`
	Segs     [][]byte `json:"segs"`
	// summary (for coverage accounting and samples)
	Info map[string]any `json:"info,omitempty"`
}

const (
	gsoNone   = 0
	gsoTCPv4  = 1
	gsoTCPv6  = 4
	gsoUDPL4  = 5
	needsCsum = 1
)

func classify(err error) int {
	if err == nil {
		return 0
	}
	s := err.Error()
	switch {
	case errors.Is(err, io.ErrShortBuffer):
		return 1
	case errors.Is(err, tun.ErrTooManySegments):
		return 11
	case strings.HasPrefix(s, "read len"):
		return 2
	case strings.HasPrefix(s, "unsupported virtio GSO type"):
		return 3
	case strings.HasPrefix(s, "ip header version:"):
		return 4
	case strings.HasPrefix(s, "invalid ip header version"):
		return 5
	case strings.HasPrefix(s, "packet is too short"):
		return 6
	case strings.HasPrefix(s, "tcp header len is invalid"):
		return 7
	case strings.HasPrefix(s, "length of packet"):
		return 8
	case strings.HasPrefix(s, "virtioNetHdr.hdrLen"):
		return 9
	case strings.HasPrefix(s, "end of checksum offset"):
		return 10
	}
	return 99
}

// staleFill writes the stale content of output buffer i (Gso.stale: a 16-bit xorshift
// stream from offset on; another stream in front of offset). Never zero.
func staleFill(c *Case, i int, buf []byte) {
	stream := func(x uint16, b []byte) {
		for j := range b {
			b[j] = byte(1 + x&127)
			x ^= x << 7
			x ^= x >> 9
			x ^= x << 8
		}
	}
	stream(uint16(1|(c.GSeed+7919*uint64(i))&0xffff), buf[c.Offset:])
	stream(uint16(1|(c.GSeed+4001*uint64(i)+12345)&0xffff), buf[:c.Offset])
}

// runImpl runs the real code on buffers of equal size that, like the device's pooled and
// never cleared buffers, are full of stale non-zero bytes (whole capacity: in front of
// offset and behind the packet).
func runImpl(c *Case) {
	switch c.Type {
	case "ck":
		c.ObsNoFold = tun.VerifChecksumNoFold(append([]byte(nil), c.Data...), c.Init)
		c.ObsCk = tun.VerifChecksum(append([]byte(nil), c.Data...), c.Init)
		return
	case "ph":
		c.ObsNoFold = tun.VerifPseudoHeaderChecksumNoFold(c.Proto, c.Src, c.Dst, c.TLen)
		return
	}
	c.Panic, c.PanicMsg, c.Touched, c.N, c.Err, c.ErrMsg, c.Segs = false, "", false, 0, 0, "", nil
	if c.GSeed == 0 {
		h := fnv.New32a()
		h.Write(c.Raw)
		c.GSeed = 1 + uint64(h.Sum32()%1000000)
	}
	bufs := make([][]byte, c.NBufs)
	stale := make([][]byte, c.NBufs)
	for i := range bufs {
		bufs[i] = make([]byte, c.Offset+c.Room)
		staleFill(c, i, bufs[i])
		stale[i] = append([]byte(nil), bufs[i]...)
	}
	sizes := make([]int, c.NBufs+c.SizesExtra)
	for i := range sizes {
		sizes[i] = -1
	}
	raw := make([]byte, len(c.Raw)) // cap == len: slicing past the data panics as indexing does
	copy(raw, c.Raw)
	func() {
		defer func() {
			if r := recover(); r != nil {
				c.Panic = true
				c.PanicMsg = fmt.Sprint(r)
			}
		}()
		var n int
		var err error
		if c.Type == "rd" {
			n, err = readThroughTun(raw, bufs, sizes, c.Offset)
		} else {
			n, err = tun.VerifHandleVirtioRead(raw, bufs, sizes, c.Offset)
		}
		c.N = n
		c.Err = classify(err)
		if err != nil {
			c.ErrMsg = err.Error()
		}
	}()
	collect(c, bufs, stale, sizes)
}

// collect records the written buffers and whether anything outside them changed.
func collect(c *Case, bufs, stale [][]byte, sizes []int) {
	if c.Panic {
		return
	}
	c.Segs = [][]byte{}
	c.Touched = false
	for i := len(bufs); i < len(sizes); i++ {
		if sizes[i] != -1 { // a size reported for a buffer that does not exist
			c.Touched = true
		}
	}
	for i := range bufs {
		used := 0
		if sizes[i] >= 0 {
			used = sizes[i]
			c.Segs = append(c.Segs, append([]byte(nil), bufs[i][c.Offset:c.Offset+used]...))
		}
		for j, b := range bufs[i] {
			if (j < c.Offset || j >= c.Offset+used) && b != stale[i][j] {
				c.Touched = true
			}
		}
	}
}

// ---------------------------------------------------------------------------
// packet construction

func sum16(b []byte, acc uint32) uint32 {
	for i := 0; i+1 < len(b); i += 2 {
		acc += uint32(b[i])<<8 | uint32(b[i+1])
	}
	if len(b)%2 == 1 {
		acc += uint32(b[len(b)-1]) << 8
	}
	return acc
}

func fold(acc uint32) uint16 {
	for acc>>16 != 0 {
		acc = acc>>16 + acc&0xffff
	}
	return uint16(acc)
}

type superSpec struct {
	v6, tcp    bool
	ihl        int // IPv4 header length in bytes (20..60)
	thl        int // TCP header length in bytes (20..60); 8 for UDP
	ext        int // IPv6 extension header bytes (0 normally)
	gso        int
	paylen     int
	seq        uint32
	flags      byte
	id         uint16
	hdrLenHint uint16 // virtio hdr_len field (not trusted by the code)
	vflags     byte
}

func (s superSpec) cs() int {
	if s.v6 {
		return 40 + s.ext
	}
	return s.ihl
}

func (s superSpec) hl() int { return s.cs() + s.thl }

// buildSuper returns virtio header + packet with a CHECKSUM_PARTIAL transport checksum.
func buildSuper(r *rand.Rand, s superSpec) []byte {
	cs, hl := s.cs(), s.hl()
	pkt := make([]byte, hl+s.paylen)
	total := len(pkt)
	proto := byte(17)
	if s.tcp {
		proto = 6
	}
	var src, dst []byte
	if s.v6 {
		pkt[0] = 0x60 | byte(r.Intn(16))
		pkt[1], pkt[2], pkt[3] = byte(r.Intn(256)), byte(r.Intn(256)), byte(r.Intn(256))
		binary.BigEndian.PutUint16(pkt[4:], uint16(total-40))
		pkt[6] = proto
		pkt[7] = byte(1 + r.Intn(255))
		r.Read(pkt[8:40])
		if s.ext > 0 { // hop-by-hop options header(s) padded with PadN
			pkt[6] = 0
			pkt[40] = proto
			pkt[41] = byte(s.ext/8 - 1)
			if s.ext > 2 {
				pkt[42] = 1
				pkt[43] = byte(s.ext - 4)
			}
		}
		src, dst = pkt[8:24], pkt[24:40]
	} else {
		pkt[0] = 0x40 | byte(s.ihl/4)
		pkt[1] = byte(r.Intn(256))
		binary.BigEndian.PutUint16(pkt[2:], uint16(total))
		binary.BigEndian.PutUint16(pkt[4:], s.id)
		if r.Intn(2) == 0 {
			pkt[6] = 0x40
		}
		pkt[8] = byte(1 + r.Intn(255))
		pkt[9] = proto
		r.Read(pkt[12:20])
		for i := 20; i < s.ihl; i++ { // options: NOPs and random bytes
			if r.Intn(2) == 0 {
				pkt[i] = 1
			} else {
				pkt[i] = byte(r.Intn(256))
			}
		}
		binary.BigEndian.PutUint16(pkt[10:], ^fold(sum16(pkt[:s.ihl], 0)))
		src, dst = pkt[12:16], pkt[16:20]
	}
	th := pkt[cs:hl]
	r.Read(th[0:4]) // ports
	co := 6
	if s.tcp {
		co = 16
		binary.BigEndian.PutUint32(th[4:], s.seq)
		binary.BigEndian.PutUint32(th[8:], r.Uint32())
		// data offset + the low nibble of byte 12 (AE/NS and the three reserved bits): mostly clear or
		// AE alone, one in four any value -- the header length is the HIGH nibble only
		resv := byte(r.Intn(2))
		if r.Intn(4) == 0 {
			resv = byte(r.Intn(16))
		}
		th[12] = byte(s.thl/4)<<4 | resv
		th[13] = s.flags
		binary.BigEndian.PutUint16(th[14:], uint16(r.Intn(65536)))
		binary.BigEndian.PutUint16(th[18:], uint16(r.Intn(3)*r.Intn(65536)))
		r.Read(th[20:])
	} else {
		binary.BigEndian.PutUint16(th[4:], uint16(8+s.paylen))
	}
	switch r.Intn(4) {
	case 0: // zeros
	case 1:
		for i := range pkt[hl:] {
			pkt[hl+i] = 0xff
		}
	default:
		r.Read(pkt[hl:])
	}
	// CHECKSUM_PARTIAL: folded pseudo-header sum, not complemented
	ps := sum16(src, 0)
	ps = sum16(dst, ps)
	ps += uint32(proto) + uint32(total-cs)
	binary.BigEndian.PutUint16(pkt[cs+co:], fold(ps))
	gt := byte(gsoUDPL4)
	if s.tcp {
		gt = gsoTCPv4
		if s.v6 {
			gt = gsoTCPv6
		}
	}
	raw := make([]byte, 10+len(pkt))
	raw[0] = s.vflags
	raw[1] = gt
	binary.LittleEndian.PutUint16(raw[2:], s.hdrLenHint)
	binary.LittleEndian.PutUint16(raw[4:], uint16(s.gso))
	binary.LittleEndian.PutUint16(raw[6:], uint16(cs))
	binary.LittleEndian.PutUint16(raw[8:], uint16(co))
	copy(raw[10:], pkt)
	return raw
}

// share of super-packets up to the 64 KiB read buffer / up to 20000 bytes (the rest: <= 4 KiB)
var pctBig, pctMedium = 3, 12

var gsoSizes = []int{1, 2, 3, 8, 100, 536, 1200, 1448, 1460, 8948, 65495, 65535}
var seqs = []uint32{0, 1, 0xffffffff, 0xfffffffe, 0xffff0000, 0x80000000, 0x7fffffff}
var ids = []uint16{0, 1, 65535, 65534, 65500, 32768}
var tcpFlagSets = []byte{0x10, 0x18, 0x11, 0x19, 0x08, 0x01, 0x09, 0x00, 0x38, 0xd9, 0xff, 0x12, 0x14}
var offsets = []int{0, 10, 16, 16, 16, 1, 64}

func randSuper(r *rand.Rand) superSpec {
	s := superSpec{v6: r.Intn(2) == 0, tcp: r.Intn(3) != 0, ihl: 20, thl: 8}
	if !s.v6 && r.Intn(3) == 0 {
		s.ihl = 20 + 4*r.Intn(11)
	}
	if s.tcp {
		s.thl = 20
		if r.Intn(2) == 0 {
			s.thl = 20 + 4*r.Intn(11)
		}
	}
	if r.Intn(3) == 0 {
		s.gso = 1 + r.Intn(2000)
	} else {
		s.gso = gsoSizes[r.Intn(len(gsoSizes))]
	}
	max := 65535 - s.hl()
	// size class: mostly small, some medium, a few up to the 64 KiB read buffer
	limit := 4096
	switch x := r.Intn(100); {
	case x < pctBig:
		limit = max
	case x < pctBig+pctMedium:
		limit = 20000
	}
	if limit > max {
		limit = max
	}
	k := 1 + r.Intn(6)
	if r.Intn(4) == 0 {
		k = 1 + r.Intn(140)
	}
	var p int
	switch r.Intn(8) {
	case 0:
		p = k * s.gso // exact multiple
	case 1:
		p = k*s.gso + 1
	case 2:
		p = k*s.gso - 1
	case 3:
		p = k*s.gso + r.Intn(s.gso)
	case 4:
		p = 1 + r.Intn(limit)
	case 5:
		p = limit
	case 6:
		p = (limit / s.gso) * s.gso // largest exact multiple in the class
	default:
		p = k*s.gso + s.gso/2
	}
	if p > limit {
		p = limit - r.Intn(3)
	}
	if p < 0 {
		p = 0
	}
	if r.Intn(60) == 0 {
		p = 0 // header only: zero packets result
	}
	s.paylen = p
	if r.Intn(2) == 0 {
		s.seq = seqs[r.Intn(len(seqs))]
	} else if r.Intn(2) == 0 {
		s.seq = uint32(0x100000000 - int64(r.Intn(p+2)))
	} else {
		s.seq = r.Uint32()
	}
	if r.Intn(3) == 0 {
		s.flags = byte(r.Intn(256))
	} else {
		s.flags = tcpFlagSets[r.Intn(len(tcpFlagSets))]
	}
	if r.Intn(2) == 0 {
		s.id = ids[r.Intn(len(ids))]
	} else {
		s.id = uint16(r.Intn(65536))
	}
	switch r.Intn(3) {
	case 0:
		s.hdrLenHint = uint16(s.hl())
	case 1: // FORWARD path: length of the entire first packet
		s.hdrLenHint = uint16(s.hl() + s.gso)
	default:
		s.hdrLenHint = uint16(r.Intn(65536))
	}
	s.vflags = needsCsum
	if r.Intn(5) == 0 {
		s.vflags = byte(r.Intn(4))
	}
	return s
}

// roomFor picks len(bufs[i]) - offset: the read always fits (no segment is longer than the
// read), with 2..200 stale bytes behind it, and now and then a whole 64 KiB buffer.
func roomFor(r *rand.Rand, rawLen int) int {
	if r.Intn(10) == 0 {
		return 65535 + r.Intn(3)
	}
	n := rawLen - 10
	if n < 0 {
		n = 0
	}
	return n + 2 + r.Intn(199)
}

// pickSizesExtra: the sizes vector is as long as bufs, one longer, or much longer
func pickSizesExtra(r *rand.Rand) int {
	switch r.Intn(4) {
	case 0:
		return 1
	case 1:
		return 2 + r.Intn(200)
	}
	return 0
}

func nsegOf(s superSpec) int {
	if s.gso == 0 {
		return 0
	}
	return (s.paylen + s.gso - 1) / s.gso
}

func pickBufs(r *rand.Rand, nseg int) int {
	var nb int
	switch r.Intn(8) {
	case 0:
		nb = 1
	case 1:
		nb = nseg - 1
	case 2:
		nb = nseg
	case 3:
		nb = nseg + 1
	case 4:
		nb = 128
	case 5:
		nb = 2
	default:
		nb = 1 + r.Intn(128)
	}
	if nb < 1 {
		nb = 1
	}
	if nb > 128 {
		nb = 128
	}
	return nb
}

func superInfo(s superSpec, gen string) map[string]any {
	fam := "4"
	if s.v6 {
		fam = "6"
	}
	pr := "udp"
	if s.tcp {
		pr = "tcp"
	}
	return map[string]any{"kind": pr + fam, "cs": s.cs(), "hl": s.hl(), "gso": s.gso, "paylen": s.paylen,
		"nseg": nsegOf(s), "seq": s.seq, "flags": s.flags, "id": s.id}
}

// udpZeroIn reports whether an observed UDP segment carries checksum 0x0000.
func udpZeroIn(c *Case, cs int) bool {
	for _, sg := range c.Segs {
		if len(sg) >= cs+8 && sg[cs+6] == 0 && sg[cs+7] == 0 {
			return true
		}
	}
	return false
}

func genSuper(r *rand.Rand) Case {
	s := randSuper(r)
	for {
		c := Case{Gen: "super", Raw: buildSuper(r, s), NBufs: pickBufs(r, nsegOf(s)), Offset: offsets[r.Intn(len(offsets))], SizesExtra: pickSizesExtra(r)}
		c.Room = roomFor(r, len(c.Raw))
		c.Info = superInfo(s, c.Gen)
		runImpl(&c)
		// the zero-UDP-checksum observation (finding F6) has its own dedicated scenario;
		// random inputs that would hit it by accident (1 segment in 65535) are redrawn
		if !s.tcp && udpZeroIn(&c, s.cs()) {
			continue
		}
		return c
	}
}

// single packet that needs its checksum completed (gso_type NONE, NEEDS_CSUM)
func buildPartial(r *rand.Rand, v6, tcp bool, ihl, thl, paylen int) []byte {
	s := superSpec{v6: v6, tcp: tcp, ihl: ihl, thl: thl, gso: 0, paylen: paylen, seq: r.Uint32(), flags: 0x18, id: uint16(r.Intn(65536)), vflags: needsCsum}
	raw := buildSuper(r, s)
	raw[1] = gsoNone
	binary.LittleEndian.PutUint16(raw[2:], 0)
	binary.LittleEndian.PutUint16(raw[4:], 0)
	return raw
}

func genNone(r *rand.Rand) Case {
	v6, tcp := r.Intn(2) == 0, r.Intn(2) == 0
	ihl, thl := 20, 8
	if !v6 && r.Intn(3) == 0 {
		ihl = 20 + 4*r.Intn(11)
	}
	if tcp {
		thl = 20 + 4*r.Intn(11)
	}
	paylen := r.Intn(1500)
	switch r.Intn(12) {
	case 0:
		paylen = 0
	case 1:
		paylen = 1
	case 2:
		paylen = 65535 - 60 - 60 - r.Intn(2)
	}
	for {
		c := Case{Gen: "none-csum", NBufs: 1 + r.Intn(3), Offset: offsets[r.Intn(len(offsets))], Room: 65535, SizesExtra: pickSizesExtra(r)}
		if r.Intn(4) != 0 {
			c.Room = 0 // set below, once the read is known
		}
		c.Raw = buildPartial(r, v6, tcp, ihl, thl, paylen)
		cs := int(binary.LittleEndian.Uint16(c.Raw[6:]))
		c.Info = map[string]any{"kind": "none-csum", "cs": cs, "paylen": paylen, "nseg": 1}
		switch r.Intn(10) {
		case 0: // plain: no NEEDS_CSUM
			c.Gen = "none-plain"
			c.Raw[0] = 0
			c.Info["kind"] = "none-plain"
		case 1: // bufs element too small
			c.Gen = "none-overflow"
			c.Room = len(c.Raw) - 10 - 1 - r.Intn(3)
			if c.Room < 0 {
				c.Room = 0
			}
		case 2: // arbitrary bytes, plain
			c.Gen = "none-plain-random"
			c.Raw = make([]byte, 10+r.Intn(200))
			r.Read(c.Raw[10:])
			c.Info["kind"] = "none-plain"
		}
		if c.Room == 0 && c.Gen != "none-overflow" {
			c.Room = roomFor(r, len(c.Raw))
		}
		runImpl(&c)
		if !tcp && c.Raw[0]&needsCsum != 0 && udpZeroIn(&c, cs) {
			continue
		}
		return c
	}
}

// malformed: one mutation of a well-formed read
func genMalformed(r *rand.Rand) Case {
	s := randSuper(r)
	if s.paylen > 3000 {
		s.paylen = r.Intn(3000)
	}
	raw := buildSuper(r, s)
	c := Case{Gen: "malformed", NBufs: pickBufs(r, nsegOf(s)), Offset: offsets[r.Intn(len(offsets))], Room: roomFor(r, len(raw)), SizesExtra: pickSizesExtra(r)}
	plen := len(raw) - 10
	cs, hl := s.cs(), s.hl()
	m := r.Intn(14)
	switch m {
	case 0:
		raw[1] = []byte{2, 3, 6, 7, 0x81, 0x84, 0x85, 255}[r.Intn(8)]
	case 1:
		raw[10] = raw[10]&0x0f | []byte{0x00, 0x50, 0x70, 0xf0, 0x40, 0x60}[r.Intn(6)]
	case 2:
		v := []int{65535, 65524, 65523, 65530, 65500, 0, 10, 12, 19, plen - 1, plen, plen + 5, cs + 4, cs - 4, r.Intn(65536)}
		binary.LittleEndian.PutUint16(raw[6:], uint16(v[r.Intn(len(v))]))
	case 3:
		v := []int{65535, 65530, hl - cs - 2, hl - cs - 1, hl - cs, plen - cs - 2, plen - cs - 1, plen - cs, plen - cs + 1, 65536 - cs, 65536 - cs + 2, 65536 - cs + 10, 65536 - cs - 1, r.Intn(65536), r.Intn(hl + 4)}
		binary.LittleEndian.PutUint16(raw[8:], uint16(v[r.Intn(len(v))]))
	case 4:
		if s.tcp {
			raw[10+cs+12] = raw[10+cs+12]&0x0f | byte(r.Intn(16))<<4
		} else {
			raw[1] = []byte{gsoTCPv4, gsoTCPv6}[r.Intn(2)] // UDP packet announced as TCP
		}
	case 5:
		v := []int{0, 5, 9, 10, 11, 12, 10 + 11, 10 + 12, 10 + 19, 10 + 20, 10 + 39, 10 + 40, 10 + cs, 10 + cs + 12, 10 + cs + 13, 10 + hl - 1, 10 + hl, 10 + hl + 1}
		n := v[r.Intn(len(v))]
		if n < len(raw) {
			raw = raw[:n]
		}
	case 6:
		binary.LittleEndian.PutUint16(raw[4:], 0) // gso_size 0
	case 7:
		if !s.v6 {
			raw[10] = 0x40 | byte(5+r.Intn(11)) // IHL disagrees with csum_start
		} else {
			binary.LittleEndian.PutUint16(raw[6:], uint16(40+8*r.Intn(3)))
		}
	case 8: // wrong family for the GSO type
		if s.tcp {
			if s.v6 {
				raw[1] = gsoTCPv4
			} else {
				raw[1] = gsoTCPv6
			}
		} else {
			raw[10] = raw[10]&0x0f | 0x50
		}
	case 9: // small csum_start with a short packet: address slices beyond the data
		binary.LittleEndian.PutUint16(raw[6:], uint16(r.Intn(12)))
		n := 10 + 9 + r.Intn(40)
		if n < len(raw) {
			raw = raw[:n]
		}
	case 10: // NONE with a bad checksum position
		raw[1] = gsoNone
		raw[0] = needsCsum
		v := []int{plen - cs - 1, plen - cs, plen - cs + 1, 65535, 65536 - cs, 65536 - cs + 4, r.Intn(65536)}
		binary.LittleEndian.PutUint16(raw[8:], uint16(v[r.Intn(len(v))]))
		if r.Intn(2) == 0 {
			binary.LittleEndian.PutUint16(raw[6:], uint16([]int{plen, plen + 1, 65535, plen - 1}[r.Intn(4)]))
		}
	case 12: // checksum field ends at or beyond the end of the packet
		binary.LittleEndian.PutUint16(raw[8:], uint16(plen-cs-2+r.Intn(3)))
		if r.Intn(2) == 0 { // ... of a header-only packet
			raw = raw[:10+hl]
			binary.LittleEndian.PutUint16(raw[8:], uint16(hl-cs-2+r.Intn(3)))
		}
	case 13: // csum_start so large that the recomputed hdr_len wraps around
		binary.LittleEndian.PutUint16(raw[6:], uint16(65536-s.thl+r.Intn(s.thl)))
	case 11: // checksum field somewhere else in the headers (passes the gates, not what the kernel sends)
		binary.LittleEndian.PutUint16(raw[8:], uint16(r.Intn(hl-cs)))
	}
	c.Raw = raw
	c.Info = map[string]any{"kind": fmt.Sprintf("malformed-%d", m), "nseg": 0}
	runImpl(&c)
	return c
}

// ---------------------------------------------------------------------------
// dedicated scenarios

// the four super-packets of Test_handleVirtioRead (tun/offload_linux_test.go)
func scenarioUnitTests(r *rand.Rand) []Case {
	var res []Case
	for _, t := range []struct{ v6, tcp bool }{{false, true}, {true, true}, {false, false}, {true, false}} {
		s := superSpec{v6: t.v6, tcp: t.tcp, ihl: 20, thl: 8, gso: 100, paylen: 200, seq: 1, flags: 0x18, id: 0, vflags: needsCsum}
		if t.tcp {
			s.thl = 20
		}
		s.hdrLenHint = uint16(s.hl())
		c := Case{Gen: "unit-test", Raw: buildSuper(r, s), NBufs: 128, Offset: 10, Room: 65535, Info: superInfo(s, "unit-test")}
		runImpl(&c)
		res = append(res, c)
		c2 := c // and its overflow variant: one buffer, with sizes as long as bufs, one longer, much longer
		c2.Gen, c2.NBufs = "unit-test-1buf", 1
		runImpl(&c2)
		res = append(res, c2)
		for _, extra := range []int{1, 127} {
			c3 := c2
			c3.Gen, c3.SizesExtra = "unit-test-1buf-long-sizes", extra
			runImpl(&c3)
			res = append(res, c3)
		}
	}
	// shorter than a virtio_net_hdr; a header only (gso_type TCPV4): in[0] is out of range
	for _, raw := range [][]byte{{1, 1, 40, 0, 100}, {1, 1, 40, 0, 100, 0, 20, 0, 16, 0}} {
		c := Case{Gen: "unit-short", Raw: raw, NBufs: 2, Offset: 16, Room: 65535, Info: map[string]any{"kind": "malformed-short", "nseg": 0}}
		runImpl(&c)
		res = append(res, c)
	}
	return res
}

// F6: segments/packets whose computed checksum is exactly 0. The complete family: gsoSplit
// USO v4/v6 and TSO v4/v6, gsoNoneChecksum (GSO_NONE + NEEDS_CSUM) UDP v4/v6 and TCP v4/v6, the
// latter with an even and an odd payload length. UDP must go out as 0xffff (specification
// clauses 12 / 34); for TCP both values verify and the model fixes which one the code stores.
func scenarioUDPZero(r *rand.Rand) []Case {
	var res []Case
	mk := func(v6, none, tcp bool, paylen int) {
		s := superSpec{v6: v6, tcp: tcp, ihl: 20, thl: 8, gso: 100, paylen: 250, vflags: needsCsum, id: 7, flags: 0x18, seq: 0xffffff00}
		co := 6
		if tcp {
			s.thl, co = 20, 16
		}
		s.hdrLenHint = uint16(s.hl())
		c := Case{Gen: "f6-zero-checksum", NBufs: 8, Offset: 16, Room: 65535}
		seg := 1
		if none {
			c.Raw = buildPartial(r, v6, tcp, 20, s.thl, paylen)
			seg = 0
			c.Info = map[string]any{"kind": "none-csum", "nseg": 1, "f6": true, "v6": v6, "tcp": tcp}
		} else {
			c.Raw = buildSuper(r, s)
			c.Info = superInfo(s, c.Gen)
			c.Info["f6"] = true
		}
		cs := s.cs()
		at := 10 + s.hl() + seg*s.gso // first payload word of the chosen segment (even offset in the transport segment)
		runImpl(&c)
		stored := binary.BigEndian.Uint16(c.Segs[seg][cs+co:])
		f := uint32(^stored) // folded sum including the word at `at`
		w := uint32(binary.BigEndian.Uint16(c.Raw[at:]))
		w2 := (w + 2*65535 - f) % 65535
		binary.BigEndian.PutUint16(c.Raw[at:], uint16(w2))
		runImpl(&c)
		// the computed checksum is now zero: the field shows 0xffff (mangled) or 0x0000 (not
		// mangled: judged by the specification / the model); anything else means the scenario
		// was not constructed
		fld := binary.BigEndian.Uint16(c.Segs[seg][cs+co:])
		if fld != 0 && fld != 0xffff {
			panic(fmt.Sprintf("f6 scenario: checksum field %#04x, expected a computed zero", fld))
		}
		c.Info["f6_field"] = fld
		res = append(res, c)
	}
	for _, v6 := range []bool{false, true} {
		mk(v6, false, false, 0) // USO
		mk(v6, false, true, 0)  // TSO
		mk(v6, true, false, 120)
		mk(v6, true, false, 3)
		mk(v6, true, true, 120)
		mk(v6, true, true, 101)
	}
	return res
}

// ---------------------------------------------------------------------------
// The glue above handleVirtioRead: the real NativeTun.Read (vnet-hdr mode) fed through a
// SOCK_DGRAM socketpair standing in for /dev/net/tun (one packet per read(), silently cut to
// the reader's buffer). The expected behaviour is handle_virtio_read of exactly the bytes
// written, for every length up to 10 + 65535.

type readTun struct {
	dev  *tun.NativeTun
	wfd  int
	file *os.File
}

var rtun *readTun

func getReadTun() *readTun {
	if rtun != nil {
		return rtun
	}
	fds, err := syscall.Socketpair(syscall.AF_UNIX, syscall.SOCK_DGRAM, 0)
	if err != nil {
		panic(fmt.Sprintf("socketpair: %v", err))
	}
	for _, fd := range fds {
		syscall.SetsockoptInt(fd, syscall.SOL_SOCKET, syscall.SO_SNDBUF, 1<<20)
		syscall.SetsockoptInt(fd, syscall.SOL_SOCKET, syscall.SO_RCVBUF, 1<<20)
	}
	f := os.NewFile(uintptr(fds[0]), "faketun")
	rtun = &readTun{dev: tun.VerifNewReadTun(f), wfd: fds[1], file: f}
	return rtun
}

func readThroughTun(raw []byte, bufs [][]byte, sizes []int, offset int) (int, error) {
	rt := getReadTun()
	n, err := syscall.Write(rt.wfd, raw)
	if err != nil || n != len(raw) {
		panic(fmt.Sprintf("write to the stand-in tun fd: n=%d err=%v", n, err))
	}
	return rt.dev.Read(bufs, sizes, offset)
}

// ---------------------------------------------------------------------------
// Concurrent passes over the real NativeTun.Read: the property is about what every Read
// returns, also when several goroutines read one device (readOpMu guards readBuff) and while
// NativeTun.Write runs GRO with checksum validation on another goroutine (as
// RoutineReadFromTUN and RoutineSequentialReceiver do).  Distinct tagged super-packets are
// queued; every Read result is attributed to the super-packet its first segment claims to
// come from (ports) and judged in Coq against that super-packet by the same model and
// specification as a single call; a super-packet nobody returned is reported with an empty
// result, one returned twice is reported twice.

const concOffset, concBufs = 16, 40

type concResult struct {
	c           Case
	bufs, stale [][]byte
	sizes       []int
}

func concPackets(r *rand.Rand, n int) [][]byte {
	var pk [][]byte
	for k := 0; k < n; k++ {
		s := superSpec{v6: k%2 == 1, tcp: k%4 < 2, ihl: 20, thl: 8, seq: r.Uint32(), flags: 0x18, id: uint16(r.Intn(65536)), vflags: needsCsum}
		if s.tcp {
			s.thl = 20
		}
		s.gso = 100 + r.Intn(200)
		s.paylen = s.gso*(10+r.Intn(20)) + r.Intn(s.gso)
		s.hdrLenHint = uint16(s.hl())
		raw := buildSuper(r, s)
		binary.BigEndian.PutUint16(raw[10+s.cs():], uint16(0x4000+k)) // the tag: source and destination port
		binary.BigEndian.PutUint16(raw[10+s.cs()+2:], uint16(0x5000+k))
		pk = append(pk, raw)
	}
	return pk
}

// tagOf finds the super-packet a result claims to come from (-1: none).
func tagOf(seg []byte, n int) int {
	if len(seg) < 1 {
		return -1
	}
	cs := 20
	if seg[0]>>4 == 6 {
		cs = 40
	}
	if len(seg) < cs+4 {
		return -1
	}
	k := int(binary.BigEndian.Uint16(seg[cs:])) - 0x4000
	if k < 0 || k >= n || int(binary.BigEndian.Uint16(seg[cs+2:])) != 0x5000+k {
		return -1
	}
	return k
}

// writerBatch: the segments of one flow as NativeTun.Write gets them (valid checksums, consecutive)
func writerBatch(r *rand.Rand, tcp, v6 bool) [][]byte {
	s := superSpec{v6: v6, tcp: tcp, ihl: 20, thl: 8, gso: 64, paylen: 64 * 48, seq: r.Uint32(), flags: 0x10, id: 1, vflags: needsCsum}
	if tcp {
		s.thl = 20
	}
	s.hdrLenHint = uint16(s.hl())
	c := Case{Raw: buildSuper(r, s), NBufs: 64, Offset: concOffset, Room: 65535}
	runImpl(&c)
	return c.Segs
}

func concurrentPass(r *rand.Rand, gen string, withWriters bool, npk, maxRounds int, budget time.Duration) []Case {
	packets := concPackets(r, npk)
	room := 0
	for _, p := range packets {
		if len(p) > room {
			room = len(p)
		}
	}
	room += 64
	// what each call returns on its own (used only to pick the round that is written out)
	want := make([]Case, npk)
	for k, p := range packets {
		want[k] = Case{Raw: p, NBufs: concBufs, Offset: concOffset, Room: room}
		runImpl(&want[k])
	}
	fds, err := syscall.Socketpair(syscall.AF_UNIX, syscall.SOCK_DGRAM, 0)
	if err != nil {
		panic(fmt.Sprintf("socketpair: %v", err))
	}
	rfile := os.NewFile(uintptr(fds[0]), "faketun-read")
	dev := tun.VerifNewReadTun(rfile)
	defer rfile.Close()
	defer syscall.Close(fds[1])

	var stop atomic.Bool
	var wg sync.WaitGroup
	if withWriters {
		wfds, err := syscall.Socketpair(syscall.AF_UNIX, syscall.SOCK_DGRAM, 0)
		if err != nil {
			panic(fmt.Sprintf("socketpair: %v", err))
		}
		wfile := os.NewFile(uintptr(wfds[0]), "faketun-write")
		wdev := tun.VerifNewWriteTun(wfile, true)
		go func() { // the kernel side of the write fd: drain
			b := make([]byte, 70000)
			for {
				if _, err := syscall.Read(wfds[1], b); err != nil {
					return
				}
			}
		}()
		for w := 0; w < 2; w++ {
			batch := writerBatch(r, w == 0, w == 1)
			wg.Add(1)
			go func() {
				defer wg.Done()
				backing := make([][]byte, len(batch))
				for i := range backing {
					backing[i] = make([]byte, concOffset+65535)
				}
				bufs := make([][]byte, len(batch))
				for !stop.Load() {
					for i, s := range batch {
						bufs[i] = backing[i][:concOffset+len(s)]
						copy(bufs[i][concOffset:], s)
					}
					wdev.Write(bufs, concOffset)
				}
			}()
		}
		defer func() {
			stop.Store(true)
			wg.Wait()
			wfile.Close()
			syscall.Close(wfds[1])
		}()
	}

	deadline := time.Now().Add(budget)
	var chosen []Case
	for round := 0; round < maxRounds && (round == 0 || time.Now().Before(deadline)); round++ {
		results := make([]concResult, npk)
		var next atomic.Int32
		var rg sync.WaitGroup
		go func() {
			for _, p := range packets {
				if n, err := syscall.Write(fds[1], p); err != nil || n != len(p) {
					panic(fmt.Sprintf("write to the stand-in tun fd: n=%d err=%v", n, err))
				}
			}
		}()
		for rd := 0; rd < 3; rd++ {
			rg.Add(1)
			go func() {
				defer rg.Done()
				for {
					t := int(next.Add(1)) - 1
					if t >= npk {
						return
					}
					res := &results[t]
					res.c = Case{Type: "rd", Conc: gen, Gen: gen, NBufs: concBufs, Offset: concOffset, Room: room, GSeed: uint64(1 + 1000*round + t)}
					res.bufs = make([][]byte, concBufs)
					res.stale = make([][]byte, concBufs)
					for i := range res.bufs {
						res.bufs[i] = make([]byte, concOffset+room)
						staleFill(&res.c, i, res.bufs[i])
						res.stale[i] = append([]byte(nil), res.bufs[i]...)
					}
					res.c.SizesExtra = []int{0, 1, 17}[t%3]
					res.sizes = make([]int, concBufs+res.c.SizesExtra)
					for i := range res.sizes {
						res.sizes[i] = -1
					}
					func() {
						defer func() {
							if x := recover(); x != nil {
								res.c.Panic, res.c.PanicMsg = true, fmt.Sprint(x)
							}
						}()
						n, err := dev.Read(res.bufs, res.sizes, concOffset)
						res.c.N, res.c.Err = n, classify(err)
						if err != nil {
							res.c.ErrMsg = err.Error()
						}
					}()
				}
			}()
		}
		rg.Wait()
		// attribute every result to a super-packet
		claimed := make([][]int, npk)
		var unmatched []int
		for t := range results {
			res := &results[t]
			collect(&res.c, res.bufs, res.stale, res.sizes)
			k := -1
			if len(res.c.Segs) > 0 {
				k = tagOf(res.c.Segs[0], npk)
			}
			if k < 0 {
				unmatched = append(unmatched, t)
			} else {
				claimed[k] = append(claimed[k], t)
			}
		}
		var out []Case
		odd := false
		for k := range packets {
			if len(claimed[k]) == 0 && len(unmatched) > 0 { // a result that names no super-packet stands for one nobody returned
				claimed[k] = append(claimed[k], unmatched[0])
				unmatched = unmatched[1:]
			}
			if len(claimed[k]) != 1 {
				odd = true
			}
			if len(claimed[k]) == 0 { // lost: nothing was returned for it
				c := Case{Type: "rd", Conc: gen, Gen: gen + "-lost", Raw: packets[k], NBufs: concBufs, Offset: concOffset, Room: room, GSeed: 1, Segs: [][]byte{}}
				c.Info = map[string]any{"kind": "concurrent", "nseg": want[k].N, "returned": 0}
				out = append(out, c)
			}
			for j, t := range claimed[k] {
				c := results[t].c
				c.Raw = packets[k]
				c.Info = map[string]any{"kind": "concurrent", "nseg": want[k].N, "returned": len(claimed[k]), "round": round}
				if j > 0 {
					c.Gen = gen + "-duplicate"
				}
				if c.Panic != want[k].Panic || c.N != want[k].N || c.Err != want[k].Err || c.Touched || len(c.Segs) != len(want[k].Segs) {
					odd = true
				} else {
					for i := range c.Segs {
						if !bytes.Equal(c.Segs[i], want[k].Segs[i]) {
							odd = true
						}
					}
				}
				out = append(out, c)
			}
		}
		chosen = out
		if odd {
			break
		}
	}
	return chosen
}

// maximum-size and ordinary well-formed reads through NativeTun.Read
func readCases(r *rand.Rand, thorough bool) []Case {
	var res []Case
	add := func(s superSpec, gen string) {
		c := Case{Gen: gen, Type: "rd", Raw: buildSuper(r, s), NBufs: nsegOf(s) + 1, Offset: offsets[r.Intn(len(offsets))], SizesExtra: pickSizesExtra(r)}
		if gen == "read-ordinary" {
			c.NBufs = pickBufs(r, nsegOf(s)) // also fewer buffers than segments
		}
		if c.NBufs > 128 {
			c.NBufs = 128
		}
		c.Room = len(c.Raw) - 10 + 2 + r.Intn(50)
		c.Info = superInfo(s, gen)
		c.Info["iplen"] = len(c.Raw) - 10
		runImpl(&c)
		res = append(res, c)
	}
	max := func(v6, tcp bool, iplen, gso int) {
		s := superSpec{v6: v6, tcp: tcp, ihl: 20, thl: 8, gso: gso, seq: 0xffff8000, flags: 0x18, id: 65530, vflags: needsCsum}
		if tcp {
			s.thl = 20
		}
		s.paylen = iplen - s.hl()
		s.hdrLenHint = uint16(s.hl())
		add(s, "read-max")
	}
	type k struct {
		v6, tcp    bool
		iplen, gso int
	}
	ks := []k{{false, false, 65535, 1400}, {true, false, 65535, 1400}, {false, true, 65535, 1448}, {true, true, 65535, 65495},
		{false, false, 65526, 1472}, {true, false, 65531, 1200}, {false, true, 65530, 8948}, {true, true, 65527, 1440}}
	if thorough {
		ks = nil
		for _, l := range []int{65500, 65524, 65525, 65526, 65527, 65530, 65534, 65535} {
			for i, g := range []int{1400, 1448, 8948, 65495} {
				ks = append(ks, k{i%2 == 0, i < 2, l, g}, k{i%2 == 1, i >= 2, l, g})
			}
		}
	}
	for _, x := range ks {
		max(x.v6, x.tcp, x.iplen, x.gso)
	}
	n := 24
	if thorough {
		n = 300
	}
	for i := 0; i < n; i++ {
		s := randSuper(r)
		if s.paylen > 6000 {
			s.paylen = r.Intn(6000)
		}
		add(s, "read-ordinary")
	}
	// checksum completion and pass-through through Read
	for i := 0; i < n/3; i++ {
		v6, tcp := r.Intn(2) == 0, r.Intn(2) == 0
		thl := 8
		if tcp {
			thl = 20
		}
		c := Case{Gen: "read-none", Type: "rd", NBufs: 1 + r.Intn(3), Offset: offsets[r.Intn(len(offsets))], SizesExtra: pickSizesExtra(r)}
		c.Raw = buildPartial(r, v6, tcp, 20, thl, r.Intn(1500))
		if r.Intn(4) == 0 {
			c.Raw[0] = 0
		}
		c.Room = roomFor(r, len(c.Raw))
		c.Info = map[string]any{"kind": "none-csum", "nseg": 1}
		runImpl(&c)
		if !tcp && c.Raw[0]&needsCsum != 0 && udpZeroIn(&c, 20+20*map[bool]int{false: 0, true: 1}[v6]) {
			continue
		}
		res = append(res, c)
	}
	return res
}

// IPv6 extension headers before TCP (csum_start = 48): off by default (see notes/C17.md).
func scenarioExtHdr(r *rand.Rand) []Case {
	s := superSpec{v6: true, tcp: true, thl: 20, ext: 8, gso: 100, paylen: 250, seq: 5, flags: 0x18, vflags: needsCsum}
	s.hdrLenHint = uint16(s.hl())
	c := Case{Gen: "ipv6-exthdr", Raw: buildSuper(r, s), NBufs: 8, Offset: 16, Room: 65535, Info: superInfo(s, "ipv6-exthdr")}
	runImpl(&c)
	return []Case{c}
}

// ---------------------------------------------------------------------------
// direct differential of tun/checksum.go over the whole domain of the theorem
// checksum_is_rfc1071: every 64-bit initial value, in particular accumulators at
// the edge of 2^64 (the end-around carry), every block/tail combination.

func bswap(v uint64) uint64 { return bits.ReverseBytes64(v) }

func checksumCases(r *rand.Rand, thorough bool) []Case {
	edge := []uint64{0, 1, 0xffff, 0xffffffff, 1 << 32, 1 << 63, ^uint64(0), ^uint64(0) - 1, 1<<64 - 1<<16, 1<<64 - 256, 1<<64 - 0x11, 0xffffffff00000000, 0xffffffffffff0000}
	var inits []uint64
	for _, e := range edge {
		inits = append(inits, e, bswap(e)) // the code sums in the byte-swapped domain
	}
	for i := 0; i < 6; i++ {
		v := ^uint64(0) - uint64(r.Intn(1<<uint(4+4*i)))
		inits = append(inits, v, bswap(v))
	}
	inits = append(inits, r.Uint64(), r.Uint64())
	var res []Case
	add := func(gen string, init uint64, data []byte) {
		c := Case{Gen: gen, Type: "ck", Init: init, Data: data, Info: map[string]any{"kind": "checksum", "len": len(data)}}
		runImpl(&c)
		res = append(res, c)
	}
	fill := func(n, pat int) []byte {
		d := make([]byte, n)
		switch pat {
		case 0:
			for i := range d {
				d[i] = 0xff
			}
		case 1:
		case 2:
			r.Read(d)
		default: // random with an all-ones tail
			r.Read(d)
			for i := n &^ 7; i < n; i++ {
				d[i] = 0xff
			}
		}
		return d
	}
	// every tail length: all 32/16/8/4/2/1-byte steps, every carry position
	for _, init := range inits {
		for n := 0; n <= 40; n++ {
			for pat := 0; pat < 3; pat++ {
				if pat == 1 && n%8 != 1 && !thorough {
					continue // all-zero data only exercises the initial value
				}
				add("ck-grid", init, fill(n, pat))
			}
		}
	}
	// the 64- and 128-byte blocks with tails, accumulator saturated by all-ones data
	longs := []int{63, 64, 65, 71, 100, 127, 128, 129, 131, 134, 135, 191, 192, 199, 255, 256, 257, 263, 1499, 1500, 1501, 9001}
	for _, n := range longs {
		for _, init := range []uint64{0, ^uint64(0), bswap(^uint64(0) - 0x10), r.Uint64()} {
			add("ck-long", init, fill(n, 0))
			add("ck-long", init, fill(n, 3))
		}
	}
	// crafted: one 8-byte word chosen so that the accumulator is 2^64-0x11 when the tail is added
	for n := 8; n <= 47; n++ {
		if n%8 == 0 {
			continue
		}
		d := fill(n, 3)
		init := r.Uint64()
		for i := 0; i < 8; i++ {
			d[i] = 0
		}
		prefix := n &^ 7
		ac := bswap(tun.VerifChecksumNoFold(d[:prefix], init)) // no tail step involved
		target := uint64(0xffffffffffffffef)
		if ac > target {
			continue
		}
		binary.LittleEndian.PutUint64(d[0:8], target-ac)
		add("ck-crafted", init, d)
	}
	if thorough {
		for i := 0; i < 3000; i++ {
			n := r.Intn(300)
			init := r.Uint64()
			if r.Intn(2) == 0 {
				init = inits[r.Intn(len(inits))]
			}
			add("ck-random", init, fill(n, r.Intn(4)))
		}
	}
	// pseudo header
	for _, proto := range []uint8{6, 17} {
		for _, alen := range []int{4, 16} {
			for pat := 0; pat < 3; pat++ {
				for _, tl := range []uint16{0, 1, 8, 0xffff, uint16(r.Intn(65536))} {
					c := Case{Gen: "ph-grid", Type: "ph", Proto: proto, Src: fill(alen, pat), Dst: fill(alen, pat), TLen: tl, Info: map[string]any{"kind": "pseudo-header"}}
					runImpl(&c)
					res = append(res, c)
				}
			}
		}
	}
	return res
}

// Super-packets whose first segment drives the 64-bit accumulator to 2^64-0x11 right before
// the last (< 8) bytes of the transport segment, which are all ones: the end-around carry of
// the 4-, 2- and 1-byte steps of checksumNoFold is needed for a valid checksum.
func scenarioCarry(r *rand.Rand) []Case {
	var res []Case
	for _, k := range []struct{ v6, tcp bool }{{false, true}, {true, true}, {false, false}, {true, false}} {
		for tail := 1; tail <= 7; tail++ {
			s := superSpec{v6: k.v6, tcp: k.tcp, ihl: 20, thl: 8, seq: 0xfffffff0, flags: 0x18, id: 0x1000, vflags: needsCsum}
			if k.tcp {
				s.thl = 20 + 4*r.Intn(3)
			}
			s.gso = 96 + 8*r.Intn(4)
			for (s.thl+s.gso)%8 != tail {
				s.gso++
			}
			s.paylen = 2*s.gso + 30
			s.hdrLenHint = uint16(s.hl())
			c := Case{Gen: "csum-carry", NBufs: 8, Offset: 16, Room: 65535, Info: superInfo(s, "csum-carry")}
			c.Raw = buildSuper(r, s)
			cs, hl := s.cs(), s.hl()
			pay := c.Raw[10+hl:]
			segLen := s.thl + s.gso
			prefix := segLen &^ 7
			for i := prefix; i < segLen; i++ {
				pay[i-s.thl] = 0xff
			}
			w := (8 - s.thl%8) % 8 // payload offset of an 8-byte aligned word of the transport segment
			for i := w; i < w+8; i++ {
				pay[i] = 0
			}
			runImpl(&c) // pass 1: learn segment 0 as emitted
			seg0 := append([]byte(nil), c.Segs[0][cs:]...)
			co := 6
			proto := uint8(17)
			if k.tcp {
				co, proto = 16, 6
			}
			seg0[co], seg0[co+1] = 0, 0
			alen := 4
			so := 12
			if k.v6 {
				alen, so = 16, 8
			}
			ip := c.Segs[0]
			pseudo := tun.VerifPseudoHeaderChecksumNoFold(proto, ip[so:so+alen], ip[so+alen:so+2*alen], uint16(len(seg0)))
			ac := bswap(tun.VerifChecksumNoFold(seg0[:prefix], pseudo))
			target := uint64(0xffffffffffffffef)
			if ac > target {
				target = ^uint64(0) // saturated already: the all-ones tail still carries
				if ac != target {
					continue
				}
			}
			binary.LittleEndian.PutUint64(pay[w:], target-ac)
			binary.LittleEndian.PutUint64(seg0[s.thl+w:], target-ac)
			if got := bswap(tun.VerifChecksumNoFold(seg0[:prefix], pseudo)); got != target {
				panic(fmt.Sprintf("csum-carry scenario: accumulator %#x, want %#x", got, target))
			}
			c.Info["tail"] = tail
			runImpl(&c)
			res = append(res, c)
		}
	}
	return res
}

// ---------------------------------------------------------------------------
// Gallina

func packed(b []byte) string {
	var sb strings.Builder
	sb.WriteString("[")
	for i := 0; i < len(b); i += 7 {
		var v uint64
		for j := 0; j < 7 && i+j < len(b); j++ {
			v |= uint64(b[i+j]) << (8 * uint(j))
		}
		if i > 0 {
			sb.WriteString(";")
		}
		fmt.Fprintf(&sb, "%d", v)
	}
	sb.WriteString("]%uint63")
	return sb.String()
}

func halves(v uint64) string { return fmt.Sprintf("%d %d", v>>32, v&0xffffffff) }

func gallina(c Case) string {
	var b strings.Builder
	switch c.Type {
	case "ck":
		return fmt.Sprintf("mkck %s %d %s %s %d", halves(c.Init), len(c.Data), packed(c.Data), halves(c.ObsNoFold), c.ObsCk)
	case "ph":
		return fmt.Sprintf("mkph %d %d %s %d %s %d %s", c.Proto, len(c.Src), packed(c.Src), len(c.Dst), packed(c.Dst), c.TLen, halves(c.ObsNoFold))
	}
	n := c.N
	if n < 0 {
		n = 1 << 30
	}
	fmt.Fprintf(&b, "mk %d %s %d %d %d %v %v %d %d [", len(c.Raw), packed(c.Raw), c.NBufs, c.Room, c.GSeed, c.Panic, c.Touched, n, c.Err)
	for i, s := range c.Segs {
		if i > 0 {
			b.WriteString(";")
		}
		fmt.Fprintf(&b, "(%d,%s)", len(s), packed(s))
	}
	b.WriteString("]")
	return b.String()
}

func writeShard(path string, cases []Case) error {
	var b strings.Builder
	b.WriteString("From Coq Require Import Uint63.\nFrom WG Require Import Base.Prelude Offload.GsoCheck.\nLocal Open Scope N_scope.\nDefinition abi := [")
	for i, v := range tun.VerifC17ABI() {
		if i > 0 {
			b.WriteString(";")
		}
		fmt.Fprintf(&b, "%d", v)
	}
	b.WriteString("]%uint63.\nDefinition cases : list case := [\n")
	for i, c := range cases {
		if i > 0 {
			b.WriteString(";\n")
		}
		b.WriteString(gallina(c))
	}
	b.WriteString("].\nDefinition bad := Eval vm_compute in (check_cases abi cases 0).\nPrint bad.\nDefinition st := Eval vm_compute in (stats cases).\nPrint st.\n")
	return os.WriteFile(path, []byte(b.String()), 0o644)
}

func weight(c Case) int {
	w := 200 + len(c.Raw) + len(c.Data)/4
	for _, s := range c.Segs {
		w += len(s)
	}
	return w
}

func main() {
	seed := flag.Int64("seed", 1, "PRNG seed")
	n := flag.Int("n", 600, "number of generated cases")
	shards := flag.Int("shards", 16, "case files")
	out := flag.String("out", "out/C17", "output directory")
	replayIn := flag.String("replay", "", "JSON file with cases (raw, nbufs, offset, room) to run; observations are filled in")
	corpus := flag.String("corpus", "", "directory of corpus JSON cases to prepend")
	noF6 := flag.Bool("no-f6", false, "leave out the dedicated zero-UDP-checksum scenario")
	extHdr := flag.Bool("exthdr", false, "add the IPv6 extension header scenario")
	thorough := flag.Bool("thorough", false, "thorough tier: more 64 KiB packets, random direct checksum calls")
	flag.Parse()
	if err := os.MkdirAll(*out, 0o755); err != nil {
		panic(err)
	}
	var cases []Case
	if *replayIn != "" {
		data, err := os.ReadFile(*replayIn)
		if err != nil {
			panic(err)
		}
		if err := json.Unmarshal(data, &cases); err != nil {
			panic(err)
		}
		for i := range cases {
			if cases[i].NBufs < 1 {
				cases[i].NBufs = 1
			}
			if cases[i].Conc != "" {
				continue // recorded in a concurrent pass: judged as recorded
			}
			runImpl(&cases[i])
		}
	} else {
		if *corpus != "" {
			files, _ := filepath.Glob(filepath.Join(*corpus, "*.json"))
			sort.Strings(files)
			for _, f := range files {
				data, err := os.ReadFile(f)
				if err != nil {
					continue
				}
				var cs []Case
				if json.Unmarshal(data, &cs) == nil {
					for _, c := range cs {
						c.Gen = "corpus:" + filepath.Base(f)
						if c.NBufs < 1 {
							c.NBufs = 1
						}
						runImpl(&c)
						cases = append(cases, c)
					}
				}
			}
		}
		if !*thorough {
			pctBig, pctMedium = 1, 8
		}
		r := rand.New(rand.NewSource(*seed))
		cases = append(cases, scenarioUnitTests(r)...)
		cases = append(cases, scenarioCarry(r)...)
		cases = append(cases, checksumCases(r, *thorough)...)
		cases = append(cases, readCases(r, *thorough)...)
		rounds, budget := 25, 1500*time.Millisecond
		if *thorough {
			rounds, budget = 400, 8*time.Second
		}
		cases = append(cases, concurrentPass(r, "read-concurrent", false, 36, rounds, budget)...)
		cases = append(cases, concurrentPass(r, "read-write-concurrent", true, 36, rounds, budget)...)
		if !*noF6 {
			cases = append(cases, scenarioUDPZero(r)...)
		}
		if *extHdr {
			cases = append(cases, scenarioExtHdr(r)...)
		}
		for i := 0; i < *n; i++ {
			switch x := r.Intn(100); {
			case x < 62:
				cases = append(cases, genSuper(r))
			case x < 77:
				cases = append(cases, genNone(r))
			default:
				cases = append(cases, genMalformed(r))
			}
		}
	}
	if *shards > len(cases) {
		*shards = len(cases)
	}
	if *shards < 1 {
		*shards = 1
	}
	// balance the shards by bytes (the cost of a case is linear in its size)
	order := make([]int, len(cases))
	for i := range order {
		order[i] = i
	}
	sort.SliceStable(order, func(a, b int) bool { return weight(cases[order[a]]) > weight(cases[order[b]]) })
	load := make([]int, *shards)
	member := make([][]int, *shards)
	for _, ci := range order {
		best := 0
		for s := range load {
			if load[s] < load[best] {
				best = s
			}
		}
		load[best] += weight(cases[ci])
		member[best] = append(member[best], ci)
	}
	type shardInfo struct {
		File string `json:"file"`
		Idx  []int  `json:"idx"`
	}
	var infos []shardInfo
	for s := 0; s < *shards; s++ {
		sort.Ints(member[s])
		sub := make([]Case, len(member[s]))
		for j, ci := range member[s] {
			sub[j] = cases[ci]
		}
		name := fmt.Sprintf("cases_C17_%d.v", s)
		if err := writeShard(filepath.Join(*out, name), sub); err != nil {
			panic(err)
		}
		infos = append(infos, shardInfo{name, member[s]})
	}
	meta := map[string]any{"seed": *seed, "cases": cases, "shards": infos}
	data, _ := json.Marshal(meta)
	if err := os.WriteFile(filepath.Join(*out, "cases.json"), data, 0o644); err != nil {
		panic(err)
	}
}
