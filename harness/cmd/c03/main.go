// c03 co-simulates the real device against package ref (the harness's own
// WireGuard implementation written from the white-paper) through handshake
// scenarios: both roles, preshared keys {zero, random, mismatching},
// configured / unconfigured / self identities, wrong responder keys, repeated
// and interleaved handshakes.  Every step is written, with how each message was
// CONSTRUCTED and with the observed descriptors, into Gallina case files that
// Noise/Check.v evaluates (slice model prediction + the property on the trace).
package main

import (
	"sync/atomic"

	"bytes"
	"encoding/binary"
	"encoding/json"
	"flag"
	"fmt"
	"math/rand"
	"net/netip"
	"os"
	"path/filepath"
	"strings"
	"time"

	"golang.zx2c4.com/wireguard/device"

	"wgv/cosim"
	"wgv/ref"
	"wgv/sim"
)

// ---------------------------------------------------------------- scenario scripts

type PartySpec struct {
	Kind string `json:"kind"` // "ok", "pskmis", "stranger", "self"
	Psk  string `json:"psk"`  // ok: "zero"|"rand"; pskmis: "zero" (dev zero, ref random) | "rand" (two random) | "refzero" (dev random, ref zero)
}

type StepSpec struct {
	Op      string `json:"op"`                 // rinit, rresp, rdata, tun, kick, restart, cookie, setkey, age, ghost, rinitkey, rinitload
	Party   int    `json:"party"`              // acting ref party (rinit, rresp, rdata) or addressed peer (tun, kick)
	RespKey string `json:"resp_key,omitempty"` // rinit: "" = the device's key, "other" = another key S', "old" = the device's previous key
	MacKey  string `json:"mac_key,omitempty"`  // rinit: "" = the device's key, "other" = the other key, "old" = the device's previous key
	Ts      string `json:"ts,omitempty"`       // rinit: "" = newer, "same", "old"
	Of      int    `json:"of"`                 // rresp: the peer whose device initiation is answered
	Which   string `json:"which,omitempty"`    // rresp / rdata: "" = latest, "older"
	Kind    string `json:"kind,omitempty"`     // cookie: "authentic", "garbage", "wrongkey", "wrongad", "oldad"; age: "" = 121 s, "short" = 50 s
}

type Scenario struct {
	Parties []PartySpec `json:"parties"`
	Steps   []StepSpec  `json:"steps"`
	Gen     string      `json:"gen"`
	NoPriv  bool        `json:"nopriv,omitempty"` // peers are configured before any private key is set
}

// ---------------------------------------------------------------- observations

type Raw struct {
	Bytes  []byte
	Fields []uint64
	Eph    []byte
}

type StepObs struct {
	Event   string     `json:"event"` // Gallina term of the event
	Si      int        `json:"si"`    // index of the step in the script
	Outs    [][]uint64 `json:"outs"`
	Ref     int        `json:"ref"`
	Peers   [][]uint64 `json:"peers"`
	raws    []Raw
	Skipped bool `json:"skipped,omitempty"`
}

type Case struct {
	Scenario
	DevKid     int       `json:"dev_kid"`
	Conf       [][2]int  `json:"conf"`
	PartyKids  []int     `json:"party_kids"`
	Obs        []StepObs `json:"obs"`
	Handshakes int       `json:"handshakes"`
	Completed  int       `json:"completed"`
	Refused    int       `json:"refused"`
	DataOK     int       `json:"data_ok"`
	Parked     int       `json:"parked"` // key changes that hit a handshake worker between consume and response
	Slow       bool      `json:"slow,omitempty"`
}

// ---------------------------------------------------------------- runtime

type party struct {
	spec     PartySpec
	kid      int
	rp       *cosim.RefPeer
	refPsk   ref.Key
	refPskID int
	devPskID int
	ip       [4]byte
	tsCtr    uint64
	sessions []*sess
}

type sess struct {
	xid   int
	s     *ref.Session
	stale bool // negotiated before the last private-key change
}

type dinit struct {
	xid int
	to  *party
	msg []byte
}

// dmsg is a handshake message the device sent (initiation or response).
type dmsg struct {
	xid    int
	to     *party
	sender uint32
	mac1   [16]byte
}

// parker turns the device's log line between ConsumeMessageInitiation and SendHandshakeResponse
// ("... - Received handshake initiation", RoutineHandshake) into a schedule-control point: when
// armed, the handshake worker that logs it waits there until released.
type parker struct {
	armed   atomic.Bool
	parked  chan struct{}
	release chan struct{}
}

func newParker() *parker {
	return &parker{parked: make(chan struct{}, 1), release: make(chan struct{})}
}

func (k *parker) logger() *device.Logger {
	return &device.Logger{
		Verbosef: func(format string, args ...any) {
			if strings.HasSuffix(format, "Received handshake initiation") && k.armed.CompareAndSwap(true, false) {
				k.parked <- struct{}{}
				<-k.release
			}
		},
		Errorf: func(format string, args ...any) {},
	}
}

type runner struct {
	afterRestart bool // the previous step was a restart

	park     *parker
	lastMac1 [16]byte       // MAC1 of the last initiation a ref party sent
	lastFrom netip.AddrPort // and where it came from
	devCk    map[string]int // cookies the device handed out, by content
	prevTs   map[int][]byte // last timestamp the device sent to a peer

	w        *cosim.World
	parties  []*party
	sessions []*sess // creation order
	dinits   []*dinit
	dmsgs    []*dmsg
	cookies  [][]byte // cookies issued by ref parties
	otherPub ref.Key
	devKid   int     // the device's current static key
	prevPub  ref.Key // its previous public key ("old")
	prevKid  int
	nKeys    int
	xid      int
	refEph   int
	devEph   int
	tsID     int
	tunPkts  map[string]bool
	rng      *rand.Rand
	c        *Case
}

const (
	kidDev   = 1
	kidOther = 90
)

func (r *runner) configured() []*party {
	var out []*party
	for _, p := range r.parties {
		if p.rp.Configured {
			out = append(out, p)
		}
	}
	return out
}

func newRunner(sc Scenario, rng *rand.Rand) (*runner, error) {
	r := &runner{rng: rng, tunPkts: map[string]bool{}, refEph: 200, devEph: 600, tsID: 1000000, devCk: map[string]int{}, prevTs: map[int][]byte{}}
	pskN := 0
	newPsk := func() (ref.Key, int) {
		pskN++
		return ref.NewPrivate(), pskN
	}
	var rps []*cosim.RefPeer
	for i, ps := range sc.Parties {
		ip := [4]byte{10, 0, byte(i + 1), 2}
		p := &party{spec: ps, kid: 2 + i, ip: ip}
		p.rp = cosim.NewPeer(fmt.Sprintf("P%d", i), fmt.Sprintf("192.0.2.%d:%d", 10+i, 5000+i), fmt.Sprintf("10.0.%d.2/32", i+1))
		switch ps.Kind {
		case "ok":
			if ps.Psk == "rand" {
				p.rp.Psk, p.devPskID = newPsk()
			}
			p.refPsk, p.refPskID = p.rp.Psk, p.devPskID
		case "pskmis":
			switch ps.Psk {
			case "zero":
				p.refPsk, p.refPskID = newPsk()
			case "refzero":
				p.rp.Psk, p.devPskID = newPsk()
			default:
				p.rp.Psk, p.devPskID = newPsk()
				p.refPsk, p.refPskID = newPsk()
			}
		case "stranger":
			p.rp.Configured = false
			if ps.Psk == "rand" {
				p.refPsk, p.refPskID = newPsk()
			}
		case "self":
			p.rp.Configured = false
			p.kid = kidDev
		default:
			return nil, fmt.Errorf("unknown party kind %q", ps.Kind)
		}
		r.parties = append(r.parties, p)
		rps = append(rps, p.rp)
	}
	r.park = newParker()
	w, err := cosim.NewWorldLogger(cosim.Config{Up: true, NoPriv: sc.NoPriv}, true, r.park.logger(), rps...)
	if err != nil {
		return nil, err
	}
	w.Timeout = 3 * time.Second
	r.w = w
	r.devKid = kidDev
	for _, p := range r.parties {
		if p.spec.Kind == "self" {
			p.rp.Priv, p.rp.Pub = w.DevPriv, w.DevPub
		}
	}
	r.otherPub = ref.PubOf(ref.NewPrivate())
	r.prevPub, r.prevKid = r.otherPub, kidOther
	if sc.NoPriv {
		// the device holds the all-zero private key: an identity like any other, named 0
		r.devKid = 0
		w.DevPriv = ref.Key{}
		w.DevPub = ref.PubOf(w.DevPriv)
	}
	return r, nil
}

// shiftTimes takes the 20 ms flood gap and the 5 s RekeyTimeout throttle out of the way.  Around a
// restart nothing is shifted (keep): Peer.Start itself must back-date lastSentHandshake, so that a
// restarted peer can initiate at once whatever it sent before; the restart step waits 25 ms instead,
// which is longer than the flood gap.
func (r *runner) shiftTimes(keep bool) {
	if keep {
		return
	}
	for _, p := range r.configured() {
		r.w.Dev.VerifShiftHandshakeTimes(cosim.NoisePK(p.rp.Pub), 10*time.Second)
	}
}

func (r *runner) kidOfAddr(a netip.AddrPort) int {
	for _, p := range r.parties {
		if p.rp.Addr == a {
			return p.kid
		}
	}
	return 0
}

func (r *runner) mac1Owner(msg []byte) int {
	if ref.CheckMac1(msg, r.w.DevPub) {
		return r.devKid
	}
	for _, p := range r.parties {
		if ref.CheckMac1(msg, p.rp.Pub) {
			return p.kid
		}
	}
	return 0
}

// mac2Class: 1 = all zero, 2 = valid under a cookie some party issued, 0 = anything else.
func (r *runner) mac2Class(msg []byte) uint64 {
	if ref.Mac2IsZero(msg) {
		return 1
	}
	for _, c := range r.cookies {
		if ref.CheckMac2(msg, c) {
			return 2
		}
	}
	return 0
}

func (r *runner) noteMsg(xid int, to *party, d []byte) {
	m := &dmsg{xid: xid, to: to, sender: binary.LittleEndian.Uint32(d[4:8])}
	copy(m.mac1[:], d[len(d)-32:len(d)-16])
	r.dmsgs = append(r.dmsgs, m)
}

func b2u(b bool) uint64 {
	if b {
		return 1
	}
	return 0
}

// describe mirrors Noise/Check.describe on real bytes.
func (r *runner) describe(s sim.Sent, so *StepObs) []uint64 {
	to := uint64(r.kidOfAddr(s.To))
	d := s.Data
	if len(d) >= 4 {
		tw := binary.LittleEndian.Uint32(d[:4])
		switch {
		case tw == ref.TypeInitiation && len(d) == ref.InitiationSize:
			opener := 0
			tsok := uint64(0)
			for _, p := range r.parties {
				if rs, err := ref.ConsumeInitiation(d, p.rp.Priv); err == nil && rs.InitiatorStatic == r.w.DevPub {
					opener = p.kid
					// the timestamp is a TAI64N label (big-endian 2^62+10+unix seconds, nanoseconds) of the time of
					// sending, and byte-wise not below the previous one sent to this peer (equal is C06's business)
					secs := int64(binary.BigEndian.Uint64(rs.Timestamp[:8]) - 0x400000000000000a)
					nanos := binary.BigEndian.Uint32(rs.Timestamp[8:])
					now := time.Now().Unix()
					if secs >= now-30 && secs <= now+30 && nanos < 1000000000 && bytes.Compare(rs.Timestamp[:], r.prevTs[p.kid]) >= 0 {
						tsok = 1
					}
					r.prevTs[p.kid] = append([]byte{}, rs.Timestamp[:]...)
					break
				}
			}
			so.raws = append(so.raws, Raw{Bytes: d, Fields: []uint64{uint64(tw), uint64(binary.LittleEndian.Uint32(d[4:8])), 0, r.mac2Class(d)}, Eph: d[8:40]})
			return []uint64{1, to, uint64(len(d)), uint64(binary.LittleEndian.Uint32(d[4:8])), uint64(r.mac1Owner(d)), r.mac2Class(d), uint64(opener), tsok}
		case tw == ref.TypeResponse && len(d) == ref.ResponseSize:
			so.raws = append(so.raws, Raw{Bytes: d, Fields: []uint64{uint64(tw), uint64(binary.LittleEndian.Uint32(d[4:8])), uint64(binary.LittleEndian.Uint32(d[8:12])), r.mac2Class(d)}, Eph: d[12:44]})
			return []uint64{2, to, uint64(len(d)), uint64(binary.LittleEndian.Uint32(d[4:8])), uint64(binary.LittleEndian.Uint32(d[8:12])), uint64(r.mac1Owner(d)), r.mac2Class(d)}
		case tw == ref.TypeCookie && len(d) == ref.CookieSize && s.To == r.lastFrom:
			openable := uint64(0)
			if _, ck, err := ref.OpenCookieReply(d, r.w.DevPub, r.lastMac1); err == nil && len(ck) == 16 {
				openable = 1
				if _, ok := r.devCk[string(ck)]; !ok {
					r.devCk[string(ck)] = len(r.devCk) + 1
				}
			}
			return []uint64{3, uint64(len(d)), uint64(binary.LittleEndian.Uint32(d[4:8])), openable}
		case tw == ref.TypeTransport && len(d) >= 32:
			opener := 0
			ka := false
			for _, se := range r.sessions {
				if _, _, pt, err := se.s.OpenTransport(d); err == nil {
					if len(pt) != 0 && !r.tunPkts[string(pt)] {
						return []uint64{0, to, uint64(len(d)), 4} // opens, but carries something nobody fed to the TUN
					}
					opener, ka = se.xid, len(pt) == 0
					break
				}
			}
			return []uint64{4, to, uint64(binary.LittleEndian.Uint32(d[4:8])), uint64(opener), b2u(ka)}
		}
	}
	return []uint64{0, to, uint64(len(d))}
}

func (r *runner) observe(out cosim.Out, so *StepObs, fed map[string]int) {
	for _, wr := range out.Written {
		from := 0
		if k, ok := fed[string(wr.Data)]; ok {
			from = k
		}
		so.Outs = append(so.Outs, []uint64{5, uint64(from)})
	}
	for _, s := range out.Sent {
		so.Outs = append(so.Outs, r.describe(s, so))
	}
	if so.Outs == nil {
		so.Outs = [][]uint64{}
	}
	so.Peers = [][]uint64{}
	for _, p := range r.configured() {
		st := r.w.Dev.VerifPeer(cosim.NoisePK(p.rp.Pub))
		so.Peers = append(so.Peers, []uint64{uint64(st.HandshakeState), b2u(st.Previous.Present), b2u(st.Current.Present), b2u(st.Next.Present)})
	}
	if !out.Settled {
		r.c.Slow = true
	}
}

func startHS(rPub ref.Key) ref.HS {
	ck := ref.Hash([]byte(ref.Construction))
	h := ref.Hash(ck[:], []byte(ref.Identifier))
	h = ref.Hash(h[:], rPub[:])
	return ref.HS{Ck: ck, H: h}
}

// uncheckedConsume is Paper.consume_initiation_unchecked: a responder that goes
// on although the static field does not open under its key, assuming the
// initiator's static key.
func uncheckedConsume(msg []byte, rPriv, assumed ref.Key) *ref.ResponderState {
	st := &ref.ResponderState{HS: startHS(ref.PubOf(rPriv)), InitiatorStatic: assumed}
	st.InitiatorIdx = binary.LittleEndian.Uint32(msg[4:8])
	copy(st.InitiatorEph[:], msg[8:40])
	k := ref.Kdf(1, st.Ck[:], st.InitiatorEph[:])
	st.Ck = k[0]
	st.H = ref.Hash(st.H[:], st.InitiatorEph[:])
	es := ref.DH(rPriv, st.InitiatorEph)
	k = ref.Kdf(1, st.Ck[:], es[:])
	st.Ck = k[0]
	st.H = ref.Hash(st.H[:], msg[40:88])
	ss := ref.DH(rPriv, assumed)
	k = ref.Kdf(1, st.Ck[:], ss[:])
	st.Ck = k[0]
	st.H = ref.Hash(st.H[:], msg[88:116])
	return st
}

// uncheckedResponse is Paper.consume_response_unchecked: an initiator that
// derives transport keys although msg.empty does not open.
func uncheckedResponse(st *ref.InitiatorState, msg []byte) *ref.Session {
	var ePubR ref.Key
	copy(ePubR[:], msg[12:44])
	k := ref.Kdf(1, st.Ck[:], ePubR[:])
	ck := k[0]
	ee := ref.DH(st.EphPriv, ePubR)
	k = ref.Kdf(1, ck[:], ee[:])
	ck = k[0]
	se := ref.DH(st.StaticPriv, ePubR)
	k = ref.Kdf(1, ck[:], se[:])
	ck = k[0]
	k = ref.Kdf(1, ck[:], st.Psk[:])
	ck = k[0]
	tk := ref.Kdf(2, ck[:], nil)
	return &ref.Session{SendKey: tk[0], RecvKey: tk[1], LocalIdx: st.SenderIdx, RemoteIdx: binary.LittleEndian.Uint32(msg[4:8])}
}

func (r *runner) addSession(p *party, xid int, s *ref.Session) {
	se := &sess{xid: xid, s: s}
	r.sessions = append(r.sessions, se)
	p.sessions = append(p.sessions, se)
}

func (r *runner) noteInits(out cosim.Out, xid int) (e, ts int, idx uint32) {
	for _, s := range out.Sent {
		d := s.Data
		if len(d) == ref.InitiationSize && d[0] == ref.TypeInitiation {
			var to *party
			for _, p := range r.parties {
				if p.rp.Addr == s.To && p.spec.Kind != "self" {
					to = p
				}
			}
			r.devEph++
			e = r.devEph
			idx = binary.LittleEndian.Uint32(d[4:8])
			if to != nil {
				if rs, err := ref.ConsumeInitiation(d, to.rp.Priv); err == nil {
					_ = rs
					r.tsID++
					ts = r.tsID
				}
			}
			r.dinits = append(r.dinits, &dinit{xid: xid, to: to, msg: append([]byte{}, d...)})
			r.noteMsg(xid, to, d)
			return
		}
	}
	return
}

func (r *runner) step(si int, sp StepSpec) {
	if sp.Party < 0 || sp.Party >= len(r.parties) {
		return
	}
	p := r.parties[sp.Party]
	so := StepObs{Si: si}
	r.shiftTimes(sp.Op == "restart" || r.afterRestart)
	r.afterRestart = sp.Op == "restart"
	switch sp.Op {
	case "rinit", "rinitkey", "rinitload":
		r.xid++
		xid := r.xid
		switch sp.Ts {
		case "same":
			if p.tsCtr == 0 {
				p.tsCtr = 1
			}
		case "old":
			if p.tsCtr > 1 {
				p.tsCtr--
			} else {
				p.tsCtr = 1
			}
		default:
			p.tsCtr += 1 + uint64(r.rng.Intn(3))
		}
		ts := ref.Tai64nRaw(1<<62+p.tsCtr, 0)
		rPub, rKid := r.w.DevPub, r.devKid
		switch sp.RespKey {
		case "other":
			rPub, rKid = r.otherPub, kidOther
		case "old":
			rPub, rKid = r.prevPub, r.prevKid
		}
		mPub, mKid := r.w.DevPub, r.devKid
		switch sp.MacKey {
		case "other":
			mPub, mKid = r.otherPub, kidOther
		case "old":
			mPub, mKid = r.prevPub, r.prevKid
		}
		r.refEph++
		e := r.refEph
		idx := r.rng.Uint32() | 1
		st := ref.CreateInitiation(p.rp.Priv, ref.NewPrivate(), rPub, p.refPsk, idx, ts)
		msg := st.Msg
		if mKid != rKid {
			msg = ref.AppendMacs(append([]byte{}, msg[:ref.InitiationSize-32]...), mPub, nil)
		}
		copy(r.lastMac1[:], msg[ref.InitiationSize-32:ref.InitiationSize-16])
		r.lastFrom = p.rp.Addr
		var out cosim.Out
		newKid := 0
		ckid := 0
		if sp.Op == "rinitload" {
			// the device is under load for this step: first without MAC2 (expect a cookie reply that ref can
			// open), then the same initiation with MAC2 under the cookie received
			r.w.Dev.VerifForceUnderLoad(30 * time.Second)
			defer r.w.Dev.VerifForceUnderLoad(0)
			out1 := r.w.Inject(p.rp.Addr, msg)
			so1 := StepObs{Si: si}
			var cookie []byte
			for _, s := range out1.Sent {
				if len(s.Data) == ref.CookieSize && s.Data[0] == ref.TypeCookie {
					if _, ck, err := ref.OpenCookieReply(s.Data, r.w.DevPub, r.lastMac1); err == nil {
						cookie = ck
					}
				}
			}
			r.observe(out1, &so1, nil)
			if cookie != nil {
				ckid = r.devCk[string(cookie)]
			}
			so1.Event = fmt.Sprintf("rinitload %d %d %d %d %d %d %d %d 0 0 %d 0", xid, p.kid, rKid, mKid, e, idx, p.tsCtr, p.refPskID, ckid)
			r.c.Obs = append(r.c.Obs, so1)
			if cookie == nil {
				r.c.Handshakes++
				r.c.Refused++
				return
			}
			msg = ref.WithCookie(msg, mPub, cookie)
			out = r.w.Inject(p.rp.Addr, msg)
		} else if sp.Op == "rinit" {
			out = r.w.Inject(p.rp.Addr, msg)
		} else {
			// private_key= issued while the handshake worker sits between ConsumeMessageInitiation and
			// SendHandshakeResponse; if the initiation never gets there, after the device has settled
			priv := ref.NewPrivate()
			cfg := fmt.Sprintf("private_key=%x\n", priv[:])
			r.park.armed.Store(true)
			r.w.Bind.Inject(sim.Dgram{From: p.rp.Addr, Data: msg})
			done := false
			for i := 0; i < 1500 && !done; i++ {
				select {
				case <-r.park.parked:
					if err := r.w.Dev.IpcSet(cfg); err != nil {
						r.c.Slow = true
					}
					r.park.release <- struct{}{}
					r.c.Parked++
					done = true
				default:
					// quiescent without having parked: the initiation was dropped before that point
					if sim.Quiesce(r.w.Dev, r.w.Bind, r.w.Tun, 2*time.Millisecond) && r.park.armed.CompareAndSwap(true, false) {
						if err := r.w.Dev.IpcSet(cfg); err != nil {
							r.c.Slow = true
						}
						done = true
					}
				}
			}
			if !done {
				r.c.Slow = true
			}
			out = r.w.Take()
			r.prevPub, r.prevKid = r.w.DevPub, r.devKid
			oldPub := r.w.DevPub
			r.w.DevPriv, r.w.DevPub = priv, ref.PubOf(priv)
			r.nKeys++
			r.devKid = kidOther + r.nKeys
			newKid = r.devKid
			for _, se := range r.sessions {
				se.stale = true
			}
			_ = oldPub
		}
		er, ir := 0, uint32(0)
		for _, s := range out.Sent {
			if len(s.Data) == ref.ResponseSize && s.Data[0] == ref.TypeResponse {
				r.devEph++
				er, ir = r.devEph, binary.LittleEndian.Uint32(s.Data[4:8])
				r.noteMsg(xid, p, s.Data)
				if se, err := st.ConsumeResponse(s.Data); err == nil {
					so.Ref = 1
					r.addSession(p, xid, se)
					r.c.Completed++
				} else {
					so.Ref = 2
					r.addSession(p, xid, uncheckedResponse(st, s.Data))
				}
				break
			}
		}
		if so.Ref != 1 {
			r.c.Refused++
		}
		r.c.Handshakes++
		so.Event = fmt.Sprintf("rinit %d %d %d %d %d %d %d %d %d %d", xid, p.kid, rKid, mKid, e, idx, p.tsCtr, p.refPskID, er, ir)
		if sp.Op == "rinitload" {
			so.Event = fmt.Sprintf("rinitload %d %d %d %d %d %d %d %d %d %d %d 1", xid, p.kid, rKid, mKid, e, idx, p.tsCtr, p.refPskID, er, ir, ckid)
		}
		if sp.Op == "rinitkey" {
			so.Event = fmt.Sprintf("rinitkey %d %d %d %d %d %d %d %d %d %d %d", xid, p.kid, rKid, mKid, e, idx, p.tsCtr, p.refPskID, er, ir, newKid)
		}
		r.observe(out, &so, nil)
	case "rresp":
		if sp.Of < 0 || sp.Of >= len(r.parties) {
			return
		}
		of := r.parties[sp.Of]
		var cands []*dinit
		for _, di := range r.dinits {
			if di.to == of {
				cands = append(cands, di)
			}
		}
		if len(cands) == 0 {
			return
		}
		di := cands[len(cands)-1]
		if sp.Which == "older" && len(cands) >= 2 {
			di = cands[len(cands)-2]
		}
		r.xid++
		xid := r.xid
		rs, err := ref.ConsumeInitiation(di.msg, p.rp.Priv)
		if err == nil && rs.InitiatorStatic == r.w.DevPub {
			so.Ref = 1
		} else {
			so.Ref = 2
			rs = uncheckedConsume(di.msg, p.rp.Priv, r.w.DevPub)
		}
		r.refEph++
		e := r.refEph
		idx := r.rng.Uint32() | 1
		resp, se := rs.CreateResponse(ref.NewPrivate(), p.refPsk, idx)
		r.addSession(p, xid, se)
		before := r.w.Dev.VerifPeer(cosim.NoisePK(of.rp.Pub))
		out := r.w.Inject(p.rp.Addr, resp)
		after := r.w.Dev.VerifPeer(cosim.NoisePK(of.rp.Pub))
		if after.Current.Present && after.Current.LocalIndex != before.Current.LocalIndex {
			r.c.Completed++
		} else {
			r.c.Refused++
		}
		r.c.Handshakes++
		so.Event = fmt.Sprintf("rresp %d %d %d %d %d %d", xid, di.xid, p.kid, p.refPskID, e, idx)
		r.observe(out, &so, nil)
	case "rdata":
		if len(p.sessions) == 0 {
			return
		}
		se := p.sessions[len(p.sessions)-1]
		if sp.Which == "older" && len(p.sessions) >= 2 {
			se = p.sessions[len(p.sessions)-2]
		}
		if se.stale {
			return // keys from before the last private-key change are not used any more (see Noise/Model.v, EData)
		}
		pkt := ref.IPv4(p.ip, [4]byte{10, 9, 9, 9}, 40+r.rng.Intn(200), byte(r.rng.Intn(256)))
		ctr := se.s.SendCtr
		out := r.w.Inject(p.rp.Addr, se.s.Next(ref.Pad(pkt)))
		so.Event = fmt.Sprintf("rdata %d %d 0", se.xid, ctr)
		r.observe(out, &so, map[string]int{string(pkt): p.kid})
		for _, o := range so.Outs {
			if o[0] == 5 {
				r.c.DataOK++
			}
		}
	case "tun", "kick":
		if !p.rp.Configured {
			return
		}
		r.xid++
		xid := r.xid
		var out cosim.Out
		if sp.Op == "tun" {
			pkt := ref.IPv4([4]byte{10, 9, 9, 9}, p.ip, 40+r.rng.Intn(200), byte(r.rng.Intn(256)))
			r.tunPkts[string(ref.Pad(pkt))] = true
			out = r.w.TunIn(pkt)
		} else {
			r.w.Dev.VerifC03Initiate(cosim.NoisePK(p.rp.Pub))
			out = r.w.Take()
		}
		e, ts, idx := r.noteInits(out, xid)
		so.Event = fmt.Sprintf("%s %d %d %d %d %d", sp.Op, xid, p.kid, e, ts, idx)
		r.observe(out, &so, nil)
		for _, o := range so.Outs {
			if o[0] == 4 && o[3] != 0 && o[4] == 0 {
				r.c.DataOK++
			}
		}
	case "ghost":
		// UAPI: update_only=true for a key that is not configured must create nothing
		if p.rp.Configured || p.spec.Kind == "self" {
			return
		}
		cfg := fmt.Sprintf("public_key=%x\nupdate_only=true\nendpoint=%s\nallowed_ip=10.0.%d.2/32\n", p.rp.Pub[:], p.rp.Addr, sp.Party+1)
		if p.refPsk != (ref.Key{}) {
			cfg = fmt.Sprintf("public_key=%x\nupdate_only=true\npreshared_key=%x\nendpoint=%s\nallowed_ip=10.0.%d.2/32\n", p.rp.Pub[:], p.refPsk[:], p.rp.Addr, sp.Party+1)
		}
		_, out := r.w.Set(cfg)
		so.Event = fmt.Sprintf("ghost %d", p.kid)
		r.observe(out, &so, nil)
	case "age":
		// time passes for every peer's received cookie: 121 s (beyond CookieRefreshTime) or 50 s (well within)
		secs := 121
		if sp.Kind == "short" {
			secs = 50
		}
		for _, q := range r.configured() {
			r.w.Dev.VerifShiftPeerCookie(cosim.NoisePK(q.rp.Pub), time.Duration(secs)*time.Second)
		}
		out := r.w.Take()
		so.Event = fmt.Sprintf("age %d", secs)
		r.observe(out, &so, nil)
	case "setkey":
		// UAPI private_key=: only at a quiescent point, never a configured peer's key (design findings F3b, F3c)
		priv := ref.NewPrivate()
		err, out := r.w.Set(fmt.Sprintf("private_key=%x\n", priv[:]))
		if err != nil {
			return
		}
		r.prevPub, r.prevKid = r.w.DevPub, r.devKid
		r.w.DevPriv, r.w.DevPub = priv, ref.PubOf(priv)
		r.nKeys++
		r.devKid = kidOther + r.nKeys
		for _, se := range r.sessions {
			se.stale = true
		}
		so.Event = fmt.Sprintf("setkey %d", r.devKid)
		r.observe(out, &so, nil)
	case "restart":
		// Device.Down(); Device.Up(): every peer is stopped (ZeroAndFlushAll -> Handshake.Clear) and started
		if err := r.w.Dev.Down(); err != nil {
			return
		}
		if err := r.w.Dev.Up(); err != nil {
			return
		}
		time.Sleep(25 * time.Millisecond)
		out := r.w.Take()
		so.Event = "restart"
		r.observe(out, &so, nil)
	case "cookie":
		if sp.Of < 0 || sp.Of >= len(r.parties) {
			return
		}
		of := r.parties[sp.Of]
		var msgs []*dmsg
		for _, m := range r.dmsgs {
			if m.to == of {
				msgs = append(msgs, m)
			}
		}
		if len(msgs) == 0 {
			return
		}
		last := msgs[len(msgs)-1]
		keyPub, keyKid := of.rp.Pub, of.kid
		ad, adx := last.mac1, last.xid
		garbage := 0
		switch sp.Kind {
		case "wrongkey":
			keyPub, keyKid = r.otherPub, kidOther
		case "wrongad":
			r.rng.Read(ad[:])
			adx = 0
		case "oldad":
			if len(msgs) >= 2 {
				ad, adx = msgs[len(msgs)-2].mac1, msgs[len(msgs)-2].xid
			} else {
				r.rng.Read(ad[:])
				adx = 0
			}
		case "garbage":
			garbage = 1
		}
		var nonce [24]byte
		var cookie [16]byte
		r.rng.Read(nonce[:])
		r.rng.Read(cookie[:])
		r.cookies = append(r.cookies, append([]byte{}, cookie[:]...))
		cid := len(r.cookies)
		msg := ref.CreateCookieReply(keyPub, last.sender, nonce, cookie, ad)
		if garbage == 1 {
			r.rng.Read(msg[8:])
		}
		out := r.w.Inject(p.rp.Addr, msg)
		so.Event = fmt.Sprintf("cookie %d %d %d %d %d", keyKid, last.xid, adx, garbage, cid)
		r.observe(out, &so, nil)
	default:
		return
	}
	r.c.Obs = append(r.c.Obs, so)
}

func runScenario(sc Scenario, rng *rand.Rand) (*Case, error) {
	r, err := newRunner(sc, rng)
	if err != nil {
		return nil, err
	}
	defer r.w.Close()
	c := &Case{Scenario: sc, DevKid: r.devKid}
	r.c = c
	for _, p := range r.parties {
		c.PartyKids = append(c.PartyKids, p.kid)
		if p.rp.Configured {
			c.Conf = append(c.Conf, [2]int{p.kid, p.devPskID})
		}
	}
	t0 := time.Now()
	for si, sp := range sc.Steps {
		r.step(si, sp)
	}
	// a scenario must stay far below the shortest protocol timer (5 s): otherwise it is rerun
	if r.w.SlowSteps > 0 || time.Since(t0) > 2*time.Second {
		c.Slow = true
	}
	return c, nil
}

// ---------------------------------------------------------------- generators

var okKinds = []PartySpec{{"ok", "zero"}, {"ok", "rand"}}
var misKinds = []PartySpec{{"pskmis", "zero"}, {"pskmis", "rand"}, {"pskmis", "refzero"}}
var outKinds = []PartySpec{{"stranger", "zero"}, {"stranger", "rand"}, {"self", "zero"}}

func pick(r *rand.Rand, l []PartySpec) PartySpec { return l[r.Intn(len(l))] }

func anyParty(r *rand.Rand, k int) PartySpec {
	switch k % 7 {
	case 0, 1:
		return okKinds[k%2]
	case 2:
		return pick(r, okKinds)
	case 3, 4:
		return pick(r, misKinds)
	case 5:
		return outKinds[r.Intn(2)]
	default:
		return outKinds[2]
	}
}

func st(op string, party int) StepSpec { return StepSpec{Op: op, Party: party, Of: party} }

func genScenario(r *rand.Rand, k int) Scenario {
	tmpl := k % 24
	main := anyParty(r, k/24+k)
	pskParty := func() PartySpec { // a configured party whose device-side psk is NOT zero, or a mismatching one
		l := []PartySpec{{"ok", "rand"}, {"pskmis", "rand"}, {"pskmis", "refzero"}, {"ok", "rand"}, {"pskmis", "zero"}, {"ok", "zero"}}
		return l[(k/24)%len(l)]
	}
	forged := []string{"garbage", "wrongkey", "wrongad", "oldad"}
	switch tmpl {
	case 0: // ref initiates, data both ways
		return Scenario{Parties: []PartySpec{main, pick(r, okKinds)}, Gen: "ref-initiates",
			Steps: []StepSpec{st("rinit", 0), st("rdata", 0), st("tun", 0), st("rdata", 0), st("tun", 0)}}
	case 1: // device initiates (TUN), ref answers, data both ways
		if main.Kind == "stranger" || main.Kind == "self" {
			main = pick(r, misKinds)
		}
		return Scenario{Parties: []PartySpec{main, pick(r, okKinds)}, Gen: "device-initiates",
			Steps: []StepSpec{st("tun", 0), st("rresp", 0), st("rdata", 0), st("tun", 0), st("rdata", 0)}}
	case 2: // a second initiation before the first completes; data under the older keys
		return Scenario{Parties: []PartySpec{main}, Gen: "interleaved-ref",
			Steps: []StepSpec{st("rinit", 0), st("rinit", 0), {Op: "rdata", Party: 0, Which: "older"}, st("rdata", 0), st("tun", 0),
				{Op: "rdata", Party: 0, Which: "older"}}}
	case 3: // two device initiations, response to the older one, then to the latest
		p := pick(r, okKinds)
		if r.Intn(3) == 0 {
			p = pick(r, misKinds)
		}
		return Scenario{Parties: []PartySpec{p}, Gen: "interleaved-dev",
			Steps: []StepSpec{st("kick", 0), st("kick", 0), {Op: "rresp", Party: 0, Of: 0, Which: "older"}, st("rresp", 0),
				st("rresp", 0), st("rdata", 0), st("tun", 0)}}
	case 4: // initiations built for / MACed for another responder key
		p := pick(r, okKinds)
		steps := []StepSpec{{Op: "rinit", Party: 0, RespKey: "other", MacKey: "other"}, {Op: "rinit", Party: 0, RespKey: "other"},
			{Op: "rinit", Party: 0, MacKey: "other"}, st("tun", 0)}
		r.Shuffle(3, func(i, j int) { steps[i], steps[j] = steps[j], steps[i] })
		steps = append(steps, st("rinit", 0), st("rdata", 0), st("tun", 0))
		return Scenario{Parties: []PartySpec{p, pick(r, outKinds)}, Gen: "wrong-responder-key", Steps: steps}
	case 5: // a response from a party that is not the addressed peer
		other := anyParty(r, k/11)
		return Scenario{Parties: []PartySpec{pick(r, okKinds), other}, Gen: "stranger-responds",
			Steps: []StepSpec{st("tun", 0), {Op: "rresp", Party: 1, Of: 0}, {Op: "rdata", Party: 1}, st("rresp", 0),
				{Op: "rdata", Party: 1}, st("rdata", 0), st("tun", 0)}}
	case 6: // timestamps: same and older are replays
		return Scenario{Parties: []PartySpec{main}, Gen: "timestamps",
			Steps: []StepSpec{st("rinit", 0), {Op: "rinit", Party: 0, Ts: "same"}, {Op: "rinit", Party: 0, Ts: "old"}, st("rinit", 0),
				st("rdata", 0), st("tun", 0)}}
	case 7: // both sides initiate at once
		p := pick(r, okKinds)
		if r.Intn(3) == 0 {
			p = pick(r, misKinds)
		}
		return Scenario{Parties: []PartySpec{p}, Gen: "simultaneous",
			Steps: []StepSpec{st("tun", 0), st("rinit", 0), st("rresp", 0), st("rdata", 0), st("tun", 0)}}
	case 8: // rekeying in both directions over an existing session
		p := pick(r, okKinds)
		return Scenario{Parties: []PartySpec{p}, Gen: "repeated",
			Steps: []StepSpec{st("rinit", 0), st("rdata", 0), st("tun", 0), st("kick", 0), st("rresp", 0), st("tun", 0),
				st("rinit", 0), st("tun", 0), st("rdata", 0), st("tun", 0), {Op: "rdata", Party: 0, Which: "older"}}}
	case 9: // identities: every kind of party tries to get a session
		ps := []PartySpec{okKinds[r.Intn(2)], pick(r, misKinds), outKinds[r.Intn(2)], outKinds[2]}
		var steps []StepSpec
		order := r.Perm(4)
		for _, i := range order {
			steps = append(steps, st("rinit", i))
		}
		for _, i := range order {
			steps = append(steps, st("rdata", i))
		}
		steps = append(steps, st("tun", 0), st("tun", 1))
		return Scenario{Parties: ps, Gen: "identities", Steps: steps}
	case 10: // restart between two ref-initiated handshakes: the psk must survive Handshake.Clear
		return Scenario{Parties: []PartySpec{pskParty(), pick(r, okKinds)}, Gen: "restart-ref-initiates",
			Steps: []StepSpec{st("rinit", 0), st("rdata", 0), st("restart", 0), st("rdata", 0), st("rinit", 0), st("rdata", 0), st("tun", 0)}}
	case 11: // restart, then the device initiates
		return Scenario{Parties: []PartySpec{pskParty()}, Gen: "restart-device-initiates",
			Steps: []StepSpec{st("tun", 0), st("rresp", 0), st("restart", 0), st("tun", 0), st("rresp", 0), st("rdata", 0), st("tun", 0),
				st("restart", 0), st("rinit", 0), st("rdata", 0)}}
	case 12: // an unauthentic cookie reply before a retransmitted initiation and before a response
		p := pick(r, okKinds)
		return Scenario{Parties: []PartySpec{p}, Gen: "forged-cookie-initiator",
			Steps: []StepSpec{st("kick", 0), {Op: "cookie", Party: 0, Of: 0, Kind: forged[(k/24)%4]}, st("kick", 0),
				{Op: "cookie", Party: 0, Of: 0, Kind: forged[r.Intn(4)]}, st("rresp", 0), st("rdata", 0), st("rinit", 0), st("kick", 0)}}
	case 13: // the same with the device as responder (receiver = index of its response = keypair index)
		p := pick(r, okKinds)
		return Scenario{Parties: []PartySpec{p, pick(r, outKinds)}, Gen: "forged-cookie-responder",
			Steps: []StepSpec{st("rinit", 0), {Op: "cookie", Party: 1, Of: 0, Kind: forged[(k/24)%4]}, st("rinit", 0),
				{Op: "cookie", Party: 0, Of: 0, Kind: forged[r.Intn(4)]}, st("kick", 0), st("rdata", 0), st("rinit", 0)}}
	case 14: // an authentic cookie reply: MAC2 is then the MAC under that cookie, also across a restart
		p := pick(r, okKinds)
		return Scenario{Parties: []PartySpec{p}, Gen: "authentic-cookie",
			Steps: []StepSpec{st("kick", 0), {Op: "cookie", Party: 0, Of: 0, Kind: "authentic"}, st("kick", 0), st("restart", 0),
				st("kick", 0), st("rresp", 0), st("rinit", 0), st("rdata", 0)}}
	case 15: // key rotation with configured peers, then ref initiates: old identity refused, new one completes
		return Scenario{Parties: []PartySpec{pskParty(), pick(r, okKinds)}, Gen: "key-rotation-ref-initiates",
			Steps: []StepSpec{st("rinit", 0), st("rdata", 0), st("setkey", 0), {Op: "rinit", Party: 0, RespKey: "old", MacKey: "old"},
				{Op: "rinit", Party: 0, RespKey: "old"}, st("rinit", 0), st("rdata", 0), st("tun", 0), st("rinit", 1), st("rdata", 1)}}
	case 16: // key rotation, then the device initiates under the new identity
		return Scenario{Parties: []PartySpec{pskParty()}, Gen: "key-rotation-device-initiates",
			Steps: []StepSpec{st("tun", 0), st("rresp", 0), st("rdata", 0), st("setkey", 0), st("tun", 0), st("rresp", 0), st("rdata", 0),
				st("tun", 0), st("setkey", 0), st("kick", 0), st("rresp", 0)}}
	case 17: // peers configured first, the private key in a later set operation
		steps := []StepSpec{st("setkey", 0), st("rinit", 0), st("rdata", 0), st("tun", 0), st("kick", 1), st("rresp", 1), st("rdata", 1)}
		if (k/24)%2 == 1 {
			steps = []StepSpec{st("setkey", 0), st("tun", 0), st("rresp", 0), st("rdata", 0), st("rinit", 1), st("rdata", 1), st("tun", 1)}
		}
		return Scenario{Parties: []PartySpec{pskParty(), pick(r, okKinds)}, Gen: "peers-before-key", NoPriv: true, Steps: steps}
	case 18: // a cookie is good for 120 s only: afterwards MAC2 is zero again, in initiations and responses
		p := pick(r, okKinds)
		steps := []StepSpec{st("kick", 0), {Op: "cookie", Party: 0, Of: 0, Kind: "authentic"}, {Op: "age", Kind: "short"}, st("kick", 0),
			st("age", 0), st("kick", 0), st("rinit", 0), {Op: "cookie", Party: 0, Of: 0, Kind: "authentic"}, st("rinit", 0), st("age", 0), st("rinit", 0), st("kick", 0)}
		if (k/24)%2 == 1 { // the cookie answers a response, expires, then the device initiates
			steps = []StepSpec{st("rinit", 0), {Op: "cookie", Party: 0, Of: 0, Kind: "authentic"}, st("rinit", 0), st("age", 0), st("kick", 0),
				st("rinit", 0), st("restart", 0), st("kick", 0), st("rresp", 0), st("rdata", 0)}
		}
		return Scenario{Parties: []PartySpec{p}, Gen: "cookie-expiry", Steps: steps}
	case 19: // update_only for an unknown key configures nobody, also after a restart
		return Scenario{Parties: []PartySpec{pick(r, okKinds), outKinds[(k/24)%2]}, Gen: "update-only-unknown-key",
			Steps: []StepSpec{st("ghost", 1), st("rinit", 1), st("restart", 0), st("rinit", 1), st("rdata", 1), st("rinit", 0), st("rdata", 0),
				st("ghost", 1), st("rinit", 1), st("tun", 0)}}
	case 20: // the private key changes while an initiation is between consumption and response
		first := StepSpec{Op: "rinitkey", Party: 0, Of: 0}
		switch (k / 22) % 4 {
		case 1:
			first.Party, first.Of = 1, 1 // an unconfigured party: the initiation never gets that far
		case 2:
			first.RespKey = "other"
		}
		steps := []StepSpec{st("rinit", 0), st("rdata", 0), first, st("rdata", 0), st("tun", 0), st("rinit", 0), st("rdata", 0), st("tun", 0)}
		if (k/24)%2 == 1 {
			steps = []StepSpec{first, st("rdata", 0), st("rinit", 0), st("rdata", 0), st("kick", 0), st("rresp", 0), {Op: "rinitkey", Party: 0, Of: 0}, st("rinit", 0), st("rdata", 0)}
		}
		return Scenario{Parties: []PartySpec{pskParty(), outKinds[r.Intn(2)]}, Gen: "key-change-in-flight", Steps: steps}
	case 21: // the device is under load: cookie reply that the initiator can open, retry with MAC2, completion
		return Scenario{Parties: []PartySpec{main, pick(r, okKinds)}, Gen: "device-under-load",
			Steps: []StepSpec{st("rinitload", 0), st("rdata", 0), st("tun", 0), st("rinitload", 1), st("rdata", 1),
				{Op: "rinitload", Party: 1, Of: 1, MacKey: "other"}, {Op: "rinitload", Party: 0, Of: 0, Ts: "same"}, st("rinitload", 0), st("rdata", 0)}}
	case 22: // restart right after the device itself sent a handshake message: it must be able to initiate at once
		p := pick(r, okKinds)
		steps := []StepSpec{st("kick", 0), st("restart", 0), st("tun", 0), st("rresp", 0), st("rdata", 0), st("tun", 0),
			st("rinit", 0), st("restart", 0), st("kick", 0), st("rresp", 0), st("rdata", 0)}
		if (k/24)%2 == 1 {
			steps = []StepSpec{st("rinit", 0), st("restart", 0), st("tun", 0), st("rresp", 0), st("rdata", 0), st("tun", 0),
				st("kick", 0), st("restart", 0), st("kick", 0), st("rresp", 0), st("tun", 0)}
		}
		return Scenario{Parties: []PartySpec{p}, Gen: "restart-after-own-handshake", Steps: steps}
	default: // several peers, random interleaving
		n := 2 + r.Intn(3)
		var ps []PartySpec
		for i := 0; i < n; i++ {
			ps = append(ps, anyParty(r, r.Intn(100)))
		}
		ps[0] = pick(r, okKinds)
		var steps []StepSpec
		for i := 0; i < 10+r.Intn(12); i++ {
			p := r.Intn(n)
			s := StepSpec{Party: p, Of: p}
			switch x := r.Intn(100); {
			case x < 25:
				s.Op = "rinit"
				switch r.Intn(12) {
				case 0:
					s.Ts = "same"
				case 1:
					s.Ts = "old"
				case 2:
					s.RespKey = "other"
				case 3:
					s.MacKey = "other"
				case 4:
					s.RespKey, s.MacKey = "old", "old"
				}
			case x < 40:
				s.Op = "rresp"
				if r.Intn(5) == 0 {
					s.Of = r.Intn(n)
				}
				if r.Intn(5) == 0 {
					s.Which = "older"
				}
			case x < 65:
				s.Op = "rdata"
				if r.Intn(4) == 0 {
					s.Which = "older"
				}
			case x < 82:
				s.Op = "tun"
			case x < 90:
				s.Op = "kick"
			case x < 93:
				s.Op = "restart"
			case x < 95:
				s.Op = "setkey"
			case x < 96:
				s.Op = []string{"rinitkey", "rinitload"}[r.Intn(2)]
			case x < 97:
				s.Op = "age"
				if r.Intn(3) == 0 {
					s.Kind = "short"
				}
			default:
				s.Op = "cookie"
				s.Kind = []string{"authentic", "garbage", "wrongkey", "wrongad", "oldad"}[r.Intn(5)]
				if r.Intn(4) == 0 {
					s.Of = r.Intn(n)
				}
			}
			steps = append(steps, s)
		}
		return Scenario{Parties: ps, Gen: "random", Steps: steps}
	}
}

// ---------------------------------------------------------------- Gallina

func nlist(l []uint64) string {
	var b strings.Builder
	b.WriteString("[")
	for i, x := range l {
		if i > 0 {
			b.WriteString(";")
		}
		fmt.Fprintf(&b, "%d", x)
	}
	b.WriteString("]")
	return b.String()
}

func pack7(bs []byte) string {
	var b strings.Builder
	b.WriteString("[")
	for i := 0; i < len(bs); i += 7 {
		if i > 0 {
			b.WriteString(";")
		}
		var v uint64
		for j := 6; j >= 0; j-- {
			v <<= 8
			if i+j < len(bs) {
				v |= uint64(bs[i+j])
			}
		}
		fmt.Fprintf(&b, "%d", v)
	}
	b.WriteString("]%uint63")
	return b.String()
}

func gallina(c *Case) string {
	var b strings.Builder
	fmt.Fprintf(&b, "mk_case %d [", c.DevKid)
	for i, kp := range c.Conf {
		if i > 0 {
			b.WriteString(";")
		}
		fmt.Fprintf(&b, "(%d,%d)", kp[0], kp[1])
	}
	b.WriteString("] [")
	for i, k := range c.PartyKids {
		if i > 0 {
			b.WriteString(";")
		}
		fmt.Fprintf(&b, "%d", k)
	}
	b.WriteString("] [")
	for i, so := range c.Obs {
		if i > 0 {
			b.WriteString(";\n  ")
		}
		fmt.Fprintf(&b, "(%s, mk_obs [", so.Event)
		for j, o := range so.Outs {
			if j > 0 {
				b.WriteString(";")
			}
			b.WriteString(nlist(o))
		}
		fmt.Fprintf(&b, "] %d [", so.Ref)
		for j, o := range so.Peers {
			if j > 0 {
				b.WriteString(";")
			}
			b.WriteString(nlist(o))
		}
		b.WriteString("] [")
		for j, rw := range so.raws {
			if j > 0 {
				b.WriteString(";")
			}
			fmt.Fprintf(&b, "(%d%%uint63, %s, %s, %s)", len(rw.Bytes), pack7(rw.Bytes), nlist(rw.Fields), pack7(rw.Eph))
		}
		b.WriteString("])")
	}
	b.WriteString("]")
	return b.String()
}

func writeShard(path string, cases []*Case) error {
	var b strings.Builder
	b.WriteString("From Coq Require Import Uint63.\nFrom WG Require Import Base.Prelude Noise.Check.\nLocal Open Scope N_scope.\nDefinition cases : list case := [\n")
	for i, c := range cases {
		if i > 0 {
			b.WriteString(";\n")
		}
		b.WriteString(gallina(c))
	}
	b.WriteString("].\nDefinition bad := Eval vm_compute in (check_cases cases 0).\nPrint bad.\nDefinition st := Eval vm_compute in (stats cases).\nPrint st.\n")
	return os.WriteFile(path, []byte(b.String()), 0o644)
}

// ---------------------------------------------------------------- main

func main() {
	seed := flag.Int64("seed", 1, "PRNG seed")
	n := flag.Int("n", 96, "number of scenarios")
	shards := flag.Int("shards", 8, "case files")
	out := flag.String("out", "out/C03", "output directory")
	replayIn := flag.String("replay", "", "JSON file with scenarios (parties + steps) to run")
	corpus := flag.String("corpus", "", "directory of corpus JSON scenarios to run first")
	flag.Parse()
	if err := os.MkdirAll(*out, 0o755); err != nil {
		panic(err)
	}
	_ = device.MessageInitiationSize
	rng := rand.New(rand.NewSource(*seed))
	var scs []Scenario
	if *replayIn != "" {
		data, err := os.ReadFile(*replayIn)
		if err != nil {
			panic(err)
		}
		if err := json.Unmarshal(data, &scs); err != nil {
			panic(err)
		}
		*shards = 1
	} else {
		if *corpus != "" {
			files, _ := filepath.Glob(filepath.Join(*corpus, "*.json"))
			for _, f := range files {
				data, err := os.ReadFile(f)
				if err != nil {
					continue
				}
				var cs []Scenario
				if json.Unmarshal(data, &cs) == nil {
					for _, c := range cs {
						c.Gen = "corpus"
						scs = append(scs, c)
					}
				}
			}
		}
		for i := 0; i < *n; i++ {
			scs = append(scs, genScenario(rng, i))
		}
	}
	var cases []*Case
	slow := 0
	for _, sc := range scs {
		var c *Case
		for attempt := 0; attempt < 3; attempt++ {
			var err error
			c, err = runScenario(sc, rng)
			if err != nil {
				fmt.Fprintln(os.Stderr, "scenario failed to start:", err)
				os.Exit(2)
			}
			if !c.Slow {
				break
			}
			slow++
		}
		if c.Slow && *replayIn == "" {
			continue // a step did not settle three times in a row: discarded and counted
		}
		cases = append(cases, c)
	}
	if *shards > len(cases) {
		*shards = len(cases)
	}
	if *shards < 1 {
		*shards = 1
	}
	per := (len(cases) + *shards - 1) / *shards
	type shardInfo struct {
		File  string `json:"file"`
		First int    `json:"first"`
		N     int    `json:"n"`
	}
	var infos []shardInfo
	idx := 0
	for s := 0; s < *shards && idx < len(cases); s++ {
		end := idx + per
		if end > len(cases) {
			end = len(cases)
		}
		name := fmt.Sprintf("cases_C03_%d.v", s)
		if err := writeShard(filepath.Join(*out, name), cases[idx:end]); err != nil {
			panic(err)
		}
		infos = append(infos, shardInfo{name, idx, end - idx})
		idx = end
	}
	hs := 0
	for _, c := range cases {
		hs += c.Handshakes
	}
	meta := map[string]any{"seed": *seed, "cases": cases, "shards": infos, "slow_discarded": slow, "handshakes": hs}
	data, _ := json.Marshal(meta)
	if err := os.WriteFile(filepath.Join(*out, "cases.json"), data, 0o644); err != nil {
		panic(err)
	}
	_ = bytes.Equal
}
