// groast prints the bodies of packetIsGROCandidate and ipHeadersCanCoalesce
// (tun/offload_linux.go) as terms of the deep-embedded language of
// coq/theories/Gro/CandAst.v.  Standard library only.  Everything that is not
// recognised becomes an explicit *Unknown node, on which the Coq interpreter
// returns None, so the theorems of Gro/CandAstProofs.v fail.
//
//	groast -repo /repo > coq/theories/Gen/GroAst.v
package main

import (
	"flag"
	"fmt"
	"go/ast"
	"go/parser"
	"go/token"
	"math/big"
	"os"
	"path/filepath"
	"strings"
)

const relFile = "tun/offload_linux.go"

type tr struct {
	consts  map[string]*big.Int // constants of the file with a value
	slices  map[string]bool     // []byte parameters
	boolsP  map[string]bool     // bool parameters
	retBool bool                // result type is bool
	retType string              // else: the named result type
	ctypes  map[string]string   // declared type of a constant ("" when untyped)
}

func q(s string) string { return "\"" + strings.ReplaceAll(s, "\"", "'") + "\"" }

func kind(n ast.Node) string {
	s := fmt.Sprintf("%T", n)
	return strings.TrimPrefix(s, "*ast.")
}

// ---- constants of the file (iota, implicit repetition) ----

func evalConst(e ast.Expr, iota int64, env map[string]*big.Int) *big.Int {
	switch v := e.(type) {
	case *ast.BasicLit:
		if v.Kind != token.INT {
			return nil
		}
		n, ok := new(big.Int).SetString(strings.ReplaceAll(v.Value, "_", ""), 0)
		if !ok {
			return nil
		}
		return n
	case *ast.Ident:
		if v.Name == "iota" {
			return big.NewInt(iota)
		}
		if c, ok := env[v.Name]; ok {
			return new(big.Int).Set(c)
		}
		return nil
	case *ast.ParenExpr:
		return evalConst(v.X, iota, env)
	case *ast.BinaryExpr:
		a, b := evalConst(v.X, iota, env), evalConst(v.Y, iota, env)
		if a == nil || b == nil {
			return nil
		}
		r := new(big.Int)
		switch v.Op {
		case token.ADD:
			return r.Add(a, b)
		case token.SUB:
			return r.Sub(a, b)
		case token.MUL:
			return r.Mul(a, b)
		case token.AND:
			return r.And(a, b)
		case token.OR:
			return r.Or(a, b)
		case token.SHL:
			if !b.IsUint64() || b.Uint64() > 64 {
				return nil
			}
			return r.Lsh(a, uint(b.Uint64()))
		case token.SHR:
			if !b.IsUint64() || b.Uint64() > 64 {
				return nil
			}
			return r.Rsh(a, uint(b.Uint64()))
		}
	}
	return nil
}

func collectConsts(f *ast.File) (map[string]*big.Int, map[string]string) {
	env := map[string]*big.Int{}
	types := map[string]string{}
	for _, d := range f.Decls {
		g, ok := d.(*ast.GenDecl)
		if !ok || g.Tok != token.CONST {
			continue
		}
		var lastVals []ast.Expr
		lastType := ""
		for i, s := range g.Specs {
			vs := s.(*ast.ValueSpec)
			if len(vs.Values) > 0 {
				lastVals = vs.Values
				lastType = ""
				if id, ok := vs.Type.(*ast.Ident); ok {
					lastType = id.Name
				} else if vs.Type != nil {
					lastType = "?"
				}
			}
			for j, name := range vs.Names {
				if j >= len(lastVals) {
					continue
				}
				v := evalConst(lastVals[j], int64(i), env)
				if v == nil || v.Sign() < 0 || v.BitLen() > 64 {
					continue
				}
				env[name.Name] = v
				types[name.Name] = lastType
			}
		}
	}
	return env, types
}

// ---- expressions ----

func (t *tr) expr(e ast.Expr) string {
	switch v := e.(type) {
	case *ast.ParenExpr:
		return t.expr(v.X)
	case *ast.BasicLit:
		if n := evalConst(v, 0, nil); n != nil && n.Sign() >= 0 && n.BitLen() <= 64 {
			return fmt.Sprintf("(EConst %s%%N)", n.String())
		}
		return "(EUnknown " + q("BasicLit "+v.Kind.String()) + ")"
	case *ast.Ident:
		if t.slices[v.Name] || t.boolsP[v.Name] {
			return "(EUnknown " + q("Ident parameter as number") + ")"
		}
		if c, ok := t.consts[v.Name]; ok {
			return fmt.Sprintf("(EConst %s%%N)", c.String())
		}
		return "(EUnknown " + q("Ident") + ")"
	case *ast.SelectorExpr:
		if p, ok := v.X.(*ast.Ident); ok && p.Obj == nil && !t.slices[p.Name] && !t.boolsP[p.Name] {
			return "(EPkgConst " + q(p.Name) + " " + q(v.Sel.Name) + ")"
		}
		return "(EUnknown " + q("SelectorExpr") + ")"
	case *ast.CallExpr:
		if id, ok := v.Fun.(*ast.Ident); ok && id.Name == "len" && len(v.Args) == 1 {
			if a, ok := v.Args[0].(*ast.Ident); ok && t.slices[a.Name] {
				return "(ELen " + q(a.Name) + ")"
			}
		}
		return "(EUnknown " + q("CallExpr") + ")"
	case *ast.IndexExpr:
		if a, ok := v.X.(*ast.Ident); ok && t.slices[a.Name] {
			return "(EIdx " + q(a.Name) + " " + t.expr(v.Index) + ")"
		}
		return "(EUnknown " + q("IndexExpr") + ")"
	case *ast.BinaryExpr:
		op := ""
		switch v.Op {
		case token.SHR:
			op = "OShr"
		case token.AND:
			op = "OAnd"
		default:
			return "(EUnknown " + q("BinaryExpr "+v.Op.String()) + ")"
		}
		return "(EBin " + op + " " + t.expr(v.X) + " " + t.expr(v.Y) + ")"
	}
	return "(EUnknown " + q(kind(e)) + ")"
}

func (t *tr) cond(e ast.Expr) string {
	switch v := e.(type) {
	case *ast.ParenExpr:
		return t.cond(v.X)
	case *ast.Ident:
		switch {
		case v.Name == "true" && v.Obj == nil:
			return "BTrue"
		case v.Name == "false" && v.Obj == nil:
			return "BFalse"
		case t.boolsP[v.Name]:
			return "(BVar " + q(v.Name) + ")"
		}
		return "(BUnknown " + q("Ident") + ")"
	case *ast.UnaryExpr:
		if v.Op == token.NOT {
			return "(BNot " + t.cond(v.X) + ")"
		}
		return "(BUnknown " + q("UnaryExpr "+v.Op.String()) + ")"
	case *ast.BinaryExpr:
		switch v.Op {
		case token.LAND:
			return "(BAnd " + t.cond(v.X) + " " + t.cond(v.Y) + ")"
		case token.LOR:
			return "(BOr " + t.cond(v.X) + " " + t.cond(v.Y) + ")"
		}
		op := ""
		switch v.Op {
		case token.GEQ:
			op = "CGe"
		case token.GTR:
			op = "CGt"
		case token.LEQ:
			op = "CLe"
		case token.LSS:
			op = "CLt"
		case token.EQL:
			op = "CEq"
		case token.NEQ:
			op = "CNe"
		default:
			return "(BUnknown " + q("BinaryExpr "+v.Op.String()) + ")"
		}
		return "(BCmp " + op + " " + t.expr(v.X) + " " + t.expr(v.Y) + ")"
	}
	return "(BUnknown " + q(kind(e)) + ")"
}

// ---- statements ----

func ind(n int) string { return strings.Repeat("  ", n) }

func (t *tr) block(l []ast.Stmt, d int) string {
	if len(l) == 0 {
		return "SSkip"
	}
	return "(SSeq " + t.stmt(l[0], d+1) + "\n" + ind(d) + t.block(l[1:], d) + ")"
}

func (t *tr) stmt(s ast.Stmt, d int) string {
	switch v := s.(type) {
	case *ast.BlockStmt:
		return t.block(v.List, d)
	case *ast.IfStmt:
		if v.Init != nil {
			return "(SUnknown " + q("IfStmt with init") + ")"
		}
		els := "SSkip"
		if v.Else != nil {
			els = t.stmt(v.Else, d+1)
		}
		return "(SIf " + t.cond(v.Cond) + "\n" + ind(d+1) + t.block(v.Body.List, d+1) + "\n" + ind(d+1) + els + ")"
	case *ast.ReturnStmt:
		if len(v.Results) != 1 {
			return "(SUnknown " + q("ReturnStmt arity") + ")"
		}
		if t.retBool {
			return "(SReturnB " + t.cond(v.Results[0]) + ")"
		}
		// a named constant of the result type, emitted as its value
		if id, ok := v.Results[0].(*ast.Ident); ok {
			if c, ok := t.consts[id.Name]; ok && t.ctypes[id.Name] == t.retType {
				return fmt.Sprintf("(SReturnN (EConst %s%%N))", c.String())
			}
		}
		return "(SUnknown " + q("ReturnStmt value") + ")"
	}
	return "(SUnknown " + q(kind(s)) + ")"
}

// ---- signatures ----

func isByteSlice(e ast.Expr) bool {
	a, ok := e.(*ast.ArrayType)
	if !ok || a.Len != nil {
		return false
	}
	id, ok := a.Elt.(*ast.Ident)
	return ok && id.Name == "byte"
}

func isIdent(e ast.Expr, name string) bool {
	id, ok := e.(*ast.Ident)
	return ok && id.Name == name
}

// flat list of (name, type expr)
func params(fl *ast.FieldList) (names []string, types []ast.Expr) {
	if fl == nil {
		return
	}
	for _, f := range fl.List {
		if len(f.Names) == 0 {
			names = append(names, "_")
			types = append(types, f.Type)
		}
		for _, n := range f.Names {
			names = append(names, n.Name)
			types = append(types, f.Type)
		}
	}
	return
}

func findFunc(f *ast.File, name string) *ast.FuncDecl {
	for _, d := range f.Decls {
		if fd, ok := d.(*ast.FuncDecl); ok && fd.Recv == nil && fd.Name.Name == name && fd.Body != nil {
			return fd
		}
	}
	return nil
}

func underlyingUint8(f *ast.File, name string) bool {
	for _, d := range f.Decls {
		g, ok := d.(*ast.GenDecl)
		if !ok || g.Tok != token.TYPE {
			continue
		}
		for _, s := range g.Specs {
			ts := s.(*ast.TypeSpec)
			if ts.Name.Name == name && ts.Assign == token.NoPos {
				return isIdent(ts.Type, "uint8") || isIdent(ts.Type, "byte")
			}
		}
	}
	return false
}

func main() {
	repo := flag.String("repo", "/repo", "wireguard-go tree")
	flag.Parse()
	fset := token.NewFileSet()
	f, err := parser.ParseFile(fset, filepath.Join(*repo, filepath.FromSlash(relFile)), nil, 0)
	if err != nil {
		fmt.Fprintln(os.Stderr, "groast: parse error")
		os.Exit(1)
	}
	consts, ctypes := collectConsts(f)

	// packetIsGROCandidate(b []byte, canUDPGRO bool) groCandidateType
	candBody := "(SUnknown " + q("packetIsGROCandidate: missing or unexpected signature") + ")"
	retType := ""
	if fd := findFunc(f, "packetIsGROCandidate"); fd != nil {
		n, ty := params(fd.Type.Params)
		rn, rt := params(fd.Type.Results)
		if len(n) == 2 && n[0] == "b" && isByteSlice(ty[0]) && n[1] == "canUDPGRO" && isIdent(ty[1], "bool") &&
			len(rt) == 1 && rn[0] == "_" {
			if id, ok := rt[0].(*ast.Ident); ok && underlyingUint8(f, id.Name) {
				retType = id.Name
				t := &tr{consts: consts, ctypes: ctypes, slices: map[string]bool{"b": true},
					boolsP: map[string]bool{"canUDPGRO": true}, retType: retType}
				candBody = t.block(fd.Body.List, 1)
			}
		}
	}
	hdrBody := "(SUnknown " + q("ipHeadersCanCoalesce: missing or unexpected signature") + ")"
	if fd := findFunc(f, "ipHeadersCanCoalesce"); fd != nil {
		n, ty := params(fd.Type.Params)
		rn, rt := params(fd.Type.Results)
		if len(n) == 2 && n[0] == "pktA" && isByteSlice(ty[0]) && n[1] == "pktB" && isByteSlice(ty[1]) &&
			len(rt) == 1 && rn[0] == "_" && isIdent(rt[0], "bool") {
			t := &tr{consts: consts, ctypes: ctypes, slices: map[string]bool{"pktA": true, "pktB": true},
				boolsP: map[string]bool{}, retBool: true}
			hdrBody = t.block(fd.Body.List, 1)
		}
	}

	fmt.Println("(* GENERATED by harness/cmd/groast from tun/offload_linux.go -- do not edit. *)")
	fmt.Println("From Coq Require Import String.")
	fmt.Println("From WG Require Import Base.Prelude Gro.CandAst.")
	fmt.Println("Local Open Scope string_scope.")
	fmt.Println()
	fmt.Println("(* the constants of the result type of packetIsGROCandidate, in source order; a missing name is 2^64 *)")
	for _, name := range []string{"notGROCandidate", "tcp4GROCandidate", "tcp6GROCandidate", "udp4GROCandidate", "udp6GROCandidate"} {
		val := "18446744073709551616"
		if c, ok := consts[name]; ok && retType != "" && ctypes[name] == retType {
			val = c.String()
		}
		fmt.Printf("Definition c_%s : N := %s%%N.\n", name, val)
	}
	fmt.Println()
	fmt.Println("Definition cand_body : stmt :=\n  " + candBody + ".")
	fmt.Println()
	fmt.Println("Definition hdr_body : stmt :=\n  " + hdrBody + ".")
}
