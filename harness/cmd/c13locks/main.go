// c13locks — extracts the lock-order edges of package device from the SOURCE of the tree under
// test and prints them as Gallina (Gen/LockEdges.v) and JSON.
//
// For every function body (source order, lexically tracked held set: Lock/RLock push,
// Unlock/RUnlock pop, `defer x.Unlock()` = held until return) and, through a fixpoint over the
// static call graph of the package, it computes the set of edges
//
//	(class held, class acquired)          a lock taken while another is held
//	(class held, class acquired) [join]   a sync.WaitGroup.Wait() reached while a lock is held,
//	                                      for every lock acquired by a goroutine that calls
//	                                      Done() on that wait group
//
// with one witness (function, file:line, call chain) per edge.  See notes/C13.md for what this
// over- and under-approximates.
package main

import (
	"flag"
	"fmt"
	"go/ast"
	"go/importer"
	"go/parser"
	"go/token"
	"go/types"
	"os"
	"path/filepath"
	"sort"
	"strings"
)

// lock classes of Lifecycle/Proofs.v, keyed by "<owner type>.<field path>"
var classIDs = map[string]int{
	"Device.state": 0, "Device.ipcMutex": 1, "Device.peers": 2, "Peer.state": 3, "Timer.runningLock": 4,
	"Device.net": 5, "Device.staticIdentity": 6, "Handshake.mutex": 7, "Keypairs": 8, "IndexTable": 9,
	"Peer.endpoint": 10, "AllowedIPs.mutex": 11, "Timer.modifyingLock": 12, "CookieChecker": 13, "CookieGenerator": 14,
}
var classNames = []string{"state", "ipc", "peers", "pst", "trun", "net", "si", "hs", "kp", "itab", "ep", "aip", "tmod", "cc", "cg"}

type lockOp struct {
	class string
	write bool
}

type held struct {
	class string
	write bool
	pos   token.Pos
}

type witness struct {
	Func   string `json:"func"`
	Pos    string `json:"pos"`
	Via    string `json:"via,omitempty"`  // call chain to the acquisition
	Join   bool   `json:"join,omitempty"` // through a WaitGroup.Wait
	HeldAt string `json:"held_at"`        // where the held lock was taken
}

type edge struct{ from, to string }

type funcInfo struct {
	name        string
	body        *ast.BlockStmt
	obj         types.Object // *types.Func for declared functions; nil for literals
	sig         *types.Signature
	direct      map[string]token.Pos // classes acquired directly (any mode) -> first position
	calls       []callSite
	waits       []waitSite
	dones       map[string]bool   // wait-group classes this function calls Done() on (incl. deferred closures)
	acqT        map[string]string // transitive: class -> chain description
	lits        []*funcInfo       // function literals defined inside (non-go, non-defer-immediately): analysed as callees at definition site? no: as separate roots
	isRoot      bool
	directEdges []directEdge
	analysed    bool
}

type directEdge struct {
	h   held
	to  string
	pos token.Pos
}

type callSite struct {
	callee *funcInfo
	dyn    *types.Signature // call through a function value of this signature
	held   []held
	pos    token.Pos
	isGo   bool
}

type waitSite struct {
	wg   string
	held []held
	pos  token.Pos
}

var (
	fset       = token.NewFileSet()
	info       *types.Info
	funcs      = map[types.Object]*funcInfo{}
	all        []*funcInfo
	valueFuncs []*funcInfo // functions used as values
	unmapped   = map[string]int{}
	sites      = map[edge]map[string]bool{} // edge -> functions in which the held lock is lexically held
)

type fakeImporter struct{ std types.Importer }

func (f fakeImporter) Import(path string) (*types.Package, error) {
	if !strings.Contains(path, ".") { // standard library
		if p, err := f.std.Import(path); err == nil {
			return p, nil
		}
	}
	name := path[strings.LastIndex(path, "/")+1:]
	p := types.NewPackage(path, name)
	p.MarkComplete()
	return p, nil
}

// syncKind reports "Mutex", "RWMutex", "WaitGroup" for types of package sync.
func syncKind(t types.Type) string {
	if p, ok := t.(*types.Pointer); ok {
		t = p.Elem()
	}
	n, ok := t.(*types.Named)
	if !ok || n.Obj().Pkg() == nil || n.Obj().Pkg().Path() != "sync" {
		return ""
	}
	return n.Obj().Name()
}

func namedName(t types.Type) string {
	for {
		if p, ok := t.(*types.Pointer); ok {
			t = p.Elem()
			continue
		}
		break
	}
	if n, ok := t.(*types.Named); ok {
		return n.Obj().Name()
	}
	return ""
}

// classOf names the lock (or wait group) denoted by expression x (the receiver of
// Lock/RLock/Unlock/RUnlock/Wait/Done/Add): "<Named owner>.<field path below it>".
func classOf(x ast.Expr) string {
	var path []string
	for {
		x = ast.Unparen(x)
		if n := namedName(info.TypeOf(x)); n != "" && syncKind(info.TypeOf(x)) == "" {
			// a named struct of the package: the owner
			if len(path) == 0 {
				return n // embedded mutex promoted to the named type (Keypairs, IndexTable, CookieChecker, ...)
			}
			return n + "." + strings.Join(path, ".")
		}
		switch e := x.(type) {
		case *ast.SelectorExpr:
			path = append([]string{e.Sel.Name}, path...)
			// a field promoted through an embedded struct (ipcSetPeer embeds *Peer): the owner is
			// the struct that declares the field
			if sel := info.Selections[e]; sel != nil && len(sel.Index()) > 1 {
				t := sel.Recv()
				for _, ix := range sel.Index()[:len(sel.Index())-1] {
					for {
						if p, ok := t.(*types.Pointer); ok {
							t = p.Elem()
							continue
						}
						break
					}
					st, ok := t.Underlying().(*types.Struct)
					if !ok {
						break
					}
					t = st.Field(ix).Type()
				}
				if n := namedName(t); n != "" {
					return n + "." + strings.Join(path, ".")
				}
			}
			x = e.X
		case *ast.UnaryExpr:
			x = e.X
		case *ast.StarExpr:
			x = e.X
		case *ast.Ident:
			// a local variable of anonymous struct type or pointer to it, e.g. netc := &device.net
			if def := localAlias[info.ObjectOf(e)]; def != nil {
				x = def
				continue
			}
			return "?" + e.Name + "." + strings.Join(path, ".")
		default:
			return "?"
		}
	}
}

var localAlias = map[types.Object]ast.Expr{}

func main() {
	repo := flag.String("repo", "/repo", "tree under test")
	outV := flag.String("v", "", "Gallina output file")
	outJ := flag.String("json", "", "JSON output file")
	flag.Parse()
	dir := filepath.Join(*repo, "device")
	pkgs, err := parser.ParseDir(fset, dir, func(fi os.FileInfo) bool {
		n := fi.Name()
		if strings.HasSuffix(n, "_test.go") || strings.HasPrefix(n, "verif") {
			return false
		}
		// one platform: linux, not android/ios/windows
		for _, s := range []string{"_windows", "_android", "_ios", "_darwin", "_freebsd", "_openbsd"} {
			if strings.Contains(n, s) {
				return false
			}
		}
		return n != "sticky_default.go"
	}, parser.ParseComments)
	if err != nil {
		fmt.Fprintln(os.Stderr, err)
		os.Exit(2)
	}
	var files []*ast.File
	for _, p := range pkgs {
		if p.Name == "device" {
			var names []string
			for n := range p.Files {
				names = append(names, n)
			}
			sort.Strings(names)
			for _, n := range names {
				files = append(files, p.Files[n])
			}
		}
	}
	info = &types.Info{Types: map[ast.Expr]types.TypeAndValue{}, Defs: map[*ast.Ident]types.Object{}, Uses: map[*ast.Ident]types.Object{}, Selections: map[*ast.SelectorExpr]*types.Selection{}}
	nerr := 0
	conf := types.Config{Importer: fakeImporter{importer.ForCompiler(fset, "source", nil)}, Error: func(error) { nerr++ }}
	conf.Check("device", fset, files, info)

	// 1. collect functions and literals
	for _, f := range files {
		for _, d := range f.Decls {
			fd, ok := d.(*ast.FuncDecl)
			if !ok || fd.Body == nil {
				continue
			}
			obj := info.Defs[fd.Name]
			name := fd.Name.Name
			if fd.Recv != nil && len(fd.Recv.List) > 0 {
				name = namedName(info.TypeOf(fd.Recv.List[0].Type)) + "." + name
			}
			fi := &funcInfo{name: name, body: fd.Body, obj: obj}
			if obj != nil {
				fi.sig, _ = obj.Type().(*types.Signature)
				funcs[obj] = fi
			}
			all = append(all, fi)
		}
	}
	// 2. analyse bodies (literals are discovered on the way and appended to all)
	for i := 0; i < len(all); i++ {
		analyse(all[i])
	}
	// 3a. functions that call Done on a wait group, transitively through plain calls and deferred literals
	doneT := map[*funcInfo]map[string]bool{}
	for _, f := range all {
		doneT[f] = map[string]bool{}
		for w := range f.dones {
			doneT[f][w] = true
		}
	}
	for changed := true; changed; {
		changed = false
		for _, f := range all {
			for _, cs := range f.calls {
				if cs.isGo {
					continue
				}
				for _, g := range callees(cs) {
					for w := range doneT[g] {
						if !doneT[f][w] {
							doneT[f][w] = true
							changed = true
						}
					}
				}
			}
		}
	}
	// goroutine roots: targets of go statements and literals handed to other packages (timers)
	roots := map[*funcInfo]bool{}
	for _, f := range all {
		for _, cs := range f.calls {
			if cs.isGo {
				for _, g := range callees(cs) {
					roots[g] = true
				}
			}
		}
	}
	// 3b. fixpoint: classes a function may acquire, directly, through calls, or — at a
	// WaitGroup.Wait — through the goroutines it joins (prefixed "join")
	for _, f := range all {
		f.acqT = map[string]string{}
		for c := range f.direct {
			f.acqT[c] = f.name
		}
	}
	for changed := true; changed; {
		changed = false
		for _, f := range all {
			for _, cs := range f.calls {
				if cs.isGo {
					continue
				}
				for _, g := range callees(cs) {
					for c, chain := range g.acqT {
						if _, ok := f.acqT[c]; !ok {
							f.acqT[c] = f.name + " > " + chain
							changed = true
						}
					}
				}
			}
			for _, ws := range f.waits {
				for r := range roots {
					if !doneT[r][ws.wg] {
						continue
					}
					for c, chain := range r.acqT {
						if _, ok := f.acqT[c]; !ok {
							f.acqT[c] = f.name + " > join(" + ws.wg + ") " + chain
							changed = true
						}
					}
				}
			}
		}
	}
	// 4. edges
	edges := map[edge]witness{}
	add := func(h held, to string, w witness) {
		e := edge{h.class, to}
		if sites[e] == nil {
			sites[e] = map[string]bool{}
		}
		sites[e][w.Func] = true
		if _, ok := edges[e]; !ok {
			w.HeldAt = fset.Position(h.pos).String()
			edges[e] = w
		}
	}
	for _, f := range all {
		for _, cs := range f.calls {
			if cs.isGo {
				continue
			}
			for _, g := range callees(cs) {
				for c, chain := range g.acqT {
					for _, h := range cs.held {
						add(h, c, witness{Func: f.name, Pos: fset.Position(cs.pos).String(), Via: chain, Join: strings.Contains(chain, "join(")})
					}
				}
			}
		}
		for _, ws := range f.waits {
			for r := range roots {
				if !doneT[r][ws.wg] {
					continue
				}
				for c, chain := range r.acqT {
					for _, h := range ws.held {
						add(h, c, witness{Func: f.name, Pos: fset.Position(ws.pos).String(), Via: "join(" + ws.wg + ") " + chain, Join: true})
					}
				}
			}
		}
	}
	for _, f := range all {
		for _, de := range f.directEdges {
			add(de.h, de.to, witness{Func: f.name, Pos: fset.Position(de.pos).String()})
		}
	}
	emit(edges, *outV, *outJ, nerr, rel(*repo))
}

func rel(repo string) func(string) string {
	return func(p string) string { return strings.TrimPrefix(p, repo+"/") }
}

func callees(cs callSite) []*funcInfo {
	if cs.callee != nil {
		return []*funcInfo{cs.callee}
	}
	var out []*funcInfo
	if cs.dyn != nil {
		for _, f := range valueFuncs {
			if f.sig != nil && types.Identical(f.sig.Params(), cs.dyn.Params()) && types.Identical(f.sig.Results(), cs.dyn.Results()) {
				out = append(out, f)
			}
		}
	}
	return out
}
