package main

import (
	"encoding/json"
	"fmt"
	"go/ast"
	"go/token"
	"go/types"
	"os"
	"sort"
	"strings"
)

type walker struct {
	f        *funcInfo
	localLit map[types.Object]*funcInfo
	deferred []held // unlocks deferred in this (inlined) literal: released when it returns
}

func analyse(f *funcInfo) {
	if f.analysed {
		return
	}
	f.analysed = true
	f.direct = map[string]token.Pos{}
	f.dones = map[string]bool{}
	w := &walker{f: f, localLit: map[types.Object]*funcInfo{}}
	w.block(f.body.List, nil)
}

func cp(st []held) []held { return append([]held{}, st...) }

func union(a, b []held) []held {
	out := cp(a)
	for _, x := range b {
		found := false
		for _, y := range out {
			if x.class == y.class && x.write == y.write {
				found = true
			}
		}
		if !found {
			out = append(out, x)
		}
	}
	return out
}

func (w *walker) block(stmts []ast.Stmt, st []held) ([]held, bool) {
	for _, s := range stmts {
		var term bool
		st, term = w.stmt(s, st)
		if term {
			return st, true
		}
	}
	return st, false
}

func (w *walker) stmt(s ast.Stmt, st []held) ([]held, bool) {
	switch s := s.(type) {
	case nil:
		return st, false
	case *ast.BlockStmt:
		return w.block(s.List, st)
	case *ast.LabeledStmt:
		return w.stmt(s.Stmt, st)
	case *ast.ExprStmt:
		return w.expr(s.X, st), isPanic(s.X)
	case *ast.AssignStmt:
		for _, r := range s.Rhs {
			st = w.expr(r, st)
		}
		for _, l := range s.Lhs {
			st = w.expr(l, st)
		}
		if len(s.Lhs) == 1 && len(s.Rhs) == 1 {
			if id, ok := s.Lhs[0].(*ast.Ident); ok {
				obj := info.ObjectOf(id)
				rhs := ast.Unparen(s.Rhs[0])
				if sel, ok := rhs.(*ast.SelectorExpr); ok && sel.Sel.Name == "bind" && obj != nil {
					bindAlias[obj] = true
				}
				if lit, ok := rhs.(*ast.FuncLit); ok && obj != nil {
					w.localLit[obj] = w.literal(lit, "lit")
				} else if obj != nil {
					if u, ok := rhs.(*ast.UnaryExpr); ok && u.Op == token.AND {
						rhs = u.X
					}
					if _, ok := rhs.(*ast.SelectorExpr); ok && namedName(info.TypeOf(id)) == "" {
						localAlias[obj] = rhs
					}
				}
			}
		}
		return st, false
	case *ast.DeclStmt:
		ast.Inspect(s, func(n ast.Node) bool {
			if e, ok := n.(ast.Expr); ok {
				st = w.expr(e, st)
				return false
			}
			return true
		})
		return st, false
	case *ast.IncDecStmt:
		return w.expr(s.X, st), false
	case *ast.SendStmt:
		st = w.expr(s.Chan, st)
		return w.expr(s.Value, st), false
	case *ast.ReturnStmt:
		for _, r := range s.Results {
			st = w.expr(r, st)
		}
		return st, true
	case *ast.BranchStmt:
		return st, true
	case *ast.GoStmt:
		w.goCall(s.Call, st)
		return st, false
	case *ast.DeferStmt:
		return w.deferCall(s.Call, st), false
	case *ast.IfStmt:
		st, _ = w.stmt(s.Init, st)
		st = w.expr(s.Cond, st)
		a, ta := w.block(s.Body.List, cp(st))
		var b []held
		tb := false
		if s.Else != nil {
			b, tb = w.stmt(s.Else, cp(st))
		} else {
			b = st
		}
		switch {
		case ta && tb:
			return st, s.Else != nil
		case ta:
			return b, false
		case tb:
			return a, false
		}
		return union(a, b), false
	case *ast.ForStmt:
		st, _ = w.stmt(s.Init, st)
		if s.Cond != nil {
			st = w.expr(s.Cond, st)
		}
		a, ta := w.block(s.Body.List, cp(st))
		if ta {
			return st, false
		}
		a, _ = w.stmt(s.Post, a)
		return a, false
	case *ast.RangeStmt:
		st = w.expr(s.X, st)
		a, ta := w.block(s.Body.List, cp(st))
		if ta {
			return st, false
		}
		return a, false
	case *ast.SwitchStmt:
		st, _ = w.stmt(s.Init, st)
		if s.Tag != nil {
			st = w.expr(s.Tag, st)
		}
		return w.clauses(s.Body.List, st)
	case *ast.TypeSwitchStmt:
		st, _ = w.stmt(s.Init, st)
		return w.clauses(s.Body.List, st)
	case *ast.SelectStmt:
		return w.clauses(s.Body.List, st)
	}
	return st, false
}

func (w *walker) clauses(list []ast.Stmt, st []held) ([]held, bool) {
	out := cp(st)
	hasDefault := false
	allTerm := true
	for _, c := range list {
		var body []ast.Stmt
		switch c := c.(type) {
		case *ast.CaseClause:
			if c.List == nil {
				hasDefault = true
			}
			for _, e := range c.List {
				st = w.expr(e, st)
			}
			body = c.Body
		case *ast.CommClause:
			if c.Comm == nil {
				hasDefault = true
			} else {
				w.stmt(c.Comm, cp(st))
			}
			body = c.Body
		}
		a, ta := w.block(body, cp(st))
		// a trailing `fallthrough` / `break` is not a function exit
		if len(body) > 0 {
			if b, ok := body[len(body)-1].(*ast.BranchStmt); ok && (b.Tok == token.BREAK || b.Tok == token.FALLTHROUGH) {
				ta = false
			}
		}
		if !ta {
			out = union(out, a)
			allTerm = false
		}
	}
	return out, allTerm && hasDefault
}

func isPanic(e ast.Expr) bool {
	if c, ok := e.(*ast.CallExpr); ok {
		if id, ok := c.Fun.(*ast.Ident); ok && id.Name == "panic" {
			return true
		}
	}
	return false
}

// literal registers a function literal as its own function (analysed with an empty held set).
func (w *walker) literal(lit *ast.FuncLit, kind string) *funcInfo {
	fi := &funcInfo{name: fmt.Sprintf("%s.%s@%d", w.f.name, kind, fset.Position(lit.Pos()).Line), body: lit.Body}
	fi.sig, _ = info.TypeOf(lit).(*types.Signature)
	all = append(all, fi)
	analyse(fi)
	return fi
}

// expr visits an expression in source order, handling calls.
func (w *walker) expr(e ast.Expr, st []held) []held {
	switch e := e.(type) {
	case nil:
		return st
	case *ast.CallExpr:
		return w.call(e, st)
	case *ast.FuncLit:
		// a literal used as a value (passed on, stored): a separate root (timer callbacks)
		fi := w.literal(e, "func")
		valueFuncs = append(valueFuncs, fi)
		w.f.calls = append(w.f.calls, callSite{callee: fi, isGo: true, pos: e.Pos()})
		return st
	case *ast.ParenExpr:
		return w.expr(e.X, st)
	case *ast.UnaryExpr:
		return w.expr(e.X, st)
	case *ast.StarExpr:
		return w.expr(e.X, st)
	case *ast.BinaryExpr:
		st = w.expr(e.X, st)
		return w.expr(e.Y, st)
	case *ast.IndexExpr:
		st = w.expr(e.X, st)
		return w.expr(e.Index, st)
	case *ast.SliceExpr:
		st = w.expr(e.X, st)
		st = w.expr(e.Low, st)
		st = w.expr(e.High, st)
		return w.expr(e.Max, st)
	case *ast.TypeAssertExpr:
		return w.expr(e.X, st)
	case *ast.KeyValueExpr:
		st = w.expr(e.Key, st)
		return w.expr(e.Value, st)
	case *ast.CompositeLit:
		for _, x := range e.Elts {
			st = w.expr(x, st)
		}
		return st
	case *ast.SelectorExpr:
		w.noteValue(e.Sel)
		return w.expr(e.X, st)
	case *ast.Ident:
		w.noteValue(e)
		return st
	}
	return st
}

// noteValue records a package function that is used as a value (not called).
func (w *walker) noteValue(id *ast.Ident) {
	if fn, ok := info.Uses[id].(*types.Func); ok {
		if fi := funcs[fn]; fi != nil {
			for _, v := range valueFuncs {
				if v == fi {
					return
				}
			}
			valueFuncs = append(valueFuncs, fi)
		}
	}
}

func syncMethod(call *ast.CallExpr) (recv ast.Expr, kind, method string) {
	sel, ok := ast.Unparen(call.Fun).(*ast.SelectorExpr)
	if !ok {
		return nil, "", ""
	}
	fn, ok := info.Uses[sel.Sel].(*types.Func)
	if !ok || fn.Pkg() == nil || fn.Pkg().Path() != "sync" {
		return nil, "", ""
	}
	sig := fn.Type().(*types.Signature)
	if sig.Recv() == nil {
		return nil, "", ""
	}
	return sel.X, syncKind(sig.Recv().Type()), fn.Name()
}

func (w *walker) call(call *ast.CallExpr, st []held) []held {
	for _, a := range call.Args {
		st = w.expr(a, st)
	}
	if recv, kind, m := syncMethod(call); recv != nil {
		st = w.expr(recv, st)
		cl := classOf(recv)
		switch kind {
		case "Mutex", "RWMutex":
			switch m {
			case "Lock", "RLock":
				for _, h := range st {
					w.f.directEdges = append(w.f.directEdges, directEdge{h, cl, call.Pos()})
				}
				if _, ok := w.f.direct[cl]; !ok {
					w.f.direct[cl] = call.Pos()
				}
				st = append(cp(st), held{cl, m == "Lock", call.Pos()})
			case "Unlock", "RUnlock":
				st = cp(st)
				for i := len(st) - 1; i >= 0; i-- {
					if st[i].class == cl && st[i].write == (m == "Unlock") {
						st = append(st[:i], st[i+1:]...)
						break
					}
				}
			}
		case "WaitGroup":
			switch m {
			case "Wait":
				w.f.waits = append(w.f.waits, waitSite{cl, cp(st), call.Pos()})
			case "Done":
				w.f.dones[cl] = true
			}
		}
		return st
	}
	fun := ast.Unparen(call.Fun)
	// a call on the device's conn.Bind (device.net.bind.M(...), or through a local copy of it):
	// recorded with the locks held, for the obligation "bind.Send only under net.RLock"
	if sel, ok := fun.(*ast.SelectorExpr); ok {
		isBind := false
		switch x := ast.Unparen(sel.X).(type) {
		case *ast.SelectorExpr:
			isBind = x.Sel.Name == "bind"
		case *ast.Ident:
			isBind = bindAlias[info.ObjectOf(x)]
		}
		if isBind {
			bc := bindCall{Func: w.f.name, Method: sel.Sel.Name, Pos: fset.Position(call.Pos()).String()}
			for _, h := range st {
				bc.Held = append(bc.Held, h.class)
				if h.class == "Device.net" {
					bc.HoldsNet = true
				}
			}
			bindCalls = append(bindCalls, bc)
		}
	}
	if lit, ok := fun.(*ast.FuncLit); ok {
		// immediately invoked literal: inline; its deferred unlocks take effect when it returns
		sub := &walker{f: w.f, localLit: w.localLit}
		out, _ := sub.block(lit.Body.List, cp(st))
		out = cp(out)
		for _, d := range sub.deferred {
			for i := len(out) - 1; i >= 0; i-- {
				if out[i].class == d.class && out[i].write == d.write {
					out = append(out[:i], out[i+1:]...)
					break
				}
			}
		}
		return out
	}
	var id *ast.Ident
	switch f := fun.(type) {
	case *ast.Ident:
		id = f
	case *ast.SelectorExpr:
		st = w.expr(f.X, st)
		id = f.Sel
	default:
		return w.expr(fun, st)
	}
	switch obj := info.Uses[id].(type) {
	case *types.Func:
		if fi := funcs[obj]; fi != nil {
			w.f.calls = append(w.f.calls, callSite{callee: fi, held: cp(st), pos: call.Pos()})
		}
	case *types.Var:
		if fi := w.localLit[obj]; fi != nil {
			w.f.calls = append(w.f.calls, callSite{callee: fi, held: cp(st), pos: call.Pos()})
		} else if sig, ok := obj.Type().Underlying().(*types.Signature); ok {
			w.f.calls = append(w.f.calls, callSite{dyn: sig, held: cp(st), pos: call.Pos()})
		}
	}
	return st
}

func (w *walker) goCall(call *ast.CallExpr, st []held) {
	for _, a := range call.Args {
		w.expr(a, st)
	}
	fun := ast.Unparen(call.Fun)
	if lit, ok := fun.(*ast.FuncLit); ok {
		fi := w.literal(lit, "go")
		w.f.calls = append(w.f.calls, callSite{callee: fi, isGo: true, pos: call.Pos()})
		return
	}
	var id *ast.Ident
	switch f := fun.(type) {
	case *ast.Ident:
		id = f
	case *ast.SelectorExpr:
		id = f.Sel
	}
	if id == nil {
		return
	}
	if fn, ok := info.Uses[id].(*types.Func); ok {
		if fi := funcs[fn]; fi != nil {
			w.f.calls = append(w.f.calls, callSite{callee: fi, isGo: true, pos: call.Pos()})
		}
	}
}

func (w *walker) deferCall(call *ast.CallExpr, st []held) []held {
	if recv, kind, m := syncMethod(call); recv != nil {
		switch {
		case (kind == "Mutex" || kind == "RWMutex") && (m == "Unlock" || m == "RUnlock"):
			w.deferred = append(w.deferred, held{classOf(recv), m == "Unlock", call.Pos()})
			return st // held until the function returns
		case kind == "WaitGroup" && m == "Done":
			w.f.dones[classOf(recv)] = true
			return st
		}
	}
	if lit, ok := ast.Unparen(call.Fun).(*ast.FuncLit); ok {
		// deferred closure: its effects (Done, unlocks) belong to this function; analysed at the
		// defer point with the locks held there
		sub := &walker{f: w.f, localLit: w.localLit}
		sub.block(lit.Body.List, cp(st))
		return st
	}
	w.call(call, st)
	return st
}

// ---------------------------------------------------------------- output

// bindCall is one call on the device's conn.Bind value.
type bindCall struct {
	Func     string   `json:"func"`
	Method   string   `json:"method"`
	Pos      string   `json:"pos"`
	HoldsNet bool     `json:"holds_net"` // device.net held (any mode) lexically in this function
	Held     []string `json:"held"`
}

var (
	bindCalls []bindCall
	bindAlias = map[types.Object]bool{}
)

type outEdge struct {
	From, To         int
	FromName, ToName string
	W                witness
	Sites            []string // every function in which the held lock is lexically held at such an acquisition / call / wait
}

func emit(edges map[edge]witness, outV, outJ string, nerr int, rel func(string) string) {
	var mapped, self []outEdge
	other := map[string]witness{}
	for e, w := range edges {
		w.Pos, w.HeldAt = rel(w.Pos), rel(w.HeldAt)
		fi, ok1 := classIDs[e.from]
		ti, ok2 := classIDs[e.to]
		if !ok1 {
			unmapped[e.from]++
		}
		if !ok2 {
			unmapped[e.to]++
		}
		if !ok1 || !ok2 {
			other[e.from+" -> "+e.to] = w
			continue
		}
		var ss []string
		for f := range sites[e] {
			ss = append(ss, f)
		}
		sort.Strings(ss)
		oe := outEdge{fi, ti, classNames[fi], classNames[ti], w, ss}
		if fi == ti {
			self = append(self, oe)
		} else {
			mapped = append(mapped, oe)
		}
	}
	less := func(l []outEdge) func(i, j int) bool {
		return func(i, j int) bool {
			if l[i].From != l[j].From {
				return l[i].From < l[j].From
			}
			return l[i].To < l[j].To
		}
	}
	sort.Slice(mapped, less(mapped))
	sort.Slice(self, less(self))
	var b strings.Builder
	b.WriteString("(* Generated by harness/cmd/c13locks from the source of package device of the tree under test.\n   Lock-order edges (class held, class acquired or acquired by a joined goroutine); class ids as in\n   Lifecycle/Proofs.v.  Regenerated on every run of the C13 check. *)\nFrom Coq Require Import List.\nImport ListNotations.\n")
	pr := func(name string, l []outEdge) {
		fmt.Fprintf(&b, "Definition %s : list (nat * nat) := [", name)
		for i, e := range l {
			if i > 0 {
				b.WriteString("; ")
			}
			if i%8 == 0 {
				b.WriteString("\n  ")
			}
			fmt.Fprintf(&b, "(%d, %d)", e.From, e.To)
		}
		b.WriteString("].\n")
	}
	pr("code_edges", mapped)
	pr("code_self_edges", self)
	if outV != "" {
		if err := os.WriteFile(outV, []byte(b.String()), 0o644); err != nil {
			panic(err)
		}
	} else {
		fmt.Print(b.String())
	}
	if outJ != "" {
		var um []string
		for k := range unmapped {
			um = append(um, k)
		}
		sort.Strings(um)
		j, _ := json.MarshalIndent(map[string]any{"edges": mapped, "self_edges": self, "edges_with_unmapped_locks": other,
			"unmapped_lock_classes": um, "type_errors_ignored": nerr, "functions": len(all), "bind_calls": relCalls(rel)}, "", " ")
		os.WriteFile(outJ, j, 0o644)
	}
}

func relCalls(rel func(string) string) []bindCall {
	out := append([]bindCall{}, bindCalls...)
	for i := range out {
		out[i].Pos = rel(out[i].Pos)
	}
	sort.Slice(out, func(i, j int) bool { return out[i].Pos < out[j].Pos })
	return out
}
