// c02 drives a real device through the co-simulation library with
// authenticated-but-hostile transport traffic built by package ref and writes
// the scenarios (events as constructed + observed TUN writes and rx_bytes
// deltas) as Gallina case files + JSON for Inbound/Check.v.
package main

import (
	"encoding/binary"
	"encoding/json"
	"errors"
	"flag"
	"fmt"
	"math/rand"
	"os"
	"path/filepath"
	"strings"
	"sync/atomic"
	"time"

	"golang.org/x/net/ipv4"
	"golang.org/x/net/ipv6"
	"golang.zx2c4.com/wireguard/device"

	"wgv/cosim"
	"wgv/dpath"
	"wgv/ref"
	"wgv/sim"
)

type Dg struct {
	Raw      bool   `json:"raw,omitempty"`
	TypeWord uint32 `json:"tw,omitempty"`
	RawLen   int    `json:"rawlen,omitempty"`
	Sess     int    `json:"sess,omitempty"`  // serial (1-based) of the session whose key seals it
	IdxOf    int    `json:"idxof,omitempty"` // serial of the session whose device-side index goes into the header; 0 = literal Idx
	Idx      uint32 `json:"idx,omitempty"`
	Tamper   int    `json:"tamper,omitempty"` // 0 none, 1 tag, 2 ciphertext, 3 counter field
	Ctr      uint64 `json:"ctr"`
	Plain    []byte `json:"plain"`
	Note     string `json:"note,omitempty"`
	UsedIdx  uint32 `json:"used_idx,omitempty"` // resolved at run time
}

type Ev struct {
	// "remove": the peer ceases to exist — Via "uapi" (public_key=…, remove=true) or "selfkey" (private_key=<the peer's
	// private key>: a device never has itself as a peer).  Handshakes attempted for it afterwards must fail.
	Via string `json:"via,omitempty"`
	// "reconf": one UAPI set operation made of several peer sections; NewTable / Rm are its intended result
	Sections []Section     `json:"sections,omitempty"`
	NewTable []dpath.Entry `json:"new_table,omitempty"`
	Rm       []int         `json:"rm,omitempty"`
	Kind     string        `json:"k"` // "hsu" (handshake without the confirming keepalive), "restart" (Down + Up), "hs", "age" (keypair creation moved Secs s + Ms ms into the past), "idle" (Ms ms of real time pass), "dg"
	Peer     int           `json:"peer,omitempty"`
	Secs     int           `json:"secs,omitempty"`
	Ms       int           `json:"ms,omitempty"`
	// flood: Flood handshake initiations with valid MAC1 and no MAC2 while the device is under load (cookie replies)
	Flood   int `json:"flood,omitempty"`
	Cookies int `json:"cookies,omitempty"` // observed: cookie replies the device sent during the flood
	// dg with Junk > 0: the TUN write of this step is held open (sim.Tun.WriteGate) while a batch of Junk
	// unauthenticated datagrams (type 0xEE, same sizes, a forged IPv4 packet at the content offset) arrives
	Junk int `json:"junk,omitempty"`
	// dg with TunFail: tun.Write returns an error for the duration of the step (sim.Tun.WriteErr): the packets of the step are lost
	TunFail  bool `json:"tun_fail,omitempty"`
	JunkSent int  `json:"junk_sent,omitempty"`
	// MaxLateMs: the step is only valid if it starts at most this many ms after the preceding "age" event
	MaxLateMs int  `json:"max_late_ms,omitempty"`
	Dgs       []Dg `json:"dgs,omitempty"`
	// observed / oracle
	DevIdx uint32   `json:"dev_idx,omitempty"`
	Serial int      `json:"serial,omitempty"`
	Writes [][]byte `json:"writes"`
	Rx     []uint64 `json:"rx"`
}

type Scenario struct {
	Gen       string        `json:"gen"`
	NPeers    int           `json:"npeers"`
	Table     []dpath.Entry `json:"table"`
	BindBatch int           `json:"bind_batch"`
	Evs       []Ev          `json:"evs"`
	Discarded string        `json:"discarded,omitempty"`
	Kind      string        `json:"kind,omitempty"` // "" or "crashed"
	Crash     string        `json:"crash,omitempty"`
	Solo      bool          `json:"solo,omitempty"`    // runs in a process of its own (it sleeps)
	Partial   bool          `json:"partial,omitempty"` // compact scenario of a concurrency pass: judged by the property only
	ChurnMs   int           `json:"churn_ms,omitempty"`
	ChurnFam  int           `json:"churn_fam,omitempty"`
	Churn     *ChurnStats   `json:"churn,omitempty"`
}

var poisoned bool

func closeWorld(w *cosim.World) {
	done := make(chan struct{})
	go func() { w.Close(); close(done) }()
	select {
	case <-done:
	case <-time.After(3 * time.Second):
		poisoned = true
	}
}

const limit = uint64(device.RejectAfterMessages)

// ---------------------------------------------------------------- running

type sess struct {
	peer int
	s    *ref.Session
}

func run(sc *Scenario) {
	sc.Discarded = ""
	peers := make([]*cosim.RefPeer, sc.NPeers)
	for i := range peers {
		var allowed []string
		for _, e := range sc.Table {
			if e.Owner == i {
				allowed = append(allowed, e.CIDR())
			}
		}
		peers[i] = cosim.NewPeer(fmt.Sprintf("P%d", i), fmt.Sprintf("192.0.2.%d:%d", 10+i, 5000+i), allowed...)
	}
	w, err := cosim.NewWorld(cosim.Config{Up: true, BindBatch: sc.BindBatch, TunBatch: 4}, true, peers...)
	if err != nil {
		sc.Discarded = "world: " + err.Error()
		return
	}
	defer closeWorld(w)
	var sessions []*sess
	gone := make([]bool, sc.NPeers)
	aged := time.Now()
	rxOf := func() []uint64 {
		o := make([]uint64, sc.NPeers)
		for i, p := range peers {
			o[i] = w.Dev.VerifPeer(cosim.NoisePK(p.Pub)).RxBytes
		}
		return o
	}
	for ei := range sc.Evs {
		ev := &sc.Evs[ei]
		ev.Writes = [][]byte{}
		ev.Rx = make([]uint64, sc.NPeers)
		switch ev.Kind {
		case "hs":
			p := peers[ev.Peer]
			w.Dev.VerifShiftHandshakeTimes(cosim.NoisePK(p.Pub), time.Second)
			_, out, s, err := w.RefInitiates(p, p.Addr, ref.Tai64n(time.Now()))
			if gone[ev.Peer] && err != nil && out.Settled {
				// nobody can complete a handshake as a removed peer: the serial is used up, no session exists
				sessions = append(sessions, nil)
				ev.Serial = len(sessions)
				ev.DevIdx = 0
				continue
			}
			if err != nil || !out.Settled {
				sc.Discarded = fmt.Sprintf("handshake %d: %v", ei, err)
				return
			}
			for _, x := range out.Written {
				ev.Writes = append(ev.Writes, x.Data)
			}
			out = w.Inject(p.Addr, s.Next(nil)) // confirming keepalive, counter 0
			if !out.Settled {
				sc.Discarded = "unsettled"
				return
			}
			for _, x := range out.Written {
				ev.Writes = append(ev.Writes, x.Data)
			}
			sessions = append(sessions, &sess{ev.Peer, s})
			ev.Serial = len(sessions)
			ev.DevIdx = s.RemoteIdx
		case "hsu":
			p := peers[ev.Peer]
			w.Dev.VerifShiftHandshakeTimes(cosim.NoisePK(p.Pub), time.Second)
			_, out, s, err := w.RefInitiates(p, p.Addr, ref.Tai64n(time.Now()))
			if err != nil || !out.Settled {
				sc.Discarded = fmt.Sprintf("handshake %d: %v", ei, err)
				return
			}
			for _, x := range out.Written {
				ev.Writes = append(ev.Writes, x.Data)
			}
			sessions = append(sessions, &sess{ev.Peer, s})
			ev.Serial = len(sessions)
			ev.DevIdx = s.RemoteIdx
		case "reconf":
			unknown := ref.PubOf(ref.NewPrivate())
			text := renderSections(ev.Sections, func(who int) string {
				switch {
				case who == -1:
					return fmt.Sprintf("%x", w.DevPub[:])
				case who < 0:
					return fmt.Sprintf("%x", unknown[:])
				}
				return fmt.Sprintf("%x", peers[who].Pub[:])
			})
			err, out := w.Set(text)
			if err != nil || !out.Settled {
				sc.Discarded = fmt.Sprintf("reconf %d: %v", ei, err)
				poisoned = !out.Settled
				return
			}
			for _, p := range ev.Rm {
				gone[p] = true
			}
			for _, x := range out.Written {
				ev.Writes = append(ev.Writes, x.Data)
			}
		case "remove":
			p := peers[ev.Peer]
			var cfg string
			if ev.Via == "selfkey" {
				cfg = fmt.Sprintf("private_key=%x\n", p.Priv[:])
			} else {
				cfg = fmt.Sprintf("public_key=%x\nremove=true\n", p.Pub[:])
			}
			err, out := w.Set(cfg)
			if err != nil || !out.Settled {
				sc.Discarded = fmt.Sprintf("remove %d: %v", ei, err)
				poisoned = !out.Settled
				return
			}
			if ev.Via == "selfkey" {
				w.DevPriv, w.DevPub = p.Priv, p.Pub
			}
			gone[ev.Peer] = true
			for _, x := range out.Written {
				ev.Writes = append(ev.Writes, x.Data)
			}
		case "restart":
			w.Dev.Down()
			o1 := w.Take()
			w.Dev.Up()
			o2 := w.Take()
			if !o1.Settled || !o2.Settled {
				sc.Discarded = "unsettled"
				poisoned = true
				return
			}
			for _, x := range append(o1.Written, o2.Written...) {
				ev.Writes = append(ev.Writes, x.Data)
			}
		case "age":
			w.Dev.VerifShiftKeypairAges(cosim.NoisePK(peers[ev.Peer].Pub), time.Duration(ev.Secs)*time.Second+time.Duration(ev.Ms)*time.Millisecond)
			aged = time.Now()
		case "idle":
			// real time passes with the socket idle; the model ages every keypair by Ms, so the
			// sleep is measured from the last age shift and must not overshoot by much
			if d := time.Duration(ev.Ms)*time.Millisecond - time.Since(aged); d > 0 {
				time.Sleep(d)
			}
			if over := time.Since(aged) - time.Duration(ev.Ms)*time.Millisecond; over > 500*time.Millisecond {
				sc.Discarded = fmt.Sprintf("idle step overshot by %v (loaded machine)", over)
				return
			}
			if out := w.Take(); !out.Settled {
				sc.Discarded = "unsettled"
				poisoned = true
				return
			} else {
				for _, x := range out.Written {
					ev.Writes = append(ev.Writes, x.Data)
				}
			}
		case "flood":
			before := rxOf()
			p := peers[0]
			w.Dev.VerifForceUnderLoad(3 * time.Second)
			var ds []sim.Dgram
			for k := 0; k < ev.Flood; k++ {
				p.NextIdx++
				st := ref.CreateInitiation(p.Priv, ref.NewPrivate(), w.DevPub, p.Psk, p.NextIdx, ref.Tai64n(time.Now()))
				ds = append(ds, sim.Dgram{From: p.Addr, Data: st.Msg})
			}
			out := w.InjectBatch(ds...)
			w.Dev.VerifForceUnderLoad(0)
			for _, x := range out.Sent {
				if len(x.Data) == ref.CookieSize && x.Data[0] == ref.TypeCookie {
					ev.Cookies++
				}
			}
			if !out.Settled {
				sc.Discarded = "unsettled"
				poisoned = true
				return
			}
			for _, x := range out.Written {
				ev.Writes = append(ev.Writes, x.Data)
			}
			after := rxOf()
			for i := range after {
				ev.Rx[i] = after[i] - before[i]
			}
		case "dg":
			if ev.MaxLateMs > 0 && time.Since(aged) > time.Duration(ev.MaxLateMs)*time.Millisecond {
				sc.Discarded = fmt.Sprintf("datagram step started %v after the age shift (loaded machine)", time.Since(aged))
				return
			}
			before := rxOf()
			var ds []sim.Dgram
			for di := range ev.Dgs {
				d := &ev.Dgs[di]
				from := peers[0].Addr
				var msg []byte
				if d.Raw {
					msg = make([]byte, d.RawLen)
					for i := range msg {
						msg[i] = byte(37*i + 11)
					}
					if len(msg) >= 4 {
						binary.LittleEndian.PutUint32(msg, d.TypeWord)
					} else {
						for i := range msg {
							msg[i] = byte(d.TypeWord >> (8 * uint(i)))
						}
					}
				} else {
					if d.Sess < 1 || d.Sess > len(sessions) {
						sc.Discarded = "datagram refers to a session that does not exist"
						return
					}
					s := sessions[d.Sess-1]
					if s == nil { // the handshake for this serial (rightly) failed: there is no key; any bytes will do
						s = &sess{0, &ref.Session{SendKey: ref.NewPrivate()}}
					}
					from = peers[s.peer].Addr
					msg = s.s.Transport(d.Ctr, d.Plain)
					idx := d.Idx
					if d.IdxOf >= 1 && d.IdxOf <= len(sessions) && sessions[d.IdxOf-1] != nil {
						idx = sessions[d.IdxOf-1].s.RemoteIdx
					}
					d.UsedIdx = idx
					binary.LittleEndian.PutUint32(msg[4:8], idx)
					switch d.Tamper {
					case 1:
						msg[len(msg)-1] ^= 0x01
					case 2:
						msg[16] ^= 0x80
					case 3:
						msg[8] ^= 0x01
					}
				}
				ds = append(ds, sim.Dgram{From: from, Data: msg})
			}
			var fired atomic.Int32
			if ev.Junk > 0 {
				var junk []sim.Dgram
				for k := 0; k < ev.Junk; k++ {
					n := 64
					if len(ds) > 0 {
						n = len(ds[k%len(ds)].Data)
					}
					if n < 36 {
						n = 36
					}
					j := make([]byte, n)
					for i := range j {
						j[i] = 0x66
					}
					j[0], j[1], j[2], j[3] = 0xee, 0, 0, 0
					if n >= 16+20 { // where an inbound element's plaintext would start
						copy(j[16:], []byte{0x45, 0, byte((n - 32) >> 8), byte(n - 32), 0, 0, 0, 0, 64, 17, 0, 0, 10, 66, 66, 66, 10, 9, 9, 9})
					}
					junk = append(junk, sim.Dgram{From: peers[0].Addr, Data: j})
				}
				w.Tun.WriteGate = func(bufs [][]byte) {
					if fired.Add(1) <= 3 {
						w.Bind.Inject(junk...)
						time.Sleep(2 * time.Millisecond)
					}
				}
			}
			if ev.TunFail {
				w.Tun.WriteErr = errors.New("sim: tun write: input/output error")
			}
			out := w.InjectBatch(ds...)
			w.Tun.WriteErr = nil
			w.Tun.WriteGate = nil
			if n := int(fired.Load()); n > 3 {
				ev.JunkSent = 3 * ev.Junk
			} else {
				ev.JunkSent = n * ev.Junk
			}
			if !out.Settled {
				sc.Discarded = "unsettled"
				poisoned = true
				return
			}
			for _, x := range out.Written {
				ev.Writes = append(ev.Writes, x.Data)
			}
			after := rxOf()
			for i := range after {
				ev.Rx[i] = after[i] - before[i]
			}
		}
	}
}

// ---------------------------------------------------------------- generators

type gsess struct {
	peer   int
	serial int
	next   uint64   // next unused counter going forward
	max    uint64   // greatest counter used
	used   []uint64 // counters sent so far
	unconf bool     // offered by the device, not yet used by us
	ghost  bool     // handshake attempted as a removed peer: no session should exist
	tag    string   // note prefix for datagrams under a dead session
	dead   bool     // from before a restart of the interface
}

type gen struct {
	r    *rand.Rand
	sc   *Scenario
	all  []*gsess
	bnd4 [][]byte
	bnd6 [][]byte
	big  bool
	gone []bool
}

func (g *gen) srcFor(fam, p int, own bool) []byte {
	b := g.bnd4
	if fam == 6 {
		b = g.bnd6
	}
	if own {
		var mine [][]byte
		for _, a := range b {
			if dpath.Lookup(g.sc.Table, a) == p {
				mine = append(mine, a)
			}
		}
		if len(mine) > 0 {
			return mine[g.r.Intn(len(mine))]
		}
	}
	return b[g.r.Intn(len(b))]
}

var innerLens = []int{0, 1, 2, 8, 16, 28, 44, 60, 100, 333, 576, 1280, 1400}

func (g *gen) fill(p []byte, from int) {
	for i := from; i < len(p); i++ {
		p[i] = byte(g.r.Intn(256))
	}
}

// hostile plaintext as sent by peer p
func (g *gen) plain(p int) ([]byte, string) {
	r := g.r
	x := r.Intn(40)
	switch {
	case x == 0:
		return []byte{}, "keepalive"
	case x <= 2: // any other version nibble
		n := 1 + r.Intn(80)
		b := make([]byte, n)
		g.fill(b, 0)
		v := byte(r.Intn(16))
		for v == 4 || v == 6 {
			v = byte(r.Intn(16))
		}
		b[0] = v<<4 | b[0]&0x0f
		return b, "version"
	case x <= 21: // IPv4
		n := 20 + innerLens[r.Intn(len(innerLens))]
		pad := 0
		if r.Intn(2) == 0 {
			pad = r.Intn(16)
		}
		if g.big && r.Intn(200) == 0 { // the largest plaintext a datagram can carry
			n = device.MaxContentSize - r.Intn(3)*16
			pad = 0
		}
		b := make([]byte, n+pad)
		b[0] = 0x45
		if r.Intn(6) == 0 {
			b[0] = 0x40 | byte(r.Intn(16))
		}
		b[8], b[9] = 64, 17
		copy(b[12:16], g.srcFor(4, p, r.Intn(10) < 7))
		g.fill(b[:n], 16)
		if r.Intn(2) == 0 {
			g.fill(b, n) // non-zero padding
		}
		tl := n
		note := "v4"
		if r.Intn(3) == 0 {
			c := []int{0, 19, 20, 21, n - 1, n + 1, len(b) - 1, len(b), len(b) + 1, 65535}
			tl = c[r.Intn(len(c))]
			note = "v4-len"
		}
		binary.BigEndian.PutUint16(b[2:], uint16(tl))
		if r.Intn(12) == 0 {
			b = b[:1+r.Intn(19)]
			note = "v4-trunc"
		}
		return b, note
	default: // IPv6
		n := 40 + innerLens[r.Intn(len(innerLens))]
		pad := 0
		if r.Intn(2) == 0 {
			pad = r.Intn(16)
		}
		b := make([]byte, n+pad)
		b[0] = 0x60 | byte(r.Intn(16))
		b[6], b[7] = 17, 64
		copy(b[8:24], g.srcFor(6, p, r.Intn(10) < 7))
		switch r.Intn(12) {
		case 0: // ::ffff:a.b.c.d with a.b.c.d one of the sender's own IPv4 sources: the IPv6 table alone decides
			copy(b[8:24], append([]byte{0, 0, 0, 0, 0, 0, 0, 0, 0, 0, 0xff, 0xff}, g.srcFor(4, p, true)...))
		case 1: // ::a.b.c.d
			copy(b[8:24], append(make([]byte, 12), g.srcFor(4, p, true)...))
		}
		g.fill(b[:n], 24)
		if r.Intn(2) == 0 {
			g.fill(b, n)
		}
		pl := n - 40
		note := "v6"
		if r.Intn(3) == 0 {
			c := []int{0, 1, n - 41, n - 39, len(b) - 41, len(b) - 40, len(b) - 39, 65495}
			pl = c[r.Intn(len(c))]
			if pl < 0 {
				pl = 0
			}
			note = "v6-len"
		}
		// payload lengths >= 65496 (finding F1) are produced only by the dedicated scenario
		binary.BigEndian.PutUint16(b[4:], uint16(pl))
		if r.Intn(12) == 0 {
			b = b[:1+r.Intn(39)]
			note = "v6-trunc"
		}
		return b, note
	}
}

// live sessions of a peer as the protocol retains them: its two newest
func (g *gen) live() []*gsess {
	var out []*gsess
	cnt := map[int]int{}
	for i := len(g.all) - 1; i >= 0; i-- {
		s := g.all[i]
		if s.unconf || s.dead {
			continue
		}
		if cnt[s.peer] < 2 {
			out = append(out, s)
		}
		cnt[s.peer]++
	}
	return out
}

func (g *gen) freshCtr(s *gsess) uint64 {
	r := g.r
	c := s.next
	switch x := r.Intn(40); {
	case x < 30:
	case x < 33:
		c += uint64(1 + r.Intn(3))
	case x < 36:
		c += []uint64{8127, 8128, 8129}[r.Intn(3)]
	case x < 38:
		c += 20000
	default: // an unused counter behind the greatest one
		if s.max > 2 {
			c = s.max - uint64(1+r.Intn(int(min64(s.max-1, 9000))))
		}
	}
	return c
}

func min64(a, b uint64) uint64 {
	if a < b {
		return a
	}
	return b
}

func (g *gen) note(s *gsess, c uint64) {
	s.used = append(s.used, c)
	if c > s.max {
		s.max = c
	}
	if c >= s.next {
		s.next = c + 1
	}
}

func (g *gen) datagram() Dg {
	r := g.r
	live := g.live()
	var dead []*gsess
	for _, s := range g.all {
		if s.dead {
			dead = append(dead, s)
		}
	}
	if len(dead) > 0 && (len(live) == 0 || r.Intn(8) == 0) { // a session from before the restart: must be refused
		s := dead[r.Intn(len(dead))]
		pl, note := g.plain(s.peer)
		c := s.next
		g.note(s, c)
		tag := s.tag
		if tag == "" {
			tag = "pre-restart"
		}
		return Dg{Sess: s.serial, IdxOf: s.serial, Ctr: c, Plain: pl, Note: tag + "/" + note}
	}
	if len(live) == 0 {
		return Dg{Raw: true, TypeWord: 4, RawLen: 31, Note: "raw"}
	}
	s := live[r.Intn(len(live))]
	pl, note := g.plain(s.peer)
	x := r.Intn(100)
	if s.ghost {
		note = "removed-peer/" + note
	}
	switch {
	case x < 62:
		c := g.freshCtr(s)
		g.note(s, c)
		return Dg{Sess: s.serial, IdxOf: s.serial, Ctr: c, Plain: pl, Note: note}
	case x < 70: // replayed counter
		c := s.used[r.Intn(len(s.used))]
		return Dg{Sess: s.serial, IdxOf: s.serial, Ctr: c, Plain: pl, Note: "replay/" + note}
	case x < 74: // behind the window or at the edge
		var c uint64
		if s.max > 8130 {
			c = s.max - []uint64{8127, 8128, 8129, 8130}[r.Intn(4)]
		}
		g.note(s, c)
		return Dg{Sess: s.serial, IdxOf: s.serial, Ctr: c, Plain: pl, Note: "window/" + note}
	case x < 80: // wrong index
		d := Dg{Sess: s.serial, Ctr: s.next, Plain: pl, Note: "index/" + note}
		switch r.Intn(4) {
		case 0:
			d.Idx = r.Uint32()
		case 1:
			d.Idx = 0
		default:
			o := g.all[r.Intn(len(g.all))] // any session ever made, also rotated-out ones
			if o.unconf {
				o = s
			}
			d.IdxOf = o.serial
			if o == s {
				g.note(s, d.Ctr)
			}
		}
		return d
	case x < 85: // sealed under another session's key
		o := g.all[r.Intn(len(g.all))]
		if o.unconf {
			o = s
		}
		d := Dg{Sess: o.serial, IdxOf: s.serial, Ctr: s.next, Plain: pl, Note: "key/" + note}
		if o == s {
			g.note(s, d.Ctr)
		}
		return d
	case x < 91:
		return Dg{Sess: s.serial, IdxOf: s.serial, Ctr: s.next, Plain: pl, Tamper: 1 + r.Intn(3), Note: "tamper/" + note}
	case x < 93: // counters around RejectAfterMessages (never accepted: at or beyond the limit)
		c := []uint64{limit, limit + 1, ^uint64(0)}[r.Intn(3)]
		return Dg{Sess: s.serial, IdxOf: s.serial, Ctr: c, Plain: pl, Note: "limit/" + note}
	default:
		tw := []uint32{0, 1, 2, 3, 5, 4 | 0x100, 0x04000000, 4}[r.Intn(8)]
		ln := []int{0, 1, 3, 4, 16, 31, 32, 33, 64, 92, 148, 200}[r.Intn(12)]
		if tw == 4 && ln >= 32 {
			ln = 31
		}
		return Dg{Raw: true, TypeWord: tw, RawLen: ln, Note: "raw"}
	}
}

func (g *gen) hs(p int) Ev {
	for _, s := range g.all {
		if s.peer == p && s.unconf {
			s.unconf, s.dead = false, true // the offer is replaced: from now on it is just a stale session
		}
	}
	g.all = append(g.all, &gsess{peer: p, serial: len(g.all) + 1, next: 1, used: []uint64{0}})
	return Ev{Kind: "hs", Peer: p}
}

func (g *gen) hsu(p int) Ev {
	for _, s := range g.all {
		if s.peer == p && s.unconf {
			s.unconf, s.dead = false, true
		}
	}
	g.all = append(g.all, &gsess{peer: p, serial: len(g.all) + 1, next: 0, unconf: true})
	return Ev{Kind: "hsu", Peer: p}
}

// the first message under an offered session confirms it; it travels alone (the rotation it causes
// would race with index lookups of later datagrams of the same batch)
func (g *gen) confirm(s *gsess) Ev {
	pl, note := g.plain(s.peer)
	c := s.next + uint64(g.r.Intn(2))
	g.note(s, c)
	s.unconf = false
	return Ev{Kind: "dg", Dgs: []Dg{{Sess: s.serial, IdxOf: s.serial, Ctr: c, Plain: pl, Note: "first-under-offered/" + note}}}
}

// cookiePhase: handshake flood under load (cookie replies), then rounds of authentic batches whose TUN write is
// held open while junk of the same sizes arrives, so that any sharing of message buffers between the receive
// slots and in-flight inbound elements shows as foreign bytes on the TUN
func (g *gen) cookiePhase(sc *Scenario) {
	r := g.r
	sc.Evs = append(sc.Evs, Ev{Kind: "flood", Flood: 150 + r.Intn(250)})
	rounds := 20 + r.Intn(15)
	for i := 0; i < rounds; i++ {
		k := 1 + r.Intn(16)
		ev := Ev{Kind: "dg", Junk: k}
		for j := 0; j < k; j++ {
			ev.Dgs = append(ev.Dgs, g.datagram())
		}
		sc.Evs = append(sc.Evs, ev)
		if i == rounds/2 {
			sc.Evs = append(sc.Evs, Ev{Kind: "flood", Flood: 60 + r.Intn(100)})
		}
	}
}

// effectiveTable: of several assignments of one prefix only the last counts
func effectiveTable(t []dpath.Entry) []dpath.Entry {
	var o []dpath.Entry
	for i, e := range t {
		shadowed := false
		for _, f := range t[i+1:] {
			if samePrefix(e, f) {
				shadowed = true
			}
		}
		if !shadowed {
			o = append(o, e)
		}
	}
	return o
}

func genScenario(r *rand.Rand, big bool, cookie bool) *Scenario {
	sc := &Scenario{Gen: "random", NPeers: 1 + r.Intn(3)}
	if r.Intn(3) == 0 {
		sc.NPeers = 2
	}
	sc.Table = dpath.GenTable(r, sc.NPeers)
	sc.BindBatch = []int{1, 2, 4, 16, 128}[r.Intn(5)]
	if cookie {
		sc.Gen = "random-cookie-load"
		sc.BindBatch = []int{4, 16, 16, 128}[r.Intn(4)]
	}
	g := &gen{r: r, sc: sc, big: big}
	g.bnd4 = dpath.Boundary(r, sc.Table, 4)
	g.bnd6 = dpath.Boundary(r, sc.Table, 6)
	for p := 0; p < sc.NPeers; p++ {
		if p == 0 || r.Intn(5) != 0 {
			sc.Evs = append(sc.Evs, g.hs(p))
		}
	}
	n := 6 + r.Intn(14)
	if cookie {
		n = 3
	}
	restarts := 0
	if r.Intn(3) == 0 {
		restarts = 1 + r.Intn(2)
		n += 5
	}
	removes := 0
	g.gone = make([]bool, sc.NPeers)
	cur := effectiveTable(sc.Table)
	reconfs := 0
	if r.Intn(3) == 0 {
		reconfs = 1 + r.Intn(3)
		n += 2 * reconfs
	}
	if sc.NPeers > 1 && r.Intn(4) == 0 {
		removes = 1
		n += 4
	}
	for i := 0; i < n; i++ {
		var pending *gsess
		for _, s := range g.all {
			if s.unconf && !s.dead {
				pending = s
			}
		}
		if pending != nil && r.Intn(2) == 0 {
			sc.Evs = append(sc.Evs, g.confirm(pending))
			continue
		}
		if pending != nil && r.Intn(3) == 0 {
			// an offered key that is confirmed late does not live longer for it: age, first use, age again,
			// and a message that arrives more than RejectAfterTime after the key was created
			p := pending.peer
			sc.Evs = append(sc.Evs, Ev{Kind: "age", Peer: p, Secs: 100}, g.confirm(pending), Ev{Kind: "age", Peer: p, Secs: 100})
			pl, note := g.plain(p)
			c := pending.next
			g.note(pending, c)
			sc.Evs = append(sc.Evs, Ev{Kind: "dg", Dgs: []Dg{{Sess: pending.serial, IdxOf: pending.serial, Ctr: c, Plain: pl, Note: "late-confirmed-key-expired/" + note}}})
			continue
		}
		if reconfs > 0 && r.Intn(5) == 0 {
			reconfs--
			secs := g.genReconf(cur, sc.NPeers > 1)
			var rm []int
			cur, rm = applySections(cur, g.gone, secs)
			sc.Evs = append(sc.Evs, Ev{Kind: "reconf", Sections: secs, NewTable: append([]dpath.Entry{}, cur...), Rm: rm})
			for _, p := range rm {
				for _, s := range g.all {
					if s.peer == p {
						s.dead, s.unconf, s.tag = true, false, "removed-peer"
					}
				}
			}
			continue
		}
		if removes > 0 && r.Intn(8) == 0 {
			removes--
			var cand []int
			for p := 0; p < sc.NPeers; p++ {
				if !g.gone[p] {
					cand = append(cand, p)
				}
			}
			if len(cand) > 1 {
				p := cand[r.Intn(len(cand))]
				g.gone[p] = true
				cur, _ = applySections(cur, make([]bool, sc.NPeers), []Section{{Who: p, Remove: true}})
				sc.Evs = append(sc.Evs, Ev{Kind: "remove", Peer: p, Via: []string{"uapi", "selfkey"}[r.Intn(2)]})
				for _, s := range g.all {
					if s.peer == p {
						s.dead, s.unconf, s.tag = true, false, "removed-peer"
					}
				}
				if r.Intn(3) != 0 { // somebody holding the old peer key tries again
					ev := g.hs(p)
					g.all[len(g.all)-1].ghost = true
					sc.Evs = append(sc.Evs, ev)
				}
				continue
			}
		}
		if restarts > 0 && r.Intn(7) == 0 {
			restarts--
			sc.Evs = append(sc.Evs, Ev{Kind: "restart"})
			for _, s := range g.all {
				s.dead = true
			}
			continue
		}
		if p := r.Intn(sc.NPeers); r.Intn(9) == 0 && !g.gone[p] {
			sc.Evs = append(sc.Evs, g.hsu(p))
			continue
		}
		switch x := r.Intn(100); {
		case x < 76:
			k := 1 + r.Intn(6)
			if r.Intn(8) == 0 {
				k = 1 + r.Intn(40)
			}
			if big && r.Intn(10) == 0 {
				k = 128 + r.Intn(20)
			}
			ev := Ev{Kind: "dg"}
			if r.Intn(10) == 0 { // the TUN refuses this step's writes; the next step shows whether anything lingers
				ev.TunFail = true
				k += 2
			}
			for j := 0; j < k; j++ {
				ev.Dgs = append(ev.Dgs, g.datagram())
			}
			sc.Evs = append(sc.Evs, ev)
		case x < 90:
			if p := r.Intn(sc.NPeers); !g.gone[p] {
				sc.Evs = append(sc.Evs, g.hs(p))
			}
		default:
			sc.Evs = append(sc.Evs, Ev{Kind: "age", Peer: r.Intn(sc.NPeers), Secs: 100})
		}
	}
	if cookie {
		g.cookiePhase(sc)
	}
	return sc
}

func v6pkt(src []byte, payloadField int, n int) []byte {
	b := make([]byte, n)
	b[0] = 0x60
	binary.BigEndian.PutUint16(b[4:], uint16(payloadField))
	b[6], b[7] = 17, 64
	copy(b[8:24], src)
	for i := 24; i < n; i++ {
		b[i] = byte(i)
	}
	return b
}

// The dedicated scenario of finding F1: authenticated IPv6 packets from an
// allowed source whose payload-length field is 65496..65535, so that adding
// the 40-byte header overflows 16 bits.  Excluded from the random generators.
func f1Scenario() *Scenario {
	src := []byte{0xfd, 0, 0, 0, 0, 0, 0, 0, 0, 0, 0, 0, 0, 0, 0, 2}
	sc := &Scenario{Gen: "f1-ipv6-payload-length-wrap", NPeers: 1, BindBatch: 1,
		Table: []dpath.Entry{{Fam: 6, Bits: []byte{0xfd, 0, 0, 0, 0, 0, 0, 0, 0, 0, 0, 0, 0, 0, 0, 0}, Len: 64, Owner: 0}}}
	sc.Evs = append(sc.Evs, Ev{Kind: "hs", Peer: 0})
	c := uint64(1)
	for _, pl := range []int{65495, 65500, 65496, 65535, 8} {
		sc.Evs = append(sc.Evs, Ev{Kind: "dg", Dgs: []Dg{{Sess: 1, IdxOf: 1, Ctr: c, Plain: v6pkt(src, pl, 48), Note: fmt.Sprintf("v6-payload-%d", pl)}}})
		c++
	}
	return sc
}

// directed scenarios: every rejection branch once, rotation of sessions, cross-peer source
func directed() []*Scenario {
	var out []*Scenario
	a := []byte{10, 1, 0, 0}
	b := []byte{10, 1, 2, 0}
	tbl := []dpath.Entry{{Fam: 4, Bits: a, Len: 16, Owner: 0}, {Fam: 4, Bits: b, Len: 24, Owner: 1},
		{Fam: 6, Bits: []byte{0xfd, 1, 0, 0, 0, 0, 0, 0, 0, 0, 0, 0, 0, 0, 0, 0}, Len: 64, Owner: 0}}
	v4 := func(src [4]byte, n int) []byte { return ref.IPv4(src, [4]byte{10, 9, 9, 9}, n, 3) }
	sc := &Scenario{Gen: "directed-branches", NPeers: 2, BindBatch: 4, Table: tbl}
	sc.Evs = []Ev{{Kind: "hs", Peer: 0}, {Kind: "hs", Peer: 1},
		{Kind: "dg", Dgs: []Dg{
			{Sess: 1, IdxOf: 1, Ctr: 1, Plain: ref.Pad(v4([4]byte{10, 1, 1, 1}, 61))}, // written, padding stripped
			{Sess: 1, IdxOf: 1, Ctr: 1, Plain: ref.Pad(v4([4]byte{10, 1, 1, 1}, 61))}, // replay
			{Sess: 1, IdxOf: 1, Ctr: 2, Plain: ref.Pad(v4([4]byte{10, 1, 2, 1}, 40))}, // source belongs to peer 1 (longer prefix)
			{Sess: 2, IdxOf: 2, Ctr: 1, Plain: ref.Pad(v4([4]byte{10, 1, 2, 1}, 40))}, // same packet through peer 1's session: written
			{Sess: 2, IdxOf: 2, Ctr: 2, Plain: ref.Pad(v4([4]byte{10, 1, 1, 1}, 40))}, // peer 1 carrying peer 0's source
			{Sess: 1, IdxOf: 2, Ctr: 3, Plain: ref.Pad(v4([4]byte{10, 1, 1, 1}, 40))}, // peer 0's key under peer 1's index
			{Sess: 1, IdxOf: 1, Ctr: 3, Plain: []byte{}},                              // keepalive
			{Sess: 1, IdxOf: 1, Ctr: 4, Tamper: 1, Plain: ref.Pad(v4([4]byte{10, 1, 1, 1}, 40))},
			{Sess: 1, Idx: 12345, Ctr: 4, Plain: ref.Pad(v4([4]byte{10, 1, 1, 1}, 40))},
			{Raw: true, TypeWord: 4, RawLen: 31}, {Raw: true, TypeWord: 4 | 0x100, RawLen: 64}, {Raw: true, TypeWord: 7, RawLen: 64},
		}},
		{Kind: "hs", Peer: 0}, // session 3: session 1 becomes previous
		{Kind: "dg", Dgs: []Dg{
			{Sess: 1, IdxOf: 1, Ctr: 10, Plain: ref.Pad(v4([4]byte{10, 1, 1, 1}, 30))}, // previous key still live
			{Sess: 3, IdxOf: 3, Ctr: 1, Plain: ref.Pad(v4([4]byte{10, 1, 1, 1}, 31))}}},
		{Kind: "hs", Peer: 0}, // session 4: session 1 is gone
		{Kind: "dg", Dgs: []Dg{
			{Sess: 1, IdxOf: 1, Ctr: 11, Plain: ref.Pad(v4([4]byte{10, 1, 1, 1}, 30))},
			{Sess: 3, IdxOf: 3, Ctr: 2, Plain: ref.Pad(v4([4]byte{10, 1, 1, 1}, 32))},
			{Sess: 4, IdxOf: 4, Ctr: 1, Plain: ref.Pad(v4([4]byte{10, 1, 1, 1}, 33))}}},
		{Kind: "age", Peer: 0, Secs: 100},
		{Kind: "dg", Dgs: []Dg{{Sess: 4, IdxOf: 4, Ctr: 2, Plain: ref.Pad(v4([4]byte{10, 1, 1, 1}, 34))}}},
		{Kind: "age", Peer: 0, Secs: 100},
		{Kind: "dg", Dgs: []Dg{{Sess: 4, IdxOf: 4, Ctr: 3, Plain: ref.Pad(v4([4]byte{10, 1, 1, 1}, 35))}, // expired
			{Sess: 2, IdxOf: 2, Ctr: 3, Plain: ref.Pad(v4([4]byte{10, 1, 2, 9}, 36))}}}, // peer 1 unaffected
	}
	out = append(out, sc)
	// length-field boundaries, both families, one peer owning everything
	all := []dpath.Entry{{Fam: 4, Bits: []byte{0, 0, 0, 0}, Len: 0, Owner: 0}, {Fam: 6, Bits: make([]byte, 16), Len: 0, Owner: 0}}
	sc2 := &Scenario{Gen: "directed-lengths", NPeers: 1, BindBatch: 16, Table: all}
	sc2.Evs = []Ev{{Kind: "hs", Peer: 0}}
	c := uint64(1)
	ev := Ev{Kind: "dg"}
	for _, n := range []int{20, 21, 48} {
		for _, tl := range []int{0, 19, 20, 21, n - 1, n, n + 1, 65535} {
			p := ref.IPv4([4]byte{1, 2, 3, 4}, [4]byte{5, 6, 7, 8}, n, 1)
			binary.BigEndian.PutUint16(p[2:], uint16(tl))
			ev.Dgs = append(ev.Dgs, Dg{Sess: 1, IdxOf: 1, Ctr: c, Plain: p, Note: "v4-len"})
			c++
		}
	}
	for _, n := range []int{40, 41, 64} {
		for _, pl := range []int{0, 1, n - 41, n - 40, n - 39, 65495} {
			if pl < 0 {
				continue
			}
			ev.Dgs = append(ev.Dgs, Dg{Sess: 1, IdxOf: 1, Ctr: c, Plain: v6pkt(make([]byte, 16), pl, n), Note: "v6-len"})
			c++
		}
	}
	for _, tl := range []int{device.MaxContentSize, device.MaxContentSize - 1} { // largest possible plaintext
		p := ref.IPv4([4]byte{1, 2, 3, 4}, [4]byte{5, 6, 7, 8}, device.MaxContentSize, 1)
		binary.BigEndian.PutUint16(p[2:], uint16(tl))
		ev.Dgs = append(ev.Dgs, Dg{Sess: 1, IdxOf: 1, Ctr: c, Plain: p, Note: "v4-max"})
		c++
	}
	for v := 0; v < 16; v++ {
		p := ref.IPv4([4]byte{1, 2, 3, 4}, [4]byte{5, 6, 7, 8}, 64, 1)
		p[0] = byte(v<<4) | 5
		binary.BigEndian.PutUint16(p[4:], 24) // also a sane IPv6 payload length
		ev.Dgs = append(ev.Dgs, Dg{Sess: 1, IdxOf: 1, Ctr: c, Plain: p, Note: "nibble"})
		c++
	}
	for n := 1; n < 40; n += 3 {
		p := make([]byte, n)
		p[0] = 0x45
		if n%2 == 0 {
			p[0] = 0x60
		}
		ev.Dgs = append(ev.Dgs, Dg{Sess: 1, IdxOf: 1, Ctr: c, Plain: p, Note: "trunc"})
		c++
	}
	sc2.Evs = append(sc2.Evs, ev)
	out = append(out, sc2)
	// IPv4-mapped IPv6 sources: peer 0 owns 1.0.0.0/24 (IPv4 only).  ::ffff:1.0.0.1 is an IPv6 address and only the
	// IPv6 table speaks about it: (i) nothing covers it, (ii) the /96 and the /128 belong to peer 1, (iii) ::/0 belongs to peer 2
	m := func(v4 ...byte) []byte { return append([]byte{0, 0, 0, 0, 0, 0, 0, 0, 0, 0, 0xff, 0xff}, v4...) }
	v6tables := [][]dpath.Entry{
		{},
		{{Fam: 6, Bits: m(0, 0, 0, 0), Len: 96, Owner: 1}, {Fam: 6, Bits: m(1, 0, 0, 1), Len: 128, Owner: 1}},
		{{Fam: 6, Bits: make([]byte, 16), Len: 0, Owner: 2}},
		{{Fam: 6, Bits: m(0, 0, 0, 0), Len: 96, Owner: 1}, {Fam: 6, Bits: make([]byte, 16), Len: 0, Owner: 2}},
	}
	for vi, extra := range v6tables {
		t := append([]dpath.Entry{{Fam: 4, Bits: []byte{1, 0, 0, 0}, Len: 24, Owner: 0}, {Fam: 4, Bits: []byte{2, 0, 0, 0}, Len: 24, Owner: 1}}, extra...)
		// configuration order is peer by peer
		var tt []dpath.Entry
		for p := 0; p < 3; p++ {
			for _, e := range t {
				if e.Owner == p {
					tt = append(tt, e)
				}
			}
		}
		scm := &Scenario{Gen: fmt.Sprintf("directed-v4-mapped-%d", vi), NPeers: 3, BindBatch: 4, Table: tt}
		scm.Evs = []Ev{{Kind: "hs", Peer: 0}, {Kind: "hs", Peer: 1}, {Kind: "hs", Peer: 2}}
		srcs := [][]byte{m(1, 0, 0, 1), m(1, 0, 0, 255), m(2, 0, 0, 1), append(make([]byte, 12), 1, 0, 0, 1), make([]byte, 16), m(255, 255, 255, 255),
			{0xff, 0xff, 0xff, 0xff, 0xff, 0xff, 0xff, 0xff, 0xff, 0xff, 0xff, 0xff, 0xff, 0xff, 0xff, 0xff}}
		ctr := []uint64{1, 1, 1}
		for _, src := range srcs {
			ev := Ev{Kind: "dg"}
			for p := 0; p < 3; p++ {
				ev.Dgs = append(ev.Dgs, Dg{Sess: p + 1, IdxOf: p + 1, Ctr: ctr[p], Plain: ref.Pad(v6pkt(src, 21, 61)), Note: "v6-mapped-src"})
				ctr[p]++
			}
			scm.Evs = append(scm.Evs, ev)
		}
		ev := Ev{Kind: "dg"} // the IPv4 addresses themselves, for contrast
		for p := 0; p < 3; p++ {
			ev.Dgs = append(ev.Dgs, Dg{Sess: p + 1, IdxOf: p + 1, Ctr: ctr[p], Plain: ref.Pad(v4([4]byte{1, 0, 0, 1}, 40))},
				Dg{Sess: p + 1, IdxOf: p + 1, Ctr: ctr[p] + 1, Plain: ref.Pad(v4([4]byte{2, 0, 0, 1}, 41))})
		}
		scm.Evs = append(scm.Evs, ev)
		out = append(out, scm)
	}
	// a removed peer: by UAPI, and by giving the device the peer's own private key.  Its sessions end, its allowed-IPs
	// leave the table, and whoever holds its key can no longer handshake
	for _, via := range []string{"selfkey", "uapi"} {
		scr := &Scenario{Gen: "directed-remove-" + via, NPeers: 2, BindBatch: 4, Table: tbl}
		scr.Evs = []Ev{{Kind: "hs", Peer: 0}, {Kind: "hs", Peer: 1},
			{Kind: "dg", Dgs: []Dg{{Sess: 1, IdxOf: 1, Ctr: 1, Plain: ref.Pad(v4([4]byte{10, 1, 1, 1}, 40))}, {Sess: 2, IdxOf: 2, Ctr: 1, Plain: ref.Pad(v4([4]byte{10, 1, 2, 1}, 41))}}},
			{Kind: "remove", Peer: 0, Via: via},
			{Kind: "dg", Dgs: []Dg{{Sess: 1, IdxOf: 1, Ctr: 2, Plain: ref.Pad(v4([4]byte{10, 1, 1, 1}, 42)), Note: "removed-peer/old-session"},
				{Sess: 2, IdxOf: 2, Ctr: 2, Plain: ref.Pad(v4([4]byte{10, 1, 2, 1}, 43))},
				{Sess: 2, IdxOf: 2, Ctr: 3, Plain: ref.Pad(v4([4]byte{10, 1, 1, 1}, 44)), Note: "source-of-removed-peer"}}},
			{Kind: "hs", Peer: 0}, // serial 3: must fail
			{Kind: "dg", Dgs: []Dg{{Sess: 3, IdxOf: 3, Ctr: 1, Plain: ref.Pad(v4([4]byte{10, 1, 1, 1}, 45)), Note: "removed-peer/new-handshake"}}},
			{Kind: "hs", Peer: 1}, // serial 4: the remaining peer handshakes against the (possibly new) device identity
			{Kind: "dg", Dgs: []Dg{{Sess: 4, IdxOf: 4, Ctr: 1, Plain: ref.Pad(v4([4]byte{10, 1, 2, 1}, 46))},
				{Sess: 3, IdxOf: 3, Ctr: 2, Plain: ref.Pad(v4([4]byte{10, 1, 1, 1}, 47)), Note: "removed-peer/new-handshake"}}},
		}
		out = append(out, scr)
	}
	// configuration texts: placeholders before real sections, replace by the empty set, moves
	e4 := func(a, b2, c, d byte, l, o int) dpath.Entry {
		return dpath.Entry{Fam: 4, Bits: []byte{a, b2, c, d}, Len: l, Owner: o}
	}
	t3 := []dpath.Entry{e4(10, 1, 0, 0, 16, 0), e4(10, 2, 0, 0, 16, 1), e4(10, 3, 0, 0, 16, 2)}
	from := func(s int, a, b2 byte, n int, c uint64) Dg {
		return Dg{Sess: s, IdxOf: s, Ctr: c, Plain: ref.Pad(v4([4]byte{a, b2, 1, 1}, n))}
	}
	scc := &Scenario{Gen: "directed-config-text", NPeers: 3, BindBatch: 4, Table: t3}
	secsA := []Section{{Who: -1, Extra: true, Replace: true, Adds: []dpath.Entry{e4(10, 9, 0, 0, 16, 0)}}, {Who: 0, Replace: true}, {Who: 1, Adds: []dpath.Entry{e4(10, 1, 0, 0, 16, 1)}}}
	tA, _ := applySections(t3, make([]bool, 3), secsA)
	secsB := []Section{{Who: -2, UpdateOnly: true, Adds: []dpath.Entry{e4(10, 8, 0, 0, 16, 0)}}, {Who: 2, Remove: true}, {Who: 1, Replace: true, Adds: []dpath.Entry{e4(10, 2, 7, 0, 24, 1)}}}
	goneB := make([]bool, 3)
	tB, rmB := applySections(tA, goneB, secsB)
	scc.Evs = []Ev{{Kind: "hs", Peer: 0}, {Kind: "hs", Peer: 1}, {Kind: "hs", Peer: 2},
		{Kind: "dg", Dgs: []Dg{from(1, 10, 1, 40, 1), from(2, 10, 2, 41, 1), from(3, 10, 3, 42, 1)}},
		{Kind: "reconf", Sections: secsA, NewTable: tA},
		{Kind: "dg", Dgs: []Dg{from(1, 10, 1, 43, 2), from(2, 10, 1, 44, 2), from(2, 10, 2, 45, 3), from(1, 10, 9, 46, 3), from(3, 10, 3, 47, 2)}},
		{Kind: "reconf", Sections: secsB, NewTable: tB, Rm: rmB},
		{Kind: "dg", Dgs: []Dg{from(3, 10, 3, 48, 3), from(2, 10, 2, 49, 4), {Sess: 2, IdxOf: 2, Ctr: 5, Plain: ref.Pad(v4([4]byte{10, 2, 7, 1}, 50))}, from(2, 10, 1, 51, 6), from(1, 10, 8, 52, 4)}},
	}
	for _, s := range scc.Evs[7].Dgs[:1] {
		_ = s
	}
	scc.Evs[7].Dgs[0].Note = "removed-peer/old-session"
	out = append(out, scc)
	// tun.Write fails for one step: the packets are lost, nothing of them may appear with the next batch
	pk2 := func(n int) []byte { return ref.Pad(v4([4]byte{10, 1, 1, 1}, n)) }
	sct := &Scenario{Gen: "directed-tun-write-error", NPeers: 2, BindBatch: 4, Table: tbl}
	sct.Evs = []Ev{{Kind: "hs", Peer: 0}, {Kind: "hs", Peer: 1},
		{Kind: "dg", Dgs: []Dg{{Sess: 1, IdxOf: 1, Ctr: 1, Plain: pk2(30)}}},
		{Kind: "dg", TunFail: true, Dgs: []Dg{{Sess: 1, IdxOf: 1, Ctr: 2, Plain: pk2(31), Note: "lost-by-tun-error"}, {Sess: 1, IdxOf: 1, Ctr: 3, Plain: pk2(32), Note: "lost-by-tun-error"},
			{Sess: 2, IdxOf: 2, Ctr: 1, Plain: ref.Pad(v4([4]byte{10, 1, 2, 1}, 33)), Note: "lost-by-tun-error"}}},
		{Kind: "dg", Dgs: []Dg{{Sess: 1, IdxOf: 1, Ctr: 4, Plain: pk2(34)}}},
		{Kind: "dg", Dgs: []Dg{{Sess: 2, IdxOf: 2, Ctr: 2, Plain: ref.Pad(v4([4]byte{10, 1, 2, 1}, 35))}, {Sess: 1, IdxOf: 1, Ctr: 2, Plain: pk2(31), Note: "replay"}}},
		{Kind: "dg", TunFail: true, Dgs: []Dg{{Sess: 1, IdxOf: 1, Ctr: 5, Plain: pk2(36), Note: "lost-by-tun-error"}, {Sess: 1, IdxOf: 1, Ctr: 6, Plain: pk2(37), Note: "lost-by-tun-error"}}},
		{Kind: "dg", Dgs: []Dg{{Sess: 1, IdxOf: 1, Ctr: 7, Plain: pk2(38)}, {Sess: 1, IdxOf: 1, Ctr: 8, Plain: pk2(39)}}},
	}
	out = append(out, sct)
	// an offered key confirmed late: the clock of a keypair starts when it is created, not when it is first used
	scl := &Scenario{Gen: "directed-late-confirmation", NPeers: 1, BindBatch: 1, Table: tbl[:1]}
	scl.Evs = []Ev{{Kind: "hs", Peer: 0}, {Kind: "hsu", Peer: 0}, {Kind: "age", Peer: 0, Secs: 100},
		{Kind: "dg", Dgs: []Dg{{Sess: 2, IdxOf: 2, Ctr: 0, Plain: ref.Pad(v4([4]byte{10, 1, 1, 1}, 40)), Note: "first-under-offered"}}},
		{Kind: "dg", Dgs: []Dg{{Sess: 2, IdxOf: 2, Ctr: 1, Plain: ref.Pad(v4([4]byte{10, 1, 1, 1}, 41))}}},
		{Kind: "age", Peer: 0, Secs: 100},
		{Kind: "dg", Dgs: []Dg{{Sess: 2, IdxOf: 2, Ctr: 2, Plain: ref.Pad(v4([4]byte{10, 1, 1, 1}, 42)), Note: "late-confirmed-key-expired"}}},
	}
	out = append(out, scl)
	// restart of the interface at every stage of a handshake: previous, current and an offered (unconfirmed) key
	// all end with Down; nothing under them is delivered after Up until a new handshake
	pk := func(n int) []byte { return ref.Pad(v4([4]byte{10, 1, 1, 1}, n)) }
	sc4 := &Scenario{Gen: "directed-restart", NPeers: 2, BindBatch: 4, Table: tbl}
	sc4.Evs = []Ev{{Kind: "hs", Peer: 0}, {Kind: "hs", Peer: 0}, // 1 previous, 2 current
		{Kind: "dg", Dgs: []Dg{{Sess: 1, IdxOf: 1, Ctr: 1, Plain: pk(30)}, {Sess: 2, IdxOf: 2, Ctr: 1, Plain: pk(31)}}},
		{Kind: "hsu", Peer: 0}, // 3 offered: previous (1) is dropped at once
		{Kind: "dg", Dgs: []Dg{{Sess: 1, IdxOf: 1, Ctr: 2, Plain: pk(32), Note: "dropped-by-new-offer"}, {Sess: 2, IdxOf: 2, Ctr: 2, Plain: pk(33)}}},
		{Kind: "dg", Dgs: []Dg{{Sess: 3, IdxOf: 3, Ctr: 0, Plain: pk(34), Note: "first-under-offered"}}}, // 3 current, 2 previous
		{Kind: "dg", Dgs: []Dg{{Sess: 2, IdxOf: 2, Ctr: 3, Plain: pk(35)}, {Sess: 3, IdxOf: 3, Ctr: 1, Plain: pk(36)}}},
		{Kind: "hsu", Peer: 0}, // 4 offered; 2 dropped
		{Kind: "hs", Peer: 1},  // 5
		{Kind: "restart"},
		{Kind: "dg", Dgs: []Dg{{Sess: 2, IdxOf: 2, Ctr: 4, Plain: pk(37), Note: "pre-restart"}, {Sess: 3, IdxOf: 3, Ctr: 2, Plain: pk(38), Note: "pre-restart"},
			{Sess: 4, IdxOf: 4, Ctr: 0, Plain: pk(39), Note: "pre-restart-offered"}, {Sess: 5, IdxOf: 5, Ctr: 1, Plain: ref.Pad(v4([4]byte{10, 1, 2, 1}, 40)), Note: "pre-restart"}}},
		{Kind: "hs", Peer: 0}, // 6
		{Kind: "dg", Dgs: []Dg{{Sess: 4, IdxOf: 4, Ctr: 1, Plain: pk(41), Note: "pre-restart-offered"}, {Sess: 6, IdxOf: 6, Ctr: 1, Plain: pk(42)}}},
		{Kind: "hsu", Peer: 1}, // 7 offered
		{Kind: "restart"},
		{Kind: "dg", Dgs: []Dg{{Sess: 7, IdxOf: 7, Ctr: 0, Plain: ref.Pad(v4([4]byte{10, 1, 2, 1}, 43)), Note: "pre-restart-offered"}}},
		{Kind: "dg", Dgs: []Dg{{Sess: 6, IdxOf: 6, Ctr: 2, Plain: pk(44), Note: "pre-restart"}}},
	}
	out = append(out, sc4)
	// "live session key" at ARRIVAL time: the key is 179 s old when the socket goes idle, the control datagram
	// right after the shift is accepted (age ~179.0 s), then 2 s of silence carry the key across RejectAfterTime,
	// and the first datagram after the gap must be refused (age ~181 s) although the receive routine went to sleep
	// while the key was live.  The other peer's fresh key is the second control.  Runs in a process of its own.
	sc3 := &Scenario{Gen: "directed-expiry-after-idle", NPeers: 2, BindBatch: 1, Table: tbl, Solo: true}
	sc3.Evs = []Ev{{Kind: "hs", Peer: 0}, {Kind: "hs", Peer: 1},
		{Kind: "dg", Dgs: []Dg{{Sess: 1, IdxOf: 1, Ctr: 1, Plain: ref.Pad(v4([4]byte{10, 1, 1, 1}, 40))}}},
		{Kind: "age", Peer: 0, Secs: 179},
		{Kind: "dg", MaxLateMs: 300, Dgs: []Dg{{Sess: 1, IdxOf: 1, Ctr: 2, Plain: ref.Pad(v4([4]byte{10, 1, 1, 1}, 41)), Note: "just-before-expiry"}}},
		{Kind: "idle", Ms: 2000},
		{Kind: "dg", Dgs: []Dg{{Sess: 1, IdxOf: 1, Ctr: 3, Plain: ref.Pad(v4([4]byte{10, 1, 1, 1}, 42)), Note: "after-idle-across-expiry"}}},
		{Kind: "dg", Dgs: []Dg{{Sess: 2, IdxOf: 2, Ctr: 1, Plain: ref.Pad(v4([4]byte{10, 1, 2, 1}, 43)), Note: "other-peer-fresh-key"},
			{Sess: 1, IdxOf: 1, Ctr: 4, Plain: ref.Pad(v4([4]byte{10, 1, 1, 1}, 44)), Note: "expired-again"}}},
	}
	out = append(out, sc3)
	return out
}

// ---------------------------------------------------------------- output

func gallina(sc *Scenario) string {
	if sc.Kind == "crashed" {
		return "Crashed"
	}
	var b strings.Builder
	partial := 0
	if sc.Partial {
		partial = 1
	}
	fmt.Fprintf(&b, "Scenario [%d;%d;%d] %s %d [", ipv4.HeaderLen, ipv6.HeaderLen, partial, dpath.TableGallina(sc.Table), sc.NPeers)
	for i, ev := range sc.Evs {
		if i > 0 {
			b.WriteString(";\n ")
		}
		switch ev.Kind {
		case "hs":
			fmt.Fprintf(&b, "RHs %d %d %d", ev.Peer, ev.DevIdx, ev.Serial)
		case "hsu":
			fmt.Fprintf(&b, "RHsu %d %d %d", ev.Peer, ev.DevIdx, ev.Serial)
		case "restart":
			b.WriteString("RRestart")
		case "remove":
			fmt.Fprintf(&b, "RRemove %d", ev.Peer)
		case "reconf":
			fmt.Fprintf(&b, "RReconf %s [", dpath.TableGallina(ev.NewTable))
			for j, p := range ev.Rm {
				if j > 0 {
					b.WriteString(";")
				}
				fmt.Fprintf(&b, "%d", p)
			}
			b.WriteString("]")
		case "age":
			fmt.Fprintf(&b, "RAge %d %d", ev.Peer, ev.Secs*1000+ev.Ms)
		case "idle": // every keypair of every peer grows older
			for p := 0; p < sc.NPeers; p++ {
				if p > 0 {
					b.WriteString(";")
				}
				fmt.Fprintf(&b, "RAge %d %d", p, ev.Ms)
			}
		case "dg":
			if ev.TunFail {
				b.WriteString("RDgFail [")
			} else {
				b.WriteString("RDg [")
			}
			for j, d := range ev.Dgs {
				if j > 0 {
					b.WriteString(";")
				}
				if d.Raw {
					fmt.Fprintf(&b, "RRaw %d %d", d.TypeWord, d.RawLen)
				} else {
					t := 0
					if d.Tamper != 0 {
						t = 1
					}
					fmt.Fprintf(&b, "RTr [%d;%d;%d;%d;%d;%d] %s", d.UsedIdx, d.Sess, t, d.Ctr>>32, d.Ctr&0xffffffff, len(d.Plain), dpath.Ints(d.Plain))
				}
			}
			for j := 0; j < ev.JunkSent; j++ { // what arrived while the TUN write was held open: not WireGuard at all
				if j > 0 || len(ev.Dgs) > 0 {
					b.WriteString(";")
				}
				b.WriteString("RRaw 238 64")
			}
			b.WriteString("]")
		case "flood": // initiations that are answered with cookie replies: nothing for the data path
			b.WriteString("RDg [")
			for j := 0; j < ev.Flood; j++ {
				if j > 0 {
					b.WriteString(";")
				}
				b.WriteString("RRaw 1 148")
			}
			b.WriteString("]")
		}
	}
	b.WriteString("]\n [")
	for i, ev := range sc.Evs {
		if i > 0 {
			b.WriteString(";\n ")
		}
		b.WriteString("([")
		for j, wr := range ev.Writes {
			if j > 0 {
				b.WriteString(";")
			}
			b.WriteString(dpath.Packed(wr))
		}
		b.WriteString("],[")
		for j, x := range ev.Rx {
			if j > 0 {
				b.WriteString(";")
			}
			fmt.Fprintf(&b, "%d", x)
		}
		b.WriteString("])")
		if ev.Kind == "idle" { // the expansion above: one (empty) observation per further RAge
			for p := 1; p < sc.NPeers; p++ {
				b.WriteString(";([],[")
				for j := range ev.Rx {
					if j > 0 {
						b.WriteString(";")
					}
					b.WriteString("0")
				}
				b.WriteString("])")
			}
		}
	}
	b.WriteString("]")
	return b.String()
}

const imports = "From WG Require Import Base.Prelude Inbound.Check."

type job struct {
	name string
	solo bool
	run  func() *Scenario
}

var churnMs = 1500

func buildJobs(seed int64, n int, big bool, corpus, replayIn string) []job {
	var jobs []job
	fixedJob := func(sc *Scenario) job {
		return job{sc.Gen, sc.Solo, func() *Scenario {
			if strings.HasPrefix(sc.Gen, "churn-") {
				runChurn(sc)
				return sc
			}
			run(sc)
			if sc.Discarded != "" && !poisoned && replayIn == "" {
				run(sc) // one retry: a step that did not settle is a harness matter, not a verdict
			}
			return sc
		}}
	}
	if replayIn != "" {
		data, err := os.ReadFile(replayIn)
		if err != nil {
			panic(err)
		}
		var scs []*Scenario
		if err := json.Unmarshal(data, &scs); err != nil {
			panic(err)
		}
		for _, sc := range scs {
			jobs = append(jobs, fixedJob(sc))
		}
		return jobs
	}
	if corpus != "" {
		files, _ := filepath.Glob(filepath.Join(corpus, "*.json"))
		for _, f := range files {
			data, err := os.ReadFile(f)
			if err != nil {
				continue
			}
			var cs []*Scenario
			if json.Unmarshal(data, &cs) == nil {
				for _, c := range cs {
					c.Gen = "corpus/" + filepath.Base(f)
					jobs = append(jobs, fixedJob(c))
				}
			}
		}
	}
	jobs = append(jobs, fixedJob(f1Scenario()))
	jobs = append(jobs, fixedJob(churnScenario(4, churnMs)), fixedJob(churnScenario(6, churnMs)), fixedJob(churnScenario(4, churnMs)), fixedJob(churnScenario(6, churnMs)))
	for _, sc := range directed() {
		jobs = append(jobs, fixedJob(sc))
	}
	master := rand.New(rand.NewSource(seed)) // ONE PRNG: it deals a seed to every random scenario
	for i := 0; i < n; i++ {
		s := master.Int63()
		cookie := i < 4 || i%12 == 5 // a few scenarios of every run put the device under handshake load
		jobs = append(jobs, job{"random", false, func() *Scenario {
			sc := genScenario(rand.New(rand.NewSource(s)), big, cookie)
			run(sc)
			if sc.Discarded != "" && !poisoned {
				run(sc)
			}
			return sc
		}})
	}
	return jobs
}

func main() {
	seed := flag.Int64("seed", 1, "PRNG seed")
	n := flag.Int("n", 170, "number of random scenarios")
	shards := flag.Int("shards", 16, "case files")
	out := flag.String("out", "out/C02", "output directory")
	replayIn := flag.String("replay", "", "JSON file with scenarios (inputs) to re-run")
	corpus := flag.String("corpus", "", "directory of corpus JSON scenarios to run first")
	big := flag.Bool("big", false, "thorough tier: larger batches")
	child := flag.String("child", "", "internal: run jobs lo:hi")
	childOut := flag.String("childout", "", "internal: result file of a child")
	flag.Parse()
	if err := os.MkdirAll(*out, 0o755); err != nil {
		panic(err)
	}
	jobs := buildJobs(*seed, *n, *big, *corpus, *replayIn)
	if *child != "" {
		lo, hi := dpath.ChildRange(*child)
		var results []json.RawMessage
		for i := lo; i < hi && i < len(jobs); i++ {
			sc := jobs[i].run()
			data, _ := json.Marshal(sc)
			results = append(results, data)
			dpath.ChildWrite(*childOut, results)
			if poisoned {
				os.Exit(dpath.ExitPoisoned)
			}
		}
		return
	}
	solo := map[int]bool{}
	for i, j := range jobs {
		if j.solo {
			solo[i] = true
		}
	}
	raw, crash := dpath.RunChildren(len(jobs), 12, 6, solo, os.Args[1:], *out, 20*time.Second)
	discarded, crashed := 0, 0
	var kept []*Scenario
	for i := range jobs {
		if raw[i] == nil {
			crashed++
			fmt.Fprintln(os.Stderr, "crashed:", jobs[i].name, crash[i])
			kept = append(kept, &Scenario{Kind: "crashed", Gen: jobs[i].name, Crash: crash[i]})
			continue
		}
		sc := &Scenario{}
		if err := json.Unmarshal(raw[i], sc); err != nil {
			panic(err)
		}
		if sc.Discarded != "" {
			discarded++
			fmt.Fprintln(os.Stderr, "discarded:", sc.Gen, sc.Discarded)
			if *replayIn == "" {
				continue
			}
		}
		kept = append(kept, sc)
	}
	if *replayIn != "" {
		*shards = 1
	}
	if *shards > len(kept) {
		*shards = len(kept)
	}
	if *shards < 1 {
		*shards = 1
	}
	type shardInfo struct {
		File  string `json:"file"`
		First int    `json:"first"`
		N     int    `json:"n"`
	}
	var infos []shardInfo
	per := (len(kept) + *shards - 1) / *shards
	for s, idx := 0, 0; s < *shards && idx < len(kept); s++ {
		end := idx + per
		if end > len(kept) {
			end = len(kept)
		}
		var cs []string
		for _, sc := range kept[idx:end] {
			cs = append(cs, gallina(sc))
		}
		name := fmt.Sprintf("cases_C02_%d.v", s)
		if err := dpath.WriteShard(filepath.Join(*out, name), imports, cs); err != nil {
			panic(err)
		}
		infos = append(infos, shardInfo{name, idx, end - idx})
		idx = end
	}
	meta := map[string]any{"seed": *seed, "cases": kept, "shards": infos, "discarded": discarded, "crashed": crashed}
	data, _ := json.Marshal(meta)
	if err := os.WriteFile(filepath.Join(*out, "cases.json"), data, 0o644); err != nil {
		panic(err)
	}
}
