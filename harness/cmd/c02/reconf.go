package main

// The configuration TEXT as a dimension: UAPI set operations with several
// peer sections in varying order — sections that end as placeholders (the
// device's own key, update_only on an unknown key, remove=true) before real
// ones, replace_allowed_ips with and without allowed_ip lines after it,
// additions that move a prefix between peers, removals of single prefixes.
// The generator interprets each text by the documented semantics (section by
// section, line by line) and hands the model and the specification the
// INTENDED result: the allowed-IPs table and the set of removed peers.

import (
	"fmt"
	"math/rand"
	"strings"

	"wgv/dpath"
)

type Section struct {
	Who        int           `json:"who"` // peer index; -1 = the device's own public key; -2 = a key nobody has
	UpdateOnly bool          `json:"update_only,omitempty"`
	Remove     bool          `json:"remove,omitempty"`
	Replace    bool          `json:"replace,omitempty"`
	Adds       []dpath.Entry `json:"adds,omitempty"`
	Dels       []dpath.Entry `json:"dels,omitempty"`
	Extra      bool          `json:"extra,omitempty"` // endpoint / keepalive lines (own-key and unknown sections only: must be ignored)
}

func samePrefix(a, b dpath.Entry) bool {
	return a.Fam == b.Fam && a.Len == b.Len && string(dpath.Mask(a.Bits, a.Len)) == string(dpath.Mask(b.Bits, b.Len))
}

// applySections is the intended meaning of a set operation made of these peer sections.
func applySections(tbl []dpath.Entry, gone []bool, secs []Section) ([]dpath.Entry, []int) {
	cur := append([]dpath.Entry{}, tbl...)
	var rm []int
	drop := func(keep func(e dpath.Entry) bool) {
		var o []dpath.Entry
		for _, e := range cur {
			if keep(e) {
				o = append(o, e)
			}
		}
		cur = o
	}
	for _, s := range secs {
		if s.Who < 0 || gone[s.Who] {
			continue // the device never has itself as a peer; update_only never creates one
		}
		p := s.Who
		if s.Remove {
			drop(func(e dpath.Entry) bool { return e.Owner != p })
			rm = append(rm, p)
			gone[p] = true
			continue // the rest of the section addresses a peer that is gone
		}
		if s.Replace {
			drop(func(e dpath.Entry) bool { return e.Owner != p })
		}
		for _, a := range s.Adds {
			drop(func(e dpath.Entry) bool { return !samePrefix(e, a) })
			a.Owner = p
			cur = append(cur, a)
		}
		for _, d := range s.Dels {
			drop(func(e dpath.Entry) bool { return !(samePrefix(e, d) && e.Owner == p) })
		}
	}
	return cur, rm
}

// renderSections writes the UAPI text; keys are only known at run time.
func renderSections(secs []Section, pub func(who int) string) string {
	var b strings.Builder
	for _, s := range secs {
		fmt.Fprintf(&b, "public_key=%s\n", pub(s.Who))
		if s.UpdateOnly {
			b.WriteString("update_only=true\n")
		}
		if s.Remove {
			b.WriteString("remove=true\n")
		}
		if s.Extra {
			b.WriteString("endpoint=203.0.113.9:999\npersistent_keepalive_interval=0\n")
		}
		if s.Replace {
			b.WriteString("replace_allowed_ips=true\n")
		}
		for _, a := range s.Adds {
			fmt.Fprintf(&b, "allowed_ip=%s\n", a.CIDR())
		}
		for _, d := range s.Dels {
			fmt.Fprintf(&b, "allowed_ip=-%s\n", d.CIDR())
		}
	}
	return b.String()
}

// genReconf draws 2-4 sections over the current intended table.
func (g *gen) genReconf(cur []dpath.Entry, allowRemove bool) []Section {
	r := g.r
	np := g.sc.NPeers
	var live []int
	for p := 0; p < np; p++ {
		if !g.gone[p] {
			live = append(live, p)
		}
	}
	owned := func(p int) []dpath.Entry {
		var o []dpath.Entry
		for _, e := range cur {
			if e.Owner == p {
				o = append(o, e)
			}
		}
		return o
	}
	someAdds := func() []dpath.Entry {
		var o []dpath.Entry
		for k := r.Intn(3); k >= 0; k-- {
			if len(cur) > 0 && r.Intn(2) == 0 {
				o = append(o, cur[r.Intn(len(cur))]) // possibly somebody else's prefix: it moves
			} else {
				e := dpath.GenTable(r, 1)
				o = append(o, e[r.Intn(len(e))])
			}
		}
		return o
	}
	n := 2 + r.Intn(3)
	var secs []Section
	removed := false
	for len(secs) < n {
		switch x := r.Intn(10); {
		case x < 2: // the device's own key, with lines that must all be ignored
			secs = append(secs, Section{Who: -1, Extra: r.Intn(2) == 0, Replace: r.Intn(2) == 0, Adds: someAdds()})
		case x < 4: // update_only on a key nobody has
			secs = append(secs, Section{Who: -2, UpdateOnly: true, Extra: r.Intn(2) == 0, Replace: r.Intn(2) == 0, Adds: someAdds()})
		case x == 4 && allowRemove && !removed && len(live) > 1:
			p := live[r.Intn(len(live))]
			removed = true
			secs = append(secs, Section{Who: p, Remove: true, Adds: someAdds()})
			for i, q := range live {
				if q == p {
					live = append(live[:i], live[i+1:]...)
					break
				}
			}
		default:
			if len(live) == 0 {
				continue
			}
			p := live[r.Intn(len(live))]
			s := Section{Who: p, UpdateOnly: r.Intn(6) == 0}
			switch r.Intn(4) {
			case 0: // replace by the empty set
				s.Replace = true
			case 1: // replace by a new set
				s.Replace = true
				s.Adds = someAdds()
				if o := owned(p); len(o) > 0 && r.Intn(2) == 0 {
					s.Adds = append(s.Adds, o[r.Intn(len(o))])
				}
			case 2:
				s.Adds = someAdds()
			default:
				if o := owned(p); len(o) > 0 {
					s.Dels = append(s.Dels, o[r.Intn(len(o))])
				}
				if len(cur) > 0 {
					s.Dels = append(s.Dels, cur[r.Intn(len(cur))]) // maybe not this peer's: then nothing happens
				}
			}
			secs = append(secs, s)
		}
	}
	return secs
}

var _ = rand.Int
