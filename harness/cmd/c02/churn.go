package main

// Reconfiguration churn concurrent with the receive path.  Four senders Q_i
// each own a covering prefix; peer P owns more specific prefixes inside every
// cover, each of which has a sibling owned by peer R.  While a goroutine keeps
// removing and re-adding R's prefixes through the UAPI (P's and the Q_i's
// entries are never touched), the sessions of all Q_i flood the device in
// parallel (one receiver goroutine per peer, hence parallel lookups) with
// authentic transport messages: seven in eight carry an inner source inside
// one of P's prefixes (longest-prefix match P at every instant: never to be
// written), one in eight an honest source of Q_i (to be written, in order).
// Every TUN write is judged; only what fails the filter, plus a few samples,
// goes into a small `partial` scenario that the ordinary specification
// evaluates.

import (
	"bytes"
	"encoding/binary"
	"fmt"
	"sort"
	"strings"
	"sync"
	"sync/atomic"
	"time"

	"wgv/cosim"
	"wgv/dpath"
	"wgv/ref"
	"wgv/sim"
)

type ChurnStats struct {
	Datagrams int  `json:"datagrams"`
	Written   int  `json:"written"`
	Leaked    int  `json:"leaked"`
	Lost      int  `json:"lost"`
	Reconfigs int  `json:"reconfigs"`
	Stalled   bool `json:"stalled,omitempty"`
}

const churnSenders = 4

func churnScenario(fam, ms int) *Scenario {
	return &Scenario{Gen: fmt.Sprintf("churn-v%d", fam), NPeers: churnSenders + 2, BindBatch: 16, Solo: true, ChurnMs: ms, ChurnFam: fam}
}

func runChurn(sc *Scenario) {
	sc.Discarded = ""
	sc.Partial = true
	sc.Evs = nil
	fam := sc.ChurnFam
	nQ := churnSenders
	P, R := nQ, nQ+1
	victims := make([][]dpath.Entry, nQ)
	var siblings []dpath.Entry
	sc.Table = nil
	b16 := func(x ...byte) []byte { return append(x, make([]byte, 16-len(x))...) }
	for i := 0; i < nQ; i++ {
		if fam == 4 {
			sc.Table = append(sc.Table, dpath.Entry{Fam: 4, Bits: []byte{byte(10 + i), 0, 0, 0}, Len: 8, Owner: i})
			for _, v := range [][]byte{{byte(10 + i), 1, 2, 0}, {byte(10 + i), 77, 0, 0}} {
				victims[i] = append(victims[i], dpath.Entry{Fam: 4, Bits: v, Len: 24, Owner: P})
				siblings = append(siblings, dpath.Entry{Fam: 4, Bits: []byte{v[0], v[1], v[2] ^ 1, 0}, Len: 24, Owner: R})
			}
		} else {
			sc.Table = append(sc.Table, dpath.Entry{Fam: 6, Bits: b16(0xfd, byte(i)), Len: 16, Owner: i})
			for _, v := range [][]byte{b16(0xfd, byte(i), 0, 1, 0, 2, 0, 0), b16(0xfd, byte(i), 0x77, 0, 0, 0, 0, 0)} {
				victims[i] = append(victims[i], dpath.Entry{Fam: 6, Bits: v, Len: 64, Owner: P})
				sb := append([]byte{}, v...)
				sb[7] ^= 1
				siblings = append(siblings, dpath.Entry{Fam: 6, Bits: sb, Len: 64, Owner: R})
			}
		}
	}
	for i := 0; i < nQ; i++ {
		sc.Table = append(sc.Table, victims[i]...)
	}
	sc.Table = append(sc.Table, siblings...)
	owned := func(p int) []string {
		var o []string
		for _, e := range sc.Table {
			if e.Owner == p {
				o = append(o, e.CIDR())
			}
		}
		return o
	}
	peers := make([]*cosim.RefPeer, sc.NPeers)
	for i := range peers {
		peers[i] = cosim.NewPeer(fmt.Sprintf("P%d", i), fmt.Sprintf("192.0.2.%d:%d", 10+i, 5000+i), owned(i)...)
	}
	w, err := cosim.NewWorld(cosim.Config{Up: true, BindBatch: sc.BindBatch, TunBatch: 4}, true, peers...)
	if err != nil {
		sc.Discarded = "world: " + err.Error()
		return
	}
	defer closeWorld(w)
	zeroRx := make([]uint64, sc.NPeers)
	sess := make([]*ref.Session, nQ)
	for i := 0; i < nQ; i++ {
		_, out, s, err := w.RefInitiates(peers[i], peers[i].Addr, ref.Tai64n(time.Now()))
		if err != nil || !out.Settled {
			sc.Discarded = fmt.Sprintf("handshake: %v", err)
			return
		}
		w.Inject(peers[i].Addr, s.Next(nil))
		sess[i] = s
		sc.Evs = append(sc.Evs, Ev{Kind: "hs", Peer: i, Serial: i + 1, DevIdx: s.RemoteIdx, Writes: [][]byte{}, Rx: zeroRx})
	}
	// packet k of sender i: counter k, honest iff k is a multiple of 8; everything is recomputable from (i, k)
	inner := func(i int, k uint32) []byte {
		spoof := k%8 != 0
		tag := uint32(i)<<28 | k
		if fam == 4 {
			src := [4]byte{byte(10 + i), 9, byte(k >> 8), byte(k)}
			if spoof {
				v := victims[i][int(k>>3)%len(victims[i])].Bits
				src = [4]byte{v[0], v[1], v[2], byte(k)}
			}
			p := ref.IPv4(src, [4]byte{10, 200, 0, 1}, 40, byte(k))
			binary.BigEndian.PutUint32(p[4:], tag)
			return p
		}
		src := b16(0xfd, byte(i), 0, 9)
		src[14], src[15] = byte(k>>8), byte(k)
		if spoof {
			src = append([]byte{}, victims[i][int(k>>3)%len(victims[i])].Bits...)
			src[15] = byte(k)
		}
		p := v6pkt(src, 20, 60)
		binary.BigEndian.PutUint32(p[40:], tag)
		return p
	}
	tagOf := func(p []byte) (int, uint32, bool) {
		var t uint32
		switch {
		case fam == 4 && len(p) == 40:
			t = binary.BigEndian.Uint32(p[4:])
		case fam == 6 && len(p) == 60:
			t = binary.BigEndian.Uint32(p[40:])
		default:
			return 0, 0, false
		}
		i, k := int(t>>28), t&0x0fffffff
		if i >= nQ {
			return 0, 0, false
		}
		return i, k, bytes.Equal(p, inner(i, k))
	}
	// the reconfiguration churn through the UAPI: remove, add, replace — R's prefixes only
	var stop atomic.Bool
	var reconfigs atomic.Int64
	rpk := fmt.Sprintf("public_key=%x\n", peers[R].Pub[:])
	var rmAll, addAll strings.Builder
	for _, e := range siblings {
		rmAll.WriteString("allowed_ip=-" + e.CIDR() + "\n")
		addAll.WriteString("allowed_ip=" + e.CIDR() + "\n")
	}
	var wg sync.WaitGroup
	wg.Add(1)
	go func() {
		defer wg.Done()
		for k := 0; !stop.Load(); k++ {
			switch k % 3 {
			case 0:
				w.Dev.IpcSet(rpk + rmAll.String())
			case 1:
				w.Dev.IpcSet(rpk + addAll.String())
			case 2:
				w.Dev.IpcSet(rpk + "replace_allowed_ips=true\n" + addAll.String())
			}
			reconfigs.Add(1)
		}
	}()
	// the senders
	var injected atomic.Int64
	for i := 0; i < nQ; i++ {
		wg.Add(1)
		go func(i int) {
			defer wg.Done()
			k := uint32(8)
			for !stop.Load() {
				ds := make([]sim.Dgram, 0, 64)
				for j := 0; j < 64; j++ {
					ds = append(ds, sim.Dgram{From: peers[i].Addr, Data: sess[i].Transport(uint64(k), ref.Pad(inner(i, k)))})
					k++
				}
				w.Bind.Inject(ds...)
				injected.Add(64)
				for !w.Bind.Idle() && !stop.Load() {
					time.Sleep(20 * time.Microsecond)
				}
			}
		}(i)
	}
	st := &ChurnStats{}
	type ik struct {
		i int
		k uint32
	}
	var offenders []ik
	var garbage [][]byte
	lastHonest := make([]uint32, nQ)
	wrote := map[ik]bool{}
	judge := func(wr sim.Written) {
		st.Written++
		i, k, ok := tagOf(wr.Data)
		if ok && k%8 == 0 && k > lastHonest[i] {
			if lastHonest[i] != 0 {
				st.Lost += int(k-lastHonest[i])/8 - 1
			}
			lastHonest[i] = k
			if k == 8 {
				wrote[ik{i, k}] = true
			}
			return
		}
		st.Leaked++
		if ok {
			if len(offenders) < 12 {
				offenders = append(offenders, ik{i, k})
			}
		} else if len(garbage) < 12 {
			garbage = append(garbage, wr.Data)
		}
	}
	deadline := time.Now().Add(time.Duration(sc.ChurnMs) * time.Millisecond)
	lastProgress := time.Now()
	for time.Now().Before(deadline) && st.Leaked < 12 {
		ws := w.Tun.TakeWritten()
		for _, x := range ws {
			judge(x)
		}
		if len(ws) > 0 {
			lastProgress = time.Now()
		} else if time.Since(lastProgress) > 3*time.Second {
			st.Stalled = true
			break
		}
		time.Sleep(100 * time.Microsecond)
	}
	stop.Store(true)
	wg.Wait()
	if !st.Stalled && !w.Settle() {
		st.Stalled = true
	}
	for _, x := range w.Tun.TakeWritten() {
		judge(x)
	}
	if st.Stalled {
		poisoned = true
	}
	st.Datagrams = int(injected.Load())
	st.Reconfigs = int(reconfigs.Load())
	sc.Churn = st
	// the compact scenario: per sender one honest and one spoofed sample, then the offenders, in (sender, counter) order
	incl := map[ik]bool{}
	for i := 0; i < nQ; i++ {
		incl[ik{i, 8}] = true
		incl[ik{i, 9}] = true
	}
	isOff := map[ik]bool{}
	for _, o := range offenders {
		incl[o] = true
		isOff[o] = true
	}
	var keys []ik
	for x := range incl {
		keys = append(keys, x)
	}
	sort.Slice(keys, func(a, b int) bool {
		if keys[a].i != keys[b].i {
			return keys[a].i < keys[b].i
		}
		return keys[a].k < keys[b].k
	})
	ev := Ev{Kind: "dg", Writes: [][]byte{}, Rx: zeroRx}
	for _, x := range keys {
		note := "honest-source"
		if x.k%8 != 0 {
			note = "source-of-another-peers-longer-prefix"
		}
		ev.Dgs = append(ev.Dgs, Dg{Sess: x.i + 1, IdxOf: x.i + 1, UsedIdx: sess[x.i].RemoteIdx, Ctr: uint64(x.k), Plain: ref.Pad(inner(x.i, x.k)), Note: note})
		if isOff[x] || wrote[x] {
			ev.Writes = append(ev.Writes, inner(x.i, x.k))
		}
	}
	ev.Writes = append(ev.Writes, garbage...)
	sc.Evs = append(sc.Evs, ev)
}
