// taiast — translator for C06 (timestamps): reads the SOURCE of tai64n/tai64n.go of the tree under test and
// prints, as Gallina (Gen/TaiAst.v), the bodies of stamp(t time.Time) Timestamp and
// (t1 Timestamp).After(t2 Timestamp) bool as terms of the deep-embedded mini-language of Tai64n/TaiAst.v.
// Tai64n/TaiAstProofs.v proves that the interpreter of Tai64n/TaiAst.v run on these terms equals
// Tai64n/Model.v (encode (stamp t), after) for all inputs in range.
//
// What is trusted here: go/parser; the rendering below (one Go construct -> one constructor; a block ->
// right-nested SSeq ending in SSkip; constants -> their value); the TYPING done here: every scalar expression
// is uint64 or uint32 and the width is written into each EBin/EConv node (typed constants `c = uintNN(k)`,
// conversions uintNN(e), locals take the type of their initialiser, both operands of a binary operator must have
// the same type or one must be an untyped constant that fits); the three recognised library primitives:
// t.Unix() / t.Nanosecond() on the time.Time parameter (the two inputs, only under a uintNN conversion),
// binary.BigEndian.PutUint64/PutUint32(x[k:], e) and bytes.Compare(x[k:], y[k:]) (package names checked
// against the import list).  Everything else is emitted as EUnknown/IUnknown/BUnknown/SlUnknown/SUnknown, on
// which the interpreter yields None, so an unrecognised construct can only break the theorems, never satisfy them.
package main

import (
	"flag"
	"fmt"
	"go/ast"
	"go/parser"
	"go/token"
	"math/big"
	"os"
	"path/filepath"
	"reflect"
	"strconv"
	"strings"
)

var (
	consts    = map[string]ast.Expr{} // package constant -> defining expression
	constBusy = map[string]bool{}
	imports   = map[string]string{} // local package name -> import path
)

func width(ty string) *big.Int {
	switch ty {
	case "U64":
		return new(big.Int).Lsh(big.NewInt(1), 64)
	case "U32":
		return new(big.Int).Lsh(big.NewInt(1), 32)
	}
	return nil
}

func convName(e ast.Expr) string {
	if id, ok := e.(*ast.Ident); ok {
		switch id.Name {
		case "uint64":
			return "U64"
		case "uint32":
			return "U32"
		}
	}
	return ""
}

// evaluate a constant expression over the package constants (arbitrary precision, like Go).
// ty is "untyped", "U64" or "U32".
func constVal(e ast.Expr) (n *big.Int, ty string, ok bool) {
	switch v := e.(type) {
	case *ast.ParenExpr:
		return constVal(v.X)
	case *ast.BasicLit:
		if v.Kind == token.INT {
			n, ok := new(big.Int).SetString(strings.ReplaceAll(v.Value, "_", ""), 0)
			return n, "untyped", ok
		}
	case *ast.Ident:
		d, ok := consts[v.Name]
		if !ok || d == nil || constBusy[v.Name] {
			return nil, "", false
		}
		constBusy[v.Name] = true
		defer delete(constBusy, v.Name)
		return constVal(d)
	case *ast.CallExpr:
		if ty := convName(v.Fun); ty != "" && len(v.Args) == 1 {
			a, _, ok := constVal(v.Args[0])
			if ok && a.Sign() >= 0 && a.Cmp(width(ty)) < 0 {
				return a, ty, true
			}
		}
	case *ast.BinaryExpr:
		a, ta, ok1 := constVal(v.X)
		b, tb, ok2 := constVal(v.Y)
		if !ok1 || !ok2 {
			return nil, "", false
		}
		ty := ta
		if ta == "untyped" {
			ty = tb
		} else if tb != "untyped" && tb != ta {
			return nil, "", false
		}
		r := new(big.Int)
		switch v.Op {
		case token.ADD:
			r.Add(a, b)
		case token.SUB:
			r.Sub(a, b)
		case token.MUL:
			r.Mul(a, b)
		case token.AND:
			r.And(a, b)
		case token.OR:
			r.Or(a, b)
		case token.AND_NOT:
			r.AndNot(a, b)
		default:
			return nil, "", false
		}
		if w := width(ty); w != nil && (r.Sign() < 0 || r.Cmp(w) >= 0) {
			return nil, "", false // typed constant overflow: does not compile
		}
		return r, ty, true
	}
	return nil, "", false
}

func kind(n interface{}) string {
	return strings.TrimPrefix(reflect.TypeOf(n).String(), "*ast.")
}

type tr struct {
	timeParam string            // the time.Time parameter (stamp) or ""
	scalars   map[string]string // local scalar -> U64/U32
	arrays    map[string]bool   // Timestamp-typed names (receiver, parameter, var)
	tsSize    string            // len(Timestamp) or ""
}

func (t *tr) declared(x string) bool {
	_, s := t.scalars[x]
	return s || t.arrays[x] || x == t.timeParam
}

func isIdent(e ast.Expr, name string) bool {
	id, ok := e.(*ast.Ident)
	return ok && id.Name == name
}

// pkg.Name where pkg is imported from path and not shadowed by a local
func (t *tr) isPkgSel(e ast.Expr, path, name string) bool {
	s, ok := e.(*ast.SelectorExpr)
	if !ok || s.Sel.Name != name {
		return false
	}
	id, ok := s.X.(*ast.Ident)
	return ok && imports[id.Name] == path && !t.declared(id.Name)
}

// t.Unix() / t.Nanosecond() on the time.Time parameter
func (t *tr) timeCall(e ast.Expr) string {
	c, ok := e.(*ast.CallExpr)
	if !ok || len(c.Args) != 0 {
		return ""
	}
	s, ok := c.Fun.(*ast.SelectorExpr)
	if !ok || t.timeParam == "" || !isIdent(s.X, t.timeParam) {
		return ""
	}
	switch s.Sel.Name {
	case "Unix":
		return "EUnix"
	case "Nanosecond":
		return "ENanosecond"
	}
	return ""
}

var binops = map[token.Token]string{token.ADD: "OAdd", token.SUB: "OSub", token.AND: "OAnd", token.OR: "OOr", token.AND_NOT: "OAndNot"}

func unk(what string) (string, string) { return fmt.Sprintf("(EUnknown %q)", what), "" }

// returns the term and its type: "U64", "U32", "untyped" (a constant) or "" (unknown)
func (t *tr) expr(e ast.Expr) (string, string) {
	switch v := e.(type) {
	case *ast.ParenExpr:
		return t.expr(v.X)
	case *ast.BasicLit:
		if n, ty, ok := constVal(v); ok && n.Sign() >= 0 {
			return fmt.Sprintf("(EConst %s%%N)", n), ty
		}
	case *ast.Ident:
		if ty, ok := t.scalars[v.Name]; ok {
			return fmt.Sprintf("(EVar %q)", v.Name), ty
		}
		if t.declared(v.Name) {
			return unk("Ident")
		}
		if n, ty, ok := constVal(v); ok && n.Sign() >= 0 {
			return fmt.Sprintf("(EConst %s%%N)", n), ty
		}
		return unk("Ident")
	case *ast.CallExpr:
		if ty := convName(v.Fun); ty != "" && len(v.Args) == 1 && !t.declared("uint64") && !t.declared("uint32") {
			if in := t.timeCall(v.Args[0]); in != "" {
				return fmt.Sprintf("(EConv %s %s)", ty, in), ty
			}
			a, ta := t.expr(v.Args[0])
			if ta == "" {
				return fmt.Sprintf("(EConv %s %s)", ty, a), ""
			}
			return fmt.Sprintf("(EConv %s %s)", ty, a), ty
		}
		return unk("CallExpr")
	case *ast.BinaryExpr:
		op, ok := binops[v.Op]
		if !ok {
			return unk("BinaryExpr " + v.Op.String())
		}
		a, ta := t.expr(v.X)
		b, tb := t.expr(v.Y)
		ty := ta
		if ta == "untyped" {
			ty = tb
		} else if tb != "untyped" && tb != ta {
			ty = ""
		}
		if ty != "U64" && ty != "U32" {
			return unk("BinaryExpr operand types")
		}
		for _, side := range []struct {
			e  ast.Expr
			ty string
		}{{v.X, ta}, {v.Y, tb}} {
			if side.ty == "untyped" {
				if n, _, ok := constVal(side.e); !ok || n.Sign() < 0 || n.Cmp(width(ty)) >= 0 {
					return unk("BinaryExpr constant overflows")
				}
			}
		}
		return fmt.Sprintf("(EBin %s %s %s %s)", ty, op, a, b), ty
	}
	return unk(kind(e))
}

func (t *tr) slice(e ast.Expr) string {
	s, ok := e.(*ast.SliceExpr)
	if !ok || s.High != nil || s.Max != nil || s.Slice3 {
		return fmt.Sprintf("(SlUnknown %q)", kind(e))
	}
	id, ok := s.X.(*ast.Ident)
	if !ok || !t.arrays[id.Name] {
		return fmt.Sprintf("(SlUnknown %q)", "sliced operand")
	}
	off := "0"
	if s.Low != nil {
		n, _, ok := constVal(s.Low)
		if !ok || n.Sign() < 0 || !n.IsInt64() || n.Int64() > 1<<20 {
			return fmt.Sprintf("(SlUnknown %q)", "slice bound")
		}
		off = n.String()
	}
	return fmt.Sprintf("(SlFrom %q %s%%nat)", id.Name, off)
}

func (t *tr) iexpr(e ast.Expr) string {
	switch v := e.(type) {
	case *ast.ParenExpr:
		return t.iexpr(v.X)
	case *ast.BasicLit:
		if n, ty, ok := constVal(v); ok && ty == "untyped" && n.IsInt64() {
			return fmt.Sprintf("(IConst %s%%Z)", n)
		}
	case *ast.CallExpr:
		if t.isPkgSel(v.Fun, "bytes", "Compare") && len(v.Args) == 2 {
			return fmt.Sprintf("(ICompareBytes %s %s)", t.slice(v.Args[0]), t.slice(v.Args[1]))
		}
	}
	return fmt.Sprintf("(IUnknown %q)", kind(e))
}

var cmpops = map[token.Token]string{token.GEQ: "CGe", token.GTR: "CGt", token.LEQ: "CLe", token.LSS: "CLt", token.EQL: "CEq", token.NEQ: "CNe"}

func (t *tr) bexpr(e ast.Expr) string {
	switch v := e.(type) {
	case *ast.ParenExpr:
		return t.bexpr(v.X)
	case *ast.BinaryExpr:
		if op, ok := cmpops[v.Op]; ok {
			return fmt.Sprintf("(BCmpI %s %s %s)", op, t.iexpr(v.X), t.iexpr(v.Y))
		}
		return fmt.Sprintf("(BUnknown %q)", "BinaryExpr "+v.Op.String())
	}
	return fmt.Sprintf("(BUnknown %q)", kind(e))
}

func unknownS(what string) string { return fmt.Sprintf("(SUnknown %q)", what) }

func (t *tr) stmt(s ast.Stmt, retArr bool) string {
	switch v := s.(type) {
	case *ast.DeclStmt:
		g, ok := v.Decl.(*ast.GenDecl)
		if !ok || g.Tok != token.VAR || len(g.Specs) != 1 {
			return unknownS("DeclStmt")
		}
		sp := g.Specs[0].(*ast.ValueSpec)
		if len(sp.Names) != 1 || len(sp.Values) != 0 || !isIdent(sp.Type, "Timestamp") || t.tsSize == "" {
			return unknownS("DeclStmt var")
		}
		x := sp.Names[0].Name
		if x == "_" || t.declared(x) {
			return unknownS("DeclStmt redeclaration")
		}
		t.arrays[x] = true
		return fmt.Sprintf("(SVarArr %q %s%%nat)", x, t.tsSize)
	case *ast.AssignStmt:
		if len(v.Lhs) != 1 || len(v.Rhs) != 1 || v.Tok != token.DEFINE {
			return unknownS("AssignStmt " + v.Tok.String())
		}
		id, ok := v.Lhs[0].(*ast.Ident)
		if !ok || id.Name == "_" {
			return unknownS("AssignStmt define")
		}
		if t.declared(id.Name) {
			return unknownS("AssignStmt redeclaration")
		}
		rhs, ty := t.expr(v.Rhs[0])
		if ty != "U64" && ty != "U32" {
			return fmt.Sprintf("(SSeq %s (SAssign %q %s))", unknownS("AssignStmt type of initialiser"), id.Name, rhs)
		}
		t.scalars[id.Name] = ty
		return fmt.Sprintf("(SAssign %q %s)", id.Name, rhs)
	case *ast.ExprStmt:
		c, ok := v.X.(*ast.CallExpr)
		if !ok || len(c.Args) != 2 {
			return unknownS("ExprStmt")
		}
		f, ok := c.Fun.(*ast.SelectorExpr)
		if !ok || !t.isPkgSel(f.X, "encoding/binary", "BigEndian") {
			return unknownS("ExprStmt call")
		}
		k, want := "", ""
		switch f.Sel.Name {
		case "PutUint64":
			k, want = "8", "U64"
		case "PutUint32":
			k, want = "4", "U32"
		default:
			return unknownS("ExprStmt BigEndian." + f.Sel.Name)
		}
		val, ty := t.expr(c.Args[1])
		if ty != want {
			return unknownS("PutUint argument type")
		}
		return fmt.Sprintf("(SPutBE %s%%nat %s %s)", k, t.slice(c.Args[0]), val)
	case *ast.ReturnStmt:
		if len(v.Results) != 1 {
			return unknownS("ReturnStmt")
		}
		if retArr {
			if id, ok := v.Results[0].(*ast.Ident); ok && t.arrays[id.Name] {
				return fmt.Sprintf("(SReturnArr %q)", id.Name)
			}
			return unknownS("ReturnStmt value")
		}
		return fmt.Sprintf("(SReturnB %s)", t.bexpr(v.Results[0]))
	}
	return unknownS(kind(s))
}

func (t *tr) block(b *ast.BlockStmt, retArr bool) string {
	var sb strings.Builder
	for _, s := range b.List {
		sb.WriteString("(SSeq " + t.stmt(s, retArr) + "\n  ")
	}
	sb.WriteString("SSkip" + strings.Repeat(")", len(b.List)))
	return sb.String()
}

func main() {
	repo := flag.String("repo", "/repo", "tree under test")
	flag.Parse()
	fset := token.NewFileSet()
	file, err := parser.ParseFile(fset, filepath.Join(*repo, "tai64n", "tai64n.go"), nil, 0)
	if err != nil {
		fmt.Fprintln(os.Stderr, "taiast: cannot parse tai64n/tai64n.go")
		os.Exit(1)
	}
	for _, im := range file.Imports {
		p, err := strconv.Unquote(im.Path.Value)
		if err != nil {
			continue
		}
		name := p[strings.LastIndex(p, "/")+1:]
		if im.Name != nil {
			name = im.Name.Name
		}
		imports[name] = p
	}
	funcs := map[string]*ast.FuncDecl{}
	var tsLen ast.Expr
	for _, d := range file.Decls {
		switch v := d.(type) {
		case *ast.GenDecl:
			for _, sp := range v.Specs {
				switch s := sp.(type) {
				case *ast.ValueSpec:
					if v.Tok == token.CONST {
						for i, n := range s.Names {
							if s.Type == nil && len(s.Names) == len(s.Values) {
								consts[n.Name] = s.Values[i]
							} else {
								consts[n.Name] = nil
							}
						}
					}
				case *ast.TypeSpec:
					if at, ok := s.Type.(*ast.ArrayType); ok && s.Name.Name == "Timestamp" && at.Len != nil && isIdent(at.Elt, "byte") && s.Assign == token.NoPos {
						tsLen = at.Len
					}
				}
			}
		case *ast.FuncDecl:
			if v.Body != nil {
				key := v.Name.Name
				if v.Recv != nil {
					key = "method " + key
				}
				funcs[key] = v
			}
		}
	}
	tsSize := ""
	if tsLen != nil {
		if n, ty, ok := constVal(tsLen); ok && ty == "untyped" && n.Sign() >= 0 && n.IsInt64() && n.Int64() <= 1<<20 {
			tsSize = n.String()
		}
	}
	constN := func(name, want string) string {
		if n, ty, ok := constVal(ast.NewIdent(name)); ok && ty == want && n.Sign() >= 0 {
			return n.String()
		}
		return "0"
	}
	resultIs := func(fd *ast.FuncDecl, ty string) bool {
		res := fd.Type.Results
		return res != nil && len(res.List) == 1 && len(res.List[0].Names) == 0 && isIdent(res.List[0].Type, ty)
	}

	stampBody := func() string {
		fd := funcs["stamp"]
		if fd == nil {
			return unknownS("function not found")
		}
		ps := fd.Type.Params.List
		if len(ps) != 1 || len(ps[0].Names) != 1 || ps[0].Names[0].Name == "_" {
			return unknownS("parameter list")
		}
		t := &tr{scalars: map[string]string{}, arrays: map[string]bool{}, tsSize: tsSize}
		if !t.isPkgSel(ps[0].Type, "time", "Time") {
			return unknownS("parameter type")
		}
		if !resultIs(fd, "Timestamp") {
			return unknownS("result type")
		}
		t.timeParam = ps[0].Names[0].Name
		return t.block(fd.Body, true)
	}
	afterBody := func() string {
		fd := funcs["method After"]
		if fd == nil {
			return unknownS("function not found")
		}
		rc := fd.Recv.List
		ps := fd.Type.Params.List
		if len(rc) != 1 || len(rc[0].Names) != 1 || rc[0].Names[0].Name != "t1" || !isIdent(rc[0].Type, "Timestamp") {
			return unknownS("receiver")
		}
		if len(ps) != 1 || len(ps[0].Names) != 1 || ps[0].Names[0].Name != "t2" || !isIdent(ps[0].Type, "Timestamp") {
			return unknownS("parameter list")
		}
		if !resultIs(fd, "bool") || tsSize == "" {
			return unknownS("result type")
		}
		t := &tr{scalars: map[string]string{}, arrays: map[string]bool{"t1": true, "t2": true}, tsSize: tsSize}
		return t.block(fd.Body, false)
	}

	fmt.Println("(* GENERATED by harness/cmd/taiast from tai64n/tai64n.go of the tree under test. Do not edit. *)")
	fmt.Println("From Coq Require Import NArith ZArith String.")
	fmt.Println("From WG Require Import Tai64n.TaiAst.")
	fmt.Println("Local Open Scope string_scope.")
	fmt.Println()
	fmt.Println("(* len(Timestamp), const base (uint64), const whitenerMask (uint32); 0 when not resolved *)")
	if tsSize == "" {
		tsSize = "0"
	}
	fmt.Printf("Definition timestamp_size : nat := %s%%nat.\n", tsSize)
	fmt.Printf("Definition src_base : N := %s%%N.\n", constN("base", "U64"))
	fmt.Printf("Definition src_whitenerMask : N := %s%%N.\n\n", constN("whitenerMask", "U32"))
	fmt.Println("(* func stamp(t time.Time) Timestamp *)")
	fmt.Printf("Definition stamp_body : stmt :=\n  %s.\n\n", stampBody())
	fmt.Println("(* func (t1 Timestamp) After(t2 Timestamp) bool *)")
	fmt.Printf("Definition after_body : stmt :=\n  %s.\n", afterBody())
}
