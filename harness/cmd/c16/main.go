// c16 drives the write-side coalescer of the TUN device (tun.VerifHandleGRO =
// handleGRO with fresh tables) with generated packet batches and writes them,
// with the observed toWrite and written buffers, as Gallina case files + JSON.
package main

import (
	"encoding/binary"
	"encoding/hex"
	"encoding/json"
	"flag"
	"fmt"
	"math/rand"
	"os"
	"path/filepath"
	"sort"
	"strings"

	"golang.org/x/sys/unix"
	"golang.zx2c4.com/wireguard/tun"
	"gvisor.dev/gvisor/pkg/tcpip"
	"gvisor.dev/gvisor/pkg/tcpip/checksum"
	"gvisor.dev/gvisor/pkg/tcpip/header"
)

const vh = 10 // virtioNetHdrLen, checked against the code in main()

// ---------------------------------------------------------------------------
// case format

type Buf struct {
	Cap  int    `json:"cap,omitempty"`
	Hdr  string `json:"hdr"`  // the 10 bytes in front of the packet (hex)
	Data string `json:"data"` // the packet (hex)
}

// PreCall is an earlier Write on the same device (write-path cases).
type PreCall struct {
	Off int   `json:"off"`
	In  []Buf `json:"in"`
}

type Case struct {
	// W: write-path case: In is one batch handed to (*NativeTun).Write on a device (GRO tables
	// persisting across calls) that has already executed the calls in Pre; Out is what reached the fd.
	W   bool      `json:"w,omitempty"`
	Pre []PreCall `json:"pre,omitempty"`

	Gen string `json:"gen"`
	UDP bool   `json:"udp"`
	Off int    `json:"off"`
	In  []Buf  `json:"in"`
	Err bool   `json:"err"`
	TW  []int  `json:"tw"`
	Out []Buf  `json:"out"` // written buffers in toWrite order
	// second opinion computed in Go (not used by the Coq check): problems found when the
	// written GSO buffers are split by the repository's own read-side gsoSplit
	Second []string `json:"second,omitempty"`
	// write path: the implementation panicked (e.g. an index out of range from a stale table entry)
	Panic string `json:"panic,omitempty"`
}

// ---------------------------------------------------------------------------
// packet construction (own code; gVisor's checksum package is the second opinion)

func sum16(b []byte, s uint32) uint32 {
	for i := 0; i+1 < len(b); i += 2 {
		s += uint32(b[i])<<8 | uint32(b[i+1])
	}
	if len(b)%2 == 1 {
		s += uint32(b[len(b)-1]) << 8
	}
	return s
}

func fold(s uint32) uint16 {
	for s>>16 != 0 {
		s = s>>16 + s&0xffff
	}
	return uint16(s)
}

type Pkt struct {
	V6        bool
	Proto     byte // 6, 17, or anything else
	Src, Dst  byte // last address byte
	Sport     uint16
	Dport     uint16
	Seq, Ack  uint32
	Flags     byte
	Rsvd      byte // low nibble of TCP byte 12
	Win       uint16
	Urg       uint16
	Opts      []byte // TCP options (multiple of 4, <= 40)
	Payload   []byte
	TOS       byte // IPv4 TOS / IPv6 traffic class
	TTL       byte
	Frag      uint16 // IPv4 bytes 6-7 (flags + fragment offset)
	ID        uint16
	FlowLabel uint32
	IPOpts    []byte // IPv4 options (multiple of 4)
	BadL4     bool   // corrupt the transport checksum
	BadIP     bool   // corrupt the IPv4 header checksum
	ZeroUDP   bool   // UDP checksum field 0 ("none")
	LenDelta  int    // added to the IP length field
	Pad       int    // trailing bytes after the IP payload
	DataOff   byte   // if != 0 overrides the TCP data offset nibble
	Version   byte   // if != 0 overrides the version nibble
	Cap       int    // capacity of the buffer (0 = default)
	Garbage   []byte // initial content of the 10 bytes in front of the packet
	SrcX      []byte // XORed over the source address (deviation in any address byte)
	DstX      []byte // XORed over the destination address
}

func (p *Pkt) l4() []byte {
	switch p.Proto {
	case 6:
		t := make([]byte, 20+len(p.Opts)+len(p.Payload))
		binary.BigEndian.PutUint16(t[0:], p.Sport)
		binary.BigEndian.PutUint16(t[2:], p.Dport)
		binary.BigEndian.PutUint32(t[4:], p.Seq)
		binary.BigEndian.PutUint32(t[8:], p.Ack)
		do := byte((20 + len(p.Opts)) / 4)
		if p.DataOff != 0 {
			do = p.DataOff
		}
		t[12] = do<<4 | p.Rsvd&0x0f
		t[13] = p.Flags
		binary.BigEndian.PutUint16(t[14:], p.Win)
		binary.BigEndian.PutUint16(t[18:], p.Urg)
		copy(t[20:], p.Opts)
		copy(t[20+len(p.Opts):], p.Payload)
		return t
	case 17:
		t := make([]byte, 8+len(p.Payload))
		binary.BigEndian.PutUint16(t[0:], p.Sport)
		binary.BigEndian.PutUint16(t[2:], p.Dport)
		binary.BigEndian.PutUint16(t[4:], uint16(8+len(p.Payload)))
		copy(t[8:], p.Payload)
		return t
	default:
		return append([]byte(nil), p.Payload...)
	}
}

func addr4(x byte) []byte { return []byte{192, 0, 2, x} }
func addr6(x byte) []byte {
	a := make([]byte, 16)
	a[0], a[1], a[2], a[3], a[15] = 0x20, 0x01, 0x0d, 0xb8, x
	return a
}

func xorAddr(a, x []byte) []byte {
	for i := range x {
		if i < len(a) {
			a[i] ^= x[i]
		}
	}
	return a
}

// build returns the IP packet.
func (p *Pkt) build() []byte {
	t := p.l4()
	var ip []byte
	var src, dst []byte
	if p.V6 {
		ip = make([]byte, 40)
		ip[0] = 0x60 | p.TOS>>4
		ip[1] = p.TOS<<4 | byte(p.FlowLabel>>16)&0x0f
		ip[2] = byte(p.FlowLabel >> 8)
		ip[3] = byte(p.FlowLabel)
		binary.BigEndian.PutUint16(ip[4:], uint16(len(t)+p.LenDelta))
		ip[6] = p.Proto
		ip[7] = p.TTL
		src, dst = xorAddr(addr6(p.Src), p.SrcX), xorAddr(addr6(p.Dst), p.DstX)
		copy(ip[8:], src)
		copy(ip[24:], dst)
	} else {
		ihl := 20 + len(p.IPOpts)
		ip = make([]byte, ihl)
		ip[0] = 0x40 | byte(ihl/4)
		ip[1] = p.TOS
		binary.BigEndian.PutUint16(ip[2:], uint16(ihl+len(t)+p.LenDelta))
		binary.BigEndian.PutUint16(ip[4:], p.ID)
		binary.BigEndian.PutUint16(ip[6:], p.Frag)
		ip[8] = p.TTL
		ip[9] = p.Proto
		src, dst = xorAddr(addr4(p.Src), p.SrcX), xorAddr(addr4(p.Dst), p.DstX)
		copy(ip[12:], src)
		copy(ip[16:], dst)
		copy(ip[20:], p.IPOpts)
	}
	if p.Version != 0 {
		ip[0] = p.Version<<4 | ip[0]&0x0f
	}
	// transport checksum over the pseudo header with the true length
	if p.Proto == 6 || p.Proto == 17 {
		s := sum16(src, 0)
		s = sum16(dst, s)
		s += uint32(p.Proto) + uint32(len(t))
		at := 16
		if p.Proto == 17 {
			at = 6
		}
		if len(t) >= at+2 {
			c := ^fold(sum16(t, s))
			if p.Proto == 17 && c == 0 {
				c = 0xffff
			}
			// second opinion on the checksum arithmetic
			g := ^checksum.Checksum(t, header.PseudoHeaderChecksum(tcpip.TransportProtocolNumber(p.Proto), tcpip.AddrFromSlice(src), tcpip.AddrFromSlice(dst), uint16(len(t))))
			if g != c && !(g == 0 && c == 0xffff) {
				panic(fmt.Sprintf("checksum builder disagrees with gVisor: %04x vs %04x", c, g))
			}
			if p.BadL4 {
				c ^= 0x0101
			}
			if p.ZeroUDP && p.Proto == 17 {
				c = 0
			}
			binary.BigEndian.PutUint16(t[at:], c)
		}
	}
	if !p.V6 {
		c := ^fold(sum16(ip, 0))
		if p.BadIP {
			c ^= 0x1000
		}
		binary.BigEndian.PutUint16(ip[10:], c)
	}
	out := append(ip, t...)
	out = append(out, make([]byte, p.Pad)...)
	return out
}

// ---------------------------------------------------------------------------
// running the real code

func makeBufs(in []Buf, off int) [][]byte {
	bufs := make([][]byte, len(in))
	for i, b := range in {
		data, err := hex.DecodeString(b.Data)
		if err != nil {
			panic(err)
		}
		hdr, err := hex.DecodeString(b.Hdr)
		if err != nil || len(hdr) != vh {
			panic("bad hdr")
		}
		cp := b.Cap
		if cp < off+len(data) {
			cp = off + len(data)
			in[i].Cap = cp
		}
		buf := make([]byte, off+len(data), cp)
		if off >= vh {
			copy(buf[off-vh:], hdr)
		}
		copy(buf[off:], data)
		bufs[i] = buf
	}
	return bufs
}

// runWrite drives the real (*NativeTun).Write on ONE device over a SOCK_DGRAM socketpair standing in
// for the TUN fd: first the earlier calls (their output is drained and dropped), then the call itself.
func runWrite(c *Case) {
	fds, err := unix.Socketpair(unix.AF_UNIX, unix.SOCK_DGRAM, 0)
	if err != nil {
		panic(err)
	}
	defer unix.Close(fds[1])
	unix.SetsockoptInt(fds[0], unix.SOL_SOCKET, unix.SO_SNDBUF, 1<<22)
	f := os.NewFile(uintptr(fds[0]), "faketun")
	defer f.Close()
	dev := tun.VerifNewWriteTun(f, c.UDP)
	c.Panic = ""
	defer func() {
		if r := recover(); r != nil {
			c.Panic = fmt.Sprint(r)
			c.Err, c.TW, c.Out, c.Second = false, []int{}, []Buf{}, nil
		}
	}()
	rx := make([]byte, 1<<17)
	drain := func() []Buf {
		var out []Buf
		for {
			n, _, err := unix.Recvfrom(fds[1], rx, unix.MSG_DONTWAIT)
			if err != nil {
				return out
			}
			if n < vh {
				panic("short datagram on the fake tun")
			}
			out = append(out, Buf{Hdr: hex.EncodeToString(rx[:vh]), Data: hex.EncodeToString(rx[vh:n])})
		}
	}
	for i := range c.Pre {
		dev.Write(makeBufs(c.Pre[i].In, c.Pre[i].Off), c.Pre[i].Off)
		drain()
	}
	_, werr := dev.Write(makeBufs(c.In, c.Off), c.Off)
	c.Err = werr != nil
	c.TW = []int{}
	c.Out = drain()
	if c.Out == nil {
		c.Out = []Buf{}
	}
	c.Second = nil
}

func runImpl(c *Case) {
	if c.W {
		runWrite(c)
		return
	}
	bufs := make([][]byte, len(c.In))
	for i, b := range c.In {
		data, err := hex.DecodeString(b.Data)
		if err != nil {
			panic(err)
		}
		hdr, err := hex.DecodeString(b.Hdr)
		if err != nil || len(hdr) != vh {
			panic("bad hdr")
		}
		cp := b.Cap
		if cp < c.Off+len(data) {
			cp = c.Off + len(data)
			c.In[i].Cap = cp
		}
		buf := make([]byte, c.Off+len(data), cp)
		if c.Off >= vh {
			copy(buf[c.Off-vh:], hdr)
		}
		copy(buf[c.Off:], data)
		bufs[i] = buf
	}
	tw, err := tun.VerifHandleGRO(bufs, c.Off, c.UDP)
	c.Err = err != nil
	c.TW = append([]int{}, tw...)
	c.Out = nil
	c.Second = nil
	for _, i := range tw {
		b := bufs[i]
		var h []byte
		if c.Off >= vh {
			h = b[c.Off-vh : c.Off]
		} else {
			h = make([]byte, vh)
		}
		c.Out = append(c.Out, Buf{Hdr: hex.EncodeToString(h), Data: hex.EncodeToString(b[c.Off:])})
		if !c.Err && c.Off >= vh && b[c.Off-vh+1] != 0 && len(b)-c.Off <= 65535 {
			c.Second = append(c.Second, secondOpinion(b[c.Off-vh:])...)
		}
	}
}

// secondOpinion splits a written GSO buffer with the repository's read-side
// splitter and verifies the checksums of the pieces with gVisor.
func secondOpinion(withHdr []byte) []string {
	in := append([]byte(nil), withHdr...)
	n := 200
	outs := make([][]byte, n)
	for i := range outs {
		outs[i] = make([]byte, 65535+16)
	}
	sizes := make([]int, n)
	k, err := tun.VerifHandleVirtioRead(in, outs, sizes, 0)
	if err != nil {
		return []string{"gsoSplit: " + err.Error()}
	}
	var res []string
	for i := 0; i < k; i++ {
		p := outs[i][:sizes[i]]
		var src, dst tcpip.Address
		var l4 []byte
		var proto byte
		if p[0]>>4 == 4 {
			h := header.IPv4(p)
			if !h.IsChecksumValid() {
				res = append(res, fmt.Sprintf("segment %d: IPv4 header checksum invalid", i))
			}
			src, dst, l4, proto = h.SourceAddress(), h.DestinationAddress(), p[20:], p[9]
		} else {
			h := header.IPv6(p)
			src, dst, l4, proto = h.SourceAddress(), h.DestinationAddress(), p[40:], p[6]
		}
		ps := header.PseudoHeaderChecksum(tcpip.TransportProtocolNumber(proto), src, dst, uint16(len(l4)))
		if checksum.Checksum(l4, ps) != 0xffff {
			res = append(res, fmt.Sprintf("segment %d: transport checksum invalid", i))
		}
	}
	return res
}

// ---------------------------------------------------------------------------
// generators

type gen struct {
	r *rand.Rand
}

func (g *gen) payload(n int) []byte {
	b := make([]byte, n)
	switch g.r.Intn(4) {
	case 0: // mostly zero (checksum edge: sums to little)
		if n > 0 {
			b[g.r.Intn(n)] = byte(g.r.Intn(256))
		}
	case 1:
		for i := range b {
			b[i] = 0xff
		}
	default:
		g.r.Read(b)
	}
	return b
}

func (g *gen) pick(xs ...int) int { return xs[g.r.Intn(len(xs))] }

type flowPkts struct {
	pkts []*Pkt
}

var tcpOptSets = [][]byte{
	nil,
	{1, 1, 1, 0},                           // nop nop nop eol
	{1, 1, 8, 10, 0, 0, 0, 1, 0, 0, 0, 2},  // timestamps
	{1, 1, 8, 10, 0, 0, 0, 1, 0, 0, 0, 3},  // timestamps, other value
	{2, 4, 5, 180, 1, 3, 3, 7, 4, 2, 0, 0}, // mss wscale sackperm
	make([]byte, 40),                       // maximal header
}

// sizes of a flow's segments according to a pattern
func (g *gen) sizes(n int, big bool) []int {
	base := g.pick(1, 2, 7, 100, 100, 536, 1200, 1448)
	if big {
		// enough to run up against 65535, but no single case of a megabyte (a case cannot be
		// split over shards: it would set the wall time of the whole run)
		base = g.pick(1200, 1448)
		if n <= 12 {
			base = g.pick(1448, 8000)
		}
	}
	out := make([]int, n)
	switch g.r.Intn(6) {
	case 0, 1: // all equal
		for i := range out {
			out[i] = base
		}
	case 2: // short tail
		for i := range out {
			out[i] = base
		}
		out[n-1] = 1 + g.r.Intn(base)
	case 3: // short one in the middle
		for i := range out {
			out[i] = base
		}
		out[g.r.Intn(n)] = 1 + g.r.Intn(base)
	case 4: // one larger
		for i := range out {
			out[i] = base
		}
		out[g.r.Intn(n)] = base + 1 + g.r.Intn(50)
	default: // random
		for i := range out {
			out[i] = 1 + g.r.Intn(base+20)
		}
	}
	return out
}

func (g *gen) ipKnobs(p *Pkt) {
	// a deviation in one of the header fields the coalescer must respect
	switch g.r.Intn(8) {
	case 0:
		p.TOS ^= byte(1 << g.r.Intn(8))
	case 1:
		p.TTL += byte(1 + g.r.Intn(3))
	case 2:
		if !p.V6 {
			p.Frag ^= 0x4000 // DF
		} else {
			p.TOS ^= 0x10
		}
	case 3:
		if !p.V6 {
			p.Frag ^= 0x8000 // reserved bit
		} else {
			p.TOS ^= 0x01
		}
	case 4:
		p.BadIP = true // IPv4 header checksum is not looked at by the coalescer
	case 5:
		p.ID += uint16(g.r.Intn(1000))
	default:
	}
}

// tcpFlow generates the packets of one TCP connection direction in arrival order.
func (g *gen) tcpFlow(v6 bool, id int, n int, big bool) []*Pkt {
	r := g.r
	seq0 := []uint32{1, 1000, 0xffffffff - uint32(r.Intn(3000)), 0x7fffffff, uint32(r.Uint32()), 0xffffff00, 0}[r.Intn(7)]
	sz := g.sizes(n, big)
	opts := tcpOptSets[r.Intn(len(tcpOptSets))]
	if r.Intn(2) == 0 {
		opts = nil
	}
	base := Pkt{V6: v6, Proto: 6, Src: byte(1 + id%3), Dst: byte(10 + id%2), Sport: uint16(1000 + id), Dport: uint16(80 + r.Intn(2)),
		Ack: uint32(1 + r.Intn(3)), Flags: 0x10, Win: uint16(r.Intn(65536)), TTL: 64, ID: uint16(r.Intn(65536)),
		Frag: uint16(r.Intn(2)) << 14, TOS: byte(r.Intn(2) * 0x28), FlowLabel: uint32(r.Intn(1 << 20)), Opts: opts}
	pk := make([]*Pkt, n)
	seq := seq0
	for i := 0; i < n; i++ {
		p := base
		p.Seq = seq
		p.Payload = g.payload(sz[i])
		p.ID = base.ID + uint16(i)
		seq += uint32(sz[i])
		pk[i] = &p
	}
	mode := r.Intn(12)
	reordered := false
	switch mode {
	case 0, 1, 2: // in order
	case 3: // reversed: every packet is prepended
		for i, j := 0, n-1; i < j; i, j = i+1, j-1 {
			pk[i], pk[j] = pk[j], pk[i]
		}
		reordered = true
	case 4: // shuffled
		r.Shuffle(n, func(i, j int) { pk[i], pk[j] = pk[j], pk[i] })
		reordered = true
	case 5: // one packet late
		if n > 2 {
			i := r.Intn(n - 1)
			p := pk[i]
			copy(pk[i:], pk[i+1:])
			j := i + r.Intn(n-i)
			copy(pk[j+1:], pk[j:n-1])
			pk[j] = p
			reordered = true
		}
	case 6: // duplicate one
		d := *pk[r.Intn(n)]
		pk = append(pk, nil)
		j := r.Intn(n + 1)
		copy(pk[j+1:], pk[j:n])
		pk[j] = &d
		reordered = true
	case 7: // a gap or an overlap
		i := r.Intn(n)
		d := uint32(1 + r.Intn(3))
		for j := i; j < n; j++ {
			if r.Intn(2) == 0 || j > i {
				pk[j].Seq += d
			}
		}
		if r.Intn(2) == 0 {
			pk[i].Seq -= 2 * d
		}
		reordered = true // an overlap can create backward adjacency
	case 8: // the two halves swapped
		h := n / 2
		pk = append(pk[h:], pk[:h]...)
		reordered = true
	default:
	}
	// per-packet deviations
	for _, p := range pk {
		switch x := r.Intn(40); {
		case x == 0:
			p.Flags = []byte{0x11, 0x12, 0x14, 0x30, 0x00, 0x02, 0x19, 0x50, 0x90}[r.Intn(9)] // FIN SYN RST URG none ...
			if p.Flags&0x20 != 0 {
				p.Urg = uint16(r.Intn(100))
			}
		case x == 1:
			g.ipKnobs(p)
		case x == 2:
			p.Opts = tcpOptSets[r.Intn(len(tcpOptSets))]
		case x == 3:
			p.BadL4 = true
		case x == 4:
			p.Ack++
		case x == 5:
			p.Win++
		case x == 6:
			p.Rsvd = byte(r.Intn(16))
			p.Urg = uint16(r.Intn(3))
		case x == 7 && !v6:
			p.Frag = []uint16{0x2000, 0x0001, 0x00b9, 0x2001, 0x6000}[r.Intn(5)] // fragments
		case x == 8:
			p.LenDelta = g.pick(-1, 1, 4, -20)
		case x == 9:
			p.Pad = g.pick(1, 2, 6)
		case x == 10 && !v6:
			p.IPOpts = []byte{1, 1, 1, 0}
		case x == 11:
			p.Payload = nil // pure ACK
		case x == 12:
			p.DataOff = byte(g.pick(4, 15, 6, 3))
		case x == 13 && v6:
			p.FlowLabel ^= uint32(1 << r.Intn(20)) // another flow label within the 5-tuple
		}
	}
	// PSH at the end, somewhere, or scattered (also in reordered flows: a PSH-ending item may get a prepend)
	_ = reordered
	switch r.Intn(4) {
	case 0:
		pk[len(pk)-1].Flags |= 0x08
	case 1:
		pk[r.Intn(len(pk))].Flags |= 0x08
	case 2:
		for _, p := range pk {
			if r.Intn(4) == 0 {
				p.Flags |= 0x08
			}
		}
	}
	return pk
}

func (g *gen) udpFlow(v6 bool, id int, n int, big bool) []*Pkt {
	r := g.r
	sz := g.sizes(n, big)
	base := Pkt{V6: v6, Proto: 17, Src: byte(1 + id%3), Dst: byte(10 + id%2), Sport: uint16(2000 + id), Dport: uint16(53 + r.Intn(2)),
		TTL: 64, ID: uint16(r.Intn(65536)), Frag: uint16(r.Intn(2)) << 14, TOS: byte(r.Intn(2) * 0x28), FlowLabel: uint32(r.Intn(1 << 20))}
	var pk []*Pkt
	for i := 0; i < n; i++ {
		p := base
		p.Payload = g.payload(sz[i])
		p.ID = base.ID + uint16(i)
		switch x := r.Intn(40); {
		case x == 0:
			g.ipKnobs(&p)
		case x == 1:
			p.BadL4 = true
		case x == 2:
			p.ZeroUDP = true
		case x == 3 && !v6:
			p.Frag = []uint16{0x2000, 0x0001, 0x2010}[r.Intn(3)]
		case x == 5 && v6:
			p.FlowLabel ^= uint32(1 << r.Intn(20))
		case x == 4:
			// a datagram the coalescer skips: keep it out of coalescable flows
			// (see the dedicated scenario gro-udp-noncandidate-overtaken)
			p.Sport += 5000
			switch r.Intn(4) {
			case 0:
				p.Payload = nil
			case 1:
				if !v6 {
					p.IPOpts = []byte{1, 1, 1, 0}
				} else {
					p.Payload = nil
				}
			case 2:
				p.LenDelta = g.pick(-1, 1, 8)
			case 3:
				p.Pad = g.pick(1, 3)
			}
		}
		pk = append(pk, &p)
	}
	return pk
}

func (g *gen) otherPkt(id int) *Pkt {
	r := g.r
	p := &Pkt{Src: 7, Dst: 8, TTL: 64, Sport: uint16(9000 + id), Dport: 9}
	switch r.Intn(9) {
	case 0: // ICMP
		p.Proto = 1
		p.Payload = g.payload(8 + r.Intn(64))
	case 1: // ICMPv6
		p.V6 = true
		p.Proto = 58
		p.Payload = g.payload(8 + r.Intn(64))
	case 2: // tiny
		p.Proto = 17
		p.Payload = nil
		p.Sport += 5000
	case 3: // IPv6 with a hop-by-hop header in front of TCP
		p.V6 = true
		p.Proto = 0
		p.Payload = append([]byte{6, 0, 1, 4, 0, 0, 0, 0}, g.payload(40)...)
	case 4: // GRE
		p.Proto = 47
		p.Payload = g.payload(30 + r.Intn(100))
	case 5: // version garbage
		p.Proto = 6
		p.Payload = g.payload(30)
		p.Version = byte(g.pick(0, 5, 7, 15))
		if p.Version == 0 {
			p.Version = 1
		}
	case 6: // short TCP (no room for the header)
		p.Proto = 6
		p.V6 = r.Intn(2) == 0
		b := p.build()
		cut := 28 + r.Intn(12)
		if p.V6 {
			cut = 48 + r.Intn(12)
		}
		q := &Pkt{Proto: 255, Payload: nil}
		q.rawOverride(b[:cut])
		return q
	case 7: // one or two bytes
		q := &Pkt{}
		q.rawOverride(g.payload(1 + r.Intn(27)))
		return q
	default: // UDP with canUDPGRO possibly off, own flow
		p.Proto = 17
		p.V6 = r.Intn(2) == 0
		p.Payload = g.payload(1 + r.Intn(200))
	}
	return p
}

// raw packets (not produced by build) are kept in Garbage-independent storage
var rawStore = map[*Pkt][]byte{}

func (p *Pkt) rawOverride(b []byte) { rawStore[p] = append([]byte(nil), b...) }
func (p *Pkt) bytes() []byte {
	if b, ok := rawStore[p]; ok {
		return b
	}
	return p.build()
}

// batch assembles a case from per-flow packet lists, interleaving them.
func (g *gen) assemble(name string, flows [][]*Pkt, off int, udp bool, capMode int) Case {
	r := g.r
	var order []*Pkt
	idx := make([]int, len(flows))
	remaining := 0
	for _, f := range flows {
		remaining += len(f)
	}
	burst := g.pick(1, 1, 3, 8, 1000)
	for remaining > 0 {
		k := r.Intn(len(flows))
		for c := 0; c < 1+r.Intn(burst) && idx[k] < len(flows[k]); c++ {
			order = append(order, flows[k][idx[k]])
			idx[k]++
			remaining--
		}
	}
	c := Case{Gen: name, UDP: udp, Off: off}
	for _, p := range order {
		data := p.bytes()
		cp := p.Cap
		if cp == 0 {
			switch capMode {
			case 0: // what device uses: 65535-byte buffers
				cp = 65535
			case 1: // generous
				cp = 65535 + off
			case 4: // far beyond 65535 + 2*offset: only the 65535 guard stops the merging
				cp = 128 << 10
			case 2: // room for a few more segments only
				cp = off + len(data) + r.Intn(4)*len(data) + g.pick(0, 1, 2*off, 2*off-1, 2*off+1) - g.pick(0, 0, 20, 40)
			default: // exactly the packet
				cp = off + len(data)
			}
		}
		if cp < off+len(data) {
			cp = off + len(data)
		}
		h := make([]byte, vh)
		// The region in front of the packet holds stale bytes in real use (the WireGuard transport header).
		if p.Garbage != nil {
			copy(h, p.Garbage)
		} else {
			r.Read(h)
		}
		c.In = append(c.In, Buf{Cap: cp, Hdr: hex.EncodeToString(h), Data: hex.EncodeToString(data)})
	}
	return c
}

func (g *gen) randomBatch(i int) Case {
	r := g.r
	off := g.pick(16, 16, 16, 10, 10, 11, 32, 100)
	udp := r.Intn(5) != 0
	capMode := g.pick(0, 0, 0, 1, 2, 2, 3, 4)
	nf := 1 + r.Intn(5)
	total := 2 + r.Intn(39)
	big := false
	switch {
	case i%97 == 13: // a full batch of 128
		total = 128
		nf = 1 + r.Intn(8)
	case i%41 == 7: // large coalesced buffers: up against 65535
		total = 50 + r.Intn(14)
		nf = 1 + r.Intn(2)
		if r.Intn(3) == 0 {
			total, nf = 9+r.Intn(4), 1
		}
		big = true
		capMode = g.pick(0, 1, 4, 4)
	}
	var flows [][]*Pkt
	left := total
	for f := 0; f < nf && left > 0; f++ {
		n := 1 + r.Intn(left)
		if f == nf-1 {
			n = left
		}
		left -= n
		v6 := r.Intn(2) == 0
		switch x := r.Intn(10); {
		case x == 0 && !big && n >= 4:
			flows = append(flows, g.runsFlow(v6, f, n))
		case x < 5:
			flows = append(flows, g.tcpFlow(v6, f, n, big))
		case x < 8:
			flows = append(flows, g.udpFlow(v6, f, n, big))
		default:
			var o []*Pkt
			for k := 0; k < n && k < 6; k++ {
				o = append(o, g.otherPkt(f*10+k))
			}
			flows = append(flows, o)
		}
	}
	twinned := false
	if r.Intn(8) == 0 && total < 100 && !big {
		// add the flow-key twin of one of the TCP/UDP flows
		for _, k := range r.Perm(len(flows)) {
			f := flows[k]
			if len(f) == 0 || (f[0].Proto != 6 && f[0].Proto != 17) {
				continue
			}
			ncomp := 4
			if f[0].Proto == 6 {
				ncomp = 5
			}
			x := byte(1 << uint(r.Intn(8)))
			if r.Intn(3) == 0 {
				x = byte(1 + r.Intn(255))
			}
			flows = append(flows, twinFlow(f, r.Intn(ncomp), r.Intn(3), r.Intn(14), x))
			twinned = true
			break
		}
	}
	kind := fmt.Sprintf("random/off%d/cap%d", off, capMode)
	if twinned {
		kind += "/twin"
	}
	if big {
		kind = "random-big"
	}
	if total == 128 {
		kind = "random-128"
	}
	return g.assemble(kind, flows, off, udp, capMode)
}

// boundary batches: capacity exactly at / one below what a merge needs
func (g *gen) capBoundary() Case {
	r := g.r
	off := g.pick(10, 16, 40)
	v6 := r.Intn(2) == 0
	tcp := r.Intn(3) != 0
	n := 2 + r.Intn(4)
	var f []*Pkt
	if tcp {
		f = g.tcpFlow(v6, 1, n, false)
	} else {
		f = g.udpFlow(v6, 1, n, false)
	}
	// total length of everything merged into the first packet
	hl := 28
	if tcp {
		hl = 40 + len(f[0].Opts)
	}
	if v6 {
		hl += 20
	}
	tot := 0
	for _, p := range f {
		tot += len(p.bytes()) - hl
	}
	k := r.Intn(len(f))
	need := 0
	for i := 0; i <= k; i++ {
		need += len(f[i].bytes()) - hl
	}
	need += hl
	d := g.pick(-1, 0, 0, 1)
	for _, p := range f {
		p.Cap = need + 2*off + d // cap - 2*offset >= coalescedLen is the test
	}
	_ = tot
	return g.assemble("cap-boundary", [][]*Pkt{f}, off, true, 0)
}

// error return: offset below the header size, or an empty packet
func (g *gen) errorCase() Case {
	f := g.tcpFlow(false, 1, 3, false)
	off := g.pick(0, 5, 9, 16)
	c := g.assemble("invalid-offset", [][]*Pkt{f}, off, true, 0)
	if off >= vh {
		c.In[1].Data = ""
	}
	return c
}

func mkTCP(v6 bool, seq uint32, flags byte, n int) *Pkt {
	pl := make([]byte, n)
	for i := range pl {
		pl[i] = byte(i*7 + int(seq))
	}
	return &Pkt{V6: v6, Proto: 6, Src: 1, Dst: 2, Sport: 1, Dport: 1, Seq: seq, Ack: 1, Flags: flags, TTL: 64, Payload: pl, Win: 1000}
}

// The scenarios of the four repaired defects (regression cases: they must pass now and carry the
// old signature if the defect returns) and of the one known finding (UDP order).
func dedicated() []Case {
	g := &gen{r: rand.New(rand.NewSource(16))}
	var out []Case
	// F5 (fixed 4a9316a): buffers with capacity beyond 65535+2*offset: 60 x 1200-byte segments, cap 128 KiB
	{
		var f []*Pkt
		for i := 0; i < 60; i++ {
			p := mkTCP(false, uint32(1+1200*i), 0x10, 1200)
			p.Cap = 128 << 10
			p.Garbage = make([]byte, vh)
			f = append(f, p)
		}
		c := g.assemble("regression/coalesce-past-65535-with-large-cap", [][]*Pkt{f}, 16, true, 0)
		for i := range c.In {
			c.In[i].Cap = 128 << 10
		}
		out = append(out, c)
	}
	// F8: one 5-tuple, the second segment carries another IPv6 flow label
	{
		a, b, c3 := mkTCP(true, 1, 0x10, 100), mkTCP(true, 101, 0x10, 100), mkTCP(true, 201, 0x10, 100)
		a.FlowLabel, b.FlowLabel, c3.FlowLabel = 0xAAAAA, 0xBBBBB, 0xAAAAA
		out = append(out, g.assemble("regression/ipv6-flow-label-ignored", [][]*Pkt{{a, b, c3}}, 16, true, 0))
	}
	// new: a TCP item whose checksum turns out invalid is dropped from the table, its
	// virtio header is never written (the bytes in front of the packet stay as they were)
	{
		a, b := mkTCP(false, 1, 0x10, 100), mkTCP(false, 101, 0x10, 100)
		a.BadL4 = true
		// what device leaves there: bytes 2-3 of the receiver index and the 8-byte counter of the transport message
		a.Garbage = []byte{0x3c, 0x9a, 5, 0, 0, 0, 0, 0, 0, 0}
		b.Garbage = []byte{0x3c, 0x9a, 6, 0, 0, 0, 0, 0, 0, 0}
		c := g.assemble("regression/stale-virtio-hdr-after-invalid-csum-item", [][]*Pkt{{a, b}}, 16, true, 0)
		c.In[0].Hdr = hex.EncodeToString(a.Garbage)
		c.In[1].Hdr = hex.EncodeToString(b.Garbage)
		out = append(out, c)
	}
	// new: a segment prepended to an item that ends with PSH: the PSH bit is lost
	{
		a, b := mkTCP(false, 101, 0x18, 100), mkTCP(false, 1, 0x10, 100)
		out = append(out, g.assemble("regression/prepend-drops-psh", [][]*Pkt{{a, b}}, 16, true, 0))
	}
	// fixed (C16-fix-ns): the second of two adjacent segments carries the NS/AE flag (TCP byte 12 = 0x51)
	{
		a, b := mkTCP(false, 1, 0x10, 100), mkTCP(false, 101, 0x10, 100)
		b.Rsvd = 1
		out = append(out, g.assemble("regression/tcp-ns-flag-lost-in-merge", [][]*Pkt{{a, b}}, 16, true, 0))
	}
	// new: a zero-length UDP datagram is overtaken by a later datagram of its flow
	{
		mk := func(n int) *Pkt {
			return &Pkt{Proto: 17, Src: 1, Dst: 2, Sport: 5, Dport: 6, TTL: 64, Payload: make([]byte, n)}
		}
		out = append(out, g.assemble("finding/udp-noncandidate-overtaken", [][]*Pkt{{mk(100), mk(0), mk(100)}}, 16, true, 0))
	}
	return out
}

// the batches of Test_handleGRO's first table entry, as a fixed regression case
// Flow-key twins: a second flow whose key differs from the first one's in exactly ONE component
// (one byte of the source or destination address -- first, a middle or the last byte --, the source
// port, the destination port, for TCP also the acknowledgement number), everything else equal and
// the packets lined up so that they would merge if that component dropped out of the key.
const (
	twSrcAddr = iota
	twDstAddr
	twSport
	twDport
	twAck
)

var twinCompName = []string{"src-addr", "dst-addr", "src-port", "dst-port", "ack"}
var twinPosName = []string{"first-byte", "middle-byte", "last-byte"}

// keyTwin changes component comp of p's flow key (pos: address byte class, x: non-zero XOR value).
func keyTwin(p *Pkt, comp, pos, mid int, x byte) *Pkt {
	q := *p
	n := 4
	if p.V6 {
		n = 16
	}
	at := []int{0, 1 + mid%(n-2), n - 1}[pos]
	switch comp {
	case twSrcAddr:
		q.SrcX = make([]byte, n)
		copy(q.SrcX, p.SrcX)
		q.SrcX[at] ^= x
	case twDstAddr:
		q.DstX = make([]byte, n)
		copy(q.DstX, p.DstX)
		q.DstX[at] ^= x
	case twSport:
		q.Sport ^= uint16(x) << (8 * uint(pos%2))
	case twDport:
		q.Dport ^= uint16(x) << (8 * uint(pos%2))
	case twAck:
		q.Ack ^= uint32(x) << (8 * uint(pos))
	}
	return &q
}

// twinFlow returns the twin of a whole flow; a TCP twin continues the sequence numbers of the
// original (its first segment is adjacent to the original's last one and to earlier ones).
func twinFlow(f []*Pkt, comp, pos, mid int, x byte) []*Pkt {
	var out []*Pkt
	for _, p := range f {
		q := keyTwin(p, comp, pos, mid, x)
		q.Payload = append([]byte(nil), p.Payload...)
		if p.Proto == 6 {
			q.Seq = p.Seq + uint32(len(p.Payload))
		}
		out = append(out, q)
	}
	return out
}

// every class once, on small batches: A1 B1 A2 B2 and A1 A2 B1 B2
func twinCases() []Case {
	g := &gen{r: rand.New(rand.NewSource(7))}
	var cs []Case
	for _, proto := range []byte{17, 6} {
		for _, v6 := range []bool{false, true} {
			ncomp := 4
			if proto == 6 {
				ncomp = 5
			}
			for comp := 0; comp < ncomp; comp++ {
				for pos := 0; pos < 3; pos++ {
					var a []*Pkt
					for i := 0; i < 2; i++ {
						if proto == 6 {
							p := mkTCP(v6, uint32(1+100*i), 0x10, 100)
							p.Sport, p.Dport = 4000, 443
							a = append(a, p)
						} else {
							a = append(a, &Pkt{V6: v6, Proto: 17, Src: 1, Dst: 2, Sport: 4000, Dport: 123, TTL: 64, Payload: g.payload(100)})
						}
					}
					b := twinFlow(a, comp, pos, 6, 0x01)
					name := fmt.Sprintf("twin/%s%s/%s/%s", map[byte]string{6: "tcp", 17: "udp"}[proto], map[bool]string{false: "4", true: "6"}[v6], twinCompName[comp], twinPosName[pos])
					order := []*Pkt{a[0], b[0], a[1], b[1]}
					if (comp+pos)%2 == 1 {
						order = []*Pkt{a[0], a[1], b[0], b[1]}
					}
					cs = append(cs, g.assemble(name, [][]*Pkt{order}, 16, true, 0))
				}
			}
		}
	}
	return cs
}

// A packet with a bad transport checksum at each position of a flow: [pre] good packets, the bad one,
// [post] good packets that could be appended to it (equal sizes, adjacent sequence numbers; for UDP the
// last one also shorter).  The bad one must be written as it came, nothing may be merged with it, and
// what leaves the kernel must still fail verification.
func badCsumCases() []Case {
	g := &gen{r: rand.New(rand.NewSource(11))}
	var cs []Case
	for _, proto := range []byte{17, 6} {
		for _, v6 := range []bool{false, true} {
			for pre := 0; pre < 3; pre++ {
				for post := 0; post < 3; post++ {
					var f []*Pkt
					for i := 0; i < pre+1+post; i++ {
						n := 100
						if proto == 17 && post == 2 && i == pre+post {
							n = 40
						}
						var p *Pkt
						if proto == 6 {
							p = mkTCP(v6, uint32(1+100*i), 0x10, n)
						} else {
							p = &Pkt{V6: v6, Proto: 17, Src: 1, Dst: 2, Sport: 7, Dport: 8, TTL: 64, Payload: g.payload(n)}
						}
						p.BadL4 = i == pre
						f = append(f, p)
					}
					name := fmt.Sprintf("badcsum/%s%s/%d-before/%d-after", map[byte]string{6: "tcp", 17: "udp"}[proto], map[bool]string{false: "4", true: "6"}[v6], pre, post)
					cs = append(cs, g.assemble(name, [][]*Pkt{f}, 16, true, 0))
				}
			}
		}
	}
	return cs
}

// Several items of ONE TCP flow in the table, a deletion among them, retransmissions.
// A flow is a set of runs (contiguous sequence ranges far apart from each other); every run is an item
// of the flow's table entry.  A run that begins with a bad-checksum segment is deleted from the table
// when the next segment lines up with it (behind: append side, in front: prepend side).  After that the
// other runs are extended and segments are sent AGAIN (same sequence range): a retransmission has no
// neighbour it may be merged with -- unless the table still holds a stale copy of an item.
func tcpSeg(v6 bool, id int, seq uint32, n int, bad bool) *Pkt {
	p := mkTCP(v6, seq, 0x10, n)
	p.Sport, p.Dport, p.Ack = uint16(3000+id), 443, 7777
	p.BadL4 = bad
	return p
}

func deleteCases() []Case {
	g := &gen{r: rand.New(rand.NewSource(13))}
	var cs []Case
	for _, v6 := range []bool{false, true} {
		for _, badFirst := range []bool{true, false} {
			for _, side := range []string{"append", "prepend"} {
				for _, dup := range []string{"last-appended", "middle", "first", "after-delete", "bad", "two-appended"} {
					a := tcpSeg(v6, 0, 1000, 100, true)
					b := tcpSeg(v6, 0, 1, 100, false)
					d := tcpSeg(v6, 0, 101, 100, false)
					c := tcpSeg(v6, 0, 1100, 100, false) // behind A
					if side == "prepend" {
						c = tcpSeg(v6, 0, 900, 100, false) // in front of A
					}
					f := tcpSeg(v6, 0, 201, 100, false)
					var f0 []*Pkt
					if badFirst {
						f0 = []*Pkt{a, b, d, c, f}
					} else {
						f0 = []*Pkt{b, d, a, c, f}
					}
					switch dup {
					case "last-appended":
						f0 = append(f0, tcpSeg(v6, 0, 201, 100, false))
					case "middle":
						f0 = append(f0, tcpSeg(v6, 0, 101, 100, false))
					case "first":
						f0 = append(f0, tcpSeg(v6, 0, 1, 100, false))
					case "after-delete":
						f0 = append(f0, tcpSeg(v6, 0, c.Seq, 100, false), tcpSeg(v6, 0, c.Seq+100, 100, false))
					case "bad":
						f0 = append(f0, tcpSeg(v6, 0, 1000, 100, false), tcpSeg(v6, 0, 1000, 100, true))
					case "two-appended":
						f0 = append(f0, tcpSeg(v6, 0, 301, 100, false), tcpSeg(v6, 0, 201, 100, false), tcpSeg(v6, 0, 301, 100, false), tcpSeg(v6, 0, 401, 100, false))
					}
					name := fmt.Sprintf("delete/tcp%s/bad-item-%s/%s/again-%s", map[bool]string{false: "4", true: "6"}[v6],
						map[bool]string{true: "first", false: "after-group"}[badFirst], side, dup)
					cs = append(cs, g.assemble(name, [][]*Pkt{f0}, 16, true, 0))
				}
			}
		}
	}
	return cs
}

// runsFlow: the random form: 2..4 runs of 1..4 segments, some beginning with a bad checksum, emitted
// interleaved (in order within a run, sometimes a run backwards = prepends), then 1..4 retransmissions
// of earlier segments and continuations of the runs mixed in.
func (g *gen) runsFlow(v6 bool, id int, n int) []*Pkt {
	r := g.r
	size := g.pick(50, 100, 100, 300)
	nr := 2 + r.Intn(3)
	type run struct {
		lo, next uint32
	}
	runs := make([]*run, nr)
	for i := range runs {
		base := uint32(1 + 10000*i)
		if r.Intn(6) == 0 {
			base = 0xffffff00 - uint32(100*i)
		}
		runs[i] = &run{lo: base, next: base}
	}
	var out, sent []*Pkt
	emit := func(k int, bad bool) {
		p := tcpSeg(v6, id, runs[k].next, size, bad)
		p.Payload = g.payload(size)
		runs[k].next += uint32(size)
		out = append(out, p)
		sent = append(sent, p)
	}
	// first segment of each run; about half of the runs begin with a bad checksum
	for _, k := range r.Perm(nr) {
		emit(k, r.Intn(2) == 0)
	}
	for len(out) < n {
		switch x := r.Intn(10); {
		case x < 6: // continue a run
			emit(r.Intn(nr), r.Intn(12) == 0)
		case x < 9: // send an earlier segment again (same range; now and then with new content or a repaired checksum)
			o := sent[r.Intn(len(sent))]
			if r.Intn(2) == 0 {
				o = sent[len(sent)-1-r.Intn(min(3, len(sent)))]
			}
			q := *o
			q.BadL4 = o.BadL4 && r.Intn(2) == 0
			if r.Intn(4) == 0 {
				q.Payload = g.payload(len(o.Payload))
			}
			out = append(out, &q)
		default: // a segment in front of a run (prepend side)
			k := r.Intn(nr)
			runs[k].lo -= uint32(size)
			p := tcpSeg(v6, id, runs[k].lo, size, false)
			p.Payload = g.payload(size)
			out = append(out, p)
			sent = append(sent, p)
		}
	}
	return out
}

// Adjacent segments of one flow that differ ONLY in the NS/AE flag (bit 0 of TCP byte 12): set on one
// segment of a run of three (first / middle / last), or clear on one while set on the others.
func nsFlagCases() []Case {
	g := &gen{r: rand.New(rand.NewSource(17))}
	var cs []Case
	for _, v6 := range []bool{false, true} {
		for pos := 0; pos < 3; pos++ {
			for _, set := range []bool{true, false} {
				var f []*Pkt
				for i := 0; i < 3; i++ {
					p := tcpSeg(v6, 1, uint32(1+100*i), 100, false)
					if (i == pos) == set {
						p.Rsvd = 1
					}
					f = append(f, p)
				}
				name := fmt.Sprintf("nsflag/tcp%s/%s/%s", map[bool]string{false: "4", true: "6"}[v6], twinPosName[pos][:len(twinPosName[pos])-5],
					map[bool]string{true: "set-on-one", false: "clear-on-one"}[set])
				cs = append(cs, g.assemble(name, [][]*Pkt{f}, 16, true, 0))
			}
		}
	}
	return cs
}

func fixedCases() []Case {
	g := &gen{r: rand.New(rand.NewSource(5))}
	t4 := func(dst byte, seq uint32) *Pkt { p := mkTCP(false, seq, 0x10, 100); p.Dst = dst; return p }
	t6 := func(dst byte, seq uint32) *Pkt { p := mkTCP(true, seq, 0x10, 100); p.Dst = dst; return p }
	u := func(v6 bool, dst byte) *Pkt {
		return &Pkt{V6: v6, Proto: 17, Src: 1, Dst: dst, Sport: 1, Dport: 1, TTL: 64, Payload: make([]byte, 100)}
	}
	tc := u(true, 2)
	tc.TOS = 1
	f := []*Pkt{t4(2, 1), u(false, 2), u(false, 3), t4(2, 101), t4(3, 201), t6(2, 1), t6(2, 101), t6(3, 201), u(false, 2), u(true, 2), tc}
	c := g.assemble("fixed/multiple-protocols-and-flows", [][]*Pkt{f}, 10, true, 0)
	// wrap-around of the sequence number inside a merge, prepend chain, PSH terminating
	w := []*Pkt{mkTCP(false, 0xffffff9c, 0x10, 100), mkTCP(false, 0, 0x10, 100), mkTCP(false, 100, 0x18, 50), mkTCP(false, 150, 0x10, 100)}
	c2 := g.assemble("fixed/seq-wrap-psh", [][]*Pkt{w}, 16, true, 0)
	pr := []*Pkt{mkTCP(true, 301, 0x10, 100), mkTCP(true, 201, 0x10, 100), mkTCP(true, 101, 0x10, 100), mkTCP(true, 1, 0x10, 150)}
	c3 := g.assemble("fixed/prepend-chain", [][]*Pkt{pr}, 16, true, 0)
	// a larger segment lining up in front of an item that already holds two smaller ones:
	// must NOT be prepended (gsoSize would be raised and the kernel would cut at wrong boundaries)
	lp := []*Pkt{mkTCP(false, 151, 0x10, 100), mkTCP(false, 251, 0x10, 100), mkTCP(false, 1, 0x10, 150)}
	c4 := g.assemble("fixed/larger-prepend-onto-two", [][]*Pkt{lp}, 16, true, 0)
	// a UDP candidate with a bad checksum between two good ones of its flow: it must get its own
	// item so that the third is not merged into the first (order)
	ud := func(n int, bad bool) *Pkt {
		return &Pkt{Proto: 17, Src: 1, Dst: 2, Sport: 7, Dport: 8, TTL: 64, Payload: make([]byte, n), BadL4: bad}
	}
	c5 := g.assemble("fixed/udp-bad-checksum-in-the-middle", [][]*Pkt{{ud(100, false), ud(100, true), ud(100, false)}}, 16, true, 0)
	u6 := func(n int, bad bool) *Pkt {
		return &Pkt{V6: true, Proto: 17, Src: 1, Dst: 2, Sport: 7, Dport: 8, TTL: 64, Payload: make([]byte, n), BadL4: bad}
	}
	c6 := g.assemble("fixed/udp6-bad-checksum-in-the-middle", [][]*Pkt{{u6(100, false), u6(100, true), u6(100, false), u6(40, false)}}, 16, true, 0)
	return []Case{c, c2, c3, c4, c5, c6}
}

// writeSeq: several Write calls on one device.  Flows continue across the calls (sequence-adjacent
// segments, further datagrams of a UDP flow); some calls fail with "invalid offset" after packets
// have already been entered into the tables (an empty buffer later in the batch) or at once (offset
// below the virtio header size); the following calls must not be influenced by them.
func (g *gen) writeSeq(id int) []Case {
	r := g.r
	udp := r.Intn(4) != 0
	off := g.pick(16, 16, 10, 32)
	// the flows: each a list of packets in order, dealt out to the calls
	nflows := 2 + r.Intn(3)
	var flows [][]*Pkt
	for f := 0; f < nflows; f++ {
		n := 3 + r.Intn(7)
		v6 := r.Intn(2) == 0
		var pk []*Pkt
		if r.Intn(3) != 0 {
			base := g.pick(50, 100, 100, 300)
			seq := []uint32{1, 5000, 0xffffff00}[r.Intn(3)]
			for i := 0; i < n; i++ {
				p := mkTCP(v6, seq, 0x10, base)
				p.Src, p.Dst, p.Sport = byte(1+f), 9, uint16(100+f)
				seq += uint32(base)
				pk = append(pk, p)
			}
		} else {
			for i := 0; i < n; i++ {
				pk = append(pk, &Pkt{V6: v6, Proto: 17, Src: byte(1 + f), Dst: 9, Sport: uint16(200 + f), Dport: 53, TTL: 64, Payload: g.payload(100)})
			}
		}
		flows = append(flows, pk)
	}
	ncalls := 2 + r.Intn(3)
	idx := make([]int, nflows)
	var calls []Case
	var pre []PreCall
	for c := 0; c < ncalls; c++ {
		var batch [][]*Pkt
		// every flow contributes 0..3 of its next packets, flow order rotated so that index 0 changes owner
		for k := 0; k < nflows; k++ {
			f := (k + c) % nflows
			take := r.Intn(4)
			var part []*Pkt
			for t := 0; t < take && idx[f] < len(flows[f]); t++ {
				part = append(part, flows[f][idx[f]])
				idx[f]++
			}
			if len(part) > 0 {
				batch = append(batch, part)
			}
		}
		if len(batch) == 0 {
			batch = append(batch, []*Pkt{g.otherPkt(id)})
		}
		coff := off
		fail := ""
		switch r.Intn(5) {
		case 0:
			fail = "empty"
		case 1:
			if c > 0 {
				fail = "offset"
				coff = g.pick(0, 9)
			}
		}
		cs := g.assemble(fmt.Sprintf("write/%s", map[string]string{"": "ok", "empty": "invalid-offset-after-tabled-packets", "offset": "offset-below-header"}[fail]), batch, coff, udp, 0)
		// assemble interleaves the parts; keep the order of the parts instead (flow by flow)
		if fail == "empty" && len(cs.In) >= 1 {
			at := 1 + r.Intn(len(cs.In))
			e := Buf{Cap: 2048, Hdr: hex.EncodeToString(make([]byte, vh)), Data: ""}
			cs.In = append(cs.In[:at], append([]Buf{e}, cs.In[at:]...)...)
		}
		cs.W = true
		cs.Pre = append([]PreCall(nil), pre...)
		calls = append(calls, cs)
		pre = append(pre, PreCall{Off: coff, In: cs.In})
	}
	return calls
}

// shortIHLCases — IPv4 datagrams whose header-length nibble is below 5 (malformed: never a GRO
// candidate).  The bytes are laid out so that, were the nibble believed, the bytes behind the
// 4*IHL-byte "header" parse as a well-formed TCP segment of one flow with adjacent sequence
// numbers and a checksum that verifies under that reading: a candidate test that lets such a
// datagram through merges the pair.
func shortIHLCases() []Case {
	g := &gen{r: rand.New(rand.NewSource(19))}
	mk := func(ihlWords int, seq uint32, n int) *Pkt {
		ihl := 4 * ihlWords
		if ihl < 12 {
			ihl = 12 // the protocol byte and the source address must stay where they are read
		}
		total := 20 + 20 + n
		b := make([]byte, total)
		b[0] = 0x40 | byte(ihlWords)
		binary.BigEndian.PutUint16(b[2:], uint16(total))
		binary.BigEndian.PutUint16(b[4:], 0x1234)
		b[8], b[9] = 64, 6
		copy(b[12:], []byte{192, 0, 2, 1, 192, 0, 2, 2})
		th := 4 * ihlWords // where a parser that believes the nibble looks for the TCP header
		if th+20 > total {
			th = total - 20
		}
		if th >= 16 {
			binary.BigEndian.PutUint32(b[th+4:], seq)
			binary.BigEndian.PutUint32(b[th+8:], 1)
			b[th+12], b[th+13] = 5<<4, 0x10
			binary.BigEndian.PutUint16(b[th+14:], 3000)
			for i := th + 20; i < total; i++ {
				b[i] = byte(i*3 + int(seq))
			}
			sum := sum16(b[12:16], 0)
			sum = sum16(b[16:20], sum)
			sum += 6 + uint32(total-th)
			binary.BigEndian.PutUint16(b[th+16:], ^fold(sum16(b[th:], sum)))
		}
		binary.BigEndian.PutUint16(b[10:], ^fold(sum16(b[:20], 0)))
		p := &Pkt{Proto: 6, Src: 1, Dst: 2}
		p.rawOverride(b)
		return p
	}
	var cs []Case
	for _, w := range []int{4, 4, 3, 0, 1, 2} {
		n := g.pick(100, 100, 64)
		f := []*Pkt{mk(w, 1000, n), mk(w, 1000+uint32(n+20-4*w+0), n)}
		if w == 4 {
			// under the shifted reading the payload is 4 bytes longer than n
			f[1] = mk(w, 1000+uint32(n+4), n)
		}
		cs = append(cs, g.assemble(fmt.Sprintf("shortihl/ihl-%d", w), [][]*Pkt{f}, 16, true, 0))
	}
	return cs
}

// poolSeqCases — the GRO tables persist across Write calls and recycle their item slices from a
// pool of 128: k earlier calls that each delete the sole item of a flow (bad checksum found when
// its neighbour arrives), then one call with 128 distinct TCP flows.  Every buffer of that last
// call must still be written.
func poolSeqCases() []Case {
	g := &gen{r: rand.New(rand.NewSource(23))}
	var pre []PreCall
	var cs []Case
	for k := 0; k < 3; k++ {
		a := mkTCP(false, 1, 0x10, 100)
		a.Src, a.Sport, a.BadL4 = byte(10+k), uint16(900+k), true
		b := mkTCP(false, 101, 0x10, 100)
		b.Src, b.Sport = byte(10+k), uint16(900+k)
		c := g.assemble("write/pool/bad-checksum-sole-item-then-neighbour", [][]*Pkt{{a, b}}, 16, true, 0)
		c.W = true
		c.Pre = append([]PreCall(nil), pre...)
		cs = append(cs, c)
		pre = append(pre, PreCall{Off: 16, In: c.In})
	}
	var flows [][]*Pkt
	for f := 0; f < 128; f++ {
		p := mkTCP(f%2 == 1, 7, 0x10, 40)
		p.Src, p.Sport = byte(1+f%100), uint16(2000+f)
		flows = append(flows, []*Pkt{p})
	}
	c := g.assemble("write/pool/128-flows-after-deletions", flows, 16, true, 0)
	c.W = true
	c.Pre = append([]PreCall(nil), pre...)
	cs = append(cs, c)
	return cs
}

// the shape of the write-after-failed-write scenario, fixed
func fixedWriteSeq() []Case {
	g := &gen{r: rand.New(rand.NewSource(7))}
	fl := func(dst byte, seq uint32) *Pkt { p := mkTCP(false, seq, 0x10, 100); p.Dst = dst; return p }
	c1 := g.assemble("write/fixed/failing-call-after-tabled-packet", [][]*Pkt{{fl(2, 1)}}, 16, true, 0)
	c1.In = append(c1.In, Buf{Cap: 2048, Hdr: hex.EncodeToString(make([]byte, vh)), Data: ""})
	c1.W = true
	c2 := g.assemble("write/fixed/call-after-failed-call", [][]*Pkt{{fl(3, 5000), fl(2, 101)}}, 16, true, 0)
	c2.W = true
	c2.Pre = []PreCall{{Off: 16, In: c1.In}}
	c3 := g.assemble("write/fixed/continuing-flows", [][]*Pkt{{fl(2, 201), fl(3, 5100), fl(2, 301)}}, 16, true, 0)
	c3.W = true
	c3.Pre = []PreCall{{Off: 16, In: c1.In}, {Off: 16, In: c2.In}}
	return []Case{c1, c2, c3}
}

// ---------------------------------------------------------------------------
// Gallina output

func packInts(b []byte) string {
	var sb strings.Builder
	sb.WriteString("[")
	for i := 0; i < len(b); i += 7 {
		var v uint64
		for j := 0; j < 7 && i+j < len(b); j++ {
			v |= uint64(b[i+j]) << (8 * uint(j))
		}
		if i > 0 {
			sb.WriteString(";")
		}
		fmt.Fprintf(&sb, "%d", v)
	}
	sb.WriteString("]")
	return sb.String()
}

func galBuf(b Buf) string {
	h, _ := hex.DecodeString(b.Hdr)
	d, _ := hex.DecodeString(b.Data)
	all := append(append([]byte(nil), h...), d...)
	return fmt.Sprintf("mkbuf %d %d %s", b.Cap, len(all), packInts(all))
}

func gallina(c Case) string {
	var sb strings.Builder
	if c.W {
		fmt.Fprintf(&sb, "mkw %v %d [", c.UDP, c.Off)
		for i, b := range c.In {
			if i > 0 {
				sb.WriteString(";\n  ")
			}
			sb.WriteString(galBuf(b))
		}
		fmt.Fprintf(&sb, "] %v [", c.Err)
		for i, b := range c.Out {
			if i > 0 {
				sb.WriteString(";\n  ")
			}
			sb.WriteString(galBuf(b))
		}
		sb.WriteString("]")
		return sb.String()
	}
	fmt.Fprintf(&sb, "mk %v %d [", c.UDP, c.Off)
	for i, b := range c.In {
		if i > 0 {
			sb.WriteString(";\n  ")
		}
		sb.WriteString(galBuf(b))
	}
	fmt.Fprintf(&sb, "] %v [", c.Err)
	for i, x := range c.TW {
		if i > 0 {
			sb.WriteString(";")
		}
		fmt.Fprintf(&sb, "%d", x)
	}
	sb.WriteString("] [")
	for i, b := range c.Out {
		if i > 0 {
			sb.WriteString(";\n  ")
		}
		sb.WriteString(galBuf(b))
	}
	sb.WriteString("]")
	return sb.String()
}

func writeShard(path string, cases []Case) error {
	var b strings.Builder
	b.WriteString("From Coq Require Import Uint63.\nFrom WG Require Import Base.Prelude Gro.Model Gro.Check.\nLocal Open Scope uint63_scope.\nDefinition cases : list case := [\n")
	for i, c := range cases {
		if i > 0 {
			b.WriteString(";\n")
		}
		b.WriteString(gallina(c))
	}
	b.WriteString("].\nDefinition res := Eval vm_compute in (run_cases cases).\nDefinition bad := Eval vm_compute in (fst res).\nPrint bad.\nDefinition st := Eval vm_compute in (snd res).\nPrint st.\n")
	return os.WriteFile(path, []byte(b.String()), 0o644)
}

func size(c Case) int {
	n := 0
	for _, b := range c.In {
		n += len(b.Data)/2 + vh
	}
	for _, b := range c.Out {
		n += len(b.Data)/2 + vh
	}
	return n
}

func main() {
	seed := flag.Int64("seed", 1, "PRNG seed")
	n := flag.Int("n", 300, "number of random batches")
	shards := flag.Int("shards", 16, "case files")
	out := flag.String("out", "out/C16", "output directory")
	replayIn := flag.String("replay", "", "JSON file with cases (inputs only) to run; observed outputs are filled in")
	corpus := flag.String("corpus", "", "directory of corpus JSON cases to prepend")
	noFindings := flag.Bool("no-findings", false, "leave out the scenario of the known finding (UDP order)")
	flag.Parse()
	if err := os.MkdirAll(*out, 0o755); err != nil {
		panic(err)
	}
	// the numbers the model has as literals
	want := map[string]uint64{"virtioNetHdrLen": vh}
	for _, k := range tun.VerifConstants() {
		if v, ok := want[k.Name]; ok && v != k.Val {
			panic(fmt.Sprintf("constant %s is %d, harness assumes %d", k.Name, k.Val, v))
		}
	}
	if unix.VIRTIO_NET_HDR_F_NEEDS_CSUM != 1 || unix.VIRTIO_NET_HDR_GSO_NONE != 0 || unix.VIRTIO_NET_HDR_GSO_TCPV4 != 1 ||
		unix.VIRTIO_NET_HDR_GSO_TCPV6 != 4 || unix.VIRTIO_NET_HDR_GSO_UDP_L4 != 5 || unix.IPPROTO_TCP != 6 || unix.IPPROTO_UDP != 17 {
		panic("uapi constants differ from the literals in Gro/Model.v and Gro/KernelSpec.v")
	}
	var cases []Case
	if *replayIn != "" {
		data, err := os.ReadFile(*replayIn)
		if err != nil {
			panic(err)
		}
		if err := json.Unmarshal(data, &cases); err != nil {
			panic(err)
		}
		for i := range cases {
			runImpl(&cases[i])
		}
	} else {
		if *corpus != "" {
			files, _ := filepath.Glob(filepath.Join(*corpus, "*.json"))
			sort.Strings(files)
			for _, f := range files {
				data, err := os.ReadFile(f)
				if err != nil {
					continue
				}
				var cs []Case
				if json.Unmarshal(data, &cs) == nil {
					for _, c := range cs {
						c.Gen = "corpus/" + filepath.Base(f)
						cases = append(cases, c)
					}
				}
			}
		}
		for _, c := range dedicated() {
			if *noFindings && strings.HasPrefix(c.Gen, "finding/") {
				continue
			}
			cases = append(cases, c)
		}
		cases = append(cases, fixedCases()...)
		cases = append(cases, twinCases()...)
		cases = append(cases, badCsumCases()...)
		cases = append(cases, deleteCases()...)
		cases = append(cases, nsFlagCases()...)
		cases = append(cases, fixedWriteSeq()...)
		cases = append(cases, shortIHLCases()...)
		cases = append(cases, poolSeqCases()...)
		g := &gen{r: rand.New(rand.NewSource(*seed))}
		for i := 0; i < *n; i++ {
			switch {
			case i%10 == 3:
				cases = append(cases, g.capBoundary())
			case i%50 == 49:
				cases = append(cases, g.errorCase())
			default:
				cases = append(cases, g.randomBatch(i))
			}
		}
		// write path: sequences of Write calls on one device
		for i := 0; i < *n/8+2; i++ {
			cases = append(cases, g.writeSeq(i)...)
		}
		for i := range cases {
			runImpl(&cases[i])
		}
	}
	// balance the shards by byte volume (the cost of a case in Coq is linear in it)
	if *shards > len(cases) {
		*shards = len(cases)
	}
	type shardInfo struct {
		File  string `json:"file"`
		Cases []int  `json:"cases"` // global indices
	}
	order := make([]int, len(cases))
	for i := range order {
		order[i] = i
	}
	sort.SliceStable(order, func(a, b int) bool { return size(cases[order[a]]) > size(cases[order[b]]) })
	load := make([]int, *shards)
	members := make([][]int, *shards)
	for _, ci := range order {
		best := 0
		for s := range load {
			if load[s] < load[best] {
				best = s
			}
		}
		load[best] += size(cases[ci]) + 2000
		members[best] = append(members[best], ci)
	}
	var infos []shardInfo
	for s := 0; s < *shards; s++ {
		sort.Ints(members[s])
		name := fmt.Sprintf("cases_C16_%d.v", s)
		var cs []Case
		for _, ci := range members[s] {
			cs = append(cs, cases[ci])
		}
		if err := writeShard(filepath.Join(*out, name), cs); err != nil {
			panic(err)
		}
		infos = append(infos, shardInfo{name, members[s]})
	}
	total := 0
	for _, c := range cases {
		total += size(c)
	}
	meta := map[string]any{"seed": *seed, "cases": cases, "shards": infos, "bytes": total}
	data, _ := json.Marshal(meta)
	if err := os.WriteFile(filepath.Join(*out, "cases.json"), data, 0o644); err != nil {
		panic(err)
	}
}
