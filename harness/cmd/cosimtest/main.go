// cosimtest is a smoke test of the co-simulation library (not a registered check).
package main

import (
	"fmt"
	"time"

	"wgv/cosim"
	"wgv/ref"
)

func main() {
	a := cosim.NewPeer("A", "192.0.2.7:5555", "10.0.0.2/32")
	b := cosim.NewPeer("B", "192.0.2.8:6666", "10.0.1.0/24", "fd00::/64")
	b.Psk = ref.NewPrivate()
	w, err := cosim.NewWorld(cosim.Config{Up: true, BindBatch: 4, TunBatch: 4}, true, a, b)
	if err != nil {
		panic(err)
	}
	defer w.Close()
	t0 := time.Now()
	_, out, sess, err := w.RefInitiates(a, a.Addr, ref.Tai64n(time.Now()))
	fmt.Println("ref initiates:", err, len(out.Sent), w.DescribeAll(out.Sent)[0].Kind, time.Since(t0))
	inner := ref.IPv4([4]byte{10, 0, 0, 2}, [4]byte{10, 9, 9, 9}, 61, 7)
	out = w.Inject(a.Addr, sess.Next(ref.Pad(inner)))
	fmt.Println("transport -> tun writes:", len(out.Written), len(out.Written[0].Data), "sent:", len(out.Sent))
	// device initiates toward B
	pkt := ref.IPv4([4]byte{10, 9, 9, 9}, [4]byte{10, 0, 1, 77}, 100, 1)
	out = w.TunIn(pkt)
	init := cosim.FindInitiation(out.Sent)
	fmt.Println("tun -> ", len(out.Sent), w.DescribeAll(out.Sent)[0])
	sb, out, err := w.AnswerInitiation(b, init.Data, b.Addr)
	fmt.Println("answer:", err, len(out.Sent))
	for _, d := range w.DescribeAll(out.Sent) {
		fmt.Printf("  %s to %s recv=%d ctr=%d opens=%s plain=%d\n", d.Kind, d.To, d.Receiver, d.Counter, d.OpensAs, len(d.Plain))
	}
	_ = sb
	t0 = time.Now()
	for i := 0; i < 200; i++ {
		w.Inject(a.Addr, sess.Next(ref.Pad(inner)))
	}
	fmt.Println("200 steps:", time.Since(t0), "slow:", w.SlowSteps)
	st := w.Dev.VerifPeer(cosim.NoisePK(a.Pub))
	fmt.Printf("peer A: %+v\n", st.Current)
}
