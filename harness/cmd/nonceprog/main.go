// nonceprog — translator (G) for C04: reads the SOURCE of package device of the tree under test
// and prints, as Gallina (Gen/NonceProg.v),
//
//	prog  : the thread program of SendStagedPackets over Keypair.sendNonce
//	        (guard in front of the loop, numbering expression, over-limit test, clamp), and
//	sites : every other access to a field named sendNonce in the package (function, operation).
//
// Nonce/Prog.v interprets `prog`; Props/C04.v states that it equals the program the all-schedules
// proof is about and that every other site is a Load or the Store(RejectAfterMessages) that the
// model's action Expire stands for.  Files with a `//go:build verif` constraint and tests are
// not part of the tree under test and are skipped.
//
// What is trusted here: go/parser, the shape recognition below (it renders what it recognises and
// emits OOther / p_extra for everything else, so an unrecognised access can only break the
// obligation, never satisfy it), and that atomic.Uint64 methods mean what sync/atomic says.
package main

import (
	"bytes"
	"flag"
	"fmt"
	"go/ast"
	"go/parser"
	"go/printer"
	"go/token"
	"os"
	"path/filepath"
	"sort"
	"strconv"
	"strings"
)

const field = "sendNonce"

var fset = token.NewFileSet()

// constants the generated file may refer to by name (all defined in Gen/Constants.v)
var constNames = map[string]bool{"RejectAfterMessages": true, "RekeyAfterMessages": true}

func src(n ast.Node) string {
	var b bytes.Buffer
	printer.Fprint(&b, fset, n)
	return b.String()
}

// constant argument -> Gallina N term, ok
func constArg(e ast.Expr) (string, bool) {
	switch v := e.(type) {
	case *ast.ParenExpr:
		return constArg(v.X)
	case *ast.BasicLit:
		if v.Kind == token.INT {
			if n, err := strconv.ParseUint(v.Value, 0, 64); err == nil {
				return strconv.FormatUint(n, 10), true
			}
		}
	case *ast.Ident:
		if constNames[v.Name] {
			return v.Name, true
		}
	case *ast.UnaryExpr:
		// ^uint64(0) : all ones
		if v.Op == token.XOR {
			if c, ok := v.X.(*ast.CallExpr); ok && len(c.Args) == 1 {
				if id, ok := c.Fun.(*ast.Ident); ok && id.Name == "uint64" {
					if s, ok := constArg(c.Args[0]); ok {
						if n, err := strconv.ParseUint(s, 10, 64); err == nil {
							return strconv.FormatUint(^n, 10), true
						}
					}
				}
			}
		}
	case *ast.CallExpr:
		// uint64(<const>)
		if id, ok := v.Fun.(*ast.Ident); ok && id.Name == "uint64" && len(v.Args) == 1 {
			return constArg(v.Args[0])
		}
	}
	return "", false
}

// isFieldSel: x.sendNonce
func isFieldSel(e ast.Expr) bool {
	s, ok := e.(*ast.SelectorExpr)
	return ok && s.Sel.Name == field
}

// atomicCall: x.sendNonce.M(args) -> (M, args)
func atomicCall(e ast.Expr) (string, []ast.Expr, bool) {
	c, ok := e.(*ast.CallExpr)
	if !ok {
		return "", nil, false
	}
	s, ok := c.Fun.(*ast.SelectorExpr)
	if !ok || !isFieldSel(s.X) {
		return "", nil, false
	}
	return s.Sel.Name, c.Args, true
}

func renderOp(m string, args []ast.Expr) string {
	switch m {
	case "Load":
		if len(args) == 0 {
			return "OLoad"
		}
	case "Store":
		if len(args) == 1 {
			if a, ok := constArg(args[0]); ok {
				return "(OStore " + a + ")"
			}
		}
	case "Add":
		if len(args) == 1 {
			if a, ok := constArg(args[0]); ok {
				return "(OAdd " + a + ")"
			}
		}
	}
	return "OOther"
}

type access struct {
	pos  token.Pos
	op   string
	used bool
}

// all accesses to the field inside n, in source order; a selector that is not the receiver of a
// method call (address taken, copied, assigned) is OOther
func accesses(n ast.Node) []*access {
	var res []*access
	seen := map[ast.Expr]bool{}
	ast.Inspect(n, func(x ast.Node) bool {
		if e, ok := x.(ast.Expr); ok {
			if m, args, ok := atomicCall(e); ok {
				c := e.(*ast.CallExpr)
				seen[c.Fun.(*ast.SelectorExpr).X] = true
				res = append(res, &access{pos: e.Pos(), op: renderOp(m, args)})
				return true
			}
			if isFieldSel(e) && !seen[e] {
				res = append(res, &access{pos: e.Pos(), op: "OOther"})
			}
		}
		return true
	})
	sort.SliceStable(res, func(i, j int) bool { return res[i].pos < res[j].pos })
	return res
}

func mark(acc []*access, pos token.Pos) {
	for _, a := range acc {
		if a.pos == pos {
			a.used = true
		}
	}
}

func cmpName(t token.Token) (string, bool) {
	switch t {
	case token.GEQ:
		return "CGe", true
	case token.GTR:
		return "CGt", true
	case token.LEQ:
		return "CLe", true
	case token.LSS:
		return "CLt", true
	case token.EQL:
		return "CEq", true
	case token.NEQ:
		return "CNe", true
	}
	return "", false
}

func flip(c string) string {
	switch c {
	case "CGe":
		return "CLe"
	case "CGt":
		return "CLt"
	case "CLe":
		return "CGe"
	case "CLt":
		return "CGt"
	}
	return c
}

type prog struct {
	top, over, clamp string
	add, sub         string
	extra            []string
	notes            []string
}

// the thread program of SendStagedPackets
func extractProg(fn *ast.FuncDecl) prog {
	p := prog{top: "None", over: "None", clamp: "None", add: "0", sub: "0"}
	acc := accesses(fn.Body)
	var numLHS string
	var numPos token.Pos
	// 1. numbering: <lhs> = x.sendNonce.Add(a) [- b]
	ast.Inspect(fn.Body, func(x ast.Node) bool {
		as, ok := x.(*ast.AssignStmt)
		if !ok || len(as.Lhs) != 1 || len(as.Rhs) != 1 || numLHS != "" {
			return true
		}
		rhs := as.Rhs[0]
		sub := "0"
		if b, ok := rhs.(*ast.BinaryExpr); ok && b.Op == token.SUB {
			if s, ok := constArg(b.Y); ok {
				rhs, sub = b.X, s
			}
		}
		if m, args, ok := atomicCall(rhs); ok && m == "Add" && len(args) == 1 {
			if a, ok := constArg(args[0]); ok {
				p.add, p.sub = a, sub
				numLHS, numPos = src(as.Lhs[0]), as.Pos()
				mark(acc, rhs.Pos())
			}
		}
		return true
	})
	if numLHS == "" {
		p.notes = append(p.notes, "no statement of the form `v = x.sendNonce.Add(c) - c'` found")
	}
	// 2. guard in front of the loop: a comparison of x.sendNonce.Load() with a constant inside an
	//    if-condition that precedes the numbering statement and whose body returns
	ast.Inspect(fn.Body, func(x ast.Node) bool {
		is, ok := x.(*ast.IfStmt)
		if !ok || p.top != "None" || (numPos != token.NoPos && is.Pos() > numPos) {
			return true
		}
		returns := false
		for _, s := range is.Body.List {
			if _, ok := s.(*ast.ReturnStmt); ok {
				returns = true
			}
		}
		if !returns {
			return true
		}
		// only disjuncts of the condition count: `a || b || c` returns when any holds
		var disj func(e ast.Expr)
		disj = func(e ast.Expr) {
			switch v := e.(type) {
			case *ast.ParenExpr:
				disj(v.X)
			case *ast.BinaryExpr:
				if v.Op == token.LOR {
					disj(v.X)
					disj(v.Y)
					return
				}
				if c, ok := cmpName(v.Op); ok && p.top == "None" {
					if m, args, ok := atomicCall(v.X); ok && m == "Load" && len(args) == 0 {
						if k, ok := constArg(v.Y); ok {
							p.top = fmt.Sprintf("(Some (%s, %s))", c, k)
							mark(acc, v.X.Pos())
						}
					} else if m, args, ok := atomicCall(v.Y); ok && m == "Load" && len(args) == 0 {
						if k, ok := constArg(v.X); ok {
							p.top = fmt.Sprintf("(Some (%s, %s))", flip(c), k)
							mark(acc, v.Y.Pos())
						}
					}
				}
			}
		}
		disj(is.Cond)
		return true
	})
	// 3. over-limit test on the numbered value and the clamp inside it
	if numLHS != "" {
		ast.Inspect(fn.Body, func(x ast.Node) bool {
			is, ok := x.(*ast.IfStmt)
			if !ok || p.over != "None" || is.Pos() < numPos {
				return true
			}
			b, ok := is.Cond.(*ast.BinaryExpr)
			if !ok {
				return true
			}
			c, ok := cmpName(b.Op)
			if !ok {
				return true
			}
			var k string
			if src(b.X) == numLHS {
				k, ok = constArg(b.Y)
			} else if src(b.Y) == numLHS {
				k, ok = constArg(b.X)
				c = flip(c)
			} else {
				return true
			}
			if !ok {
				return true
			}
			// the held branch must not fall through into the numbered path
			leaves := false
			for _, s := range is.Body.List {
				if br, ok := s.(*ast.BranchStmt); ok && (br.Tok == token.CONTINUE || br.Tok == token.BREAK || br.Tok == token.GOTO) {
					leaves = true
				}
				if _, ok := s.(*ast.ReturnStmt); ok {
					leaves = true
				}
			}
			if !leaves {
				p.notes = append(p.notes, "the over-limit branch falls through to the numbered path")
				p.extra = append(p.extra, "OOther")
			}
			p.over = fmt.Sprintf("(Some (%s, %s))", c, k)
			in := accesses(is.Body)
			for i, a := range in {
				if i == 0 {
					p.clamp = "(Some " + a.op + ")"
				} else {
					p.extra = append(p.extra, a.op)
				}
				mark(acc, a.pos)
			}
			return true
		})
	}
	for _, a := range acc {
		if !a.used {
			p.extra = append(p.extra, a.op)
		}
	}
	return p
}

func main() {
	repo := flag.String("repo", "/repo", "tree under test")
	flag.Parse()
	dir := filepath.Join(*repo, "device")
	ents, err := os.ReadDir(dir)
	if err != nil {
		fmt.Fprintln(os.Stderr, err)
		os.Exit(2)
	}
	var files []*ast.File
	for _, e := range ents {
		n := e.Name()
		if !strings.HasSuffix(n, ".go") || strings.HasSuffix(n, "_test.go") {
			continue
		}
		f, err := parser.ParseFile(fset, filepath.Join(dir, n), nil, parser.ParseComments)
		if err != nil {
			fmt.Fprintln(os.Stderr, err)
			os.Exit(2)
		}
		verif := false
		for _, cg := range f.Comments {
			if cg.Pos() > f.Package {
				break
			}
			for _, c := range cg.List {
				if strings.HasPrefix(c.Text, "//go:build") && strings.Contains(c.Text, "verif") {
					verif = true
				}
			}
		}
		if verif {
			continue
		}
		files = append(files, f)
	}
	var p *prog
	type st struct{ fn, op, where string }
	var sites []st
	for _, f := range files {
		for _, d := range f.Decls {
			fn, ok := d.(*ast.FuncDecl)
			if !ok || fn.Body == nil {
				// package-level variable initialisers touching the field
				if gd, ok := d.(*ast.GenDecl); ok && gd.Tok == token.VAR {
					for _, a := range accesses(gd) {
						sites = append(sites, st{"<package var>", a.op, fset.Position(a.pos).String()})
					}
				}
				continue
			}
			if fn.Name.Name == "SendStagedPackets" {
				q := extractProg(fn)
				if p != nil {
					q.notes = append(q.notes, "more than one function named SendStagedPackets")
					q.extra = append(q.extra, "OOther")
				}
				p = &q
				continue
			}
			for _, a := range accesses(fn.Body) {
				sites = append(sites, st{fn.Name.Name, a.op, fset.Position(a.pos).String()})
			}
		}
	}
	if p == nil {
		p = &prog{top: "None", over: "None", clamp: "None", add: "0", sub: "0", extra: []string{"OOther"}, notes: []string{"no function SendStagedPackets"}}
	}
	sort.SliceStable(sites, func(i, j int) bool {
		if sites[i].fn != sites[j].fn {
			return sites[i].fn < sites[j].fn
		}
		return sites[i].op < sites[j].op
	})
	var b strings.Builder
	b.WriteString("(* GENERATED by harness/cmd/nonceprog from the source of package device of the tree under test. Do not edit. *)\n")
	b.WriteString("From WG Require Import Gen.Constants Nonce.ProgSyntax.\nLocal Open Scope N_scope. Local Open Scope string_scope.\n")
	for _, n := range p.notes {
		fmt.Fprintf(&b, "(* note: %s *)\n", strings.ReplaceAll(n, "*)", "* )"))
	}
	fmt.Fprintf(&b, "Definition prog : tprog := {| p_top := %s; p_add := %s; p_sub := %s; p_over := %s; p_clamp := %s; p_extra := [%s] |}.\n",
		p.top, p.add, p.sub, p.over, p.clamp, strings.Join(p.extra, "; "))
	b.WriteString("Definition sites : list site := [")
	for i, s := range sites {
		if i > 0 {
			b.WriteString(";")
		}
		fmt.Fprintf(&b, "\n  (%q, %s)", s.fn, s.op)
	}
	b.WriteString("].\n")
	fmt.Print(b.String())
}
