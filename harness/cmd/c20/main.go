// c20 co-simulates a real wireguard-go device built with BOUNDED pools
// (device.VerifPoolMax set before NewDevice) and, after every harness step,
// reads the five outstanding pool counts and what rests in the staged queues.
// Every step becomes one event of the accounting model Pools/Model.v; the case
// files compare the counts with the model's prediction (kind 1) and evaluate
// conservation on the observed counts (kind 2).
//
// A scenario is a plan: a list of action strings (see runner.do).  -replay
// re-runs plans.  Stall scenarios ("stall <branch>") run sustained traffic
// through one drop branch on a device with very small pools under a watchdog.
package main

import (
	"encoding/binary"
	"encoding/hex"
	"encoding/json"
	"errors"
	"flag"
	"fmt"
	"math/rand"
	"net/netip"
	"os"
	"path/filepath"
	"runtime"
	"sort"
	"strconv"
	"strings"
	"sync/atomic"
	"time"

	"golang.zx2c4.com/wireguard/device"
	"golang.zx2c4.com/wireguard/tun"

	"wgv/cosim"
	"wgv/ref"
	"wgv/sim"
)

type Step struct {
	Ev     string    `json:"ev"` // Gallina text of the event
	Counts [5]uint32 `json:"counts"`
	SElems int       `json:"staged_elems"`
	SConts int       `json:"staged_conts"`
	Owner  int       `json:"ownership_defects"` // VerifStagedOwnership: cleared + shared
	Lost   [5]int    `json:"autodraining"`      // what rests in stopped peers' autodraining queues, as a pool vector
}

type Case struct {
	Plan    []string `json:"plan"`
	Cfg     [3]int   `json:"cfg"` // tun batch, bind batch, receive functions
	Gen     string   `json:"gen"`
	Steps   []Step   `json:"steps,omitempty"`
	Skipped int      `json:"skipped,omitempty"`
	Slow    int      `json:"slow,omitempty"`
	Stuck   string   `json:"stuck,omitempty"`
	Stall   string   `json:"stall,omitempty"` // branch on which a small-pool device stopped making progress
	PoolMax uint32   `json:"pool_max,omitempty"`
	Items   int      `json:"items,omitempty"`
}

// ---------------------------------------------------------------- runner

type session struct {
	peer    int
	devIdx  uint32
	s       *ref.Session
	lastCtr uint64
	hasLast bool
}

type captured struct {
	peer   int
	devIdx uint32
	msg    []byte
}

type rpeer struct {
	id        int
	priv, pub ref.Key
	addr      netip.AddrPort
	lastInit  []byte
}

type runner struct {
	w          *cosim.World
	cfg        [3]int
	peers      map[int]*rpeer
	sessions   []*session
	inits      []captured
	nextRidx   uint32
	steps      []Step
	skipped    int
	stuck      string
	closed     bool
	poisoned   bool
	unobserved bool
	straggled  bool
	stale      map[int]func() bool // send calls held by callers that looked the peer up before it was stopped
	cookie     []byte              // cookie learnt from the device for floodSrc
	cookieOf   ref.Key             // device identity the cookie was issued under
}

var floodSrc = netip.MustParseAddrPort("198.51.100.77:7777")

func pkOf(k ref.Key) (o device.NoisePublicKey) { copy(o[:], k[:]); return }

func le32(b []byte) uint32 { return binary.LittleEndian.Uint32(b) }

func newRunner(cfg [3]int) (*runner, error) {
	w, err := cosim.NewWorld(cosim.Config{TunBatch: cfg[0], BindBatch: cfg[1]}, false)
	if err != nil {
		return nil, err
	}
	w.Bind.NumRecv = cfg[2]
	w.Timeout = 4 * time.Second
	r := &runner{w: w, cfg: cfg, peers: map[int]*rpeer{}, nextRidx: 0x5000}
	for i := 1; i <= 3; i++ {
		p := &rpeer{id: i, priv: ref.NewPrivate()}
		p.pub = ref.PubOf(p.priv)
		p.addr = netip.MustParseAddrPort(fmt.Sprintf("192.0.2.%d:%d", i, 5000+i))
		r.peers[i] = p
	}
	return r, nil
}

func (r *runner) record(ev string) {
	var st Step
	st.Ev = ev
	st.Counts = r.w.Dev.VerifPoolCounts()
	if !r.closed {
		for _, pk := range r.w.Dev.VerifPeerKeys() {
			st.SElems += r.w.Dev.VerifStagedPackets(pk)
			st.SConts += r.w.Dev.VerifPeer(pk).StagedLen
		}
		ic, ie, oc, oe := r.w.Dev.VerifAutodrainingQueues()
		st.Lost = [5]int{ic, oc, ie + oe, ie, oe}
		_, cleared, shared := r.w.Dev.VerifStagedOwnership()
		st.Owner = cleared + shared
		if r.unobserved {
			st.Owner = 4294967295
		} else if st.Owner > 0 {
			// a queued element that is not owned by its queue: going on could crash the device (nil buffer in the
			// encryption worker); the rest of the plan is skipped
			r.poisoned = true
		}
	}
	r.steps = append(r.steps, st)
}

func (r *runner) call(name string, f func()) bool {
	done := make(chan struct{})
	go func() { f(); close(done) }()
	select {
	case <-done:
		return true
	case <-time.After(10 * time.Second):
		r.stuck = name + " did not return"
		return false
	}
}

func (r *runner) up() bool { return r.w.Dev.VerifDeviceState() == 1 }

// collect handshake messages the device sent: initiations are captured for later answers
func (r *runner) harvest(out cosim.Out) {
	for _, s := range out.Sent {
		d := s.Data
		if len(d) == ref.InitiationSize && d[0] == ref.TypeInitiation {
			for _, p := range r.peers {
				if p.addr == s.To {
					r.inits = append(r.inits, captured{peer: p.id, devIdx: le32(d[4:8]), msg: append([]byte{}, d...)})
				}
			}
		}
	}
}

// slotOf tells in which keypair slot of the peer the device holds index idx (0 prev, 1 cur, 2 next), -1 none,
// -2 the index of the peer's pending handshake.
func (r *runner) slotOf(peer int, idx uint32) int {
	st := r.w.Dev.VerifPeer(pkOf(r.peers[peer].pub))
	if !st.Found {
		return -1
	}
	switch {
	case st.Previous.Present && st.Previous.LocalIndex == idx:
		return 0
	case st.Current.Present && st.Current.LocalIndex == idx:
		return 1
	case st.Next.Present && st.Next.LocalIndex == idx:
		return 2
	case st.HandshakeLocalIndex == idx && idx != 0:
		return -2
	}
	return -1
}

func (r *runner) sessionOf(peer, k int) *session {
	var mine []*session
	for _, s := range r.sessions {
		if s.peer == peer {
			mine = append(mine, s)
		}
	}
	if k < 0 {
		k += len(mine)
	}
	if k < 0 || k >= len(mine) {
		return nil
	}
	return mine[k]
}

func tunPacket(kind string) []byte {
	switch {
	case kind == "n":
		return ref.IPv4([4]byte{10, 9, 9, 9}, [4]byte{10, 99, 0, 1}, 60, 1)
	case kind == "n6":
		var s, d [16]byte
		s[0], d[0] = 0xfd, 0xfd
		return ref.IPv6(s, d, 80, 1)
	case kind == "v":
		p := ref.IPv4([4]byte{10, 9, 9, 9}, [4]byte{10, 0, 1, 77}, 60, 1)
		p[0] = 0x75
		return p
	case kind == "s":
		return []byte{0x45, 0, 0, 10, 0, 0, 0, 0, 64, 17}
	case kind == "s6":
		return []byte{0x60, 0, 0, 0, 0, 4, 17, 64, 1, 2, 3, 4}
	case kind == "e":
		return []byte{}
	case strings.HasPrefix(kind, "r"):
		j, _ := strconv.Atoi(kind[1:])
		return ref.IPv4([4]byte{10, 9, 9, 9}, [4]byte{10, 0, byte(j), 77}, 90, 1)
	}
	return nil
}

func tunGallina(kind string) string {
	switch kind {
	case "n", "n6":
		return "TDrop 0"
	case "v":
		return "TDrop 1"
	case "s", "s6":
		return "TDrop 2"
	case "e":
		return "TDrop 3"
	}
	return "TRoute " + kind[1:]
}

// buildDgram builds one datagram of a net action; it returns the bytes, the sender address, the Gallina dgram and a
// function to run on the device's reaction (to register sessions).  ok=false: the action does not apply.
func (r *runner) buildDgram(spec string) (data []byte, from netip.AddrPort, g string, after func(cosim.Out), ok bool) {
	f := strings.Fields(spec)
	arg := func(i int) int {
		if i < len(f) {
			v, _ := strconv.Atoi(f[i])
			return v
		}
		return 0
	}
	stranger := netip.MustParseAddrPort("198.51.100.9:999")
	switch f[0] {
	case "x":
		switch f[1] {
		case "runt":
			return []byte{4, 0, 0, 0, 1, 2, 3, 4, 5, 6}, stranger, "DSkip 0", nil, true
		case "type":
			d := make([]byte, 48)
			d[0] = 9
			return d, stranger, "DSkip 1", nil, true
		case "hsize":
			d := make([]byte, 100)
			d[0] = byte(1 + arg(2)%3)
			return d, stranger, "DSkip 2", nil, true
		case "index":
			d := make([]byte, 64)
			d[0] = 4
			binary.LittleEndian.PutUint32(d[4:], 0x0badf00d)
			return d, stranger, "DSkip 3", nil, true
		case "hsindex": // transport under the index of a pending handshake
			for _, p := range r.peers {
				st := r.w.Dev.VerifPeer(pkOf(p.pub))
				if st.Found && st.HandshakeLocalIndex != 0 {
					d := make([]byte, 64)
					d[0] = 4
					binary.LittleEndian.PutUint32(d[4:], st.HandshakeLocalIndex)
					return d, p.addr, "DSkip 4", nil, true
				}
			}
			return nil, stranger, "", nil, false
		}
	case "t": // t J S verdict
		j := arg(1)
		ss := r.sessionOf(j, arg(2))
		if ss == nil {
			return nil, stranger, "", nil, false
		}
		p := r.peers[j]
		inner := ref.IPv4([4]byte{10, 0, byte(j), 2}, [4]byte{10, 9, 9, 9}, 60, 3)
		v := 0
		var msg []byte
		switch f[3] {
		case "ok":
			msg = ss.s.Next(ref.Pad(inner))
		case "ka":
			v = 1
			msg = ss.s.Next(nil)
		case "auth":
			v = 2
			msg = ss.s.Next(ref.Pad(inner))
			msg[len(msg)-1] ^= 0x40
		case "replay":
			v = 3
			if !ss.hasLast {
				return nil, stranger, "", nil, false
			}
			msg = ss.s.Transport(ss.lastCtr, ref.Pad(inner))
		case "len":
			v = 4
			in := append([]byte{}, inner...)
			binary.BigEndian.PutUint16(in[2:], 2000)
			msg = ss.s.Next(ref.Pad(in))
		case "src":
			v = 5
			in := ref.IPv4([4]byte{10, 0, byte(j%3 + 1), 2}, [4]byte{10, 9, 9, 9}, 60, 3)
			msg = ss.s.Next(ref.Pad(in))
		case "ver":
			v = 6
			in := append([]byte{}, inner...)
			in[0] = 0x75
			msg = ss.s.Next(ref.Pad(in))
		default:
			return nil, stranger, "", nil, false
		}
		sl := r.slotOf(j, ss.devIdx)
		if sl == -1 {
			return msg, p.addr, "DSkip 3", nil, true
		}
		if sl == -2 {
			return msg, p.addr, "DSkip 4", nil, true
		}
		aged := false
		st := r.w.Dev.VerifPeer(pkOf(p.pub))
		for i, k := range []device.VerifKeypair{st.Previous, st.Current, st.Next} {
			if i == sl && time.Duration(k.AgeNanos) > 180*time.Second {
				aged = true
			}
		}
		if v != 2 && v != 3 && !aged {
			ctr := ss.s.SendCtr - 1
			after = func(cosim.Out) {
				if st := r.w.Dev.VerifPeer(pkOf(p.pub)); st.Found && st.Running {
					ss.lastCtr, ss.hasLast = ctr, true
				}
			}
		}
		return msg, p.addr, fmt.Sprintf("DData %d %d %d", j, sl, v), after, true
	case "h":
		switch f[1] {
		case "mac1":
			st := ref.CreateInitiation(ref.NewPrivate(), ref.NewPrivate(), r.w.DevPub, ref.Key{}, 7, ref.Tai64n(time.Now()))
			m := append([]byte{}, st.Msg...)
			m[120] ^= 1
			return m, stranger, "DHs 0 0", nil, true
		case "badinit": // valid MAC1, unknown static key
			st := ref.CreateInitiation(ref.NewPrivate(), ref.NewPrivate(), r.w.DevPub, ref.Key{}, 7, ref.Tai64n(time.Now()))
			return st.Msg, stranger, "DHs 2 0", nil, true
		case "oldts": // replay of the peer's last initiation
			p := r.peers[arg(2)]
			if p == nil || p.lastInit == nil {
				return nil, stranger, "", nil, false
			}
			return p.lastInit, p.addr, fmt.Sprintf("DHs 2 %d", p.id), nil, true
		case "init": // acceptable initiation from J (time passes first)
			p := r.peers[arg(2)]
			if p == nil {
				return nil, stranger, "", nil, false
			}
			dst := r.w.Dev.VerifPeer(pkOf(p.pub))
			if !dst.Found || !dst.Running {
				// the device does not know the sender (any more): refused after MAC1
				st := ref.CreateInitiation(p.priv, ref.NewPrivate(), r.w.DevPub, ref.Key{}, 7, ref.Tai64n(time.Now()))
				return st.Msg, p.addr, fmt.Sprintf("DHs 2 %d", p.id), nil, true
			}
			r.w.Dev.VerifShiftHandshakeTimes(pkOf(p.pub), 10*time.Second)
			r.nextRidx++
			st := ref.CreateInitiation(p.priv, ref.NewPrivate(), r.w.DevPub, ref.Key{}, r.nextRidx, ref.Tai64n(time.Now()))
			p.lastInit = st.Msg
			after = func(out cosim.Out) {
				for _, s := range out.Sent {
					if len(s.Data) == ref.ResponseSize && s.Data[0] == ref.TypeResponse {
						if sess, err := st.ConsumeResponse(s.Data); err == nil {
							r.sessions = append(r.sessions, &session{peer: p.id, devIdx: le32(s.Data[4:8]), s: sess})
						}
					}
				}
			}
			return st.Msg, p.addr, fmt.Sprintf("DHs 1 %d", p.id), after, true
		case "resp": // answer the newest captured initiation toward J
			j := arg(2)
			var c *captured
			for i := range r.inits {
				if r.inits[i].peer == j {
					c = &r.inits[i]
				}
			}
			if c == nil {
				return nil, stranger, "", nil, false
			}
			p := r.peers[j]
			rs, err := ref.ConsumeInitiation(c.msg, p.priv)
			if err != nil || rs.InitiatorStatic != r.w.DevPub {
				return nil, stranger, "", nil, false
			}
			r.nextRidx++
			resp, sess := rs.CreateResponse(ref.NewPrivate(), ref.Key{}, r.nextRidx)
			if r.slotOf(j, c.devIdx) != -2 {
				return resp, p.addr, fmt.Sprintf("DHs 4 %d", j), nil, true // no longer pending: refused
			}
			devIdx := c.devIdx
			after = func(out cosim.Out) {
				for _, s := range out.Sent {
					if _, _, _, err := sess.OpenTransport(s.Data); err == nil {
						r.sessions = append(r.sessions, &session{peer: j, devIdx: devIdx, s: sess})
						return
					}
				}
			}
			return resp, p.addr, fmt.Sprintf("DHs 3 %d", j), after, true
		case "badresp":
			d := make([]byte, ref.ResponseSize-32)
			d[0] = 2
			binary.LittleEndian.PutUint32(d[8:], 0x0badf00d)
			return ref.AppendMacs(d, r.w.DevPub, nil), stranger, "DHs 4 0", nil, true
		case "cookie":
			d := make([]byte, ref.CookieSize)
			d[0] = 3
			binary.LittleEndian.PutUint32(d[4:], 0x0badf00d)
			return d, stranger, "DHs 5 0", nil, true
		}
	}
	return nil, stranger, "", nil, false
}

// do executes one plan action; false = the runner is stuck.
func (r *runner) do(a string) bool {
	if (r.closed || r.poisoned) && !strings.HasPrefix(a, "gc") && !(r.closed && !r.poisoned && strings.HasPrefix(a, "latesend")) {
		r.skipped++
		return true
	}
	f := strings.Fields(a)
	arg := func(i int) int {
		if i < len(f) {
			v, _ := strconv.Atoi(f[i])
			return v
		}
		return 0
	}
	set := func(cfg string) bool { return r.call("IpcSet", func() { r.w.Dev.IpcSet(cfg) }) }
	switch f[0] {
	case "add": // add J [ep] [pka]
		p := r.peers[arg(1)]
		if p == nil {
			r.skipped++
			return true
		}
		cfg := "public_key=" + hex.EncodeToString(p.pub[:]) + "\n"
		pka := false
		for _, o := range f[2:] {
			if o == "ep" {
				cfg += "endpoint=" + p.addr.String() + "\n"
			}
			if o == "pka" {
				pka = true
				cfg += "persistent_keepalive_interval=25\n"
			}
		}
		cfg += fmt.Sprintf("allowed_ip=10.0.%d.0/24\n", p.id)
		if !set(cfg) {
			return false
		}
		r.harvest(r.w.Take())
		r.record(fmt.Sprintf("EAddPeer %d %v", p.id, pka))
	case "remove":
		p := r.peers[arg(1)]
		if p == nil {
			r.skipped++
			return true
		}
		if !set("public_key=" + hex.EncodeToString(p.pub[:]) + "\nremove=true\n") {
			return false
		}
		r.harvest(r.w.Take())
		r.record(fmt.Sprintf("ERemovePeer %d", p.id))
	case "removeall":
		if !set("replace_peers=true\n") {
			return false
		}
		r.harvest(r.w.Take())
		r.record("ERemoveAll")
	case "setkey":
		k := ref.NewPrivate()
		if !set("private_key=" + hex.EncodeToString(k[:]) + "\n") {
			return false
		}
		r.w.DevPriv, r.w.DevPub = k, ref.PubOf(k)
		r.inits = nil
		r.harvest(r.w.Take())
		r.record("ESetKey")
	case "up":
		if !r.call("Up", func() { r.w.Dev.Up() }) {
			return false
		}
		r.harvest(r.w.Take())
		r.record("EUp")
	case "down":
		if !r.call("Down", func() { r.w.Dev.Down() }) {
			return false
		}
		r.harvest(r.w.Take())
		r.record("EDown")
	case "close":
		if !r.call("Close", func() { r.w.Dev.Close() }) {
			return false
		}
		r.closed = true
		time.Sleep(2 * time.Millisecond)
		r.record("EClose")
	case "gc":
		// finalisers of the autodraining queues run on their own goroutine after a collection; when stragglers were
		// injected in this scenario something has to be collected: give the collector and the finaliser goroutine more
		// rounds (a peer can stay reachable for a moment from the stack of the goroutine that closed the device)
		r.stale = nil // callers that never got to make their call have gone away: the peers they held can be collected
		rounds := 2
		if r.straggled {
			rounds = 8
		}
		for i := 0; i < rounds; i++ {
			runtime.GC()
			time.Sleep(3 * time.Millisecond)
		}
		r.record("EGC")
	case "removeheld": // removeheld J : remove=true while J's sequential receiver is held inside tun.Write; one more datagram arrives meanwhile
		j := arg(1)
		p := r.peers[j]
		ss := r.sessionOf(j, -1)
		if !r.up() || p == nil || ss == nil {
			r.skipped++
			return true
		}
		sl := r.slotOf(j, ss.devIdx)
		if st := r.w.Dev.VerifPeer(pkOf(p.pub)); sl < 0 || !st.Found || !st.Running {
			r.skipped++
			return true
		}
		inner := ref.Pad(ref.IPv4([4]byte{10, 0, byte(j), 2}, [4]byte{10, 9, 9, 9}, 60, 3))
		gate := make(chan struct{})
		blocked := make(chan struct{})
		var first atomic.Bool
		r.w.Tun.WriteGate = func(bufs [][]byte) {
			if first.CompareAndSwap(false, true) {
				close(blocked)
				<-gate
			}
		}
		r.w.Bind.Inject(sim.Dgram{From: p.addr, Data: ss.s.Next(inner)})
		select {
		case <-blocked:
		case <-time.After(3 * time.Second):
			r.w.Tun.WriteGate = nil
			if first.CompareAndSwap(false, true) {
				r.skipped++
				r.w.Settle()
				return true
			}
		}
		done := make(chan struct{})
		go func() {
			r.w.Dev.IpcSet("public_key=" + hex.EncodeToString(p.pub[:]) + "\nremove=true\n")
			close(done)
		}()
		// RemovePeer now waits in Peer.Stop for the held receiver and holds the peer-map lock: no accessor that takes
		// that lock may be called until it has returned
		time.Sleep(20 * time.Millisecond)
		r.w.Bind.Inject(sim.Dgram{From: p.addr, Data: ss.s.Next(inner)})
		t0 := time.Now()
		for !r.w.Bind.Idle() && time.Since(t0) < 2*time.Second {
			time.Sleep(200 * time.Microsecond)
		}
		time.Sleep(20 * time.Millisecond)
		close(gate)
		select {
		case <-done:
		case <-time.After(10 * time.Second):
			r.stuck = "remove=true did not return"
			return false
		}
		r.w.Tun.WriteGate = nil
		r.harvest(r.w.Take())
		// the first datagram is delivered, the peer is removed, the second datagram found a peer that is being stopped
		// (its keypair still in the index table): nothing of this may stay outstanding
		// (the states in between cannot be read: only the last record is compared and judged)
		r.unobserved = true
		r.record(fmt.Sprintf("ENet [DData %d %d 0]", j, sl))
		r.record(fmt.Sprintf("ERemovePeer %d", j))
		r.unobserved = false
		r.record(fmt.Sprintf("ENet [DData %d %d 0]", j, sl))
	case "heldkeys": // heldkeys down|remove J : Stop lands between the entry test and the hand-off of SendStagedPackets
		j := arg(2)
		p := r.peers[j]
		if !r.up() || p == nil {
			r.skipped++
			return true
		}
		st := r.w.Dev.VerifPeer(pkOf(p.pub))
		if !st.Found || !st.Running || !st.Current.Present || st.Current.SendNonce >= device.RejectAfterMessages-8 ||
			time.Duration(st.Current.AgeNanos) > 100*time.Second || st.StagedLen != 0 {
			r.skipped++ // needs a peer that would send at once
			return true
		}
		release, ok := r.w.Dev.VerifHoldKeypairs(pkOf(p.pub))
		if !ok {
			r.skipped++
			return true
		}
		// the TUN reader routes the packet, stages it, passes the entry test of SendStagedPackets and waits for the
		// keypair set (no accessor that reads the keypair set may be called while it is held)
		r.w.Tun.Inject(ref.IPv4([4]byte{10, 9, 9, 9}, [4]byte{10, 0, byte(j), 77}, 90, 1))
		t0 := time.Now()
		for !r.w.Tun.Idle() && time.Since(t0) < 2*time.Second {
			time.Sleep(200 * time.Microsecond)
		}
		time.Sleep(20 * time.Millisecond)
		done := make(chan struct{})
		go func() {
			if f[1] == "remove" {
				r.w.Dev.IpcSet("public_key=" + hex.EncodeToString(p.pub[:]) + "\nremove=true\n")
			} else {
				r.w.Dev.Down()
			}
			close(done)
		}()
		time.Sleep(30 * time.Millisecond) // Stop has stopped the routines and waits in ZeroAndFlushAll for the keypair set
		release()
		select {
		case <-done:
		case <-time.After(10 * time.Second):
			r.stuck = "Stop did not return after the keypair set was released"
			return false
		}
		r.harvest(r.w.Take())
		r.unobserved = true
		r.record(fmt.Sprintf("ETun [TRoute %d]", j))
		r.unobserved = false
		if f[1] == "remove" {
			r.record(fmt.Sprintf("ERemovePeer %d", j))
		} else {
			r.record("EDown")
		}
	case "grab": // grab J : a caller looks peer J up now (no effect on the device); its send calls come with a later "latesend J"
		p := r.peers[arg(1)]
		if p == nil {
			r.skipped++
			return true
		}
		call, ok := r.w.Dev.VerifStaleSender(pkOf(p.pub))
		if !ok {
			r.skipped++
			return true
		}
		if r.stale == nil {
			r.stale = map[int]func() bool{}
		}
		r.stale[p.id] = call
	case "latesend": // latesend J : SendKeepalive + SendStagedPackets reach peer J after Peer.Stop has returned (Down / removal / Close), peer not restarted
		p := r.peers[arg(1)]
		if p == nil {
			r.skipped++
			return true
		}
		call := r.stale[p.id]
		delete(r.stale, p.id)
		if call == nil && !r.closed {
			call, _ = r.w.Dev.VerifStaleSender(pkOf(p.pub)) // still configured: looked up just before the stop, in effect
		}
		if call == nil {
			r.skipped++
			return true
		}
		made := false
		if !r.call("late send calls", func() { made = call() }) {
			return false
		}
		if !made { // the peer runs (again): an ordinary keepalive, not this event
			r.skipped++
			return true
		}
		if !r.closed {
			r.harvest(r.w.Take())
		}
		r.record(fmt.Sprintf("ELateSend %d", p.id))
	case "heldstraggle": // heldstraggle up|gc J KIN KOUT : stragglers whose containers a crypto worker still holds (locked) when the peer is restarted / its queues are finalised
		p := r.peers[arg(2)]
		kin, kout := arg(3), arg(4)
		if f[1] == "gc" {
			kout = 0 // an outbound straggler of a removed peer is never collected on the unchanged tree (known finding F12)
		}
		if p == nil || r.up() || kin+kout == 0 {
			r.skipped++
			return true
		}
		release, ok := r.w.Dev.VerifInjectLockedStragglers(pkOf(p.pub), kin, kout)
		if !ok {
			r.skipped++
			return true
		}
		r.straggled = true
		r.record(fmt.Sprintf("EStraggle %d %d %d", p.id, kin, kout))
		if f[1] == "gc" {
			if !set("public_key=" + hex.EncodeToString(p.pub[:]) + "\nremove=true\n") {
				release()
				return false
			}
			delete(r.stale, p.id)
			r.record(fmt.Sprintf("ERemovePeer %d", p.id))
		}
		done := make(chan struct{})
		go func() {
			if f[1] == "gc" {
				for i := 0; i < 4; i++ {
					runtime.GC()
					time.Sleep(2 * time.Millisecond)
				}
			} else {
				r.w.Dev.Up()
			}
			close(done)
		}()
		// the flush (Peer.Start inside Up, or the queue finaliser) has to wait for the crypto worker; the worker finishes
		// once the flush is seen waiting for the container (or the operation has returned without waiting, or 1 s passed)
		t0 := time.Now()
		returned := false
		for time.Since(t0) < time.Second && !returned && flushersWaiting() == 0 {
			select {
			case <-done:
				returned = true
			case <-time.After(500 * time.Microsecond):
			}
		}
		release()
		select {
		case <-done:
		case <-time.After(10 * time.Second):
			r.stuck = "restart / collection did not return after the crypto worker released the container"
			return false
		}
		if f[1] == "gc" {
			for i := 0; i < 8; i++ {
				runtime.GC()
				time.Sleep(3 * time.Millisecond)
			}
			r.record("EGC")
		} else {
			r.harvest(r.w.Take())
			r.record("EUp")
		}
	case "straggle": // straggle J KIN KOUT : containers left behind Stop's terminator on peer J's queues (peer must be stopped)
		p := r.peers[arg(1)]
		if p == nil || !r.w.Dev.VerifInjectStragglers(pkOf(p.pub), arg(2), arg(3)) {
			r.skipped++
			return true
		}
		r.straggled = true
		r.record(fmt.Sprintf("EStraggle %d %d %d", p.id, arg(2), arg(3)))
	case "nonce": // nonce J V : counter := RejectAfterMessages - V
		p := r.peers[arg(1)]
		if p == nil || !r.w.Dev.VerifSetSendNonce(pkOf(p.pub), device.RejectAfterMessages-uint64(arg(2))) {
			r.skipped++
			return true
		}
		r.record(fmt.Sprintf("ESetNonce %d (RejectAfterMessages - %d)", p.id, arg(2)))
	case "expire":
		p := r.peers[arg(1)]
		if p == nil || !r.w.Dev.VerifShiftKeypairAges(pkOf(p.pub), 200*time.Second) {
			r.skipped++
			return true
		}
		r.record(fmt.Sprintf("EExpire %d", p.id))
	case "fatalread": // the TUN read fails for good: the device closes itself
		r.w.Tun.FailRead(errors.New("injected fatal TUN read error"))
		select {
		case <-r.w.Dev.Wait():
		case <-time.After(10 * time.Second):
			r.stuck = "the device did not close after a fatal TUN read"
			return false
		}
		r.closed = true
		time.Sleep(2 * time.Millisecond)
		r.record("EFatalRead")
	case "tunerr": // like tun, but every read that returns these packets also returns tun.ErrTooManySegments
		var pkts [][]byte
		var g []string
		for _, k := range strings.Split(f[1], ",") {
			p := tunPacket(k)
			if p == nil {
				continue
			}
			pkts = append(pkts, p)
			g = append(g, tunGallina(k))
		}
		if len(pkts) == 0 {
			r.skipped++
			return true
		}
		r.w.Tun.ReadErrFn = func(n int) error { return tun.ErrTooManySegments }
		out := r.w.TunIn(pkts...)
		r.w.Tun.ReadErrFn = nil
		r.harvest(out)
		r.record("ETunErr [" + strings.Join(g, ";") + "]")
	case "tun": // tun k1,k2,...
		var pkts [][]byte
		var g []string
		for _, k := range strings.Split(f[1], ",") {
			p := tunPacket(k)
			if p == nil {
				continue
			}
			pkts = append(pkts, p)
			g = append(g, tunGallina(k))
		}
		if len(pkts) == 0 {
			r.skipped++
			return true
		}
		r.harvest(r.w.TunIn(pkts...))
		r.record("ETun [" + strings.Join(g, ";") + "]")
	case "net": // net spec; spec; ...
		if !r.up() {
			r.skipped++
			return true
		}
		var ds []sim.Dgram
		var g []string
		var afters []func(cosim.Out)
		for _, spec := range strings.Split(strings.TrimPrefix(a, "net "), ";") {
			spec = strings.TrimSpace(spec)
			if spec == "" {
				continue
			}
			data, from, gs, after, ok := r.buildDgram(spec)
			if !ok {
				continue
			}
			ds = append(ds, sim.Dgram{From: from, Data: data})
			g = append(g, gs)
			if after != nil {
				afters = append(afters, after)
			}
		}
		if len(ds) == 0 {
			r.skipped++
			return true
		}
		out := r.w.InjectBatch(ds...)
		for _, f := range afters {
			f(out)
		}
		r.harvest(out)
		r.record("ENet [" + strings.Join(g, ";") + "]")
	case "load": // load SPEC : one MAC1-valid handshake message while the device believes it is under load -> cookie reply
		if !r.up() {
			r.skipped++
			return true
		}
		r.w.Dev.VerifForceUnderLoad(2 * time.Second)
		st := ref.CreateInitiation(ref.NewPrivate(), ref.NewPrivate(), r.w.DevPub, ref.Key{}, 7, ref.Tai64n(time.Now()))
		out := r.w.Inject(netip.MustParseAddrPort("198.51.100.9:999"), st.Msg)
		r.w.Dev.VerifForceUnderLoad(0)
		r.harvest(out)
		r.record("ENet [DHs 6 0]")
	case "hsflood": // hsflood EXTRA : park every handshake worker in Bind.Send, fill the handshake queue, EXTRA datagrams more
		if !r.up() {
			r.skipped++
			return true
		}
		workers := runtime.NumCPU()
		extra := arg(1)
		if extra == 0 {
			extra = 64
		}
		r.w.Settle()
		r.w.Dev.VerifForceUnderLoad(20 * time.Second)
		release := make(chan struct{})
		var entered atomic.Int32
		r.w.Bind.SendGate = func(bufs [][]byte, to netip.AddrPort) {
			if len(bufs) == 1 && len(bufs[0]) == ref.CookieSize && bufs[0][0] == ref.TypeCookie {
				entered.Add(1)
				<-release
			}
		}
		st := ref.CreateInitiation(ref.NewPrivate(), ref.NewPrivate(), r.w.DevPub, ref.Key{}, 7, ref.Tai64n(time.Now()))
		mk := func(n int) []sim.Dgram {
			ds := make([]sim.Dgram, n)
			for i := range ds {
				ds[i] = sim.Dgram{From: floodSrc, Data: st.Msg}
			}
			return ds
		}
		poll := func(d time.Duration, f func() bool) bool {
			t0 := time.Now()
			for time.Since(t0) < d {
				if f() {
					return true
				}
				time.Sleep(200 * time.Microsecond)
			}
			return false
		}
		// every worker takes one message and parks in the cookie reply's Send
		r.w.Bind.Inject(mk(workers)...)
		parked := poll(5*time.Second, func() bool { return int(entered.Load()) == workers })
		full := false
		if parked {
			r.w.Bind.Inject(mk(device.QueueHandshakeSize + extra)...)
			full = poll(10*time.Second, func() bool {
				_, _, h := r.w.Dev.VerifQueueLens()
				return h == device.QueueHandshakeSize && r.w.Bind.Idle()
			})
			if full {
				// let the receive routine finish the datagrams that find the queue full
				poll(300*time.Millisecond, func() bool { return false })
			}
		}
		close(release)
		r.w.Bind.SendGate = nil
		out := r.w.Take()
		r.w.Dev.VerifForceUnderLoad(0)
		r.harvest(out)
		n := workers
		g := []string{}
		if parked {
			n += device.QueueHandshakeSize
		}
		for i := 0; i < n; i++ {
			g = append(g, "DHs 6 0")
		}
		if parked && full {
			for i := 0; i < extra; i++ {
				g = append(g, "DHs 8 0")
			}
		} else if parked {
			for i := 0; i < extra; i++ {
				g = append(g, "DHs 6 0")
			}
			r.skipped++ // the queue never filled: the overflow branch was not reached in this run
		} else {
			r.skipped++
		}
		r.record("ENet [" + strings.Join(g, ";") + "]")
	case "ratelimit": // ratelimit N : N handshake initiations with valid MAC1 AND valid MAC2 from one address while under load
		if !r.up() {
			r.skipped++
			return true
		}
		r.w.Dev.VerifForceUnderLoad(5 * time.Second)
		if r.cookie == nil || r.cookieOf != r.w.DevPub {
			// learn a cookie: MAC1-valid initiation without MAC2 -> cookie reply (kind 6)
			st := ref.CreateInitiation(ref.NewPrivate(), ref.NewPrivate(), r.w.DevPub, ref.Key{}, 7, ref.Tai64n(time.Now()))
			out := r.w.Inject(floodSrc, st.Msg)
			r.record("ENet [DHs 6 0]")
			r.cookie = nil
			for _, s := range out.Sent {
				if _, c, err := ref.OpenCookieReply(s.Data, r.w.DevPub, st.Mac1); err == nil {
					r.cookie, r.cookieOf = c, r.w.DevPub
				}
			}
			if r.cookie == nil {
				r.w.Dev.VerifForceUnderLoad(0)
				r.skipped++
				return true
			}
		}
		var ds []sim.Dgram
		var g []string
		for i := 0; i < arg(1); i++ {
			st := ref.CreateInitiation(ref.NewPrivate(), ref.NewPrivate(), r.w.DevPub, ref.Key{}, 7, ref.Tai64n(time.Now()))
			ds = append(ds, sim.Dgram{From: floodSrc, Data: ref.WithCookie(st.Msg, r.w.DevPub, r.cookie)})
			g = append(g, "DHs 7 0")
		}
		out := r.w.InjectBatch(ds...)
		r.w.Dev.VerifForceUnderLoad(0)
		for _, s := range out.Sent {
			if len(s.Data) == ref.CookieSize && s.Data[0] == ref.TypeCookie {
				r.cookie = nil // the cookie was not honoured (secret rotated): learn a new one next time
			}
		}
		r.harvest(out)
		r.record("ENet [" + strings.Join(g, ";") + "]")
	default:
		r.skipped++
	}
	return true
}

func runPlan(cfg [3]int, plan []string, gen string) Case {
	c := Case{Plan: plan, Cfg: cfg, Gen: gen, PoolMax: device.VerifPoolMax}
	r, err := newRunner(cfg)
	if err != nil {
		c.Stuck = err.Error()
		return c
	}
	for _, a := range plan {
		if !r.do(a) {
			break
		}
	}
	if !r.closed && r.stuck == "" {
		r.poisoned = false
		r.do("close")
		r.do("gc")
	}
	c.Steps = r.steps
	c.Skipped = r.skipped
	c.Slow = r.w.SlowSteps
	c.Stuck = r.stuck
	return c
}

// ---------------------------------------------------------------- stall scenarios (small pools, sustained traffic)

var stallBranches = []string{
	"tun-noroute", "tun-badversion", "tun-short", "tun-empty", "tun-peer-stopped", "tun-delivered", "tun-no-endpoint-send",
	"net-runt", "net-type", "net-hsize", "net-index", "net-expired", "net-auth", "net-replay", "net-badlen", "net-badsrc",
	"net-badver", "net-keepalive", "net-data", "net-mac1", "net-badinit", "net-oldts", "net-badresp", "net-cookie", "net-underload",
	"net-ratelimited", "tun-peer-configured-while-down",
	"net-removed-peer", "staged-flush-remove", "staged-flush-down",
}

func stallScenario(cfg [3]int, branch string, items int) Case {
	d := cfg[0]
	if cfg[1] > d {
		d = cfg[1]
	}
	old := device.VerifPoolMax
	device.VerifPoolMax = uint32(2*d + 8 + cfg[1]*cfg[2])
	defer func() { device.VerifPoolMax = old }()
	c := Case{Plan: []string{fmt.Sprintf("stall %s %d", branch, items)}, Cfg: cfg, Gen: "stall:" + branch, PoolMax: device.VerifPoolMax, Items: items}
	r, err := newRunner(cfg)
	if err != nil {
		c.Stuck = err.Error()
		return c
	}
	r.w.Timeout = 5 * time.Second
	// peer 1: session as responder-confirmed; peer 2: session as initiator; peer 3: no endpoint
	for _, a := range []string{"add 1 ep", "add 2 ep", "add 3", "up", "net h init 1", "net t 1 -1 ka", "tun r2", "net h resp 2", "net t 2 -1 ok", "net t 1 -1 ok"} {
		if !r.do(a) {
			c.Stuck = r.stuck
			return c
		}
	}
	batch := cfg[1]
	tb := cfg[0]
	rep := func(s string, n int, sep string) string {
		var x []string
		for i := 0; i < n; i++ {
			x = append(x, s)
		}
		return strings.Join(x, sep)
	}
	var pre []string
	var unit string
	switch branch {
	case "tun-noroute":
		unit = "tun " + rep("n", tb, ",")
	case "tun-badversion":
		unit = "tun " + rep("v", tb, ",")
	case "tun-short":
		unit = "tun " + rep("s", tb, ",")
	case "tun-empty":
		unit = "tun " + rep("e", tb, ",")
	case "tun-peer-stopped":
		pre = []string{"down"}
		unit = "tun " + rep("r1", tb, ",")
	case "tun-peer-configured-while-down":
		pre = []string{"down", "add 1 ep"}
		unit = "tun " + rep("r1", tb, ",")
	case "tun-delivered":
		unit = "tun " + rep("r1", tb, ",")
	case "tun-no-endpoint-send": // peer 3 gets a session through its initiation but the test removes its endpoint knowledge: not possible; use send error instead
		r.w.Bind.SendErr = fmt.Errorf("injected send error")
		unit = "tun " + rep("r2", tb, ",")
	case "net-runt":
		unit = "net " + rep("x runt", batch, ";")
	case "net-type":
		unit = "net " + rep("x type", batch, ";")
	case "net-hsize":
		unit = "net " + rep("x hsize", batch, ";")
	case "net-index":
		unit = "net " + rep("x index", batch, ";")
	case "net-expired":
		pre = []string{"expire 1"}
		unit = "net " + rep("t 1 -1 ok", batch, ";")
	case "net-auth":
		unit = "net " + rep("t 1 -1 auth", batch, ";")
	case "net-replay":
		unit = "net " + rep("t 1 -1 replay", batch, ";")
	case "net-badlen":
		unit = "net " + rep("t 1 -1 len", batch, ";")
	case "net-badsrc":
		unit = "net " + rep("t 1 -1 src", batch, ";")
	case "net-badver":
		unit = "net " + rep("t 1 -1 ver", batch, ";")
	case "net-keepalive":
		unit = "net " + rep("t 2 -1 ka", batch, ";")
	case "net-data":
		unit = "net " + rep("t 2 -1 ok", batch, ";")
	case "net-mac1":
		unit = "net " + rep("h mac1", batch, ";")
	case "net-badinit":
		unit = "net " + rep("h badinit", batch, ";")
	case "net-oldts":
		unit = "net " + rep("h oldts 1", batch, ";")
	case "net-badresp":
		unit = "net " + rep("h badresp", batch, ";")
	case "net-cookie":
		unit = "net " + rep("h cookie", batch, ";")
	case "net-ratelimited":
		unit = fmt.Sprintf("ratelimit %d", batch)
	case "net-underload":
		unit = "load"
	case "net-removed-peer":
		pre = []string{"remove 1"}
		unit = "net " + rep("t 1 -1 ok", batch, ";")
	case "staged-flush-remove":
		unit = "cycle-remove"
	case "staged-flush-down":
		unit = "cycle-down"
	}
	for _, a := range pre {
		if !r.do(a) {
			c.Stuck = r.stuck
			return c
		}
	}
	perUnit := batch
	if strings.HasPrefix(unit, "tun") {
		perUnit = tb
	}
	if unit == "load" || strings.HasPrefix(unit, "cycle") {
		perUnit = 1
	}
	if strings.HasPrefix(unit, "ratelimit") {
		perUnit = batch
	}
	for sent := 0; sent < items; sent += perUnit {
		before := r.w.SlowSteps
		switch unit {
		case "cycle-remove": // stage 3 packets for the endpoint-less peer, remove it, add it again
			for _, a := range []string{"tun r3", "tun r3", "tun r3", "remove 3", "add 3"} {
				r.do(a)
			}
		case "cycle-down":
			for _, a := range []string{"tun r3", "tun r3", "down", "up"} {
				r.do(a)
			}
		default:
			r.do(unit)
		}
		if r.w.SlowSteps > before || r.stuck != "" {
			c.Stall = branch
			c.Items = sent
			break
		}
	}
	r.w.Bind.SendErr = nil
	c.Steps = nil // the counts of stall scenarios are not compared (sessions are renegotiated at will)
	c.Skipped = r.skipped
	c.Slow = r.w.SlowSteps
	if c.Stall == "" {
		r.call("Close", func() { r.w.Dev.Close() })
		c.Stuck = r.stuck
	}
	return c
}

// ---------------------------------------------------------------- two goroutines waiting on an exhausted pool

// goroutines inside flushInboundQueue / flushOutboundQueue (Peer.Start or a queue finaliser waiting for a container)
func flushersWaiting() int {
	buf := make([]byte, 8<<20)
	n := runtime.Stack(buf, true)
	c := 0
	for _, g := range strings.Split(string(buf[:n]), "\n\n") {
		if (strings.Contains(g, "flushInboundQueue") || strings.Contains(g, "flushOutboundQueue")) && strings.Contains(g, "sync.(*Mutex)") {
			c++
		}
	}
	return c
}

func waitersInGet() int {
	buf := make([]byte, 8<<20)
	n := runtime.Stack(buf, true)
	c := 0
	for _, g := range strings.Split(string(buf[:n]), "\n\n") {
		if strings.Contains(g, "device.(*WaitPool).Get") {
			c++
		}
	}
	return c
}

// twoWaiters: bind batch 4, one receive function, message-buffer pool = idle baseline + 4.  The sequential receiver
// is held inside tun.Write (WriteGate) with a TWO-element batch; two more datagrams exhaust the pool; a fifth datagram
// parks the receive routine in GetMessageBuffer and an outbound TUN packet parks the TUN reader there as well.  Then
// tun.Write is released: two buffers come back back to back and BOTH waiters must go on - all five inbound packets
// reach the TUN and the outbound packet reaches the bind within the watchdog.  (Quiescence alone cannot see a waiter
// that sleeps although a buffer is free: it is parked.)
func twoWaiters(round int) Case {
	cfg := [3]int{1, 4, 1}
	old := device.VerifPoolMax
	device.VerifPoolMax = 4 + 4 + 4
	defer func() { device.VerifPoolMax = old }()
	max := device.VerifPoolMax
	c := Case{Plan: []string{fmt.Sprintf("twowaiters %d", round)}, Cfg: cfg, Gen: "stall:two-waiters", PoolMax: max}
	r, err := newRunner(cfg)
	if err != nil {
		c.Stuck = err.Error()
		return c
	}
	for _, a := range []string{"add 1 ep", "up", "net h init 1", "net t 1 -1 ka", "net t 1 -1 ok", "tun r1"} {
		if !r.do(a) {
			c.Stuck = r.stuck
			return c
		}
	}
	ss := r.sessionOf(1, -1)
	if ss == nil || r.w.Dev.VerifPoolCounts()[2] != 8 {
		c.Skipped = 1 // precondition not met: inconclusive round
		r.call("Close", func() { r.w.Dev.Close() })
		return c
	}
	p := r.peers[1]
	inner := ref.Pad(ref.IPv4([4]byte{10, 0, 1, 2}, [4]byte{10, 9, 9, 9}, 60, 3))
	mk := func() sim.Dgram { return sim.Dgram{From: p.addr, Data: ss.s.Next(inner)} }
	gate := make(chan struct{})
	blocked := make(chan struct{})
	var first atomic.Bool
	r.w.Tun.TakeWritten()
	r.w.Bind.TakeSent()
	r.w.Tun.WriteGate = func(bufs [][]byte) {
		if first.CompareAndSwap(false, true) {
			close(blocked)
			<-gate
		}
	}
	waitUntil := func(d time.Duration, f func() bool) bool {
		t0 := time.Now()
		for time.Since(t0) < d {
			if f() {
				return true
			}
			time.Sleep(200 * time.Microsecond)
		}
		return false
	}
	abandon := func() Case {
		select {
		case <-gate:
		default:
			close(gate)
		}
		c.Skipped = 1
		r.w.Settle()
		r.call("Close", func() { r.w.Dev.Close() })
		return c
	}
	r.w.Bind.Inject(mk(), mk())
	select {
	case <-blocked:
	case <-time.After(3 * time.Second):
		return abandon()
	}
	r.w.Bind.Inject(mk(), mk())
	if !waitUntil(2*time.Second, func() bool { return r.w.Dev.VerifPoolCounts()[2] == max }) {
		return abandon()
	}
	r.w.Bind.Inject(mk())
	r.w.Tun.Inject(ref.IPv4([4]byte{10, 9, 9, 9}, [4]byte{10, 0, 1, 77}, 90, 1))
	if !waitUntil(2*time.Second, func() bool { return waitersInGet() >= 2 }) {
		return abandon()
	}
	close(gate)
	written, sent := 0, 0
	ok := waitUntil(4*time.Second, func() bool {
		written += len(r.w.Tun.TakeWritten())
		for _, s := range r.w.Bind.TakeSent() {
			if len(s.Data) > 32 && s.Data[0] == ref.TypeTransport {
				sent++
			}
		}
		return written >= 5 && sent >= 1
	})
	c.Items = written*10 + sent
	if !ok {
		c.Stall = fmt.Sprintf("two-waiters(tun-writes=%d/5,outbound=%d/1,waiting=%d)", written, sent, waitersInGet())
		c.Stall = "two-waiters"
		return c // the device is wedged: Close would hang on the TUN reader
	}
	r.w.Settle()
	r.call("Close", func() { r.w.Dev.Close() })
	c.Stuck = r.stuck
	return c
}

// twoWaitersOneReturn: the complement of twoWaiters.  The message-buffer pool (bound 6) is exhausted by holders that
// do not let go by themselves (three packets staged for a session-less peer) plus ONE datagram that the sequential
// receiver holds inside tun.Write; a second datagram parks the receive routine in GetMessageBuffer and an outbound TUN
// packet parks the TUN reader there.  Releasing the write gives back exactly ONE buffer: one of the two waiters must
// be admitted, and its work returns the buffer the other one needs - both datagrams reach the TUN and the outbound
// packet reaches the bind within the watchdog.  (If the single wake-up is lost nobody ever moves again.)
func twoWaitersOneReturn(round int) Case {
	cfg := [3]int{1, 1, 1}
	old := device.VerifPoolMax
	device.VerifPoolMax = 6
	defer func() { device.VerifPoolMax = old }()
	max := device.VerifPoolMax
	c := Case{Plan: []string{fmt.Sprintf("twowaitersone %d", round)}, Cfg: cfg, Gen: "stall:two-waiters-one-return", PoolMax: max}
	r, err := newRunner(cfg)
	if err != nil {
		c.Stuck = err.Error()
		return c
	}
	for _, a := range []string{"add 1 ep", "add 3", "up", "net h init 1", "net t 1 -1 ka", "net t 1 -1 ok", "tun r1", "tun r3", "tun r3", "tun r3"} {
		if !r.do(a) {
			c.Stuck = r.stuck
			return c
		}
	}
	ss := r.sessionOf(1, -1)
	if ss == nil || r.w.Dev.VerifPoolCounts()[2] != 5 {
		c.Skipped = 1
		r.call("Close", func() { r.w.Dev.Close() })
		return c
	}
	p := r.peers[1]
	inner := ref.Pad(ref.IPv4([4]byte{10, 0, 1, 2}, [4]byte{10, 9, 9, 9}, 60, 3))
	mk := func() sim.Dgram { return sim.Dgram{From: p.addr, Data: ss.s.Next(inner)} }
	gate := make(chan struct{})
	blocked := make(chan struct{})
	var first atomic.Bool
	r.w.Tun.TakeWritten()
	r.w.Bind.TakeSent()
	r.w.Tun.WriteGate = func(bufs [][]byte) {
		if first.CompareAndSwap(false, true) {
			close(blocked)
			<-gate
		}
	}
	waitUntil := func(d time.Duration, f func() bool) bool {
		t0 := time.Now()
		for time.Since(t0) < d {
			if f() {
				return true
			}
			time.Sleep(200 * time.Microsecond)
		}
		return false
	}
	abandon := func() Case {
		select {
		case <-gate:
		default:
			close(gate)
		}
		c.Skipped = 1
		r.w.Settle()
		r.call("Close", func() { r.w.Dev.Close() })
		return c
	}
	r.w.Bind.Inject(mk())
	select {
	case <-blocked:
	case <-time.After(3 * time.Second):
		return abandon()
	}
	if !waitUntil(2*time.Second, func() bool { return r.w.Dev.VerifPoolCounts()[2] >= max }) {
		return abandon()
	}
	r.w.Bind.Inject(mk())
	r.w.Tun.Inject(ref.IPv4([4]byte{10, 9, 9, 9}, [4]byte{10, 0, 1, 77}, 90, 1))
	if !waitUntil(2*time.Second, func() bool { return waitersInGet() >= 2 }) {
		return abandon()
	}
	close(gate)
	written, sent := 0, 0
	ok := waitUntil(4*time.Second, func() bool {
		written += len(r.w.Tun.TakeWritten())
		for _, s := range r.w.Bind.TakeSent() {
			if s.To == p.addr && len(s.Data) > 32 && s.Data[0] == ref.TypeTransport {
				sent++
			}
		}
		return written >= 2 && sent >= 1
	})
	c.Items = written*10 + sent
	if !ok {
		c.Stall = "two-waiters-one-return"
		return c // the device is wedged: Close would hang on the TUN reader
	}
	r.w.Settle()
	r.call("Close", func() { r.w.Dev.Close() })
	c.Stuck = r.stuck
	return c
}

// ---------------------------------------------------------------- plans

var configs = [][3]int{{1, 1, 2}, {4, 2, 1}, {2, 8, 2}, {3, 3, 1}}

var setup = []string{"add 1 ep", "add 2 ep", "add 3", "up",
	"net h init 1", "net t 1 -1 ka", // peer 1: device is responder, confirmed
	"tun r2", "net h resp 2", // peer 2: device is initiator
}

func directedPlans() (plans [][]string, names []string) {
	add := func(name string, p ...string) {
		plans = append(plans, append(append([]string{}, setup...), p...))
		names = append(names, "directed:"+name)
	}
	add("outbound-branches", "tun r1", "tun r2,r2,r1,r2", "tun n,v,s,e,n6,s6", "tun r1,n,r2,v,r9,r3", "tun r3,r3,r3", "tun r3", "remove 3", "tun r3", "add 3", "tun r3")
	add("inbound-transport-branches", "net t 1 -1 ok", "net t 1 -1 ok; t 1 -1 ka; t 1 -1 auth; t 1 -1 replay", "net t 1 -1 len; t 1 -1 src; t 1 -1 ver; t 2 -1 ok",
		"net x runt; x type; x hsize 0; x hsize 1; x hsize 2; x index", "tun r3", "net x hsindex", "net t 2 -1 ok; t 1 -1 ok; t 2 -1 replay; t 1 -1 replay", "expire 1", "net t 1 -1 ok; t 1 -1 auth", "tun r1")
	add("handshake-branches", "net h mac1; h badinit; h cookie; h badresp", "net h oldts 1", "net h init 1", "net h oldts 1; h mac1", "net t 1 -1 ok", "load", "tun r3", "net h resp 2",
		"remove 1", "net h init 1", "net t 1 -1 ok")
	add("rotation", "net h init 1", "net t 1 -1 ok", "net h init 1", "net t 1 0 ok; t 1 1 ok; t 1 -1 ok", "net h init 2", "net t 2 0 ok", "net t 2 -1 ka", "tun r1,r2")
	var many []string
	for i := 0; i < 140; i++ {
		many = append(many, "tun r3")
	}
	add("staged-overflow", append(many, "tun r3,r3,r3,r3,r3", "tun r1", "remove 3", "tun r3")...)
	add("staged-overflow-down-up", append(append([]string{}, many[:135]...), "down", "up", "tun r3", "tun r3")...)
	add("counter-limit", "nonce 1 2", "tun r1,r1,r1,r1", "tun r1", "nonce 1 3", "tun r1", "tun r1,r1", "nonce 2 1", "tun r2,r2,r2", "tun r2", "net h init 1", "net t 1 -1 ka", "tun r1",
		"nonce 1 0", "tun r1,r1", "nonce 1 1", "tun r1", "nonce 1 0", "tun r1", "nonce 1 2", "tun r1", "setkey", "tun r1", "tun r2")
	add("down-up-cycles", "tun r3,r3", "down", "tun r1,r3", "up", "tun r3", "down", "down", "up", "up", "net t 1 -1 ok", "tun r2", "down", "remove 3", "up", "add 3", "tun r3")
	add("persistent-keepalive", "add 3 pka", "tun r3", "down", "up", "down", "add 1 pka", "up", "remove 3", "add 3 pka", "remove 1", "removeall")
	add("removal", "tun r3,r3,r3", "remove 3", "remove 1", "net t 1 -1 ok", "tun r1", "removeall", "tun r2", "net t 2 -1 ok", "add 1 ep", "net h init 1", "net t 1 -1 ka", "tun r1")
	add("identity-change", "tun r3", "setkey", "tun r1", "tun r2,r2", "net t 1 -1 ok", "net h init 1", "net t 1 -1 ka", "tun r1", "net h resp 2", "tun r2")
	add("rate-limited-under-load", "ratelimit 12", "tun r3", "ratelimit 8", "net h init 1", "ratelimit 3", "setkey", "ratelimit 9", "down", "up", "ratelimit 7")
	add("handshake-queue-overflow", "tun r3", "net t 1 -1 ok", "hsflood 64")
	add("tun-read-error-with-packets", "tunerr r1", "tunerr r3,r3,r1,n,r2", "tunerr r3", "tun r3", "tunerr v,s,e", "tunerr r2,r2", "down", "tunerr r1,r3", "up", "tunerr r3,r3")
	add("tun-read-error-then-close", "tunerr r3,r1", "tunerr r3", "close", "gc")
	add("tun-read-error-then-fatal-read", "tunerr r3,r3,r2", "tun r3", "tunerr r1", "fatalread", "gc")
	add("fatal-read-with-staged", "tun r3,r3", "fatalread", "gc")
	add("stragglers-flushed-by-start", "down", "straggle 1 2 3", "up", "tun r1", "down", "straggle 1 1 0", "straggle 2 0 2", "straggle 1 3 1", "up", "net t 1 -1 ok", "down", "up")
	// outbound stragglers are only used where Peer.Start flushes them: after the peer is REMOVED they are never given back
	// on the unchanged tree (finding F10: the queued elements point back at the peer, so the queue's finaliser cannot run);
	// that case is the thorough-tier scenario "outbound-straggler-cycle"
	add("stragglers-collected-after-removal", "down", "straggle 2 1 0", "straggle 1 2 0", "remove 2", "gc", "up", "down", "straggle 1 3 0", "straggle 2 2 0", "removeall", "tun r1", "gc", "add 1 ep", "up", "tun r1")
	add("stragglers-at-close", "tun r3,r3", "down", "straggle 1 2 0", "straggle 2 1 0", "close", "gc")
	add("stragglers-at-fatal-read", "down", "straggle 1 3 0", "fatalread", "gc")
	add("removal-with-receiver-held", "net t 1 -1 ok", "removeheld 1", "tun r1", "net t 1 -1 ok", "removeheld 2", "gc")
	add("configured-while-down", "down", "add 1 ep", "add 3", "tun r1,r3", "tun r1", "tunerr r1,r3", "add 2 ep pka", "tun r2", "up", "tun r1", "down", "add 1", "tun r1")
	add("stop-inside-send-staged", "heldkeys down 1", "up", "heldkeys remove 2", "net h init 1", "net t 1 -1 ka", "heldkeys remove 1", "gc")
	// send calls that arrive after Peer.Stop has returned, the peer not restarted: after Down (then removal, Close), after
	// removal, after Close; with and without a persistent keepalive; followed by every way of getting rid of the peer
	add("late-send-after-stop", "grab 1", "down", "latesend 1", "latesend 2", "remove 1", "gc", "up", "grab 2", "grab 3", "remove 2", "latesend 2", "down", "latesend 3", "removeall", "gc",
		"add 1 ep pka", "up", "tun r1", "down", "latesend 1", "up", "down", "latesend 1")
	add("late-send-then-close", "grab 1", "grab 3", "down", "latesend 1", "latesend 3", "close", "gc")
	add("late-send-after-close", "grab 2", "tun r3", "close", "latesend 2", "latesend 1", "gc")
	// a straggler container still held by a crypto worker when its peer is restarted / its queues are finalised
	add("stragglers-held-by-crypto-worker-at-restart", "down", "heldstraggle up 1 1 0", "down", "heldstraggle up 2 0 1", "tun r2", "down", "heldstraggle up 1 2 3", "net t 1 -1 ok", "down", "up")
	add("stragglers-held-by-crypto-worker-at-collection", "down", "heldstraggle gc 2 1 0", "up", "down", "heldstraggle gc 1 3 0", "close", "gc")
	add("close-with-staged", "tun r3,r3,r3", "tun r1", "close", "gc", "tun r1")
	add("close-down", "tun r3", "down", "close", "gc")
	return
}

func randomPlan(r *rand.Rand, n int) []string {
	p := append([]string{}, setup...)
	pe := func() int { return 1 + r.Intn(3) }
	tk := []string{"n", "v", "s", "e", "n6", "r1", "r2", "r3", "r1", "r2", "r3", "r9"}
	tv := []string{"ok", "ok", "ka", "auth", "replay", "len", "src", "ver"}
	xs := []string{"x runt", "x type", "x hsize 1", "x index", "x hsindex", "h mac1", "h badinit", "h cookie", "h badresp"}
	for len(p) < n {
		switch x := r.Intn(100); {
		case x < 28:
			var ks []string
			for i := 0; i < 1+r.Intn(6); i++ {
				ks = append(ks, tk[r.Intn(len(tk))])
			}
			if r.Intn(6) == 0 {
				p = append(p, "tunerr "+strings.Join(ks, ","))
			} else {
				p = append(p, "tun "+strings.Join(ks, ","))
			}
		case x < 58:
			var ds []string
			for i := 0; i < 1+r.Intn(6); i++ {
				if r.Intn(3) == 0 {
					ds = append(ds, xs[r.Intn(len(xs))])
				} else {
					ds = append(ds, fmt.Sprintf("t %d %d %s", pe(), -1-r.Intn(2), tv[r.Intn(len(tv))]))
				}
			}
			p = append(p, "net "+strings.Join(ds, "; "))
		case x < 66:
			p = append(p, fmt.Sprintf("net h init %d", pe()))
		case x < 73:
			p = append(p, fmt.Sprintf("net h resp %d", pe()))
		case x < 76:
			p = append(p, fmt.Sprintf("net h oldts %d", pe()))
		case x < 79:
			if r.Intn(3) == 0 {
				q := pe()
				p = append(p, fmt.Sprintf("grab %d", q), "down", fmt.Sprintf("latesend %d", q))
			} else {
				p = append(p, "down")
			}
		case x < 84:
			p = append(p, "up")
		case x < 87:
			if r.Intn(4) == 0 {
				p = append(p, fmt.Sprintf("heldkeys %s %d", []string{"down", "remove"}[r.Intn(2)], pe()))
			} else if r.Intn(3) == 0 {
				p = append(p, fmt.Sprintf("removeheld %d", pe()))
			} else if r.Intn(3) == 0 {
				q := pe()
				p = append(p, fmt.Sprintf("grab %d", q), fmt.Sprintf("remove %d", q), fmt.Sprintf("latesend %d", q))
			} else {
				p = append(p, fmt.Sprintf("remove %d", pe()))
			}
		case x < 92:
			q := pe()
			o := ""
			if q != 3 {
				o += " ep"
			}
			if r.Intn(4) == 0 {
				o += " pka"
			}
			p = append(p, fmt.Sprintf("add %d%s", q, o))
		case x < 93:
			p = append(p, fmt.Sprintf("nonce %d %d", pe(), r.Intn(4)))
		case x < 94:
			// only effective while the peer is stopped (device down)
			if r.Intn(3) == 0 {
				p = append(p, "down", fmt.Sprintf("heldstraggle up %d %d %d", pe(), r.Intn(4), r.Intn(4)))
			} else if r.Intn(2) == 0 {
				p = append(p, "down", fmt.Sprintf("straggle %d %d %d", pe(), r.Intn(4), r.Intn(4)), "up") // Start flushes both queues
			} else {
				p = append(p, "down", fmt.Sprintf("straggle %d %d 0", pe(), 1+r.Intn(3)))
			}
		case x < 95:
			p = append(p, fmt.Sprintf("expire %d", pe()))
		case x < 97:
			p = append(p, "setkey")
		case x < 98:
			if r.Intn(2) == 0 {
				p = append(p, fmt.Sprintf("ratelimit %d", 6+r.Intn(10)))
			} else {
				p = append(p, "load")
			}
		case x < 99:
			p = append(p, "removeall")
		default:
			p = append(p, "gc")
		}
	}
	return p
}

// ---------------------------------------------------------------- Gallina

func gallina(c Case) string {
	var st []string
	for _, s := range c.Steps {
		st = append(st, fmt.Sprintf("(%s, mkobs [%d;%d;%d;%d;%d] %d %d %d [%d;%d;%d;%d;%d])", s.Ev, s.Counts[0], s.Counts[1], s.Counts[2], s.Counts[3], s.Counts[4], s.SElems, s.SConts, s.Owner,
			s.Lost[0], s.Lost[1], s.Lost[2], s.Lost[3], s.Lost[4]))
	}
	return fmt.Sprintf("mkcase %d %d %d [\n  %s]", c.Cfg[0], c.Cfg[1], c.Cfg[2], strings.Join(st, ";\n  "))
}

func writeShard(path string, cases []Case) error {
	var b strings.Builder
	b.WriteString("From WG Require Import Base.Prelude Gen.Constants Pools.Model Pools.Spec Pools.Check.\nLocal Open Scope N_scope.\nDefinition cases : list case := [\n")
	for i, c := range cases {
		if i > 0 {
			b.WriteString(";\n")
		}
		b.WriteString(gallina(c))
	}
	b.WriteString("].\nDefinition bad := Eval vm_compute in (check_cases cases 0).\nPrint bad.\nDefinition st := Eval vm_compute in (stats cases).\nPrint st.\n")
	return os.WriteFile(path, []byte(b.String()), 0o644)
}

func runCase(c Case, gen string) Case {
	if len(c.Plan) == 1 && strings.HasPrefix(c.Plan[0], "twowaitersone") {
		rc := twoWaitersOneReturn(0)
		if gen != "" {
			rc.Gen = gen
		}
		return rc
	}
	if len(c.Plan) == 1 && strings.HasPrefix(c.Plan[0], "twowaiters") {
		rc := twoWaiters(0)
		if gen != "" {
			rc.Gen = gen
		}
		return rc
	}
	if len(c.Plan) == 1 && strings.HasPrefix(c.Plan[0], "stall ") {
		f := strings.Fields(c.Plan[0])
		n, _ := strconv.Atoi(f[2])
		rc := stallScenario(c.Cfg, f[1], n)
		if gen != "" {
			rc.Gen = gen
		}
		return rc
	}
	g := c.Gen
	if gen != "" {
		g = gen
	}
	return runPlan(c.Cfg, c.Plan, g)
}

func main() {
	seed := flag.Int64("seed", 1, "PRNG seed")
	n := flag.Int("n", 60, "number of random scenarios")
	length := flag.Int("len", 60, "actions per random scenario")
	stall := flag.Int("stall", 300, "items per stall scenario (0 = none)")
	cycle := flag.Bool("cycle", false, "also run the outbound-straggler-then-removal scenario (finding F10; thorough tier)")
	waiters := flag.Int("waiters", 4, "rounds of the two-waiters-on-an-exhausted-pool scenario")
	poolMax := flag.Uint("poolmax", 4096, "bound of the five pools in the exact-count scenarios")
	shards := flag.Int("shards", 16, "case files")
	out := flag.String("out", "out/C20", "output directory")
	replayIn := flag.String("replay", "", "JSON file with cases (plans) to run")
	corpus := flag.String("corpus", "", "directory of corpus JSON cases to prepend")
	flag.Parse()
	device.VerifPoolMax = uint32(*poolMax)
	if err := os.MkdirAll(*out, 0o755); err != nil {
		panic(err)
	}
	var cases []Case
	if *replayIn != "" {
		data, err := os.ReadFile(*replayIn)
		if err != nil {
			panic(err)
		}
		var cs []Case
		if err := json.Unmarshal(data, &cs); err != nil {
			panic(err)
		}
		for _, c := range cs {
			if c.Cfg == [3]int{} {
				c.Cfg = configs[0]
			}
			cases = append(cases, runCase(c, ""))
		}
		*shards = 1
	} else {
		if *corpus != "" {
			files, _ := filepath.Glob(filepath.Join(*corpus, "*.json"))
			sort.Strings(files)
			for _, f := range files {
				data, err := os.ReadFile(f)
				if err != nil {
					continue
				}
				var cs []Case
				if json.Unmarshal(data, &cs) == nil {
					for _, c := range cs {
						if c.Cfg == [3]int{} {
							c.Cfg = configs[0]
						}
						cases = append(cases, runCase(c, "corpus"))
					}
				}
			}
		}
		plans, names := directedPlans()
		for ci, cfg := range configs {
			for i, p := range plans {
				if ci >= 2 && strings.Contains(names[i], "staged-overflow") {
					continue
				}
				if ci%2 == 1 && strings.Contains(names[i], "handshake-queue-overflow") {
					continue
				}
				cases = append(cases, runPlan(cfg, p, names[i]))
			}
		}
		if *cycle {
			cases = append(cases, runPlan(configs[0], []string{"add 1 ep", "up", "down", "straggle 1 0 2", "remove 1", "gc", "gc"}, "directed:outbound-straggler-cycle"))
		}
		r := rand.New(rand.NewSource(*seed))
		for i := 0; i < *n; i++ {
			cases = append(cases, runPlan(configs[r.Intn(len(configs))], randomPlan(r, *length), "random"))
		}
		if *stall > 0 {
			for i := 0; i < *waiters; i++ {
				cases = append(cases, twoWaiters(i))
			}
			for i := 0; i < *waiters; i++ {
				cases = append(cases, twoWaitersOneReturn(i))
			}
			for i, b := range stallBranches {
				cases = append(cases, stallScenario(configs[(i+int(*seed))%2], b, *stall))
			}
		}
	}
	if *shards > len(cases) {
		*shards = len(cases)
	}
	if *shards < 1 {
		*shards = 1
	}
	per := (len(cases) + *shards - 1) / *shards
	type shardInfo struct {
		File  string `json:"file"`
		First int    `json:"first"`
		N     int    `json:"n"`
	}
	var infos []shardInfo
	idx := 0
	for s := 0; s < *shards && idx < len(cases); s++ {
		end := idx + per
		if end > len(cases) {
			end = len(cases)
		}
		name := fmt.Sprintf("cases_C20_%d.v", s)
		if err := writeShard(filepath.Join(*out, name), cases[idx:end]); err != nil {
			panic(err)
		}
		infos = append(infos, shardInfo{name, idx, end - idx})
		idx = end
	}
	meta := map[string]any{"seed": *seed, "cases": cases, "shards": infos}
	data, _ := json.Marshal(meta)
	if err := os.WriteFile(filepath.Join(*out, "cases.json"), data, 0o644); err != nil {
		panic(err)
	}
}
