// gsoast — translator for C18: reads the SOURCE of conn/bind_std.go of the tree under test and prints, as
// Gallina (Gen/GsoAst.v), the body of coalesceMessages as a term of the deep-embedded mini-language of
// UdpGso/CoalAst.v.  UdpGso/CoalAstProofs.v proves that the interpreter of UdpGso/CoalAst.v run on this term
// equals UdpGso/Model.v (coalesce) for ALL batches.
//
// What is trusted here: go/parser; the rendering below (one Go construct -> one constructor; desugarings:
// a block -> right-nested SSeq ending in SSkip, `var x int` -> x = 0, `var x bool` -> x = false, package
// constants -> their value, the five statements on msgs[e] -> SAppend / SSetGSO / SSetSrc / SSetBuf / SSetAddr);
// that the locals are int or bool (taken from the declaration or from the initialiser).  Everything that is not
// recognised is emitted as EUnknown/BUnknown/SUnknown, on which the interpreter yields None, so an
// unrecognised construct can only break the equivalence theorem, never satisfy it.
package main

import (
	"flag"
	"fmt"
	"go/ast"
	"go/parser"
	"go/printer"
	"go/token"
	"math/big"
	"os"
	"path/filepath"
	"reflect"
	"strings"
)

var (
	consts    = map[string]ast.Expr{}
	constBusy = map[string]bool{}
)

func constVal(e ast.Expr) (*big.Int, bool) {
	switch v := e.(type) {
	case *ast.ParenExpr:
		return constVal(v.X)
	case *ast.BasicLit:
		if v.Kind == token.INT {
			n, ok := new(big.Int).SetString(strings.ReplaceAll(v.Value, "_", ""), 0)
			return n, ok
		}
	case *ast.Ident:
		d, ok := consts[v.Name]
		if !ok || constBusy[v.Name] {
			return nil, false
		}
		constBusy[v.Name] = true
		defer delete(constBusy, v.Name)
		return constVal(d)
	case *ast.UnaryExpr:
		if v.Op == token.SUB {
			if a, ok := constVal(v.X); ok {
				return new(big.Int).Neg(a), true
			}
		}
	case *ast.BinaryExpr:
		a, ok1 := constVal(v.X)
		b, ok2 := constVal(v.Y)
		if !ok1 || !ok2 {
			return nil, false
		}
		r := new(big.Int)
		switch v.Op {
		case token.ADD:
			return r.Add(a, b), true
		case token.SUB:
			return r.Sub(a, b), true
		case token.MUL:
			return r.Mul(a, b), true
		case token.SHL:
			if b.Sign() >= 0 && b.Cmp(big.NewInt(512)) < 0 {
				return r.Lsh(a, uint(b.Uint64())), true
			}
		}
	}
	return nil, false
}

func isInt63(n *big.Int) bool {
	lim := new(big.Int).Lsh(big.NewInt(1), 63)
	return n.Cmp(lim) < 0 && n.Cmp(new(big.Int).Neg(lim)) >= 0
}

func zlit(n *big.Int) string {
	if n.Sign() < 0 {
		return fmt.Sprintf("(EConst (%s))", n)
	}
	return fmt.Sprintf("(EConst %s)", n)
}

func kind(n interface{}) string {
	return strings.TrimPrefix(reflect.TypeOf(n).String(), "*ast.")
}

func isIdent(e ast.Expr, name string) bool {
	id, ok := e.(*ast.Ident)
	return ok && id.Name == name
}

type tr struct {
	vars                         map[string]string // local -> "int" | "bool"
	locals                       []string          // in order of declaration
	addr, ep, bufs, msgs, setGSO string            // parameter names
	val                          string            // range value variable ("" outside the loop)
	inLoop                       bool
}

func (t *tr) shadowed(name string) bool { return t.vars[name] != "" || name == t.val }

func (t *tr) declare(name, ty string) bool {
	if name == "_" || t.vars[name] != "" || name == t.addr || name == t.ep || name == t.bufs || name == t.msgs ||
		name == t.setGSO || name == t.val || consts[name] != nil {
		return false
	}
	t.vars[name] = ty
	t.locals = append(t.locals, name)
	return true
}

// msgs[idx].<field> ; for Buffers the element [0]
func (t *tr) msgField(e ast.Expr, field string) (ast.Expr, bool) {
	if field == "Buffers" {
		ix, ok := e.(*ast.IndexExpr)
		if !ok {
			return nil, false
		}
		if n, ok := constVal(ix.Index); !ok || n.Sign() != 0 {
			return nil, false
		}
		if _, lit := ix.Index.(*ast.BasicLit); !lit {
			return nil, false
		}
		e = ix.X
	}
	s, ok := e.(*ast.SelectorExpr)
	if !ok || s.Sel.Name != field {
		return nil, false
	}
	ix, ok := s.X.(*ast.IndexExpr)
	if !ok || !isIdent(ix.X, t.msgs) || t.shadowed(t.msgs) {
		return nil, false
	}
	return ix.Index, true
}

// &msgs[idx].OOB
func (t *tr) oobRef(e ast.Expr) (ast.Expr, bool) {
	u, ok := e.(*ast.UnaryExpr)
	if !ok || u.Op != token.AND {
		return nil, false
	}
	return t.msgField(u.X, "OOB")
}

func (t *tr) expr(e ast.Expr) string {
	switch v := e.(type) {
	case *ast.ParenExpr:
		return t.expr(v.X)
	case *ast.BasicLit:
		if n, ok := constVal(v); ok && isInt63(n) {
			return zlit(n)
		}
	case *ast.UnaryExpr:
		if _, lit := v.X.(*ast.BasicLit); lit && v.Op == token.SUB {
			if n, ok := constVal(v); ok && isInt63(n) {
				return zlit(n)
			}
		}
	case *ast.Ident:
		if t.vars[v.Name] == "int" {
			return fmt.Sprintf("(EVar %q)", v.Name)
		}
		if t.vars[v.Name] == "" && v.Name != t.val {
			if n, ok := constVal(v); ok && isInt63(n) {
				return zlit(n)
			}
		}
		return fmt.Sprintf("(EUnknown %q)", "Ident")
	case *ast.BinaryExpr:
		switch v.Op {
		case token.ADD:
			return fmt.Sprintf("(EAdd %s %s)", t.expr(v.X), t.expr(v.Y))
		case token.SUB:
			return fmt.Sprintf("(ESub %s %s)", t.expr(v.X), t.expr(v.Y))
		}
		return fmt.Sprintf("(EUnknown %q)", "BinaryExpr "+v.Op.String())
	case *ast.CallExpr:
		fn, ok := v.Fun.(*ast.Ident)
		if !ok || len(v.Args) != 1 || v.Ellipsis != token.NoPos || t.shadowed(fn.Name) || consts[fn.Name] != nil {
			break
		}
		a := v.Args[0]
		switch fn.Name {
		case "len":
			if t.val != "" && isIdent(a, t.val) {
				return "ELenVal"
			}
			if isIdent(a, t.bufs) && !t.shadowed(t.bufs) {
				return "ELenBufs"
			}
			if ix, ok := t.msgField(a, "Buffers"); ok {
				return fmt.Sprintf("(ELenMsg %s)", t.expr(ix))
			}
		case "cap":
			if ix, ok := t.msgField(a, "Buffers"); ok {
				return fmt.Sprintf("(ECapMsg %s)", t.expr(ix))
			}
		}
		return fmt.Sprintf("(EUnknown %q)", "CallExpr "+fn.Name)
	}
	return fmt.Sprintf("(EUnknown %q)", kind(e))
}

var cmpops = map[token.Token]string{token.GEQ: "CGe", token.GTR: "CGt", token.LEQ: "CLe", token.LSS: "CLt", token.EQL: "CEq", token.NEQ: "CNe"}

// ep.DstIP().Is6()
func (t *tr) isIs6(e ast.Expr) bool {
	c, ok := e.(*ast.CallExpr)
	if !ok || len(c.Args) != 0 {
		return false
	}
	s, ok := c.Fun.(*ast.SelectorExpr)
	if !ok || s.Sel.Name != "Is6" {
		return false
	}
	c2, ok := s.X.(*ast.CallExpr)
	if !ok || len(c2.Args) != 0 {
		return false
	}
	s2, ok := c2.Fun.(*ast.SelectorExpr)
	return ok && s2.Sel.Name == "DstIP" && isIdent(s2.X, t.ep) && !t.shadowed(t.ep)
}

func (t *tr) bexpr(e ast.Expr) string {
	switch v := e.(type) {
	case *ast.ParenExpr:
		return t.bexpr(v.X)
	case *ast.Ident:
		if t.vars[v.Name] == "bool" {
			return fmt.Sprintf("(BVar %q)", v.Name)
		}
		if !t.shadowed(v.Name) && consts[v.Name] == nil && (v.Name == "true" || v.Name == "false") {
			return fmt.Sprintf("(BLit %s)", v.Name)
		}
	case *ast.UnaryExpr:
		if v.Op == token.NOT {
			return fmt.Sprintf("(BNot %s)", t.bexpr(v.X))
		}
	case *ast.BinaryExpr:
		if v.Op == token.LAND {
			return fmt.Sprintf("(BAnd %s %s)", t.bexpr(v.X), t.bexpr(v.Y))
		}
		if op, ok := cmpops[v.Op]; ok {
			return fmt.Sprintf("(BCmp %s %s %s)", op, t.expr(v.X), t.expr(v.Y))
		}
		return fmt.Sprintf("(BUnknown %q)", "BinaryExpr "+v.Op.String())
	case *ast.CallExpr:
		if t.isIs6(v) {
			return "BIs6"
		}
	}
	return fmt.Sprintf("(BUnknown %q)", kind(e))
}

func unknownS(what string) string { return fmt.Sprintf("(SUnknown %q)", what) }

func sameExpr(a, b ast.Expr) bool {
	var sa, sb strings.Builder
	printer.Fprint(&sa, token.NewFileSet(), a)
	printer.Fprint(&sb, token.NewFileSet(), b)
	return sa.String() == sb.String()
}

func (t *tr) isBoolExpr(e ast.Expr) bool {
	switch v := e.(type) {
	case *ast.ParenExpr:
		return t.isBoolExpr(v.X)
	case *ast.Ident:
		return t.vars[v.Name] == "bool" || (!t.shadowed(v.Name) && (v.Name == "true" || v.Name == "false"))
	case *ast.UnaryExpr:
		return v.Op == token.NOT
	case *ast.BinaryExpr:
		_, c := cmpops[v.Op]
		return c || v.Op == token.LAND || v.Op == token.LOR
	}
	return false
}

func (t *tr) assignVar(name string, rhs ast.Expr, define bool) string {
	if define {
		ty := "int"
		if t.isBoolExpr(rhs) {
			ty = "bool"
		}
		var r string
		if ty == "bool" {
			r = t.bexpr(rhs)
		} else {
			r = t.expr(rhs)
		}
		if !t.declare(name, ty) {
			return unknownS("redeclaration")
		}
		if ty == "bool" {
			return fmt.Sprintf("(SAssignB %q %s)", name, r)
		}
		return fmt.Sprintf("(SAssign %q %s)", name, r)
	}
	switch t.vars[name] {
	case "int":
		return fmt.Sprintf("(SAssign %q %s)", name, t.expr(rhs))
	case "bool":
		return fmt.Sprintf("(SAssignB %q %s)", name, t.bexpr(rhs))
	}
	return unknownS("assignment to a non-local")
}

func (t *tr) stmt(s ast.Stmt, ind string) string {
	switch v := s.(type) {
	case *ast.BlockStmt:
		return t.block(v.List, ind)
	case *ast.DeclStmt:
		gd, ok := v.Decl.(*ast.GenDecl)
		if !ok || gd.Tok != token.VAR {
			return unknownS("DeclStmt")
		}
		var out []string
		for _, sp := range gd.Specs {
			vs, ok := sp.(*ast.ValueSpec)
			if !ok || len(vs.Names) != 1 || len(vs.Values) > 1 {
				out = append(out, unknownS("ValueSpec"))
				continue
			}
			name := vs.Names[0].Name
			switch {
			case len(vs.Values) == 1 && vs.Type == nil:
				out = append(out, t.assignVar(name, vs.Values[0], true))
			case len(vs.Values) == 0 && isIdent(vs.Type, "int"):
				if !t.declare(name, "int") {
					out = append(out, unknownS("redeclaration"))
				} else {
					out = append(out, fmt.Sprintf("(SAssign %q (EConst 0))", name))
				}
			case len(vs.Values) == 0 && isIdent(vs.Type, "bool"):
				if !t.declare(name, "bool") {
					out = append(out, unknownS("redeclaration"))
				} else {
					out = append(out, fmt.Sprintf("(SAssignB %q (BLit false))", name))
				}
			default:
				out = append(out, unknownS("ValueSpec type"))
			}
		}
		return t.seq(out, ind)
	case *ast.AssignStmt:
		if len(v.Lhs) != 1 || len(v.Rhs) != 1 {
			return unknownS("AssignStmt multi")
		}
		l, r := v.Lhs[0], v.Rhs[0]
		if v.Tok == token.DEFINE {
			if id, ok := l.(*ast.Ident); ok {
				return t.assignVar(id.Name, r, true)
			}
			return unknownS("AssignStmt define")
		}
		if v.Tok != token.ASSIGN {
			return unknownS("AssignStmt " + v.Tok.String())
		}
		if id, ok := l.(*ast.Ident); ok {
			return t.assignVar(id.Name, r, false)
		}
		if ix, ok := t.msgField(l, "Buffers"); ok {
			if t.val != "" && isIdent(r, t.val) {
				return fmt.Sprintf("(SSetBuf %s)", t.expr(ix))
			}
			if c, ok := r.(*ast.CallExpr); ok && isIdent(c.Fun, "append") && !t.shadowed("append") && consts["append"] == nil &&
				len(c.Args) == 2 && c.Ellipsis != token.NoPos && sameExpr(c.Args[0], l) && t.val != "" && isIdent(c.Args[1], t.val) {
				return fmt.Sprintf("(SAppend %s)", t.expr(ix))
			}
			return unknownS("assignment to Buffers[0]")
		}
		if ix, ok := t.msgField(l, "Addr"); ok {
			if isIdent(r, t.addr) && !t.shadowed(t.addr) {
				return fmt.Sprintf("(SSetAddr %s)", t.expr(ix))
			}
			return unknownS("assignment to Addr")
		}
		return unknownS("AssignStmt lhs")
	case *ast.IncDecStmt:
		if id, ok := v.X.(*ast.Ident); ok && v.Tok == token.INC && t.vars[id.Name] == "int" {
			return fmt.Sprintf("(SInc %q)", id.Name)
		}
		return unknownS("IncDecStmt")
	case *ast.ExprStmt:
		c, ok := v.X.(*ast.CallExpr)
		if !ok || len(c.Args) != 2 || c.Ellipsis != token.NoPos {
			return unknownS("ExprStmt")
		}
		ix, ok := t.oobRef(c.Args[0])
		if !ok {
			return unknownS("call: first argument")
		}
		switch {
		case isIdent(c.Fun, t.setGSO) && !t.shadowed(t.setGSO):
			if cv, ok := c.Args[1].(*ast.CallExpr); ok && isIdent(cv.Fun, "uint16") && len(cv.Args) == 1 && !t.shadowed("uint16") {
				return fmt.Sprintf("(SSetGSO %s %s)", t.expr(ix), t.expr(cv.Args[0]))
			}
			return unknownS("setGSO size argument")
		case isIdent(c.Fun, "setSrcControl") && !t.shadowed("setSrcControl"):
			if isIdent(c.Args[1], t.ep) && !t.shadowed(t.ep) {
				return fmt.Sprintf("(SSetSrc %s)", t.expr(ix))
			}
			return unknownS("setSrcControl argument")
		}
		return unknownS("call")
	case *ast.IfStmt:
		if v.Init != nil {
			return unknownS("IfStmt init")
		}
		c := t.bexpr(v.Cond)
		th := t.block(v.Body.List, ind+"  ")
		el := "SSkip"
		switch e := v.Else.(type) {
		case nil:
		case *ast.IfStmt:
			el = t.stmt(e, ind+"  ")
		case *ast.BlockStmt:
			el = t.block(e.List, ind+"  ")
		default:
			el = unknownS("IfStmt else")
		}
		return fmt.Sprintf("(SIf %s\n%s  %s\n%s  %s)", c, ind, th, ind, el)
	case *ast.RangeStmt:
		k, ok1 := v.Key.(*ast.Ident)
		val, ok2 := v.Value.(*ast.Ident)
		if t.inLoop || !ok1 || !ok2 || v.Tok != token.DEFINE || !isIdent(v.X, t.bufs) || t.shadowed(t.bufs) || val.Name == "_" {
			return unknownS("RangeStmt")
		}
		if !t.declare(k.Name, "int") || t.vars[val.Name] != "" || consts[val.Name] != nil {
			return unknownS("RangeStmt redeclaration")
		}
		t.val, t.inLoop = val.Name, true
		body := t.block(v.Body.List, ind+"  ")
		t.val, t.inLoop = "", false
		return fmt.Sprintf("(SRange %q\n%s  %s)", k.Name, ind, body)
	case *ast.BranchStmt:
		if v.Tok == token.CONTINUE && v.Label == nil && t.inLoop {
			return "SContinue"
		}
		return unknownS("BranchStmt")
	case *ast.ReturnStmt:
		if len(v.Results) == 1 {
			return fmt.Sprintf("(SReturn %s)", t.expr(v.Results[0]))
		}
		return unknownS("ReturnStmt")
	}
	return unknownS(kind(s))
}

func (t *tr) seq(items []string, ind string) string {
	var sb strings.Builder
	for _, s := range items {
		sb.WriteString("(SSeq " + s + "\n" + ind)
	}
	sb.WriteString("SSkip" + strings.Repeat(")", len(items)))
	return sb.String()
}

func (t *tr) block(list []ast.Stmt, ind string) string {
	var items []string
	for _, s := range list {
		items = append(items, t.stmt(s, ind+"  "))
	}
	return t.seq(items, ind)
}

func isByteSlices(e ast.Expr) bool {
	a, ok := e.(*ast.ArrayType)
	if !ok || a.Len != nil {
		return false
	}
	b, ok := a.Elt.(*ast.ArrayType)
	return ok && b.Len == nil && isIdent(b.Elt, "byte")
}

func main() {
	repo := flag.String("repo", "/repo", "tree under test")
	flag.Parse()
	fset := token.NewFileSet()
	file, err := parser.ParseFile(fset, filepath.Join(*repo, "conn", "bind_std.go"), nil, 0)
	if err != nil {
		fmt.Fprintln(os.Stderr, "gsoast: cannot parse conn/bind_std.go")
		os.Exit(1)
	}
	var fd *ast.FuncDecl
	for _, d := range file.Decls {
		switch v := d.(type) {
		case *ast.GenDecl:
			if v.Tok == token.CONST {
				for _, sp := range v.Specs {
					if s, ok := sp.(*ast.ValueSpec); ok && len(s.Names) == len(s.Values) {
						for i, n := range s.Names {
							consts[n.Name] = s.Values[i]
						}
					}
				}
			}
		case *ast.FuncDecl:
			if v.Recv == nil && v.Name.Name == "coalesceMessages" && v.Body != nil {
				fd = v
			}
		}
	}
	t := &tr{vars: map[string]string{}}
	body := func() string {
		if fd == nil {
			return unknownS("function not found")
		}
		var names []string
		var types []ast.Expr
		for _, p := range fd.Type.Params.List {
			for _, n := range p.Names {
				names = append(names, n.Name)
				types = append(types, p.Type)
			}
		}
		res := fd.Type.Results
		if len(names) != 5 || res == nil || len(res.List) != 1 || len(res.List[0].Names) != 0 || !isIdent(res.List[0].Type, "int") {
			return unknownS("signature")
		}
		if !isByteSlices(types[2]) || !isIdent(types[4], "setGSOFunc") {
			return unknownS("parameter types")
		}
		if a, ok := types[3].(*ast.ArrayType); !ok || a.Len != nil {
			return unknownS("parameter types")
		}
		t.addr, t.ep, t.bufs, t.msgs, t.setGSO = names[0], names[1], names[2], names[3], names[4]
		return t.block(fd.Body.List, "  ")
	}()

	fmt.Println("(* GENERATED by harness/cmd/gsoast from conn/bind_std.go of the tree under test. Do not edit. *)")
	fmt.Println("From Coq Require Import ZArith String List.")
	fmt.Println("From WG Require Import UdpGso.CoalAst.")
	fmt.Println("Import ListNotations.")
	fmt.Println("Local Open Scope string_scope.")
	fmt.Println("Local Open Scope Z_scope.")
	fmt.Println()
	fmt.Println("(* the locals of coalesceMessages, in order of declaration *)")
	var q []string
	for _, l := range t.locals {
		q = append(q, fmt.Sprintf("%q", l))
	}
	fmt.Printf("Definition coal_locals : list string := [%s].\n\n", strings.Join(q, "; "))
	fmt.Println("(* func coalesceMessages(addr, ep, bufs, msgs, setGSO) int *)")
	fmt.Printf("Definition coal_body : stmt :=\n  %s.\n", body)
}
