// c14 runs timer scenarios against real wireguard-go devices IN REAL TIME,
// many independent devices in parallel in one process (each with its own
// sim.Bind / sim.Tun world and its own remote party from package ref), records
// the time of every input it delivers and of every datagram / TUN write the
// device emits, and writes the traces as Gallina case files + JSON.
package main

import (
	"encoding/binary"
	"encoding/json"
	"errors"
	"flag"
	"fmt"
	"math/rand"
	"net/netip"
	"os"
	"path/filepath"
	"sort"
	"strings"
	"sync"
	"time"

	"wgv/cosim"
	"wgv/ref"
	"wgv/sim"
)

// Item codes (Timers/Check.v decode): 0 up, 1 tun batch (a = first id, b = count),
// 2 response, 3 initiation, 4 data (a = id), 5 keepalive received,
// 10 initiation sent, 11 response sent, 12 keepalive sent, 13 data sent (a = id),
// 14 TUN write (a = id), 15 datagram for which Bind.Send returned an error (a = 0 initiation,
// 1 response, 2 keepalive, 3 data), 6 device down, 7 hook: keypairs a seconds older,
// 8 hook: handshakeAttempts := a, 9 UAPI set creating the peer on a device that is up,
// 17 hook: lastSentHandshake a seconds older, 18 UAPI set of persistent_keepalive_interval := a
// on the existing peer,
// 20 end of observation.
type Item struct {
	C   int    `json:"c"`
	T   int64  `json:"t"` // microseconds
	A   uint64 `json:"a,omitempty"`
	B   uint64 `json:"b,omitempty"`
	seq uint64
}

// Spec selects and parametrises a scenario.
type Spec struct {
	Kind  string `json:"kind"`            // retx, retxerr, bounce, giveup, lost, ka10, newhs, persist, flush, rand
	Pka   int    `json:"pka,omitempty"`   // persistent keepalive (s)
	N     int    `json:"n,omitempty"`     // retx: retransmissions; persist: keepalives; flush: containers; lost: k
	Per   int    `json:"per,omitempty"`   // packets per TUN batch
	Role  string `json:"role,omitempty"`  // init | resp
	Var   string `json:"var,omitempty"`   // variant
	Delay int    `json:"delay,omitempty"` // start offset / variant delay (ms)
}

type Case struct {
	Spec  Spec                 `json:"spec"`
	Pka   int                  `json:"pka"`
	Items []Item               `json:"items"`
	Meas  map[string][]float64 `json:"meas,omitempty"`
	Err   string               `json:"err,omitempty"`
	Gen   string               `json:"gen"`
}

var epoch = time.Now()

const offsetUs = 1_000_000_000 // traces start at 1000 s: Peer.Start computes now - 6 s, key ages are shifted by up to 181 s

func us(t time.Time) int64 { return t.Sub(epoch).Microseconds() + offsetUs }

const unknownID = 1 << 40

type scen struct {
	spec   Spec
	w      *cosim.World
	p      *cosim.RefPeer
	start  time.Time
	items  []Item
	sent   []sim.Sent
	wrote  []sim.Written
	nextID uint64
	meas   map[string][]float64
	err    string
	other  ref.Key // public key of a second, unrelated peer (multi-section sets)
	fmu    sync.Mutex
	failed []Item // datagrams refused by the bind (SendErrFn)
}

// failInitiation makes the bind return an error for the k-th initiation (1-based)
// handed to it, and only for that one; the attempt is logged with its time.
func (s *scen) failInitiation(k int) {
	n := 0
	s.w.Bind.SendErrFn = func(bufs [][]byte, to netip.AddrPort) (int, error) {
		s.fmu.Lock()
		defer s.fmu.Unlock()
		for _, b := range bufs {
			if isInit(b) {
				n++
				if n == k {
					s.failed = append(s.failed, Item{C: 15, T: us(time.Now()), A: 0, seq: sim.Seq.Add(1)})
					return 0, errors.New("network is unreachable")
				}
			}
		}
		return len(bufs), nil
	}
}

// shiftKeys makes every keypair of the peer secs older (VerifShiftKeypairAges).
func (s *scen) shiftKeys(secs int) {
	s.in(7, uint64(secs), 0)
	s.w.Dev.VerifShiftKeypairAges(cosim.NoisePK(s.p.Pub), time.Duration(secs)*time.Second)
}

// shiftHs makes lastSentHandshake secs older (VerifShiftHandshakeTimes), so that the next
// non-retry initiation passes the 5 s rate limit while the retransmit timer is still pending.
func (s *scen) shiftHs(secs int) {
	s.in(17, uint64(secs), 0)
	s.w.Dev.VerifShiftHandshakeTimes(cosim.NoisePK(s.p.Pub), time.Duration(secs)*time.Second)
}

// tunN delivers n separate TUN read batches of per packets each.
func (s *scen) tunN(n, per int) {
	if n < 1 {
		n = 1
	}
	for i := 0; i < n; i++ {
		s.tun(per)
	}
	if n > 1 {
		s.tunIdle()
	}
}

// setAttempts presets handshakeAttempts (VerifSetHandshakeAttempts, /repo/device/verif_c14.go).
func (s *scen) setAttempts(n int) {
	s.in(8, uint64(n), 0)
	s.w.Dev.VerifSetHandshakeAttempts(cosim.NoisePK(s.p.Pub), uint32(n))
}

// extraSection is a further peer section appended to the set operation (variants "*-multi"):
// the peer under test is then configured by a NON-LAST section of a multi-peer set.
func (s *scen) extraSection() string {
	if !strings.HasSuffix(s.spec.Var, "-multi") {
		return ""
	}
	if s.other == (ref.Key{}) {
		s.other = ref.PubOf(ref.NewPrivate())
	}
	return fmt.Sprintf("public_key=%x\nallowed_ip=10.77.0.0/24\n", s.other[:])
}

// configure creates the peer (endpoint, allowed IPs, persistent keepalive) with ONE
// UAPI set operation; the device is up already.
func (s *scen) configure() {
	s.in(9, 0, 0)
	s.p.Configured = true
	if err := s.w.Dev.IpcSet(cosim.PeerConfig(s.p, true) + s.extraSection()); err != nil {
		s.err = "set: " + err.Error()
	}
}

// setPka changes the persistent-keepalive interval of the existing peer over UAPI.
func (s *scen) setPka(n int) {
	s.in(18, uint64(n), 0)
	cfg := fmt.Sprintf("public_key=%x\npersistent_keepalive_interval=%d\n", s.p.Pub[:], n) + s.extraSection()
	if err := s.w.Dev.IpcSet(cfg); err != nil {
		s.err = "set: " + err.Error()
	}
}

func (s *scen) down() {
	s.in(6, 0, 0)
	if err := s.w.Dev.Down(); err != nil {
		s.err = "down: " + err.Error()
	}
}

func newScen(spec Spec) (*scen, error) {
	p := cosim.NewPeer("P", "192.0.2.7:5555", "10.0.0.2/32")
	p.Keepalive = spec.Pka
	per := spec.Per
	if per < 1 {
		per = 1
	}
	if strings.HasPrefix(spec.Var, "uapi") {
		p.Configured = false // created later, by a set operation on the device that is up
	}
	w, err := cosim.NewWorld(cosim.Config{Up: false, BindBatch: 1, TunBatch: per}, true, p)
	if err != nil {
		return nil, err
	}
	return &scen{spec: spec, w: w, p: p, nextID: 1, meas: map[string][]float64{}}, nil
}

func (s *scen) in(c int, a, b uint64) {
	s.items = append(s.items, Item{C: c, T: us(time.Now()), A: a, B: b})
}

func (s *scen) sleepUntil(d time.Duration) {
	if dt := time.Until(s.start.Add(d)); dt > 0 {
		time.Sleep(dt)
	}
}
func (s *scen) since() time.Duration { return time.Since(s.start) }

func (s *scen) poll() {
	s.sent = append(s.sent, s.w.Bind.TakeSent()...)
	s.wrote = append(s.wrote, s.w.Tun.TakeWritten()...)
}

func (s *scen) up() {
	s.in(0, 0, 0)
	if err := s.w.Dev.Up(); err != nil {
		s.err = "up: " + err.Error()
	}
}

func pkt(src, dst [4]byte, id uint64) []byte {
	p := ref.IPv4(src, dst, 44+int(id%3)*8, byte(id))
	binary.BigEndian.PutUint64(p[20:28], id)
	return p
}

var devIP = [4]byte{10, 9, 9, 9}
var peerIP = [4]byte{10, 0, 0, 2}

// tun delivers one TUN read batch of n packets routed to the peer.
func (s *scen) tun(n int) (first uint64) {
	first = s.nextID
	pk := make([][]byte, n)
	for i := range pk {
		pk[i] = pkt(devIP, peerIP, s.nextID)
		s.nextID++
	}
	s.in(1, first, uint64(n))
	s.w.Tun.Inject(pk...)
	return
}

func isInit(d []byte) bool { return len(d) == ref.InitiationSize && d[0] == ref.TypeInitiation }
func isResp(d []byte) bool { return len(d) == ref.ResponseSize && d[0] == ref.TypeResponse }

// waitInit waits for the k-th initiation (1-based) emitted since the start.
func (s *scen) waitInit(k int, until time.Duration) *sim.Sent {
	for {
		s.poll()
		n := 0
		for i := range s.sent {
			if isInit(s.sent[i].Data) {
				n++
				if n == k {
					return &s.sent[i]
				}
			}
		}
		if s.since() > until {
			return nil
		}
		time.Sleep(500 * time.Microsecond)
	}
}

func (s *scen) countInit() int {
	s.poll()
	n := 0
	for i := range s.sent {
		if isInit(s.sent[i].Data) {
			n++
		}
	}
	return n
}

// answer lets the remote party answer the given initiation.
func (s *scen) answer(init *sim.Sent) bool {
	rs, err := ref.ConsumeInitiation(init.Data, s.p.Priv)
	if err != nil || rs.InitiatorStatic != s.w.DevPub {
		s.err = "initiation does not open"
		return false
	}
	s.p.NextIdx++
	resp, sess := rs.CreateResponse(ref.NewPrivate(), s.p.Psk, s.p.NextIdx)
	s.p.Sessions = append(s.p.Sessions, sess)
	s.in(2, 0, 0)
	s.w.Bind.Inject(sim.Dgram{From: s.p.Addr, Data: resp})
	return true
}

// refInit lets the remote party initiate; it waits for the device's response.
func (s *scen) refInit() bool {
	s.p.NextIdx++
	st := ref.CreateInitiation(s.p.Priv, ref.NewPrivate(), s.w.DevPub, s.p.Psk, s.p.NextIdx, ref.Tai64n(time.Now()))
	s.poll()
	from := len(s.sent)
	s.in(3, 0, 0)
	s.w.Bind.Inject(sim.Dgram{From: s.p.Addr, Data: st.Msg})
	dl := time.Now().Add(2 * time.Second)
	for time.Now().Before(dl) {
		s.poll()
		for i := from; i < len(s.sent); i++ {
			if isResp(s.sent[i].Data) {
				sess, err := st.ConsumeResponse(s.sent[i].Data)
				if err != nil {
					s.err = "response does not open: " + err.Error()
					return false
				}
				s.p.Sessions = append(s.p.Sessions, sess)
				return true
			}
		}
		time.Sleep(300 * time.Microsecond)
	}
	s.err = "no response to the remote party's initiation"
	return false
}

func (s *scen) recvData() uint64 {
	id := s.nextID
	s.nextID++
	m := s.p.Session().Next(ref.Pad(pkt(peerIP, devIP, id)))
	s.in(4, id, 0)
	s.w.Bind.Inject(sim.Dgram{From: s.p.Addr, Data: m})
	return id
}

func (s *scen) recvKa() {
	m := s.p.Session().Next(nil)
	s.in(5, 0, 0)
	s.w.Bind.Inject(sim.Dgram{From: s.p.Addr, Data: m})
}

// tunIdle waits until the device has consumed everything injected on the TUN side.
func (s *scen) tunIdle() {
	dl := time.Now().Add(3 * time.Second)
	for !s.w.Tun.Idle() && time.Now().Before(dl) {
		time.Sleep(time.Millisecond)
	}
	time.Sleep(60 * time.Millisecond)
}

// finish stamps the end of observation and builds the merged trace.
func (s *scen) finish() Case {
	end := time.Now()
	time.Sleep(2 * time.Millisecond)
	s.poll()
	endUs := us(end)
	var outs []Item
	for _, d := range s.sent {
		it := Item{T: us(d.T), seq: d.Seq}
		switch {
		case isInit(d.Data):
			it.C = 10
		case isResp(d.Data):
			it.C = 11
		case len(d.Data) == 32 && d.Data[0] == ref.TypeTransport:
			it.C = 12
		case len(d.Data) > 32 && d.Data[0] == ref.TypeTransport:
			it.C, it.A = 13, unknownID
			for _, sess := range s.p.Sessions {
				if _, _, pt, err := sess.OpenTransport(d.Data); err == nil && len(pt) >= 28 {
					it.A = binary.BigEndian.Uint64(pt[20:28])
				}
			}
		default:
			it.C, it.A = 13, unknownID+1
		}
		outs = append(outs, it)
	}
	for _, wv := range s.wrote {
		it := Item{C: 14, T: us(wv.T), seq: wv.Seq, A: unknownID}
		if len(wv.Data) >= 28 {
			it.A = binary.BigEndian.Uint64(wv.Data[20:28])
		}
		outs = append(outs, it)
	}
	s.fmu.Lock()
	outs = append(outs, s.failed...)
	s.fmu.Unlock()
	sort.SliceStable(outs, func(i, j int) bool { return outs[i].seq < outs[j].seq })
	// merge by time; inputs before outputs at equal times
	var all []Item
	i, j := 0, 0
	for i < len(s.items) || j < len(outs) {
		if j >= len(outs) || (i < len(s.items) && s.items[i].T <= outs[j].T) {
			all = append(all, s.items[i])
			i++
		} else {
			if outs[j].T <= endUs {
				all = append(all, outs[j])
			}
			j++
		}
	}
	all = append(all, Item{C: 20, T: endUs})
	s.w.Close()
	s.measure(all)
	return Case{Spec: s.spec, Pka: s.spec.Pka, Items: all, Meas: s.meas, Err: s.err, Gen: s.spec.Kind}
}

// measure records, for the evidence only, how far the timer-driven outputs
// were from their nominal times (milliseconds).
func (s *scen) measure(all []Item) {
	if s.spec.Kind == "rand" {
		return // causes of outputs are not attributable by this simple scan
	}
	add := func(k string, v float64) { s.meas[k] = append(s.meas[k], v) }
	var lastInit, lastDataIn, lastDataOut, lastAny int64 = -1, -1, -1, -1
	inputSince := false
	for _, it := range all {
		switch it.C {
		case 10:
			if lastDataOut >= 0 {
				add("newhs_minus_15s_ms", float64(it.T-lastDataOut-15_000_000)/1000)
			} else if lastInit >= 0 && !inputSince {
				if it.T-lastInit < 6_500_000 {
					add("retransmit_gap_minus_5s_ms", float64(it.T-lastInit-5_000_000)/1000)
				} else {
					add("gap_after_giveup_or_stall_ms", float64(it.T-lastInit)/1000)
				}
			}
			lastInit, inputSince = it.T, false
			lastDataOut = -1
			lastAny = it.T
		case 12:
			if lastDataIn >= 0 {
				add("keepalive_minus_10s_ms", float64(it.T-lastDataIn-10_000_000)/1000)
				lastDataIn = -1
			} else if s.spec.Pka > 0 && lastAny >= 0 && it.T-lastAny > 500_000 {
				add("persistent_minus_interval_ms", float64(it.T-lastAny-int64(s.spec.Pka)*1_000_000)/1000)
			}
			lastAny = it.T
		case 13:
			if lastDataOut < 0 {
				lastDataOut = it.T
			}
			lastDataIn = -1
			lastAny = it.T
		case 11:
			lastAny = it.T
		case 4:
			if lastDataIn < 0 {
				lastDataIn = it.T
			}
			lastDataOut, lastAny, inputSince = -1, it.T, true
		case 2, 3, 5:
			lastDataOut, lastAny, inputSince = -1, it.T, true
		case 0, 1:
			inputSince = true
		}
	}
}

const (
	ms  = time.Millisecond
	sec = time.Second
)

// establish creates a session in the given role; returns false on failure.
func (s *scen) establish(role string) bool {
	if role == "resp" {
		if !s.refInit() {
			return false
		}
		time.Sleep(30 * ms)
		s.recvKa() // key confirmation
		time.Sleep(30 * ms)
		return true
	}
	s.tun(1)
	init := s.waitInit(1, s.since()+2*sec)
	if init == nil {
		s.err = "no initiation"
		return false
	}
	time.Sleep(20 * ms)
	if !s.answer(init) {
		return false
	}
	time.Sleep(50 * ms)
	return true
}

func run(spec Spec) Case {
	time.Sleep(time.Duration(spec.Delay) * ms) // staggered starts: device creation is CPU-heavy
	s, err := newScen(spec)
	if err != nil {
		return Case{Spec: spec, Err: err.Error(), Gen: spec.Kind}
	}
	s.start = time.Now()
	per := spec.Per
	if per < 1 {
		per = 1
	}
	if strings.HasPrefix(spec.Var, "uapi") {
		if err := s.w.Dev.Up(); err != nil { // no peer yet: not an event of the peer's trace
			s.err = "up: " + err.Error()
		}
		time.Sleep(30 * ms)
		s.configure()
	} else {
		s.up()
	}
	time.Sleep(30 * ms)
	switch spec.Kind {
	case "retx":
		// unanswered initiation: N retransmissions
		if spec.Pka == 0 {
			s.tun(per)
		}
		s.sleepUntil(time.Duration(spec.N)*5334*ms + 650*ms)

	case "fresh":
		// a fresh (non-retry) initiation while the retransmit timer of the previous one is pending
		// (let through the 5 s rate limit by ageing lastSentHandshake): the next retransmission is
		// due 5 s + jitter after the FRESH one
		if spec.Pka == 0 {
			s.tun(per)
		}
		if s.waitInit(1, 2*sec) == nil {
			s.err = "no initiation"
			break
		}
		time.Sleep(time.Duration(150+spec.Delay*3%700) * ms)
		s.shiftHs(6)
		time.Sleep(10 * ms)
		t0 := time.Now()
		s.tun(per)
		time.Sleep(time.Until(t0.Add(time.Duration(spec.N)*5334*ms + 650*ms)))

	case "retxerr":
		// unanswered initiation; the bind refuses the N-th one (an attempt all the same):
		// the next retransmission is due 5 s + jitter after that attempt
		s.failInitiation(spec.N)
		s.tun(per)
		s.sleepUntil(time.Duration(spec.N)*5334*ms + 650*ms)

	case "bounce":
		// interface bounce (Down/Up) shortly after a handshake message was sent: the restarted
		// peer must not be held back by the 5 s handshake rate limit
		var init *sim.Sent
		if spec.Pka > 0 {
			init = s.waitInit(1, 2*sec)
		} else {
			s.tunN(spec.N, per)
			init = s.waitInit(1, 2*sec)
		}
		if init == nil {
			s.err = "no initiation"
			break
		}
		time.Sleep(20 * ms)
		if spec.Var != "unanswered" {
			if !s.answer(init) {
				break
			}
		}
		if spec.Pka > 0 {
			time.Sleep(time.Duration(300+spec.Delay*3%350) * ms) // before the persistent timer's first expiry
		} else {
			time.Sleep(time.Duration(300+spec.Delay*3%900) * ms)
		}
		s.down()
		time.Sleep(time.Duration(20+spec.Delay%150) * ms)
		s.up()
		t0 := time.Now()
		if spec.Pka == 0 {
			time.Sleep(30 * ms)
			s.tun(per)
		}
		n0 := 1
		if i2 := s.waitInit(n0+1, s.since()+2*sec); i2 != nil {
			time.Sleep(20 * ms)
			s.answer(i2)
		} else {
			s.err = "no initiation after the bounce"
		}
		if spec.Pka > 0 {
			time.Sleep(time.Until(t0.Add(2*time.Duration(spec.Pka)*sec + 700*ms)))
		} else {
			time.Sleep(time.Until(t0.Add(2800 * ms)))
		}

	case "pkagive":
		// persistent keepalive, no session, the handshake cycle fails completely (attempt counter
		// preset to 19: give-up at the first expiry), no local traffic: one interval after the last
		// transmission the persistent-keepalive timer starts a new cycle
		i1 := s.waitInit(1, 2*sec)
		if i1 == nil {
			s.err = "no initiation at up with persistent keepalive"
			break
		}
		time.Sleep(40 * ms)
		s.setAttempts(19)
		time.Sleep(time.Until(i1.T.Add(time.Duration(spec.Pka)*sec + time.Duration(spec.N)*5334*ms + 650*ms)))

	case "regive":
		// give-up (attempt counter preset to 19 by the hook, so the next expiry gives up) with
		// something queued, on a first handshake or on a RE-handshake after an earlier session
		// (key made 181 s old: zero-key timer still pending); then new traffic and an answer:
		// only the new packet may be sent
		if spec.Var == "session" {
			if !s.establish("init") {
				break
			}
			time.Sleep(50 * ms)
			s.shiftKeys(181)
			if i0 := s.waitInit(1, s.since()); i0 != nil {
				time.Sleep(time.Until(i0.T.Add(5200 * ms))) // the first initiation's 5 s rate limit is over
			}
		}
		n0 := s.countInit()
		s.tunN(spec.N, per) // N separately staged batches
		i1 := s.waitInit(n0+1, s.since()+2*sec)
		if i1 == nil {
			s.err = "no initiation for the queued packet"
			break
		}
		time.Sleep(40 * ms)
		s.setAttempts(19)
		time.Sleep(time.Until(i1.T.Add(6500 * ms)))
		s.tun(1)
		i2 := s.waitInit(n0+2, s.since()+2*sec)
		if i2 == nil {
			s.err = "no initiation after new traffic"
			time.Sleep(700 * ms)
			break
		}
		if spec.Var == "again" || spec.Var == "again2" {
			// second episode on the same peer, unanswered at first: it must be retransmitted
			// (the attempt counter starts again), not given up at its first expiry
			i3 := s.waitInit(n0+3, s.since()+5334*ms+700*ms)
			if i3 == nil {
				time.Sleep(100 * ms)
				break
			}
			if spec.Var == "again2" {
				// and a second give-up discards the second episode's packets as well
				time.Sleep(40 * ms)
				s.setAttempts(19)
				time.Sleep(time.Until(i3.T.Add(6500 * ms)))
				s.tun(1)
				i4 := s.waitInit(n0+4, s.since()+2*sec)
				if i4 == nil {
					s.err = "no initiation after the second give-up"
					break
				}
				i3 = i4
			}
			time.Sleep(20 * ms)
			s.answer(i3)
		} else {
			time.Sleep(20 * ms)
			s.answer(i2)
		}
		time.Sleep(700 * ms)

	case "giveup":
		if spec.Var == "resess" || spec.Var == "resess-nh" {
			// the full give-up of a RE-handshake (earlier session, key made 181 s old).
			// resess: the device was responder and sent no data, so no other timer is pending.
			// resess-nh: the device was initiator and sent data on completion: the new-handshake
			// timer armed by that send expires during the retry sequence and resets the attempt
			// counter (SendHandshakeInitiation(false) stores 0 before the rate-limit test).
			role := "resp"
			if spec.Var == "resess-nh" {
				role = "init"
			}
			if !s.establish(role) {
				break
			}
			time.Sleep(50 * ms)
			s.shiftKeys(181)
			if spec.Var == "resess-nh" {
				// 7.5 s: the new-handshake timer (15.05 .. 15.39 s) then expires well between the 2nd
				// (12.5 .. 12.83 s) and the 3rd (17.5 .. 18.17 s) transmission: the order is determined
				s.sleepUntil(7500 * ms)
			} else {
				s.sleepUntil(5400 * ms) // the 5 s rate limit of the handshake message sent at the start is over
			}
			t0 := time.Now()
			s.tun(per)
			time.Sleep(time.Until(t0.Add(22*5334*ms + 900*ms))) // gave up for sure (up to 22 transmissions)
			n1 := s.countInit()
			s.tun(1)
			if init := s.waitInit(n1+1, s.since()+2*sec); init != nil {
				time.Sleep(20 * ms)
				s.answer(init)
			} else {
				s.err = "no initiation after new traffic"
			}
			time.Sleep(600 * ms)
			break
		}
		if spec.Pka == 0 {
			s.tunN(spec.N, per)
		} else {
			time.Sleep(40 * ms)
			s.tunN(spec.N, per)
		}
		switch {
		case spec.Pka == 0:
			s.sleepUntil(20*5334*ms + 900*ms) // 107.6 s: gave up for sure
			if spec.Var == "tun2" {
				// second episode after the FULL give-up: retransmitted again, then answered
				n0 := s.countInit()
				s.tun(1)
				if i3 := s.waitInit(n0+3, s.since()+2*5334*ms+900*ms); i3 != nil {
					time.Sleep(20 * ms)
					s.answer(i3)
				}
				time.Sleep(600 * ms)
			} else if spec.Var == "tun" {
				// new traffic: a new attempt; only the new packet is sent once it completes
				n0 := s.countInit()
				s.tun(1)
				if init := s.waitInit(n0+1, s.since()+2*sec); init != nil {
					time.Sleep(20 * ms)
					s.answer(init)
				} else {
					s.err = "no initiation after new traffic"
				}
				time.Sleep(600 * ms)
			} else {
				// the peer establishes a session: nothing of what was queued may appear
				if s.refInit() {
					time.Sleep(30 * ms)
					s.recvKa()
				}
				time.Sleep(600 * ms)
			}
		case spec.Pka <= 5:
			s.sleepUntil(106 * sec) // never gives up
		default:
			// gives up, then the persistent keepalive starts a new attempt
			s.sleepUntil(19*5334*ms + time.Duration(spec.Pka)*sec + 900*ms)
		}

	case "lost":
		// the remote party answers the N-th transmission only
		first := s.tun(per)
		_ = first
		if spec.Var == "more" {
			time.Sleep(300 * ms)
			s.tun(per)
		}
		init := s.waitInit(spec.N, time.Duration(spec.N)*5334*ms+2*sec)
		if init == nil {
			s.err = "no initiation"
			break
		}
		time.Sleep(15 * ms)
		s.answer(init)
		if spec.Var == "newhs" {
			// data was sent on completion, the peer stays silent: new handshake after 15 s + jitter
			n1 := s.countInit()
			if i2 := s.waitInit(n1+1, s.since()+15334*ms+650*ms); i2 != nil {
				// second handshake on the same peer: answered, then traffic flows under the new key
				time.Sleep(20 * ms)
				s.answer(i2)
				time.Sleep(150 * ms)
				s.tun(per)
				time.Sleep(500 * ms)
			}
		} else {
			time.Sleep(600 * ms)
		}

	case "ka10":
		if !s.establish(spec.Role) {
			break
		}
		time.Sleep(200 * ms)
		t0 := time.Now()
		s.recvData()
		if spec.Var != "single" {
			// more data while the keepalive timer is pending: not re-armed
			time.Sleep(time.Duration(1000+spec.Delay*7%2500) * ms)
			s.recvData()
		}
		if spec.Var == "cancel" {
			// the device sends data before the 10 s are over: no keepalive
			time.Sleep(time.Duration(500+spec.Delay*5%3000) * ms)
			s.tun(per)
		}
		if spec.Var == "second" {
			time.Sleep(time.Until(t0.Add(20*sec + 650*ms))) // needAnotherKeepalive: a second one at 20 s
		} else {
			time.Sleep(time.Until(t0.Add(10*sec + 650*ms)))
		}

	case "newhs":
		if !s.establish(spec.Role) {
			break
		}
		time.Sleep(300 * ms)
		s.tun(per)
		if spec.Var == "arrival" {
			// data sent at t0, no transport reply; the ONLY authenticated arrival before the 15 s mark is,
			// by spec.N: 0 a data message, 1 a keepalive, 2 a handshake initiation of the peer (its
			// confirmation withheld), 3 a handshake response (to a re-handshake forced by ageing the key).
			// Each must cancel the new-handshake timer: no initiation at t0 + 15 s + jitter.
			t0 := time.Now()
			time.Sleep(time.Duration(1000+spec.Delay*3%1500) * ms)
			switch spec.N {
			case 0:
				s.recvData()
			case 1:
				s.recvKa()
			case 2:
				s.refInit()
			default:
				n0 := s.countInit()
				s.shiftKeys(181)
				s.shiftHs(6)
				s.tun(1)
				if i2 := s.waitInit(n0+1, s.since()+2*sec); i2 != nil {
					time.Sleep(20 * ms)
					s.answer(i2)
				} else {
					s.err = "no initiation for the packet queued behind the aged key"
				}
			}
			time.Sleep(time.Until(t0.Add(15334*ms + 600*ms)))
		} else if spec.Var == "exchange" {
			// an answered exchange first (the reply arrives while the timer is pending and
			// deletes it), then data into silence: the timer must be armed again
			time.Sleep(time.Duration(200+spec.Delay*3%600) * ms)
			if spec.Delay%2 == 0 {
				s.recvKa()
			} else {
				s.recvData()
			}
			time.Sleep(time.Duration(200+spec.Delay*5%500) * ms)
			s.tun(per)
			time.Sleep(15334*ms + 650*ms)
		} else if spec.Var == "answered" {
			t0 := time.Now()
			time.Sleep(time.Duration(500+spec.Delay*3%1500) * ms)
			s.recvKa()
			time.Sleep(time.Until(t0.Add(15334*ms + 600*ms)))
		} else {
			if spec.Var == "twice" {
				time.Sleep(2 * sec)
				s.tun(per) // timer already pending: not re-armed
				time.Sleep(13334*ms + 650*ms)
			} else {
				time.Sleep(15334*ms + 650*ms)
			}
		}

	case "persist":
		init := s.waitInit(1, 2*sec)
		if init == nil {
			s.err = "no initiation at up with persistent keepalive"
			break
		}
		time.Sleep(20 * ms)
		if !s.answer(init) {
			break
		}
		t0 := time.Now()
		iv := time.Duration(spec.Pka) * sec
		if strings.HasPrefix(spec.Var, "toggle") {
			// interval switched off and on again on the same peer (second configuration change)
			time.Sleep(time.Until(t0.Add(2*iv + iv/2)))
			s.setPka(0)
			time.Sleep(2*iv + iv/2) // silence (the pending timer expires without sending)
			s.setPka(spec.N)
			time.Sleep(2*time.Duration(spec.N)*sec + 650*ms)
		} else if spec.Var == "rx" {
			// after the first periodic keepalive the peer sends one: the interval restarts
			time.Sleep(time.Until(t0.Add(iv + iv/2)))
			s.recvKa()
			time.Sleep(time.Duration(spec.N)*iv + 650*ms)
		} else {
			time.Sleep(time.Until(t0.Add(time.Duration(spec.N)*iv + 650*ms)))
		}

	case "flush":
		// N TUN batches of Per packets while no session exists, then completion
		if spec.Role == "resp" {
			if !s.refInit() {
				break
			}
			time.Sleep(20 * ms)
		}
		for i := 0; i < spec.N; i++ {
			s.tun(per)
		}
		s.tunIdle()
		if spec.Role == "resp" {
			s.recvKa()
		} else {
			init := s.waitInit(1, s.since()+2*sec)
			if init == nil {
				s.err = "no initiation"
				break
			}
			s.answer(init)
		}
		if spec.Var == "stay" {
			// the flushed data is unanswered: new handshake 15 s + jitter later
			time.Sleep(15334*ms + 650*ms)
		} else {
			time.Sleep(700 * ms)
		}
	case "rand":
		s.random(rand.New(rand.NewSource(int64(spec.Delay)*7919+int64(spec.N))), spec.N, per)
	default:
		s.err = "unknown scenario kind " + spec.Kind
	}
	return s.finish()
}

// dangerUntil reports whether "now" lies in (or just before) the firing window
// of a timer, as far as the harness can tell from what it saw; if so, until when.
// Used ONLY to place inputs away from timer expiries (an input inside a window
// makes the trace inconclusive); verdicts never depend on it.
func (s *scen) dangerUntil(now time.Time) (time.Time, bool) {
	s.poll()
	type evt struct {
		t    time.Time
		kind int // 10 init, 11 resp, 12 ka, 13 data; 2,3,4,5 inputs
	}
	var ev []evt
	for _, d := range s.sent {
		k := 13
		switch {
		case isInit(d.Data):
			k = 10
		case isResp(d.Data):
			k = 11
		case len(d.Data) == 32:
			k = 12
		}
		ev = append(ev, evt{d.T, k})
	}
	for _, it := range s.items {
		if it.C >= 2 && it.C <= 5 {
			ev = append(ev, evt{epoch.Add(time.Duration(it.T-offsetUs) * time.Microsecond), it.C})
		}
	}
	sort.SliceStable(ev, func(i, j int) bool { return ev[i].t.Before(ev[j].t) })
	var retx, ka, nh, pk time.Time // zero = not pending
	for _, e := range ev {
		switch e.kind {
		case 10:
			retx, ka = e.t, time.Time{}
			pk = e.t
		case 11, 12:
			ka, pk = time.Time{}, e.t
		case 13:
			ka, pk = time.Time{}, e.t
			if nh.IsZero() {
				nh = e.t
			}
		case 2:
			retx, nh, pk = time.Time{}, time.Time{}, e.t
		case 3:
			nh, pk = time.Time{}, e.t
		case 4:
			if ka.IsZero() {
				ka = e.t
			}
			retx, nh, pk = time.Time{}, time.Time{}, e.t
		case 5:
			retx, nh, pk = time.Time{}, time.Time{}, e.t
		}
	}
	var until time.Time
	in := func(base time.Time, lo, hi time.Duration) {
		if base.IsZero() {
			return
		}
		a, b := base.Add(lo-80*ms), base.Add(hi+650*ms)
		if now.After(a) && now.Before(b) && b.After(until) {
			until = b
		}
	}
	in(retx, 5*sec, 5334*ms)
	in(ka, 10*sec, 10*sec)
	in(nh, 15*sec, 15334*ms)
	if s.spec.Pka > 0 {
		in(pk, time.Duration(s.spec.Pka)*sec, time.Duration(s.spec.Pka)*sec)
	}
	return until, !until.IsZero()
}

func (s *scen) safe() {
	for i := 0; i < 6; i++ {
		u, bad := s.dangerUntil(time.Now())
		if !bad {
			return
		}
		time.Sleep(time.Until(u))
	}
}

// random runs a PRNG-chosen script of losses, answers, remote initiations,
// data in both directions and silences.
func (s *scen) random(r *rand.Rand, steps, per int) {
	var lastRefInit time.Time
	answered := map[uint64]bool{}
	waits := []time.Duration{300 * ms, 900 * ms, 2500 * ms, 5600 * ms, 7 * sec, 11 * sec, 16 * sec}
	budget := 95 * sec
	for i := 0; i < steps && s.since() < budget && s.err == ""; i++ {
		s.safe()
		switch x := r.Intn(100); {
		case x < 22:
			s.tun(1 + r.Intn(per))
		case x < 45: // answer the device's latest initiation if it is still answerable
			s.poll()
			var li *sim.Sent
			for j := range s.sent {
				if isInit(s.sent[j].Data) {
					li = &s.sent[j]
				}
			}
			if li != nil && !answered[li.Seq] && li.T.After(lastRefInit) {
				answered[li.Seq] = true
				s.answer(li)
			}
		case x < 55:
			if time.Since(lastRefInit) > 100*ms {
				if s.refInit() {
					lastRefInit = time.Now()
					if r.Intn(3) > 0 {
						time.Sleep(time.Duration(20+r.Intn(200)) * ms)
						s.safe()
						s.recvKa()
					}
				}
			}
		case x < 68:
			if s.p.Session() != nil {
				s.recvData()
			}
		case x < 76:
			if s.p.Session() != nil {
				s.recvKa()
			}
		default:
			time.Sleep(waits[r.Intn(len(waits))])
		}
		time.Sleep(time.Duration(60+r.Intn(200)) * ms)
	}
	s.safe()
	time.Sleep(100 * ms)
}

// watchdog measures the latency of the Go runtime's own timers in this
// process (time.AfterFunc every 10 ms, like the device's timers): a large value
// means the machine, not the device, was late.  For the evidence, and to decide
// whether a missed scenario may be re-run once more.
type Stall struct {
	T      int64 `json:"t"`       // microseconds (trace clock)
	LateUs int64 `json:"late_us"` // how late the 10 ms timer fired
}

var (
	wdMu     sync.Mutex
	wdStalls []Stall
	wdMax    time.Duration
	wdStop   bool
)

func watchdog() {
	const period = 10 * time.Millisecond
	expected := time.Now().Add(period)
	var tick func()
	tick = func() {
		now := time.Now()
		late := now.Sub(expected)
		wdMu.Lock()
		if late > wdMax {
			wdMax = late
		}
		if late > 100*time.Millisecond && len(wdStalls) < 1000 {
			wdStalls = append(wdStalls, Stall{T: us(expected), LateUs: late.Microseconds()})
		}
		stop := wdStop
		wdMu.Unlock()
		if !stop {
			expected = now.Add(period)
			time.AfterFunc(period, tick)
		}
	}
	time.AfterFunc(period, tick)
}

// scenario sets -----------------------------------------------------------

func quickSpecs(r *rand.Rand) []Spec {
	d := func() int { return r.Intn(400) }
	sp := []Spec{
		{Kind: "retx", N: 2, Per: 1, Delay: d()},
		{Kind: "retx", N: 2, Per: 3, Delay: d()},
		{Kind: "retx", N: 2, Pka: 25, Delay: d()},
		{Kind: "retx", N: 2, Pka: 1, Delay: d()},
		{Kind: "regive", N: 5, Per: 1, Var: "session", Delay: d()},
		{Kind: "regive", N: 2, Per: 1, Var: "again", Delay: d()},
		{Kind: "persist", Pka: 1, N: 2, Var: "toggle", Delay: d()},
		{Kind: "regive", N: 2 + r.Intn(5), Per: 2, Delay: d()},
		{Kind: "fresh", N: 1, Per: 1, Delay: d()},
		{Kind: "fresh", N: 2, Per: 2, Delay: d()},
		{Kind: "retxerr", N: 2, Per: 1, Delay: d()},
		{Kind: "retxerr", N: 1, Per: 2, Delay: d()},
		{Kind: "bounce", Pka: 2, Delay: d()},
		{Kind: "bounce", Pka: 1, Var: "unanswered", Delay: d()},
		{Kind: "bounce", Per: 1, Delay: d()},
		{Kind: "bounce", N: 4, Per: 2, Var: "unanswered", Delay: d()},
		{Kind: "lost", N: 1, Per: 1, Var: "newhs", Delay: d()},
		{Kind: "lost", N: 2, Per: 2, Var: "more", Delay: d()},
		{Kind: "lost", N: 3, Per: 1, Delay: d()},
		{Kind: "ka10", Role: "resp", Delay: d()},
		{Kind: "ka10", Role: "init", Delay: d()},
		{Kind: "ka10", Role: "resp", Var: "single", Delay: d()},
		{Kind: "ka10", Role: "init", Var: "cancel", Delay: d()},
		{Kind: "newhs", Role: "resp", Per: 1, Delay: d()},
		{Kind: "newhs", Role: "init", Per: 2, Var: "twice", Delay: d()},
		{Kind: "newhs", Role: "resp", Per: 1, Var: "answered", Delay: d()},
		{Kind: "newhs", Role: "init", Per: 1, N: 0, Var: "arrival", Delay: d()},
		{Kind: "newhs", Role: "resp", Per: 2, N: 1, Var: "arrival", Delay: d()},
		{Kind: "newhs", Role: "init", Per: 1, N: 2, Var: "arrival", Delay: d()},
		{Kind: "newhs", Role: "resp", Per: 1, N: 2, Var: "arrival", Delay: d()},
		{Kind: "newhs", Role: "init", Per: 2, N: 3, Var: "arrival", Delay: d()},
		{Kind: "newhs", Role: "init", Per: 1, Var: "exchange", Delay: d()},
		{Kind: "newhs", Role: "resp", Per: 2, Var: "exchange", Delay: d()},
		{Kind: "persist", Pka: 1, N: 3, Var: "uapi", Delay: d()},
		{Kind: "persist", Pka: 1, N: 3, Var: "uapi-multi", Delay: d()},
		{Kind: "persist", Pka: 1, N: 2, Var: "toggle-multi", Delay: d()},
		{Kind: "pkagive", Pka: 7, N: 0, Delay: d()},
		{Kind: "pkagive", Pka: 6 + r.Intn(4), N: 1, Delay: d()},
		{Kind: "retx", N: 1, Pka: 2, Var: "uapi", Delay: d()},
		{Kind: "persist", Pka: 1, N: 4, Delay: d()},
		{Kind: "persist", Pka: 1, N: 3, Delay: d()},
		{Kind: "persist", Pka: 2, N: 2, Var: "rx", Delay: d()},
		{Kind: "persist", Pka: 3, N: 2, Delay: d()},
	}
	for _, n := range []int{1, 127, 128, 129, 300} {
		sp = append(sp, Spec{Kind: "flush", N: n, Per: 1, Role: "init", Delay: d()})
	}
	sp = append(sp,
		Spec{Kind: "flush", N: 2 + r.Intn(120), Per: 1, Role: "init", Delay: d()},
		Spec{Kind: "flush", N: 129, Per: 3, Role: "init", Delay: d()},
		Spec{Kind: "flush", N: 300, Per: 2, Role: "init", Delay: d()},
		Spec{Kind: "flush", N: 127, Per: 4, Role: "init", Delay: d()},
		Spec{Kind: "flush", N: 1, Per: 1, Role: "resp", Delay: d()},
		Spec{Kind: "flush", N: 129, Per: 1, Role: "resp", Delay: d()},
		Spec{Kind: "flush", N: 130 + r.Intn(200), Per: 2, Role: "resp", Delay: d()},
		Spec{Kind: "flush", N: 1 + r.Intn(5), Per: 1, Role: "resp", Var: "stay", Delay: d()},
	)
	return sp
}

func thoroughSpecs(r *rand.Rand) []Spec {
	d := func() int { return 400 + r.Intn(3600) }
	sp := quickSpecs(r)
	sp = append(sp,
		Spec{Kind: "giveup", N: 3, Per: 1, Delay: d()},
		Spec{Kind: "giveup", N: 6, Per: 2, Var: "tun", Delay: d()},
		Spec{Kind: "giveup", Per: 2, Var: "resess", Delay: d()},
		Spec{Kind: "giveup", N: 2, Per: 1, Var: "tun2", Delay: d()},
		Spec{Kind: "regive", N: 3, Per: 2, Var: "again2", Delay: d()},
		Spec{Kind: "regive", N: 2, Per: 1, Var: "again2", Delay: d()},
		Spec{Kind: "giveup", Per: 1, Delay: d()},
		Spec{Kind: "giveup", Pka: 25, Per: 1, Delay: d()},
		Spec{Kind: "giveup", Pka: 1, Per: 1, Delay: d()},
		Spec{Kind: "giveup", Pka: 5, Per: 1, Delay: d()},
		Spec{Kind: "giveup", Pka: 7, Per: 1, Delay: d()},
		Spec{Kind: "ka10", Role: "resp", Var: "second", Delay: d()},
		Spec{Kind: "ka10", Role: "init", Var: "second", Delay: d()},
		Spec{Kind: "persist", Pka: 10, N: 3, Delay: d()},
		Spec{Kind: "persist", Pka: 4, N: 5, Var: "rx", Delay: d()},
		Spec{Kind: "persist", Pka: 25, N: 2, Delay: d()},
	)
	for _, k := range []int{4, 5, 8, 12, 20} {
		sp = append(sp, Spec{Kind: "lost", N: k, Per: 1 + r.Intn(3), Var: []string{"", "more", "newhs"}[r.Intn(3)], Delay: d()})
	}
	for i := 0; i < 4; i++ {
		sp = append(sp, Spec{Kind: "retx", N: 6 + r.Intn(10), Per: 1 + r.Intn(4), Delay: d()})
	}
	for i := 0; i < 16; i++ {
		sp = append(sp, Spec{Kind: "rand", N: 12 + r.Intn(30), Per: 1 + r.Intn(3), Pka: []int{0, 0, 0, 3, 8, 25}[r.Intn(6)], Delay: d()})
	}
	return sp
}

// Gallina ------------------------------------------------------------------

func gallina(c Case) string {
	var b strings.Builder
	fmt.Fprintf(&b, "mk %d [", c.Pka)
	for i, it := range c.Items {
		if i > 0 {
			b.WriteString(";")
		}
		fmt.Fprintf(&b, "%d;%d;%d;%d", it.C, it.T, it.A, it.B)
	}
	b.WriteString("]%uint63")
	return b.String()
}

func writeShard(path string, cases []Case) error {
	var b strings.Builder
	b.WriteString("From Coq Require Import Uint63.\nFrom WG Require Import Base.Prelude Timers.Model Timers.Spec Timers.Check.\nLocal Open Scope N_scope.\nDefinition cases : list case := [\n")
	for i, c := range cases {
		if i > 0 {
			b.WriteString(";\n")
		}
		b.WriteString(gallina(c))
	}
	b.WriteString("].\nDefinition bad := Eval vm_compute in (check_cases cases 0).\nPrint bad.\nDefinition st := Eval vm_compute in (stats cases).\nPrint st.\n")
	return os.WriteFile(path, []byte(b.String()), 0o644)
}

func main() {
	seed := flag.Int64("seed", 1, "PRNG seed")
	tier := flag.String("tier", "quick", "quick | thorough")
	per := flag.Int("percase", 6, "cases per case file")
	out := flag.String("out", "out/C14", "output directory")
	replayIn := flag.String("replay", "", "JSON file with scenario specs ([{spec:..}] or [spec]) to run")
	corpus := flag.String("corpus", "", "directory of corpus JSON files (lists of specs) to run as well")
	flag.Parse()
	if err := os.MkdirAll(*out, 0o755); err != nil {
		panic(err)
	}
	var specs []Spec
	readSpecs := func(path string) []Spec {
		data, err := os.ReadFile(path)
		if err != nil {
			return nil
		}
		var wrapped []struct {
			Spec *Spec `json:"spec"`
		}
		var res []Spec
		if json.Unmarshal(data, &wrapped) == nil && len(wrapped) > 0 && wrapped[0].Spec != nil {
			for _, w := range wrapped {
				if w.Spec != nil {
					res = append(res, *w.Spec)
				}
			}
			return res
		}
		json.Unmarshal(data, &res)
		return res
	}
	if *replayIn != "" {
		specs = readSpecs(*replayIn)
	} else {
		if *corpus != "" {
			files, _ := filepath.Glob(filepath.Join(*corpus, "*.json"))
			sort.Strings(files)
			for _, f := range files {
				for _, sp := range readSpecs(f) {
					if *tier == "quick" && (sp.Kind == "giveup" || (sp.Kind == "lost" && sp.N > 3) || (sp.Kind == "retx" && sp.N > 2) || sp.Var == "second") {
						continue // too long for the quick tier
					}
					specs = append(specs, sp)
				}
			}
		}
		r := rand.New(rand.NewSource(*seed))
		if *tier == "thorough" {
			specs = append(specs, thoroughSpecs(r)...)
		} else {
			specs = append(specs, quickSpecs(r)...)
		}
	}
	cases := make([]Case, len(specs))
	watchdog()
	var wg sync.WaitGroup
	for i := range specs {
		wg.Add(1)
		go func(i int) {
			defer wg.Done()
			defer func() {
				if e := recover(); e != nil {
					cases[i] = Case{Spec: specs[i], Err: fmt.Sprint("panic: ", e), Gen: specs[i].Kind}
				}
			}()
			cases[i] = run(specs[i])
		}(i)
	}
	wg.Wait()
	type shardInfo struct {
		File  string `json:"file"`
		First int    `json:"first"`
		N     int    `json:"n"`
	}
	var infos []shardInfo
	for idx, k := 0, 0; idx < len(cases); k++ {
		end := idx + *per
		if end > len(cases) {
			end = len(cases)
		}
		name := fmt.Sprintf("cases_C14_%d.v", k)
		if err := writeShard(filepath.Join(*out, name), cases[idx:end]); err != nil {
			panic(err)
		}
		infos = append(infos, shardInfo{name, idx, end - idx})
		idx = end
	}
	wdMu.Lock()
	wdStop = true
	meta := map[string]any{"seed": *seed, "tier": *tier, "cases": cases, "shards": infos, "wall_s": time.Since(epoch).Seconds(),
		"timer_latency_max_ms": float64(wdMax.Microseconds()) / 1000, "stalls": wdStalls}
	wdMu.Unlock()
	data, _ := json.Marshal(meta)
	if err := os.WriteFile(filepath.Join(*out, "cases.json"), data, 0o644); err != nil {
		panic(err)
	}
}
