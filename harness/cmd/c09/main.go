// c09 drives a real device.Device (public API: NewDevice, IpcSet, IpcGet,
// IpcHandle, Up, Down, Close) through generated sequences of UAPI set texts on
// the in-memory bind/tun of wgv/c09sim, records errno and the configuration
// shown by get after EVERY operation, replays the get text on a fresh device
// (roundtrip), and writes everything as Gallina case files + JSON.
package main

import (
	"bufio"
	"encoding/hex"
	"encoding/json"
	"errors"
	"flag"
	"fmt"
	"math/rand"
	"net"
	"net/netip"
	"os"
	"path/filepath"
	"sort"
	"strconv"
	"strings"
	"time"

	"golang.org/x/crypto/curve25519"
	"golang.zx2c4.com/wireguard/device"
	"wgv/c09sim"
)

// ---------------------------------------------------------------- data

type Op struct {
	Kind string `json:"kind"` // set | up | down | getfail | hangup
	Text string `json:"text,omitempty"`
}

type Pfx struct {
	V6   bool   `json:"v6"`
	Addr string `json:"addr"` // hex of 4/16 bytes
	Bits int    `json:"bits"`
}

type PeerV struct {
	hasKa, hasPv bool
	Key          string `json:"key"`
	Psk          string `json:"psk"`
	Ep           string `json:"ep,omitempty"` // canonical text, "" = none
	Ka           uint64 `json:"ka"`
	Ips          []Pfx  `json:"ips"`
}

type View struct {
	Priv  string  `json:"priv"` // 64 hex, zeros = unset
	Port  uint64  `json:"port"`
	Mark  uint64  `json:"mark"`
	Peers []PeerV `json:"peers"`
}

type Obs struct {
	Errno   int64  `json:"errno"`
	Get     View   `json:"get"`
	HasRT   bool   `json:"has_rt"`
	RTErrno int64  `json:"rt_errno"`
	RT      *View  `json:"rt,omitempty"`
	GetText string `json:"get_text,omitempty"`
}

type Hang struct {
	Op   int    `json:"op"`
	What string `json:"what"`
}

type Case struct {
	Gen       string   `json:"gen"`
	Transport string   `json:"transport"` // direct | handle (one connection per operation) | conn (one connection for the whole case)
	Ops       []Op     `json:"ops"`
	Obs       []Obs    `json:"obs"`
	Hang      *Hang    `json:"hang,omitempty"`
	Anomaly   []string `json:"anomaly,omitempty"`
}

const (
	autoPort = 40000
	zeroKey  = "0000000000000000000000000000000000000000000000000000000000000000"
)

var (
	busyPorts = []uint16{9, 7777}
	badMarks  = []uint32{666}
)

// ---------------------------------------------------------------- running the real device

func newDev() *device.Device {
	b := c09sim.NewBind(autoPort, busyPorts, badMarks)
	return device.NewDevice(c09sim.NewTun(), b, device.NewLogger(device.LogLevelSilent, ""))
}

func errnoOf(err error) int64 {
	if err == nil {
		return 0
	}
	var ipc *device.IPCError
	if errors.As(err, &ipc) {
		return ipc.ErrorCode()
	}
	return -9999
}

var hangTimeout = 20 * time.Second

// withWatchdog runs f; false = did not return in time.
func withWatchdog(f func()) bool {
	done := make(chan struct{})
	go func() { f(); close(done) }()
	select {
	case <-done:
		return true
	case <-time.After(hangTimeout):
		return false
	}
}

// handleSet sends the text through IpcHandle over an in-memory connection.
func handleSet(dev *device.Device, text string) (int64, error) {
	cl, sv := net.Pipe()
	go dev.IpcHandle(sv)
	defer cl.Close()
	if !strings.HasSuffix(text, "\n") {
		text += "\n"
	}
	go func() { cl.Write([]byte("set=1\n" + text + "\n")) }()
	rd := bufio.NewReader(cl)
	l1, err := rd.ReadString('\n')
	if err != nil {
		return 0, err
	}
	l2, err := rd.ReadString('\n')
	if err != nil {
		return 0, err
	}
	if !strings.HasPrefix(l1, "errno=") || l2 != "\n" {
		return 0, fmt.Errorf("bad status framing %q %q", l1, l2)
	}
	n, err := strconv.ParseInt(strings.TrimSuffix(l1[6:], "\n"), 10, 64)
	return n, err
}

func handleGet(dev *device.Device) (string, error) {
	cl, sv := net.Pipe()
	go dev.IpcHandle(sv)
	defer cl.Close()
	go func() { cl.Write([]byte("get=1\n\n")) }()
	rd := bufio.NewReader(cl)
	var b strings.Builder
	for {
		l, err := rd.ReadString('\n')
		if err != nil {
			return "", err
		}
		if l == "\n" {
			break
		}
		b.WriteString(l)
	}
	out := b.String()
	if !strings.HasSuffix(out, "errno=0\n") {
		return "", fmt.Errorf("get did not end with errno=0: %q", out)
	}
	return strings.TrimSuffix(out, "errno=0\n"), nil
}

// uapiConn is ONE IpcHandle connection used for many operations, like a
// long-lived management client: every request goes out in a single Write and
// the status line errno=N of every operation is read back.  Requests are kept
// below the handler's 4096-byte read buffer so that a failing set cannot leave
// unread lines behind (the whole request has been consumed by then).
type uapiConn struct {
	dev  *device.Device
	cl   net.Conn
	rd   *bufio.Reader
	nops int
}

const connMaxRequest = 3500

func (u *uapiConn) open() {
	cl, sv := net.Pipe()
	go u.dev.IpcHandle(sv)
	u.cl, u.rd, u.nops = cl, bufio.NewReader(cl), 0
}

func (u *uapiConn) close() {
	if u.cl != nil {
		u.cl.Close()
		u.cl = nil
	}
}

// request returns the lines before the status line and the errno reported.
func (u *uapiConn) request(req string) (string, int64, error) {
	if u.cl == nil {
		u.open()
	}
	cl := u.cl
	go func() { cl.Write([]byte(req)) }()
	cl.SetReadDeadline(time.Now().Add(15 * time.Second))
	var lines []string
	for {
		l, err := u.rd.ReadString('\n')
		if err != nil {
			n := u.nops
			u.close()
			return "", 0, fmt.Errorf("connection lost after %d operations: %v", n, err)
		}
		if l == "\n" {
			break
		}
		lines = append(lines, l)
	}
	u.nops++
	if len(lines) == 0 || !strings.HasPrefix(lines[len(lines)-1], "errno=") {
		return "", 0, fmt.Errorf("no status line in %q", strings.Join(lines, ""))
	}
	st := lines[len(lines)-1]
	n, err := strconv.ParseInt(strings.TrimSuffix(st[6:], "\n"), 10, 64)
	return strings.Join(lines[:len(lines)-1], ""), n, err
}

func (u *uapiConn) set(text string) (int64, error) {
	if !strings.HasSuffix(text, "\n") {
		text += "\n"
	}
	req := "set=1\n" + text + "\n"
	if len(req) > connMaxRequest {
		return handleSet(u.dev, text) // too large for one buffered read: its own connection
	}
	body, n, err := u.request(req)
	if err == nil && body != "" {
		err = fmt.Errorf("set answered with a body %q", body)
	}
	return n, err
}

// handleGarbage: an unknown operation / trailing characters after get=1 must
// close the connection or answer EINVAL without touching the configuration.
func handleGarbage(dev *device.Device, what string) string {
	cl, sv := net.Pipe()
	go dev.IpcHandle(sv)
	defer cl.Close()
	go func() { cl.Write([]byte(what)) }()
	cl.SetReadDeadline(time.Now().Add(5 * time.Second))
	rd := bufio.NewReader(cl)
	var got strings.Builder
	for {
		l, err := rd.ReadString('\n')
		got.WriteString(l)
		if err != nil {
			if errors.Is(err, os.ErrDeadlineExceeded) {
				return "timeout after " + strconv.Quote(got.String())
			}
			return "closed after " + strconv.Quote(got.String())
		}
		if l == "\n" {
			return "answered " + strconv.Quote(got.String())
		}
	}
}

// failWriter is an io.Writer whose peer has gone away.
type failWriter struct{}

func (failWriter) Write(p []byte) (int, error) { return 0, errors.New("client went away") }

// undeliveredGet performs a get whose output cannot be delivered -- directly
// (IpcGetOperation on a failing writer) or through IpcHandle with a client that
// sends get=1 and hangs up without reading -- immediately followed, on the same
// goroutine (IpcGetOperation keeps its buffer in a sync.Pool, which is per P), by
// an ordinary get.  Several rounds; the longest ordinary get text is returned
// (anything left over from the undelivered one makes it longer) together with
// the errno of the failing IpcGetOperation calls.
func undeliveredGet(dev *device.Device, hangup bool) (text string, errno int64, notes []string) {
	rounds := 20
	if hangup {
		rounds = 6
	}
	for r := 0; r < rounds; r++ {
		if hangup {
			cl, sv := net.Pipe()
			go func() {
				cl.Write([]byte("get=1\n\n"))
				cl.Close()
			}()
			dev.IpcHandle(sv) // returns once the client is gone
		} else {
			e := errnoOf(dev.IpcGetOperation(failWriter{}))
			if r == 0 {
				errno = e
			} else if e != errno {
				notes = append(notes, fmt.Sprintf("failing-get-errno-varies %d %d", errno, e))
			}
		}
		t, err := dev.IpcGet()
		if err != nil {
			notes = append(notes, "get-after-undelivered-get: "+err.Error())
		}
		if r == 0 || len(t) > len(text) {
			text = t
		}
	}
	return
}

var configKeys = map[string]bool{"private_key": true, "listen_port": true, "fwmark": true, "public_key": true,
	"preshared_key": true, "protocol_version": true, "endpoint": true, "persistent_keepalive_interval": true, "allowed_ip": true}
var statKeys = map[string]bool{"last_handshake_time_sec": true, "last_handshake_time_nsec": true, "tx_bytes": true, "rx_bytes": true}

func pfxOf(p netip.Prefix) Pfx {
	a := p.Addr()
	if a.Is4() {
		b := a.As4()
		return Pfx{false, hex.EncodeToString(b[:]), p.Bits()}
	}
	b := a.As16()
	return Pfx{true, hex.EncodeToString(b[:]), p.Bits()}
}

func pfxLess(a, b Pfx) bool {
	if a.V6 != b.V6 {
		return !a.V6
	}
	if a.Addr != b.Addr {
		return a.Addr < b.Addr
	}
	return a.Bits < b.Bits
}

// parseGet canonicalises a get text; anomalies (anything a well-formed get
// cannot contain) are returned as strings.
func parseGet(text string) (View, string, []string) {
	v := View{Priv: zeroKey, Peers: []PeerV{}}
	var anomalies []string
	var replay strings.Builder
	var cur *PeerV
	seenPeer := map[string]bool{}
	seenDev := map[string]bool{}
	if text != "" && !strings.HasSuffix(text, "\n") {
		anomalies = append(anomalies, "no-final-newline")
	}
	flush := func() {
		if cur != nil {
			v.Peers = append(v.Peers, *cur)
		}
	}
	for _, line := range strings.Split(strings.TrimSuffix(text, "\n"), "\n") {
		if line == "" {
			if text != "" {
				anomalies = append(anomalies, "blank-line")
			}
			continue
		}
		k, val, ok := strings.Cut(line, "=")
		if !ok {
			anomalies = append(anomalies, "no-equals")
			continue
		}
		if statKeys[k] {
			if cur == nil {
				anomalies = append(anomalies, "stat-key-outside-peer")
			}
			continue
		}
		if !configKeys[k] {
			anomalies = append(anomalies, "unknown-key-"+k)
			continue
		}
		replay.WriteString(line + "\n")
		isHexKey := func() bool {
			b, err := hex.DecodeString(val)
			return err == nil && len(b) == 32 && val == strings.ToLower(val)
		}
		switch k {
		case "private_key", "listen_port", "fwmark":
			if cur != nil || seenDev[k] {
				anomalies = append(anomalies, "device-key-misplaced-"+k)
			}
			seenDev[k] = true
		}
		switch k {
		case "private_key":
			if !isHexKey() || val == zeroKey {
				anomalies = append(anomalies, "bad-private_key")
			} else {
				v.Priv = val
			}
		case "listen_port":
			n, err := strconv.ParseUint(val, 10, 16)
			if err != nil || n == 0 {
				anomalies = append(anomalies, "bad-listen_port")
			}
			v.Port = n
		case "fwmark":
			n, err := strconv.ParseUint(val, 10, 32)
			if err != nil || n == 0 {
				anomalies = append(anomalies, "bad-fwmark")
			}
			v.Mark = n
		case "public_key":
			flush()
			if !isHexKey() {
				anomalies = append(anomalies, "bad-public_key")
			}
			if seenPeer[val] {
				anomalies = append(anomalies, "duplicate-peer")
			}
			seenPeer[val] = true
			cur = &PeerV{Key: val, Psk: "", Ips: []Pfx{}}
		default:
			if cur == nil {
				anomalies = append(anomalies, "peer-key-outside-peer-"+k)
				continue
			}
			switch k {
			case "preshared_key":
				if !isHexKey() || cur.Psk != "" {
					anomalies = append(anomalies, "bad-preshared_key")
				}
				cur.Psk = val
			case "protocol_version":
				if val != "1" || cur.hasPv {
					anomalies = append(anomalies, "bad-protocol_version")
				}
				cur.hasPv = true
			case "endpoint":
				ap, err := netip.ParseAddrPort(val)
				if err != nil || ap.String() != val || cur.Ep != "" {
					anomalies = append(anomalies, "bad-endpoint")
				}
				cur.Ep = val
			case "persistent_keepalive_interval":
				n, err := strconv.ParseUint(val, 10, 16)
				if err != nil || cur.hasKa {
					anomalies = append(anomalies, "bad-keepalive")
				}
				cur.hasKa = true
				cur.Ka = n
			case "allowed_ip":
				p, err := netip.ParsePrefix(val)
				if err != nil || p.Masked() != p {
					anomalies = append(anomalies, "bad-allowed_ip")
				} else {
					cur.Ips = append(cur.Ips, pfxOf(p))
				}
			}
		}
	}
	flush()
	for i := range v.Peers {
		p := &v.Peers[i]
		if p.Psk == "" {
			anomalies = append(anomalies, "peer-without-preshared_key")
			p.Psk = zeroKey
		}
		if !p.hasKa || !p.hasPv {
			anomalies = append(anomalies, "peer-without-keepalive-or-protocol_version")
		}
		p.hasKa, p.hasPv = false, false
		sort.Slice(p.Ips, func(a, b int) bool { return pfxLess(p.Ips[a], p.Ips[b]) })
		for j := 1; j < len(p.Ips); j++ {
			if p.Ips[j] == p.Ips[j-1] {
				anomalies = append(anomalies, "duplicate-allowed_ip")
			}
		}
	}
	sort.Slice(v.Peers, func(a, b int) bool { return v.Peers[a].Key < v.Peers[b].Key })
	owner := map[Pfx]string{}
	for _, p := range v.Peers {
		for _, q := range p.Ips {
			if o, ok := owner[q]; ok && o != p.Key {
				anomalies = append(anomalies, "prefix-with-two-owners")
			}
			owner[q] = p.Key
		}
	}
	return v, replay.String(), anomalies
}

// checkPrivateFromHex compares device.NoisePrivateKey.FromHex (the other hex
// parser of private keys; UAPI itself uses FromMaybeZeroHex) with a reference:
// exactly 64 hex digits, always clamped (also the all-zero key).
func checkPrivateFromHex(val string) string {
	var k device.NoisePrivateKey
	err := k.FromHex(val)
	b, derr := hex.DecodeString(val)
	if derr != nil || len(b) != 32 {
		if err == nil {
			return "NoisePrivateKey.FromHex-accepts-malformed"
		}
		return ""
	}
	b[0] &= 248
	b[31] = (b[31] & 127) | 64
	if err != nil {
		return "NoisePrivateKey.FromHex-rejects-wellformed"
	}
	if hex.EncodeToString(k[:]) != hex.EncodeToString(b) {
		return "NoisePrivateKey.FromHex-not-clamped"
	}
	return ""
}

func hangWhat(text string) string {
	for _, k := range []string{"private_key", "listen_port", "fwmark", "replace_peers", "remove", "update_only"} {
		if strings.Contains(text, k+"=") {
			return k
		}
	}
	return "other"
}

func runCase(c *Case) {
	dev := newDev()
	closed := false
	defer func() {
		if !closed {
			withWatchdog(dev.Close)
		}
	}()
	c.Obs = nil
	c.Hang = nil
	c.Anomaly = nil
	uc := &uapiConn{dev: dev}
	defer uc.close()
	for i, op := range c.Ops {
		var errno int64
		var undeliveredText string
		ok := true
		switch op.Kind {
		case "up":
			ok = withWatchdog(func() {
				if dev.Up() != nil {
					errno = -1
				}
			})
		case "down":
			ok = withWatchdog(func() {
				if dev.Down() != nil {
					errno = -1
				}
			})
		case "getfail", "hangup":
			ok = withWatchdog(func() {
				var notes []string
				undeliveredText, errno, notes = undeliveredGet(dev, op.Kind == "hangup")
				for _, n := range notes {
					c.Anomaly = append(c.Anomaly, fmt.Sprintf("op%d %s", i, n))
				}
			})
		default:
			ok = withWatchdog(func() {
				if c.Transport == "conn" {
					n, err := uc.set(op.Text)
					if err != nil {
						c.Anomaly = append(c.Anomaly, fmt.Sprintf("op%d conn-set: %v", i, err))
						n = -9997
					}
					errno = n
				} else if c.Transport == "handle" {
					n, err := handleSet(dev, op.Text)
					if err != nil {
						c.Anomaly = append(c.Anomaly, fmt.Sprintf("op%d handle-set: %v", i, err))
						n = -9998
					}
					errno = n
				} else {
					errno = errnoOf(dev.IpcSet(op.Text))
				}
			})
		}
		if !ok {
			what := op.Kind
			if op.Kind == "set" || op.Kind == "" {
				what = hangWhat(op.Text)
			}
			c.Hang = &Hang{i, what}
			c.Ops = c.Ops[:i]
			closed = true // the device is stuck; leak it
			return
		}
		if op.Kind == "set" || op.Kind == "" {
			for _, l := range scanLines(op.Text) {
				if v, okv := strings.CutPrefix(l, "private_key="); okv && len(l) < maxToken {
					if a := checkPrivateFromHex(v); a != "" {
						c.Anomaly = append(c.Anomaly, fmt.Sprintf("op%d %s", i, a))
					}
				}
			}
		}
		var text string
		var gerr error
		if op.Kind == "getfail" || op.Kind == "hangup" {
			text = undeliveredText
		} else if c.Transport == "conn" {
			var st int64
			okg := withWatchdog(func() { text, st, gerr = uc.request("get=1\n\n") })
			if !okg {
				gerr = errors.New("get on the shared connection does not return")
			} else if gerr == nil && st != 0 {
				// the configuration keys arrived; the status of THIS operation must be 0
				c.Anomaly = append(c.Anomaly, fmt.Sprintf("op%d get-status-on-shared-connection errno=%d want 0", i, st))
			}
		} else if c.Transport == "handle" {
			text, gerr = handleGet(dev)
		} else {
			text, gerr = dev.IpcGet()
		}
		if gerr != nil {
			c.Anomaly = append(c.Anomaly, fmt.Sprintf("op%d get: %v", i, gerr))
		}
		v, replay, an := parseGet(text)
		for _, a := range an {
			c.Anomaly = append(c.Anomaly, fmt.Sprintf("op%d get-%s", i, a))
		}
		o := Obs{Errno: errno, Get: v, GetText: text}
		// roundtrip on a fresh (down) device
		fresh := newDev()
		okrt := withWatchdog(func() { o.RTErrno = errnoOf(fresh.IpcSet(replay)) })
		if okrt {
			t2, _ := fresh.IpcGet()
			v2, _, _ := parseGet(t2)
			o.RT = &v2
			o.HasRT = true
			withWatchdog(fresh.Close)
		} else {
			c.Hang = &Hang{i, "roundtrip"}
		}
		c.Obs = append(c.Obs, o)
	}
	if c.Transport == "handle" {
		before, _ := dev.IpcGet()
		for _, g := range []string{"foo=1\n", "get=1\nx\n", "set=2\n", "\n", "get=1 \n\n"} {
			r := handleGarbage(dev, g)
			switch {
			case strings.HasPrefix(r, "closed after \"\""):
			case g == "get=1\nx\n" && r == "answered \"errno=-22\\n\\n\"":
			default:
				c.Anomaly = append(c.Anomaly, fmt.Sprintf("handle-garbage %q: %s", g, r))
			}
		}
		after, _ := dev.IpcGet()
		vb, _, _ := parseGet(before)
		va, _, _ := parseGet(after)
		jb, _ := json.Marshal(vb)
		ja, _ := json.Marshal(va)
		if string(jb) != string(ja) {
			c.Anomaly = append(c.Anomaly, "handle-garbage changed the configuration")
		}
	}
}

// ---------------------------------------------------------------- tokeniser + Gallina printer

var keyCode = map[string]int{"private_key": 0, "listen_port": 1, "fwmark": 2, "replace_peers": 3, "public_key": 4,
	"update_only": 5, "remove": 6, "preshared_key": 7, "persistent_keepalive_interval": 8,
	"replace_allowed_ips": 9, "protocol_version": 10}

// scanLines is bufio.ScanLines written out: split at '\n', drop one trailing
// '\r' of each line, a final piece without newline is a line unless empty.
func scanLines(text string) []string {
	var res []string
	for len(text) > 0 {
		i := strings.IndexByte(text, '\n')
		var l string
		if i < 0 {
			l, text = text, ""
		} else {
			l, text = text[:i], text[i+1:]
		}
		l = strings.TrimSuffix(l, "\r")
		res = append(res, l)
	}
	return res
}

func pack(b []byte) string {
	var parts []string
	for i := 0; i < len(b); i += 7 {
		var v uint64
		for j := 0; j < 7 && i+j < len(b); j++ {
			v |= uint64(b[i+j]) << (8 * j)
		}
		parts = append(parts, strconv.FormatUint(v, 10))
	}
	return "[" + strings.Join(parts, ";") + "]"
}

func packHex(h string) string {
	b, err := hex.DecodeString(h)
	if err != nil {
		panic(err)
	}
	return pack(b)
}

type printer struct {
	eps  map[string]int
	keys map[string]string // private (post clamp) -> public
}

func (p *printer) epID(s string) int {
	if id, ok := p.eps[s]; ok {
		return id
	}
	id := len(p.eps) + 1
	p.eps[s] = id
	return id
}

func pubOf(priv []byte) string {
	// what device.NoisePrivateKey.publicKey computes
	var out, in [32]byte
	copy(in[:], priv)
	curve25519.ScalarBaseMult(&out, &in)
	return hex.EncodeToString(out[:])
}

func (p *printer) notePrivate(val string) {
	b, err := hex.DecodeString(val)
	if err != nil || len(b) != 32 {
		return
	}
	zero := true
	for _, x := range b {
		if x != 0 {
			zero = false
		}
	}
	if !zero {
		b[0] &= 248
		b[31] = (b[31] & 127) | 64
	}
	p.keys[hex.EncodeToString(b)] = pubOf(b)
}

func gbool(b bool) string {
	if b {
		return "true"
	}
	return "false"
}

func (p *printer) gpfx(q Pfx) string {
	return fmt.Sprintf("mkpfx %s %s %d", gbool(q.V6), packHex(q.Addr), q.Bits)
}

const maxToken = 64 * 1024

func (p *printer) line(l string) string {
	if l == "" {
		return "Blank"
	}
	if len(l) >= maxToken {
		return "TooLong"
	}
	k, v, ok := strings.Cut(l, "=")
	if !ok {
		return "NoEq"
	}
	switch k {
	case "endpoint":
		ap, err := netip.ParseAddrPort(v)
		if err != nil {
			return "EPbad"
		}
		return fmt.Sprintf("EP %d", p.epID(ap.String()))
	case "allowed_ip":
		neg := false
		if len(v) > 0 && v[0] == '-' {
			neg = true
			v = v[1:]
		}
		pf, err := netip.ParsePrefix(v)
		if err != nil {
			return "AIPbad " + gbool(neg)
		}
		q := pfxOf(pf)
		return fmt.Sprintf("AIP %s %s %s %d", gbool(neg), gbool(q.V6), packHex(q.Addr), q.Bits)
	}
	code, ok := keyCode[k]
	if !ok {
		code = 99
	}
	if k == "private_key" {
		p.notePrivate(v)
	}
	return fmt.Sprintf("T %d %d %s", code, len(v), pack([]byte(v)))
}

func (p *printer) view(v View) string {
	var ps []string
	for _, pe := range v.Peers {
		ep := "None"
		if pe.Ep != "" {
			ep = fmt.Sprintf("(Some %d)", p.epID(pe.Ep))
		}
		var ips []string
		for _, q := range pe.Ips {
			ips = append(ips, p.gpfx(q))
		}
		ps = append(ps, fmt.Sprintf("P %s %s %s %d [%s]", packHex(pe.Key), packHex(pe.Psk), ep, pe.Ka, strings.Join(ips, ";")))
	}
	return fmt.Sprintf("(V %s %d %d [%s])", packHex(v.Priv), v.Port, v.Mark, strings.Join(ps, ";\n     "))
}

func gallina(c Case) string {
	p := &printer{eps: map[string]int{}, keys: map[string]string{}}
	p.notePrivate(zeroKey)
	var ops []string
	for _, op := range c.Ops {
		switch op.Kind {
		case "up":
			ops = append(ops, "OUp")
		case "down":
			ops = append(ops, "ODown")
		case "getfail":
			ops = append(ops, "OGetFail")
		case "hangup":
			ops = append(ops, "OHangup")
		default:
			var ls []string
			for _, l := range scanLines(op.Text) {
				ls = append(ls, p.line(l))
				if len(l) >= maxToken {
					break
				}
			}
			ops = append(ops, "OSet ["+strings.Join(ls, "; ")+"]")
		}
	}
	var obs []string
	for _, o := range c.Obs {
		if o.HasRT {
			obs = append(obs, fmt.Sprintf("Obr %d %s %d %s", -o.Errno, p.view(o.Get), -o.RTErrno, p.view(*o.RT)))
		} else {
			obs = append(obs, fmt.Sprintf("Ob %d %s", -o.Errno, p.view(o.Get)))
		}
	}
	var ks []string
	var privs []string
	for k := range p.keys {
		privs = append(privs, k)
	}
	sort.Strings(privs)
	for _, k := range privs {
		ks = append(ks, fmt.Sprintf("(%s,%s)", packHex(k), packHex(p.keys[k])))
	}
	var busy, bad []string
	for _, b := range busyPorts {
		busy = append(busy, strconv.Itoa(int(b)))
	}
	for _, b := range badMarks {
		bad = append(bad, strconv.Itoa(int(b)))
	}
	return fmt.Sprintf("mk (mkenv [%s] %d [%s] [%s])\n  [%s]\n  [%s]", strings.Join(ks, ";"), autoPort,
		strings.Join(busy, ";"), strings.Join(bad, ";"), strings.Join(ops, ";\n   "), strings.Join(obs, ";\n   "))
}

func writeShard(path string, cases []Case) error {
	var b strings.Builder
	b.WriteString("From Coq Require Import Uint63.\nFrom WG Require Import Base.Prelude Uapi.Model Uapi.Spec Uapi.Check.\nLocal Open Scope uint63_scope.\nDefinition cases : list case := [\n")
	for i, c := range cases {
		if i > 0 {
			b.WriteString(";\n")
		}
		b.WriteString(gallina(c))
	}
	b.WriteString("].\nDefinition bad := Eval vm_compute in (check_cases cases 0).\nPrint bad.\nDefinition st := Eval vm_compute in (stats cases).\nPrint st.\n")
	return os.WriteFile(path, []byte(b.String()), 0o644)
}

// ---------------------------------------------------------------- generation

type pool struct {
	r       *rand.Rand
	privs   []string // hex, unclamped as written by the user
	pubs    []string // peer keys: random ones, the publics of privs, zero, pub(zero)
	psks    []string
	created []string
	usedPfx []string // prefixes already handed to some peer in this case
}

func randHex(r *rand.Rand, n int) string {
	b := make([]byte, n)
	r.Read(b)
	return hex.EncodeToString(b)
}

func clampedPub(h string) string {
	b, _ := hex.DecodeString(h)
	b[0] &= 248
	b[31] = (b[31] & 127) | 64
	return pubOf(b)
}

func newPool(r *rand.Rand) *pool {
	p := &pool{r: r}
	for i := 0; i < 3; i++ {
		p.privs = append(p.privs, randHex(r, 32))
	}
	// value class: a private key that is certainly NOT clamped (low 3 bits of byte 0 set, bit 7 of
	// byte 31 set, bit 6 clear); get must echo the clamped form and the own public key derives from it
	{
		b := make([]byte, 32)
		r.Read(b)
		b[0] |= 7
		b[31] = (b[31] | 0x80) &^ 0x40
		p.privs = append(p.privs, hex.EncodeToString(b))
	}
	// value class: keys that differ from the all-zero key only in bits clamping clears, and the
	// smallest clamped key itself
	if r.Intn(4) == 0 {
		p.privs = append(p.privs, pick(r, nearZeroPrivs))
	}
	for i := 0; i < 4; i++ {
		p.pubs = append(p.pubs, randHex(r, 32))
	}
	for _, k := range p.privs {
		p.pubs = append(p.pubs, clampedPub(k))
	}
	zb := make([]byte, 32)
	if r.Intn(3) == 0 {
		p.pubs = append(p.pubs, zeroKey, pubOf(zb))
	}
	p.psks = []string{randHex(r, 32), randHex(r, 32), zeroKey}
	return p
}

func pick(r *rand.Rand, l []string) string { return l[r.Intn(len(l))] }

// not zero for FromMaybeZeroHex (so they are clamped, all of them to 00..0040 except the last),
// although only bits that clamping clears are set
var nearZeroPrivs = []string{
	"01" + strings.Repeat("00", 31), "07" + strings.Repeat("00", 31), strings.Repeat("00", 31) + "80",
	"05" + strings.Repeat("00", 30) + "80", strings.Repeat("00", 31) + "40", strings.Repeat("ff", 32)}

var prefixes = []string{"10.0.0.0/8", "10.0.0.0/24", "10.0.0.5/24", "10.0.0.5/32", "10.0.0.4/31", "0.0.0.0/0", "192.168.1.77/16",
	"255.255.255.255/32", "128.0.0.0/1", "::/0", "fd00::/64", "fd00::1/64", "fd00::1/128", "::ffff:1.2.3.4/128", "::ffff:1.2.3.4/100",
	"8000::/1", "2001:db8::ff00:42:8329/127", "1.2.3.4/32", "1.2.3.4/0"}
var badPrefixes = []string{"10.0.0.0", "10.0.0.0/33", "1.2.3/24", "fd00::/129", "", "10.0.0.1/-1", "10.0.0.1/08", "fe80::1%eth0/64",
	" 10.0.0.0/8", "10.0.0.0/8 ", "10.0.0.0/", "/8", "--10.0.0.0/8", "+10.0.0.0/8", "10.0.0.256/8", "fd00:::/64", "1.2.3.4/032"}
var endpoints = []string{"1.2.3.4:51820", "[fd00::1]:1", "[fe80::1%eth0]:5", "1.2.3.4:0", "255.255.255.255:65535", "[::ffff:1.2.3.4]:7", "[::]:9", "0.0.0.0:1"}
var badEndpoints = []string{"1.2.3.4", "host:1", "1.2.3.4:65536", "", "[::1]", "::1:5", "1.2.3.4:-1", "1.2.3.4: 5", " 1.2.3.4:5", "[1.2.3.4]:5", "1.2.3.4:05x"}
var ports = []string{"0", "1", "51820", "65535", "007", "40000", "9", "7777", "00000000000000000000000065535", "25"}
var badNums = []string{"65536", "-1", "", "0x1", " 1", "1 ", "+1", "1_0", "99999999999999999999", "4294967296", "१", "1.0", "1e3", "true"}
var marks = []string{"0", "1", "666", "4294967295", "65536", "51820", "0000"}
var kas = []string{"0", "1", "25", "65535", "0025"}
var badBools = []string{"false", "True", "1", "", "true ", " true", "TRUE", "truee", "tru"}
var unknownKeys = []string{"foo", "Listen_port", " listen_port", "listen_port ", "last_handshake_time_sec", "rx_bytes", "tx_bytes", "errno", "get", "set", "allowed_ips", "publickey", ""}

func badHex(r *rand.Rand, good string) string {
	switch r.Intn(9) {
	case 0:
		return good[:63]
	case 1:
		return good + "0"
	case 2:
		return good[:62]
	case 3:
		return good + "00"
	case 4:
		return good[:20] + "g" + good[21:]
	case 5:
		return ""
	case 6:
		return "0x" + good[:62]
	case 7:
		return good[:32] + " " + good[33:]
	default:
		return good[:63] + "G"
	}
}

func maybeUpper(r *rand.Rand, s string) string {
	if r.Intn(8) == 0 {
		return strings.ToUpper(s)
	}
	return s
}

func (p *pool) deviceLine(invalid bool) string {
	r := p.r
	switch r.Intn(8) {
	case 0, 1, 2:
		k := pick(r, p.privs)
		if r.Intn(6) == 0 {
			k = zeroKey
		}
		if invalid {
			return "private_key=" + badHex(r, k)
		}
		return "private_key=" + maybeUpper(r, k)
	case 3, 4:
		if invalid {
			return "listen_port=" + pick(r, append(badNums, "4294967295"))
		}
		if r.Intn(4) == 0 {
			return "listen_port=" + strconv.Itoa(r.Intn(65536))
		}
		return "listen_port=" + pick(r, ports)
	case 5, 6:
		if invalid {
			return "fwmark=" + pick(r, badNums[1:])
		}
		return "fwmark=" + pick(r, marks)
	default:
		if invalid {
			return "replace_peers=" + pick(r, badBools)
		}
		return "replace_peers=true"
	}
}

func (p *pool) peerLine(invalid bool) string {
	r := p.r
	switch r.Intn(16) {
	case 0:
		if invalid {
			return "update_only=" + pick(r, badBools)
		}
		return "update_only=true"
	case 1:
		if invalid {
			return "remove=" + pick(r, badBools)
		}
		return "remove=true"
	case 2, 3:
		k := pick(r, p.psks)
		if invalid {
			return "preshared_key=" + badHex(r, k)
		}
		return "preshared_key=" + maybeUpper(r, k)
	case 4, 5:
		if invalid {
			return "endpoint=" + pick(r, badEndpoints)
		}
		return "endpoint=" + pick(r, endpoints)
	case 6, 7:
		if invalid {
			return "persistent_keepalive_interval=" + pick(r, badNums)
		}
		return "persistent_keepalive_interval=" + pick(r, kas)
	case 8:
		if invalid {
			return "replace_allowed_ips=" + pick(r, badBools)
		}
		return "replace_allowed_ips=true"
	case 9:
		if invalid {
			return "protocol_version=" + pick(r, []string{"2", "", "01", "0", "1 "})
		}
		return "protocol_version=1"
	default:
		neg := ""
		if r.Intn(4) == 0 {
			neg = "-"
		}
		if invalid {
			return "allowed_ip=" + neg + pick(r, badPrefixes)
		}
		q := pick(r, prefixes)
		if len(p.usedPfx) > 0 && r.Intn(10) < 6 {
			q = pick(r, p.usedPfx)
		}
		if neg == "" {
			p.usedPfx = append(p.usedPfx, q)
		}
		return "allowed_ip=" + neg + q
	}
}

func (p *pool) pubLine(invalid bool) string {
	r := p.r
	k := pick(r, p.pubs)
	if len(p.created) > 0 && r.Intn(2) == 0 {
		k = pick(r, p.created)
	}
	if invalid {
		return "public_key=" + badHex(r, k)
	}
	p.created = append(p.created, k)
	return "public_key=" + maybeUpper(r, k)
}

func (p *pool) setText() string {
	r := p.r
	var lines []string
	for n := r.Intn(4); n > 0; n-- {
		lines = append(lines, p.deviceLine(false))
	}
	for s := r.Intn(4); s > 0; s-- {
		lines = append(lines, p.pubLine(false))
		for n := r.Intn(6); n > 0; n-- {
			lines = append(lines, p.peerLine(false))
		}
	}
	if len(lines) == 0 {
		lines = append(lines, p.deviceLine(false))
	}
	// perturbations
	if r.Intn(100) < 30 {
		i := r.Intn(len(lines))
		switch r.Intn(10) {
		case 0, 1, 2, 3: // same key, invalid value
			k, _, _ := strings.Cut(lines[i], "=")
			var nl string
			for tries := 0; tries < 200; tries++ {
				switch {
				case k == "public_key":
					nl = p.pubLine(true)
				case k == "private_key" || k == "listen_port" || k == "fwmark" || k == "replace_peers":
					nl = p.deviceLine(true)
				default:
					nl = p.peerLine(true)
				}
				if strings.HasPrefix(nl, k+"=") {
					break
				}
			}
			lines[i] = nl
		case 4: // no '='
			lines[i] = pick(r, []string{"listen_port", "garbage", "public_key " + pick(r, p.pubs), " ", "remove"})
		case 5: // unknown key
			lines[i] = pick(r, unknownKeys) + "=" + pick(r, []string{"1", "true", ""})
		case 6: // device key in a peer section / peer key in the device section
			j := r.Intn(len(lines) + 1)
			var nl string
			if r.Intn(2) == 0 {
				nl = p.deviceLine(false)
			} else {
				nl = p.peerLine(false)
			}
			lines = append(lines[:j], append([]string{nl}, lines[j:]...)...)
		case 7: // blank line in the middle
			j := r.Intn(len(lines) + 1)
			lines = append(lines[:j], append([]string{""}, lines[j:]...)...)
		case 8: // value containing '='
			lines[i] = lines[i] + "=1"
		default: // \r\n line ends on one line
			lines[i] = lines[i] + "\r"
		}
	}
	text := strings.Join(lines, "\n")
	if r.Intn(10) != 0 {
		text += "\n"
	}
	if r.Intn(10) == 0 {
		text += "\n"
	}
	return text
}

func genCase(r *rand.Rand) Case {
	p := newPool(r)
	c := Case{Gen: "random", Transport: "direct"}
	if r.Intn(2) == 0 {
		c.Ops = append(c.Ops, Op{Kind: "up"})
		c.Gen = "random-up"
	}
	n := 3 + r.Intn(6)
	for i := 0; i < n; i++ {
		switch x := r.Intn(100); {
		case x < 6:
			c.Ops = append(c.Ops, Op{Kind: "up"})
		case x < 10:
			c.Ops = append(c.Ops, Op{Kind: "down"})
		case x < 15:
			c.Ops = append(c.Ops, Op{Kind: "getfail"})
		case x < 18:
			c.Ops = append(c.Ops, Op{Kind: "hangup"})
		default:
			c.Ops = append(c.Ops, Op{Kind: "set", Text: p.setText()})
		}
	}
	if x := r.Intn(5); x < 2 {
		ok := true
		for _, op := range c.Ops {
			if op.Kind == "set" {
				ls := scanLines(op.Text)
				for i, l := range ls {
					if l == "" && i != len(ls)-1 {
						ok = false
					}
				}
				if len(ls) > 0 && ls[len(ls)-1] == "" {
					ok = false
				}
			}
		}
		if ok && x == 0 {
			c.Transport = "handle"
			c.Gen += "-handle"
		} else if ok {
			c.Transport = "conn"
			c.Gen += "-conn"
		}
	}
	return c
}

func set(lines ...string) Op { return Op{Kind: "set", Text: strings.Join(lines, "\n") + "\n"} }

// directed scenarios: the corner semantics pinned in DESIGN.md C09, one per case
func directed() []Case {
	priv1 := "a8dac0ffee00000000000000000000000000000000000000000000000000aa41"
	priv2 := "b8dac0ffee11111111111111111111111111111111111111111111111111bb42"
	pub1, pub2 := clampedPub(priv1), clampedPub(priv2)
	pA := "aa000000000000000000000000000000000000000000000000000000000000aa"
	pB := "bb000000000000000000000000000000000000000000000000000000000000bb"
	psk := "cc000000000000000000000000000000000000000000000000000000000000cc"
	p0 := pubOf(make([]byte, 32))
	var cs []Case
	add := func(gen string, ops ...Op) { cs = append(cs, Case{Gen: gen, Transport: "direct", Ops: ops}) }
	up, down := Op{Kind: "up"}, Op{Kind: "down"}
	add("d-basic", set("private_key="+priv1, "listen_port=51820", "fwmark=7", "public_key="+pA, "preshared_key="+psk,
		"endpoint=1.2.3.4:5", "persistent_keepalive_interval=25", "allowed_ip=10.0.0.5/24", "allowed_ip=fd00::1/64",
		"public_key="+pB, "allowed_ip=10.0.0.0/8"))
	add("d-self-key-section", set("private_key="+priv1, "public_key="+pub1, "preshared_key="+psk, "allowed_ip=10.0.0.0/8", "endpoint=bad"))
	add("d-private-key-collision", set("private_key="+priv1, "public_key="+pub2, "allowed_ip=10.0.0.0/8", "public_key="+pA, "allowed_ip=10.1.0.0/16"),
		set("private_key="+priv2), set("public_key="+pub2, "allowed_ip=10.0.0.0/8"), set("private_key="+priv1, "public_key="+pub2))
	add("d-private-key-collision-up", up, set("private_key="+priv1, "public_key="+pub2, "endpoint=1.2.3.4:5", "persistent_keepalive_interval=1", "allowed_ip=10.0.0.0/8"),
		set("private_key="+priv2), set("private_key="+zeroKey), set("public_key="+pub2))
	add("d-prefix-moves", set("public_key="+pA, "allowed_ip=10.0.0.0/24", "allowed_ip=10.0.0.0/8", "public_key="+pB, "allowed_ip=10.0.0.77/24"),
		set("public_key="+pA, "allowed_ip=-10.0.0.0/24", "allowed_ip=-10.9.9.9/8"), set("public_key="+pB, "allowed_ip=-10.0.0.99/24", "allowed_ip=-10.0.0.99/24"))
	add("d-update-only-late", set("public_key="+pA, "allowed_ip=10.0.0.0/24"),
		set("public_key="+pB, "allowed_ip=10.0.0.0/24", "update_only=true", "allowed_ip=10.1.0.0/24"),
		set("public_key="+pA, "update_only=true", "allowed_ip=10.2.0.0/24"), set("public_key="+pB, "update_only=true"))
	add("d-remove", set("public_key="+pA, "allowed_ip=10.0.0.0/24", "public_key="+pB),
		set("public_key="+pA, "remove=true", "allowed_ip=10.0.0.0/24", "endpoint=bad"),
		set("public_key="+pA, "remove=true", "public_key="+pA, "remove=true", "remove=true", "update_only=true"),
		set("public_key="+pB, "remove=true"))
	add("d-replace", set("public_key="+pA, "allowed_ip=10.0.0.0/24", "allowed_ip=::/0", "public_key="+pB, "allowed_ip=1.2.3.4/32"),
		set("public_key="+pA, "replace_allowed_ips=true", "allowed_ip=1.2.3.4/32"), set("replace_peers=true", "public_key="+pB), set("replace_peers=true"))
	add("d-errors-keep-prefix", set("listen_port=1", "fwmark=2", "public_key="+pA, "allowed_ip=10.0.0.0/24", "persistent_keepalive_interval=65536", "allowed_ip=10.1.0.0/24"),
		set("listen_port=65536"), set("listen_port=65535", "fwmark=4294967296"), set("fwmark=4294967295", "listen_port"), set("public_key="+pA, "listen_port=5"),
		set("endpoint=1.2.3.4:5"), set("listen_port=3", "", "listen_port=4"), set("\n"), Op{Kind: "set", Text: ""}, Op{Kind: "set", Text: "listen_port=8"}, Op{Kind: "set", Text: "listen_port=10\r\n\r\nlisten_port=11\r\n"})
	add("d-port-busy", set("listen_port=9", "fwmark=666"), up, set("fwmark=0"), up, set("listen_port=9", "fwmark=5"), set("listen_port=0"), set("fwmark=666", "listen_port=1"),
		set("listen_port=12"), set("fwmark=666"), set("fwmark=1"), down, set("listen_port=7777"), up, set("listen_port=0"), up)
	add("d-too-long", set("listen_port=1", "foo="+strings.Repeat("x", 70000), "listen_port=2"), set("listen_port=3"))
	add("d-zero-private-key", set("public_key="+p0, "public_key="+zeroKey, "allowed_ip=10.0.0.0/8"), set("private_key="+zeroKey), set("private_key="+priv1, "public_key="+zeroKey, "allowed_ip=10.0.0.0/8"),
		set("private_key="+priv1), set("private_key="+strings.ToUpper(priv1)))
	// a get whose output cannot be delivered must not leak into later gets
	getfail, hangup := Op{Kind: "getfail"}, Op{Kind: "hangup"}
	add("d-getfail", getfail, set("private_key="+priv1, "listen_port=51820", "public_key="+pA, "allowed_ip=10.0.0.0/8"), getfail,
		set("replace_peers=true", "public_key="+pB, "allowed_ip=10.0.0.0/8"), getfail, set("public_key="+pB, "remove=true"), getfail, set("private_key="+zeroKey, "listen_port=0"), getfail)
	add("d-getfail-peers-only", set("public_key="+pA, "allowed_ip=10.0.0.0/8"), getfail, set("replace_peers=true", "public_key="+pB), getfail)
	var many []string
	many = append(many, "private_key="+priv2, "replace_peers=true")
	for i := 0; i < 24; i++ { // more than the 4096 bytes IpcHandle buffers
		many = append(many, fmt.Sprintf("public_key=%064x", 0x1000+i), fmt.Sprintf("allowed_ip=10.%d.0.0/16", i))
	}
	add("d-hangup-large-get", set(many...), hangup, set("replace_peers=true", "public_key="+pA), hangup, set("fwmark=3"), hangup, getfail)
	add("d-hangup-small-get", set("listen_port=5", "public_key="+pA), hangup, set("public_key="+pA, "remove=true"), hangup)
	// candidate defect: a device whose private key was cleared answers to pub(0); a peer with the
	// all-zero public key is then a real peer, but a fresh device (no key at all) ignores that key.
	add("d-roundtrip-zero-pubkey", set("private_key="+priv1), set("private_key="+zeroKey), set("public_key="+zeroKey, "allowed_ip=10.0.0.0/8"))
	// clamping: the stored/echoed private key and the own public key are those of the CLAMPED key; a key
	// that is zero only after clamping is not "remove the key"; equal-after-clamping keys are the same key
	c40 := clampedPub(nearZeroPrivs[0]) // public key of 00..0040
	add("d-private-key-clamping", set("private_key="+nearZeroPrivs[0], "public_key="+c40, "allowed_ip=10.0.0.0/8"),
		set("private_key="+nearZeroPrivs[2], "public_key="+pA), set("private_key="+nearZeroPrivs[4]), set("private_key="+zeroKey, "public_key="+c40),
		set("private_key="+nearZeroPrivs[5]), set("private_key=f8"+strings.Repeat("ff", 30)+"7f", "public_key="+clampedPub(nearZeroPrivs[5])),
		set("private_key="+nearZeroPrivs[3]), set("private_key="+nearZeroPrivs[1]))
	// status per operation: valid, invalid, valid ... (on a shared connection each answer must be its own)
	add("d-status-per-operation", set("listen_port=1"), set("listen_port=65536"), set("listen_port=2"), set("listen_port"),
		set("public_key="+pA, "allowed_ip=10.0.0.0/8"), set("public_key="+pA, "endpoint=bad", "allowed_ip=10.1.0.0/16"), set("fwmark=1"),
		set("public_key=zz"), set("public_key="+pA, "remove=true"))
	// the same scenarios through IpcHandle where the text allows it
	n := len(cs)
	for i := 0; i < n; i++ {
		c := cs[i]
		ok := true
		for _, op := range c.Ops {
			if op.Kind == "set" {
				ls := scanLines(op.Text)
				for _, l := range ls {
					if l == "" || len(l) >= maxToken {
						ok = false
					}
				}
				if len(ls) == 0 {
					ok = false
				}
			}
		}
		if ok {
			h := c
			h.Gen += "-handle"
			h.Transport = "handle"
			h.Ops = append([]Op{}, c.Ops...)
			cs = append(cs, h)
			k := c
			k.Gen += "-conn"
			k.Transport = "conn"
			k.Ops = append([]Op{}, c.Ops...)
			cs = append(cs, k)
		}
	}
	return cs
}

// ---------------------------------------------------------------- main

func main() {
	seed := flag.Int64("seed", 1, "PRNG seed")
	n := flag.Int("n", 300, "number of generated operation sequences")
	shards := flag.Int("shards", 16, "case files")
	out := flag.String("out", "out/C09", "output directory")
	replayIn := flag.String("replay", "", "JSON file with cases (ops, transport) to run")
	corpus := flag.String("corpus", "", "directory of corpus JSON cases to prepend")
	workers := flag.Int("workers", 8, "devices driven in parallel")
	flag.Parse()
	if err := os.MkdirAll(*out, 0o755); err != nil {
		panic(err)
	}
	var cases []Case
	if *replayIn != "" {
		data, err := os.ReadFile(*replayIn)
		if err != nil {
			panic(err)
		}
		if err := json.Unmarshal(data, &cases); err != nil {
			panic(err)
		}
		*shards = 1
	} else {
		if *corpus != "" {
			files, _ := filepath.Glob(filepath.Join(*corpus, "*.json"))
			sort.Strings(files)
			for _, f := range files {
				data, err := os.ReadFile(f)
				if err != nil {
					continue
				}
				var cs []Case
				if json.Unmarshal(data, &cs) == nil {
					for _, c := range cs {
						c.Gen = "corpus"
						cases = append(cases, c)
					}
				}
			}
		}
		cases = append(cases, directed()...)
		r := rand.New(rand.NewSource(*seed))
		for i := 0; i < *n; i++ {
			cases = append(cases, genCase(r))
		}
	}
	for i := range cases {
		if cases[i].Transport == "" {
			cases[i].Transport = "direct"
		}
	}
	// run (independent devices; a few in parallel)
	sem := make(chan struct{}, *workers)
	done := make(chan struct{}, len(cases))
	for i := range cases {
		sem <- struct{}{}
		go func(c *Case) {
			runCase(c)
			<-sem
			done <- struct{}{}
		}(&cases[i])
	}
	for range cases {
		<-done
	}
	if *shards > len(cases) {
		*shards = len(cases)
	}
	if *shards < 1 {
		*shards = 1
	}
	per := (len(cases) + *shards - 1) / *shards
	type shardInfo struct {
		File  string `json:"file"`
		First int    `json:"first"`
		N     int    `json:"n"`
	}
	var infos []shardInfo
	idx := 0
	for s := 0; s < *shards && idx < len(cases); s++ {
		end := idx + per
		if end > len(cases) {
			end = len(cases)
		}
		name := fmt.Sprintf("cases_C09_%d.v", s)
		if err := writeShard(filepath.Join(*out, name), cases[idx:end]); err != nil {
			panic(err)
		}
		infos = append(infos, shardInfo{name, idx, end - idx})
		idx = end
	}
	// the JSON keeps the get text only where something is off (size)
	for i := range cases {
		for j := range cases[i].Obs {
			if len(cases[i].Anomaly) == 0 {
				cases[i].Obs[j].GetText = ""
			}
		}
	}
	meta := map[string]any{"seed": *seed, "cases": cases, "shards": infos}
	data, _ := json.Marshal(meta)
	if err := os.WriteFile(filepath.Join(*out, "cases.json"), data, 0o644); err != nil {
		panic(err)
	}
}
