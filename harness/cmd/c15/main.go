// c15 co-simulates a real wireguard-go device (sim bind / sim TUN) against
// remote parties of package ref and places a revocation (remove=true,
// replace_peers, private_key change) at every point of a peer's life cycle,
// followed by probes.  Every harness step becomes one event of the slice model
// Revoke/Model.v together with what was observed after the device settled
// (datagrams, TUN writes, index-table dump, peer map, per-peer digests); the
// case files evaluate the model (kind 1) and the specification (kind 2).
//
// A scenario is a plan: a list of action strings (see runner.do).  -replay
// re-runs plans.  -race N adds the concurrent variant: N rounds of
// {handshake initiation or TUN packet in flight || remove=true}.
package main

import (
	"encoding/hex"
	"encoding/json"
	"flag"
	"fmt"
	"math/rand"
	"net/netip"
	"os"
	"path/filepath"
	"sort"
	"strconv"
	"strings"
	"sync"
	"sync/atomic"
	"time"

	"golang.zx2c4.com/wireguard/device"

	"wgv/cosim"
	"wgv/ref"
	"wgv/sim"
)

type Ev struct {
	K     string `json:"k"`
	Pk    int    `json:"pk,omitempty"`
	Ep    bool   `json:"ep,omitempty"`
	Pfx   []int  `json:"pfx,omitempty"`
	Idx   uint32 `json:"idx,omitempty"`  // oidx (oracle) or idx (probe)
	Src   int    `json:"src,omitempty"`  // inner source prefix
	Ka    bool   `json:"ka,omitempty"`   // keepalive
	From  int    `json:"from,omitempty"` // peer that built the message
	Ident int    `json:"ident,omitempty"`
	Ridx  uint32 `json:"ridx,omitempty"`
	Oidx  uint32 `json:"oidx,omitempty"` // transport: index the device drew if the message made it initiate
}

type Out struct {
	K     string `json:"k"` // init, resp, transport, tun
	To    int    `json:"to"`
	Idx   uint32 `json:"idx,omitempty"`
	Ridx  uint32 `json:"ridx,omitempty"`
	Ident int    `json:"ident,omitempty"`
}

type Obs struct {
	Outs   []Out      `json:"outs"`
	Itab   [][3]int64 `json:"itab"`
	Keys   []int      `json:"keys"`
	Rows   [][]uint64 `json:"rows"`
	Routes [][2]int   `json:"routes"`
}

type Step struct {
	Ev  Ev  `json:"ev"`
	Obs Obs `json:"obs"`
}

type Case struct {
	Plan    []string `json:"plan"`
	Mode    int      `json:"mode"` // 0 sequential, 1 raced (specification only)
	Gen     string   `json:"gen"`
	Steps   []Step   `json:"steps,omitempty"`
	Skipped int      `json:"skipped,omitempty"` // actions that did not apply
	Slow    int      `json:"slow,omitempty"`    // steps that did not settle
	Stuck   string   `json:"stuck,omitempty"`
	Race    *RaceObs `json:"race,omitempty"`
}

type RaceObs struct {
	Kind                    string `json:"kind"`
	DelayMicros             int    `json:"delay_us"`
	Ghosts                  int    `json:"ghost_entries"`
	LateDatagrams           int    `json:"datagrams_after_return"`
	RemovedSeq              uint64 `json:"removal_returned_seq"`
	LateSeq                 uint64 `json:"first_late_send_seq,omitempty"`
	DuringDrain             int    `json:"datagrams_during_drain,omitempty"` // handed to Bind.Send between "remove issued" and "remove returned"
	WaitMillis              int    `json:"wait_ms,omitempty"`
	ReturnedEarly           bool   `json:"removal_returned_while_send_parked,omitempty"`
	StopSeq                 uint64 `json:"peer_stopped_seq,omitempty"`      // queued: stamp of Peer.Stop's "Stopping" line
	Queued                  int    `json:"queued_packets,omitempty"`        // queued: containers waiting in peer.queue.outbound at the removal
	SessionAfter            bool   `json:"current_keypair_after,omitempty"` // inside-response (setkey): the peer holds a current keypair afterwards
	OpensUnderHandshakeKeys int    `json:"late_transport_opens_under_handshake_keys,omitempty"`
}

const unknownID = 9999

// ---------------------------------------------------------------- runner

type identity struct {
	id        int
	priv, pub ref.Key
}

type session struct {
	peer   int
	devIdx uint32
	ridx   uint32
	s      *ref.Session
}

type captured struct {
	peer   int
	devIdx uint32
	ident  int
	msg    []byte
}

type rpeer struct {
	id        int
	priv, pub ref.Key
	addr      netip.AddrPort
}

type runner struct {
	w        *cosim.World
	idents   []identity // device identities so far; idents[len-1] is current unless cur says otherwise
	cur      int        // id of the current identity
	peers    map[int]*rpeer
	sessions []session
	inits    []captured
	nextRidx uint32
	nextID   int
	steps    []Step
	skipped  int
	stuck    string
	hsBefore map[int]uint32
	extra    map[int]ref.Key // public keys of peers the harness holds no private key for (one-byte neighbours of an identity)
}

func pkOf(k ref.Key) (o device.NoisePublicKey) { copy(o[:], k[:]); return }

func newRunner() (*runner, error) {
	w, err := cosim.NewWorld(cosim.Config{BindBatch: 1, TunBatch: 1}, false)
	if err != nil {
		return nil, err
	}
	w.Timeout = 3 * time.Second
	return newRunnerWith(w), nil
}

func newRunnerWith(w *cosim.World) *runner {
	r := &runner{w: w, cur: 100, peers: map[int]*rpeer{}, nextRidx: 0x5000, nextID: 101}
	r.idents = append(r.idents, identity{100, w.DevPriv, w.DevPub})
	for i := 1; i <= 4; i++ {
		p := &rpeer{id: i, priv: ref.NewPrivate()}
		p.pub = ref.PubOf(p.priv)
		p.addr = netip.MustParseAddrPort(fmt.Sprintf("192.0.2.%d:%d", i, 5000+i))
		r.peers[i] = p
	}
	return r
}

func (r *runner) identByPub(pub ref.Key) int {
	for _, i := range r.idents {
		if i.pub == pub {
			return i.id
		}
	}
	return unknownID
}

func (r *runner) identByID(id int) *identity {
	for k := range r.idents {
		if r.idents[k].id == id {
			return &r.idents[k]
		}
	}
	return nil
}

func (r *runner) peerByPub(pub device.NoisePublicKey) int {
	for _, p := range r.peers {
		if pkOf(p.pub) == pub {
			return p.id
		}
	}
	for _, i := range r.idents {
		if pkOf(i.pub) == pub {
			return i.id
		}
	}
	for id, k := range r.extra {
		if pkOf(k) == pub {
			return id
		}
	}
	return unknownID - 1
}

func (r *runner) peerByAddr(a netip.AddrPort) int {
	for _, p := range r.peers {
		if p.addr == a {
			return p.id
		}
	}
	return unknownID
}

func (r *runner) snapshotHs() map[int]uint32 {
	m := map[int]uint32{}
	for _, pk := range r.w.Dev.VerifPeerKeys() {
		m[r.peerByPub(pk)] = r.w.Dev.VerifPeer(pk).HandshakeLocalIndex
	}
	return m
}

// oracleIdx: the handshake index the device drew during the step (0 if none).
func (r *runner) oracleIdx() uint32 {
	after := r.snapshotHs()
	for id, v := range after {
		if v != 0 && r.hsBefore[id] != v {
			return v
		}
	}
	return 0
}

func (r *runner) observe(out cosim.Out, tunFrom int) Obs {
	var o Obs
	o.Outs = []Out{}
	for _, s := range out.Sent {
		o.Outs = append(o.Outs, r.describe(s))
	}
	for range out.Written {
		o.Outs = append(o.Outs, Out{K: "tun", To: tunFrom})
	}
	o.Itab = [][3]int64{}
	for _, e := range r.w.Dev.VerifIndexTable() {
		hs := int64(0)
		if e.IsHandshake {
			hs = 1
		}
		o.Itab = append(o.Itab, [3]int64{int64(e.Index), int64(r.peerByPub(e.Peer)), hs})
	}
	sort.Slice(o.Itab, func(i, j int) bool { return o.Itab[i][0] < o.Itab[j][0] })
	o.Keys = []int{}
	o.Rows = [][]uint64{}
	for _, pk := range r.w.Dev.VerifPeerKeys() {
		o.Keys = append(o.Keys, r.peerByPub(pk))
	}
	sort.Ints(o.Keys)
	for _, id := range o.Keys {
		var pk device.NoisePublicKey
		if p, ok := r.peers[id]; ok {
			pk = pkOf(p.pub)
		} else if i := r.identByID(id); i != nil {
			pk = pkOf(i.pub)
		} else if k, ok := r.extra[id]; ok {
			pk = pkOf(k)
		}
		st := r.w.Dev.VerifPeer(pk)
		b := func(x bool) uint64 {
			if x {
				return 1
			}
			return 0
		}
		idx := func(k device.VerifKeypair) uint64 {
			if k.Present {
				return uint64(k.LocalIndex)
			}
			return 0
		}
		dead := func(k device.VerifKeypair) uint64 {
			return b(k.Present && k.SendNonce >= device.RejectAfterMessages)
		}
		o.Rows = append(o.Rows, []uint64{uint64(id), b(st.Running), idx(st.Previous), idx(st.Current), idx(st.Next),
			uint64(st.HandshakeLocalIndex), dead(st.Current), dead(st.Next),
			uint64(r.w.Dev.VerifStagedPackets(pk)), b(st.Endpoint != "")})
	}
	o.Routes = [][2]int{}
	for pfx := 1; pfx <= 4; pfx++ {
		if pk, ok := r.w.Dev.VerifRouteOwner([]byte{10, 0, byte(pfx), 77}); ok {
			o.Routes = append(o.Routes, [2]int{pfx, r.peerByPub(pk)})
		}
	}
	return o
}

func (r *runner) describe(s sim.Sent) Out {
	to := r.peerByAddr(s.To)
	d := s.Data
	if len(d) < 4 {
		return Out{K: "init", To: to, Ident: unknownID}
	}
	switch {
	case d[0] == ref.TypeInitiation && len(d) == ref.InitiationSize:
		o := Out{K: "init", To: to, Idx: le32(d[4:8]), Ident: unknownID}
		if p, ok := r.peers[to]; ok && ref.CheckMac1(d, p.pub) {
			if rs, err := ref.ConsumeInitiation(d, p.priv); err == nil {
				o.Ident = r.identByPub(rs.InitiatorStatic)
				r.inits = append(r.inits, captured{peer: to, devIdx: o.Idx, ident: o.Ident, msg: append([]byte{}, d...)})
			}
		}
		return o
	case d[0] == ref.TypeResponse && len(d) == ref.ResponseSize:
		// the identity is filled in by the caller, who holds the initiator state
		return Out{K: "resp", To: to, Idx: le32(d[4:8]), Ridx: le32(d[8:12]), Ident: unknownID}
	case d[0] == ref.TypeTransport && len(d) >= 32:
		o := Out{K: "transport", To: to, Ridx: le32(d[4:8])}
		ok := false
		for _, ss := range r.sessions {
			if ss.ridx == o.Ridx && ss.peer == to {
				if _, _, _, err := ss.s.OpenTransport(d); err == nil {
					ok = true
				}
			}
		}
		if !ok {
			o.To = unknownID // does not open under the session that owns this receiver index
		}
		return o
	}
	return Out{K: "init", To: to, Ident: unknownID}
}

func le32(b []byte) uint32 {
	return uint32(b[0]) | uint32(b[1])<<8 | uint32(b[2])<<16 | uint32(b[3])<<24
}

func (r *runner) record(ev Ev, out cosim.Out, tunFrom int) {
	r.steps = append(r.steps, Step{Ev: ev, Obs: r.observe(out, tunFrom)})
}

// set runs IpcSet with a watchdog.
func (r *runner) set(cfg string) bool {
	done := make(chan error, 1)
	go func() { done <- r.w.Dev.IpcSet(cfg) }()
	select {
	case <-done:
		return true
	case <-time.After(10 * time.Second):
		r.stuck = "IpcSet did not return: " + strings.ReplaceAll(cfg, "\n", "|")
		return false
	}
}

func (r *runner) inner(srcPfx int) []byte {
	return ref.IPv4([4]byte{10, 0, byte(srcPfx), 2}, [4]byte{10, 9, 9, 9}, 60, 3)
}

// do executes one plan action; it returns false when the runner is stuck.
func (r *runner) do(a string) bool {
	f := strings.Fields(a)
	arg := func(i int) int {
		if i < len(f) {
			v, _ := strconv.Atoi(f[i])
			return v
		}
		return 0
	}
	r.hsBefore = r.snapshotHs()
	switch f[0] {
	case "add": // add P ep|noep [pfx...]
		p := r.peers[arg(1)]
		if p == nil {
			r.skipped++
			return true
		}
		ep := len(f) > 2 && f[2] == "ep"
		pfx := []int{}
		cfg := "public_key=" + hex.EncodeToString(p.pub[:]) + "\n"
		if ep {
			cfg += "endpoint=" + p.addr.String() + "\n"
		}
		for i := 3; i < len(f); i++ {
			pfx = append(pfx, arg(i))
			cfg += fmt.Sprintf("allowed_ip=10.0.%d.0/24\n", arg(i))
		}
		if !r.set(cfg) {
			return false
		}
		out := r.w.Take()
		r.record(Ev{K: "add", Pk: p.id, Ep: ep, Pfx: pfx, Idx: r.oracleIdx()}, out, unknownID)
	case "remove":
		p := r.peers[arg(1)]
		if p == nil {
			r.skipped++
			return true
		}
		if !r.set("public_key=" + hex.EncodeToString(p.pub[:]) + "\nremove=true\n") {
			return false
		}
		r.record(Ev{K: "remove", Pk: p.id}, r.w.Take(), unknownID)
	case "replace":
		if !r.set("replace_peers=true\n") {
			return false
		}
		r.record(Ev{K: "replace"}, r.w.Take(), unknownID)
	case "setkey": // setkey new | same | peer P | old K (K-th identity)
		var id identity
		switch f[1] {
		case "new":
			id = identity{id: r.nextID, priv: ref.NewPrivate()}
			id.pub = ref.PubOf(id.priv)
			r.nextID++
			r.idents = append(r.idents, id)
		case "same":
			id = *r.identByID(r.cur)
		case "near": // a DIFFERENT key that agrees with the current private key in every byte but byte K
			id = identity{id: r.nextID, priv: r.identByID(r.cur).priv}
			id.priv[arg(2)&31] ^= 0x10 // bit 4 survives clamping in byte 0 and in byte 31
			id.pub = ref.PubOf(id.priv)
			r.nextID++
			r.idents = append(r.idents, id)
		case "peer":
			p := r.peers[arg(2)]
			if p == nil {
				r.skipped++
				return true
			}
			id = identity{id: p.id, priv: p.priv, pub: p.pub}
			if r.identByID(p.id) == nil {
				r.idents = append(r.idents, id)
			}
		case "old":
			k := arg(2)
			if k < 0 || k >= len(r.idents) {
				r.skipped++
				return true
			}
			id = r.idents[k]
		default:
			r.skipped++
			return true
		}
		if !r.set("private_key=" + hex.EncodeToString(id.priv[:]) + "\n") {
			return false
		}
		r.cur = id.id
		r.record(Ev{K: "setkey", Pk: id.id}, r.w.Take(), unknownID)
	case "addnearself": // addnearself K : a peer whose public key differs from the device's CURRENT public key in byte K only
		k := r.identByID(r.cur).pub
		k[arg(1)&31] ^= 0x10
		id := r.nextID
		r.nextID++
		if r.extra == nil {
			r.extra = map[int]ref.Key{}
		}
		r.extra[id] = k
		if !r.set("public_key=" + hex.EncodeToString(k[:]) + "\n") {
			return false
		}
		r.record(Ev{K: "add", Pk: id, Ep: false, Pfx: []int{}, Idx: 0}, r.w.Take(), unknownID)
	case "nearself": // nearself K : add a peer whose public key is a one-byte neighbour of the NEXT identity, then change to it
		next := identity{id: r.nextID, priv: ref.NewPrivate()}
		next.pub = ref.PubOf(next.priv)
		r.nextID++
		k := next.pub
		k[arg(1)&31] ^= 0x10
		id := r.nextID
		r.nextID++
		if r.extra == nil {
			r.extra = map[int]ref.Key{}
		}
		r.extra[id] = k
		if !r.set("public_key=" + hex.EncodeToString(k[:]) + "\n") {
			return false
		}
		r.record(Ev{K: "add", Pk: id, Ep: false, Pfx: []int{}, Idx: 0}, r.w.Take(), unknownID)
		r.hsBefore = r.snapshotHs()
		r.idents = append(r.idents, next)
		if !r.set("private_key=" + hex.EncodeToString(next.priv[:]) + "\n") {
			return false
		}
		r.cur = next.id
		r.record(Ev{K: "setkey", Pk: next.id}, r.w.Take(), unknownID)
	case "setkeyconf": // setkeyconf new|same|peer P|old K  then sections: self | prev | <peer number> ...   (ONE set operation)
		var id identity
		i := 2
		switch f[1] {
		case "new":
			id = identity{id: r.nextID, priv: ref.NewPrivate()}
			id.pub = ref.PubOf(id.priv)
			r.nextID++
			r.idents = append(r.idents, id)
		case "same":
			id = *r.identByID(r.cur)
		case "peer":
			p := r.peers[arg(2)]
			if p == nil {
				r.skipped++
				return true
			}
			id = identity{id: p.id, priv: p.priv, pub: p.pub}
			if r.identByID(p.id) == nil {
				r.idents = append(r.idents, id)
			}
			i = 3
		case "old":
			k := arg(2)
			if k < 0 || k >= len(r.idents) {
				r.skipped++
				return true
			}
			id = r.idents[k]
			i = 3
		default:
			r.skipped++
			return true
		}
		prev := *r.identByID(r.cur)
		cfg := "private_key=" + hex.EncodeToString(id.priv[:]) + "\n"
		evs := []Ev{{K: "setkey", Pk: id.id}}
		for ; i < len(f); i++ {
			switch f[i] {
			case "self": // a peer section carrying the device's own NEW public key, as `wg setconf` sends it
				cfg += "public_key=" + hex.EncodeToString(id.pub[:]) + "\nendpoint=192.0.2.9:5009\nallowed_ip=10.0.4.0/24\n"
				evs = append(evs, Ev{K: "add", Pk: id.id, Ep: true, Pfx: []int{4}})
			case "prev": // a peer section carrying the identity the device had before this operation
				cfg += "public_key=" + hex.EncodeToString(prev.pub[:]) + "\nendpoint=192.0.2.9:5009\n"
				evs = append(evs, Ev{K: "add", Pk: prev.id, Ep: true, Pfx: []int{}})
			default:
				p := r.peers[arg(i)]
				if p == nil {
					continue
				}
				cfg += "public_key=" + hex.EncodeToString(p.pub[:]) + "\nendpoint=" + p.addr.String() + fmt.Sprintf("\nallowed_ip=10.0.%d.0/24\n", p.id)
				evs = append(evs, Ev{K: "add", Pk: p.id, Ep: true, Pfx: []int{p.id}})
			}
		}
		if !r.set(cfg) {
			return false
		}
		r.cur = id.id
		out := r.w.Take()
		after := r.snapshotHs()
		for k := range evs {
			// the index a section made the device draw (handlePostConfig -> SendStagedPackets -> initiation)
			if evs[k].K == "add" {
				if v := after[evs[k].Pk]; v != 0 && r.hsBefore[evs[k].Pk] != v {
					evs[k].Idx = v
				}
			}
		}
		for k, ev := range evs {
			if k < len(evs)-1 {
				// the state between two lines of one set operation is not observable
				r.steps = append(r.steps, Step{Ev: ev, Obs: Obs{Outs: []Out{}, Itab: [][3]int64{}, Keys: []int{4294967295}, Rows: [][]uint64{}, Routes: [][2]int{}}})
			} else {
				r.record(ev, out, unknownID)
			}
		}
	case "up":
		done := make(chan struct{})
		go func() { r.w.Dev.Up(); close(done) }()
		select {
		case <-done:
		case <-time.After(10 * time.Second):
			r.stuck = "Up did not return"
			return false
		}
		r.record(Ev{K: "up"}, r.w.Take(), unknownID)
	case "down":
		done := make(chan struct{})
		go func() { r.w.Dev.Down(); close(done) }()
		select {
		case <-done:
		case <-time.After(10 * time.Second):
			r.stuck = "Down did not return"
			return false
		}
		r.record(Ev{K: "down"}, r.w.Take(), unknownID)
	case "age":
		p := r.peers[arg(1)]
		if p == nil {
			r.skipped++
			return true
		}
		r.w.Dev.VerifShiftHandshakeTimes(pkOf(p.pub), 10*time.Second)
		r.record(Ev{K: "age", Pk: p.id}, r.w.Take(), unknownID)
	case "tun": // tun PFX
		pkt := ref.IPv4([4]byte{10, 9, 9, 9}, [4]byte{10, 0, byte(arg(1)), 77}, 80, 1)
		out := r.w.TunIn(pkt)
		r.record(Ev{K: "tun", Pfx: []int{arg(1)}, Idx: r.oracleIdx()}, out, unknownID)
	case "transport": // transport P S data|ka [srcPfx]   (S-th session of peer P, oldest first; negative counts from the newest)
		if r.w.Dev.VerifDeviceState() != 1 {
			r.skipped++
			return true
		}
		var mine []session
		for _, s := range r.sessions {
			if s.peer == arg(1) {
				mine = append(mine, s)
			}
		}
		k := arg(2)
		if k < 0 {
			k += len(mine)
		}
		if k < 0 || k >= len(mine) {
			r.skipped++
			return true
		}
		ss := mine[k]
		ka := len(f) > 3 && f[3] == "ka"
		src := ss.peer
		if len(f) > 4 {
			src = arg(4)
		}
		var pl []byte
		if !ka {
			pl = ref.Pad(r.inner(src))
		}
		out := r.w.Inject(r.peers[ss.peer].addr, ss.s.Next(pl))
		r.record(Ev{K: "transport", Idx: ss.devIdx, Src: src, Ka: ka, Oidx: r.oracleIdx()}, out, ss.peer)
	case "respond": // respond P K   (K-th captured initiation toward P, negative from the newest)
		if r.w.Dev.VerifDeviceState() != 1 {
			r.skipped++
			return true
		}
		var mine []captured
		for _, c := range r.inits {
			if c.peer == arg(1) {
				mine = append(mine, c)
			}
		}
		k := arg(2)
		if k < 0 {
			k += len(mine)
		}
		if k < 0 || k >= len(mine) {
			r.skipped++
			return true
		}
		c := mine[k]
		p := r.peers[c.peer]
		rs, err := ref.ConsumeInitiation(c.msg, p.priv)
		if err != nil {
			r.skipped++
			return true
		}
		r.nextRidx++
		ridx := r.nextRidx
		resp, sess := rs.CreateResponse(ref.NewPrivate(), ref.Key{}, ridx)
		out := r.w.Inject(p.addr, resp)
		// the session exists only if the device confirms it (its keepalive or staged data opens under the new keys)
		for _, s := range out.Sent {
			if _, _, _, err := sess.OpenTransport(s.Data); err == nil {
				r.sessions = append(r.sessions, session{peer: p.id, devIdx: c.devIdx, ridx: ridx, s: sess})
				break
			}
		}
		r.record(Ev{K: "response", Idx: c.devIdx, From: p.id, Ident: c.ident, Ridx: ridx}, out, unknownID)
	case "initiate": // initiate P cur | initiate P old K
		if r.w.Dev.VerifDeviceState() != 1 {
			r.skipped++
			return true
		}
		p := r.peers[arg(1)]
		if p == nil {
			r.skipped++
			return true
		}
		id := r.identByID(r.cur)
		if len(f) > 2 && f[2] == "old" {
			k := arg(3)
			if k < 0 || k >= len(r.idents) {
				r.skipped++
				return true
			}
			id = &r.idents[k]
		}
		// time passes first: the flood and retransmission clocks are not under the harness's control
		r.w.Dev.VerifShiftHandshakeTimes(pkOf(p.pub), 10*time.Second)
		r.record(Ev{K: "age", Pk: p.id}, r.w.Take(), unknownID)
		r.hsBefore = r.snapshotHs()
		r.nextRidx++
		ridx := r.nextRidx
		st := ref.CreateInitiation(p.priv, ref.NewPrivate(), id.pub, ref.Key{}, ridx, ref.Tai64n(time.Now()))
		out := r.w.Inject(p.addr, st.Msg)
		ev := Ev{K: "initiation", From: p.id, Ident: id.id, Ridx: ridx}
		obs := r.observe(out, unknownID)
		for i, s := range out.Sent {
			if len(s.Data) == ref.ResponseSize && s.Data[0] == ref.TypeResponse {
				ev.Idx = le32(s.Data[4:8])
				if sess, err := st.ConsumeResponse(s.Data); err == nil {
					obs.Outs[i].Ident = id.id
					r.sessions = append(r.sessions, session{peer: p.id, devIdx: ev.Idx, ridx: ridx, s: sess})
				}
			}
		}
		r.steps = append(r.steps, Step{Ev: ev, Obs: obs})
	default:
		r.skipped++
	}
	return true
}

func runPlan(plan []string, gen string) Case {
	c := Case{Plan: plan, Gen: gen}
	r, err := newRunner()
	if err != nil {
		c.Stuck = err.Error()
		return c
	}
	for _, a := range plan {
		if !r.do(a) {
			break
		}
	}
	c.Steps = r.steps
	c.Skipped = r.skipped
	c.Slow = r.w.SlowSteps
	c.Stuck = r.stuck
	if r.stuck == "" {
		done := make(chan struct{})
		go func() { r.w.Close(); close(done) }()
		select {
		case <-done:
		case <-time.After(10 * time.Second):
			c.Stuck = "Close did not return"
		}
	}
	return c
}

// ---------------------------------------------------------------- plans

// life-cycle points of peer 1 (peer 2 is a bystander with its own session)
var lifePoints = map[string][]string{
	"no-session":            {},
	"initiation-sent":       {"tun 1"},
	"initiation-sent-3pkts": {"tun 1", "tun 1", "tun 1"},
	"initiation-received":   {"initiate 1 cur"},
	"one-key-initiator":     {"tun 1", "respond 1 -1"},
	"one-key-responder":     {"initiate 1 cur", "transport 1 -1 ka"},
	"two-keys-prev-cur":     {"tun 1", "respond 1 -1", "initiate 1 cur", "transport 1 -1 data"},
	"two-keys-cur-next":     {"tun 1", "respond 1 -1", "initiate 1 cur"},
	"two-keys-and-pending":  {"tun 1", "respond 1 -1", "initiate 1 cur", "transport 1 -1 data", "setkey new", "age 1", "tun 1"},
	"staged-no-endpoint":    {"tun 3", "tun 3"},
	"down":                  {"tun 1", "respond 1 -1", "down"},
	"down-up":               {"tun 1", "respond 1 -1", "down", "up", "tun 1"},
}

var lifeOrder = []string{"no-session", "initiation-sent", "initiation-sent-3pkts", "initiation-received", "one-key-initiator",
	"one-key-responder", "two-keys-prev-cur", "two-keys-cur-next", "two-keys-and-pending", "staged-no-endpoint", "down", "down-up"}

var revocations = map[string][]string{
	"remove":          {"remove 1"},
	"remove-noep":     {"remove 3"},
	"replace":         {"replace"},
	"replace-readd":   {"replace", "add 1 ep 1"},
	"remove-readd":    {"remove 1", "add 1 ep 1"},
	"setkey-new":      {"setkey new"},
	"setkey-same":     {"setkey same"},
	"setkey-onto-1":   {"setkey peer 1"},
	"setkey-onto-2":   {"setkey peer 2"},
	"setkey-new-back": {"setkey new", "setkey old 0"},
	"add-self":        {"setkey new", "add 4 ep 4", "setkey peer 4", "add 4 ep 4"},
	"setconf-self":    {"setkeyconf new self"},
	"setconf-mixed":   {"setkeyconf new 2 self prev 1", "setkeyconf old 0 self prev"},
}

var revOrder = []string{"remove", "remove-noep", "replace", "replace-readd", "remove-readd", "setkey-new", "setkey-same",
	"setkey-onto-1", "setkey-onto-2", "setkey-new-back", "add-self", "setconf-self", "setconf-mixed"}

var preamble = []string{"add 1 ep 1", "add 2 ep 2", "add 3 noep 3", "up", "tun 2", "respond 2 -1"}

// probes after the revocation: TUN to the old prefixes, transport under every session made so far, responses to
// every initiation captured so far, fresh initiations for the old and the current identity, then a full new
// handshake in each role and the old sessions once more.
var probes = []string{
	"tun 1", "tun 2", "tun 3",
	"transport 1 0 data", "transport 1 1 data", "transport 1 2 ka", "transport 2 0 data",
	"respond 1 0", "respond 1 1", "respond 1 -1", "respond 2 -1", "respond 3 -1",
	"initiate 1 old 0", "initiate 1 cur", "transport 1 -1 data", "initiate 2 old 0", "initiate 2 cur",
	"age 1", "age 2", "tun 1", "tun 2", "respond 1 -1", "respond 2 -1", "tun 1", "tun 2",
	"transport 1 0 data", "transport 1 1 data", "transport 1 -1 data", "transport 2 0 data", "transport 2 -1 data",
}

// one-byte neighbours of the keys that are compared on the property's path: the replacement private key differs from the
// current one in byte k only; a configured peer's public key differs from the device's current / next public key in
// byte k only (such a peer is NOT the device itself)
func nearKeyPlans() (plans [][]string, names []string) {
	for k := 0; k < 32; k++ {
		p := []string{"add 2 ep 2", "up", "tun 2", "respond 2 -1",
			fmt.Sprintf("addnearself %d", k), fmt.Sprintf("setkey near %d", k),
			"tun 2", "initiate 2 old 0", "initiate 2 cur", "transport 2 -1 data", "tun 2",
			fmt.Sprintf("nearself %d", 31-k), "tun 2", "initiate 2 cur", "transport 2 -1 data", "tun 2"}
		plans = append(plans, p)
		names = append(names, fmt.Sprintf("near-keys:byte-%d", k))
	}
	return
}

func gridPlans() (plans [][]string, names []string) {
	for _, l := range lifeOrder {
		for _, rv := range revOrder {
			p := append([]string{}, preamble...)
			p = append(p, lifePoints[l]...)
			p = append(p, revocations[rv]...)
			p = append(p, probes...)
			plans = append(plans, p)
			names = append(names, "grid:"+l+"/"+rv)
		}
	}
	return
}

func randomPlan(r *rand.Rand, n int) []string {
	p := []string{"add 1 ep 1", "add 2 ep 2", "add 3 noep 3", "up"}
	pe := func() int { return 1 + r.Intn(3) }
	for len(p) < n {
		switch x := r.Intn(100); {
		case x < 14:
			p = append(p, fmt.Sprintf("tun %d", 1+r.Intn(4)))
		case x < 26:
			p = append(p, fmt.Sprintf("respond %d %d", pe(), -1-r.Intn(2)))
		case x < 38:
			if r.Intn(4) == 0 {
				p = append(p, fmt.Sprintf("initiate %d old %d", pe(), r.Intn(3)))
			} else {
				p = append(p, fmt.Sprintf("initiate %d cur", pe()))
			}
		case x < 58:
			kind := "data"
			if r.Intn(3) == 0 {
				kind = "ka"
			}
			if r.Intn(8) == 0 {
				p = append(p, fmt.Sprintf("transport %d %d data %d", pe(), -1-r.Intn(3), pe()))
			} else {
				p = append(p, fmt.Sprintf("transport %d %d %s", pe(), -1-r.Intn(3), kind))
			}
		case x < 64:
			p = append(p, fmt.Sprintf("age %d", pe()))
		case x < 71:
			p = append(p, fmt.Sprintf("remove %d", pe()))
		case x < 80:
			q := pe()
			ep := "ep"
			if q == 3 && r.Intn(2) == 0 {
				ep = "noep"
			}
			// sometimes steal another peer's prefix
			if r.Intn(6) == 0 {
				p = append(p, fmt.Sprintf("add %d %s %d %d", q, ep, q, pe()))
			} else {
				p = append(p, fmt.Sprintf("add %d %s %d", q, ep, q))
			}
		case x < 83:
			p = append(p, "replace")
		case x < 90:
			switch r.Intn(6) {
			case 5:
				if r.Intn(2) == 0 {
					p = append(p, fmt.Sprintf("setkey near %d", r.Intn(32)))
				} else {
					p = append(p, fmt.Sprintf("nearself %d", r.Intn(32)))
				}
			case 0:
				p = append(p, "setkey same")
			case 1:
				// never onto a peer that may have sends in flight on an aged key (F3b): keys are never aged here
				p = append(p, fmt.Sprintf("setkey peer %d", pe()))
			case 2:
				p = append(p, fmt.Sprintf("setkey old %d", r.Intn(3)))
			default:
				p = append(p, "setkey new")
			}
			if r.Intn(3) == 0 {
				// the same as ONE set operation with peer sections, one of them the device's own new key
				last := p[len(p)-1]
				sec := []string{"self", "prev", "1", "2", "self 3"}[r.Intn(5)]
				p[len(p)-1] = strings.Replace(last, "setkey ", "setkeyconf ", 1) + " " + sec
				if r.Intn(2) == 0 {
					p[len(p)-1] += " self"
				}
			}
		case x < 94:
			p = append(p, "down")
		default:
			p = append(p, "up")
		}
	}
	return p
}

// ---------------------------------------------------------------- race variant (F9)

// raceRound: peer 1 configured and up; one piece of work for peer 1 is put in flight (a fresh initiation from it, or
// a TUN packet routed to it) and remove=true is issued delayMicros later.  "Removal returned" is stamped with the sim's
// global sequence; every Bind.Send that STARTS later is a datagram after return.  After settling, index-table entries
// whose peer is not in the peer map are ghosts.
func raceRound(kind string, delayMicros int) Case {
	c := Case{Mode: 1, Gen: "race:" + kind, Plan: []string{"race " + kind + " " + strconv.Itoa(delayMicros)}}
	r, err := newRunner()
	if err != nil {
		c.Stuck = err.Error()
		return c
	}
	for _, a := range []string{"add 1 ep 1", "up"} {
		r.do(a)
	}
	p := r.peers[1]
	var mu sync.Mutex
	var sendStarts []uint64
	r.w.Bind.SendGate = func(bufs [][]byte, to netip.AddrPort) {
		mu.Lock()
		sendStarts = append(sendStarts, sim.Seq.Add(1))
		mu.Unlock()
	}
	r.w.Bind.TakeSent()
	var removed uint64
	var wg sync.WaitGroup
	wg.Add(2)
	go func() {
		defer wg.Done()
		switch kind {
		case "initiation":
			st := ref.CreateInitiation(p.priv, ref.NewPrivate(), r.w.DevPub, ref.Key{}, 0x7001, ref.Tai64n(time.Now()))
			r.w.Bind.Inject(sim.Dgram{From: p.addr, Data: st.Msg})
		case "tun":
			r.w.Tun.Inject(ref.IPv4([4]byte{10, 9, 9, 9}, [4]byte{10, 0, 1, 77}, 80, 1))
		}
	}()
	go func() {
		defer wg.Done()
		if delayMicros > 0 {
			t0 := time.Now()
			for time.Since(t0) < time.Duration(delayMicros)*time.Microsecond {
			}
		}
		r.w.Dev.IpcSet("public_key=" + hex.EncodeToString(p.pub[:]) + "\nremove=true\n")
		removed = sim.Seq.Add(1)
	}()
	wg.Wait()
	out := r.w.Take()
	mu.Lock()
	late := 0
	var lateSeq uint64
	var lateSent []sim.Sent
	for i, s := range sendStarts {
		if s > removed {
			late++
			if lateSeq == 0 {
				lateSeq = s
			}
			if i < len(out.Sent) {
				lateSent = append(lateSent, out.Sent[i])
			}
		}
	}
	mu.Unlock()
	obs := r.observe(cosim.Out{Sent: lateSent}, unknownID)
	ghosts := 0
	keys := map[int]bool{}
	for _, k := range obs.Keys {
		keys[k] = true
	}
	for _, e := range obs.Itab {
		if !keys[int(e[1])] {
			ghosts++
		}
	}
	c.Race = &RaceObs{Kind: kind, DelayMicros: delayMicros, Ghosts: ghosts, LateDatagrams: late, RemovedSeq: removed, LateSeq: lateSeq}
	c.Steps = append(r.steps, Step{Ev: Ev{K: "remove", Pk: 1}, Obs: obs})
	done := make(chan struct{})
	go func() { r.w.Close(); close(done) }()
	select {
	case <-done:
	case <-time.After(10 * time.Second):
		c.Stuck = "Close did not return"
	}
	return c
}

// ---------------------------------------------------------------- removal while the sequential sender is busy

// drainStart builds the deterministic interleaving of seeded change C15/b: peer 1 has a session whose send counter is
// past RekeyAfterMessages; Bind.Send blocks on data packet #1, packet #2 waits on peer.queue.outbound, remove=true is
// issued in a goroutine (Stop pushes its terminator and waits for the sender), then Send is released.  "Removal
// returned" and the START of every Bind.Send are stamped with the sim's global sequence.  Datagrams handed to Send
// before the return are only counted (the property speaks about "once removed"); the scenario then stays alive for
// `wait` (RekeyTimeout + jitter and a margin) so that a timer that was armed during the drain can fire: a datagram to
// the removed peer with a sequence number after the return is the violation.  drainStart returns a function that
// waits and produces the case.
func drainStart(wait time.Duration) func() Case {
	c := Case{Mode: 1, Gen: "drain:sender-busy", Plan: []string{fmt.Sprintf("drain %d", wait.Milliseconds())}}
	fail := func(msg string) func() Case { c.Stuck = msg; return func() Case { return c } }
	r, err := newRunner()
	if err != nil {
		return fail(err.Error())
	}
	for _, a := range []string{"add 1 ep 1", "up", "tun 1", "respond 1 -1"} {
		if !r.do(a) {
			return fail(r.stuck)
		}
	}
	p := r.peers[1]
	pk := pkOf(p.pub)
	if !r.w.Dev.VerifSetSendNonce(pk, device.RekeyAfterMessages+1) {
		return fail("no session for the drain scenario")
	}
	r.w.Dev.VerifShiftHandshakeTimes(pk, 10*time.Second)
	type start struct {
		seq  uint64
		to   netip.AddrPort
		data []byte
	}
	var mu sync.Mutex
	var starts []start
	blocked := make(chan struct{})
	release := make(chan struct{})
	var once sync.Once
	r.w.Bind.TakeSent()
	r.w.Bind.SendGate = func(bufs [][]byte, to netip.AddrPort) {
		mu.Lock()
		for _, b := range bufs {
			starts = append(starts, start{sim.Seq.Add(1), to, append([]byte{}, b...)})
		}
		mu.Unlock()
		if len(bufs) > 0 && len(bufs[0]) > 0 && bufs[0][0] == ref.TypeTransport {
			first := false
			once.Do(func() { first = true })
			if first {
				close(blocked)
				<-release
			}
		}
	}
	pkt := func(fill byte) []byte { return ref.IPv4([4]byte{10, 9, 9, 9}, [4]byte{10, 0, 1, 77}, 80, fill) }
	r.w.Tun.Inject(pkt(1))
	select {
	case <-blocked:
	case <-time.After(3 * time.Second):
		close(release)
		return fail("the sender never reached Bind.Send")
	}
	r.w.Tun.Inject(pkt(2))
	waitFor := func(n int, d time.Duration) bool {
		t0 := time.Now()
		for time.Since(t0) < d {
			if r.w.Dev.VerifPeer(pk).OutboundLen >= n {
				return true
			}
			time.Sleep(200 * time.Microsecond)
		}
		return false
	}
	if !waitFor(1, 2*time.Second) {
		close(release)
		return fail("packet #2 never reached the outbound queue")
	}
	issued := sim.Seq.Add(1)
	var removed uint64
	done := make(chan struct{})
	go func() {
		r.w.Dev.IpcSet("public_key=" + hex.EncodeToString(p.pub[:]) + "\nremove=true\n")
		removed = sim.Seq.Add(1)
		close(done)
	}()
	// RemovePeer now holds the peer-map lock and waits in Stop for the blocked sender: no accessor that takes that lock
	// may be called here.  Stop has pushed its terminator behind packet #2 long before 20 ms have passed.
	time.Sleep(20 * time.Millisecond)
	close(release)
	select {
	case <-done:
	case <-time.After(10 * time.Second):
		return fail("remove=true did not return")
	}
	t0 := time.Now()
	return func() Case {
		if d := wait - time.Since(t0); d > 0 {
			time.Sleep(d)
		}
		r.w.Settle()
		mu.Lock()
		var late []sim.Sent
		during := 0
		var lateSeq uint64
		for _, s := range starts {
			if s.to != p.addr {
				continue
			}
			if s.seq > removed {
				late = append(late, sim.Sent{Seq: s.seq, To: s.to, Data: s.data})
				if lateSeq == 0 {
					lateSeq = s.seq
				}
			} else if s.seq > issued {
				during++
			}
		}
		mu.Unlock()
		obs := r.observe(cosim.Out{Sent: late}, unknownID)
		ghosts := 0
		keys := map[int]bool{}
		for _, k := range obs.Keys {
			keys[k] = true
		}
		for _, e := range obs.Itab {
			if !keys[int(e[1])] {
				ghosts++
			}
		}
		c.Race = &RaceObs{Kind: "drain", Ghosts: ghosts, LateDatagrams: len(late), RemovedSeq: removed, LateSeq: lateSeq,
			DuringDrain: during, WaitMillis: int(wait.Milliseconds())}
		c.Steps = append(r.steps, Step{Ev: Ev{K: "remove", Pk: 1}, Obs: obs})
		finished := make(chan struct{})
		go func() { r.w.Close(); close(finished) }()
		select {
		case <-finished:
		case <-time.After(10 * time.Second):
			c.Stuck = "Close did not return"
		}
		return c
	}
}

// ---------------------------------------------------------------- removal while a timer callback is sending

// timerCallbackStart: the device initiates toward peer 1 and gets no answer.  About RekeyTimeout (+ jitter) later the
// retransmission timer's callback sends a new initiation; its Bind.Send is parked by the SendGate (a slow socket).
// remove=true is then issued in a goroutine.  Peer.Stop must wait for the running callback (Timer.DelSync), so the
// removal cannot return before the gate is released 200 ms later and the callback's datagram has left.  A datagram
// that leaves the (simulated) socket with a global sequence number after "removal returned" is the violation; whether
// the removal returned while the Send was still parked is recorded as well.  The tail runs in its own goroutine (it
// never uses the quiescence detector, which is not re-entrant) and delivers the case on the returned channel.
func timerCallbackStart() <-chan Case {
	ch := make(chan Case, 1)
	c := Case{Mode: 1, Gen: "timer-callback:retransmit", Plan: []string{"timercallback"}}
	r, err := newRunner()
	if err != nil {
		c.Stuck = err.Error()
		ch <- c
		return ch
	}
	for _, a := range []string{"add 1 ep 1", "up", "tun 1"} {
		r.do(a)
	}
	p := r.peers[1]
	entered := make(chan struct{})
	release := make(chan struct{})
	var armed atomic.Bool
	r.w.Bind.TakeSent()
	r.w.Bind.SendGate = func(bufs [][]byte, to netip.AddrPort) {
		if to == p.addr && len(bufs) == 1 && len(bufs[0]) == ref.InitiationSize && bufs[0][0] == ref.TypeInitiation &&
			armed.CompareAndSwap(true, false) {
			close(entered)
			<-release
		}
	}
	armed.Store(true)
	go func() {
		select {
		case <-entered:
		case <-time.After(8 * time.Second):
			armed.Store(false)
			c.Skipped = 1 // the retransmission never came: inconclusive
			go r.w.Close()
			ch <- c
			return
		}
		var removed atomic.Uint64
		done := make(chan struct{})
		go func() {
			r.w.Dev.IpcSet("public_key=" + hex.EncodeToString(p.pub[:]) + "\nremove=true\n")
			removed.Store(sim.Seq.Add(1))
			close(done)
		}()
		early := false
		select {
		case <-done:
			early = true
		case <-time.After(200 * time.Millisecond):
		}
		close(release)
		select {
		case <-done:
		case <-time.After(10 * time.Second):
			c.Stuck = "remove=true did not return"
			ch <- c
			return
		}
		time.Sleep(150 * time.Millisecond)
		rem := removed.Load()
		var late []sim.Sent
		var lateSeq uint64
		for _, s := range r.w.Bind.TakeSent() {
			if s.To == p.addr && s.Seq > rem {
				late = append(late, s)
				if lateSeq == 0 {
					lateSeq = s.Seq
				}
			}
		}
		obs := r.observe(cosim.Out{Sent: late}, unknownID)
		ghosts := 0
		keys := map[int]bool{}
		for _, k := range obs.Keys {
			keys[k] = true
		}
		for _, e := range obs.Itab {
			if !keys[int(e[1])] {
				ghosts++
			}
		}
		c.Race = &RaceObs{Kind: "timer-callback", Ghosts: ghosts, LateDatagrams: len(late), RemovedSeq: rem, LateSeq: lateSeq, ReturnedEarly: early}
		c.Steps = append(r.steps, Step{Ev: Ev{K: "remove", Pk: 1}, Obs: obs})
		finished := make(chan struct{})
		go func() { r.w.Close(); close(finished) }()
		select {
		case <-finished:
		case <-time.After(10 * time.Second):
			c.Stuck = "Close did not return"
		}
		ch <- c
	}()
	return ch
}

// ---------------------------------------------------------------- removal between two packets of one TUN batch

// insideBatch: the device is built here with a harness-owned device.Logger whose Verbosef performs the removal when
// the TUN reader reports "unknown IP version" for the SECOND packet of a two-packet batch; the first packet of that
// batch is routed to peer 1 (endpoint, no session).  The removal therefore happens, and returns, strictly after peer
// 1 was looked up for packet one and before the batch is handed over: everything is one goroutine, so the scenario is
// deterministic.  A datagram whose Bind.Send starts after "removal returned" is a violation.
func insideBatch(how string) Case {
	c := Case{Mode: 1, Gen: "inside-batch:" + how, Plan: []string{"insidebatch " + how}}
	bind := sim.NewBind(1)
	tn := sim.NewTun(2, 1420)
	var r *runner
	var armed atomic.Bool
	var removed atomic.Uint64
	logger := &device.Logger{
		Verbosef: func(format string, args ...any) {
			if strings.Contains(format, "unknown IP version") && armed.CompareAndSwap(true, false) {
				cfg := "replace_peers=true\n"
				if how == "remove" {
					cfg = "public_key=" + hex.EncodeToString(r.peers[1].pub[:]) + "\nremove=true\n"
				}
				r.w.Dev.IpcSet(cfg)
				removed.Store(sim.Seq.Add(1))
			}
		},
		Errorf: func(format string, args ...any) {},
	}
	w := &cosim.World{Bind: bind, Tun: tn, Timeout: 3 * time.Second}
	w.DevPriv = ref.NewPrivate()
	w.DevPub = ref.PubOf(w.DevPriv)
	w.Dev = device.NewDevice(tn, bind, logger)
	if err := w.Dev.IpcSet("private_key=" + hex.EncodeToString(w.DevPriv[:]) + "\nlisten_port=51820\n"); err != nil {
		c.Stuck = err.Error()
		return c
	}
	r = newRunnerWith(w)
	for _, a := range []string{"add 1 ep 1", "add 2 ep 2", "up"} {
		r.do(a)
	}
	p := r.peers[1]
	type start struct {
		seq  uint64
		to   netip.AddrPort
		data []byte
	}
	var mu sync.Mutex
	var starts []start
	bind.SendGate = func(bufs [][]byte, to netip.AddrPort) {
		mu.Lock()
		for _, b := range bufs {
			starts = append(starts, start{sim.Seq.Add(1), to, append([]byte{}, b...)})
		}
		mu.Unlock()
	}
	routed := ref.IPv4([4]byte{10, 9, 9, 9}, [4]byte{10, 0, 1, 77}, 80, 1)
	odd := ref.IPv4([4]byte{10, 9, 9, 9}, [4]byte{10, 0, 1, 78}, 80, 1)
	odd[0] = 0x75
	armed.Store(true)
	w.TunIn(routed, odd) // one Read returns both
	w.TunIn(ref.IPv4([4]byte{10, 9, 9, 9}, [4]byte{10, 99, 0, 1}, 60, 1))
	rem := removed.Load()
	if rem == 0 {
		c.Stuck = "the removal was not triggered inside the batch"
	}
	mu.Lock()
	var late []sim.Sent
	var lateSeq uint64
	for _, s := range starts {
		if rem != 0 && s.seq > rem && s.to == p.addr {
			late = append(late, sim.Sent{Seq: s.seq, To: s.to, Data: s.data})
			if lateSeq == 0 {
				lateSeq = s.seq
			}
		}
	}
	mu.Unlock()
	obs := r.observe(cosim.Out{Sent: late}, unknownID)
	ghosts := 0
	keys := map[int]bool{}
	for _, k := range obs.Keys {
		keys[k] = true
	}
	for _, e := range obs.Itab {
		if !keys[int(e[1])] {
			ghosts++
		}
	}
	c.Race = &RaceObs{Kind: "inside-batch", Ghosts: ghosts, LateDatagrams: len(late), RemovedSeq: rem, LateSeq: lateSeq}
	ev := Ev{K: "remove", Pk: 1}
	if how != "remove" {
		ev = Ev{K: "replace"}
	}
	c.Steps = append(r.steps, Step{Ev: ev, Obs: obs})
	done := make(chan struct{})
	go func() { w.Dev.Close(); close(done) }()
	select {
	case <-done:
	case <-time.After(10 * time.Second):
		c.Stuck = "Close did not return"
	}
	return c
}

// ---------------------------------------------------------------- revocation between consuming an initiation and answering it

// insideHandshake: like insideBatch, the harness owns the device.Logger.  A handshake worker that has consumed peer 1's
// initiation logs "Received handshake initiation" before it creates the response; the logger performs the revocation
// (remove=true, replace_peers=true or a private-key change) right there, inside the worker's goroutine, so it happens and
// RETURNS strictly between ConsumeMessageInitiation and CreateMessageResponse.  Afterwards no response may leave:
// the removed peer must not get a datagram / an index entry, and after an identity change no response may complete a
// handshake that was consumed under the old identity.
func insideHandshake(how string) Case {
	c := Case{Mode: 1, Gen: "inside-handshake:" + how, Plan: []string{"insidehandshake " + how}}
	bind := sim.NewBind(1)
	tn := sim.NewTun(1, 1420)
	var r *runner
	var armed atomic.Bool
	var removed atomic.Uint64
	newKey := ref.NewPrivate()
	logger := &device.Logger{
		Verbosef: func(format string, args ...any) {
			if strings.Contains(format, "Received handshake initiation") && armed.CompareAndSwap(true, false) {
				cfg := "replace_peers=true\n"
				switch how {
				case "remove":
					cfg = "public_key=" + hex.EncodeToString(r.peers[1].pub[:]) + "\nremove=true\n"
				case "setkey":
					cfg = "private_key=" + hex.EncodeToString(newKey[:]) + "\n"
				}
				r.w.Dev.IpcSet(cfg)
				removed.Store(sim.Seq.Add(1))
			}
		},
		Errorf: func(format string, args ...any) {},
	}
	w := &cosim.World{Bind: bind, Tun: tn, Timeout: 3 * time.Second}
	w.DevPriv = ref.NewPrivate()
	w.DevPub = ref.PubOf(w.DevPriv)
	w.Dev = device.NewDevice(tn, bind, logger)
	if err := w.Dev.IpcSet("private_key=" + hex.EncodeToString(w.DevPriv[:]) + "\nlisten_port=51820\n"); err != nil {
		c.Stuck = err.Error()
		return c
	}
	r = newRunnerWith(w)
	for _, a := range []string{"add 1 ep 1", "add 2 ep 2", "up"} {
		r.do(a)
	}
	p := r.peers[1]
	type start struct {
		seq  uint64
		to   netip.AddrPort
		data []byte
	}
	var mu sync.Mutex
	var starts []start
	bind.SendGate = func(bufs [][]byte, to netip.AddrPort) {
		mu.Lock()
		for _, b := range bufs {
			starts = append(starts, start{sim.Seq.Add(1), to, append([]byte{}, b...)})
		}
		mu.Unlock()
	}
	oldPub := w.DevPub
	st := ref.CreateInitiation(p.priv, ref.NewPrivate(), oldPub, ref.Key{}, 0x7101, ref.Tai64n(time.Now()))
	armed.Store(true)
	w.Inject(p.addr, st.Msg)
	rem := removed.Load()
	if rem == 0 {
		c.Stuck = "the revocation was not triggered inside the handshake"
	}
	ev := Ev{K: "remove", Pk: 1}
	switch how {
	case "replace":
		ev = Ev{K: "replace"}
	case "setkey":
		id := identity{id: r.nextID, priv: newKey, pub: ref.PubOf(newKey)}
		r.nextID++
		r.idents = append(r.idents, id)
		r.cur = id.id
		w.DevPriv, w.DevPub = id.priv, id.pub
		ev = Ev{K: "setkey", Pk: id.id}
	}
	mu.Lock()
	var late []sim.Sent
	var lateSeq uint64
	for _, s := range starts {
		if rem != 0 && s.seq > rem && s.to == p.addr {
			late = append(late, sim.Sent{Seq: s.seq, To: s.to, Data: s.data})
			if lateSeq == 0 {
				lateSeq = s.seq
			}
		}
	}
	mu.Unlock()
	obs := r.observe(cosim.Out{Sent: late}, unknownID)
	for i, s := range late {
		if len(s.Data) == ref.ResponseSize && s.Data[0] == ref.TypeResponse {
			if _, err := st.ConsumeResponse(s.Data); err == nil {
				obs.Outs[i].Ident = 100 // it completes the handshake that was addressed to the OLD identity
			}
		}
	}
	ghosts := 0
	keys := map[int]bool{}
	for _, k := range obs.Keys {
		keys[k] = true
	}
	for _, e := range obs.Itab {
		if !keys[int(e[1])] {
			ghosts++
		}
	}
	c.Race = &RaceObs{Kind: "inside-handshake", Ghosts: ghosts, LateDatagrams: len(late), RemovedSeq: rem, LateSeq: lateSeq}
	c.Steps = append(r.steps, Step{Ev: ev, Obs: obs})
	done := make(chan struct{})
	go func() { w.Dev.Close(); close(done) }()
	select {
	case <-done:
	case <-time.After(10 * time.Second):
		c.Stuck = "Close did not return"
	}
	return c
}

// ---------------------------------------------------------------- Gallina

func gEv(e Ev) string {
	b2 := func(x bool) string {
		if x {
			return "true"
		}
		return "false"
	}
	switch e.K {
	case "add":
		var s []string
		for _, p := range e.Pfx {
			s = append(s, strconv.Itoa(p))
		}
		return fmt.Sprintf("EAddPeer %d %s [%s] %d", e.Pk, b2(e.Ep), strings.Join(s, ";"), e.Idx)
	case "remove":
		return fmt.Sprintf("ERemove %d", e.Pk)
	case "replace":
		return "EReplacePeers"
	case "setkey":
		return fmt.Sprintf("ESetKey %d", e.Pk)
	case "up":
		return "EUp"
	case "down":
		return "EDown"
	case "age":
		return fmt.Sprintf("EAge %d", e.Pk)
	case "tun":
		return fmt.Sprintf("ETun %d %d", e.Pfx[0], e.Idx)
	case "transport":
		return fmt.Sprintf("ETransport %d %d %s %d", e.Idx, e.Src, b2(e.Ka), e.Oidx)
	case "response":
		return fmt.Sprintf("EResponse %d %d %d %d", e.Idx, e.From, e.Ident, e.Ridx)
	case "initiation":
		return fmt.Sprintf("EInitiation %d %d %d %d", e.From, e.Ident, e.Idx, e.Ridx)
	}
	panic("unknown event " + e.K)
}

func gObs(o Obs) string {
	var outs, itab, keys, rows, routes []string
	for _, x := range o.Routes {
		routes = append(routes, fmt.Sprintf("(%d,%d)", x[0], x[1]))
	}
	for _, x := range o.Outs {
		switch x.K {
		case "init":
			outs = append(outs, fmt.Sprintf("OInit %d %d %d", x.To, x.Idx, x.Ident))
		case "resp":
			outs = append(outs, fmt.Sprintf("OResp %d %d %d %d", x.To, x.Idx, x.Ridx, x.Ident))
		case "transport":
			outs = append(outs, fmt.Sprintf("OTransport %d %d 0", x.To, x.Ridx))
		case "tun":
			outs = append(outs, fmt.Sprintf("OTunWrite %d", x.To))
		}
	}
	for _, e := range o.Itab {
		h := "false"
		if e[2] == 1 {
			h = "true"
		}
		itab = append(itab, fmt.Sprintf("(%d,%d,%s)", e[0], e[1], h))
	}
	for _, k := range o.Keys {
		keys = append(keys, strconv.Itoa(k))
	}
	for _, r := range o.Rows {
		var s []string
		for _, v := range r {
			s = append(s, strconv.FormatUint(v, 10))
		}
		rows = append(rows, "["+strings.Join(s, ";")+"]")
	}
	return fmt.Sprintf("mkobs [%s] [%s] [%s] [%s] [%s]", strings.Join(outs, ";"), strings.Join(itab, ";"), strings.Join(keys, ";"), strings.Join(rows, ";"), strings.Join(routes, ";"))
}

func gallina(c Case) string {
	var st []string
	for _, s := range c.Steps {
		st = append(st, fmt.Sprintf("(%s, %s)", gEv(s.Ev), gObs(s.Obs)))
	}
	return fmt.Sprintf("mkcase %d 100 [\n  %s]", c.Mode, strings.Join(st, ";\n  "))
}

func writeShard(path string, cases []Case) error {
	var b strings.Builder
	b.WriteString("From WG Require Import Base.Prelude Revoke.Model Revoke.Spec Revoke.Check.\nLocal Open Scope N_scope.\nDefinition cases : list case := [\n")
	for i, c := range cases {
		if i > 0 {
			b.WriteString(";\n")
		}
		b.WriteString(gallina(c))
	}
	b.WriteString("].\nDefinition bad := Eval vm_compute in (check_cases cases 0).\nPrint bad.\nDefinition st := Eval vm_compute in (stats cases).\nPrint st.\n")
	return os.WriteFile(path, []byte(b.String()), 0o644)
}

func main() {
	seed := flag.Int64("seed", 1, "PRNG seed")
	n := flag.Int("n", 120, "number of random scenarios")
	length := flag.Int("len", 45, "actions per random scenario")
	grid := flag.Bool("grid", true, "run the life-cycle x revocation grid")
	race := flag.Int("race", 0, "rounds of the concurrent variant (per kind)")
	timerRounds := flag.Int("timercb", 2, "rounds of the removal-while-the-retransmission-callback-is-sending scenario (about 5.5 s each, concurrent)")
	inside := flag.Int("inside", 2, "rounds (per kind) of the removal-between-two-packets-of-one-TUN-batch scenario")
	drain := flag.Int("drain", 3, "rounds of the removal-while-sender-busy scenario (each stays alive for -drainwait)")
	drainWait := flag.Duration("drainwait", 5600*time.Millisecond, "how long a drain scenario waits for timers after the removal returned")
	shards := flag.Int("shards", 16, "case files")
	out := flag.String("out", "out/C15", "output directory")
	replayIn := flag.String("replay", "", "JSON file with cases (plans) to run")
	corpus := flag.String("corpus", "", "directory of corpus JSON cases to prepend")
	flag.Parse()
	if err := os.MkdirAll(*out, 0o755); err != nil {
		panic(err)
	}
	var cases []Case
	runIn := func(cs []Case, gen string) {
		for _, c := range cs {
			if len(c.Plan) == 1 && strings.HasPrefix(c.Plan[0], "timercallback") {
				rc := <-timerCallbackStart()
				if gen != "" {
					rc.Gen = gen
				}
				cases = append(cases, rc)
				continue
			}
			if len(c.Plan) == 1 && (strings.HasPrefix(c.Plan[0], "queued") || strings.HasPrefix(c.Plan[0], "insideresponse")) {
				f := strings.Fields(c.Plan[0])
				how := "remove"
				if len(f) > 1 {
					how = f[1]
				}
				var rc Case
				if f[0] == "queued" {
					rc = queuedRemoval(how)
				} else {
					rc = insideResponse(how)
				}
				if gen != "" {
					rc.Gen = gen
				}
				cases = append(cases, rc)
				continue
			}
			if len(c.Plan) == 1 && strings.HasPrefix(c.Plan[0], "insidehandshake") {
				f := strings.Fields(c.Plan[0])
				how := "remove"
				if len(f) > 1 {
					how = f[1]
				}
				rc := insideHandshake(how)
				if gen != "" {
					rc.Gen = gen
				}
				cases = append(cases, rc)
				continue
			}
			if len(c.Plan) == 1 && strings.HasPrefix(c.Plan[0], "insidebatch") {
				f := strings.Fields(c.Plan[0])
				how := "remove"
				if len(f) > 1 {
					how = f[1]
				}
				rc := insideBatch(how)
				if gen != "" {
					rc.Gen = gen
				}
				cases = append(cases, rc)
				continue
			}
			if len(c.Plan) == 1 && strings.HasPrefix(c.Plan[0], "drain") {
				f := strings.Fields(c.Plan[0])
				w := *drainWait
				if len(f) > 1 {
					if ms, err := strconv.Atoi(f[1]); err == nil {
						w = time.Duration(ms) * time.Millisecond
					}
				}
				rc := drainStart(w)()
				if gen != "" {
					rc.Gen = gen
				}
				cases = append(cases, rc)
				continue
			}
			if len(c.Plan) == 1 && strings.HasPrefix(c.Plan[0], "race ") {
				f := strings.Fields(c.Plan[0])
				d, _ := strconv.Atoi(f[2])
				rc := raceRound(f[1], d)
				if gen != "" {
					rc.Gen = gen
				}
				cases = append(cases, rc)
				continue
			}
			g := c.Gen
			if gen != "" {
				g = gen
			}
			cases = append(cases, runPlan(c.Plan, g))
		}
	}
	if *replayIn != "" {
		data, err := os.ReadFile(*replayIn)
		if err != nil {
			panic(err)
		}
		var cs []Case
		if err := json.Unmarshal(data, &cs); err != nil {
			panic(err)
		}
		runIn(cs, "")
		*shards = 1
	} else {
		if *corpus != "" {
			files, _ := filepath.Glob(filepath.Join(*corpus, "*.json"))
			sort.Strings(files)
			for _, f := range files {
				data, err := os.ReadFile(f)
				if err != nil {
					continue
				}
				var cs []Case
				if json.Unmarshal(data, &cs) == nil {
					runIn(cs, "corpus")
				}
			}
		}
		var timerCh []<-chan Case
		for i := 0; i < *timerRounds; i++ {
			timerCh = append(timerCh, timerCallbackStart())
		}
		var pending []func() Case
		for i := 0; i < *drain; i++ {
			pending = append(pending, drainStart(*drainWait))
		}
		if *grid {
			plans, names := gridPlans()
			for i, p := range plans {
				cases = append(cases, runPlan(p, names[i]))
			}
			plans, names = nearKeyPlans()
			for i, p := range plans {
				cases = append(cases, runPlan(p, names[i]))
			}
		}
		r := rand.New(rand.NewSource(*seed))
		for i := 0; i < *n; i++ {
			cases = append(cases, runPlan(randomPlan(r, *length), "random"))
		}
		for i := 0; i < *race; i++ {
			cases = append(cases, raceRound("initiation", 200+r.Intn(400)))
			cases = append(cases, raceRound("tun", r.Intn(150)))
		}
		for i := 0; i < *inside; i++ {
			cases = append(cases, insideBatch("remove"), insideBatch("replace"))
			cases = append(cases, insideHandshake("remove"), insideHandshake("replace"), insideHandshake("setkey"))
			cases = append(cases, insideResponse("setkey"), insideResponse("remove"), insideResponse("replace"))
			cases = append(cases, queuedRemoval("remove"), queuedRemoval("replace"))
		}
		for _, f := range pending {
			cases = append(cases, f())
		}
		for _, ch := range timerCh {
			cases = append(cases, <-ch)
		}
	}
	if *shards > len(cases) {
		*shards = len(cases)
	}
	if *shards < 1 {
		*shards = 1
	}
	per := (len(cases) + *shards - 1) / *shards
	type shardInfo struct {
		File  string `json:"file"`
		First int    `json:"first"`
		N     int    `json:"n"`
	}
	var infos []shardInfo
	idx := 0
	for s := 0; s < *shards && idx < len(cases); s++ {
		end := idx + per
		if end > len(cases) {
			end = len(cases)
		}
		name := fmt.Sprintf("cases_C15_%d.v", s)
		if err := writeShard(filepath.Join(*out, name), cases[idx:end]); err != nil {
			panic(err)
		}
		infos = append(infos, shardInfo{name, idx, end - idx})
		idx = end
	}
	meta := map[string]any{"seed": *seed, "cases": cases, "shards": infos}
	data, _ := json.Marshal(meta)
	if err := os.WriteFile(filepath.Join(*out, "cases.json"), data, 0o644); err != nil {
		panic(err)
	}
}
