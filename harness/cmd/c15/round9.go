// Round 9: two more placements of a revocation that exist only inside the device's own goroutines.
//
//   - queued:{remove,replace} — the life-cycle point "packets queued": encrypted containers for the peer wait in
//     peer.queue.outbound behind a Bind.Send that is parked by the sim SendGate (a socket slower than the encryption
//     workers) when the removal stops the peer.
//   - inside-response:{setkey,remove,replace} — the life-cycle point "handshake half-done in the initiator role", at
//     its last instant: the peer's response has been consumed by a handshake worker, the session keys have not been
//     derived yet.
//
// Both use the harness-owned device.Logger as the schedule point (as inside-batch and inside-handshake do): the
// device logs "<peer> - Stopping" right after Peer.Stop has cleared the running flag, and "<peer> - Received
// handshake response" between ConsumeMessageResponse and BeginSymmetricSession, holding no lock.
package main

import (
	"encoding/hex"
	"net/netip"
	"strings"
	"sync"
	"sync/atomic"
	"time"

	"golang.zx2c4.com/wireguard/device"

	"wgv/cosim"
	"wgv/ref"
	"wgv/sim"
)

// loggedWorld builds a device on a sim bind / sim TUN with the given Verbosef and wraps it in a runner.
func loggedWorld(verbosef func(format string, args ...any)) (*runner, error) {
	bind := sim.NewBind(1)
	tn := sim.NewTun(1, 1420)
	logger := &device.Logger{Verbosef: verbosef, Errorf: func(format string, args ...any) {}}
	w := &cosim.World{Bind: bind, Tun: tn, Timeout: 3 * time.Second}
	w.DevPriv = ref.NewPrivate()
	w.DevPub = ref.PubOf(w.DevPriv)
	w.Dev = device.NewDevice(tn, bind, logger)
	if err := w.Dev.IpcSet("private_key=" + hex.EncodeToString(w.DevPriv[:]) + "\nlisten_port=51820\n"); err != nil {
		return nil, err
	}
	return newRunnerWith(w), nil
}

type sendStart struct {
	seq  uint64
	to   netip.AddrPort
	data []byte
}

// sendStamps records every datagram handed to Bind.Send with a global sequence number taken at the START of the call.
type sendStamps struct {
	mu     sync.Mutex
	starts []sendStart
}

func (s *sendStamps) stamp(bufs [][]byte, to netip.AddrPort) {
	s.mu.Lock()
	for _, b := range bufs {
		s.starts = append(s.starts, sendStart{sim.Seq.Add(1), to, append([]byte{}, b...)})
	}
	s.mu.Unlock()
}

// after: datagrams to `to` whose Send began after sequence number `mark` (nothing when mark is 0).
func (s *sendStamps) after(mark uint64, to netip.AddrPort) (late []sim.Sent, first uint64) {
	s.mu.Lock()
	defer s.mu.Unlock()
	for _, x := range s.starts {
		if mark != 0 && x.seq > mark && x.to == to {
			late = append(late, sim.Sent{Seq: x.seq, To: x.to, Data: x.data})
			if first == 0 {
				first = x.seq
			}
		}
	}
	return
}

func countGhosts(obs Obs) int {
	keys := map[int]bool{}
	for _, k := range obs.Keys {
		keys[k] = true
	}
	n := 0
	for _, e := range obs.Itab {
		if !keys[int(e[1])] {
			n++
		}
	}
	return n
}

func closeWorld(c *Case, w *cosim.World) {
	done := make(chan struct{})
	go func() { w.Dev.Close(); close(done) }()
	select {
	case <-done:
	case <-time.After(10 * time.Second):
		c.Stuck = "Close did not return"
	}
}

// ---------------------------------------------------------------- removal with encrypted packets queued behind a slow socket

// queuedRemoval: peer 1 has a session.  The first data packet parks inside Bind.Send (SendGate); `queuedPackets` more
// are routed, given nonces, encrypted and wait in peer.queue.outbound.  The removal (remove=true / replace_peers=true)
// is issued in a goroutine.  Peer.Stop clears the running flag and logs "Stopping": the logger stamps that moment
// (the peer is unrouted and stopped; what remains of the removal is waiting for the peer's routines to drain).  Only
// then is the socket released.  Criterion: a datagram to the removed peer whose Bind.Send BEGINS after the stop stamp
// — the packet that was already inside Send when the removal began is not counted, it began before.  The unchanged
// sender gives queued containers of a stopped peer back to the pools (0 such datagrams, deterministically: the flag
// was cleared before the socket was released); a sender that does not look at the peer's running flag transmits the
// whole backlog to the peer that has been removed.
const queuedPackets = 5

func queuedRemoval(how string) Case {
	c := Case{Mode: 1, Gen: "queued:" + how, Plan: []string{"queued " + how}}
	var target atomic.Pointer[device.Peer]
	var stopSeq atomic.Uint64
	stopped := make(chan struct{})
	r, err := loggedWorld(func(format string, args ...any) {
		if strings.HasSuffix(format, "- Stopping") && len(args) == 1 {
			if p, ok := args[0].(*device.Peer); ok && p != nil && p == target.Load() && stopSeq.Load() == 0 {
				stopSeq.Store(sim.Seq.Add(1))
				close(stopped)
			}
		}
	})
	if err != nil {
		c.Stuck = err.Error()
		return c
	}
	w := r.w
	fail := func(msg string) Case { c.Stuck = msg; closeWorld(&c, w); return c }
	for _, a := range []string{"add 1 ep 1", "add 2 ep 2", "up", "tun 1", "respond 1 -1"} {
		if !r.do(a) {
			return fail(r.stuck)
		}
	}
	p := r.peers[1]
	pk := pkOf(p.pub)
	if !w.Dev.VerifPeer(pk).Current.Present {
		return fail("no session for the queued scenario")
	}
	var st sendStamps
	blocked := make(chan struct{})
	release := make(chan struct{})
	var once sync.Once
	var releaseOnce sync.Once
	open := func() { releaseOnce.Do(func() { close(release) }) }
	w.Bind.TakeSent()
	w.Bind.SendGate = func(bufs [][]byte, to netip.AddrPort) {
		st.stamp(bufs, to)
		if len(bufs) > 0 && len(bufs[0]) > 0 && bufs[0][0] == ref.TypeTransport {
			first := false
			once.Do(func() { first = true })
			if first {
				close(blocked)
				<-release
			}
		}
	}
	pkt := func(fill byte) []byte { return ref.IPv4([4]byte{10, 9, 9, 9}, [4]byte{10, 0, 1, 77}, 80, fill) }
	w.Tun.Inject(pkt(1))
	select {
	case <-blocked:
	case <-time.After(3 * time.Second):
		open()
		return fail("the sender never reached Bind.Send")
	}
	for i := 0; i < queuedPackets; i++ {
		w.Tun.Inject(pkt(byte(2 + i)))
	}
	t0 := time.Now()
	for w.Dev.VerifPeer(pk).OutboundLen < queuedPackets {
		if time.Since(t0) > 2*time.Second {
			open()
			return fail("the packets never reached the outbound queue")
		}
		time.Sleep(200 * time.Microsecond)
	}
	target.Store(w.Dev.LookupPeer(pk))
	cfg := "public_key=" + hex.EncodeToString(p.pub[:]) + "\nremove=true\n"
	ev := Ev{K: "remove", Pk: 1}
	if how == "replace" {
		cfg = "replace_peers=true\n"
		ev = Ev{K: "replace"}
	}
	var returned atomic.Uint64
	done := make(chan struct{})
	go func() {
		w.Dev.IpcSet(cfg)
		returned.Store(sim.Seq.Add(1))
		close(done)
	}()
	// from here until `done` the removal holds the peer-map lock: no accessor that takes it may be called
	select {
	case <-stopped:
	case <-time.After(3 * time.Second):
		open()
		return fail("the removal never stopped the peer")
	}
	time.Sleep(5 * time.Millisecond) // Stop goes on to push its terminators behind the backlog
	open()
	select {
	case <-done:
	case <-time.After(10 * time.Second):
		c.Stuck = "the removal did not return"
		return c
	}
	w.Settle()
	late, lateSeq := st.after(stopSeq.Load(), p.addr)
	obs := r.observe(cosim.Out{Sent: late}, unknownID)
	c.Race = &RaceObs{Kind: "queued", Ghosts: countGhosts(obs), LateDatagrams: len(late), RemovedSeq: returned.Load(),
		StopSeq: stopSeq.Load(), LateSeq: lateSeq, Queued: queuedPackets}
	c.Steps = append(r.steps, Step{Ev: ev, Obs: obs})
	closeWorld(&c, w)
	return c
}

// ---------------------------------------------------------------- revocation between consuming a response and deriving the keys

// insideResponse: the device initiates toward peer 1 (one TUN packet staged), peer 1 answers.  The handshake worker
// validates the response (ConsumeMessageResponse), logs "Received handshake response" and only then derives the
// session (BeginSymmetricSession); the logger performs the revocation at that line, inside the worker's goroutine, so
// it happens and RETURNS strictly between the two.  Afterwards the pending handshake must be dead: after an identity
// change no transport may be sent under keys that stem from the handshake begun under the old identity (Spec clause
// 3: the receiver index was handed out before the change), a removed peer must get no datagram (clause 1) and no
// index entry (clause 2).  Whether the peer's record holds a current keypair afterwards is recorded.
func insideResponse(how string) Case {
	c := Case{Mode: 1, Gen: "inside-response:" + how, Plan: []string{"insideresponse " + how}}
	var r *runner
	var armed atomic.Bool
	var removed atomic.Uint64
	newKey := ref.NewPrivate()
	r, err := loggedWorld(func(format string, args ...any) {
		if strings.Contains(format, "Received handshake response") && armed.CompareAndSwap(true, false) {
			cfg := "replace_peers=true\n"
			switch how {
			case "remove":
				cfg = "public_key=" + hex.EncodeToString(r.peers[1].pub[:]) + "\nremove=true\n"
			case "setkey":
				cfg = "private_key=" + hex.EncodeToString(newKey[:]) + "\n"
			}
			r.w.Dev.IpcSet(cfg)
			removed.Store(sim.Seq.Add(1))
		}
	})
	if err != nil {
		c.Stuck = err.Error()
		return c
	}
	w := r.w
	fail := func(msg string) Case { c.Stuck = msg; closeWorld(&c, w); return c }
	for _, a := range []string{"add 1 ep 1", "add 2 ep 2", "up", "tun 1"} {
		if !r.do(a) {
			return fail(r.stuck)
		}
	}
	p := r.peers[1]
	pk := pkOf(p.pub)
	var init *captured
	for i := range r.inits {
		if r.inits[i].peer == 1 {
			init = &r.inits[i]
		}
	}
	if init == nil {
		return fail("the device did not initiate toward peer 1")
	}
	rs, err := ref.ConsumeInitiation(init.msg, p.priv)
	if err != nil {
		return fail("the device's initiation does not open: " + err.Error())
	}
	r.nextRidx++
	ridx := r.nextRidx
	resp, sess := rs.CreateResponse(ref.NewPrivate(), ref.Key{}, ridx)
	var st sendStamps
	w.Bind.SendGate = st.stamp
	armed.Store(true)
	w.Inject(p.addr, resp)
	rem := removed.Load()
	if rem == 0 {
		c.Stuck = "the revocation was not triggered inside the handshake worker"
	}
	ev := Ev{K: "remove", Pk: 1}
	switch how {
	case "replace":
		ev = Ev{K: "replace"}
	case "setkey":
		id := identity{id: r.nextID, priv: newKey, pub: ref.PubOf(newKey)}
		r.nextID++
		r.idents = append(r.idents, id)
		r.cur = id.id
		w.DevPriv, w.DevPub = id.priv, id.pub
		ev = Ev{K: "setkey", Pk: id.id}
	}
	late, lateSeq := st.after(rem, p.addr)
	obs := r.observe(cosim.Out{Sent: late}, unknownID)
	opens := 0
	for i, s := range late {
		if len(s.Data) >= 32 && s.Data[0] == ref.TypeTransport {
			// addressed to peer 1 under the receiver index peer 1 chose in its response, whatever keys it is sealed with
			obs.Outs[i].To = r.peerByAddr(s.To)
			if _, _, _, err := sess.OpenTransport(s.Data); err == nil {
				opens++
			}
		}
	}
	session := false
	if how == "setkey" {
		session = w.Dev.VerifPeer(pk).Current.Present
	}
	c.Race = &RaceObs{Kind: "inside-response", Ghosts: countGhosts(obs), LateDatagrams: len(late), RemovedSeq: rem, LateSeq: lateSeq,
		SessionAfter: session, OpensUnderHandshakeKeys: opens}
	c.Steps = append(r.steps, Step{Ev: ev, Obs: obs})
	closeWorld(&c, w)
	return c
}
