// replayast — translator for C05: reads the SOURCE of replay/replay.go of the tree under test and
// prints, as Gallina (Gen/ReplayAst.v), the bodies of (*Filter).ValidateCounter and (*Filter).Reset
// as terms of the deep-embedded mini-language of Replay/Ast.v.  Replay/AstProofs.v proves that the
// interpreter of Replay/Ast.v run on these terms equals Replay/Model.v (validate, reset) for ALL inputs.
//
// What is trusted here: go/parser; the rendering below (one Go construct -> one constructor; the only
// desugarings are `x++` -> SOpAssign x OAdd 1, `x--` -> SOpAssign x OSub 1, a block -> right-nested SSeq
// ending in SSkip, `else if` -> SIf in the else position, package constants -> their value); that every
// variable/field/ring element is a 64-bit unsigned integer (checked syntactically: parameter types,
// `type block uint64`, the struct fields; locals take their type from these).  Everything that is not
// recognised is emitted as EUnknown/BUnknown/LUnknown/SUnknown, on which the interpreter yields None,
// so an unrecognised construct can only break the equivalence theorem, never satisfy it.
package main

import (
	"flag"
	"fmt"
	"go/ast"
	"go/parser"
	"go/token"
	"math/big"
	"os"
	"path/filepath"
	"reflect"
	"strings"
)

var (
	consts    = map[string]ast.Expr{} // package constant -> defining expression
	constBusy = map[string]bool{}
	two64     = new(big.Int).Lsh(big.NewInt(1), 64)
)

// evaluate a constant expression over the package constants (arbitrary precision, like Go)
func constVal(e ast.Expr) (*big.Int, bool) {
	switch v := e.(type) {
	case *ast.ParenExpr:
		return constVal(v.X)
	case *ast.BasicLit:
		if v.Kind == token.INT {
			n, ok := new(big.Int).SetString(strings.ReplaceAll(v.Value, "_", ""), 0)
			return n, ok
		}
	case *ast.Ident:
		d, ok := consts[v.Name]
		if !ok || constBusy[v.Name] {
			return nil, false
		}
		constBusy[v.Name] = true
		defer delete(constBusy, v.Name)
		return constVal(d)
	case *ast.BinaryExpr:
		a, ok1 := constVal(v.X)
		b, ok2 := constVal(v.Y)
		if !ok1 || !ok2 {
			return nil, false
		}
		r := new(big.Int)
		switch v.Op {
		case token.ADD:
			return r.Add(a, b), true
		case token.SUB:
			return r.Sub(a, b), true
		case token.MUL:
			return r.Mul(a, b), true
		case token.AND:
			if a.Sign() >= 0 && b.Sign() >= 0 {
				return r.And(a, b), true
			}
		case token.OR:
			if a.Sign() >= 0 && b.Sign() >= 0 {
				return r.Or(a, b), true
			}
		case token.SHL:
			if b.Sign() >= 0 && b.Cmp(big.NewInt(512)) < 0 {
				return r.Lsh(a, uint(b.Uint64())), true
			}
		case token.SHR:
			if a.Sign() >= 0 && b.Sign() >= 0 && b.Cmp(big.NewInt(512)) < 0 {
				return r.Rsh(a, uint(b.Uint64())), true
			}
		}
	}
	return nil, false
}

func u64(n *big.Int) bool { return n.Sign() >= 0 && n.Cmp(two64) < 0 }

func kind(n interface{}) string {
	s := reflect.TypeOf(n).String()
	return strings.TrimPrefix(s, "*ast.")
}

type tr struct {
	recv  string          // receiver name
	vars  map[string]bool // parameters and locals declared so far (function-wide: redeclaration is refused)
	retsB bool            // function returns bool
}

var binops = map[token.Token]string{token.SHR: "OShr", token.SHL: "OShl", token.AND: "OAnd", token.OR: "OOr", token.ADD: "OAdd", token.SUB: "OSub"}
var asgops = map[token.Token]string{token.SHR_ASSIGN: "OShr", token.SHL_ASSIGN: "OShl", token.AND_ASSIGN: "OAnd", token.OR_ASSIGN: "OOr", token.ADD_ASSIGN: "OAdd", token.SUB_ASSIGN: "OSub"}
var cmpops = map[token.Token]string{token.GEQ: "CGe", token.GTR: "CGt", token.LEQ: "CLe", token.LSS: "CLt", token.EQL: "CEq", token.NEQ: "CNe"}

func (t *tr) isField(e ast.Expr, name string) bool {
	s, ok := e.(*ast.SelectorExpr)
	if !ok || s.Sel.Name != name {
		return false
	}
	id, ok := s.X.(*ast.Ident)
	return ok && id.Name == t.recv && !t.vars[t.recv]
}

func (t *tr) expr(e ast.Expr) string {
	switch v := e.(type) {
	case *ast.ParenExpr:
		return t.expr(v.X)
	case *ast.BasicLit:
		if n, ok := constVal(v); ok && u64(n) {
			return fmt.Sprintf("(EConst %s%%N)", n)
		}
	case *ast.Ident:
		if t.vars[v.Name] {
			return fmt.Sprintf("(EVar %q)", v.Name)
		}
		if n, ok := constVal(v); ok && u64(n) {
			return fmt.Sprintf("(EConst %s%%N)", n)
		}
		return fmt.Sprintf("(EUnknown %q)", "Ident")
	case *ast.SelectorExpr:
		if t.isField(v, "last") {
			return "ELast"
		}
	case *ast.IndexExpr:
		if t.isField(v.X, "ring") {
			return fmt.Sprintf("(ERing %s)", t.expr(v.Index))
		}
	case *ast.BinaryExpr:
		if op, ok := binops[v.Op]; ok {
			return fmt.Sprintf("(EBin %s %s %s)", op, t.expr(v.X), t.expr(v.Y))
		}
		return fmt.Sprintf("(EUnknown %q)", "BinaryExpr "+v.Op.String())
	}
	return fmt.Sprintf("(EUnknown %q)", kind(e))
}

func (t *tr) bexpr(e ast.Expr) string {
	switch v := e.(type) {
	case *ast.ParenExpr:
		return t.bexpr(v.X)
	case *ast.Ident:
		if !t.vars[v.Name] && consts[v.Name] == nil && (v.Name == "true" || v.Name == "false") {
			return fmt.Sprintf("(BLit %s)", v.Name)
		}
	case *ast.BinaryExpr:
		if op, ok := cmpops[v.Op]; ok {
			return fmt.Sprintf("(BCmp %s %s %s)", op, t.expr(v.X), t.expr(v.Y))
		}
		return fmt.Sprintf("(BUnknown %q)", "BinaryExpr "+v.Op.String())
	}
	return fmt.Sprintf("(BUnknown %q)", kind(e))
}

func (t *tr) lhs(e ast.Expr) string {
	switch v := e.(type) {
	case *ast.Ident:
		if t.vars[v.Name] {
			return fmt.Sprintf("(LVar %q)", v.Name)
		}
	case *ast.SelectorExpr:
		if t.isField(v, "last") {
			return "LLast"
		}
	case *ast.IndexExpr:
		if t.isField(v.X, "ring") {
			return fmt.Sprintf("(LRing %s)", t.expr(v.Index))
		}
	}
	return fmt.Sprintf("(LUnknown %q)", kind(e))
}

func unknownS(what string) string { return fmt.Sprintf("(SUnknown %q)", what) }

// statements are rendered one per line; ind is the indentation of this statement
func (t *tr) stmt(s ast.Stmt, ind string) string {
	switch v := s.(type) {
	case *ast.BlockStmt:
		return t.block(v, ind)
	case *ast.AssignStmt:
		if len(v.Lhs) != 1 || len(v.Rhs) != 1 {
			return unknownS("AssignStmt multi")
		}
		switch {
		case v.Tok == token.DEFINE:
			id, ok := v.Lhs[0].(*ast.Ident)
			if !ok || id.Name == "_" {
				return unknownS("AssignStmt define")
			}
			if t.vars[id.Name] || id.Name == t.recv {
				return unknownS("AssignStmt redeclaration")
			}
			rhs := t.expr(v.Rhs[0])
			t.vars[id.Name] = true
			return fmt.Sprintf("(SAssign (LVar %q) %s)", id.Name, rhs)
		case v.Tok == token.ASSIGN:
			return fmt.Sprintf("(SAssign %s %s)", t.lhs(v.Lhs[0]), t.expr(v.Rhs[0]))
		default:
			if op, ok := asgops[v.Tok]; ok {
				return fmt.Sprintf("(SOpAssign %s %s %s)", t.lhs(v.Lhs[0]), op, t.expr(v.Rhs[0]))
			}
			return unknownS("AssignStmt " + v.Tok.String())
		}
	case *ast.IncDecStmt:
		op := "OAdd"
		if v.Tok == token.DEC {
			op = "OSub"
		}
		return fmt.Sprintf("(SOpAssign %s %s (EConst 1%%N))", t.lhs(v.X), op)
	case *ast.IfStmt:
		if v.Init != nil {
			return unknownS("IfStmt init")
		}
		c := t.bexpr(v.Cond)
		th := t.block(v.Body, ind+"  ")
		el := "SSkip"
		switch e := v.Else.(type) {
		case nil:
		case *ast.IfStmt:
			el = t.stmt(e, ind+"  ")
		case *ast.BlockStmt:
			el = t.block(e, ind+"  ")
		default:
			el = unknownS("IfStmt else")
		}
		return fmt.Sprintf("(SIf %s\n%s  %s\n%s  %s)", c, ind, th, ind, el)
	case *ast.ForStmt:
		if v.Init == nil || v.Cond == nil || v.Post == nil {
			return unknownS("ForStmt clauses")
		}
		in := t.stmt(v.Init, ind+"  ")
		c := t.bexpr(v.Cond)
		po := t.stmt(v.Post, ind+"  ")
		bo := t.block(v.Body, ind+"  ")
		return fmt.Sprintf("(SFor %s\n%s  %s\n%s  %s\n%s  %s)", in, ind, c, ind, po, ind, bo)
	case *ast.ReturnStmt:
		switch {
		case len(v.Results) == 0 && !t.retsB:
			return "SReturnVoid"
		case len(v.Results) == 1 && t.retsB:
			return fmt.Sprintf("(SReturn %s)", t.bexpr(v.Results[0]))
		}
		return unknownS("ReturnStmt")
	}
	return unknownS(kind(s))
}

func (t *tr) block(b *ast.BlockStmt, ind string) string {
	var sb strings.Builder
	for _, s := range b.List {
		sb.WriteString("(SSeq " + t.stmt(s, ind+"  ") + "\n" + ind)
	}
	sb.WriteString("SSkip" + strings.Repeat(")", len(b.List)))
	return sb.String()
}

func isIdent(e ast.Expr, name string) bool {
	id, ok := e.(*ast.Ident)
	return ok && id.Name == name
}

func main() {
	repo := flag.String("repo", "/repo", "tree under test")
	flag.Parse()
	fset := token.NewFileSet()
	file, err := parser.ParseFile(fset, filepath.Join(*repo, "replay", "replay.go"), nil, 0)
	if err != nil {
		fmt.Fprintln(os.Stderr, "replayast: cannot parse replay/replay.go")
		os.Exit(1)
	}
	funcs := map[string]*ast.FuncDecl{}
	blockIsU64, structOK := false, false
	ringLen := "0"
	for _, d := range file.Decls {
		switch v := d.(type) {
		case *ast.GenDecl:
			for _, sp := range v.Specs {
				switch s := sp.(type) {
				case *ast.ValueSpec:
					if v.Tok == token.CONST && len(s.Names) == len(s.Values) {
						for i, n := range s.Names {
							consts[n.Name] = s.Values[i]
						}
					}
				case *ast.TypeSpec:
					if s.Name.Name == "block" && isIdent(s.Type, "uint64") {
						blockIsU64 = true
					}
					if st, ok := s.Type.(*ast.StructType); ok && s.Name.Name == "Filter" {
						fl := st.Fields.List
						if len(fl) == 2 && len(fl[0].Names) == 1 && fl[0].Names[0].Name == "last" && isIdent(fl[0].Type, "uint64") &&
							len(fl[1].Names) == 1 && fl[1].Names[0].Name == "ring" {
							if at, ok := fl[1].Type.(*ast.ArrayType); ok && at.Len != nil && isIdent(at.Elt, "block") {
								structOK = true
								if n, ok := constVal(at.Len); ok && u64(n) {
									ringLen = n.String()
								}
							}
						}
					}
				}
			}
		case *ast.FuncDecl:
			if v.Recv != nil && len(v.Recv.List) == 1 && v.Body != nil {
				if st, ok := v.Recv.List[0].Type.(*ast.StarExpr); ok && isIdent(st.X, "Filter") && len(v.Recv.List[0].Names) == 1 {
					funcs[v.Name.Name] = v
				}
			}
		}
	}
	typesOK := blockIsU64 && structOK

	body := func(name string, params []string, retBool bool) string {
		fd := funcs[name]
		if fd == nil {
			return unknownS("function not found")
		}
		if !typesOK {
			return unknownS("Filter/block types not as expected")
		}
		var got []string
		for _, p := range fd.Type.Params.List {
			if !isIdent(p.Type, "uint64") {
				return unknownS("parameter type")
			}
			for _, n := range p.Names {
				got = append(got, n.Name)
			}
		}
		if strings.Join(got, ",") != strings.Join(params, ",") {
			return unknownS("parameter list")
		}
		res := fd.Type.Results
		if retBool {
			if res == nil || len(res.List) != 1 || len(res.List[0].Names) != 0 || !isIdent(res.List[0].Type, "bool") {
				return unknownS("result type")
			}
		} else if res != nil && len(res.List) != 0 {
			return unknownS("result type")
		}
		t := &tr{recv: fd.Recv.List[0].Names[0].Name, vars: map[string]bool{}, retsB: retBool}
		for _, p := range params {
			t.vars[p] = true
		}
		return t.block(fd.Body, "  ")
	}

	fmt.Println("(* GENERATED by harness/cmd/replayast from replay/replay.go of the tree under test. Do not edit. *)")
	fmt.Println("From Coq Require Import NArith String.")
	fmt.Println("From WG Require Import Replay.Ast.")
	fmt.Println("Local Open Scope string_scope.")
	fmt.Println()
	fmt.Println("(* len(Filter.ring) *)")
	fmt.Printf("Definition ring_len : N := %s%%N.\n\n", ringLen)
	fmt.Println("(* func (f *Filter) ValidateCounter(counter, limit uint64) bool *)")
	fmt.Printf("Definition validate_body : stmt :=\n  %s.\n\n", body("ValidateCounter", []string{"counter", "limit"}, true))
	fmt.Println("(* func (f *Filter) Reset() *)")
	fmt.Printf("Definition reset_body : stmt :=\n  %s.\n", body("Reset", nil, false))
}
