// c06 drives the real device (co-simulation world) with handshake messages that
// are built by package ref and then deliberately altered, replayed, reordered or
// mistimed, and writes what was done (construction descriptors) and what was
// observed (emitted datagram descriptors, peer snapshots, index table) as
// Gallina case files + JSON.  It also samples tai64n.VerifStamp / After.
package main

import (
	"encoding/binary"
	"encoding/hex"
	"encoding/json"
	"flag"
	"fmt"
	"math/rand"
	"net/netip"
	"os"
	"path/filepath"
	"reflect"
	"runtime"
	"strconv"
	"strings"
	"sync"
	"sync/atomic"
	"time"

	"golang.zx2c4.com/wireguard/device"
	"golang.zx2c4.com/wireguard/tai64n"

	"wgv/cosim"
	"wgv/ref"
	"wgv/sim"
)

// ---------------------------------------------------------------- scenario language

type Mut struct {
	Op string `json:"op"` // flip (bit), subst (field code), type (value), sender (value), receiver (value), receiver_of (peer)
	V  int64  `json:"v"`
}

type MsgSpec struct {
	Kind     string   `json:"kind"` // init | resp | reflect
	Label    int      `json:"label"`
	Replay   int      `json:"replay,omitempty"` // label of an earlier message to re-inject byte-identically
	From     int      `json:"from"`             // builder's static key id (1 A, 2 B, 3 stranger)
	To       int      `json:"to"`               // init: addressed responder key id (0 device, 9 somebody else)
	Mac1Key  int      `json:"mac1key"`          // key id MAC1 is computed for (0 device)
	Psk      int      `json:"psk"`              // psk id (0 none, 2 B's, 7 a wrong one)
	TsOff    int64    `json:"tsoff"`            // init: timestamp = scenario base + TsOff (in nanos-field units)
	TsRaw    []uint32 `json:"tsraw,omitempty"`  // init: explicit 96-bit timestamp as three words
	Ans      int      `json:"ans"`              // resp/reflect: 0 = latest device initiation to peer From, 1 = the one before, ...
	Muts     []Mut    `json:"muts,omitempty"`
	Remac    bool     `json:"remac,omitempty"`
	LenDelta int      `json:"lendelta,omitempty"`
	Src      int      `json:"src"` // address id the datagram comes from
}

type Step struct {
	Op      string   `json:"op"` // msg | tun | shift | restart | load | burst | remove_race | resp_window | sleep | align
	Msg     *MsgSpec `json:"msg,omitempty"`
	Peer    int      `json:"peer,omitempty"`
	Inner   int      `json:"inner,omitempty"`
	ShiftMs int64    `json:"shift_ms,omitempty"`
	SleepMs int      `json:"sleep_ms,omitempty"`
	On      bool     `json:"on,omitempty"` // load: VerifForceUnderLoad on / off
	K       int      `json:"k,omitempty"`  // burst: number of goroutines calling SendHandshakeInitiation(false) at once
	// resp_window: Msg (a response) is delivered; while its handshake worker is between ConsumeMessageResponse and
	// BeginSymmetricSession, WAct happens: "initiate" (SendHandshakeInitiation(false) for Peer), "shift_initiate"
	// (VerifShiftHandshakeTimes(Peer, ShiftMs) first), "msg" (datagram WMsg goes through another handshake worker)
	WAct string   `json:"wact,omitempty"`
	WMsg *MsgSpec `json:"wmsg,omitempty"`
}

type Scenario struct {
	Gen   string `json:"gen"`
	Steps []Step `json:"steps"`
}

// What was observed, kept in JSON for humans and for the driver's statistics.
type ObsStep struct {
	Op      string   `json:"op"`
	Desc    string   `json:"desc,omitempty"`
	Out     []string `json:"out"`
	Skipped bool     `json:"skipped,omitempty"`
	GapNs   int64    `json:"gap_ns,omitempty"`
	Inits   int      `json:"inits,omitempty"` // burst: initiations that left
}

type Case struct {
	Scenario
	Obs       []ObsStep `json:"obs"`
	Slow      int       `json:"slow"`
	WallMs    int64     `json:"wall_ms"`
	Reruns    int       `json:"reruns"`
	F7Equal   *bool     `json:"f7_equal,omitempty"`
	F7Aligned bool      `json:"f7_aligned,omitempty"`
	F7GapNs   int64     `json:"f7_gap_ns,omitempty"`
	Accepted  int       `json:"accepted"`
	Inert     int       `json:"inert"`
	gallina   string
	discarded bool
}

// ---------------------------------------------------------------- world

const (
	keyDev      = 0
	keyA        = 1
	keyB        = 2
	keyStranger = 3
	keyOther    = 9
	pskNone     = 0
	pskB        = 2
	pskWrong    = 7
)

var fieldCodes = map[string]int64{"type": 0, "sender": 1, "receiver": 2, "ephemeral": 3, "enc_static": 4, "enc_timestamp": 5, "empty": 6, "mac1": 7, "mac2": 8}

// byte ranges of the fields, per kind (init, resp)
func fieldRange(kind string, f int64) (int, int) {
	if kind == "resp" {
		switch f {
		case 0:
			return 0, 4
		case 1:
			return 4, 8
		case 2:
			return 8, 12
		case 3:
			return 12, 44
		case 6:
			return 44, 60
		case 7:
			return 60, 76
		case 8:
			return 76, 92
		}
		return 0, 0
	}
	switch f {
	case 0:
		return 0, 4
	case 1:
		return 4, 8
	case 3:
		return 8, 40
	case 4:
		return 40, 88
	case 5:
		return 88, 116
	case 7:
		return 116, 132
	case 8:
		return 132, 148
	}
	return 0, 0
}

// parker turns the device's log line between ConsumeMessageResponse and BeginSymmetricSession
// ("... - Received handshake response", RoutineHandshake) into a schedule-control point: when armed,
// the handshake worker that logs it waits there (holding no lock) until released.
type parker struct {
	armed   atomic.Bool
	parked  chan struct{}
	release chan struct{}
}

func newParker() *parker {
	return &parker{parked: make(chan struct{}, 1), release: make(chan struct{})}
}

func (k *parker) logger() *device.Logger {
	return &device.Logger{
		Verbosef: func(format string, args ...any) {
			if strings.HasSuffix(format, "Received handshake response") && k.armed.CompareAndSwap(true, false) {
				k.parked <- struct{}{}
				<-k.release
			}
		},
		Errorf: func(format string, args ...any) {},
	}
}

var winStack = make([]byte, 16<<20)

// windowQuiet: like sim.Quiesce, but usable while one handshake worker is parked inside the logger
// callback (its top frame is not a device routine): sim queues and device queues empty and every
// goroutine inside wireguard/device blocked, twice in a row.
func (r *runner) windowQuiet(timeout time.Duration) bool {
	deadline := time.Now().Add(timeout)
	ok := 0
	for ok < 2 {
		idle := r.w.Bind.Idle() && r.w.Tun.Idle()
		if idle {
			e, d, h := r.w.Dev.VerifQueueLens()
			idle = e == 0 && d == 0 && h == 0
		}
		if idle {
			n := runtime.Stack(winStack, true)
			for _, g := range strings.Split(string(winStack[:n]), "\n\n") {
				if !strings.Contains(g, "wireguard/device.") || strings.Contains(g, "main.(*runner).windowQuiet") {
					continue
				}
				hdr := g
				if i := strings.IndexByte(g, '\n'); i >= 0 {
					hdr = g[:i]
				}
				blocked := false
				for _, st := range []string{"[chan receive", "[select", "[sync.WaitGroup.Wait", "[semacquire", "[sync.Cond.Wait", "[sync.RWMutex", "[sync.Mutex"} {
					if strings.Contains(hdr, st) {
						blocked = true
					}
				}
				if !blocked {
					idle = false
					break
				}
			}
		}
		if idle {
			ok++
		} else {
			ok = 0
			if time.Now().After(deadline) {
				return false
			}
			runtime.Gosched()
		}
		time.Sleep(50 * time.Microsecond)
	}
	return true
}

type builtMsg struct {
	bytes []byte
	desc  string // Gallina mk_msg term
	human string
	ist   *ref.InitiatorState // for initiations: to open the device's response
	kind  string
	from  int
}

type devInit struct {
	seq    int
	peer   int
	bytes  []byte
	sender uint32
}

type runner struct {
	w        *cosim.World
	peers    map[int]*cosim.RefPeer // 1, 2 configured
	privs    map[int]ref.Key        // static private keys by id (1,2,3)
	pubs     map[int]ref.Key        // public keys by id (0,1,2,3,9)
	psks     map[int]ref.Key
	addrs    []netip.AddrPort // address id = index (0 unused)
	addrID   map[string]int
	tsBase   uint64
	nsBase   uint32
	built    map[int]*builtMsg
	devInits []devInit
	nextIdx  uint32
	nextEph  int
	lhLast   map[int]string
	lhCount  map[int]int
	park     *parker
	lastAcc  map[int]int64 // harness time of the last accepted initiation per initiator
	removed  map[int]bool
	issued   map[int][]uint32 // every local index the device was seen to issue for a peer (initiation / response sender)
}

func newRunner() (*runner, error) {
	r := &runner{peers: map[int]*cosim.RefPeer{}, privs: map[int]ref.Key{}, pubs: map[int]ref.Key{}, psks: map[int]ref.Key{},
		addrID: map[string]int{}, built: map[int]*builtMsg{}, nextIdx: 0x1000, lhLast: map[int]string{}, lhCount: map[int]int{}, lastAcc: map[int]int64{}, issued: map[int][]uint32{}, removed: map[int]bool{}}
	a := cosim.NewPeer("A", "192.0.2.7:5555", "10.0.0.0/24")
	b := cosim.NewPeer("B", "192.0.2.8:6666", "10.0.1.0/24")
	b.Psk = ref.NewPrivate()
	r.park = newParker()
	w, err := cosim.NewWorldLogger(cosim.Config{Up: true}, true, r.park.logger(), a, b)
	if err != nil {
		return nil, err
	}
	w.Timeout = 3 * time.Second
	r.w = w
	r.peers[keyA], r.peers[keyB] = a, b
	r.privs[keyA], r.privs[keyB], r.privs[keyStranger] = a.Priv, b.Priv, ref.NewPrivate()
	r.pubs[keyDev], r.pubs[keyA], r.pubs[keyB] = w.DevPub, a.Pub, b.Pub
	r.pubs[keyStranger] = ref.PubOf(r.privs[keyStranger])
	r.pubs[keyOther] = ref.PubOf(ref.NewPrivate())
	r.psks[pskNone] = ref.Key{}
	r.psks[pskB] = b.Psk
	r.psks[pskWrong] = ref.NewPrivate()
	r.addrs = []netip.AddrPort{{}, a.Addr, b.Addr, netip.MustParseAddrPort("198.51.100.3:3333"), netip.MustParseAddrPort("198.51.100.4:4444")}
	for i, ap := range r.addrs {
		if i > 0 {
			r.addrID[ap.String()] = i
		}
	}
	now := time.Now()
	r.tsBase = 0x400000000000000a + uint64(now.Unix())
	r.nsBase = 500000000
	return r, nil
}

func (r *runner) pskOf(peer int) int {
	if peer == keyB {
		return pskB
	}
	return pskNone
}

func le32(b []byte, off int) uint32 {
	if len(b) < off+4 {
		return 0
	}
	return binary.LittleEndian.Uint32(b[off:])
}

func (r *runner) latestInit(peer, back int) *devInit {
	n := 0
	for i := len(r.devInits) - 1; i >= 0; i-- {
		if r.devInits[i].peer == peer {
			if n == back {
				return &r.devInits[i]
			}
			n++
		}
	}
	return nil
}

// build realises a message specification as bytes and as a descriptor.
func (r *runner) build(m *MsgSpec) *builtMsg {
	if m.Replay != 0 {
		return r.built[m.Replay] // nil if that message was never built (step dropped while shrinking)
	}
	var bytes []byte
	var ist *ref.InitiatorState
	kindCode, size := 1, ref.InitiationSize
	static, to, psk, ans := m.From, m.To, m.Psk, 0
	var ts [12]byte
	r.nextEph++
	eph := r.nextEph
	switch m.Kind {
	case "init":
		priv, ok := r.privs[m.From]
		if !ok {
			return nil
		}
		if len(m.TsRaw) == 3 {
			ts = ref.Tai64nRaw(uint64(m.TsRaw[0])<<32|uint64(m.TsRaw[1]), m.TsRaw[2])
		} else {
			ts = ref.Tai64nRaw(r.tsBase, uint32(int64(r.nsBase)+m.TsOff))
		}
		r.nextIdx++
		ist = ref.CreateInitiation(priv, ref.NewPrivate(), r.pubs[m.To], r.psks[m.Psk], r.nextIdx, ts)
		bytes = append([]byte{}, ist.Msg...)
		if m.Mac1Key != m.To {
			bytes = ref.AppendMacs(bytes[:116], r.pubs[m.Mac1Key], nil)
		}
	case "resp":
		kindCode, size = 2, ref.ResponseSize
		di := r.latestInit(m.From, m.Ans)
		if di == nil {
			return nil
		}
		rs, err := ref.ConsumeInitiation(di.bytes, r.privs[m.From])
		if err != nil {
			return nil
		}
		r.nextIdx++
		var sess *ref.Session
		bytes, sess = rs.CreateResponse(ref.NewPrivate(), r.psks[m.Psk], r.nextIdx)
		r.peers[m.From].Sessions = append(r.peers[m.From].Sessions, sess)
		if m.Mac1Key != keyDev {
			bytes = ref.AppendMacs(bytes[:60], r.pubs[m.Mac1Key], nil)
		}
		to, ans = 0, di.seq
	case "reflect":
		di := r.latestInit(m.From, m.Ans)
		if di == nil {
			return nil
		}
		bytes = append([]byte{}, di.bytes...)
		static, to, psk = keyDev, m.From, r.pskOf(m.From)
		m.Mac1Key = m.From
		if rs, err := ref.ConsumeInitiation(di.bytes, r.privs[m.From]); err == nil {
			ts = rs.Timestamp
		}
	default:
		return nil
	}
	kindName := m.Kind
	if kindName == "reflect" {
		kindName = "init"
	}
	var gm []string
	for _, mu := range m.Muts {
		switch mu.Op {
		case "flip":
			if int(mu.V/8) < len(bytes) {
				bytes[mu.V/8] ^= 1 << uint(mu.V%8)
			}
			gm = append(gm, fmt.Sprintf("fl %d", mu.V))
		case "subst":
			lo, hi := fieldRange(kindName, mu.V)
			for i := lo; i < hi; i++ {
				bytes[i] ^= 0xa5
			}
			gm = append(gm, fmt.Sprintf("sb %d", mu.V))
		case "type":
			binary.LittleEndian.PutUint32(bytes, uint32(mu.V))
			gm = append(gm, fmt.Sprintf("sty %d", uint32(mu.V)))
		case "sender":
			if le32(bytes, 4) == uint32(mu.V) {
				mu.V++
			}
			binary.LittleEndian.PutUint32(bytes[4:], uint32(mu.V))
			gm = append(gm, "sb 1")
		case "receiver":
			if le32(bytes, 8) == uint32(mu.V) {
				mu.V++
			}
			binary.LittleEndian.PutUint32(bytes[8:], uint32(mu.V))
			gm = append(gm, "sb 2")
		case "receiver_issued":
			// receiver := the V-th index the device ever issued for this peer (session or stale index),
			// never the index of the handshake in progress
			lst := r.issued[m.From]
			di := r.latestInit(m.From, 0)
			if int(mu.V) >= len(lst) || di == nil || lst[mu.V] == di.sender {
				return nil
			}
			binary.LittleEndian.PutUint32(bytes[8:], lst[mu.V])
			gm = append(gm, "sb 2")
		case "receiver_of":
			di := r.latestInit(int(mu.V), 0)
			if di == nil {
				return nil
			}
			binary.LittleEndian.PutUint32(bytes[8:], di.sender)
			gm = append(gm, "sb 2")
		}
	}
	if m.Remac {
		bytes = ref.AppendMacs(bytes[:size-32], r.pubs[m.Mac1Key], nil)
	}
	if m.LenDelta < 0 {
		bytes = bytes[:len(bytes)+m.LenDelta]
	} else if m.LenDelta > 0 {
		bytes = append(bytes, make([]byte, m.LenDelta)...)
	}
	sender, receiver := le32(bytes, 4), uint32(0)
	if kindCode == 2 {
		receiver = le32(bytes, 8)
	}
	if ist != nil {
		ist.SenderIdx = sender // the response will carry whatever index is on the wire
	}
	t0 := binary.BigEndian.Uint32(ts[0:4])
	t1 := binary.BigEndian.Uint32(ts[4:8])
	t2 := binary.BigEndian.Uint32(ts[8:12])
	desc := fmt.Sprintf("(mk_msg %d %d [%s] %v %d %d %d %d %d %d %d %d %d %d %d)", kindCode, len(bytes), strings.Join(gm, ";"), m.Remac,
		m.Mac1Key, sender, receiver, static, to, psk, eph, t0, t1, t2, ans)
	mj, _ := json.Marshal(m)
	b := &builtMsg{bytes: bytes, desc: desc, human: string(mj), ist: ist, kind: kindName, from: m.From}
	r.built[m.Label] = b
	return b
}

// ---------------------------------------------------------------- observation

func (r *runner) peerID(name string) int {
	switch name {
	case "A":
		return keyA
	case "B":
		return keyB
	}
	return 99
}

func (r *runner) describeOut(out cosim.Out, ist *ref.InitiatorState) (gal []string, human []string, oidx uint32, initTs []byte) {
	for _, s := range out.Sent {
		d := r.w.Describe(s)
		to := r.addrID[s.To.String()]
		switch d.Kind {
		case "initiation":
			p := r.peerID(d.OpensAs)
			if d.Mac1Peer != d.OpensAs || !d.Mac2Zero || len(d.Timestamp) != 12 {
				p = 99
				d.Timestamp = make([]byte, 12)
			}
			r.devInits = append(r.devInits, devInit{seq: len(r.devInits) + 1, peer: p, bytes: append([]byte{}, s.Data...), sender: d.Sender})
			gal = append(gal, fmt.Sprintf("oi %d %d %d %d %d %d", to, p, d.Sender,
				binary.BigEndian.Uint32(d.Timestamp[0:4]), binary.BigEndian.Uint32(d.Timestamp[4:8]), binary.BigEndian.Uint32(d.Timestamp[8:12])))
			human = append(human, fmt.Sprintf("initiation to=%d peer=%d sender=%08x ts=%x", to, p, d.Sender, d.Timestamp))
			oidx = d.Sender
			initTs = d.Timestamp
			r.issued[p] = append(r.issued[p], d.Sender)
		case "response":
			p := r.peerID(d.Mac1Peer)
			if !d.Mac2Zero {
				p = 99
			}
			opens := false
			if ist != nil {
				if _, err := ist.ConsumeResponse(s.Data); err == nil {
					opens = true
				}
			}
			r.issued[p] = append(r.issued[p], d.Sender)
			gal = append(gal, fmt.Sprintf("orr %d %d %d %d %v", to, p, d.Sender, d.Receiver, opens))
			human = append(human, fmt.Sprintf("response to=%d peer=%d sender=%08x receiver=%08x opens=%v", to, p, d.Sender, d.Receiver, opens))
			oidx = d.Sender
		case "transport":
			p := 99
			if i := strings.Index(d.OpensAs, "/"); i > 0 {
				p = r.peerID(d.OpensAs[:i])
			}
			gal = append(gal, fmt.Sprintf("ot %d %d %d %d", to, p, d.Receiver, d.Len))
			human = append(human, fmt.Sprintf("transport to=%d peer=%d receiver=%08x len=%d ctr=%d", to, p, d.Receiver, d.Len, d.Counter))
		case "cookie":
			gal = append(gal, fmt.Sprintf("oc %d %d", to, d.Receiver))
			human = append(human, fmt.Sprintf("cookie-reply to=%d receiver=%08x", to, d.Receiver))
		default:
			gal = append(gal, fmt.Sprintf("ot %d 98 %d %d", to, d.TypeWord, d.Len))
			human = append(human, fmt.Sprintf("%s to=%d len=%d", d.Kind, to, d.Len))
		}
	}
	for range out.Written {
		gal = append(gal, "ot 0 97 0 0") // nothing may reach the TUN in these scenarios
		human = append(human, "tun-write")
	}
	return
}

type ipcPeer struct {
	endpoint string
	rx, tx   uint64
	lh       string
}

func (r *runner) ipc() map[string]*ipcPeer {
	res := map[string]*ipcPeer{}
	var cur *ipcPeer
	var sec string
	for _, line := range strings.Split(r.w.Get(), "\n") {
		k, v, ok := strings.Cut(line, "=")
		if !ok {
			continue
		}
		switch k {
		case "public_key":
			cur = &ipcPeer{}
			res[v] = cur
		case "endpoint":
			if cur != nil {
				cur.endpoint = v
			}
		case "rx_bytes":
			if cur != nil {
				cur.rx, _ = strconv.ParseUint(v, 10, 64)
			}
		case "tx_bytes":
			if cur != nil {
				cur.tx, _ = strconv.ParseUint(v, 10, 64)
			}
		case "last_handshake_time_sec":
			sec = v
		case "last_handshake_time_nsec":
			if cur != nil {
				cur.lh = sec + "." + v
			}
		}
	}
	return res
}

func kpInts(k device.VerifKeypair) string {
	if !k.Present {
		return "0;0;0;0"
	}
	i := 0
	if k.IsInitiator {
		i = 1
	}
	return fmt.Sprintf("1;%d;%d;%d", k.LocalIndex, k.RemoteIndex, i)
}

// snapshot renders "[[peer A ints];[peer B ints]] [table]" and a human string.
func (r *runner) snapshot() (string, string) {
	ipc := r.ipc()
	var snaps, hum []string
	for _, id := range []int{keyA, keyB} {
		p := r.peers[id]
		st := r.w.Dev.VerifPeer(cosim.NoisePK(p.Pub))
		ip := ipc[hex.EncodeToString(p.Pub[:])]
		if ip == nil && !st.Found {
			// not configured (any more): invisible through IpcGet and VerifPeer
			snaps = append(snaps, fmt.Sprintf("[%d;0;0;0;0;0;0;0;0;0;0;0;0;0;0;0;0;0;0;0;0;0;0]", id))
			hum = append(hum, fmt.Sprintf("%d:removed", id))
			continue
		}
		if ip == nil {
			ip = &ipcPeer{}
		}
		if ip.lh != r.lhLast[id] {
			if r.lhLast[id] != "" || ip.lh != "0.0" {
				r.lhCount[id]++
			}
			r.lhLast[id] = ip.lh
		}
		ep := r.addrID[ip.endpoint]
		if ip.endpoint != st.Endpoint || ip.rx != st.RxBytes || ip.tx != st.TxBytes {
			ep = 999 // IpcGet and the accessor disagree: force a mismatch
		}
		ts := st.LastTimestamp
		snaps = append(snaps, fmt.Sprintf("[%d;%d;%d;%d;%d;%d;%d;%d;%d;%d;%d;%s;%s;%s]", id, st.HandshakeState, st.HandshakeLocalIndex, st.HandshakeRemoteIndex,
			binary.BigEndian.Uint32(ts[0:4]), binary.BigEndian.Uint32(ts[4:8]), binary.BigEndian.Uint32(ts[8:12]),
			ep, ip.rx, ip.tx, r.lhCount[id], kpInts(st.Previous), kpInts(st.Current), kpInts(st.Next)))
		hum = append(hum, fmt.Sprintf("%d:hs=%d/%08x ts=%x ep=%d rx=%d tx=%d lh=%d slots=%v%v%v", id, st.HandshakeState, st.HandshakeLocalIndex, ts[:], ep, ip.rx, ip.tx, r.lhCount[id],
			st.Previous.Present, st.Current.Present, st.Next.Present))
	}
	var tes []string
	for _, e := range r.w.Dev.VerifIndexTable() {
		pid := 99
		for _, id := range []int{keyA, keyB} {
			if cosim.NoisePK(r.peers[id].Pub) == e.Peer {
				pid = id
			}
		}
		tes = append(tes, fmt.Sprintf("te %d %d %v", e.Index, pid, e.IsHandshake))
	}
	return "[" + strings.Join(snaps, ";") + "] [" + strings.Join(tes, ";") + "]", strings.Join(hum, " | ")
}

// ---------------------------------------------------------------- running a scenario

func runScenario(sc Scenario) (Case, error) {
	c := Case{Scenario: sc}
	r, err := newRunner()
	if err != nil {
		return c, err
	}
	defer r.w.Close()
	t0 := time.Now()
	snap0, _ := r.snapshot()
	var steps []string
	var f7ts [][]byte
	var f7at []int64
	for _, s := range sc.Steps {
		o := ObsStep{Op: s.Op}
		var body string
		var ist *ref.InitiatorState
		var act func()
		switch s.Op {
		case "sleep":
			time.Sleep(time.Duration(s.SleepMs) * time.Millisecond)
			c.Obs = append(c.Obs, o)
			continue
		case "align":
			// wait for the start of a whitening quantum (2^24 ns) of the wall clock
			for time.Now().Nanosecond()&(1<<24-1) > 1<<19 {
			}
			c.Obs = append(c.Obs, o)
			continue
		case "msg":
			b := r.build(s.Msg)
			if b == nil {
				o.Skipped = true
				c.Obs = append(c.Obs, o)
				continue
			}
			ist = b.ist
			o.Desc = b.human
			body = fmt.Sprintf("(bm %d %s)", s.Msg.Src, b.desc)
			src := r.addrs[s.Msg.Src]
			data := b.bytes
			act = func() { r.w.Bind.Inject(sim.Dgram{From: src, Data: data}) }
		case "tun":
			dst := [4]byte{10, 0, byte(s.Peer - 1), 77}
			pkt := ref.IPv4([4]byte{10, 9, 9, 9}, dst, s.Inner, 1)
			body = fmt.Sprintf("(bt %d %d)", s.Peer, s.Inner)
			act = func() { r.w.Tun.Inject(pkt) }
		case "shift":
			body = fmt.Sprintf("(bs %d %d)", s.Peer, s.ShiftMs*1000000)
			pk := cosim.NoisePK(r.pubs[s.Peer])
			d := time.Duration(s.ShiftMs) * time.Millisecond
			act = func() { r.w.Dev.VerifShiftHandshakeTimes(pk, d) }
		case "restart":
			body = "br"
			act = func() { r.w.Dev.Down(); r.w.Dev.Up() }
		case "burst":
			// K goroutines released together call SendHandshakeInitiation(false) the way the timer
			// callbacks do (hook of the C07 check); the write-locked re-check must let exactly one through
			k := s.K
			if k < 1 {
				k = 1
			}
			body = fmt.Sprintf("(bi %d %d)", s.Peer, k)
			pk := cosim.NoisePK(r.pubs[s.Peer])
			act = func() {
				var gate atomic.Bool
				var ready, done sync.WaitGroup
				for i := 0; i < k; i++ {
					ready.Add(1)
					done.Add(1)
					go func() {
						defer done.Done()
						ready.Done()
						for !gate.Load() {
						}
						r.w.Dev.VerifC07SendHandshakeInitiation(pk, false)
					}()
				}
				ready.Wait()
				time.Sleep(50 * time.Microsecond)
				gate.Store(true)
				done.Wait()
			}
		case "remove_race":
			// RemovePeer while the peer's retransmit-handshake timer callback is already running,
			// parked on the static identity as during a private_key update.  Needs the C06 hooks
			// (looked up by name so that the harness also builds against a tree without them).
			dv := reflect.ValueOf(r.w.Dev)
			hold, fire := dv.MethodByName("VerifC06HoldIdentity"), dv.MethodByName("VerifC06FireRetransmit")
			if !hold.IsValid() || !fire.IsValid() || r.removed[s.Peer] {
				o.Skipped = true
				c.Obs = append(c.Obs, o)
				continue
			}
			body = fmt.Sprintf("(brr %d)", s.Peer)
			pk := cosim.NoisePK(r.pubs[s.Peer])
			r.removed[s.Peer] = true
			act = func() {
				release := hold.Call(nil)[0].Interface().(func())
				fire.Call([]reflect.Value{reflect.ValueOf(pk)})
				// the callback has passed the spacing test (lastSentHandshake = now) and waits for the identity
				parked := false
				for i := 0; i < 2000 && !parked; i++ {
					parked = r.w.Dev.VerifC07Extra(pk).LastSentAgeNanos < int64(time.Second)
					if !parked {
						time.Sleep(50 * time.Microsecond)
					}
				}
				if !parked {
					c.Slow++ // the timer callback did not get going in 100 ms: the scenario is rerun
				}
				time.Sleep(300 * time.Microsecond)
				done := make(chan struct{})
				go func() { r.w.Dev.RemovePeer(pk); close(done) }()
				time.Sleep(3 * time.Millisecond) // Stop is now waiting for the callback (or has already wiped, if the order is wrong)
				release()
				<-done
			}
		case "resp_window":
			if s.Msg == nil {
				return c, fmt.Errorf("resp_window without msg")
			}
			b := r.build(s.Msg)
			var wb *builtMsg
			if b != nil && s.WAct == "msg" && s.WMsg != nil {
				wb = r.build(s.WMsg)
			}
			if b == nil || (s.WAct == "msg" && wb == nil) {
				o.Skipped = true
				c.Obs = append(c.Obs, o)
				continue
			}
			o.Desc = b.human
			var wdesc string
			var inwin func()
			switch s.WAct {
			case "initiate", "shift_initiate":
				pk := cosim.NoisePK(r.pubs[s.Peer])
				d := time.Duration(s.ShiftMs) * time.Millisecond
				if s.WAct == "initiate" {
					wdesc = fmt.Sprintf("(wi %d 1)", s.Peer)
				} else {
					wdesc = fmt.Sprintf("(wsi %d %d)", s.Peer, s.ShiftMs*1000000)
				}
				shift := s.WAct == "shift_initiate"
				inwin = func() {
					if shift {
						r.w.Dev.VerifShiftHandshakeTimes(pk, d)
					}
					r.w.Dev.VerifC07SendHandshakeInitiation(pk, false)
				}
			case "msg":
				ist = wb.ist
				o.Desc += " || in window: " + wb.human
				wdesc = fmt.Sprintf("(wm %d %s)", s.WMsg.Src, wb.desc)
				wsrc, wdata := r.addrs[s.WMsg.Src], wb.bytes
				inwin = func() { r.w.Bind.Inject(sim.Dgram{From: wsrc, Data: wdata}) }
			default:
				return c, fmt.Errorf("unknown wact %q", s.WAct)
			}
			body = fmt.Sprintf("(bw %d %s %s)", s.Msg.Src, b.desc, wdesc)
			src, data := r.addrs[s.Msg.Src], b.bytes
			act = func() {
				r.park.armed.Store(true)
				r.w.Bind.Inject(sim.Dgram{From: src, Data: data})
				deadline := time.Now().Add(200 * time.Millisecond)
				for {
					select {
					case <-r.park.parked:
						// the worker sits between ConsumeMessageResponse and BeginSymmetricSession
						if !r.windowQuiet(100 * time.Millisecond) {
							c.Slow++
						}
						inwin()
						if !r.windowQuiet(200 * time.Millisecond) {
							c.Slow++
						}
						r.park.release <- struct{}{}
						return
					default:
					}
					// quiescent without having parked: the response was not consumable; sequential step
					if sim.Quiesce(r.w.Dev, r.w.Bind, r.w.Tun, time.Millisecond) && r.park.armed.CompareAndSwap(true, false) {
						inwin()
						return
					}
					if time.Now().After(deadline) {
						if r.park.armed.CompareAndSwap(true, false) {
							c.Slow++
							inwin()
							return
						}
						// the worker took the flag just now: it is about to park
						deadline = time.Now().Add(200 * time.Millisecond)
					}
				}
			}
		case "load":
			body = fmt.Sprintf("(bl %v)", s.On)
			d := time.Duration(0)
			if s.On {
				d = 30 * time.Second
			}
			act = func() { r.w.Dev.VerifForceUnderLoad(d) }
		default:
			return c, fmt.Errorf("unknown op %q", s.Op)
		}
		lo := time.Now().UnixNano()
		act()
		out := r.w.Take()
		hi := time.Now().UnixNano()
		// A step that did not settle, or took longer than 15 ms (which would make the [5 ms, 40 ms]
		// ambiguity window of the 20 ms flood gap unsound), invalidates the scenario: it is rerun.
		if !out.Settled || ((s.Op == "msg" || s.Op == "resp_window") && hi-lo > 15000000) {
			c.Slow++
		}
		gal, hum, oidx, its := r.describeOut(out, ist)
		if its != nil {
			f7ts = append(f7ts, its)
			f7at = append(f7at, lo)
		}
		if s.Op == "burst" {
			for _, h := range hum {
				if strings.HasPrefix(h, "initiation") {
					o.Inits++
				}
			}
		}
		if s.Op == "msg" && s.Msg.Kind == "init" {
			o.GapNs = lo - r.lastAcc[s.Msg.From]
			if len(out.Sent) > 0 {
				r.lastAcc[s.Msg.From] = lo
			}
		}
		if s.Op == "resp_window" && s.WAct == "msg" && s.WMsg.Kind == "init" {
			for _, h := range hum {
				if strings.HasPrefix(h, "response") {
					r.lastAcc[s.WMsg.From] = lo
				}
			}
		}
		if s.Op == "msg" || s.Op == "resp_window" {
			acc := false
			for _, h := range hum {
				if strings.HasPrefix(h, "response") || strings.HasPrefix(h, "transport") {
					acc = true
				}
			}
			if acc {
				c.Accepted++
			} else {
				c.Inert++
			}
		}
		snap, hsnap := r.snapshot()
		o.Out = append(hum, hsnap)
		c.Obs = append(c.Obs, o)
		steps = append(steps, fmt.Sprintf("cs %d %d %d %s (ob [%s] %s)", lo, hi, oidx, body, strings.Join(gal, ";"), snap))
	}
	c.WallMs = time.Since(t0).Milliseconds()
	if sc.Gen == "f7-restart" && len(f7ts) >= 2 {
		eq := string(f7ts[0]) == string(f7ts[1])
		c.F7Equal = &eq
		c.F7Aligned = sc.Steps[0].Op == "align"
		c.F7GapNs = f7at[1] - f7at[0]
	}
	cfg := fmt.Sprintf("[pc %d %d %d; pc %d %d %d]", keyA, pskNone, 1, keyB, pskB, 2)
	c.gallina = fmt.Sprintf("mk_case %s %d (ob [] %s) [\n  %s]", cfg, t0.UnixNano(), snap0, strings.Join(steps, ";\n  "))
	return c, nil
}

// ---------------------------------------------------------------- generators

type gen struct {
	r     *rand.Rand
	label int
	tsOff int64
}

func (g *gen) msg(kind string, from int) *MsgSpec {
	g.label++
	m := &MsgSpec{Kind: kind, Label: g.label, From: from, To: keyDev, Mac1Key: keyDev, Src: from}
	if from == keyB {
		m.Psk = pskB
	}
	if from == keyStranger {
		m.Src = 3
	}
	if kind == "init" {
		g.tsOff += 1 + int64(g.r.Intn(1000))
		m.TsOff = g.tsOff
	}
	return m
}

func (g *gen) peer() int { return keyA + g.r.Intn(2) }

func stepMsg(m *MsgSpec) Step        { return Step{Op: "msg", Msg: m} }
func stepShift(p int, ms int64) Step { return Step{Op: "shift", Peer: p, ShiftMs: ms} }
func stepTun(p, inner int) Step      { return Step{Op: "tun", Peer: p, Inner: inner} }
func stepSleep(ms int) Step          { return Step{Op: "sleep", SleepMs: ms} }
func replayOf(g *gen, m *MsgSpec, src int) *MsgSpec {
	g.label++
	return &MsgSpec{Kind: m.Kind, Label: g.label, Replay: m.Label, From: m.From, Src: src}
}

// one alteration of a message of the given kind; returns a short name
func (g *gen) alter(m *MsgSpec) string {
	kind := m.Kind
	size := 148
	fields := []string{"sender", "ephemeral", "enc_static", "enc_timestamp", "mac1", "mac2"}
	if kind == "resp" {
		size = 92
		fields = []string{"sender", "receiver", "ephemeral", "empty", "mac1", "mac2"}
	}
	switch x := g.r.Intn(100); {
	case x < 30:
		m.Muts = append(m.Muts, Mut{"flip", int64(g.r.Intn(size * 8))})
		return "flip"
	case x < 45:
		d := []int{-3, -2, -1, 1, 2, 3}[g.r.Intn(6)]
		m.LenDelta = d
		return "len"
	case x < 60:
		f := fields[g.r.Intn(len(fields))]
		m.Muts = append(m.Muts, Mut{"subst", fieldCodes[f]})
		return "subst-" + f
	case x < 72:
		f := fields[g.r.Intn(len(fields))]
		m.Muts = append(m.Muts, Mut{"subst", fieldCodes[f]})
		m.Remac = true
		return "subst-remac-" + f
	case x < 82:
		tys := []int64{0, 1, 2, 3, 4, 5, 0x101, 0x01000001, 0xffffffff}
		t := tys[g.r.Intn(len(tys))]
		if (kind == "init" && t == 1) || (kind == "resp" && t == 2) {
			t = 5
		}
		m.Muts = append(m.Muts, Mut{"type", t})
		m.Remac = g.r.Intn(2) == 0
		return "type"
	case x < 90:
		m.Mac1Key = []int{keyA, keyB, keyOther}[g.r.Intn(3)]
		return "mac1-for-other-key"
	default:
		if kind == "init" {
			m.To = keyOther
			m.Mac1Key = keyDev
			return "addressed-to-other-with-device-mac1"
		}
		m.Psk = pskWrong
		return "wrong-psk"
	}
}

// Altered initiations around a valid exchange; the valid message afterwards must still be accepted.
func (g *gen) initMutations() Scenario {
	p := g.peer()
	var st []Step
	if g.r.Intn(2) == 0 {
		st = append(st, stepMsg(g.msg("init", p)), stepShift(p, 1000))
	}
	n := 3 + g.r.Intn(6)
	for i := 0; i < n; i++ {
		m := g.msg("init", p)
		g.alter(m)
		if g.r.Intn(4) == 0 {
			m.Src = 3 + g.r.Intn(2)
		}
		st = append(st, stepMsg(m), stepShift(p, 1000))
	}
	v := g.msg("init", p)
	v.Src = 3
	st = append(st, stepMsg(v), stepMsg(replayOf(g, v, 4)))
	return Scenario{Gen: "init-mutations", Steps: st}
}

func (g *gen) respMutations() Scenario {
	p := g.peer()
	st := []Step{stepTun(p, 60+g.r.Intn(100))}
	n := 3 + g.r.Intn(6)
	for i := 0; i < n; i++ {
		m := g.msg("resp", p)
		name := g.alter(m)
		if g.r.Intn(4) == 0 {
			m.Src = 3 + g.r.Intn(2)
		}
		st = append(st, stepMsg(m))
		if strings.HasSuffix(name, "mac2") || strings.HasSuffix(name, "sender") && m.Remac {
			break // accepted: the handshake is over
		}
	}
	v := g.msg("resp", p)
	v.Src = 3
	st = append(st, stepMsg(v), stepMsg(replayOf(g, v, 4)), stepMsg(g.msg("resp", p)))
	return Scenario{Gen: "resp-mutations", Steps: st}
}

// bit flips at the given positions
func (g *gen) flipsInit(bits []int) Scenario {
	p := g.peer()
	var st []Step
	for _, b := range bits {
		m := g.msg("init", p)
		m.Muts = []Mut{{"flip", int64(b)}}
		st = append(st, stepMsg(m), stepShift(p, 1000))
	}
	st = append(st, stepMsg(g.msg("init", p)))
	return Scenario{Gen: "flips-init", Steps: st}
}

func (g *gen) flipsResp(bits []int) Scenario {
	p := g.peer()
	st := []Step{stepTun(p, 80)}
	for _, b := range bits {
		m := g.msg("resp", p)
		m.Muts = []Mut{{"flip", int64(b)}}
		st = append(st, stepMsg(m))
	}
	st = append(st, stepMsg(g.msg("resp", p)))
	return Scenario{Gen: "flips-resp", Steps: st}
}

func (g *gen) lengths() Scenario {
	p := g.peer()
	st := []Step{stepTun(p, 80)}
	for d := -3; d <= 3; d++ {
		if d == 0 {
			continue
		}
		mi := g.msg("init", p)
		mi.LenDelta = d
		mi.Remac = g.r.Intn(2) == 0
		mr := g.msg("resp", p)
		mr.LenDelta = d
		st = append(st, stepMsg(mi), stepMsg(mr))
	}
	st = append(st, stepMsg(g.msg("init", p)), stepMsg(g.msg("resp", p)))
	return Scenario{Gen: "lengths", Steps: st}
}

func (g *gen) substitutions() Scenario {
	p := g.peer()
	st := []Step{stepTun(p, 80)}
	for _, f := range []string{"sender", "ephemeral", "enc_static", "enc_timestamp", "mac1", "mac2"} {
		for _, remac := range []bool{false, true} {
			m := g.msg("init", p)
			m.Muts = []Mut{{"subst", fieldCodes[f]}}
			m.Remac = remac
			st = append(st, stepMsg(m), stepShift(p, 1000))
		}
	}
	for _, f := range []string{"sender", "receiver", "ephemeral", "empty", "mac1"} {
		for _, remac := range []bool{false, true} {
			if f == "sender" && remac {
				continue
			}
			m := g.msg("resp", p)
			m.Muts = []Mut{{"subst", fieldCodes[f]}}
			m.Remac = remac
			st = append(st, stepMsg(m))
		}
	}
	for _, t := range []int64{0, 2, 3, 4, 5, 257} {
		m := g.msg("init", p)
		m.Muts = []Mut{{"type", t}}
		m.Remac = true
		st = append(st, stepMsg(m))
	}
	for _, t := range []int64{0, 1, 3, 4, 6, 258} {
		m := g.msg("resp", p)
		m.Muts = []Mut{{"type", t}}
		m.Remac = true
		st = append(st, stepMsg(m))
	}
	last := g.msg("resp", p)
	if g.r.Intn(2) == 0 {
		last.Muts = []Mut{{"subst", fieldCodes["mac2"]}}
	} else {
		last.Muts = []Mut{{"sender", int64(g.r.Uint32())}}
		last.Remac = true
	}
	st = append(st, stepMsg(last))
	return Scenario{Gen: "substitutions", Steps: st}
}

func (g *gen) timestamps() Scenario {
	p := g.peer()
	base := g.msg("init", p)
	base.TsOff = 5000
	st := []Step{stepMsg(base), stepShift(p, 1000)}
	offs := []int64{4999, 5000, 0, -100000, 5001, 5001, 5000, 1 << 24, 1<<24 - 1, 1<<24 + 1, 6000}
	g.r.Shuffle(len(offs), func(i, j int) { offs[i], offs[j] = offs[j], offs[i] })
	for _, o := range offs[:6+g.r.Intn(5)] {
		m := g.msg("init", p)
		m.TsOff = o
		st = append(st, stepMsg(m), stepShift(p, 1000))
	}
	raws := [][]uint32{{0, 0, 0}, {0x40000000, 0, 0}, {0xffffffff, 0xffffffff, 0xffffffff}, {0x7fffffff, 0xffffffff, 999999999}, {0xffffffff, 0xffffffff, 0xfffffffe}}
	for _, i := range g.r.Perm(len(raws))[:3] {
		m := g.msg("init", p)
		m.TsRaw = raws[i]
		st = append(st, stepMsg(m), stepShift(p, 1000))
	}
	g.tsOff = 1 << 25
	return Scenario{Gen: "timestamps", Steps: st}
}

func (g *gen) flood() Scenario {
	p := g.peer()
	m1, m2, m3 := g.msg("init", p), g.msg("init", p), g.msg("init", p)
	st := []Step{stepMsg(m1), stepMsg(m2), stepSleep(60), stepMsg(replayOf(g, m2, 3)), stepMsg(m3)}
	if g.r.Intn(2) == 0 {
		st = append(st, stepSleep(60), stepMsg(replayOf(g, m3, 4)), stepMsg(replayOf(g, m1, 3)))
	} else {
		st = append(st, stepShift(p, 30), stepMsg(replayOf(g, m3, 4)))
	}
	return Scenario{Gen: "flood", Steps: st}
}

func (g *gen) superseded() Scenario {
	p := g.peer()
	q := 3 - p
	st := []Step{stepTun(p, 80), stepTun(p, 64), stepShift(p, 6000), stepTun(p, 100)}
	old := g.msg("resp", p)
	old.Ans = 1
	st = append(st, stepMsg(old))
	if g.r.Intn(2) == 0 {
		st = append(st, stepTun(q, 90))
		x := g.msg("resp", p)
		x.Muts = []Mut{{"receiver_of", int64(q)}}
		x.Remac = true
		st = append(st, stepMsg(x))
	}
	if g.r.Intn(3) == 0 {
		// an initiation from the peer supersedes the device's own handshake
		st = append(st, stepMsg(g.msg("init", p)), stepMsg(g.msg("resp", p)))
		return Scenario{Gen: "superseded-by-peer-initiation", Steps: st}
	}
	good := g.msg("resp", p)
	st = append(st, stepMsg(good), stepMsg(replayOf(g, good, 3)), stepMsg(replayOf(g, old, 3)), stepMsg(g.msg("resp", p)), stepTun(p, 70))
	rf := g.msg("reflect", p)
	st = append(st, stepMsg(rf))
	return Scenario{Gen: "superseded", Steps: st}
}

// An event inside the response-processing window of a handshake worker (between
// ConsumeMessageResponse and BeginSymmetricSession), then the follow-ups the property's clauses judge.
func (g *gen) respWindow(variant int) Scenario {
	p := g.peer()
	q := 3 - p
	var st []Step
	var j0 *MsgSpec
	withJ0 := variant == 3 || g.r.Intn(3) == 0
	if withJ0 {
		// the peer's initiation answered earlier (responder session in next), then the device's own initiation
		j0 = g.msg("init", p)
		st = append(st, stepMsg(j0), stepShift(p, 6000))
	}
	st = append(st, stepTun(p, 64+g.r.Intn(60)))
	if g.r.Intn(4) == 0 {
		st = append(st, stepShift(p, 6000), stepTun(p, 70)) // a superseded initiation behind the pending one
	}
	r1 := g.msg("resp", p)
	w := Step{Op: "resp_window", Msg: r1}
	name := ""
	switch variant {
	case 0:
		w.WAct, w.Peer, w.ShiftMs, name = "shift_initiate", p, 6000, "new-initiation"
	case 1:
		w.WAct, w.Peer, name = "initiate", p, "initiation-suppressed"
	case 2:
		if withJ0 {
			st = append(st, stepSleep(45))
		}
		w.WAct, w.WMsg, name = "msg", g.msg("init", p), "peer-initiation"
	case 3:
		j := g.msg("init", p)
		if g.r.Intn(2) == 0 {
			j = replayOf(g, j0, 3)
		} else {
			j.TsOff = j0.TsOff - int64(g.r.Intn(2))
		}
		w.WAct, w.WMsg, name = "msg", j, "peer-initiation-replayed-or-older"
	case 4:
		w.WAct, w.WMsg, name = "msg", g.msg("init", q), "other-peer-initiation"
	case 5:
		w.WAct, w.Peer, w.ShiftMs, name = "shift_initiate", q, 6000, "other-peer-new-initiation"
	default:
		w.WAct, w.WMsg, name = "msg", g.msg("resp", p), "second-response"
	}
	st = append(st, w)
	// follow-ups: the answer to the most recent initiation, replays, every issued index, a fresh initiation, data
	r2 := g.msg("resp", p)
	st = append(st, stepMsg(r2), stepMsg(replayOf(g, r1, 3)), stepMsg(replayOf(g, r2, p)))
	for i := 0; i < 4; i++ {
		x := g.msg("resp", p)
		x.Muts = []Mut{{"receiver_issued", int64(i)}}
		x.Remac = true
		st = append(st, stepMsg(x))
	}
	st = append(st, stepTun(p, 70), stepSleep(45), stepMsg(g.msg("init", p)), stepMsg(g.msg("resp", p)), stepTun(p, 90))
	return Scenario{Gen: "response-window-" + name, Steps: st}
}

func (g *gen) strangers() Scenario {
	p := g.peer()
	st := []Step{stepMsg(g.msg("init", keyStranger))}
	w := g.msg("init", p)
	w.Psk = pskWrong
	st = append(st, stepMsg(w), stepShift(p, 1000))
	o := g.msg("init", p)
	o.To, o.Mac1Key = keyOther, keyOther
	st = append(st, stepMsg(o))
	o2 := g.msg("init", p)
	o2.To, o2.Mac1Key = keyOther, keyDev
	st = append(st, stepMsg(o2))
	o3 := g.msg("init", p)
	o3.Mac1Key = p
	st = append(st, stepMsg(o3), stepTun(p, 80))
	st = append(st, stepMsg(g.msg("reflect", p)))
	wr := g.msg("resp", p)
	wr.Psk = pskWrong
	st = append(st, stepMsg(wr), stepMsg(g.msg("resp", p)))
	return Scenario{Gen: "strangers", Steps: st}
}

// random mixture of everything (no restarts)
func (g *gen) mixture() Scenario {
	var st []Step
	var sent []*MsgSpec
	loadOn := false
	n := 10 + g.r.Intn(15)
	for i := 0; i < n; i++ {
		p := g.peer()
		switch x := g.r.Intn(100); {
		case x < 22:
			m := g.msg("init", p)
			if g.r.Intn(3) == 0 {
				m.TsOff -= int64(g.r.Intn(3000))
			}
			sent = append(sent, m)
			st = append(st, stepMsg(m))
		case x < 34:
			m := g.msg("init", p)
			g.alter(m)
			sent = append(sent, m)
			st = append(st, stepMsg(m))
		case x < 46:
			st = append(st, stepTun(p, 40+g.r.Intn(200)))
		case x < 58:
			m := g.msg("resp", p)
			m.Ans = g.r.Intn(2) * g.r.Intn(2)
			sent = append(sent, m)
			st = append(st, stepMsg(m))
		case x < 66:
			m := g.msg("resp", p)
			g.alter(m)
			sent = append(sent, m)
			st = append(st, stepMsg(m))
		case x < 80:
			if len(sent) > 0 {
				st = append(st, stepMsg(replayOf(g, sent[g.r.Intn(len(sent))], 1+g.r.Intn(4))))
			}
		case x < 92:
			st = append(st, stepShift(p, []int64{1000, 1000, 6000, 6000, 100}[g.r.Intn(5)]))
		case x < 94:
			st = append(st, stepSleep(60))
		case x < 97:
			loadOn = !loadOn
			st = append(st, Step{Op: "load", On: loadOn})
		default:
			st = append(st, stepMsg(g.msg("reflect", p)))
		}
	}
	return Scenario{Gen: "mixture", Steps: st}
}

// Finding F7 black-box: TUN packet -> initiation; Down; Up; TUN packet -> second initiation.
// aligned: the round starts at the beginning of a 16.7 ms whitening quantum.
// MAC1-invalid class only (what must stay silent even under load): covered bit flips,
// covered field substitution without re-MAC, MAC1 for another key, length change, foreign type.
func (g *gen) alterMac1Invalid(m *MsgSpec) {
	size := 148
	fields := []string{"sender", "ephemeral", "enc_static", "enc_timestamp", "mac1"}
	if m.Kind == "resp" {
		size = 92
		fields = []string{"sender", "receiver", "ephemeral", "empty", "mac1"}
	}
	switch x := g.r.Intn(100); {
	case x < 50:
		m.Muts = append(m.Muts, Mut{"flip", int64(g.r.Intn((size - 16) * 8))})
	case x < 60:
		m.Muts = append(m.Muts, Mut{"flip", int64((size-32)*8 + g.r.Intn(128))}) // MAC1 itself
	case x < 72:
		m.Muts = append(m.Muts, Mut{"subst", fieldCodes[fields[g.r.Intn(len(fields))]]})
	case x < 82:
		m.LenDelta = []int{-3, -2, -1, 1, 2, 3}[g.r.Intn(6)]
		m.Remac = g.r.Intn(2) == 0
	case x < 92:
		m.Mac1Key = []int{keyA, keyB, keyOther}[g.r.Intn(3)]
	default:
		m.Muts = append(m.Muts, Mut{"type", []int64{0, 3, 4, 5, 0x101}[g.r.Intn(5)]})
		m.Remac = g.r.Intn(2) == 0
	}
}

// Under load a message that cannot show a valid MAC1 must still draw nothing (not even a
// cookie reply); the unaltered message draws exactly a cookie reply (load is real), and is
// accepted once the load is gone.
func (g *gen) underLoad() Scenario {
	p := g.peer()
	var st []Step
	if g.r.Intn(2) == 0 {
		st = append(st, stepMsg(g.msg("init", p)), stepShift(p, 1000))
	}
	withResp := g.r.Intn(2) == 0
	if withResp {
		st = append(st, stepTun(p, 80))
	}
	st = append(st, Step{Op: "load", On: true})
	n := 6 + g.r.Intn(8)
	for i := 0; i < n; i++ {
		kind := "init"
		if withResp && g.r.Intn(2) == 0 {
			kind = "resp"
		}
		m := g.msg(kind, p)
		g.alterMac1Invalid(m)
		m.Src = 1 + g.r.Intn(4)
		st = append(st, stepMsg(m))
	}
	v := g.msg("init", p)
	v.Src = 3
	st = append(st, stepMsg(v))
	if withResp {
		st = append(st, stepMsg(g.msg("resp", p)))
	}
	if g.r.Intn(3) == 0 {
		x := g.msg("init", p)
		x.Muts = []Mut{{"subst", fieldCodes["enc_timestamp"]}}
		x.Remac = true
		st = append(st, stepMsg(x)) // valid MAC1: cookie reply is legitimate (C10), not flagged
	}
	st = append(st, Step{Op: "load", On: false}, stepShift(p, 1000), stepMsg(replayOf(g, v, 4)))
	if withResp {
		st = append(st, stepMsg(g.msg("resp", p)))
	}
	return Scenario{Gen: "under-load", Steps: st}
}

// Receive side across Down/Up: handshake.Clear must not forget the greatest accepted timestamp.
func (g *gen) restartReplay() Scenario {
	p := g.peer()
	q := 3 - p
	m1 := g.msg("init", p)
	m1.TsOff = 5000
	st := []Step{stepMsg(m1)}
	if g.r.Intn(2) == 0 {
		st = append(st, stepTun(q, 80)) // a handshake of the device toward the other peer is in progress
	}
	st = append(st, Step{Op: "restart"})
	if g.r.Intn(2) == 0 {
		st = append(st, stepSleep(60))
	} else {
		st = append(st, stepShift(p, 1000))
	}
	st = append(st, stepMsg(replayOf(g, m1, 1+g.r.Intn(4))))
	offs := []int64{4999, 5000, 0, 5000 - 1<<24}
	g.r.Shuffle(len(offs), func(i, j int) { offs[i], offs[j] = offs[j], offs[i] })
	for _, o := range offs[:2+g.r.Intn(3)] {
		m := g.msg("init", p)
		m.TsOff = o
		m.Src = 1 + g.r.Intn(4)
		st = append(st, stepShift(p, 1000), stepMsg(m))
	}
	st = append(st, stepMsg(g.msg("resp", q))) // answers the initiation from before the restart: handshake was cleared
	m2 := g.msg("init", p)
	m2.TsOff = 5001 + int64(g.r.Intn(100))
	m2.Src = 3
	st = append(st, stepShift(p, 1000), stepMsg(m2), Step{Op: "restart"}, stepShift(p, 1000),
		stepMsg(replayOf(g, m2, 4)), stepShift(p, 1000), stepMsg(replayOf(g, m1, 1)))
	m3 := g.msg("init", p)
	m3.TsOff = 6000
	st = append(st, stepShift(p, 1000), stepMsg(m3))
	g.tsOff = 7000
	return Scenario{Gen: "restart-replay", Steps: st}
}

// A response whose receiver field is any index the device has issued for the peer other than
// the handshake in progress (a session index, or a deleted one), MAC1 recomputed: not addressed
// to a handshake in progress.
func (g *gen) sessionIndex() Scenario {
	p := g.peer()
	var st []Step
	probe := func(n int) {
		for i := 0; i < n; i++ {
			m := g.msg("resp", p)
			m.Muts = []Mut{{"receiver_issued", int64(i)}}
			m.Remac = true
			m.Src = 1 + g.r.Intn(4)
			st = append(st, stepMsg(m))
		}
	}
	if g.r.Intn(2) == 0 {
		// the device is responder first: session index in the `next` slot, then its own initiation
		st = append(st, stepMsg(g.msg("init", p)), stepShift(p, 6000), stepTun(p, 80))
		probe(2)
		st = append(st, stepMsg(g.msg("resp", p)))
	} else {
		st = append(st, stepTun(p, 80), stepMsg(g.msg("resp", p)))
	}
	// rekey while a session exists (the timer / keep-fresh callers, through the hook)
	for round := 0; round < 1+g.r.Intn(2); round++ {
		st = append(st, stepShift(p, 6000), Step{Op: "burst", Peer: p, K: 1})
		probe(3 + round)
		if g.r.Intn(3) == 0 {
			x := g.msg("resp", p)
			x.Muts = []Mut{{"receiver", int64(g.r.Uint32())}}
			x.Remac = true
			st = append(st, stepMsg(x))
		}
		good := g.msg("resp", p)
		st = append(st, stepMsg(good), stepMsg(replayOf(g, good, 3)))
	}
	probe(4)
	return Scenario{Gen: "session-index", Steps: st}
}

// Concurrent callers of SendHandshakeInitiation: exactly one initiation per round may leave.
func (g *gen) bursts() Scenario {
	p := g.peer()
	var st []Step
	for i := 0; i < 12; i++ {
		if i > 0 {
			st = append(st, stepShift(p, 6000))
		}
		st = append(st, Step{Op: "burst", Peer: p, K: 4 + g.r.Intn(9)})
		if g.r.Intn(4) == 0 {
			st = append(st, Step{Op: "burst", Peer: p, K: 3}) // inside RekeyTimeout: nothing leaves
		}
	}
	st = append(st, stepMsg(g.msg("resp", p)))
	return Scenario{Gen: "concurrent-initiations", Steps: st}
}

// A sender that crafts increasing timestamps and fires valid initiations back to back: after
// the first is answered, the ones that follow inside 1/50 s must be dropped (one at a time, each
// after the device has settled: no two of them race through different handshake workers).
func (g *gen) rapidFire() Scenario { return g.rapidFireOpt(false) }

// The same with a Down/Up right after the answered initiation: the flood limit
// (lastInitiationConsumption) must survive Peer.Stop/Start like lastTimestamp does.
func (g *gen) rapidFireAcrossRestart() Scenario { return g.rapidFireOpt(true) }

func (g *gen) rapidFireOpt(restart bool) Scenario {
	p := g.peer()
	var st []Step
	if g.r.Intn(2) == 0 {
		st = append(st, stepMsg(g.msg("init", p)), stepSleep(60))
	}
	first := g.msg("init", p)
	st = append(st, stepMsg(first))
	name := "rapid-fire"
	if restart {
		st = append(st, Step{Op: "restart"})
		name = "rapid-fire-across-restart"
	}
	var burst []*MsgSpec
	for i := 0; i < 2+g.r.Intn(4); i++ {
		m := g.msg("init", p)
		m.Src = 1 + g.r.Intn(4)
		burst = append(burst, m)
		st = append(st, stepMsg(m))
	}
	last := burst[len(burst)-1]
	st = append(st, stepSleep(60), stepMsg(replayOf(g, last, 3)), stepMsg(g.msg("init", p)), stepMsg(replayOf(g, burst[0], 4)))
	return Scenario{Gen: name, Steps: st}
}

// A peer is removed while one of its handshake timer callbacks is in flight; afterwards no
// handshake of that peer is in progress: a response to the initiation that callback put on the
// wire, and anything else from that peer, must change nothing.
func (g *gen) removalRace() Scenario {
	p := g.peer()
	q := 3 - p
	st := []Step{stepTun(p, 80)}
	if g.r.Intn(2) == 0 {
		st = append(st, stepMsg(g.msg("resp", p)))
	}
	st = append(st, stepMsg(g.msg("init", q)), stepShift(p, 6000), Step{Op: "remove_race", Peer: p})
	good := g.msg("resp", p)
	good.Src = 1 + g.r.Intn(4)
	st = append(st, stepMsg(good), stepMsg(replayOf(g, good, 3)))
	for i := 0; i < 3; i++ {
		m := g.msg("resp", p)
		m.Muts = []Mut{{"receiver_issued", int64(i)}}
		m.Remac = true
		st = append(st, stepMsg(m))
	}
	st = append(st, stepMsg(g.msg("init", p)), stepTun(p, 60), stepShift(q, 1000), stepMsg(g.msg("init", q)))
	return Scenario{Gen: "removal-race", Steps: st}
}

func f7Scenario(aligned bool) Scenario {
	st := []Step{stepTun(keyA, 80), {Op: "restart"}, stepTun(keyA, 80)}
	if aligned {
		return Scenario{Gen: "f7-restart", Steps: append([]Step{{Op: "align"}}, st...)}
	}
	return Scenario{Gen: "f7-restart", Steps: st}
}

func sampleBits(r *rand.Rand, total, n int) []int {
	if n >= total {
		b := make([]int, total)
		for i := range b {
			b[i] = i
		}
		return b
	}
	return r.Perm(total)[:n]
}

func chunks(b []int, n int) [][]int {
	var out [][]int
	for len(b) > 0 {
		k := n
		if k > len(b) {
			k = len(b)
		}
		out = append(out, b[:k])
		b = b[k:]
	}
	return out
}

func generate(seed int64, n int, tier string, f7rounds int) []Scenario {
	r := rand.New(rand.NewSource(seed))
	mk := func() *gen { return &gen{r: r} }
	var scs []Scenario
	for i := 0; i < f7rounds; i++ {
		scs = append(scs, f7Scenario(i%2 == 0))
	}
	// bit flips
	ni, nr := 130, 70
	if tier == "thorough" {
		ni, nr = 148*8, 92*8
	}
	ib := sampleBits(r, 148*8, ni)
	// MAC2 flips are accepted when not under load: one per scenario at most for responses
	for _, c := range chunks(ib, 22) {
		scs = append(scs, mk().flipsInit(c))
	}
	var cov, m2 []int
	for _, b := range sampleBits(r, 92*8, nr) {
		if b/8 >= 76 {
			m2 = append(m2, b)
		} else {
			cov = append(cov, b)
		}
	}
	for _, c := range chunks(cov, 22) {
		if len(m2) > 0 {
			c = append(append([]int{}, c...), m2[0])
			m2 = m2[1:]
		}
		scs = append(scs, mk().flipsResp(c))
	}
	for _, b := range m2 {
		scs = append(scs, mk().flipsResp([]int{b}))
	}
	fixed := []func(*gen) Scenario{(*gen).lengths, (*gen).substitutions, (*gen).timestamps, (*gen).flood, (*gen).superseded, (*gen).strangers,
		(*gen).underLoad, (*gen).underLoad, (*gen).restartReplay, (*gen).restartReplay,
		(*gen).rapidFire, (*gen).rapidFire, (*gen).rapidFire, (*gen).rapidFire,
		(*gen).rapidFireAcrossRestart, (*gen).rapidFireAcrossRestart, (*gen).rapidFireAcrossRestart, (*gen).rapidFireAcrossRestart,
		(*gen).removalRace, (*gen).removalRace, (*gen).removalRace, (*gen).removalRace,
		(*gen).sessionIndex, (*gen).sessionIndex, (*gen).sessionIndex, (*gen).bursts, (*gen).bursts, (*gen).bursts, (*gen).bursts}
	for v := 0; v < 7; v++ {
		v := v
		fixed = append(fixed, func(g *gen) Scenario { return g.respWindow(v) })
	}
	fixed = append(fixed, func(g *gen) Scenario { return g.respWindow(0) }, func(g *gen) Scenario { return g.respWindow(2) })
	for _, f := range fixed {
		scs = append(scs, f(mk()))
	}
	for len(scs) < n {
		switch x := r.Intn(100); {
		case x < 14:
			scs = append(scs, mk().initMutations())
		case x < 28:
			scs = append(scs, mk().respMutations())
		case x < 36:
			scs = append(scs, mk().timestamps())
		case x < 44:
			scs = append(scs, mk().flood())
		case x < 56:
			scs = append(scs, mk().superseded())
		case x < 62:
			scs = append(scs, mk().strangers())
		case x < 66:
			scs = append(scs, mk().lengths())
		case x < 70:
			scs = append(scs, mk().substitutions())
		case x < 80:
			scs = append(scs, mk().underLoad())
		case x < 88:
			scs = append(scs, mk().restartReplay())
		case x < 91:
			scs = append(scs, mk().sessionIndex())
		case x < 93:
			scs = append(scs, mk().respWindow(r.Intn(7)))
		case x < 95:
			scs = append(scs, mk().rapidFire())
		case x < 97:
			scs = append(scs, mk().rapidFireAcrossRestart())
		default:
			scs = append(scs, mk().mixture())
		}
	}
	return scs
}

// ---------------------------------------------------------------- tai64n

func taiCases(r *rand.Rand, n int) (tcs []string, acs []string) {
	secs := []int64{0, 1, 59, 1000000000, time.Now().Unix(), 1<<31 - 1, 1 << 31, 1<<32 - 1, 1 << 32, 1<<40 + 5, 1 << 61, 1<<62 - 11, 1<<62 - 10, 1 << 62, 1<<63 - 1}
	nanos := []int64{0, 1, 1<<24 - 1, 1 << 24, 1<<24 + 1, 2<<24 - 1, 2 << 24, 59<<24 - 1, 59 << 24, 59<<24 + 1, 999999999, 500000000}
	add := func(s, ns int64) {
		ts := tai64n.VerifStamp(time.Unix(s, ns))
		var bs []string
		for _, b := range ts {
			bs = append(bs, strconv.Itoa(int(b)))
		}
		tcs = append(tcs, fmt.Sprintf("tcs %d %d [%s]", s, ns, strings.Join(bs, ";")))
	}
	for _, s := range secs {
		for _, ns := range nanos {
			add(s, ns)
		}
	}
	for i := 0; i < n; i++ {
		add(r.Int63n(1<<40), r.Int63n(1000000000))
	}
	lst := func(t tai64n.Timestamp) string {
		var bs []string
		for _, b := range t {
			bs = append(bs, strconv.Itoa(int(b)))
		}
		return "[" + strings.Join(bs, ";") + "]"
	}
	for i := 0; i < n; i++ {
		var a, b tai64n.Timestamp
		r.Read(a[:])
		b = a
		switch r.Intn(4) {
		case 0:
			r.Read(b[:])
		case 1:
			b[r.Intn(12)] ^= 1 << uint(r.Intn(8))
		case 2:
			k := r.Intn(12)
			b[k]++
		}
		acs = append(acs, fmt.Sprintf("acs %s %s %v", lst(a), lst(b), a.After(b)))
	}
	return
}

// ---------------------------------------------------------------- output

func writeShard(path string, cases []Case, tcs, acs []string) error {
	var b strings.Builder
	b.WriteString("From Coq Require Import Uint63.\nFrom WG Require Import Base.Prelude HsGate.Model HsGate.Spec HsGate.Check.\nLocal Open Scope uint63_scope.\nDefinition cases : list case := [\n")
	for i, c := range cases {
		if i > 0 {
			b.WriteString(";\n")
		}
		b.WriteString(c.gallina)
	}
	b.WriteString("].\nDefinition tcases : list tcase := [\n" + strings.Join(tcs, ";\n") + "].\n")
	b.WriteString("Definition acases : list acase := [\n" + strings.Join(acs, ";\n") + "].\n")
	b.WriteString("Definition bad := Eval vm_compute in (check_cases cases tcases acases).\nPrint bad.\nDefinition st := Eval vm_compute in (stats cases).\nPrint st.\n")
	return os.WriteFile(path, []byte(b.String()), 0o644)
}

func main() {
	seed := flag.Int64("seed", 1, "PRNG seed")
	n := flag.Int("n", 120, "number of scenarios")
	tier := flag.String("tier", "quick", "quick | thorough (all single-bit flips)")
	f7rounds := flag.Int("f7", 20, "rounds of the restart scenario (finding F7)")
	shards := flag.Int("shards", 8, "case files")
	out := flag.String("out", "out/C06", "output directory")
	replayIn := flag.String("replay", "", "JSON file with scenarios to run")
	corpus := flag.String("corpus", "", "directory of corpus JSON scenarios to run first")
	flag.Parse()
	if err := os.MkdirAll(*out, 0o755); err != nil {
		panic(err)
	}
	var scs []Scenario
	var tcs, acs []string
	if *replayIn != "" {
		data, err := os.ReadFile(*replayIn)
		if err != nil {
			panic(err)
		}
		if err := json.Unmarshal(data, &scs); err != nil {
			panic(err)
		}
		*shards = 1
	} else {
		if *corpus != "" {
			files, _ := filepath.Glob(filepath.Join(*corpus, "*.json"))
			for _, f := range files {
				data, err := os.ReadFile(f)
				if err != nil {
					continue
				}
				var cs []Scenario
				if json.Unmarshal(data, &cs) == nil {
					for _, c := range cs {
						if !strings.HasPrefix(c.Gen, "corpus") {
							c.Gen = "corpus:" + c.Gen
						}
						scs = append(scs, c)
					}
				}
			}
		}
		scs = append(scs, generate(*seed, *n, *tier, *f7rounds)...)
		tcs, acs = taiCases(rand.New(rand.NewSource(*seed+7)), 300)
	}
	cases := make([]Case, 0, len(scs))
	discarded, dropped := 0, 0
	for _, sc := range scs {
		var c Case
		var err error
		for try := 0; try < 3; try++ {
			c, err = runScenario(sc)
			if err != nil {
				panic(err)
			}
			c.Reruns = try
			// a scenario that did not settle or took too long is discarded and rerun
			if c.Slow == 0 && c.WallMs < 2000 {
				break
			}
			discarded++
		}
		if c.Slow != 0 || c.WallMs >= 2000 {
			dropped++ // still slow after three attempts: not evaluated, counted
			continue
		}
		cases = append(cases, c)
	}
	if *shards > len(cases) {
		*shards = len(cases)
	}
	if *shards < 1 {
		*shards = 1
	}
	per := (len(cases) + *shards - 1) / *shards
	type shardInfo struct {
		File  string `json:"file"`
		First int    `json:"first"`
		N     int    `json:"n"`
	}
	var infos []shardInfo
	idx := 0
	for s := 0; s < *shards && (idx < len(cases) || s == 0); s++ {
		end := idx + per
		if end > len(cases) {
			end = len(cases)
		}
		name := fmt.Sprintf("cases_C06_%d.v", s)
		var t, a []string
		if s == 0 {
			t, a = tcs, acs
		}
		if err := writeShard(filepath.Join(*out, name), cases[idx:end], t, a); err != nil {
			panic(err)
		}
		infos = append(infos, shardInfo{name, idx, end - idx})
		idx = end
	}
	meta := map[string]any{"seed": *seed, "cases": cases, "shards": infos, "discarded": discarded, "dropped": dropped, "tai_cases": len(tcs), "after_cases": len(acs)}
	data, _ := json.Marshal(meta)
	if err := os.WriteFile(filepath.Join(*out, "cases.json"), data, 0o644); err != nil {
		panic(err)
	}
}
