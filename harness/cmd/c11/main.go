// c11 drives a real wireguard-go device (sim bind/tun, receive batches > 1)
// with scenarios about endpoint roaming: valid and invalid packets of all four
// types from changing source addresses, both handshake roles, replays of
// earlier valid initiations, responses and transport messages from other
// addresses, counters outside the window, mixed batches, UAPI endpoint=.
// Every scenario is a list of abstract plan steps; executing it yields, per
// step, the event as the Coq slice model (Roaming/Model.v) understands it
// (construction descriptors) and the observed datagrams and endpoints.
package main

import (
	"bytes"
	"crypto/rand"
	"encoding/binary"
	"encoding/hex"
	"encoding/json"
	"flag"
	"fmt"
	mrand "math/rand"
	"net"
	"net/netip"
	"os"
	"path/filepath"
	"sort"
	"strings"
	"time"

	"golang.zx2c4.com/wireguard/conn"
	"golang.zx2c4.com/wireguard/device"

	"wgv/cosim"
	"wgv/ref"
	"wgv/sim"
)

type Elem struct {
	Peer int    `json:"peer"`
	From int    `json:"from"`
	Kind string `json:"kind"` // good, jump, inwindow, replay, badtag, badidx, old, oldsess, oldsess2, crossidx
	Data bool   `json:"data,omitempty"`
}

type Plan struct {
	Op      string `json:"op"` // init, resp, cookie, other, batch, tun, uapi, shifths, restart, setnonce, agekeys
	Peer    int    `json:"peer,omitempty"`
	From    int    `json:"from,omitempty"`
	Mac1    string `json:"mac1,omitempty"`    // ok, junk
	Content string `json:"content,omitempty"` // init: good, goodnextsec, replay, replayold, corruptstatic, corruptts, stranger, oldts, oldbignano, flood; resp: good, corrupt, wrongidx, sessidx, replay
	Elems   []Elem `json:"elems,omitempty"`
	D       int    `json:"d,omitempty"`
	Size    int    `json:"size,omitempty"`
	Type    uint32 `json:"type,omitempty"`
}

type StepRec struct {
	Plan  Plan     `json:"plan"`
	Event string   `json:"event"`
	Obs   string   `json:"obs"`
	Outs  []string `json:"outs"`
	Eps   []string `json:"eps"`
	Moved bool     `json:"moved,omitempty"`
}

type Case struct {
	Gen     string    `json:"gen"`
	Plan    []Plan    `json:"plan"`
	Steps   []StepRec `json:"steps,omitempty"`
	Gallina string    `json:"-"`
	Slow    int       `json:"slow,omitempty"`
	Batch   int       `json:"batch,omitempty"`
	Loop    *Loopback `json:"loopback,omitempty"`
	Race    *RacePass `json:"race,omitempty"`
}

// RacePass is the verdict of the statistical pass with pairs of fresh initiations of one peer in one receive batch.
type RacePass struct {
	Status   string `json:"status"` // ok, skipped, violation
	Detail   string `json:"detail"`
	Pairs    int    `json:"pairs"`
	BothUsed int    `json:"both_consumed"` // pairs of which the device consumed BOTH initiations (two workers overlapped)
	Replays  int    `json:"replays"`
}

// Loopback is the verdict of the pass over the real conn.StdNetBind (judged in Go).
type Loopback struct {
	Status string   `json:"status"` // ok, skipped, violation
	Detail string   `json:"detail"`
	Checks int      `json:"checks"`
	Log    []string `json:"log,omitempty"`
}

const baseNs = int64(1_000_000_000_000)

var addrTable = []string{
	"192.0.2.7:5555",     // 0: A's configured endpoint
	"192.0.2.8:6666",     // 1: B's configured endpoint
	"192.0.2.9:7777",     // 2: where C (no endpoint configured) usually sends from
	"192.0.2.7:5556",     // 3
	"198.51.100.1:5555",  // 4
	"198.51.100.2:40000", // 5
	"[2001:db8::7]:5555", // 6
	"203.0.113.77:1",     // 7
}

var tunDst = [][4]byte{{10, 0, 0, 2}, {10, 0, 1, 77}, {10, 0, 2, 77}}
var innerSrc = [][4]byte{{10, 0, 0, 2}, {10, 0, 1, 5}, {10, 0, 2, 5}}

type rsess struct {
	s    *ref.Session
	sid  int
	ctr  uint64
	max  uint64
	sent [][]byte
	peer int
}

type refInit struct {
	st  *ref.InitiatorState
	ts  uint64
	msg []byte
}

type devInit struct {
	raw []byte
	hid int
	idx uint32
}

type run struct {
	w        *cosim.World
	peers    []*cosim.RefPeer
	stranger *cosim.RefPeer
	addrs    []netip.AddrPort
	ipid     map[netip.Addr]int
	t0       time.Time
	sess     map[int][]*rsess // per peer, newest last
	sidNext  int
	hidNext  int
	pending  map[int]*refInit   // last initiation ref peer i sent
	consumed map[int][]*refInit // initiations the device answered
	maxTs    map[int]uint64
	lastCons map[int]int64 // harness clock reading just before the initiation that was consumed was injected
	devInit  map[int]*devInit
	lastResp map[int][]byte
	lastHid  map[int]int
	lastSess map[int]*ref.Session
	eps      []string
	ambig    bool
	injectT  int64
}

func keyNum(i int) int {
	if i == 9 {
		return 9
	}
	return i + 2
}

func (r *run) now() int64 { return baseNs + time.Since(r.t0).Nanoseconds() }

func (r *run) addrDesc(ap netip.AddrPort) (int, int) {
	id, ok := r.ipid[ap.Addr()]
	if !ok {
		id = 900 + len(r.ipid)
		r.ipid[ap.Addr()] = id
	}
	return id, int(ap.Port())
}

func newRun(batch int) (*run, error) {
	r := &run{ipid: map[netip.Addr]int{}, sess: map[int][]*rsess{}, pending: map[int]*refInit{}, consumed: map[int][]*refInit{},
		maxTs: map[int]uint64{}, devInit: map[int]*devInit{}, lastResp: map[int][]byte{}, lastHid: map[int]int{}, lastSess: map[int]*ref.Session{}, lastCons: map[int]int64{}}
	for _, a := range addrTable {
		ap := netip.MustParseAddrPort(a)
		r.addrs = append(r.addrs, ap)
		if _, ok := r.ipid[ap.Addr()]; !ok {
			r.ipid[ap.Addr()] = len(r.ipid) + 1
		}
	}
	a := cosim.NewPeer("A", addrTable[0], "10.0.0.2/32")
	b := cosim.NewPeer("B", addrTable[1], "10.0.1.0/24")
	c := cosim.NewPeer("C", "", "10.0.2.0/24")
	b.Psk = ref.NewPrivate()
	r.peers = []*cosim.RefPeer{a, b, c}
	r.stranger = cosim.NewPeer("X", addrTable[5])
	r.stranger.Configured = false
	r.t0 = time.Now()
	w, err := cosim.NewWorld(cosim.Config{Up: true, BindBatch: batch}, true, a, b, c)
	if err != nil {
		return nil, err
	}
	w.Timeout = 3 * time.Second
	r.w = w
	return r, nil
}

func (r *run) refPeer(i int) *cosim.RefPeer {
	if i == 9 {
		return r.stranger
	}
	return r.peers[i%len(r.peers)]
}

// ---------------------------------------------------------------- observation

func (r *run) epDesc(i int) (string, string) {
	p := r.peers[i]
	st := r.w.Dev.VerifPeer(p.NoisePub())
	// the endpoint= line of IpcGet must say the same
	hexpk := hex.EncodeToString(p.Pub[:])
	in := false
	line := ""
	for _, l := range strings.Split(r.w.Get(), "\n") {
		if strings.HasPrefix(l, "public_key=") {
			in = l == "public_key="+hexpk
		}
		if in && strings.HasPrefix(l, "endpoint=") {
			line = strings.TrimPrefix(l, "endpoint=")
		}
	}
	if line != st.Endpoint {
		return fmt.Sprintf("(%d, Some (998, 0))", keyNum(i)), "IpcGet=" + line + " VerifPeer=" + st.Endpoint
	}
	if st.Endpoint == "" {
		return fmt.Sprintf("(%d, None)", keyNum(i)), "-"
	}
	ap, err := netip.ParseAddrPort(st.Endpoint)
	if err != nil {
		return fmt.Sprintf("(%d, Some (997, 0))", keyNum(i)), st.Endpoint
	}
	ip, port := r.addrDesc(ap)
	return fmt.Sprintf("(%d, Some (%d, %d))", keyNum(i), ip, port), st.Endpoint
}

// describe the datagrams and do the remote side's bookkeeping; sid/hid are the oracle numbers of this step
func (r *run) observe(out cosim.Out, sid int, hid int, newSess *rsess) (string, []string, []string, bool) {
	var gal, txt []string
	for _, s := range out.Sent {
		ip, port := r.addrDesc(s.To)
		d := s.Data
		kind, peer := 0, 0
		if len(d) >= 4 {
			tw := binary.LittleEndian.Uint32(d[:4])
			switch {
			case tw == ref.TypeInitiation && len(d) == ref.InitiationSize:
				kind = 1
			case tw == ref.TypeResponse && len(d) == ref.ResponseSize:
				kind = 2
			case tw == ref.TypeCookie && len(d) == ref.CookieSize:
				kind = 3
			case tw == ref.TypeTransport && len(d) >= 32:
				kind = 4
			}
		}
		switch kind {
		case 1, 2:
			pidx := -1
			for i, p := range r.peers {
				if ref.CheckMac1(d, p.Pub) {
					peer, pidx = keyNum(i), i
				}
			}
			if pidx >= 0 && kind == 1 {
				r.devInit[pidx] = &devInit{raw: append([]byte{}, d...), hid: hid, idx: binary.LittleEndian.Uint32(d[4:8])}
			}
			if pidx >= 0 && kind == 2 {
				if ri := r.pending[pidx]; ri != nil {
					if s2, err := ri.st.ConsumeResponse(d); err == nil {
						r.sess[pidx] = append(r.sess[pidx], &rsess{s: s2, sid: sid, peer: pidx})
						r.peers[pidx].Sessions = append(r.peers[pidx].Sessions, s2)
						r.sidNext = sid
						if ri.ts > r.maxTs[pidx] {
							r.maxTs[pidx] = ri.ts
						}
						r.consumed[pidx] = append(r.consumed[pidx], ri)
						r.lastCons[pidx] = r.injectT
					}
				}
			}
		case 4:
			// a transport message that opens under the session ref just offered confirms that session
			if newSess != nil {
				if _, _, _, err := newSess.s.OpenTransport(d); err == nil {
					peer = keyNum(newSess.peer)
					if newSess.sid == sid && (len(r.sess[newSess.peer]) == 0 || r.sess[newSess.peer][len(r.sess[newSess.peer])-1] != newSess) {
						r.sess[newSess.peer] = append(r.sess[newSess.peer], newSess)
						r.peers[newSess.peer].Sessions = append(r.peers[newSess.peer].Sessions, newSess.s)
						r.sidNext = sid
					}
				}
			}
			for i := range r.peers {
				for _, rs := range r.sess[i] {
					if _, _, _, err := rs.s.OpenTransport(d); err == nil {
						peer = keyNum(i)
					}
				}
			}
		}
		gal = append(gal, fmt.Sprintf("OD %d %d %d %d", kind, ip, port, peer))
		txt = append(txt, fmt.Sprintf("%s->%s peer=%d", []string{"other", "init", "resp", "cookie", "transport"}[kind], s.To, peer))
	}
	var eg, et []string
	for i := range r.peers {
		g, t := r.epDesc(i)
		eg = append(eg, g)
		et = append(et, t)
	}
	moved := r.eps != nil && strings.Join(et, ",") != strings.Join(r.eps, ",")
	r.eps = et
	return fmt.Sprintf("OB [%s] [%s]", strings.Join(gal, "; "), strings.Join(eg, "; ")), txt, et, moved
}

// slotOwner says which peer still HOLDS a session with this receiver index in one of its three keypair
// slots (previous, current, next) and is younger than 180 s.  An index that is merely still present in the index table does not count:
// a session the peer has discarded is stale, whatever the table says.
func (r *run) slotOwner(idx uint32) (int, bool) {
	for i, q := range r.peers {
		st := r.w.Dev.VerifPeer(q.NoisePub())
		for _, kp := range []struct {
			present bool
			idx     uint32
			age     int64
		}{{st.Previous.Present, st.Previous.LocalIndex, st.Previous.AgeNanos}, {st.Current.Present, st.Current.LocalIndex, st.Current.AgeNanos},
			{st.Next.Present, st.Next.LocalIndex, st.Next.AgeNanos}} {
			// a key older than RejectAfterTime (180 s) is not a live key either (ages are only ever moved by
			// the 181 s hook: far from the boundary)
			if kp.present && kp.idx == idx && kp.age < int64(180*time.Second) {
				return i, true
			}
		}
	}
	return 0, false
}

func (r *run) ownerOf(idx uint32, wantHandshake bool) (int, bool) {
	for _, e := range r.w.Dev.VerifIndexTable() {
		if e.Index == idx && ((wantHandshake && e.IsHandshake) || (!wantHandshake && e.IsKeypair)) {
			for i, q := range r.peers {
				if q.NoisePub() == e.Peer {
					return i, true
				}
			}
		}
	}
	return 0, false
}

// ---------------------------------------------------------------- steps

func junk16() (o [16]byte) { rand.Read(o[:]); return }

func (r *run) shift(pi int, d time.Duration, recs *[]StepRec, pl Plan) bool {
	delete(r.lastCons, pi)
	r.w.Dev.VerifShiftHandshakeTimes(r.peers[pi].NoisePub(), d)
	out := r.w.Take()
	obs, txt, eps, moved := r.observe(out, 0, 0, nil)
	*recs = append(*recs, StepRec{Plan: pl, Event: fmt.Sprintf("SH %d %d", keyNum(pi), int64(d)), Obs: obs, Outs: txt, Eps: eps, Moved: moved})
	return out.Settled
}

func (r *run) exec(pl Plan, recs *[]StepRec) bool {
	from := r.addrs[pl.From%len(r.addrs)]
	ip, port := r.addrDesc(from)
	rec := StepRec{Plan: pl}
	settled := true
	switch pl.Op {
	case "shifths":
		return r.shift(pl.Peer%len(r.peers), time.Duration(pl.D)*time.Second, recs, pl)
	case "init":
		pi := pl.Peer
		p := r.refPeer(pi)
		content := pl.Content
		if content == "replay" && len(r.consumed[pi]) == 0 {
			content = "good"
		}
		if (content == "oldts" || content == "oldbignano") && r.maxTs[pi] == 0 {
			content = "good"
		}
		if content == "replayold" {
			// an EARLIER consumed initiation than the last one
			if len(r.consumed[pi]) < 2 {
				content = "replay"
				if len(r.consumed[pi]) == 0 {
					content = "good"
				}
			}
		}
		if content == "flood" {
			// only right after a consumption is the 20 ms gap certainly not over
			if lc, ok := r.lastCons[pi]; !ok || r.now()-lc > 6e6 {
				content = "good"
			}
		}
		if content != "flood" && pi != 9 {
			// keep clear of the 20 ms flood gap
			if !r.shift(pi, time.Second, recs, Plan{Op: "shifths", Peer: pi, D: 1}) {
				return false
			}
		}
		var msg []byte
		var ts uint64
		static, tsok := "None", true
		if pi != 9 {
			static = fmt.Sprintf("(Some %d)", keyNum(pi))
		}
		if content == "replay" {
			ri := r.consumed[pi][len(r.consumed[pi])-1]
			msg, ts = append([]byte{}, ri.msg...), ri.ts
		} else if content == "replayold" {
			ri := r.consumed[pi][mrand.Intn(len(r.consumed[pi])-1)]
			msg, ts = append([]byte{}, ri.msg...), ri.ts
		} else {
			ts = uint64(time.Now().UnixNano())
			if ts <= r.maxTs[pi] {
				ts = r.maxTs[pi] + 1
			}
			if content == "oldts" {
				ts = r.maxTs[pi] - uint64(mrand.Intn(2))*1e9
			}
			if content == "oldbignano" {
				// an earlier second with a LARGER nanosecond part than the greatest consumed timestamp
				sec := r.maxTs[pi]/1e9 - 1 - uint64(mrand.Intn(3))
				ts = sec*1e9 + 999999999 - uint64(mrand.Intn(1000))
			}
			if content == "goodnextsec" {
				// a later second with a SMALL nanosecond part (the sender's clock may run ahead): newer, must be accepted
				ts = (r.maxTs[pi]/1e9+1+uint64(mrand.Intn(2)))*1e9 + uint64(mrand.Intn(1000))
				if r.maxTs[pi] == 0 {
					ts = (uint64(time.Now().Unix())+1)*1e9 + uint64(mrand.Intn(1000))
				}
			}
			p.NextIdx++
			st := ref.CreateInitiation(p.Priv, ref.NewPrivate(), r.w.DevPub, p.Psk, p.NextIdx, ref.Tai64nRaw(0x400000000000000a+ts/1e9, uint32(ts%1e9)))
			msg = append([]byte{}, st.Msg...)
			switch content {
			case "corruptstatic":
				msg[40+9] ^= 4
				msg = ref.AppendMacs(msg[:116], r.w.DevPub, nil)
				static = "None"
			case "corruptts":
				msg[88+5] ^= 4
				msg = ref.AppendMacs(msg[:116], r.w.DevPub, nil)
				tsok = false
			default:
				r.pending[pi] = &refInit{st: st, ts: ts, msg: append([]byte{}, st.Msg...)}
			}
		}
		mac1 := true
		if pl.Mac1 == "junk" {
			j := junk16()
			copy(msg[116:132], j[:])
			mac1 = false
		}
		sid := r.sidNext + 1
		t := r.now()
		r.injectT = t
		lc := r.lastCons[pi]
		out := r.w.Inject(from, msg)
		if content == "flood" && r.now()-lc > 15e6 {
			// neither the model's gap (between the two clock readings) nor the device's (between the two
			// consumptions, which lie between the first reading and now) is certainly below 20 ms
			r.ambig = true
		}
		obs, txt, eps, moved := r.observe(out, sid, 0, nil)
		rec.Event = fmt.Sprintf("EI %d (Im %d %d %v %s %v %d) %d", t, ip, port, mac1, static, tsok, ts, sid)
		rec.Obs, rec.Outs, rec.Eps, rec.Moved, settled = obs, txt, eps, moved, out.Settled
	case "resp":
		pi := pl.Peer % len(r.peers)
		p := r.peers[pi]
		di := r.devInit[pi]
		var msg []byte
		hid := 0
		var ns *rsess
		content := pl.Content
		if content == "replay" && r.lastResp[pi] == nil {
			content = "good"
		}
		sid := r.sidNext + 1
		if content == "replay" {
			msg = append([]byte{}, r.lastResp[pi]...)
			hid = r.lastHid[pi]
			ns = &rsess{s: r.lastSess[pi], sid: sid, peer: pi}
		} else if di != nil {
			if rs, err := ref.ConsumeInitiation(di.raw, p.Priv); err == nil {
				p.NextIdx++
				resp, s := rs.CreateResponse(ref.NewPrivate(), p.Psk, p.NextIdx)
				msg, hid = resp, di.hid
				switch content {
				case "corrupt":
					msg[44+2] ^= 8
					msg = ref.AppendMacs(msg[:60], r.w.DevPub, nil)
					hid = 0
				case "wrongidx":
					binary.LittleEndian.PutUint32(msg[8:12], di.idx^0x00010000)
					msg = ref.AppendMacs(msg[:60], r.w.DevPub, nil)
				case "sessidx":
					// the genuine response, but addressed to the index of an established SESSION of that peer
					// instead of the index of the initiation it answers (MAC1 recomputed)
					x := di.idx ^ 0x00020000
					if ss := r.sess[pi]; len(ss) > 0 {
						x = ss[len(ss)-1-mrand.Intn(len(ss))].s.RemoteIdx
					}
					if x == di.idx {
						x ^= 0x00020000
					}
					binary.LittleEndian.PutUint32(msg[8:12], x)
					msg = ref.AppendMacs(msg[:60], r.w.DevPub, nil)
				default:
					ns = &rsess{s: s, sid: sid, peer: pi}
					r.lastResp[pi] = append([]byte{}, resp...)
					r.lastHid[pi] = hid
					r.lastSess[pi] = s
				}
			}
		}
		if msg == nil {
			body := make([]byte, 60)
			rand.Read(body)
			binary.LittleEndian.PutUint32(body[:4], ref.TypeResponse)
			msg = ref.AppendMacs(body, r.w.DevPub, nil)
		}
		mac1 := true
		if pl.Mac1 == "junk" {
			j := junk16()
			copy(msg[60:76], j[:])
			mac1 = false
		}
		// the receiver field of a response must be the sender index of the initiation it answers: the index the
		// device put into its latest initiation to that peer (whether that initiation is still outstanding is the
		// model's business).  What the index table happens to resolve is not asked.
		owner := "None"
		recvIdx := binary.LittleEndian.Uint32(msg[8:12])
		for i := range r.peers {
			if d := r.devInit[i]; d != nil && d.idx == recvIdx {
				owner = fmt.Sprintf("(Some %d)", keyNum(i))
			}
		}
		t := r.now()
		out := r.w.Inject(from, msg)
		obs, txt, eps, moved := r.observe(out, sid, 0, ns)
		rec.Event = fmt.Sprintf("ER %d (Rm %d %d %v %s %d) %d", t, ip, port, mac1, owner, hid, sid)
		rec.Obs, rec.Outs, rec.Eps, rec.Moved, settled = obs, txt, eps, moved, out.Settled
	case "cookie":
		pi := pl.Peer % len(r.peers)
		p := r.peers[pi]
		var recv uint32 = mrand.Uint32()
		var ad [16]byte
		if di := r.devInit[pi]; di != nil {
			recv = di.idx
			copy(ad[:], di.raw[116:132])
		}
		var nonce [24]byte
		rand.Read(nonce[:])
		msg := ref.CreateCookieReply(p.Pub, recv, nonce, junk16(), ad)
		t := r.now()
		out := r.w.Inject(from, msg)
		obs, txt, eps, moved := r.observe(out, 0, 0, nil)
		rec.Event = fmt.Sprintf("EC %d %d %d", t, ip, port)
		rec.Obs, rec.Outs, rec.Eps, rec.Moved, settled = obs, txt, eps, moved, out.Settled
	case "other":
		n := pl.Size
		msg := make([]byte, n)
		rand.Read(msg)
		tw := pl.Type
		if n >= 4 {
			// an unknown type, or a known type with a size it cannot have
			if (tw == 1 && n == 148) || (tw == 2 && n == 92) || (tw == 3 && n == 64) || (tw == 4 && n >= 32) {
				tw = 7
			}
			binary.LittleEndian.PutUint32(msg[:4], tw)
		}
		t := r.now()
		out := r.w.Inject(from, msg)
		obs, txt, eps, moved := r.observe(out, 0, 0, nil)
		rec.Event = fmt.Sprintf("EO %d %d %d", t, ip, port)
		rec.Obs, rec.Outs, rec.Eps, rec.Moved, settled = obs, txt, eps, moved, out.Settled
	case "batch":
		var ds []sim.Dgram
		var els []string
		for _, el := range pl.Elems {
			pi := el.Peer % len(r.peers)
			efrom := r.addrs[el.From%len(r.addrs)]
			eip, eport := r.addrDesc(efrom)
			ss := r.sess[pi]
			var data []byte
			var ctr uint64
			tag := true
			var cur *rsess
			if len(ss) > 0 {
				cur = ss[len(ss)-1]
			}
			kind := el.Kind
			if cur == nil {
				kind = "badidx"
			}
			if kind == "oldsess" && len(ss) < 2 {
				kind = "good"
			}
			if kind == "oldsess2" && len(ss) < 3 {
				kind = "oldsess"
				if len(ss) < 2 {
					kind = "good"
				}
			}
			if kind == "replay" && len(cur.sent) == 0 {
				kind = "good"
			}
			if kind == "old" && cur.max < 8200 {
				kind = "jump"
			}
			if kind == "inwindow" && cur.max < 200 {
				kind = "jump"
			}
			var inner []byte
			if el.Data {
				inner = ref.Pad(ref.IPv4(innerSrc[pi], [4]byte{10, 9, 9, 9}, 40, 3))
			}
			send := func(s *rsess, c uint64, remember bool) {
				data = s.s.Transport(c, inner)
				ctr = c
				if remember {
					s.sent = append(s.sent, data)
					if c > s.max {
						s.max = c
					}
					if c >= s.ctr {
						s.ctr = c + 1
					}
				}
			}
			switch kind {
			case "good":
				send(cur, cur.ctr, true)
			case "jump":
				send(cur, cur.ctr+8300+uint64(mrand.Intn(3000)), true)
			case "inwindow":
				// behind the greatest counter but inside the window, never sent before
				c := cur.max - 1 - uint64(mrand.Intn(100))
				dup := false
				for _, old := range cur.sent {
					if binary.LittleEndian.Uint64(old[8:16]) == c {
						dup = true
					}
				}
				send(cur, c, !dup)
				if dup {
					cur.sent = append(cur.sent, data)
				}
			case "old":
				send(cur, cur.max-8129-uint64(mrand.Intn(60)), false)
			case "replay":
				data = cur.sent[mrand.Intn(len(cur.sent))]
				ctr = binary.LittleEndian.Uint64(data[8:16])
			case "badtag":
				send(cur, cur.ctr+50, false)
				data = append([]byte{}, data...)
				data[len(data)-1] ^= 1
				tag = false
			case "oldsess":
				o := ss[len(ss)-2]
				send(o, o.ctr, true)
			case "oldsess2":
				o := ss[len(ss)-3]
				send(o, o.ctr, true)
			case "crossidx":
				send(cur, cur.ctr+60, false)
				data = append([]byte{}, data...)
				other := r.sess[(pi+1)%len(r.peers)]
				if len(other) > 0 {
					binary.LittleEndian.PutUint32(data[4:8], other[len(other)-1].s.RemoteIdx)
				} else {
					binary.LittleEndian.PutUint32(data[4:8], mrand.Uint32())
				}
				tag = false
			default: // badidx
				s := &ref.Session{SendKey: ref.NewPrivate(), RemoteIdx: mrand.Uint32()}
				data = s.Transport(0, nil)
			}
			owner := "None"
			idx := binary.LittleEndian.Uint32(data[4:8])
			if oi, ok := r.slotOwner(idx); ok {
				for _, rs := range r.sess[oi] {
					if rs.s.RemoteIdx == idx {
						owner = fmt.Sprintf("(Some (%d, %d))", keyNum(oi), rs.sid)
					}
				}
			}
			ds = append(ds, sim.Dgram{From: efrom, Data: data})
			els = append(els, fmt.Sprintf("Te %d %d %s %v %d %d", eip, eport, owner, tag, ctr>>32, ctr&0xffffffff))
		}
		t := r.now()
		out := r.w.InjectBatch(ds...)
		obs, txt, eps, moved := r.observe(out, 0, 0, nil)
		rec.Event = fmt.Sprintf("EB %d [%s]", t, strings.Join(els, "; "))
		rec.Obs, rec.Outs, rec.Eps, rec.Moved, settled = obs, txt, eps, moved, out.Settled
	case "agekeys":
		// all keypairs of the peer become older than RejectAfterTime (180 s)
		pi := pl.Peer % len(r.peers)
		r.w.Dev.VerifShiftKeypairAges(r.peers[pi].NoisePub(), 181*time.Second)
		out := r.w.Take()
		obs, txt, eps, moved := r.observe(out, 0, 0, nil)
		rec.Event = fmt.Sprintf("EAK %d", keyNum(pi))
		rec.Obs, rec.Outs, rec.Eps, rec.Moved, settled = obs, txt, eps, moved, out.Settled
	case "setnonce":
		// push the send counter of the current keypair over RekeyAfterMessages: the next data packet asks for a new handshake
		pi := pl.Peer % len(r.peers)
		r.w.Dev.VerifSetSendNonce(r.peers[pi].NoisePub(), (1<<60)+1)
		out := r.w.Take()
		obs, txt, eps, moved := r.observe(out, 0, 0, nil)
		rec.Event = fmt.Sprintf("ESN %d", keyNum(pi))
		rec.Obs, rec.Outs, rec.Eps, rec.Moved, settled = obs, txt, eps, moved, out.Settled
	case "restart":
		// Device.Down then Device.Up: every peer is stopped (sessions, handshake state and staged packets
		// are dropped) and started again
		t := r.now()
		if err := r.w.Dev.Down(); err != nil {
			panic(err)
		}
		if err := r.w.Dev.Up(); err != nil {
			panic(err)
		}
		out := r.w.Take()
		obs, txt, eps, moved := r.observe(out, 0, 0, nil)
		rec.Event = fmt.Sprintf("ERS %d", t)
		rec.Obs, rec.Outs, rec.Eps, rec.Moved, settled = obs, txt, eps, moved, out.Settled
	case "tun":
		pi := pl.Peer % len(r.peers)
		pkt := ref.IPv4([4]byte{10, 9, 9, 9}, tunDst[pi], 60, byte(pi))
		hid := r.hidNext + 1
		t := r.now()
		out := r.w.TunIn(pkt)
		obs, txt, eps, moved := r.observe(out, 0, hid, nil)
		if di := r.devInit[pi]; di != nil && di.hid == hid {
			r.hidNext = hid
		}
		rec.Event = fmt.Sprintf("ET %d %d %d", t, keyNum(pi), hid)
		rec.Obs, rec.Outs, rec.Eps, rec.Moved, settled = obs, txt, eps, moved, out.Settled
	case "uapi":
		pi := pl.Peer % len(r.peers)
		hid := r.hidNext + 1
		// endpoint reconfiguration classes relative to the peer's CURRENT endpoint (configured or learnt by roaming)
		if cur, err := netip.ParseAddrPort(r.w.Dev.VerifPeer(r.peers[pi].NoisePub()).Endpoint); err == nil {
			switch pl.Content {
			case "sameip": // same host, another port
				from = netip.AddrPortFrom(cur.Addr(), cur.Port()+1+uint16(mrand.Intn(3)))
			case "sameport": // another host, same port
				a := r.addrs[(pl.From+1)%len(r.addrs)].Addr()
				if a == cur.Addr() {
					a = r.addrs[(pl.From+2)%len(r.addrs)].Addr()
				}
				from = netip.AddrPortFrom(a, cur.Port())
			case "same":
				from = cur
			case "otherfamily": // v4 -> v6 and back
				if cur.Addr().Is4() {
					from = netip.AddrPortFrom(netip.MustParseAddr("2001:db8::7"), cur.Port())
				} else {
					from = netip.AddrPortFrom(netip.MustParseAddr("192.0.2.7"), cur.Port())
				}
			}
			ip, port = r.addrDesc(from)
		}
		t := r.now()
		err, out := r.w.Set(fmt.Sprintf("public_key=%s\nendpoint=%s\n", hex.EncodeToString(r.peers[pi].Pub[:]), from))
		if err != nil {
			panic(err)
		}
		obs, txt, eps, moved := r.observe(out, 0, hid, nil)
		if di := r.devInit[pi]; di != nil && di.hid == hid {
			r.hidNext = hid
		}
		rec.Event = fmt.Sprintf("EU %d %d %d %d %d", t, keyNum(pi), ip, port, hid)
		rec.Obs, rec.Outs, rec.Eps, rec.Moved, settled = obs, txt, eps, moved, out.Settled
	default:
		return true
	}
	*recs = append(*recs, rec)
	return settled
}

func runCase(gen string, plan []Plan, batch int) Case {
	c := Case{Gen: gen, Plan: plan, Batch: batch}
	for attempt := 0; attempt < 4; attempt++ {
		r, err := newRun(batch)
		if err != nil {
			panic(err)
		}
		var recs []StepRec
		// endpoints at the start
		_, _, eps0, _ := r.observe(cosim.Out{Settled: true}, 0, 0, nil)
		_ = eps0
		ok := true
		for _, pl := range plan {
			if !r.exec(pl, &recs) {
				ok = false
				break
			}
		}
		wall := time.Since(r.t0)
		r.w.Close()
		if ok && !r.ambig && wall < 2*time.Second {
			c.Steps = recs
			var sb strings.Builder
			var ps []string
			for i, p := range r.peers {
				if p.Addr.IsValid() {
					ip, port := r.addrDesc(p.Addr)
					ps = append(ps, fmt.Sprintf("(%d, Some (%d, %d))", keyNum(i), ip, port))
				} else {
					ps = append(ps, fmt.Sprintf("(%d, None)", keyNum(i)))
				}
			}
			fmt.Fprintf(&sb, "mk %d [%s] [", baseNs, strings.Join(ps, "; "))
			for i, s := range c.Steps {
				if i > 0 {
					sb.WriteString(";\n  ")
				}
				fmt.Fprintf(&sb, "(%s, %s)", s.Event, s.Obs)
			}
			sb.WriteString("]")
			c.Gallina = sb.String()
			return c
		}
		c.Slow++
	}
	c.Steps = nil
	c.Gallina = fmt.Sprintf("mk %d [] []", baseNs)
	return c
}

// ---------------------------------------------------------------- generators

func batchOf(els ...Elem) Plan { return Plan{Op: "batch", Elems: els} }

func handshakeAsResponder(pi, from int) []Plan {
	return []Plan{{Op: "init", Peer: pi, From: from, Mac1: "ok", Content: "good"}}
}

func handshakeAsInitiator(pi, from int) []Plan {
	return []Plan{{Op: "shifths", Peer: pi, D: 6}, {Op: "tun", Peer: pi}, {Op: "resp", Peer: pi, From: from, Mac1: "ok", Content: "good"}}
}

var badElemKinds = []string{"replay", "badtag", "badidx", "old", "crossidx"}
var goodElemKinds = []string{"good", "good", "jump", "inwindow"}

func genRoamTransport(r *mrand.Rand) []Plan {
	pi := r.Intn(3)
	home := pi
	var p []Plan
	if r.Intn(2) == 0 {
		p = append(p, handshakeAsResponder(pi, home)...)
	} else if pi != 2 {
		p = append(p, handshakeAsInitiator(pi, home)...)
	} else {
		p = append(p, handshakeAsResponder(pi, home)...)
	}
	p = append(p, batchOf(Elem{Peer: pi, From: home, Kind: "good", Data: r.Intn(2) == 0}), Plan{Op: "tun", Peer: pi})
	n := 3 + r.Intn(6)
	for i := 0; i < n; i++ {
		from := r.Intn(len(addrTable))
		switch r.Intn(7) {
		case 0, 1:
			p = append(p, batchOf(Elem{Peer: pi, From: from, Kind: goodElemKinds[r.Intn(len(goodElemKinds))], Data: r.Intn(3) == 0}))
		case 2, 3, 4:
			p = append(p, batchOf(Elem{Peer: pi, From: from, Kind: badElemKinds[r.Intn(len(badElemKinds))]}))
		case 5:
			p = append(p, Plan{Op: "cookie", Peer: pi, From: from})
		case 6:
			p = append(p, Plan{Op: "other", From: from, Size: []int{0, 3, 31, 32, 64, 92, 148, 149}[r.Intn(8)], Type: uint32(r.Intn(7))})
		}
		if r.Intn(2) == 0 {
			p = append(p, Plan{Op: "tun", Peer: pi})
		}
	}
	p = append(p, Plan{Op: "tun", Peer: pi})
	return p
}

func genRoamHandshake(r *mrand.Rand) []Plan {
	pi := r.Intn(3)
	var p []Plan
	p = append(p, handshakeAsResponder(pi, pi)...)
	n := 3 + r.Intn(5)
	for i := 0; i < n; i++ {
		from := r.Intn(len(addrTable))
		mac1 := []string{"ok", "ok", "ok", "junk"}[r.Intn(4)]
		content := []string{"good", "good", "goodnextsec", "replay", "replayold", "corruptstatic", "corruptts", "oldts", "oldbignano", "oldbignano", "flood"}[r.Intn(11)]
		who := pi
		if r.Intn(8) == 0 {
			who = 9
		}
		p = append(p, Plan{Op: "init", Peer: who, From: from, Mac1: mac1, Content: content})
		if content == "good" && mac1 == "ok" && who == pi && r.Intn(3) == 0 {
			// a second valid, newer initiation from elsewhere inside the flood gap
			p = append(p, Plan{Op: "init", Peer: pi, From: r.Intn(len(addrTable)), Mac1: "ok", Content: "flood"})
		}
		if r.Intn(2) == 0 {
			p = append(p, batchOf(Elem{Peer: pi, From: r.Intn(len(addrTable)), Kind: []string{"good", "replay", "oldsess", "badtag"}[r.Intn(4)]}))
		}
		if r.Intn(3) == 0 {
			p = append(p, Plan{Op: "tun", Peer: pi})
		}
	}
	p = append(p, Plan{Op: "tun", Peer: pi})
	return p
}

func genInitiatorRole(r *mrand.Rand) []Plan {
	pi := r.Intn(2)
	var p []Plan
	if r.Intn(3) == 0 {
		p = append(p, Plan{Op: "uapi", Peer: pi, From: r.Intn(len(addrTable))})
	}
	p = append(p, Plan{Op: "shifths", Peer: pi, D: 6}, Plan{Op: "tun", Peer: pi})
	n := 1 + r.Intn(4)
	for i := 0; i < n; i++ {
		from := r.Intn(len(addrTable))
		switch r.Intn(5) {
		case 0:
			p = append(p, Plan{Op: "resp", Peer: pi, From: from, Mac1: "junk", Content: "good"})
		case 1:
			p = append(p, Plan{Op: "resp", Peer: pi, From: from, Mac1: "ok", Content: "corrupt"})
		case 2:
			p = append(p, Plan{Op: "resp", Peer: pi, From: from, Mac1: "ok", Content: "wrongidx"})
		case 3:
			p = append(p, Plan{Op: "cookie", Peer: pi, From: from})
		case 4:
			p = append(p, Plan{Op: "tun", Peer: pi})
		}
	}
	from := r.Intn(len(addrTable))
	p = append(p, Plan{Op: "resp", Peer: pi, From: from, Mac1: "ok", Content: "good"})
	// replayed response from elsewhere, then traffic
	p = append(p, Plan{Op: "resp", Peer: pi, From: r.Intn(len(addrTable)), Mac1: "ok", Content: "replay"}, Plan{Op: "tun", Peer: pi})
	if r.Intn(2) == 0 {
		p = append(p, batchOf(Elem{Peer: pi, From: r.Intn(len(addrTable)), Kind: "good"}), Plan{Op: "tun", Peer: pi})
	}
	if r.Intn(2) == 0 {
		p = append(p, Plan{Op: "uapi", Peer: pi, From: r.Intn(len(addrTable))}, Plan{Op: "tun", Peer: pi})
	}
	return p
}

func genMixedBatch(r *mrand.Rand) []Plan {
	var p []Plan
	for pi := 0; pi < 3; pi++ {
		p = append(p, handshakeAsResponder(pi, pi)...)
	}
	if r.Intn(2) == 0 {
		// staged packets waiting for the confirming transport message
		p = append(p, Plan{Op: "tun", Peer: r.Intn(3)})
	}
	nb := 2 + r.Intn(4)
	for b := 0; b < nb; b++ {
		var els []Elem
		k := 2 + r.Intn(6)
		for i := 0; i < k; i++ {
			kind := goodElemKinds[r.Intn(len(goodElemKinds))]
			if r.Intn(2) == 0 {
				kind = badElemKinds[r.Intn(len(badElemKinds))]
			}
			els = append(els, Elem{Peer: r.Intn(3), From: r.Intn(len(addrTable)), Kind: kind, Data: r.Intn(4) == 0})
		}
		p = append(p, batchOf(els...))
		p = append(p, Plan{Op: "tun", Peer: r.Intn(3)})
	}
	return p
}

func genTwoSessions(r *mrand.Rand) []Plan {
	pi := r.Intn(3)
	p := handshakeAsResponder(pi, pi)
	p = append(p, batchOf(Elem{Peer: pi, From: pi, Kind: "good"}, Elem{Peer: pi, From: pi, Kind: "jump"}))
	p = append(p, handshakeAsResponder(pi, r.Intn(len(addrTable)))...)
	n := 2 + r.Intn(4)
	for i := 0; i < n; i++ {
		kind := []string{"oldsess", "oldsess", "good", "replay", "old", "inwindow", "badtag"}[r.Intn(7)]
		p = append(p, batchOf(Elem{Peer: pi, From: r.Intn(len(addrTable)), Kind: kind}))
		if r.Intn(2) == 0 {
			p = append(p, Plan{Op: "tun", Peer: pi})
		}
	}
	p = append(p, Plan{Op: "init", Peer: pi, From: r.Intn(len(addrTable)), Mac1: "ok", Content: "replay"}, Plan{Op: "tun", Peer: pi})
	return p
}

// replays of earlier valid initiations, responses and transport messages from other addresses after the
// device went Down and Up again (a restart must not make the responder forget what it has already seen)
func genRestart(r *mrand.Rand) []Plan {
	pi := r.Intn(3)
	var p []Plan
	role := r.Intn(3)
	if role == 2 && pi != 2 {
		p = append(p, handshakeAsInitiator(pi, pi)...)
	} else {
		p = append(p, handshakeAsResponder(pi, []int{pi, pi, 4, 6}[r.Intn(4)])...)
		if r.Intn(2) == 0 {
			p = append(p, handshakeAsResponder(pi, r.Intn(len(addrTable)))...)
		}
	}
	if r.Intn(2) == 0 {
		p = append(p, batchOf(Elem{Peer: pi, From: r.Intn(len(addrTable)), Kind: "good"}), Plan{Op: "tun", Peer: pi})
	}
	p = append(p, Plan{Op: "restart"})
	if r.Intn(3) == 0 {
		p = append(p, Plan{Op: "restart"})
	}
	n := 2 + r.Intn(4)
	for i := 0; i < n; i++ {
		from := r.Intn(len(addrTable))
		switch r.Intn(6) {
		case 0, 1:
			p = append(p, Plan{Op: "init", Peer: pi, From: from, Mac1: "ok", Content: "replay"})
		case 2:
			p = append(p, Plan{Op: "init", Peer: pi, From: from, Mac1: "ok", Content: []string{"oldts", "oldbignano", "replayold"}[r.Intn(3)]})
		case 3:
			p = append(p, batchOf(Elem{Peer: pi, From: from, Kind: []string{"replay", "good", "oldsess", "jump"}[r.Intn(4)]}))
		case 4:
			p = append(p, Plan{Op: "resp", Peer: pi, From: from, Mac1: "ok", Content: "replay"})
		case 5:
			p = append(p, Plan{Op: "tun", Peer: pi})
		}
	}
	// where does the device send now, and does a genuine new initiation still move it
	p = append(p, Plan{Op: "tun", Peer: pi}, Plan{Op: "init", Peer: pi, From: r.Intn(len(addrTable)), Mac1: "ok", Content: "good"},
		Plan{Op: "init", Peer: pi, From: r.Intn(len(addrTable)), Mac1: "ok", Content: "replay"}, Plan{Op: "tun", Peer: pi})
	return p
}

// crossed handshakes: the peer re-initiates and the device's answer is "lost" (its next keypair stays
// unconfirmed), then the device's own initiation completes; afterwards transport under every earlier session
// arrives from new addresses.  Also the other crossing: the device's initiation is outstanding when the peer's
// initiation is consumed, then the (now useless) response arrives.
func genCrossed(r *mrand.Rand) []Plan {
	pi := r.Intn(2)
	var p []Plan
	// session 0
	if r.Intn(2) == 0 {
		p = append(p, handshakeAsResponder(pi, pi)...)
		p = append(p, batchOf(Elem{Peer: pi, From: pi, Kind: "good", Data: true}))
	} else {
		p = append(p, handshakeAsInitiator(pi, pi)...)
	}
	if r.Intn(3) != 0 {
		p = append(p, batchOf(Elem{Peer: pi, From: pi, Kind: "jump"}))
	}
	if r.Intn(4) != 0 {
		// the peer re-initiates; nothing is ever sent under the session the device then offers
		p = append(p, Plan{Op: "init", Peer: pi, From: []int{pi, 4, 6}[r.Intn(3)], Mac1: "ok", Content: "good"})
	}
	// the device is made to initiate although it has a current keypair, and completes
	p = append(p, Plan{Op: "setnonce", Peer: pi}, Plan{Op: "shifths", Peer: pi, D: 6}, Plan{Op: "tun", Peer: pi})
	if r.Intn(4) == 0 {
		// other crossing: the peer's initiation is consumed while the device's own is outstanding
		p = append(p, Plan{Op: "init", Peer: pi, From: r.Intn(len(addrTable)), Mac1: "ok", Content: "good"})
	}
	if r.Intn(2) == 0 {
		// the genuine response addressed to a session index instead of the initiation's, from elsewhere
		p = append(p, Plan{Op: "resp", Peer: pi, From: r.Intn(len(addrTable)), Mac1: "ok", Content: "sessidx"}, Plan{Op: "tun", Peer: pi})
	}
	p = append(p, Plan{Op: "resp", Peer: pi, From: []int{pi, 5, 3}[r.Intn(3)], Mac1: "ok", Content: "good"})
	n := 3 + r.Intn(4)
	for i := 0; i < n; i++ {
		kind := []string{"oldsess2", "oldsess2", "oldsess", "good", "replay", "oldsess2"}[r.Intn(6)]
		p = append(p, batchOf(Elem{Peer: pi, From: r.Intn(len(addrTable)), Kind: kind, Data: r.Intn(3) == 0}))
		if r.Intn(2) == 0 {
			p = append(p, Plan{Op: "tun", Peer: pi})
		}
	}
	p = append(p, Plan{Op: "tun", Peer: pi})
	return p
}

// transport under keys older than 180 s — made by the device as responder or as initiator — from new addresses
func genStaleKeys(r *mrand.Rand) []Plan {
	pi := r.Intn(3)
	var p []Plan
	if r.Intn(3) == 0 && pi != 2 {
		p = append(p, handshakeAsInitiator(pi, pi)...)
	} else {
		p = append(p, handshakeAsResponder(pi, pi)...)
		if r.Intn(2) == 0 {
			p = append(p, batchOf(Elem{Peer: pi, From: pi, Kind: "good"})) // confirmed; else the key stays in next
		}
	}
	if r.Intn(3) == 0 {
		p = append(p, handshakeAsResponder(pi, r.Intn(len(addrTable)))...)
	}
	p = append(p, Plan{Op: "agekeys", Peer: pi})
	n := 2 + r.Intn(3)
	for i := 0; i < n; i++ {
		p = append(p, batchOf(Elem{Peer: pi, From: r.Intn(len(addrTable)), Kind: []string{"good", "good", "jump", "oldsess", "replay"}[r.Intn(5)], Data: r.Intn(3) == 0}))
	}
	if r.Intn(2) == 0 {
		p = append(p, Plan{Op: "shifths", Peer: pi, D: 6}, Plan{Op: "tun", Peer: pi})
	}
	// a new handshake brings fresh keys: roaming works again
	p = append(p, Plan{Op: "init", Peer: pi, From: r.Intn(len(addrTable)), Mac1: "ok", Content: "good"},
		batchOf(Elem{Peer: pi, From: r.Intn(len(addrTable)), Kind: "good"}), batchOf(Elem{Peer: pi, From: r.Intn(len(addrTable)), Kind: "oldsess"}), Plan{Op: "tun", Peer: pi})
	return p
}

// UAPI endpoint= re-pointing an existing peer: same host/other port, other host/same port, identical, other
// address family — from the configured endpoint and from one learnt by roaming; a TUN packet after each shows
// where the next datagram goes (transport with a session, initiation without)
func genReconfigure(r *mrand.Rand) []Plan {
	pi := r.Intn(3)
	var p []Plan
	classes := []string{"sameip", "sameip", "sameport", "same", "otherfamily", ""}
	switch r.Intn(3) {
	case 0: // no session: the device initiates toward whatever is configured
	case 1:
		p = append(p, handshakeAsResponder(pi, pi)...)
		p = append(p, batchOf(Elem{Peer: pi, From: pi, Kind: "good"}))
	case 2: // endpoint learnt by roaming
		p = append(p, handshakeAsResponder(pi, r.Intn(len(addrTable)))...)
		p = append(p, batchOf(Elem{Peer: pi, From: r.Intn(len(addrTable)), Kind: "good"}))
	}
	n := 2 + r.Intn(4)
	for i := 0; i < n; i++ {
		p = append(p, Plan{Op: "uapi", Peer: pi, From: r.Intn(len(addrTable)), Content: classes[r.Intn(len(classes))]})
		p = append(p, Plan{Op: "shifths", Peer: pi, D: 6}, Plan{Op: "tun", Peer: pi})
		if r.Intn(3) == 0 {
			p = append(p, batchOf(Elem{Peer: pi, From: r.Intn(len(addrTable)), Kind: []string{"good", "badtag", "replay"}[r.Intn(3)]}), Plan{Op: "tun", Peer: pi})
		}
	}
	return p
}

func genMix(r *mrand.Rand) []Plan {
	var p []Plan
	n := 8 + r.Intn(12)
	for i := 0; i < n; i++ {
		pi := r.Intn(3)
		from := r.Intn(len(addrTable))
		switch r.Intn(13) {
		case 10:
			p = append(p, Plan{Op: "restart"})
		case 12:
			p = append(p, Plan{Op: "agekeys", Peer: pi})
		case 11:
			p = append(p, Plan{Op: "setnonce", Peer: pi}, Plan{Op: "shifths", Peer: pi, D: 6}, Plan{Op: "tun", Peer: pi})
		case 0, 1:
			p = append(p, Plan{Op: "init", Peer: []int{pi, pi, pi, 9}[r.Intn(4)], From: from, Mac1: []string{"ok", "ok", "junk"}[r.Intn(3)],
				Content: []string{"good", "good", "goodnextsec", "replay", "replayold", "corruptstatic", "corruptts", "oldts", "oldbignano", "flood"}[r.Intn(10)]})
		case 2:
			p = append(p, Plan{Op: "shifths", Peer: pi, D: 6}, Plan{Op: "tun", Peer: pi})
		case 3:
			p = append(p, Plan{Op: "resp", Peer: pi, From: from, Mac1: []string{"ok", "ok", "junk"}[r.Intn(3)],
				Content: []string{"good", "good", "corrupt", "wrongidx", "sessidx", "replay"}[r.Intn(6)]})
		case 4, 5, 6:
			var els []Elem
			k := 1 + r.Intn(4)
			for j := 0; j < k; j++ {
				kinds := append(append([]string{}, goodElemKinds...), badElemKinds...)
				kinds = append(kinds, "oldsess", "oldsess2")
				els = append(els, Elem{Peer: r.Intn(3), From: r.Intn(len(addrTable)), Kind: kinds[r.Intn(len(kinds))], Data: r.Intn(4) == 0})
			}
			p = append(p, batchOf(els...))
		case 7:
			p = append(p, Plan{Op: "tun", Peer: pi})
		case 8:
			p = append(p, Plan{Op: "uapi", Peer: pi, From: from, Content: []string{"", "sameip", "sameport", "same", "otherfamily"}[r.Intn(5)]})
		case 9:
			p = append(p, Plan{Op: "cookie", Peer: pi, From: from})
		}
	}
	return p
}

// ---------------------------------------------------------------- loopback pass over the real StdNetBind

// loopback runs the device on conn.NewStdNetBind() over 127.0.0.1 (and ::1 when available): the remote peer and a
// stranger are plain UDP sockets.  After the peer's endpoint was LEARNT from an authentic packet, datagrams
// of every kind from the stranger (and forged ones "from the peer's key" without valid content) must leave the
// endpoint (IpcGet) where it is, and the next datagrams for the peer (triggered by TUN packets) must still
// arrive at the peer's socket and not at the stranger's.  Then the peer roams to a second socket with an
// authentic packet and the checks are repeated.  Skipped (never a violation) when sockets are unavailable.
func loopback() *Loopback {
	lb := &Loopback{Status: "skipped"}
	fams := []string{"127.0.0.1", "::1"}
	done := 0
	for _, host := range fams {
		st, detail, checks, lg := loopbackFamily(host)
		lb.Log = append(lb.Log, lg...)
		lb.Checks += checks
		switch st {
		case "violation":
			lb.Status, lb.Detail = "violation", host+": "+detail
			return lb
		case "ok":
			done++
		default:
			lb.Log = append(lb.Log, host+": skipped: "+detail)
		}
	}
	if done > 0 {
		lb.Status = "ok"
		lb.Detail = fmt.Sprintf("%d address families, %d checks", done, lb.Checks)
	} else {
		lb.Detail = "no loopback UDP sockets"
	}
	return lb
}

func udpSock(host string) (*net.UDPConn, netip.AddrPort, error) {
	c, err := net.ListenUDP("udp", &net.UDPAddr{IP: net.ParseIP(host), Port: 0})
	if err != nil {
		return nil, netip.AddrPort{}, err
	}
	ap := c.LocalAddr().(*net.UDPAddr).AddrPort()
	return c, netip.AddrPortFrom(ap.Addr().Unmap(), ap.Port()), nil
}

func readOne(c *net.UDPConn, d time.Duration) []byte {
	buf := make([]byte, 2048)
	c.SetReadDeadline(time.Now().Add(d))
	n, _, err := c.ReadFromUDP(buf)
	if err != nil {
		return nil
	}
	return buf[:n]
}

func loopbackFamily(host string) (status, detail string, checks int, lg []string) {
	peerSock, peerAddr, err := udpSock(host)
	if err != nil {
		return "skipped", err.Error(), 0, nil
	}
	defer peerSock.Close()
	roamSock, roamAddr, err := udpSock(host)
	if err != nil {
		return "skipped", err.Error(), 0, nil
	}
	defer roamSock.Close()
	strSock, strAddr, err := udpSock(host)
	if err != nil {
		return "skipped", err.Error(), 0, nil
	}
	defer strSock.Close()

	tunDev := sim.NewTun(1, 1420)
	dev := device.NewDevice(tunDev, conn.NewStdNetBind(), device.NewLogger(device.LogLevelSilent, ""))
	defer dev.Close()
	devPriv := ref.NewPrivate()
	devPub := ref.PubOf(devPriv)
	p := cosim.NewPeer("L", "", "10.0.0.2/32")
	cfg := fmt.Sprintf("private_key=%s\nlisten_port=0\npublic_key=%s\nallowed_ip=10.0.0.2/32\n", hex.EncodeToString(devPriv[:]), hex.EncodeToString(p.Pub[:]))
	if err := dev.IpcSet(cfg); err != nil {
		return "skipped", "IpcSet: " + err.Error(), 0, nil
	}
	if err := dev.Up(); err != nil {
		return "skipped", "Up: " + err.Error(), 0, nil
	}
	port := 0
	get, _ := dev.IpcGet()
	for _, l := range strings.Split(get, "\n") {
		if strings.HasPrefix(l, "listen_port=") {
			fmt.Sscanf(l, "listen_port=%d", &port)
		}
	}
	if port == 0 {
		return "skipped", "no listen port", 0, nil
	}
	devUDP := &net.UDPAddr{IP: net.ParseIP(host), Port: port}
	endpoint := func() string {
		g, _ := dev.IpcGet()
		for _, l := range strings.Split(g, "\n") {
			if strings.HasPrefix(l, "endpoint=") {
				return strings.TrimPrefix(l, "endpoint=")
			}
		}
		return ""
	}
	// genuine handshake from peerSock
	ts := uint64(time.Now().UnixNano())
	handshake := func(sock *net.UDPConn) (*ref.Session, []byte) {
		ts += 1e9
		p.NextIdx++
		st := ref.CreateInitiation(p.Priv, ref.NewPrivate(), devPub, p.Psk, p.NextIdx, ref.Tai64nRaw(0x400000000000000a+ts/1e9, uint32(ts%1e9)))
		sock.WriteToUDP(st.Msg, devUDP)
		resp := readOne(sock, 700*time.Millisecond)
		if resp == nil {
			return nil, st.Msg
		}
		sess, err := st.ConsumeResponse(resp)
		if err != nil {
			return nil, st.Msg
		}
		sock.WriteToUDP(sess.Next(nil), devUDP) // confirm
		return sess, st.Msg
	}
	sess, firstInit := handshake(peerSock)
	if sess == nil {
		return "skipped", "no handshake over loopback", 0, nil
	}
	time.Sleep(20 * time.Millisecond)
	home, homeSock, homeAddr := peerAddr.String(), peerSock, peerAddr
	if ep := endpoint(); ep != home {
		return "violation", fmt.Sprintf("endpoint after the handshake from %s is %s", home, ep), 1, nil
	}
	lg = append(lg, fmt.Sprintf("%s: endpoint learnt %s, stranger %s", host, home, strAddr))
	inner := ref.IPv4([4]byte{10, 9, 9, 9}, [4]byte{10, 0, 0, 2}, 60, 1)
	// after each foreign datagram: endpoint unchanged, next datagram for the peer arrives at the peer
	check := func(what string) (string, bool) {
		time.Sleep(10 * time.Millisecond)
		checks++
		if ep := endpoint(); ep != home {
			return fmt.Sprintf("after %s from %s: endpoint = %s, want it to stay %s", what, strAddr, ep, home), false
		}
		tunDev.Inject(inner)
		got := readOne(homeSock, 500*time.Millisecond)
		if got == nil || len(got) < 32 || got[0] != ref.TypeTransport {
			stray := readOne(strSock, 50*time.Millisecond)
			return fmt.Sprintf("after %s from %s: the next datagram for the peer did not arrive at %s (stranger received %d bytes)", what, strAddr, home, len(stray)), false
		}
		if _, _, pt, err := sess.OpenTransport(got); err != nil || !bytes.Equal(pt[:len(inner)], inner) {
			return fmt.Sprintf("after %s: datagram at the peer does not open", what), false
		}
		if stray := readOne(strSock, 5*time.Millisecond); stray != nil {
			return fmt.Sprintf("after %s: the stranger received %d bytes from the device", what, len(stray)), false
		}
		_ = homeAddr
		return "", true
	}
	junk := func(n int, tw uint32) []byte {
		b := make([]byte, n)
		rand.Read(b)
		if n >= 4 {
			binary.LittleEndian.PutUint32(b[:4], tw)
		}
		return b
	}
	round := func() (string, bool) {
		forged := []struct {
			what string
			data []byte
		}{
			{"one byte", []byte{0}},
			{"unknown type, 32 bytes", junk(32, 9)},
			{"garbage initiation (148 bytes, bad MAC1)", junk(148, 1)},
			{"garbage response (92 bytes)", junk(92, 2)},
			{"garbage cookie reply (64 bytes)", junk(64, 3)},
			{"transport for an unknown index", junk(48, 4)},
			{"replayed genuine initiation", firstInit},
			{"replayed transport message", sess.Transport(0, nil)},
		}
		for _, f := range forged {
			strSock.WriteToUDP(f.data, devUDP)
			if d, ok := check(f.what); !ok {
				return d, false
			}
		}
		return "", true
	}
	if d, ok := round(); !ok {
		return "violation", d, checks, lg
	}
	// the peer roams: an authentic fresh transport message from another socket moves the endpoint there
	roamSock.WriteToUDP(sess.Next(nil), devUDP)
	time.Sleep(10 * time.Millisecond)
	checks++
	if ep := endpoint(); ep != roamAddr.String() {
		return "violation", fmt.Sprintf("authentic transport message from %s did not move the endpoint (it is %s)", roamAddr, ep), checks, lg
	}
	home, homeSock, homeAddr = roamAddr.String(), roamSock, roamAddr
	if d, ok := round(); !ok {
		return "violation", "after roaming: " + d, checks, lg
	}
	return "ok", "", checks, lg
}

// ---------------------------------------------------------------- concurrent initiations of one peer

// racePass: two fresh initiations of the SAME peer (timestamps t1 < t2) arrive in one receive batch, so two
// handshake workers take them at the same moment; many peers per batch, several rounds.  Whatever the workers
// do with each other, an initiation the device has CONSUMED (it answered it) must never be consumed again: after
// the handshake times are shifted past the flood gap every answered initiation is replayed from another address;
// a response to a replay, or an endpoint that follows it, is a violation.  Judged in Go.
func racePass(rounds int) *RacePass {
	rp := &RacePass{Status: "skipped"}
	const npeers = 24
	var peers []*cosim.RefPeer
	for i := 0; i < npeers; i++ {
		peers = append(peers, cosim.NewPeer(fmt.Sprintf("R%d", i), fmt.Sprintf("192.0.2.%d:%d", 10+i, 2000+i), fmt.Sprintf("10.2.%d.0/24", i)))
	}
	w, err := cosim.NewWorld(cosim.Config{Up: true, BindBatch: 128}, true, peers...)
	if err != nil {
		rp.Detail = err.Error()
		return rp
	}
	defer w.Close()
	w.Timeout = 5 * time.Second
	ts := uint64(time.Now().UnixNano())
	stranger := netip.MustParseAddrPort("203.0.113.200:999")
	for round := 0; round < rounds; round++ {
		type sent struct {
			st   *ref.InitiatorState
			peer int
		}
		byIdx := map[[2]uint32]*sent{} // (peer, sender index)
		var ds []sim.Dgram
		for i, p := range peers {
			w.Dev.VerifShiftHandshakeTimes(p.NoisePub(), time.Second)
			for k := 0; k < 2; k++ {
				ts += 1000
				p.NextIdx++
				st := ref.CreateInitiation(p.Priv, ref.NewPrivate(), w.DevPub, p.Psk, p.NextIdx, ref.Tai64nRaw(0x400000000000000a+ts/1e9, uint32(ts%1e9)))
				byIdx[[2]uint32{uint32(i), p.NextIdx}] = &sent{st, i}
				ds = append(ds, sim.Dgram{From: p.Addr, Data: st.Msg})
			}
			rp.Pairs++
		}
		out := w.InjectBatch(ds...)
		if !out.Settled {
			rp.Detail = "a round did not settle"
			return rp
		}
		// which initiations were consumed: the ones that were answered
		var answered []*sent
		perPeer := map[int]int{}
		for _, s := range out.Sent {
			d := s.Data
			if len(d) != ref.ResponseSize || d[0] != ref.TypeResponse {
				continue
			}
			recv := binary.LittleEndian.Uint32(d[8:12])
			for i, p := range peers {
				if ref.CheckMac1(d, p.Pub) {
					if x := byIdx[[2]uint32{uint32(i), recv}]; x != nil {
						answered = append(answered, x)
						perPeer[i]++
					}
				}
			}
		}
		for _, n := range perPeer {
			if n == 2 {
				rp.BothUsed++
			}
		}
		// past the flood gap, replay every consumed initiation from a stranger's address
		var rs []sim.Dgram
		for i, p := range peers {
			_ = i
			w.Dev.VerifShiftHandshakeTimes(p.NoisePub(), time.Second)
		}
		for _, x := range answered {
			rs = append(rs, sim.Dgram{From: stranger, Data: x.st.Msg})
		}
		rp.Replays += len(rs)
		if len(rs) == 0 {
			continue
		}
		out = w.InjectBatch(rs...)
		for _, s := range out.Sent {
			if len(s.Data) == ref.ResponseSize && s.Data[0] == ref.TypeResponse {
				rp.Status = "violation"
				rp.Detail = fmt.Sprintf("round %d: a replayed, already consumed initiation sent from %s was answered again (response to %s); %d pairs so far, %d with both initiations consumed",
					round, stranger, s.To, rp.Pairs, rp.BothUsed)
				return rp
			}
		}
		for i, p := range peers {
			if ep := w.Dev.VerifPeer(p.NoisePub()).Endpoint; ep != p.Addr.String() {
				rp.Status = "violation"
				rp.Detail = fmt.Sprintf("round %d: endpoint of peer %d is %s after replays from %s, want %s", round, i, ep, stranger, p.Addr)
				return rp
			}
		}
	}
	rp.Status = "ok"
	rp.Detail = fmt.Sprintf("%d pairs, both consumed in %d, %d replays of consumed initiations all refused", rp.Pairs, rp.BothUsed, rp.Replays)
	return rp
}

// ---------------------------------------------------------------- output

func writeShard(path string, cases []Case) error {
	var b strings.Builder
	b.WriteString("From Coq Require Import Uint63.\nFrom WG Require Import Base.Prelude Roaming.Model Roaming.Spec Roaming.Check.\nLocal Open Scope N_scope.\nDefinition cases : list case := [\n")
	for i, c := range cases {
		if i > 0 {
			b.WriteString(";\n")
		}
		b.WriteString(c.Gallina)
	}
	b.WriteString("].\nDefinition bad := Eval vm_compute in (check_cases cases 0).\nPrint bad.\nDefinition st := Eval vm_compute in (stats cases).\nPrint st.\n")
	return os.WriteFile(path, []byte(b.String()), 0o644)
}

func main() {
	seed := flag.Int64("seed", 1, "PRNG seed")
	n := flag.Int("n", 120, "number of generated scenarios")
	shards := flag.Int("shards", 8, "case files")
	out := flag.String("out", "out/C11", "output directory")
	replayIn := flag.String("replay", "", "JSON file with cases (plans) to run")
	corpus := flag.String("corpus", "", "directory of corpus JSON cases to run first")
	noLoop := flag.Bool("noloopback", false, "skip the pass over the real StdNetBind on loopback")
	raceRounds := flag.Int("racerounds", 12, "rounds of the concurrent-initiation pass (0 = skip)")
	flag.Parse()
	if err := os.MkdirAll(*out, 0o755); err != nil {
		panic(err)
	}
	var cases []Case
	if *replayIn != "" {
		data, err := os.ReadFile(*replayIn)
		if err != nil {
			panic(err)
		}
		var in []Case
		if err := json.Unmarshal(data, &in); err != nil {
			panic(err)
		}
		for _, c := range in {
			if c.Loop != nil {
				cases = append(cases, Case{Gen: "loopback-stdnetbind", Loop: loopback(), Gallina: fmt.Sprintf("mk %d [] []", baseNs)})
				continue
			}
			if c.Race != nil {
				cases = append(cases, Case{Gen: "concurrent-initiations", Race: racePass(60), Gallina: fmt.Sprintf("mk %d [] []", baseNs)})
				continue
			}
			b := c.Batch
			if b == 0 {
				b = 8
			}
			cases = append(cases, runCase(c.Gen, c.Plan, b))
		}
		*shards = 1
	} else {
		if *corpus != "" {
			files, _ := filepath.Glob(filepath.Join(*corpus, "*.json"))
			sort.Strings(files)
			for _, f := range files {
				data, err := os.ReadFile(f)
				if err != nil {
					continue
				}
				var cs []Case
				if json.Unmarshal(data, &cs) == nil {
					for _, c := range cs {
						if len(c.Plan) > 0 {
							b := c.Batch
							if b == 0 {
								b = 8
							}
							cases = append(cases, runCase("corpus:"+filepath.Base(f), c.Plan, b))
						}
					}
				}
			}
		}
		if !*noLoop {
			cases = append(cases, Case{Gen: "loopback-stdnetbind", Loop: loopback(), Gallina: fmt.Sprintf("mk %d [] []", baseNs)})
		}
		if *raceRounds > 0 {
			cases = append(cases, Case{Gen: "concurrent-initiations", Race: racePass(*raceRounds), Gallina: fmt.Sprintf("mk %d [] []", baseNs)})
		}
		r := mrand.New(mrand.NewSource(*seed))
		gens := []struct {
			name string
			f    func(*mrand.Rand) []Plan
			w    int
		}{{"roam-transport", genRoamTransport, 4}, {"roam-handshake", genRoamHandshake, 4}, {"initiator-role", genInitiatorRole, 3},
			{"mixed-batch", genMixedBatch, 3}, {"two-sessions", genTwoSessions, 2}, {"restart", genRestart, 4}, {"crossed", genCrossed, 4}, {"stale-keys", genStaleKeys, 3}, {"reconfigure", genReconfigure, 3}, {"mix", genMix, 4}}
		tot := 0
		for _, g := range gens {
			tot += g.w
		}
		for i := 0; i < *n; i++ {
			x := r.Intn(tot)
			batch := []int{1, 4, 8, 16, 128}[r.Intn(5)]
			for _, g := range gens {
				if x < g.w {
					if g.name == "mixed-batch" && batch == 1 {
						batch = 8
					}
					cases = append(cases, runCase(g.name, g.f(r), batch))
					break
				}
				x -= g.w
			}
		}
	}
	if *shards > len(cases) {
		*shards = len(cases)
	}
	if *shards < 1 {
		*shards = 1
	}
	per := (len(cases) + *shards - 1) / *shards
	type shardInfo struct {
		File  string `json:"file"`
		First int    `json:"first"`
		N     int    `json:"n"`
	}
	var infos []shardInfo
	idx := 0
	for s := 0; s < *shards && idx < len(cases); s++ {
		end := idx + per
		if end > len(cases) {
			end = len(cases)
		}
		name := fmt.Sprintf("cases_C11_%d.v", s)
		if err := writeShard(filepath.Join(*out, name), cases[idx:end]); err != nil {
			panic(err)
		}
		infos = append(infos, shardInfo{name, idx, end - idx})
		idx = end
	}
	meta := map[string]any{"seed": *seed, "cases": cases, "shards": infos}
	data, _ := json.Marshal(meta)
	if err := os.WriteFile(filepath.Join(*out, "cases.json"), data, 0o644); err != nil {
		panic(err)
	}
}
