// c05 drives replay.Filter (public API) with generated counter histories and
// writes them, with the observed verdicts, as Gallina case files + JSON.
package main

import (
	"encoding/json"
	"flag"
	"fmt"
	"math/rand"
	"os"
	"os/exec"
	"path/filepath"
	"strings"

	"time"

	"golang.zx2c4.com/wireguard/device"
	"golang.zx2c4.com/wireguard/replay"

	"encoding/binary"

	"wgv/cosim"
	"wgv/ref"
	"wgv/sim"
)

type Op struct {
	C     uint64 `json:"c"`
	L     uint64 `json:"l"`
	Reset bool   `json:"reset,omitempty"`
}

type Case struct {
	Ops []Op   `json:"ops"`
	Obs []bool `json:"obs"`
	Gen string `json:"gen"`
}

const limitDev = uint64(device.RejectAfterMessages)

// limitSpec is the number the PROPERTY names (2^64-2^13-1), written out: device histories are
// judged against it, not against whatever the code's constant currently is, so that a changed
// constant is reported with the concrete counter that is wrongly accepted or refused.
const limitSpec = uint64(1<<64 - 1<<13 - 1)

func runImpl(ops []Op) []bool {
	var f replay.Filter
	obs := make([]bool, len(ops))
	for i, o := range ops {
		if o.Reset {
			f.Reset()
			obs[i] = true
		} else {
			obs[i] = f.ValidateCounter(o.C, o.L)
		}
	}
	return obs
}

// runDevice replays a history against a real device: every Validate op is an
// authenticated transport message with that counter sent by the ref peer under
// one of the peer's LIVE session keys; the verdict is whether its inner packet
// (tagged with the op number) reaches the TUN.  Reset is a new handshake: the
// device then holds two live keys (the old current one and the new one), and
// later ops are spread over both, delivered in receive batches of 1..4 that
// mix the two keys.  Forged datagrams (right receiver index, chosen counter,
// corrupted tag) are interleaved: they must write nothing and must not change
// any later verdict.  The result is one history per session key (a fresh key
// has a fresh filter), in arrival order.
func runDevice(r *rand.Rand, ops []Op) ([]Case, error) {
	a := cosim.NewPeer("A", "192.0.2.7:5555", "10.0.0.2/32")
	w, err := cosim.NewWorld(cosim.Config{Up: true, BindBatch: 8, TunBatch: 8}, true, a)
	if err != nil {
		return nil, err
	}
	defer w.Close()
	hs := func() (*ref.Session, error) {
		w.Dev.VerifShiftHandshakeTimes(cosim.NoisePK(a.Pub), time.Second)
		_, _, sess, err := w.RefInitiates(a, a.Addr, ref.Tai64n(time.Now()))
		return sess, err
	}
	type sessHist struct {
		sess *ref.Session
		c    Case
	}
	var all []*sessHist
	first, err := hs()
	if err != nil {
		return nil, err
	}
	// The device (responder) holds a new key in "next" until a message under it is accepted; then
	// next -> current -> previous.  A further handshake empties previous and replaces an
	// unconfirmed next.  So at any time exactly these are live: {prev, cur} or {cur, nxt}.
	var prev, cur *sessHist
	nxt := &sessHist{sess: first, c: Case{Gen: "device"}}
	all = append(all, nxt)
	pick := func() *sessHist {
		var cands []*sessHist
		for _, h := range []*sessHist{prev, cur, nxt} {
			if h != nil {
				cands = append(cands, h)
			}
		}
		h := cands[len(cands)-1]
		if len(cands) == 2 && r.Intn(3) == 0 {
			h = cands[0]
		}
		return h
	}
	mkInner := func(tag uint32) []byte {
		p := ref.IPv4([4]byte{10, 0, 0, 2}, [4]byte{10, 9, 9, 9}, 37, 3)
		binary.BigEndian.PutUint32(p[20:], tag)
		return ref.Pad(p)
	}
	type pending struct {
		h   *sessHist
		pos int
		tag uint32
	}
	i := 0
	tag := uint32(0)
	for i < len(ops) {
		if ops[i].Reset {
			time.Sleep(time.Millisecond)
			ns, err := hs()
			if err != nil {
				return nil, err
			}
			nh := &sessHist{sess: ns, c: Case{Gen: "device"}}
			all = append(all, nh)
			prev, nxt = nil, nh
			i++
			continue
		}
		n := 1 + r.Intn(4)
		var batch []sim.Dgram
		var pend []pending
		forged := map[uint32]bool{}
		// At most one op of a batch travels as a keepalive (empty plaintext): it never reaches the
		// TUN, so its verdict is read off the peer's rx byte counter (the sequential receiver adds
		// len(plaintext)+32 for every message that passed the replay filter, before it looks at
		// the length).  One per batch keeps the attribution exact.
		kaPos := -1
		if r.Intn(3) == 0 {
			kaPos = r.Intn(n)
		}
		var kaPend *pending
		rx0 := w.Dev.VerifPeer(cosim.NoisePK(a.Pub)).RxBytes
		for k := 0; k < n && i < len(ops) && !ops[i].Reset; k++ {
			h := pick()
			o := ops[i]
			if r.Intn(7) == 0 { // forged: same key index, adversarial counter, bad tag
				fc := o.C
				if r.Intn(2) == 0 {
					fc = limitSpec - 2
				}
				tag++
				m := h.sess.Transport(fc, mkInner(tag))
				m[len(m)-1] ^= 0x40
				forged[tag] = true
				batch = append(batch, sim.Dgram{From: a.Addr, Data: m})
			}
			if k == kaPos {
				batch = append(batch, sim.Dgram{From: a.Addr, Data: h.sess.Transport(o.C, nil)})
				h.c.Ops = append(h.c.Ops, Op{C: o.C, L: limitSpec})
				h.c.Obs = append(h.c.Obs, false)
				kaPend = &pending{h, len(h.c.Ops) - 1, 0}
				i++
				continue
			}
			tag++
			batch = append(batch, sim.Dgram{From: a.Addr, Data: h.sess.Transport(o.C, mkInner(tag))})
			h.c.Ops = append(h.c.Ops, Op{C: o.C, L: limitSpec})
			h.c.Obs = append(h.c.Obs, false)
			pend = append(pend, pending{h, len(h.c.Ops) - 1, tag})
			i++
		}
		out := w.InjectBatch(batch...)
		if !out.Settled {
			return nil, fmt.Errorf("batch before op %d did not settle", i)
		}
		seen := map[uint32]int{}
		for _, wr := range out.Written {
			if len(wr.Data) < 24 {
				return nil, fmt.Errorf("short TUN write")
			}
			seen[binary.BigEndian.Uint32(wr.Data[20:])]++
		}
		for t, cnt := range seen {
			if forged[t] {
				return nil, fmt.Errorf("forged datagram (tag %d) reached the TUN", t)
			}
			if cnt > 1 {
				return nil, fmt.Errorf("datagram tag %d written %d times", t, cnt)
			}
		}
		dataBytes := uint64(0)
		for _, p := range pend {
			p.h.c.Obs[p.pos] = seen[p.tag] == 1
			if p.h.c.Obs[p.pos] {
				dataBytes += uint64(len(mkInner(p.tag)) + 32)
			}
			if p.h == nxt && p.h.c.Obs[p.pos] { // confirmed
				prev, cur, nxt = cur, nxt, nil
			}
		}
		if kaPend != nil {
			delta := w.Dev.VerifPeer(cosim.NoisePK(a.Pub)).RxBytes - rx0
			switch delta {
			case dataBytes:
			case dataBytes + 32:
				kaPend.h.c.Obs[kaPend.pos] = true
				if kaPend.h == nxt {
					prev, cur, nxt = cur, nxt, nil
				}
			default:
				return nil, fmt.Errorf("rx byte counter moved by %d for %d accepted data bytes and one keepalive", delta, dataBytes)
			}
		}
	}
	var res []Case
	for _, h := range all {
		if len(h.c.Ops) > 0 {
			res = append(res, h.c)
		}
	}
	return res, nil
}

var jumps = []uint64{1, 1, 1, 2, 3, 62, 63, 64, 65, 66, 127, 128, 129, 8063, 8064, 8065, 8127, 8128, 8129, 8130, 8191, 8192, 8193, 8255, 8256, 8257, 16383, 16384, 16385, 1 << 20, 1 << 32, 1<<32 + 1,
	// forward jumps whose BLOCK distance is 0 or small modulo 2^8 / 2^16 / 2^32 (a distance kept in a narrower integer
	// clears too little of the ring: the stale bit of the old counter then shadows the fresh one)
	1 << 22, 1<<22 + 64, 1<<22 + 8128, 1 << 38, 1<<38 + 1, 1<<38 + 64, 1<<38 + 8000, 2 << 38, 5 << 38, 1 << 46, 1<<54 + 63}
var backs = []uint64{0, 1, 2, 62, 63, 64, 65, 127, 128, 4000, 8063, 8064, 8065, 8126, 8127, 8128, 8129, 8130, 8191, 8192, 8193, 9000, 16384}

func genHistory(r *rand.Rand, n int) ([]Op, string) {
	limit := limitDev
	kind := "dev-limit"
	switch r.Intn(10) {
	case 0:
		limit = uint64(1000 + r.Intn(100000))
		kind = "small-limit"
	case 1:
		limit = ^uint64(0)
		kind = "max-limit"
	}
	starts := []uint64{0, 0, 1, 63, 64, 8127, 8128, 8129, 8192, 1 << 20, 1<<32 - 1, 1 << 32, 1 << 62, limit - 20000, limit - 8200, limit - 130}
	var greatest uint64
	cur := starts[r.Intn(len(starts))]
	if cur > limit {
		cur = 0
	}
	var seen []uint64
	ops := make([]Op, 0, n)
	push := func(c uint64) {
		ops = append(ops, Op{C: c, L: limit})
		seen = append(seen, c)
		if c > greatest && c < limit {
			greatest = c
		}
	}
	push(cur)
	for len(ops) < n {
		switch x := r.Intn(100); {
		case x < 30: // forward
			j := jumps[r.Intn(len(jumps))]
			if r.Intn(8) == 0 {
				j = uint64(r.Int63n(20000)) + 1
			}
			c := greatest + j
			if c < greatest {
				c = ^uint64(0)
			}
			push(c)
		case x < 65: // behind the greatest
			b := backs[r.Intn(len(backs))]
			if r.Intn(4) == 0 {
				b = uint64(r.Int63n(8300))
			}
			if b > greatest {
				b = greatest
			}
			push(greatest - b)
		case x < 80: // duplicate
			push(seen[r.Intn(len(seen))])
		case x < 88: // block edge walk around greatest
			base := (greatest >> 6) << 6
			d := uint64(r.Intn(5))
			if r.Intn(2) == 0 && base >= 2 {
				push(base - 2 + d)
			} else {
				push(base + 62 + d)
			}
		case x < 95: // around the limit
			d := uint64(r.Intn(6))
			push(limit - 3 + d)
		case x < 97:
			push(^uint64(0) - uint64(r.Intn(3)))
		case x < 98:
			push(uint64(r.Int63()))
		default:
			ops = append(ops, Op{Reset: true})
			greatest = 0
			seen = seen[:0]
			seen = append(seen, 0)
		}
	}
	return ops, kind
}

// kernelSelfTest is the sequence of the kernel's selftest/counter.c, as in replay_test.go.
func kernelSelfTest() []Op {
	const T = 8128 // only positions matter; verdicts are computed, not assumed
	l := limitDev
	cs := []uint64{0, 1, 1, 9, 8, 7, 7, T, T - 1, T - 1, T - 2, 2, 2, T + 16, 3, T + 16, T * 4, T*4 - (T - 1), T*4 - T, T*4 - (T + 1), T*4 - (T - 2), T*4 + 1 - T, 0, l, l - 1, l, l - 1, l - 2, 2, 0, l + 1}
	ops := make([]Op, len(cs))
	for i, c := range cs {
		ops[i] = Op{C: c, L: l}
	}
	return ops
}

func gallina(c Case) string {
	var b strings.Builder
	var limit uint64
	for _, o := range c.Ops {
		if !o.Reset {
			limit = o.L
		}
	}
	fmt.Fprintf(&b, "mk %d [", limit)
	for i, o := range c.Ops {
		if i > 0 {
			b.WriteString(";")
		}
		if o.Reset {
			b.WriteString("1099511627776;0")
		} else {
			if o.L != limit {
				panic("one limit per history")
			}
			fmt.Fprintf(&b, "%d;%d", o.C>>32, o.C&0xffffffff)
		}
	}
	b.WriteString("]%uint63 [")
	for i, o := range c.Obs {
		if i > 0 {
			b.WriteString(";")
		}
		if o {
			b.WriteString("true")
		} else {
			b.WriteString("false")
		}
	}
	b.WriteString("]")
	return b.String()
}

func writeShard(path string, cases []Case) error {
	var b strings.Builder
	b.WriteString("From Coq Require Import Uint63.\nFrom WG Require Import Base.Prelude Replay.Model Replay.Spec Replay.Check.\nLocal Open Scope N_scope.\nDefinition cases : list case := [\n")
	for i, c := range cases {
		if i > 0 {
			b.WriteString(";\n")
		}
		b.WriteString(gallina(c))
	}
	b.WriteString("].\nDefinition bad := Eval vm_compute in (check_cases cases 0).\nPrint bad.\nDefinition st := Eval vm_compute in (stats cases).\nPrint st.\n")
	return os.WriteFile(path, []byte(b.String()), 0o644)
}

// runAux runs histories through the helper binary (another GOARCH) and returns them with its verdicts.
func runAux(exe, dir string, cases []Case) ([]Case, error) {
	in := filepath.Join(dir, "aux_in.json")
	outp := filepath.Join(dir, "aux_out.json")
	data, err := json.Marshal(cases)
	if err != nil {
		return nil, err
	}
	if err := os.WriteFile(in, data, 0o644); err != nil {
		return nil, err
	}
	if o, err := exec.Command(exe, in, outp).CombinedOutput(); err != nil {
		return nil, fmt.Errorf("aux %s: %v: %s", exe, err, o)
	}
	data, err = os.ReadFile(outp)
	if err != nil {
		return nil, err
	}
	var res []Case
	if err := json.Unmarshal(data, &res); err != nil {
		return nil, err
	}
	if len(res) != len(cases) {
		return nil, fmt.Errorf("aux returned %d histories for %d", len(res), len(cases))
	}
	return res, nil
}

func main() {
	seed := flag.Int64("seed", 1, "PRNG seed")
	n := flag.Int("n", 400, "number of histories")
	length := flag.Int("len", 150, "ops per history")
	shards := flag.Int("shards", 16, "case files")
	out := flag.String("out", "out/C05", "output directory")
	replayIn := flag.String("replay", "", "JSON file with cases (ops only) to run; observed verdicts are filled in")
	ndev := flag.Int("ndev", 30, "number of histories replayed through a real device (co-simulation)")
	corpus := flag.String("corpus", "", "directory of corpus JSON cases to prepend")
	aux := flag.String("aux386", "", "cmd/c05w built with GOARCH=386: the filter histories are run through it too")
	flag.Parse()
	if err := os.MkdirAll(*out, 0o755); err != nil {
		panic(err)
	}
	var cases []Case
	if *replayIn != "" {
		data, err := os.ReadFile(*replayIn)
		if err != nil {
			panic(err)
		}
		if err := json.Unmarshal(data, &cases); err != nil {
			panic(err)
		}
		for i := range cases {
			if cases[i].Gen == "device" {
				// a per-key device history replayed alone (one key, batches and forgeries re-drawn)
				cs, err := runDevice(rand.New(rand.NewSource(*seed+int64(i))), cases[i].Ops)
				if err != nil {
					fmt.Fprintln(os.Stderr, "device replay:", err)
					cases[i].Obs = make([]bool, len(cases[i].Ops))
					cases[i].Gen = "device-error: " + err.Error()
				} else if len(cs) > 0 {
					cases[i].Obs = cs[0].Obs
				}
			} else if strings.HasSuffix(cases[i].Gen, "-386") && *aux != "" {
				cs, err := runAux(*aux, *out, cases[i:i+1])
				if err != nil {
					panic(err)
				}
				cases[i].Obs = cs[0].Obs
			} else {
				cases[i].Obs = runImpl(cases[i].Ops)
			}
		}
		*shards = 1
	} else {
		if *corpus != "" {
			files, _ := filepath.Glob(filepath.Join(*corpus, "*.json"))
			for _, f := range files {
				data, err := os.ReadFile(f)
				if err != nil {
					continue
				}
				var cs []Case
				if json.Unmarshal(data, &cs) == nil {
					for _, c := range cs {
						c.Gen = "corpus"
						c.Obs = runImpl(c.Ops)
						cases = append(cases, c)
					}
				}
			}
		}
		k := kernelSelfTest()
		cases = append(cases, Case{Ops: k, Obs: runImpl(k), Gen: "kernel-selftest"})
		r := rand.New(rand.NewSource(*seed))
		for i := 0; i < *n; i++ {
			ln := *length
			if i%10 == 0 {
				ln = 5 + r.Intn(20)
			}
			ops, kind := genHistory(r, ln)
			cases = append(cases, Case{Ops: ops, Obs: runImpl(ops), Gen: kind})
		}
		// the same histories through a 32-bit build of the replay package (word-size assumptions)
		if *aux != "" {
			cs, err := runAux(*aux, *out, cases)
			if err != nil {
				panic(err)
			}
			for i := range cs {
				cs[i].Gen += "-386"
			}
			cases = append(cases, cs...)
		}
		// the same generator through the receive path of a real device
		type res struct {
			c   []Case
			err error
		}
		ch := make(chan res, *ndev)
		sem := make(chan struct{}, 8)
		for i := 0; i < *ndev; i++ {
			var ops []Op
			for {
				var kind string
				ops, kind = genHistory(r, 40+r.Intn(60))
				if kind == "dev-limit" {
					break
				}
			}
			sub := rand.New(rand.NewSource(r.Int63()))
			go func(ops []Op) {
				sem <- struct{}{}
				defer func() { <-sem }()
				cs, err := runDevice(sub, ops)
				ch <- res{cs, err}
			}(ops)
		}
		for i := 0; i < *ndev; i++ {
			x := <-ch
			if x.err != nil {
				// a forged datagram reaching the TUN, a double write or a hang is itself a failure:
				// keep it as a case whose verdicts cannot match the specification
				fmt.Fprintln(os.Stderr, "device history failed:", x.err)
				cases = append(cases, Case{Ops: []Op{{C: 0, L: limitDev}}, Obs: []bool{false}, Gen: "device-error: " + x.err.Error()})
				continue
			}
			cases = append(cases, x.c...)
		}
	}
	if *shards > len(cases) {
		*shards = len(cases)
	}
	per := (len(cases) + *shards - 1) / *shards
	idx := 0
	type shardInfo struct {
		File  string `json:"file"`
		First int    `json:"first"`
		N     int    `json:"n"`
	}
	var infos []shardInfo
	for s := 0; s < *shards && idx < len(cases); s++ {
		end := idx + per
		if end > len(cases) {
			end = len(cases)
		}
		name := fmt.Sprintf("cases_C05_%d.v", s)
		if err := writeShard(filepath.Join(*out, name), cases[idx:end]); err != nil {
			panic(err)
		}
		infos = append(infos, shardInfo{name, idx, end - idx})
		idx = end
	}
	meta := map[string]any{"seed": *seed, "cases": cases, "shards": infos}
	data, _ := json.Marshal(meta)
	if err := os.WriteFile(filepath.Join(*out, "cases.json"), data, 0o644); err != nil {
		panic(err)
	}
}
